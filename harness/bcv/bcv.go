// Package bcv is a bytecode verifier for tengo: an abstract interpretation
// (operand-stack height) of every function of a compiled program plus
// structural checks of every operand. Its opcode widths and stack effects are
// written from the VM's dispatch loop (vm.go), not taken from the compiler's
// tables, and are validated against the real VM by the probe cross-check.
package bcv

import (
	"fmt"
	"sort"

	"github.com/d5/tengo/v2"
)

// opcode numbers (parser/opcodes.go order; re-declared so that a renumbering
// on one side only is noticed)
const (
	OpConstant byte = iota
	OpBComplement
	OpPop
	OpTrue
	OpFalse
	OpEqual
	OpNotEqual
	OpMinus
	OpLNot
	OpJumpFalsy
	OpAndJump
	OpOrJump
	OpJump
	OpNull
	OpArray
	OpMap
	OpError
	OpImmutable
	OpIndex
	OpSliceIndex
	OpCall
	OpReturn
	OpGetGlobal
	OpSetGlobal
	OpSetSelGlobal
	OpGetLocal
	OpSetLocal
	OpDefineLocal
	OpSetSelLocal
	OpGetFreePtr
	OpGetFree
	OpSetFree
	OpGetLocalPtr
	OpSetSelFree
	OpGetBuiltin
	OpClosure
	OpIteratorInit
	OpIteratorNext
	OpIteratorKey
	OpIteratorValue
	OpBinaryOp
	OpSuspend
	numOpcodes
)

// operand widths as the VM reads them
var widths = [numOpcodes][]int{
	OpConstant: {2}, OpJumpFalsy: {4}, OpAndJump: {4}, OpOrJump: {4}, OpJump: {4},
	OpArray: {2}, OpMap: {2}, OpCall: {1, 1}, OpReturn: {1}, OpGetGlobal: {2}, OpSetGlobal: {2},
	OpSetSelGlobal: {2, 1}, OpGetLocal: {1}, OpSetLocal: {1}, OpDefineLocal: {1}, OpSetSelLocal: {1, 1},
	OpGetFreePtr: {1}, OpGetFree: {1}, OpSetFree: {1}, OpGetLocalPtr: {1}, OpSetSelFree: {1, 1},
	OpGetBuiltin: {1}, OpClosure: {2, 1}, OpBinaryOp: {1},
}

var names = [numOpcodes]string{"CONST", "BCOMPL", "POP", "TRUE", "FALSE", "EQL", "NEQ", "MINUS", "NOT", "JMPF", "ANDJMP",
	"ORJMP", "JMP", "NULL", "ARR", "MAP", "ERROR", "IMMUT", "INDEX", "SLICE", "CALL", "RET", "GETG", "SETG", "SETSG", "GETL",
	"SETL", "DEFL", "SETSL", "GETFP", "GETF", "SETF", "GETLP", "SETSF", "BUILTIN", "CLOSURE", "ITER", "ITNXT", "ITKEY",
	"ITVAL", "BINARYOP", "SUSPEND"}

// Inst is one decoded instruction.
type Inst struct {
	Pos int
	Op  byte
	A   []int
	Len int
}

func (i Inst) String() string { return fmt.Sprintf("%04d %s %v", i.Pos, names[i.Op], i.A) }

// Issue is one violation of the structural rules.
type Issue struct {
	Func string // "main" or "const#N"
	Pos  int
	Rule string
	Msg  string
}

func (i Issue) String() string { return fmt.Sprintf("%s@%04d [%s] %s", i.Func, i.Pos, i.Rule, i.Msg) }

// FuncReport is the verifier's result for one function.
type FuncReport struct {
	Name    string
	Fn      *tengo.CompiledFunction
	Insts   []Inst
	Height  map[int]int // instruction offset -> operand-stack height on entry (reachable code only)
	NumFree int
	IsMain  bool
}

// Report is the result for a whole program.
type Report struct {
	Funcs   []*FuncReport
	Issues  []Issue
	Visited int // instructions visited by the abstract interpretation
	Jumps   int
}

// Decode splits an instruction stream.
func Decode(code []byte) ([]Inst, error) {
	var out []Inst
	for i := 0; i < len(code); {
		op := code[i]
		if op >= numOpcodes {
			return out, fmt.Errorf("unknown opcode %d at %d", op, i)
		}
		in := Inst{Pos: i, Op: op}
		off := i + 1
		for _, w := range widths[op] {
			if off+w > len(code) {
				return out, fmt.Errorf("%s at %d: operand runs past the end of the stream", names[op], i)
			}
			v := 0
			for k := 0; k < w; k++ {
				v = v<<8 | int(code[off+k])
			}
			in.A = append(in.A, v)
			off += w
		}
		in.Len = off - i
		out = append(out, in)
		i = off
	}
	return out, nil
}

// Verify checks every function of bc. numGlobals is the number of global
// slots in use (symbol table MaxSymbols); numBuiltins the number of builtin
// functions.
func Verify(bc *tengo.Bytecode, numGlobals, numBuiltins int) *Report {
	rep := &Report{}
	add := func(fn string, pos int, rule, format string, args ...interface{}) {
		rep.Issues = append(rep.Issues, Issue{Func: fn, Pos: pos, Rule: rule, Msg: fmt.Sprintf(format, args...)})
	}
	if numGlobals > 1024 {
		add("main", 0, "operand-range", "%d globals in use, the VM has 1024 slots", numGlobals)
	}
	type fdesc struct {
		name string
		fn   *tengo.CompiledFunction
		main bool
	}
	fns := []fdesc{{"main", bc.MainFunction, true}}
	constIdx := map[*tengo.CompiledFunction]int{}
	for i, c := range bc.Constants {
		if f, ok := c.(*tengo.CompiledFunction); ok {
			constIdx[f] = i
			fns = append(fns, fdesc{fmt.Sprintf("const#%d", i), f, false})
		}
	}
	// first pass: decode all, collect the free-variable count each function
	// constant is created with
	decoded := map[*tengo.CompiledFunction][]Inst{}
	numFree := map[int]int{} // const index -> numFree (min over creators); -1 plain CONST use
	for _, f := range fns {
		ins, err := Decode(f.fn.Instructions)
		if err != nil {
			add(f.name, 0, "decode", "%v", err)
		}
		decoded[f.fn] = ins
		for k, in := range ins {
			switch in.Op {
			case OpClosure:
				ci, nf := in.A[0], in.A[1]
				if ci >= len(bc.Constants) {
					continue
				}
				if _, ok := bc.Constants[ci].(*tengo.CompiledFunction); !ok {
					continue
				}
				if old, ok := numFree[ci]; !ok || nf < old {
					numFree[ci] = nf
				}
				// the nf values consumed must be variable pointers: exactly nf
				// GETLP/GETFP precede, possibly interleaved with NULL;DEFL pairs
				cnt := 0
				j := k - 1
				for j >= 0 && cnt < nf {
					switch ins[j].Op {
					case OpGetLocalPtr, OpGetFreePtr:
						cnt++
						j--
					case OpDefineLocal:
						if j >= 1 && ins[j-1].Op == OpNull {
							j -= 2
						} else {
							j = -1
						}
					default:
						j = -1
					}
				}
				if cnt != nf {
					add(f.name, in.Pos, "closure-free", "CLOSURE takes %d free variables but only %d pointer loads precede it", nf, cnt)
				}
			case OpConstant:
				ci := in.A[0]
				if ci < len(bc.Constants) {
					if _, ok := bc.Constants[ci].(*tengo.CompiledFunction); ok {
						if _, seen := numFree[ci]; !seen {
							numFree[ci] = 0
						} else if numFree[ci] > 0 {
							numFree[ci] = 0
						}
					}
				}
			}
		}
	}
	for _, f := range fns {
		fr := &FuncReport{Name: f.name, Fn: f.fn, Insts: decoded[f.fn], IsMain: f.main, Height: map[int]int{}}
		if !f.main {
			if nf, ok := numFree[constIdx[f.fn]]; ok {
				fr.NumFree = nf
			} else {
				fr.NumFree = -1 // never referenced: free-variable operands cannot be judged
			}
		}
		rep.Funcs = append(rep.Funcs, fr)
		verifyFunc(rep, fr, bc, numGlobals, numBuiltins, add)
	}
	return rep
}

func verifyFunc(rep *Report, fr *FuncReport, bc *tengo.Bytecode, numGlobals, numBuiltins int,
	add func(fn string, pos int, rule, format string, args ...interface{})) {
	fn, ins := fr.Fn, fr.Insts
	name := fr.Name
	if fn.NumLocals > 256 {
		add(name, 0, "operand-range", "NumLocals=%d exceeds the 1-byte local operand", fn.NumLocals)
	}
	if fn.NumParameters > fn.NumLocals {
		add(name, 0, "operand-range", "NumParameters=%d > NumLocals=%d", fn.NumParameters, fn.NumLocals)
	}
	index := map[int]int{} // offset -> instruction index
	for i, in := range ins {
		index[in.Pos] = i
	}
	end := len(fn.Instructions)
	if len(ins) == 0 {
		add(name, 0, "fall-off", "empty instruction stream")
		return
	}
	// per-instruction operand checks (all instructions, reachable or not)
	for _, in := range ins {
		switch in.Op {
		case OpJump, OpJumpFalsy, OpAndJump, OpOrJump:
			rep.Jumps++
			if _, ok := index[in.A[0]]; !ok {
				add(name, in.Pos, "jump-target", "%s to %d which is not an instruction boundary of this function (len %d)", names[in.Op], in.A[0], end)
			}
		case OpConstant:
			if in.A[0] >= len(bc.Constants) {
				add(name, in.Pos, "operand-range", "CONST %d of %d", in.A[0], len(bc.Constants))
			}
		case OpClosure:
			if in.A[0] >= len(bc.Constants) {
				add(name, in.Pos, "operand-range", "CLOSURE const %d of %d", in.A[0], len(bc.Constants))
			} else if _, ok := bc.Constants[in.A[0]].(*tengo.CompiledFunction); !ok {
				add(name, in.Pos, "closure-const", "CLOSURE const %d is %T, not a function", in.A[0], bc.Constants[in.A[0]])
			}
		case OpGetLocal, OpSetLocal, OpDefineLocal, OpGetLocalPtr, OpSetSelLocal:
			if in.A[0] >= fn.NumLocals {
				add(name, in.Pos, "operand-range", "%s %d with NumLocals=%d", names[in.Op], in.A[0], fn.NumLocals)
			}
		case OpGetFree, OpSetFree, OpGetFreePtr, OpSetSelFree:
			if fr.IsMain {
				add(name, in.Pos, "operand-range", "%s in main", names[in.Op])
			} else if fr.NumFree >= 0 && in.A[0] >= fr.NumFree {
				add(name, in.Pos, "operand-range", "%s %d but the function is created with %d free variables", names[in.Op], in.A[0], fr.NumFree)
			}
		case OpGetBuiltin:
			if in.A[0] >= numBuiltins {
				add(name, in.Pos, "operand-range", "BUILTIN %d of %d", in.A[0], numBuiltins)
			}
		case OpGetGlobal, OpSetGlobal, OpSetSelGlobal:
			if in.A[0] >= numGlobals || in.A[0] >= 1024 {
				add(name, in.Pos, "operand-range", "%s %d with %d globals in use", names[in.Op], in.A[0], numGlobals)
			}
		case OpReturn:
			if in.A[0] > 1 {
				add(name, in.Pos, "operand-range", "RET %d", in.A[0])
			}
			if fr.IsMain {
				add(name, in.Pos, "structure", "RET in the main function")
			}
		case OpSuspend:
			if !fr.IsMain {
				// module functions end with SUSPEND after their RET (Bytecode() appends it); it must be unreachable
			}
		case OpBinaryOp:
			// token operand: any byte
		}
	}
	// abstract interpretation of the operand-stack height
	type item struct{ idx, h int }
	work := []item{{0, 0}}
	height := fr.Height
	for len(work) > 0 {
		it := work[len(work)-1]
		work = work[:len(work)-1]
		in := ins[it.idx]
		if old, seen := height[in.Pos]; seen {
			if old != it.h {
				add(name, in.Pos, "stack-height", "reached with heights %d and %d", old, it.h)
			}
			continue
		}
		height[in.Pos] = it.h
		rep.Visited++
		h := it.h
		need := func(n int) bool {
			if h < n {
				add(name, in.Pos, "stack-underflow", "%s needs %d operands, height is %d", names[in.Op], n, h)
				return false
			}
			return true
		}
		next := func(nh int) {
			if it.idx+1 >= len(ins) {
				add(name, in.Pos, "fall-off", "execution runs past the end of the function after %s", names[in.Op])
				return
			}
			work = append(work, item{it.idx + 1, nh})
		}
		jump := func(target, nh int) {
			if ti, ok := index[target]; ok {
				work = append(work, item{ti, nh})
			}
		}
		switch in.Op {
		case OpConstant, OpNull, OpTrue, OpFalse, OpGetGlobal, OpGetLocal, OpGetBuiltin, OpGetFree, OpGetFreePtr, OpGetLocalPtr:
			next(h + 1)
		case OpBinaryOp, OpEqual, OpNotEqual, OpIndex:
			if need(2) {
				next(h - 1)
			}
		case OpPop, OpSetGlobal, OpSetLocal, OpDefineLocal, OpSetFree:
			if need(1) {
				next(h - 1)
			}
		case OpLNot, OpBComplement, OpMinus, OpError, OpImmutable, OpIteratorInit, OpIteratorNext, OpIteratorKey, OpIteratorValue:
			if need(1) {
				next(h)
			}
		case OpSliceIndex:
			if need(3) {
				next(h - 2)
			}
		case OpJumpFalsy:
			if need(1) {
				next(h - 1)
				jump(in.A[0], h-1)
			}
		case OpAndJump, OpOrJump:
			if need(1) {
				next(h - 1)
				jump(in.A[0], h)
			}
		case OpJump:
			jump(in.A[0], h)
		case OpSetSelGlobal, OpSetSelLocal, OpSetSelFree:
			n := in.A[1]
			if n == 0 {
				add(name, in.Pos, "operand-range", "%s with 0 selectors", names[in.Op])
			}
			if need(n + 1) {
				next(h - n - 1)
			}
		case OpArray:
			if need(in.A[0]) {
				next(h - in.A[0] + 1)
			}
		case OpMap:
			if in.A[0]%2 != 0 {
				add(name, in.Pos, "operand-range", "MAP with odd element count %d", in.A[0])
			}
			if need(in.A[0]) {
				next(h - in.A[0] + 1)
			}
		case OpCall:
			if in.A[1] > 1 {
				add(name, in.Pos, "operand-range", "CALL spread flag %d", in.A[1])
			}
			if in.A[1] == 1 && in.A[0] == 0 {
				add(name, in.Pos, "operand-range", "CALL with spread but no argument")
			}
			if need(in.A[0] + 1) {
				next(h - in.A[0])
			}
		case OpClosure:
			if need(in.A[1]) {
				next(h - in.A[1] + 1)
			}
		case OpReturn:
			if in.A[0] == 1 && h != 1 {
				add(name, in.Pos, "stack-height", "RET 1 with height %d", h)
			}
			if in.A[0] == 0 && h != 0 {
				add(name, in.Pos, "stack-height", "RET 0 with height %d", h)
			}
		case OpSuspend:
			if h != 0 {
				add(name, in.Pos, "stack-height", "SUSPEND with height %d", h)
			}
			if !fr.IsMain {
				add(name, in.Pos, "structure", "SUSPEND reachable in a function")
			}
		}
	}
	// source map keys must be instruction boundaries
	keys := make([]int, 0, len(fn.SourceMap))
	for k := range fn.SourceMap {
		keys = append(keys, k)
	}
	sort.Ints(keys)
	for _, k := range keys {
		if _, ok := index[k]; !ok {
			add(name, k, "source-map", "source map key %d is not an instruction boundary", k)
		}
	}
}

// Reachable returns the set of instruction offsets reachable from offset 0
// in a raw stream (used by C03 on the pre-optimization code).
func Reachable(code []byte) (map[int]bool, error) {
	ins, err := Decode(code)
	if err != nil {
		return nil, err
	}
	index := map[int]int{}
	for i, in := range ins {
		index[in.Pos] = i
	}
	seen := map[int]bool{}
	work := []int{0}
	for len(work) > 0 {
		i := work[len(work)-1]
		work = work[:len(work)-1]
		if i >= len(ins) || seen[ins[i].Pos] {
			continue
		}
		in := ins[i]
		seen[in.Pos] = true
		switch in.Op {
		case OpJump:
			if t, ok := index[in.A[0]]; ok {
				work = append(work, t)
			}
		case OpJumpFalsy, OpAndJump, OpOrJump:
			if t, ok := index[in.A[0]]; ok {
				work = append(work, t)
			}
			work = append(work, i+1)
		case OpReturn, OpSuspend:
		default:
			work = append(work, i+1)
		}
	}
	return seen, nil
}
