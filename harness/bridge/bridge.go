// Package bridge connects the harness's own program representation (lang)
// with the code under test: it instantiates host inputs as tengo objects and
// compiles/runs rendered programs through the public Script API.
package bridge

import (
	"context"
	"errors"
	"fmt"
	"math"
	"sort"
	"strings"
	"time"

	"github.com/d5/tengo/v2"

	"verifharness/lang"
	"verifharness/tv"
)

// HostFuncs are the host functions a program may receive as inputs; the
// reference interpreter implements the same ones (ref.callHost).
var ErrHost = errors.New("host function failed")

func hostFn(name string) tengo.CallableFunc {
	switch name {
	case "hf_len":
		return func(args ...tengo.Object) (tengo.Object, error) {
			return &tengo.Int{Value: int64(len(args))}, nil
		}
	case "hf_first":
		return func(args ...tengo.Object) (tengo.Object, error) {
			if len(args) == 0 {
				return nil, nil
			}
			return args[0], nil
		}
	case "hf_err":
		return func(args ...tengo.Object) (tengo.Object, error) {
			return nil, ErrHost
		}
	case "hf_pack":
		// keeps the argument slice it was given (ordinary host code: nothing
		// says a CallableFunc must copy args before retaining it)
		return func(args ...tengo.Object) (tengo.Object, error) {
			return &tengo.Array{Value: args}, nil
		}
	case "hf_args":
		return func(args ...tengo.Object) (tengo.Object, error) {
			if len(args) != 2 {
				return nil, tengo.ErrWrongNumArguments
			}
			return &tengo.Array{Value: []tengo.Object{args[1], args[0]}}, nil
		}
	}
	panic("bridge: unknown host function " + name)
}

// ToObject instantiates a host input description as a tengo object.
func ToObject(v *lang.Val, memo map[int]tengo.Object) tengo.Object {
	if v == nil {
		return tengo.UndefinedValue
	}
	if v.Share > 0 {
		if x, ok := memo[v.Share]; ok {
			return x
		}
	}
	var out tengo.Object
	switch v.T {
	case "int":
		out = &tengo.Int{Value: v.I}
	case "float":
		out = &tengo.Float{Value: math.Float64frombits(v.Bits)}
	case "char":
		out = &tengo.Char{Value: rune(v.I)}
	case "string":
		out = &tengo.String{Value: string(v.S)}
	case "bytes":
		out = &tengo.Bytes{Value: append([]byte{}, v.S...)}
	case "bool":
		if v.B {
			out = tengo.TrueValue
		} else {
			out = tengo.FalseValue
		}
	case "undefined":
		out = tengo.UndefinedValue
	case "time":
		if v.ZeroT {
			out = &tengo.Time{}
		} else {
			loc := time.UTC
			if v.Zone != 0 {
				loc = time.FixedZone("Z", v.Zone)
			}
			out = &tengo.Time{Value: time.Unix(v.Sec, v.Nsec).In(loc)}
		}
	case "error":
		e := &tengo.Error{}
		if v.Share > 0 {
			memo[v.Share] = e
		}
		if len(v.Kids) > 0 {
			e.Value = ToObject(v.Kids[0], memo)
		} else {
			e.Value = tengo.UndefinedValue
		}
		return e
	case "array", "imm-array":
		elems := make([]tengo.Object, len(v.Kids))
		var o tengo.Object
		if v.T == "array" {
			o = &tengo.Array{Value: elems}
		} else {
			o = &tengo.ImmutableArray{Value: elems}
		}
		if v.Share > 0 {
			memo[v.Share] = o
		}
		for i, k := range v.Kids {
			elems[i] = ToObject(k, memo)
		}
		return o
	case "map", "imm-map":
		m := make(map[string]tengo.Object, len(v.Kids))
		var o tengo.Object
		if v.T == "map" {
			o = &tengo.Map{Value: m}
		} else {
			o = &tengo.ImmutableMap{Value: m}
		}
		if v.Share > 0 {
			memo[v.Share] = o
		}
		for i, k := range v.Kids {
			m[v.Keys[i]] = ToObject(k, memo)
		}
		return o
	case "builtin":
		for _, f := range tengo.GetAllBuiltinFunctions() {
			if f.Name == v.Name {
				out = f
			}
		}
		if out == nil {
			panic("bridge: unknown builtin " + v.Name)
		}
	case "hostfn":
		out = &tengo.UserFunction{Name: v.Name, Value: hostFn(v.Name)}
	default:
		panic("bridge: unknown kind " + v.T)
	}
	if v.Share > 0 {
		memo[v.Share] = out
	}
	return out
}

// Result of running a program on the code under test.
type Result struct {
	Status   string // ok | compile-error | runtime-error | timeout | panic
	Err      error
	ErrText  string
	Globals  map[string]tengo.Object
	Compiled *tengo.Compiled
	Elapsed  time.Duration
	Retried  bool // the first attempt missed the default timeout; this is the second attempt's result
}

// Config for Run.
type Config struct {
	MaxAllocs int64 // 0 means "leave default (-1)"; use SetAllocs to pass 0
	SetAllocs bool
	Timeout   time.Duration
	Modules   *tengo.ModuleMap
	UseRun    bool // use Compiled.Run instead of RunContext
}

// SlowRetry is the time a run that missed the default 5 s gets on its second
// attempt before it is called a hang.
const SlowRetry = 180 * time.Second

// Run compiles and runs src (with source modules) through the Script API. A
// run that does not finish within the default 5 s is not judged by the clock:
// it is repeated from scratch with SlowRetry, and only a run that misses that
// as well has status "timeout" (a program the reference executes in a few
// thousand steps can still copy or freeze values of tens of thousands of
// nodes in a loop, which takes seconds on a loaded machine).
func Run(src string, modules map[string]string, inputs map[string]*lang.Val, cfg Config) (res *Result) {
	res = runOnce(src, modules, inputs, cfg)
	if res.Status == "timeout" && cfg.Timeout == 0 {
		cfg.Timeout = SlowRetry
		first := res.Elapsed
		res = runOnce(src, modules, inputs, cfg)
		res.Elapsed += first
		res.Retried = true
	}
	return res
}

func runOnce(src string, modules map[string]string, inputs map[string]*lang.Val, cfg Config) (res *Result) {
	res = &Result{Globals: map[string]tengo.Object{}}
	start := time.Now()
	defer func() {
		res.Elapsed = time.Since(start)
		if r := recover(); r != nil {
			res.Status = "panic"
			res.ErrText = fmt.Sprint(r)
			res.Err = fmt.Errorf("panic: %v", r)
		}
	}()
	s := tengo.NewScript([]byte(src))
	mm := cfg.Modules
	if mm == nil {
		mm = tengo.NewModuleMap()
	} else {
		mm = mm.Copy()
	}
	for name, msrc := range modules {
		mm.AddSourceModule(name, []byte(msrc))
	}
	s.SetImports(mm)
	memo := map[int]tengo.Object{}
	names := make([]string, 0, len(inputs))
	for k := range inputs {
		names = append(names, k)
	}
	sort.Strings(names)
	for _, k := range names {
		if err := s.Add(k, ToObject(inputs[k], memo)); err != nil {
			res.Status = "compile-error"
			res.Err = err
			res.ErrText = err.Error()
			return
		}
	}
	if cfg.SetAllocs {
		s.SetMaxAllocs(cfg.MaxAllocs)
	}
	c, err := s.Compile()
	if err != nil {
		res.Status = "compile-error"
		res.Err = err
		res.ErrText = err.Error()
		return
	}
	res.Compiled = c
	to := cfg.Timeout
	if to == 0 {
		to = 5 * time.Second
	}
	if cfg.UseRun {
		err = c.Run()
	} else {
		ctx, cancel := context.WithTimeout(context.Background(), to)
		err = c.RunContext(ctx)
		cancel()
		if err != nil && errors.Is(err, context.DeadlineExceeded) {
			res.Status = "timeout"
			res.Err = err
			res.ErrText = err.Error()
			return
		}
	}
	for _, v := range c.GetAll() {
		res.Globals[v.Name()] = v.Object()
	}
	if err != nil {
		res.Status = "runtime-error"
		res.Err = err
		res.ErrText = err.Error()
		return
	}
	res.Status = "ok"
	return
}

// DescribeGlobals renders globals as ref.DescribeGlobals does; names of
// builtin functions (pre-declared in every script's symbol table) are
// skipped, as are names in skip.
func DescribeGlobals(g map[string]tengo.Object, only map[string]bool) string {
	names := make([]string, 0, len(g))
	for k := range g {
		if only != nil && !only[k] {
			continue
		}
		names = append(names, k)
	}
	sort.Strings(names)
	var sb strings.Builder
	for _, k := range names {
		sb.WriteString(k + "=" + tv.Describe(g[k]) + ";")
	}
	return sb.String()
}

// ErrorKind maps a tengo run-time error text to the reference's error kinds
// (used for classification only).
func ErrorKind(text string) string {
	t := text
	switch {
	case strings.Contains(t, "invalid operation"):
		return "invalid-op"
	case strings.Contains(t, "not callable"):
		return "not-callable"
	case strings.Contains(t, "wrong number of arguments"):
		return "wrong-args"
	case strings.Contains(t, "not indexable"):
		return "not-indexable"
	case strings.Contains(t, "invalid index type"):
		return "index-type"
	case strings.Contains(t, "index out of bounds"):
		return "oob"
	case strings.Contains(t, "not index-assignable"):
		return "not-assignable"
	case strings.Contains(t, "invalid slice index type"):
		return "slice-type"
	case strings.Contains(t, "invalid slice index"):
		return "slice-bounds"
	case strings.Contains(t, "not iterable"):
		return "not-iterable"
	case strings.Contains(t, "not an array"):
		return "not-array"
	case strings.Contains(t, "invalid type for argument"):
		return "arg-type"
	case strings.Contains(t, "division by zero"):
		return "div-zero"
	case strings.Contains(t, "range step"):
		return "range-step"
	case strings.Contains(t, "invalid index on error"):
		return "error-index"
	case strings.Contains(t, "host function failed"):
		return "host-error"
	case strings.Contains(t, "exceeding string size limit"):
		return "string-limit"
	case strings.Contains(t, "exceeding bytes size limit"):
		return "bytes-limit"
	case strings.Contains(t, "allocation limit"):
		return "alloc-limit"
	case strings.Contains(t, "stack overflow"):
		return "stack-overflow"
	case strings.Contains(t, "makeslice"):
		return "host-panic"
	}
	return "other"
}

// Unit is a program compiled through the public parser + compiler API
// (no de-duplication, no Script wrapper).
type Unit struct {
	Bytecode   *tengo.Bytecode
	Symbols    *tengo.SymbolTable
	NumGlobals int
	Globals    []tengo.Object  // fresh globals slice with the inputs installed
	Index      map[string]int  // root-level global name -> slot
	Modules    *tengo.ModuleMap
}
