package bridge

import (
	"github.com/d5/tengo/v2"

	"verifharness/ref"
)

// HostModName is the builtin (Go) module the generated programs may import.
const HostModName = "hostmod"

// HostModule returns the module as the host registers it with tengo.
func HostModule() *tengo.BuiltinModule {
	return &tengo.BuiltinModule{Attrs: map[string]tengo.Object{
		"answer": &tengo.Int{Value: 42},
		"name":   &tengo.String{Value: "hm"},
		"pi":     &tengo.Float{Value: 3.5},
		"flag":   tengo.TrueValue,
		"list":   &tengo.Array{Value: []tengo.Object{&tengo.Int{Value: 1}, &tengo.Int{Value: 2}, &tengo.Int{Value: 3}}},
		"conf":   &tengo.Map{Value: map[string]tengo.Object{"a": &tengo.Int{Value: 1}, "b": &tengo.String{Value: "x"}}},
		"count":  &tengo.UserFunction{Name: "hf_len", Value: hostFn("hf_len")},
	}}
}

// HostModuleMap returns a module map holding the host module.
func HostModuleMap() *tengo.ModuleMap {
	mm := tengo.NewModuleMap()
	mm.AddBuiltinModule(HostModName, HostModule().Attrs)
	return mm
}

// HostModRef is the same module for the reference interpreter.
func HostModRef() map[string]map[string]ref.Value {
	pol := ref.Policy{Cap: "exact"}
	return map[string]map[string]ref.Value{HostModName: {
		"answer": ref.IntV(42),
		"name":   ref.StrV("hm"),
		"pi":     ref.FloatV(3.5),
		"flag":   ref.BoolV(true),
		"list":   pol.NewArr([]ref.Value{ref.IntV(1), ref.IntV(2), ref.IntV(3)}),
		"conf":   &ref.MapV{Ms: &ref.MapStore{M: map[string]ref.Value{"a": ref.IntV(1), "b": ref.StrV("x")}}},
		"count":  &ref.HostFnV{Name: "hf_len"},
	}}
}
