package bridge

import (
	"fmt"
	"sort"

	"github.com/d5/tengo/v2"
	"github.com/d5/tengo/v2/parser"

	"verifharness/lang"
)

// CompileUnit compiles src through parser.NewParser + tengo.NewCompiler.
// A compiler panic is returned as an error with Panicked set.
type CompileError struct {
	Err      error
	Panicked bool
}

func (e *CompileError) Error() string { return e.Err.Error() }

// NewGlobals builds a fresh globals slice holding the inputs.
func NewGlobals(st *tengo.SymbolTable, inputs map[string]*lang.Val) []tengo.Object {
	g := make([]tengo.Object, tengo.GlobalsSize)
	memo := map[int]tengo.Object{}
	names := make([]string, 0, len(inputs))
	for k := range inputs {
		names = append(names, k)
	}
	sort.Strings(names)
	for _, k := range names {
		s, _, ok := st.Resolve(k, false)
		if ok && s.Scope == tengo.ScopeGlobal {
			g[s.Index] = ToObject(inputs[k], memo)
		}
	}
	return g
}

func CompileUnit(src string, mods map[string]string, inputs map[string]*lang.Val, base *tengo.ModuleMap) (u *Unit, cerr *CompileError) {
	defer func() {
		if r := recover(); r != nil {
			u = nil
			cerr = &CompileError{Err: fmt.Errorf("panic: %v", r), Panicked: true}
		}
	}()
	fs := parser.NewFileSet()
	sf := fs.AddFile("(main)", -1, len(src))
	p := parser.NewParser(sf, []byte(src), nil)
	file, err := p.ParseFile()
	if err != nil {
		return nil, &CompileError{Err: err}
	}
	st := tengo.NewSymbolTable()
	names := make([]string, 0, len(inputs))
	for k := range inputs {
		names = append(names, k)
	}
	sort.Strings(names)
	for _, k := range names {
		st.Define(k)
	}
	mm := base
	if mm == nil {
		mm = tengo.NewModuleMap()
	} else {
		mm = mm.Copy()
	}
	for k, v := range mods {
		mm.AddSourceModule(k, []byte(v))
	}
	comp := tengo.NewCompiler(sf, st, nil, mm, nil)
	if err := comp.Compile(file); err != nil {
		return nil, &CompileError{Err: err}
	}
	u = &Unit{Bytecode: comp.Bytecode(), Symbols: st, NumGlobals: st.MaxSymbols(), Modules: mm, Index: map[string]int{}}
	for _, name := range st.Names() {
		s, _, _ := st.Resolve(name, false)
		if s != nil && s.Scope == tengo.ScopeGlobal {
			u.Index[name] = s.Index
		}
	}
	u.Globals = NewGlobals(st, inputs)
	return u, nil
}

// VMResult of RunVM.
type VMResult struct {
	Status  string // ok | runtime-error | panic | budget
	ErrText string
	Err     error
	Globals map[string]tengo.Object
	Steps   int
	Allocs  int64 // tracked allocations performed (from the VM's counter), valid for maxAllocs < 0
}

// RunVM executes bc on a fresh VM with the given globals, bounded by an
// instruction budget enforced through the VM probe (hook build).
func RunVM(bc *tengo.Bytecode, globals []tengo.Object, index map[string]int, budget int, maxAllocs int64) (res *VMResult) {
	res = &VMResult{Globals: map[string]tengo.Object{}}
	vm := tengo.NewVM(bc, globals, maxAllocs)
	over := false
	var left int64
	tengo.VerifSetProbe(func(v *tengo.VM) {
		res.Steps++
		left = v.VerifAllocsLeft()
		if res.Steps > budget {
			over = true
			v.Abort()
		}
	})
	defer tengo.VerifSetProbe(nil)
	func() {
		defer func() {
			if r := recover(); r != nil {
				res.Status = "panic"
				res.ErrText = fmt.Sprint(r)
			}
		}()
		res.Err = vm.Run()
	}()
	if maxAllocs < 0 {
		res.Allocs = -left
	} else {
		res.Allocs = maxAllocs + 1 - left
	}
	for name, idx := range index {
		if idx < len(globals) {
			o := globals[idx]
			if o == nil {
				o = tengo.UndefinedValue
			}
			res.Globals[name] = o
		}
	}
	switch {
	case res.Status == "panic":
	case over:
		res.Status = "budget"
	case res.Err != nil:
		res.Status = "runtime-error"
		res.ErrText = res.Err.Error()
	default:
		res.Status = "ok"
	}
	return res
}
