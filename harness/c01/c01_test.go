// C01 — compile-and-run agrees with the language's reference semantics.
package c01

import (
	"encoding/json"
	"fmt"
	"os"
	"path/filepath"
	"sort"
	"strings"
	"testing"

	"pgregory.net/rapid"

	"verifharness/bridge"
	"verifharness/ev"
	"verifharness/gen"
	"verifharness/lang"
	"verifharness/ref"
	"verifharness/refx"
)

func TestMain(m *testing.M) { ev.Main(m, "C01") }

type payload struct {
	Program *lang.Program        `json:"program"`
	Inputs  map[string]*lang.Val `json:"inputs"`
	Source  string               `json:"source"` // echo
	HostMod bool                 `json:"hostmod,omitempty"`
}

func render(p *lang.Program) (string, map[string]string) {
	rd := lang.Render
	if p.MinParens {
		rd = lang.RenderMin
	}
	src := rd(p.Main)
	mods := map[string]string{}
	for k, b := range p.Modules {
		mods[k] = rd(b)
	}
	return src, mods
}

func refRun(p *lang.Program, inputs map[string]*lang.Val, pol ref.Policy, hostMod bool) *ref.Outcome {
	memo := map[int]ref.Value{}
	in := map[string]ref.Value{}
	names := make([]string, 0, len(inputs))
	for k := range inputs {
		names = append(names, k)
	}
	sort.Strings(names)
	for _, k := range names {
		in[k] = ref.FromVal(inputs[k], pol, memo)
	}
	cfg := ref.DefaultConfig()
	if hostMod {
		cfg.HostMods = bridge.HostModRef()
	}
	return ref.Run(p, in, pol, cfg)
}

// compileClass maps tengo's compile error text to the resolver's classes.
func compileClass(text string) string {
	switch {
	case strings.Contains(text, "unresolved reference"):
		return "unresolved"
	case strings.Contains(text, "redeclared in this block"):
		return "redeclared"
	case strings.Contains(text, "not allowed with selector"):
		return "define-selector"
	case strings.Contains(text, "break not allowed outside loop"):
		return "break-outside"
	case strings.Contains(text, "continue not allowed outside loop"):
		return "continue-outside"
	case strings.Contains(text, "return not allowed outside function"):
		return "return-outside"
	case strings.Contains(text, "export not allowed inside function"):
		return "export-in-func"
	case strings.Contains(text, "not found"):
		return "module-not-found"
	case strings.Contains(text, "cyclic module import"):
		return "cyclic-import"
	case strings.Contains(text, "cannot assign to builtin"):
		return "assign-builtin"
	}
	return "other:" + text
}

type verdict struct {
	discard string
	fail    string
	ref     *ref.Outcome
	res     *bridge.Result
}

// decide runs the reference under every policy and the code under test, and
// compares. It returns a discard reason, or a failure message, or neither.
// decide is decideOnce plus the exhaustive domain check on the failure path:
// the four fixed policies of the fast filter cannot show every dependence on
// map order (a three-key map has six orders), so before a mismatch is
// reported the reference is run under every order of every map traversal and
// every capacity behaviour (refx.AllOutcomes); a program with more than one
// outcome there is outside C01's domain.
func decide(p *lang.Program, inputs map[string]*lang.Val, hostMod bool) verdict {
	v := decideOnce(p, inputs, hostMod)
	if v.fail != "" && v.res != nil && v.res.Status != "panic" && v.res.Status != "timeout" {
		cfg := ref.DefaultConfig()
		if hostMod {
			cfg.HostMods = bridge.HostModRef()
		}
		if refx.OrderDependent(p, inputs, cfg) {
			return verdict{discard: "excluded:capacity-or-map-order-dependent (exhaustive enumeration after a mismatch)", ref: v.ref}
		}
	}
	return v
}

func decideOnce(p *lang.Program, inputs map[string]*lang.Val, hostMod bool) verdict {
	var outs []*ref.Outcome
	for _, pol := range ref.Policies {
		o := refRun(p, inputs, pol, hostMod)
		if o.Status == "abort" {
			reason := o.Abort
			if i := strings.Index(reason, ":"); i > 0 {
				reason = reason[:i]
			}
			return verdict{discard: "excluded:" + reason, ref: o}
		}
		outs = append(outs, o)
	}
	for _, o := range outs[1:] {
		if o.Key() != outs[0].Key() {
			why := "capacity-or-map-order-dependent"
			return verdict{discard: "excluded:" + why, ref: outs[0]}
		}
	}
	o := outs[0]
	src, mods := render(p)
	if tf := os.Getenv("VERIF_TRACE"); tf != "" {
		// last case handed to the code under test (for fatal crashes)
		b, _ := json.Marshal(payload{Program: p, Inputs: inputs, Source: src, HostMod: hostMod})
		_ = os.WriteFile(tf, b, 0o644)
	}
	bcfg := bridge.Config{}
	if hostMod {
		bcfg.Modules = bridge.HostModuleMap()
	}
	res := bridge.Run(src, mods, inputs, bcfg)
	if res.Retried {
		ev.Note("slow run repeated with the long timeout")
	}
	v := verdict{ref: o, res: res}
	switch res.Status {
	case "panic":
		v.fail = fmt.Sprintf("panic escaped the Script API: %s", res.ErrText)
		return v
	case "timeout":
		v.fail = fmt.Sprintf("reference terminates in %d steps but the run did not finish in 5 s, nor in %v when repeated", o.Stats.Steps, bridge.SlowRetry)
		return v
	}
	if res.Status != o.Status {
		detail := ""
		if o.RErr != nil {
			detail = " ref error: " + o.RErr.Error()
		}
		if o.CErr != nil {
			detail = " ref error: " + o.CErr.Error()
		}
		v.fail = fmt.Sprintf("status: reference %s, tengo %s (%s)%s", o.Status, res.Status, oneLine(res.ErrText), detail)
		return v
	}
	if o.Status == "compile-error" {
		if c := compileClass(res.ErrText); c != o.CErr.Class {
			v.fail = fmt.Sprintf("compile error class: reference %s, tengo %s", o.CErr.Class, oneLine(res.ErrText))
		}
		return v
	}
	want := ref.DescribeGlobals(o.Globals)
	only := map[string]bool{}
	for k := range o.Globals {
		only[k] = true
	}
	got := bridge.DescribeGlobals(res.Globals, nil)
	if want != got {
		v.fail = fmt.Sprintf("globals differ (status %s)\n  reference: %s\n  tengo:     %s", o.Status, firstDiff(want, got), firstDiff(got, want))
	}
	return v
}

func oneLine(s string) string {
	s = strings.ReplaceAll(s, "\n", " | ")
	if len(s) > 200 {
		s = s[:200]
	}
	return s
}

// firstDiff returns the entries of a that are not in b (both are ';' lists).
func firstDiff(a, b string) string {
	bs := map[string]bool{}
	for _, e := range strings.Split(b, ";") {
		bs[e] = true
	}
	var out []string
	for _, e := range strings.Split(a, ";") {
		if e != "" && !bs[e] {
			out = append(out, e)
		}
	}
	s := strings.Join(out, "; ")
	if len(s) > 600 {
		s = s[:600] + "…"
	}
	return s
}

func classify(p *lang.Program, o *ref.Outcome, feat map[string]int) (nontrivial bool, classes []string) {
	s := o.Stats
	n := 0
	add := func(c bool, name string) {
		if c {
			n++
			classes = append(classes, name)
		}
	}
	add(s.Captures > 0, "closure-capture")
	add(s.Loops > 0, "loop")
	add(s.SelAssigns > 0, "selector-assign")
	add(s.Builtins > 0, "builtin-call")
	add(s.Coercions > 0, "coercing-operator")
	add(s.Spreads > 0, "spread-call")
	classes = append(classes, "status:"+o.Status)
	if o.RErr != nil {
		classes = append(classes, "rt:"+o.RErr.Kind)
	}
	if s.MapIters > 0 {
		classes = append(classes, "map-iteration")
	}
	if len(p.Modules) > 0 {
		classes = append(classes, "has-modules")
	}
	for k := range feat {
		if strings.HasPrefix(k, "builtin:") || strings.HasPrefix(k, "for-in-") || strings.Contains(k, "module") || strings.HasPrefix(k, "tpl:") || strings.HasPrefix(k, "ill-scoped:") || strings.HasPrefix(k, "render:") {
			classes = append(classes, "gen:"+k)
		}
	}
	return s.Steps >= 8 && n >= 2, classes
}

func check(t ev.TB, test string, p *lang.Program, inputs map[string]*lang.Val, feat map[string]int, hostMod bool) {
	// a fatal error of the Go runtime while this case runs is reported by the driver from this record
	ev.InFlight(test, payload{Program: p, Inputs: inputs, HostMod: hostMod})
	defer ev.InFlightDone()
	v := decide(p, inputs, hostMod)
	if v.discard != "" {
		ev.Discard(v.discard)
		return
	}
	src, _ := render(p)
	if v.fail != "" {
		ev.Fail(t, test, payload{Program: p, Inputs: inputs, Source: src, HostMod: hostMod}, "%s\n--- source ---\n%s", v.fail, src)
		return
	}
	if v.ref.RErr != nil && v.res.Status == "runtime-error" {
		if k := bridge.ErrorKind(v.res.ErrText); k != v.ref.RErr.Kind {
			ev.Note("error-kind-differs:" + v.ref.RErr.Kind + "/" + k)
		}
	}
	nt, classes := classify(p, v.ref, feat)
	ev.Case(src+inputsKey(inputs), nt, classes...)
	if nt && ev.WantSample() && len(src) < 900 {
		ev.Sample(map[string]interface{}{"source": src, "inputs": inputs, "status": v.ref.Status,
			"globals": ref.DescribeGlobals(v.ref.Globals)})
	}
}

func inputsKey(in map[string]*lang.Val) string {
	b, _ := json.Marshal(in)
	return string(b)
}

func TestRefDifferential(t *testing.T) {
	rapid.Check(t, func(t *rapid.T) {
		inputs := gen.Inputs(t, true, true, true)
		o := gen.Opts{MaxStmts: 14, MaxDepth: 4}
		if rapid.IntRange(0, 3).Draw(t, "withModules") == 0 {
			o.Modules = []string{"m1", "m2"}[:1+rapid.IntRange(0, 1).Draw(t, "nMods")]
		}
		hostMod := rapid.Bool().Draw(t, "hostMod")
		if hostMod {
			o.HostMods = []string{bridge.HostModName}
		}
		p, feat := gen.Program(t, o, inputs)
		// half of the programs leave the grouping of operator chains to the
		// parser (documented precedence, left associativity)
		if p.MinParens = rapid.Bool().Draw(t, "minParens"); p.MinParens {
			if lang.RenderMin(p.Main) != lang.Render(p.Main) {
				feat["render:operator-chain-without-parentheses"] = 1
			}
		}
		if rapid.IntRange(0, 11).Draw(t, "illScoped") == 0 {
			if k := gen.InjectScopeError(t, p); k != "" {
				feat["ill-scoped:"+k] = 1
			}
		}
		check(t, "TestRefDifferential", p, inputs, feat, hostMod)
	})
}

// ---------- replay / regressions ----------

func replayFile(t *testing.T, path string) {
	var p payload
	test, err := ev.LoadReplay(path, &p)
	if err != nil {
		t.Fatalf("load %s: %v", path, err)
	}
	check(t, test, p.Program, p.Inputs, map[string]int{}, p.HostMod)
}

func TestReplay(t *testing.T) {
	path := os.Getenv("VERIF_REPLAY")
	if path == "" {
		t.Skip("no VERIF_REPLAY")
	}
	replayFile(t, path)
}

func TestRegressions(t *testing.T) {
	root := os.Getenv("VERIF_ROOT")
	if root == "" {
		root = "/verif"
	}
	files, _ := filepath.Glob(filepath.Join(root, "replays", "C01", "fixed", "*.json"))
	sort.Strings(files)
	for _, f := range files {
		f := f
		t.Run(filepath.Base(f), func(t *testing.T) { replayFile(t, f) })
		ev.Note("regression replays run")
	}
}
