package c01

import (
	"fmt"
	"os"
	"sort"
	"testing"

	"pgregory.net/rapid"

	"verifharness/gen"
	"verifharness/ref"
)

func TestDebugErrors(t *testing.T) {
	if os.Getenv("VERIF_DEBUG") == "" {
		t.Skip()
	}
	n := 0
	cnt := map[string]int{}
	rapid.Check(t, func(t *rapid.T) {
		inputs := gen.Inputs(t, true, true, true)
		p, feat := gen.Program(t, gen.Opts{MaxStmts: 14, MaxDepth: 4}, inputs)
		if feat["error-mode"] > 0 {
			return
		}
		o := refRun(p, inputs, ref.Policies[0], false)
		k := o.Status
		if o.RErr != nil {
			k += ":" + o.RErr.Kind
		}
		if o.CErr != nil {
			k += ":" + o.CErr.Class
		}
		if o.Status == "abort" {
			k += ":" + o.Abort
		}
		cnt[k]++
		if (o.Status == "runtime-error") && n < 25 && len(p.Main.Kids) < 8 {
			n++
			src, _ := render(p)
			fmt.Printf("=== %s %s\n%s\n", k, o.RErr.Msg, src)
		}
	})
	var ks []string
	for k := range cnt {
		ks = append(ks, k)
	}
	sort.Strings(ks)
	for _, k := range ks {
		fmt.Printf("%6d %s\n", cnt[k], k)
	}
}
