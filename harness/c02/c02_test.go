// C02 — emitted bytecode is structurally sound and stack-balanced.
package c02

import (
	"encoding/json"
	"fmt"
	"os"
	"path/filepath"
	"sort"
	"strings"
	"testing"
	"unsafe"

	"github.com/d5/tengo/v2"
	"github.com/d5/tengo/v2/parser"
	"pgregory.net/rapid"

	"verifharness/bcv"
	"verifharness/bridge"
	"verifharness/ev"
	"verifharness/gen"
	"verifharness/lang"
	"verifharness/ref"
)

func TestMain(m *testing.M) { ev.Main(m, "C02") }

type payload struct {
	Source  string               `json:"source"`
	Modules map[string]string    `json:"modules,omitempty"`
	Inputs  map[string]*lang.Val `json:"inputs,omitempty"`
	Run     bool                 `json:"run"`
	Dedup   bool                 `json:"dedup"`
	// MustCompile: the program is within every static limit (boundary cases
	// that sit on the permitted side): a compile error is a failure
	MustCompile bool `json:"must_compile,omitempty"`
}

type compiled struct {
	bc         *tengo.Bytecode
	numGlobals int
	globals    []tengo.Object
	err        error
	pan        interface{}
}

// compile goes through the public parser + compiler API (no de-duplication).
func compile(src string, mods map[string]string, inputs map[string]*lang.Val) (c compiled) {
	defer func() {
		if r := recover(); r != nil {
			c.pan = r
		}
	}()
	fs := parser.NewFileSet()
	sf := fs.AddFile("(main)", -1, len(src))
	p := parser.NewParser(sf, []byte(src), nil)
	file, err := p.ParseFile()
	if err != nil {
		c.err = err
		return
	}
	st := tengo.NewSymbolTable()
	names := make([]string, 0, len(inputs))
	for k := range inputs {
		names = append(names, k)
	}
	sort.Strings(names)
	c.globals = make([]tengo.Object, tengo.GlobalsSize)
	memo := map[int]tengo.Object{}
	for _, k := range names {
		s := st.Define(k)
		c.globals[s.Index] = bridge.ToObject(inputs[k], memo)
	}
	mm := tengo.NewModuleMap()
	for k, v := range mods {
		mm.AddSourceModule(k, []byte(v))
	}
	comp := tengo.NewCompiler(sf, st, nil, mm, nil)
	if err := comp.Compile(file); err != nil {
		c.err = err
		return
	}
	c.bc = comp.Bytecode()
	c.numGlobals = st.MaxSymbols()
	return
}

func numBuiltins() int { return len(tengo.GetAllBuiltinFunctions()) }

// runProbed executes bc with the VM probe comparing the real operand-stack
// height with the verifier's prediction at every dispatched instruction.
func runProbed(c compiled, rep *bcv.Report) (mismatch string, runErr error, pan interface{}, steps int) {
	byCode := map[uintptr]*bcv.FuncReport{}
	// copy() of a function value makes a new function object with a copy of
	// the instruction bytes: such a function is recognised by content
	byBytes := map[string]*bcv.FuncReport{}
	for _, f := range rep.Funcs {
		if len(f.Fn.Instructions) > 0 {
			byCode[uintptr(unsafe.Pointer(&f.Fn.Instructions[0]))] = f
			k := fmt.Sprintf("%d/%d/%v/%s", f.Fn.NumLocals, f.Fn.NumParameters, f.Fn.VarArgs, f.Fn.Instructions)
			if byBytes[k] == nil {
				byBytes[k] = f
			}
		}
	}
	vm := tengo.NewVM(c.bc, c.globals, -1)
	tengo.VerifSetProbe(func(v *tengo.VM) {
		steps++
		if steps > 3000000 {
			v.Abort()
			return
		}
		if mismatch != "" {
			return
		}
		fn, ip, sp, bp, _ := v.VerifState()
		if len(fn.Instructions) == 0 {
			return
		}
		fr := byCode[uintptr(unsafe.Pointer(&fn.Instructions[0]))]
		if fr == nil {
			fr = byBytes[fmt.Sprintf("%d/%d/%v/%s", fn.NumLocals, fn.NumParameters, fn.VarArgs, fn.Instructions)]
			if fr != nil {
				byCode[uintptr(unsafe.Pointer(&fn.Instructions[0]))] = fr
			}
		}
		if fr == nil {
			mismatch = fmt.Sprintf("VM executes a function (ip %d) that is neither main nor a function constant", ip)
			return
		}
		want, ok := fr.Height[ip]
		if !ok {
			mismatch = fmt.Sprintf("%s: VM dispatches offset %d which the verifier found unreachable or not an instruction boundary", fr.Name, ip)
			return
		}
		if got := sp - bp - fn.NumLocals; got != want {
			mismatch = fmt.Sprintf("%s@%04d: operand-stack height %d at run time, verifier predicted %d (sp=%d bp=%d locals=%d)",
				fr.Name, ip, got, want, sp, bp, fn.NumLocals)
		}
	})
	defer tengo.VerifSetProbe(nil)
	func() {
		defer func() {
			if r := recover(); r != nil {
				pan = r
			}
		}()
		runErr = vm.Run()
	}()
	if mismatch == "" && pan == nil && runErr == nil && steps <= 3000000 && !vm.IsStackEmpty() {
		mismatch = "run ended without error but the operand stack is not empty"
	}
	return
}

func internalFault(err error, pan interface{}) string {
	if err != nil {
		s := err.Error()
		if strings.Contains(s, "unknown opcode") || strings.Contains(s, "not function") {
			return s
		}
	}
	if pan != nil {
		s := fmt.Sprint(pan)
		switch {
		case strings.Contains(s, "integer divide by zero"), strings.Contains(s, "makeslice"):
			return ""
		case strings.Contains(s, "index out of range") && (strings.Contains(s, "with length 2048") || strings.Contains(s, "with length 1024")):
			return "" // operand stack / frame exhaustion: C06's business
		case strings.Contains(s, "slice bounds out of range"):
			// operates on script values, not on the instruction stream (the one
			// known source, splice with an overflowing count, was F31 and is
			// C01's and C14's subject)
			return ""
		}
		return "panic: " + s
	}
	return ""
}

func checkSource(t ev.TB, test string, p payload, classes []string, funcsHint int) {
	ev.InFlight(test, p)
	defer ev.InFlightDone()
	c := compile(p.Source, p.Modules, p.Inputs)
	if c.pan != nil {
		// a compiler panic is C04's subject; here only compiled programs count
		ev.Discard("compiler panic (C04)")
		return
	}
	if c.err != nil {
		if p.MustCompile {
			ev.Fail(t, test, p, "a program within the static limits is refused: %v\n--- source ---\n%s", c.err, clip(p.Source))
			return
		}
		ev.Discard("does not compile")
		return
	}
	if p.Dedup {
		c.bc.RemoveDuplicates()
	}
	rep := bcv.Verify(c.bc, c.numGlobals, numBuiltins())
	if len(rep.Issues) > 0 {
		msgs := make([]string, 0, 4)
		for i, is := range rep.Issues {
			if i == 4 {
				break
			}
			msgs = append(msgs, is.String())
		}
		ev.Fail(t, test, p, "bytecode verifier: %d issue(s): %s\n--- source ---\n%s", len(rep.Issues), strings.Join(msgs, "; "), clip(p.Source))
		return
	}
	if p.Run {
		mm, rerr, pan, steps := runProbed(c, rep)
		if mm != "" {
			ev.Fail(t, test, p, "probe: %s\n--- source ---\n%s", mm, clip(p.Source))
			return
		}
		if f := internalFault(rerr, pan); f != "" {
			ev.Fail(t, test, p, "internal fault running verified code: %s\n--- source ---\n%s", f, clip(p.Source))
			return
		}
		classes = append(classes, "probed-run")
		ev.ClassN("probed-instructions", int64(steps))
	}
	loops := strings.Count(p.Source, "for ")
	branches := strings.Count(p.Source, "break") + strings.Count(p.Source, "continue") + strings.Count(p.Source, "return")
	nt := (len(rep.Funcs) >= 3 || (loops >= 2 && branches >= 1)) && rep.Visited >= 30
	if p.Dedup {
		classes = append(classes, "after-dedup")
	}
	ev.ClassN("functions-verified", int64(len(rep.Funcs)))
	ev.ClassN("instructions-visited", int64(rep.Visited))
	ev.ClassN("jumps-checked", int64(rep.Jumps))
	ev.Case(p.Source, nt, classes...)
	if nt && ev.WantSample() && len(p.Source) < 700 {
		ev.Sample(map[string]interface{}{"source": p.Source, "functions": len(rep.Funcs), "instructions": rep.Visited})
	}
}

func clip(s string) string {
	if len(s) > 1200 {
		return s[:500] + "\n… (" + fmt.Sprint(len(s)) + " bytes) …\n" + s[len(s)-300:]
	}
	return s
}

func renderProg(p *lang.Program) (string, map[string]string) {
	src := lang.Render(p.Main)
	mods := map[string]string{}
	for k, b := range p.Modules {
		mods[k] = lang.Render(b)
	}
	return src, mods
}

// terminates asks the reference interpreter whether running the program is
// safe for a probed run (no step-budget / size / depth abort).
func terminates(p *lang.Program, inputs map[string]*lang.Val) bool {
	memo := map[int]ref.Value{}
	in := map[string]ref.Value{}
	for k, v := range inputs {
		in[k] = ref.FromVal(v, ref.Policies[0], memo)
	}
	o := ref.Run(p, in, ref.Policies[0], ref.DefaultConfig())
	if o.Status == "abort" {
		// (a program that builds a cyclic container must not be executed: open finding F10)
		return strings.HasPrefix(o.Abort, "format") || strings.HasPrefix(o.Abort, "uninit")
	}
	return true
}

func TestGeneratedPrograms(t *testing.T) {
	rapid.Check(t, func(t *rapid.T) {
		inputs := gen.Inputs(t, true, true, false)
		o := gen.Opts{MaxStmts: 12, MaxDepth: 4, ControlHeavy: rapid.Bool().Draw(t, "controlHeavy")}
		if rapid.IntRange(0, 3).Draw(t, "withModules") == 0 {
			o.Modules = []string{"m1", "m2"}[:1+rapid.IntRange(0, 1).Draw(t, "nMods")]
		}
		p, _ := gen.Program(t, o, inputs)
		src, mods := renderProg(p)
		run := rapid.IntRange(0, 9).Draw(t, "run") < 4 && terminates(p, inputs)
		classes := []string{"generated"}
		if o.ControlHeavy {
			classes = append(classes, "control-heavy")
		}
		if len(mods) > 0 {
			classes = append(classes, "has-modules")
		}
		checkSource(t, "TestGeneratedPrograms", payload{Source: src, Modules: mods, Inputs: inputs, Run: run,
			Dedup: rapid.IntRange(0, 4).Draw(t, "dedup") == 0}, classes, 0)
	})
}

// ---------- limit-boundary programs ----------

func manyLocals(n int, useLast bool) string {
	var sb strings.Builder
	sb.WriteString("f := func() {\n")
	for i := 0; i < n; i++ {
		fmt.Fprintf(&sb, "\tv%d := %d\n", i, i)
	}
	if useLast {
		fmt.Fprintf(&sb, "\tv%d = 1000\n", n-1)
	}
	fmt.Fprintf(&sb, "\treturn [v0, v%d]\n}\nr := f()\n", n-1)
	return sb.String()
}

func manyArgs(n int) string {
	var sb strings.Builder
	sb.WriteString("f := func(...a) { return len(a) }\nr := f(")
	for i := 0; i < n; i++ {
		if i > 0 {
			sb.WriteString(", ")
		}
		fmt.Fprintf(&sb, "%d", i%10)
	}
	sb.WriteString(")\n")
	return sb.String()
}

func manyParams(n int) string {
	var sb strings.Builder
	sb.WriteString("f := func(")
	for i := 0; i < n; i++ {
		if i > 0 {
			sb.WriteString(", ")
		}
		fmt.Fprintf(&sb, "p%d", i)
	}
	fmt.Fprintf(&sb, ") { return p%d }\nr := is_function(f)\n", n-1)
	return sb.String()
}

func manyElems(n int) string {
	var sb strings.Builder
	sb.WriteString("a := [")
	for i := 0; i < n; i++ {
		if i > 0 {
			sb.WriteString(",")
		}
		sb.WriteString("1")
	}
	sb.WriteString("]\nr := len(a)\n")
	return sb.String()
}

// manyMapElems: a map literal of n entries whose values are not constants
// (the constant pool would fill first otherwise): the MAP operand counts keys
// and values, 2n, in two bytes.
func manyMapElems(n int, val string) string {
	var sb strings.Builder
	sb.WriteString("m := {")
	for i := 0; i < n; i++ {
		if i > 0 {
			sb.WriteString(",")
		}
		fmt.Fprintf(&sb, "k%d:%s", i, val)
	}
	sb.WriteString("}\nr := len(m)\n")
	return sb.String()
}

func manyElemsOf(n int, val string) string {
	var sb strings.Builder
	sb.WriteString("a := [")
	for i := 0; i < n; i++ {
		if i > 0 {
			sb.WriteString(",")
		}
		sb.WriteString(val)
	}
	sb.WriteString("]\nr := len(a)\n")
	return sb.String()
}

func manySelectors(n int) string {
	var sb strings.Builder
	sb.WriteString("m := {}\nm")
	for i := 0; i < n; i++ {
		sb.WriteString(".a")
	}
	sb.WriteString(" = 1\n")
	return sb.String()
}

func manyGlobals(n int) string {
	var sb strings.Builder
	for i := 0; i < n; i++ {
		fmt.Fprintf(&sb, "g%d := %d\n", i, i%7)
	}
	fmt.Fprintf(&sb, "r := g0 + g%d\n", n-1)
	return sb.String()
}

// bigCode: one function (main, or a function literal) whose instruction
// stream is longer than 64 KiB (n statements of about ten bytes each), with
// jumps of every kind across the 65536 / 131072 byte marks: jump operands are
// four bytes wide and must be emitted and re-targeted as such.
func bigCode(n int, inFunc bool, kind string) string {
	var body strings.Builder
	for i := 0; i < n; i++ {
		body.WriteString("\tx = x + 1\n")
	}
	var sb strings.Builder
	switch kind {
	case "if-else":
		sb.WriteString("x := 0\nif x == 0 {\n" + body.String() + "} else {\n\tx = -1\n}\nx = x + 2\n")
	case "for":
		sb.WriteString("x := 0\nfor i := 0; i < 2; i++ {\n" + body.String() + "\tif x < 0 { break }\n\tif x < 0 { continue }\n}\nx = x + 2\n")
	case "for-in":
		sb.WriteString("x := 0\nfor v in [1, 2] {\n" + body.String() + "}\nx = x + 2\n")
	case "and-or":
		// the right operand of && / || is long: one function call per term
		terms := make([]string, n/2)
		for i := range terms {
			terms[i] = "(x + 1 > 0)"
		}
		sb.WriteString("x := 0\ny := x == 0 && (" + strings.Join(terms, " && ") + ")\nz := x != 0 || (" + strings.Join(terms, " && ") + ")\nx = x + 2\n")
	default: // "cond"
		terms := make([]string, n)
		for i := range terms {
			terms[i] = "x"
		}
		sb.WriteString("x := 1\ny := x == 1 ? (" + strings.Join(terms, " + ") + ") : 2\nz := x != 1 ? 3 : (" + strings.Join(terms, " + ") + ")\nx = x + 2\n")
	}
	if inFunc {
		return "f := func() {\n" + sb.String() + "return x\n}\nr := f()\n"
	}
	return sb.String()
}

func manyConstants(n int) string {
	var sb strings.Builder
	sb.WriteString("x := 0\n")
	for i := 0; i < n; i += 8 {
		fmt.Fprintf(&sb, "x = %d + %d + %d + %d + %d + %d + %d + %d\n", i+1000, i+1001, i+1002, i+1003, i+1004, i+1005, i+1006, i+1007)
	}
	sb.WriteString("f := func() { return x }\nr := f()\n")
	return sb.String()
}

func manyFreeVars(n int) string {
	var sb strings.Builder
	sb.WriteString("mk := func() {\n")
	for i := 0; i < n; i++ {
		fmt.Fprintf(&sb, "\tc%d := %d\n", i, i%5)
	}
	sb.WriteString("\treturn func() {\n\t\treturn 0")
	for i := 0; i < n; i++ {
		fmt.Fprintf(&sb, " + c%d", i)
	}
	sb.WriteString("\n\t}\n}\nr := mk()()\n")
	return sb.String()
}

// TestLimitBoundaries: programs right below, at and above the operand
// widths of the instruction set. Whatever compiles must verify and run clean.
func TestLimitBoundaries(t *testing.T) {
	type bc struct {
		name string
		src  string
		run  bool
		mods map[string]string
		must bool
	}
	var cases []bc
	// a module body is a function of its own: its locals have the function
	// limit, whatever the importer has; an importer with many globals can
	// import any module
	for _, n := range []int{200, 255, 256, 257, 300, 512} {
		var body strings.Builder
		for i := 0; i < n; i++ {
			fmt.Fprintf(&body, "v%d := %d\n", i, i)
		}
		fmt.Fprintf(&body, "export [v0, v%d, v%d]\n", n/2, n-1)
		cases = append(cases, bc{name: fmt.Sprintf("module-locals-%d", n), src: "m := import(\"big\")\nr := m\n", run: true, mods: map[string]string{"big": body.String()}, must: n <= 256})
	}
	for _, n := range []int{200, 257, 300, 1000} {
		cases = append(cases, bc{name: fmt.Sprintf("importer-globals-%d", n), src: manyGlobals(n) + "x := import(\"small\")\n", run: true,
			mods: map[string]string{"small": "a := 1\nb := 2\nexport a + b\n"}, must: true})
	}
	for _, n := range []int{254, 255, 256, 257, 258, 300, 511, 512, 513} {
		cases = append(cases, bc{name: fmt.Sprintf("locals-%d", n), src: manyLocals(n, true), run: true})
	}
	for _, n := range []int{254, 255, 256, 257, 300, 512} {
		cases = append(cases, bc{name: fmt.Sprintf("args-%d", n), src: manyArgs(n), run: true})
		cases = append(cases, bc{name: fmt.Sprintf("params-%d", n), src: manyParams(n), run: true})
		cases = append(cases, bc{name: fmt.Sprintf("selectors-%d", n), src: manySelectors(n), run: false})
		cases = append(cases, bc{name: fmt.Sprintf("freevars-%d", n), src: manyFreeVars(n), run: n <= 300})
	}
	for _, n := range []int{65534, 65535, 65536, 65537} {
		cases = append(cases, bc{name: fmt.Sprintf("elems-%d", n), src: manyElems(n), run: false})
	}
	for _, n := range []int{32766, 32767, 32768, 32769, 40000, 65535, 65536} {
		cases = append(cases, bc{name: fmt.Sprintf("mapelems-%d", n), src: manyMapElems(n, "true"), run: false})
	}
	for _, n := range []int{16383, 16384, 32767, 32768} {
		cases = append(cases, bc{name: fmt.Sprintf("mapelems-const-%d", n), src: manyMapElems(n, "1"), run: false})
	}
	for _, n := range []int{65535, 65536, 65537} {
		cases = append(cases, bc{name: fmt.Sprintf("elems-nonconst-%d", n), src: manyElemsOf(n, "undefined"), run: false})
	}
	for _, n := range []int{1000, 1022, 1023, 1024, 1025, 1100} {
		cases = append(cases, bc{name: fmt.Sprintf("globals-%d", n), src: manyGlobals(n), run: n <= 1023})
	}
	for _, n := range []int{65520, 65536, 65600} {
		cases = append(cases, bc{name: fmt.Sprintf("constants-%d", n), src: manyConstants(n), run: false})
	}
	for _, kind := range []string{"if-else", "for", "for-in", "and-or", "cond"} {
		for _, n := range []int{5000, 6800, 9000, 14000} {
			for _, inFunc := range []bool{false, true} {
				cases = append(cases, bc{name: fmt.Sprintf("bigcode-%s-%d-%v", kind, n, inFunc), src: bigCode(n, inFunc, kind), run: true})
			}
		}
	}
	for _, c := range cases {
		c := c
		t.Run(c.name, func(t *testing.T) {
			checkSource(t, "TestLimitBoundaries", payload{Source: c.src, Run: c.run, Modules: c.mods, MustCompile: c.must}, []string{"boundary", "boundary:" + strings.SplitN(c.name, "-", 2)[0]}, 0)
		})
	}
}

// ---------- replay / regressions ----------

func replayFile(t *testing.T, path string) {
	var p payload
	test, err := ev.LoadReplay(path, &p)
	if err != nil {
		t.Fatalf("load %s: %v", path, err)
	}
	checkSource(t, test, p, []string{"replay"}, 0)
}

func TestReplay(t *testing.T) {
	path := os.Getenv("VERIF_REPLAY")
	if path == "" {
		t.Skip("no VERIF_REPLAY")
	}
	replayFile(t, path)
}

func TestRegressions(t *testing.T) {
	root := os.Getenv("VERIF_ROOT")
	if root == "" {
		root = "/verif"
	}
	files, _ := filepath.Glob(filepath.Join(root, "replays", "C02", "fixed", "*.json"))
	sort.Strings(files)
	for _, f := range files {
		f := f
		t.Run(filepath.Base(f), func(t *testing.T) { replayFile(t, f) })
		ev.Note("regression replays run")
	}
}

var _ = json.Marshal
