// C03 — dead-code elimination never changes what a program does.
package c03

import (
	"fmt"
	"os"
	"path/filepath"
	"sort"
	"strings"
	"testing"

	"github.com/d5/tengo/v2"
	"pgregory.net/rapid"

	"verifharness/bcv"
	"verifharness/bridge"
	"verifharness/ev"
	"verifharness/gen"
	"verifharness/lang"
	"verifharness/ref"
	"verifharness/refx"
)

func TestMain(m *testing.M) { ev.Main(m, "C03") }

type payload struct {
	Source  string               `json:"source"`
	Modules map[string]string    `json:"modules,omitempty"`
	Inputs  map[string]*lang.Val `json:"inputs,omitempty"`
	prog    *lang.Program        // generated cases only (not saved): lets the failure path ask the reference interpreter
}

const budget = 2000000

// outsideDomain is asked before a behavioural difference between the twins
// is reported. The generator's filter (refx.Stable) tries four fixed map
// orders, which cannot show every dependence on map order; here (a) the
// reference interpreter enumerates every order of every map traversal, and
// (b) each twin is compiled and run 16 more times on its own: a twin that
// does not even agree with itself runs a program whose result depends on Go's
// map iteration order, which the property excludes.
func outsideDomain(p payload) string {
	if p.prog != nil && refx.OrderDependent(p.prog, p.Inputs, ref.DefaultConfig()) {
		return "excluded:capacity-or-map-order-dependent (exhaustive enumeration after a mismatch)"
	}
	for _, noDCE := range []bool{false, true} {
		first := ""
		for i := 0; i < 17; i++ {
			u, err := compileWith(noDCE, p, nil)
			if err != nil {
				break
			}
			r := bridge.RunVM(u.Bytecode, u.Globals, u.Index, budget, -1)
			k := r.Status + "|" + r.ErrText + "|" + bridge.DescribeGlobals(r.Globals, nil)
			if i == 0 {
				first = k
			} else if k != first {
				return "excluded:map-order-dependent (one twin gives different results from run to run)"
			}
		}
	}
	return ""
}

func compileWith(noDCE bool, p payload, log *[]tengo.VerifDCERecord) (*bridge.Unit, *bridge.CompileError) {
	tengo.VerifSetNoDCE(noDCE)
	defer tengo.VerifSetNoDCE(false)
	if log != nil {
		tengo.VerifSetDCELog(func(r tengo.VerifDCERecord) { *log = append(*log, r) })
		defer tengo.VerifSetDCELog(nil)
	}
	return bridge.CompileUnit(p.Source, p.Modules, p.Inputs, nil)
}

func clip(s string) string {
	if len(s) > 1500 {
		return s[:900] + "\n… (" + fmt.Sprint(len(s)) + " bytes) …\n" + s[len(s)-400:]
	}
	return s
}

func check(t ev.TB, test string, p payload, classes []string) {
	ev.InFlight(test, p)
	defer ev.InFlightDone()
	var log []tengo.VerifDCERecord
	opt, e1 := compileWith(false, p, &log)
	raw, e2 := compileWith(true, p, nil)
	if (e1 == nil) != (e2 == nil) {
		ev.Fail(t, test, p, "compilation outcome differs: optimized err=%v, unoptimized err=%v\n--- source ---\n%s", e1, e2, clip(p.Source))
		return
	}
	if e1 != nil {
		if e1.Error() != e2.Error() {
			ev.Fail(t, test, p, "compile errors differ: %q vs %q", e1.Error(), e2.Error())
			return
		}
		ev.Discard("does not compile")
		return
	}
	// static: nothing reachable was removed
	removedTotal, fnsWithRemoval := 0, 0
	for i, r := range log {
		reach, err := bcv.Reachable(r.Original)
		if err != nil {
			ev.Fail(t, test, p, "optimizer input #%d does not decode: %v", i, err)
			return
		}
		ins, _ := bcv.Decode(r.Original)
		removed := 0
		for _, in := range ins {
			if _, kept := r.Kept[in.Pos]; !kept {
				removed++
				if reach[in.Pos] {
					ev.Fail(t, test, p, "optimizer removed the reachable instruction %s of function #%d\n--- source ---\n%s", in, i, clip(p.Source))
					return
				}
			}
		}
		if removed > 0 {
			fnsWithRemoval++
			removedTotal += removed
		}
	}
	// both streams must be well-formed
	for name, u := range map[string]*bridge.Unit{"optimized": opt, "unoptimized": raw} {
		rep := bcv.Verify(u.Bytecode, u.NumGlobals, len(tengo.GetAllBuiltinFunctions()))
		if name == "optimized" && len(rep.Issues) > 0 {
			ev.Fail(t, test, p, "optimized bytecode is malformed: %s\n--- source ---\n%s", rep.Issues[0], clip(p.Source))
			return
		}
		if name == "unoptimized" && len(rep.Issues) > 0 {
			// the hook keeps dead code: unreachable instructions may be odd, but the reachable part must be fine
			for _, is := range rep.Issues {
				if is.Rule != "jump-target" {
					ev.Fail(t, test, p, "unoptimized twin is malformed (harness hook problem?): %s\n--- source ---\n%s", is, clip(p.Source))
					return
				}
			}
		}
	}
	// dynamic: identical behaviour
	a := bridge.RunVM(opt.Bytecode, opt.Globals, opt.Index, budget, -1)
	b := bridge.RunVM(raw.Bytecode, raw.Globals, raw.Index, budget, -1)
	if a.Status != b.Status || a.ErrText != b.ErrText || bridge.DescribeGlobals(a.Globals, nil) != bridge.DescribeGlobals(b.Globals, nil) {
		if why := outsideDomain(p); why != "" {
			ev.Discard(why)
			return
		}
	}
	if a.Status == "budget" || b.Status == "budget" {
		if a.Status != b.Status {
			ev.Fail(t, test, p, "one twin exceeded the instruction budget, the other ended with %s/%s\n--- source ---\n%s", a.Status, b.Status, clip(p.Source))
			return
		}
		ev.Discard("instruction budget")
		return
	}
	if a.Status != b.Status {
		ev.Fail(t, test, p, "status differs: optimized %s (%s), unoptimized %s (%s)\n--- source ---\n%s", a.Status, a.ErrText, b.Status, b.ErrText, clip(p.Source))
		return
	}
	if a.ErrText != b.ErrText {
		ev.Fail(t, test, p, "error (text or positions) differs:\n optimized:   %q\n unoptimized: %q\n--- source ---\n%s", a.ErrText, b.ErrText, clip(p.Source))
		return
	}
	ga, gb := bridge.DescribeGlobals(a.Globals, nil), bridge.DescribeGlobals(b.Globals, nil)
	if ga != gb {
		ev.Fail(t, test, p, "globals differ:\n optimized:   %s\n unoptimized: %s\n--- source ---\n%s", ga, gb, clip(p.Source))
		return
	}
	nt := fnsWithRemoval > 0 && a.Steps >= 20
	classes = append(classes, "status:"+a.Status)
	if fnsWithRemoval > 0 {
		classes = append(classes, "dead-code-removed")
	}
	if a.Status == "runtime-error" && fnsWithRemoval > 0 {
		classes = append(classes, "error-after-removal(positions compared)")
	}
	ev.ClassN("functions-optimized", int64(len(log)))
	ev.ClassN("instructions-removed", int64(removedTotal))
	ev.Case(p.Source, nt, classes...)
	if nt && ev.WantSample() && len(p.Source) < 600 {
		ev.Sample(map[string]interface{}{"source": p.Source, "instructions_removed": removedTotal, "status": a.Status, "error": a.ErrText})
	}
}

func renderProg(p *lang.Program) (string, map[string]string) {
	src := lang.Render(p.Main)
	mods := map[string]string{}
	for k, b := range p.Modules {
		mods[k] = lang.Render(b)
	}
	return src, mods
}

func TestDCEDifferential(t *testing.T) {
	rapid.Check(t, func(t *rapid.T) {
		inputs := gen.Inputs(t, true, true, false)
		o := gen.Opts{MaxStmts: 12, MaxDepth: 3, ControlHeavy: rapid.IntRange(0, 3).Draw(t, "controlHeavy") > 0, DeadCode: true}
		if rapid.IntRange(0, 4).Draw(t, "withModules") == 0 {
			o.Modules = []string{"m1"}
		}
		p, _ := gen.Program(t, o, inputs)
		// only programs whose result is independent of map order / append
		// capacity and that terminate (reference interpreter, all policies)
		if _, why := refx.Stable(p, inputs, ref.DefaultConfig()); why != "" {
			ev.Discard(why)
			return
		}
		src, mods := renderProg(p)
		classes := []string{}
		if len(mods) > 0 {
			classes = append(classes, "has-modules")
		}
		check(t, "TestDCEDifferential", payload{Source: src, Modules: mods, Inputs: inputs, prog: p}, classes)
	})
}

// hand-written shapes the optimizer rewrites, crossed with each other
var shapes = []string{
	`f := func() { return 1; x := 2; return x }; r := f()`,
	`f := func(a) { if a { return 1 } else { return 2 }; return 3 }; r := [f(true), f(false)]`,
	`f := func(a) { for i := 0; i < 3; i++ { if i == a { return i }; continue; a = 9 }; return -1 }; r := [f(1), f(7)]`,
	`f := func(a) { for { break; a = 1 }; return a }; r := f(5)`,
	`f := func(a) { return a && f2(); x := 1 }; f2 := func() { return 7 }; r := f(false)`,
	`f := func(a) { for x in [1,2,3] { if x == a { return x } }; return 0; for { } }; r := [f(2), f(9)]`,
	`f := func() { return; return 1 }; r := f()`,
	`f := func(a) { if a { return 1 }; return a ? 2 : 3; a = 4 }; r := [f(0), f(1)]`,
	`f := func(a) { return func() { return a; a = 1 }(); a = 2 }; r := f(3)`,
	`f := func(a) { for i := 0; i < 2; i++ { for j := 0; j < 2; j++ { if j == a { break }; if i == a { continue }; return [i, j] } }; return undefined; a++ }; r := [f(0), f(1), f(5)]`,
	`f := func(a) { x := 1; return x / a; y := 2 }; r := f(0)`,
	`f := func(a) { return 1; if a { return 2 } else { return 3 } }; g := func() { return [1][5].x.y }; r := f(1); r2 := g(); r3 := 1 + "a" - 2`,
}

func TestShapes(t *testing.T) {
	for i, s := range shapes {
		s := strings.ReplaceAll(s, "; ", "\n")
		t.Run(fmt.Sprint(i), func(t *testing.T) {
			check(t, "TestShapes", payload{Source: s}, []string{"hand-shape"})
		})
	}
}

// TestShapeGrid crosses dead-code snippets of many byte sizes with failing
// tail statements whose erroring instruction sits at many distances from the
// function's end (with and without a trailing jump to the end, with the failure
// in the function itself or in a callee): instruction offsets shift by every
// amount, so position bookkeeping that is off only for one layout is hit.
func TestShapeGrid(t *testing.T) {
	deads := []string{"a = a", "a = 1", "a = a + 1", "return", "return a", "return a + 1", "a = [a]", "a = [a, a, a]",
		"a = {k: a}", "a += 2", "a = a * a + a", "g(a)", "a = g(a)", "for { a = 1 }", "for i := 0; i < a; i++ { a = i }",
		"if a { a = 2 }", "if a { return 3 } else { return 4 }", "a = a ? 1 : 2", "a = a && a", "a = func() { return 1 }",
		"a = \"0123456789\"", "a = a[1:2]", "a.x = 1", "a = a\n\t\ta = a\n\t\ta = a", "return [a, a][0]"}
	tails := []string{"b := 10 / a", "b := [10 / a]", "b := 10 / a + 1", "b := 1 + 10 / a", "a()", "b := a()", "b := a(1, 2)",
		"a.x = 1", "a.x.y = 1", "b := a.x", "b := a[0]", "b := [1, 2][a:a - 1]", "b := g(10 / a)", "g(10 / a)", "b := h(a)",
		"h(a)", "b := [h(a)]", "b := h(a) + 1", "for x in a { }", "b := [a...]", "b := g(a...)", "b := -\"s\"", "b := a + \"s\" - 1",
		"b := {k: 10 / a}", "b := true ? 10 / a : 0", "b := a || 10 / a"}
	wraps := []string{"%s", "if a == 0 {\n\t\t%s\n\t}", "for k := 0; k < 1; k++ {\n\t\t%s\n\t}"}
	n := 0
	for _, d := range deads {
		for _, tl := range tails {
			for wi, w := range wraps {
				if wi > 0 && (n+wi)%3 != 0 {
					continue // a third of the wrapped variants, deterministically
				}
				src := "g := func(x) { return x }\nh := func(x) { return 10 / x }\nf := func(a) {\n\tif a > 5 {\n\t\treturn 1\n\t\t" + d +
					"\n\t}\n\t" + fmt.Sprintf(w, tl) + "\n}\nout := f(0)\n"
				check(t, "TestShapeGrid", payload{Source: src}, []string{"shape-grid"})
				n++
			}
		}
	}
	ev.ClassN("shape-grid-cases", int64(n))
}

// ---------- replay / regressions ----------

func replayFile(t *testing.T, path string) {
	var p payload
	test, err := ev.LoadReplay(path, &p)
	if err != nil {
		t.Fatalf("load %s: %v", path, err)
	}
	check(t, test, p, []string{"replay"})
}

func TestReplay(t *testing.T) {
	path := os.Getenv("VERIF_REPLAY")
	if path == "" {
		t.Skip("no VERIF_REPLAY")
	}
	replayFile(t, path)
}

func TestRegressions(t *testing.T) {
	root := os.Getenv("VERIF_ROOT")
	if root == "" {
		root = "/verif"
	}
	files, _ := filepath.Glob(filepath.Join(root, "replays", "C03", "fixed", "*.json"))
	sort.Strings(files)
	for _, f := range files {
		f := f
		t.Run(filepath.Base(f), func(t *testing.T) { replayFile(t, f) })
		ev.Note("regression replays run")
	}
}
