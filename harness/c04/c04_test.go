// C04 — scanner, parser and compiler are total on arbitrary source bytes.
//
// Files of this package:
//
//	c04_test.go     payload, oracle (evaluate), rapid properties, fuzz target, replay plumbing
//	known_test.go   AST predicates + panic signatures of the open findings, TestKnownFindings
//	gen_test.go     corpus handling, token/byte mutators, hostile generators, configuration draw
//	grammar_test.go small grammar-based generator of well-scoped programs
//	corpus/snippets.txt  every string literal of tengo's vm/compiler/parser/script tests (one Go-quoted record per line)
package c04

import (
	"encoding/hex"
	"encoding/json"
	"fmt"
	"os"
	"path/filepath"
	"regexp"
	"runtime"
	"runtime/debug"
	"sort"
	"strconv"
	"strings"
	"sync"
	"sync/atomic"
	"testing"
	"time"

	"github.com/d5/tengo/v2"
	"github.com/d5/tengo/v2/parser"
	"github.com/d5/tengo/v2/stdlib"
	"github.com/d5/tengo/v2/token"
	"pgregory.net/rapid"

	"verifharness/ev"
)

func TestMain(m *testing.M) {
	// small live heap, large short-lived allocations (16 KiB globals slice per
	// Script.Compile, deep goroutine stacks): a somewhat larger GOGC halves the
	// number of collections; much larger values cost more in page faults than
	// they save (measured)
	debug.SetGCPercent(ev.EnvInt("VERIF_C04_GOGC", 200))
	// every entry point is called on a worker goroutine (recover + watchdog)
	// while the test goroutine waits: with several Ps each hand-over is a
	// futex wake-up on another thread (measured: 3x the CPU, a third of it
	// system time); with one P it is a plain goroutine switch. The watchdog
	// still fires on a spinning worker (asynchronous preemption). The
	// coordinator of a native fuzz run keeps the default.
	coordinator := false
	for _, a := range os.Args[1:] {
		if strings.HasPrefix(a, "-test.fuzz=") {
			coordinator = true
		}
		if strings.HasPrefix(a, "-test.fuzzworker") {
			coordinator = false
			break
		}
	}
	if !coordinator {
		runtime.GOMAXPROCS(1)
	}
	ev.Main(m, "C04")
}

const (
	maxInput          = 16 << 10 // bytes, main source and every module body (DESIGN §4 C04)
	watchdog          = 10 * time.Second
	watchdogRetry     = 120 * time.Second
	watchdogAfterHang = 3 * time.Second

	mainNameBare   = "main.tengo" // file name given to the bare parser/compiler API
	mainNameScript = "(main)"     // file name Script.Compile gives to its input
)

// ---------- payload ----------

type varSpec struct {
	Name string `json:"name"`
	Kind int    `json:"kind"`
}

type modSpec struct {
	Name string `json:"name"`
	Hex  string `json:"hex"`
	Text string `json:"text,omitempty"` // echo for the reader, not used on replay
}

type casePayload struct {
	SrcHex     string    `json:"src_hex"`
	SrcText    string    `json:"src_text,omitempty"` // echo for the reader, not used on replay
	Modules    string    `json:"modules"`            // none | stdlib | source
	SrcMods    []modSpec `json:"source_modules,omitempty"`
	FileImport bool      `json:"file_import"`
	Vars       []varSpec `json:"vars,omitempty"`
	Origin     string    `json:"origin,omitempty"`
}

// tcase is one decoded test case.
type tcase struct {
	src        []byte
	modules    string
	mods       []srcMod
	fileImport bool
	vars       []varSpec
	origin     string // generator class
	base       string // the valid program this input was derived from ("" = none)
	mutKinds   []string
}

type srcMod struct {
	name string
	body []byte
}

func echo(b []byte) string {
	s := strconv.QuoteToASCII(string(b))
	if len(s) > 600 {
		s = s[:600] + "…(truncated)"
	}
	return s
}

func (c *tcase) payload() casePayload {
	p := casePayload{SrcHex: hex.EncodeToString(c.src), SrcText: echo(c.src), Modules: c.modules,
		FileImport: c.fileImport, Vars: c.vars, Origin: c.origin}
	for _, m := range c.mods {
		p.SrcMods = append(p.SrcMods, modSpec{Name: m.name, Hex: hex.EncodeToString(m.body), Text: echo(m.body)})
	}
	return p
}

func (p *casePayload) tcase() (*tcase, error) {
	src, err := hex.DecodeString(p.SrcHex)
	if err != nil {
		return nil, err
	}
	c := &tcase{src: src, modules: p.Modules, fileImport: p.FileImport, vars: p.Vars, origin: p.Origin}
	if c.origin == "" {
		c.origin = "replay"
	}
	for _, m := range p.SrcMods {
		b, err := hex.DecodeString(m.Hex)
		if err != nil {
			return nil, err
		}
		c.mods = append(c.mods, srcMod{name: m.Name, body: b})
	}
	return c, nil
}

// ---------- guarded execution ----------

type outcome struct {
	pan     interface{}
	stack   string
	timeout bool
}

func (o outcome) bad() bool { return o.pan != nil || o.timeout }

func (o outcome) String() string {
	if o.timeout {
		return fmt.Sprintf("did not return within %v, nor within %v when re-tried in isolation", watchdog, watchdogRetry)
	}
	return fmt.Sprintf("panicked: %v [first tengo frame: %s]", o.pan, panicSite(o.stack))
}

// worker goroutines are reused: inputs nested thousands of levels deep grow
// the goroutine stack to several MB, and a fresh goroutine per call would
// spend most of the run re-growing (copying) stacks. A worker whose call does
// not return is abandoned.
type worker struct{ jobs chan func() }

var idleWorkers = make(chan *worker, 32)

func getWorker() *worker {
	select {
	case w := <-idleWorkers:
		return w
	default:
	}
	w := &worker{jobs: make(chan func())}
	go func() {
		for fn := range w.jobs {
			fn()
		}
	}()
	return w
}

func putWorker(w *worker) {
	select {
	case idleWorkers <- w:
	default:
		close(w.jobs)
	}
}

func guardOnce[T any](f func() T, limit time.Duration) (T, outcome) {
	type res struct {
		v T
		o outcome
	}
	done := make(chan res, 1)
	w := getWorker()
	w.jobs <- func() {
		var r res
		defer func() {
			if p := recover(); p != nil {
				r.o.pan = p
				r.o.stack = string(debug.Stack())
			}
			done <- r
		}()
		r.v = f()
	}
	tm := time.NewTimer(limit)
	defer tm.Stop()
	select {
	case r := <-done:
		putWorker(w)
		return r.v, r.o
	case <-tm.C:
		var zero T
		return zero, outcome{timeout: true}
	}
}

// guard runs f on a worker goroutine with recover() and the 10 s watchdog.
// Time is no correctness signal except for "the call returns" (DESIGN §6.3):
// a first expiry is re-tried once in isolation with a 12x longer limit, so
// that a machine loaded by other checks (a maximally nested 16 KiB input
// needs ~0.3 s of CPU, mostly goroutine stack growth) cannot turn slowness
// into an alarm, while a loop that never ends still is one. f must return
// its results instead of writing to captured variables.
func guard[T any](f func() T) (T, outcome) {
	if hangConfirmed.Load() {
		// a call that never returns has been found; its goroutine cannot be
		// stopped and keeps a CPU (and possibly allocating) until the process
		// exits: get through the remaining (shrinking) work quickly
		return guardOnce(f, watchdogAfterHang)
	}
	v, o := guardOnce(f, watchdog)
	if o.timeout {
		ev.Note("watchdog expiry re-tried")
		v, o = guardOnce(f, watchdogRetry)
		if o.timeout {
			hangConfirmed.Store(true)
		}
	}
	return v, o
}

var hangConfirmed atomic.Bool

var frameRe = regexp.MustCompile(`(?m)^(github\.com/d5/tengo/v2[^\s(]*(?:\(\*[A-Za-z]+\))?[^\s(]*)\(`)

// panicSite returns the first function of d5/tengo on the panicking stack.
func panicSite(stack string) string {
	// skip everything up to the frame of panic()
	if i := strings.Index(stack, "\npanic("); i >= 0 {
		stack = stack[i:]
	}
	m := frameRe.FindStringSubmatch(stack)
	if m == nil {
		return "?"
	}
	return m[1]
}

func panicText(p interface{}) string {
	switch x := p.(type) {
	case error:
		return x.Error()
	case string:
		return x
	}
	return fmt.Sprintf("%v", p)
}

// ---------- configuration ----------

var (
	stdlibOnce  sync.Once
	stdlibMods  *tengo.ModuleMap
	importDirMu sync.Once
	importDir   string
)

func stdlibModules() *tengo.ModuleMap {
	stdlibOnce.Do(func() { stdlibMods = stdlib.GetModuleMap(stdlib.AllModuleNames()...) })
	return stdlibMods
}

// emptyImportDir is a directory that exists and stays empty; file imports
// resolve against it, so no source is ever read from disk.
func emptyImportDir() string {
	importDirMu.Do(func() {
		importDir = filepath.Join(os.TempDir(), "verif-c04-empty-import-dir")
		_ = os.MkdirAll(importDir, 0o755)
	})
	return importDir
}

// moduleGetter returns an untyped nil for "none" (a typed nil *ModuleMap
// inside the interface would be a caller error, not an input).
func (c *tcase) moduleGetter() tengo.ModuleGetter {
	switch c.modules {
	case "stdlib":
		return stdlibModules()
	case "source":
		mm := tengo.NewModuleMap()
		for _, m := range c.mods {
			mm.AddSourceModule(m.name, m.body)
		}
		return mm
	}
	return nil
}

func varValue(kind int) interface{} {
	switch kind {
	case 0:
		return 7
	case 1:
		return "str"
	case 2:
		return []interface{}{1, "two", 3.0}
	case 3:
		return map[string]interface{}{"a": 1, "b": "x"}
	case 4:
		return nil
	case 5:
		return true
	case 6:
		return 2.5
	default:
		return []byte("bytes")
	}
}

func (c *tcase) cfgKey() string {
	var sb strings.Builder
	sb.WriteString(c.modules)
	if c.fileImport {
		sb.WriteString("+fi")
	}
	for _, v := range c.vars {
		sb.WriteString("," + v.Name)
	}
	for _, m := range c.mods {
		sb.WriteString("|" + m.name + "=" + string(m.body))
	}
	return sb.String()
}

// ---------- positions ----------

// srcFile answers line/column questions about a byte string the way
// parser.SourceFile documents them: lines start after every '\n', columns
// count bytes from 1. Like go/token (from which the file table is ported) no
// line starts at offset == len(src), so the position just after a trailing
// newline belongs to the last line.
type srcFile struct {
	b     []byte
	lines []int
}

func (f *srcFile) lineCol(off int) (int, int) {
	if f.lines == nil {
		f.lines = []int{0}
		for i, ch := range f.b {
			if ch == '\n' && i+1 < len(f.b) {
				f.lines = append(f.lines, i+1)
			}
		}
	}
	i := sort.Search(len(f.lines), func(i int) bool { return f.lines[i] > off }) - 1
	return i + 1, off - f.lines[i] + 1
}

type fileTable struct {
	main  string
	files map[string]*srcFile
}

func (c *tcase) fileTable(mainName string, src []byte) *fileTable {
	ft := &fileTable{main: mainName, files: map[string]*srcFile{mainName: {b: src}}}
	switch c.modules {
	case "source":
		for _, m := range c.mods {
			if _, dup := ft.files[m.name]; !dup {
				ft.files[m.name] = &srcFile{b: m.body}
			}
		}
	case "stdlib":
		for name, s := range stdlib.SourceModules {
			ft.files[name] = &srcFile{b: []byte(s)}
		}
	}
	return ft
}

// checkError validates an error value returned by an entry point: rendering
// it does not panic (the caller runs this under guard) and every position it
// reports lies inside the input of the file it names. phase is "parse" (the
// error can only be about the main file) or "compile" (a parser.ErrorList can
// then only come from a module body, the main file parsed cleanly).
func checkError(err error, phase string, ft *fileTable) string {
	if err == nil {
		return ""
	}
	_ = err.Error()
	switch e := err.(type) {
	case parser.ErrorList:
		if len(e) == 0 {
			return "non-nil but empty parser.ErrorList returned"
		}
		for i, pe := range e {
			if pe == nil {
				return fmt.Sprintf("ErrorList[%d] is nil", i)
			}
			_ = pe.Error()
			p := pe.Pos
			f := ft.files[p.Filename]
			if f == nil {
				return fmt.Sprintf("ErrorList[%d] %q names file %q which is not an input of this compilation", i, pe.Msg, p.Filename)
			}
			if phase == "parse" && p.Filename != ft.main {
				return fmt.Sprintf("ErrorList[%d] %q of the main file names file %q", i, pe.Msg, p.Filename)
			}
			if phase == "compile" && p.Filename == ft.main {
				return fmt.Sprintf("ErrorList[%d] %q returned by the compiler names the main file, which parsed cleanly", i, pe.Msg)
			}
			if p.Offset < 0 || p.Offset > len(f.b) {
				return fmt.Sprintf("ErrorList[%d] %q: offset %d outside the %d input bytes of %q", i, pe.Msg, p.Offset, len(f.b), p.Filename)
			}
			if p.Line < 1 || p.Column < 1 {
				return fmt.Sprintf("ErrorList[%d] %q: line %d column %d (offset %d)", i, pe.Msg, p.Line, p.Column, p.Offset)
			}
			if l, c := f.lineCol(p.Offset); l != p.Line || c != p.Column {
				return fmt.Sprintf("ErrorList[%d] %q: reports %d:%d for offset %d, the bytes of %q put that offset at %d:%d",
					i, pe.Msg, p.Line, p.Column, p.Offset, p.Filename, l, c)
			}
		}
	case *tengo.CompilerError:
		if e == nil || e.FileSet == nil || e.Node == nil || e.Err == nil {
			return fmt.Sprintf("incomplete CompilerError %#v", e)
		}
		pos := e.Node.Pos()
		sf := e.FileSet.File(pos)
		if sf == nil {
			return fmt.Sprintf("CompilerError %q: node position %d is in no file of its FileSet", e.Err, pos)
		}
		if int(pos) < sf.Base || int(pos) > sf.Base+sf.Size {
			return fmt.Sprintf("CompilerError %q: node position %d outside [%d,%d] of %q", e.Err, pos, sf.Base, sf.Base+sf.Size, sf.Name)
		}
		f := ft.files[sf.Name]
		if f == nil {
			return fmt.Sprintf("CompilerError %q names file %q which is not an input of this compilation", e.Err, sf.Name)
		}
		if sf.Size != len(f.b) {
			return fmt.Sprintf("CompilerError %q: file %q has size %d in the FileSet, its input has %d bytes", e.Err, sf.Name, sf.Size, len(f.b))
		}
		off := int(pos) - sf.Base
		fp := e.FileSet.Position(pos)
		if fp.Filename != sf.Name || fp.Offset != off {
			return fmt.Sprintf("CompilerError %q: Position(%d) = %+v, file %q offset %d expected", e.Err, pos, fp, sf.Name, off)
		}
		if l, c := f.lineCol(off); l != fp.Line || c != fp.Column {
			return fmt.Sprintf("CompilerError %q: reports %d:%d for offset %d of %q, its bytes put that offset at %d:%d",
				e.Err, fp.Line, fp.Column, off, sf.Name, l, c)
		}
		// the named file is the one whose bytes contain the node: nodes that
		// start with a fixed spelling must find it at their offset
		if want := nodeSpelling(e.Node); want != "" && !strings.HasPrefix(string(f.b[off:]), want) {
			got := f.b[off:]
			if len(got) > 20 {
				got = got[:20]
			}
			return fmt.Sprintf("CompilerError %q: node %T %q is reported at offset %d of %q where the bytes read %q",
				e.Err, e.Node, want, off, sf.Name, got)
		}
	}
	return ""
}

func nodeSpelling(n parser.Node) string {
	switch x := n.(type) {
	case *parser.Ident:
		if x.Name != "_" { // the parser synthesises "_" identifiers
			return x.Name
		}
	case *parser.BranchStmt:
		return x.Token.String()
	case *parser.ReturnStmt:
		return "return"
	case *parser.ExportStmt:
		return "export"
	case *parser.ImportExpr:
		return "import"
	}
	return ""
}

// ---------- bytecode decode check ----------

func decodeInstructions(ins []byte) string {
	i := 0
	for i < len(ins) {
		op := ins[i]
		if int(op) >= len(parser.OpcodeOperands) || int(op) >= len(parser.OpcodeNames) {
			return fmt.Sprintf("unknown opcode %d at offset %d", op, i)
		}
		widths := parser.OpcodeOperands[op]
		need := 0
		for _, w := range widths {
			need += w
		}
		if i+1+need > len(ins) {
			return fmt.Sprintf("operands of %s at offset %d run past the end (%d bytes)", parser.OpcodeNames[op], i, len(ins))
		}
		_, read := parser.ReadOperands(widths, ins[i+1:])
		i += 1 + read
	}
	_ = tengo.FormatInstructions(ins, 0)
	return ""
}

func decodeBytecode(bc *tengo.Bytecode) string {
	if bc == nil || bc.MainFunction == nil {
		return "nil bytecode / main function"
	}
	if d := decodeInstructions(bc.MainFunction.Instructions); d != "" {
		return "main function: " + d
	}
	for i, k := range bc.Constants {
		if k == nil {
			return fmt.Sprintf("constant %d is nil", i)
		}
		if fn, ok := k.(*tengo.CompiledFunction); ok {
			if d := decodeInstructions(fn.Instructions); d != "" {
				return fmt.Sprintf("constant %d (compiled function): %s", i, d)
			}
		}
	}
	_ = bc.FormatInstructions()
	_ = bc.FormatConstants()
	return ""
}

// ---------- scanning (token count, progress) ----------

type scanInfo struct {
	tokens       int // tokens before EOF
	firstEnd     int // offset where the second token starts (len(src) if none)
	errsInFirst  bool
	noProgress   bool
	firstIllegal bool
}

func scanAll(src []byte) scanInfo {
	var si scanInfo
	fs := parser.NewFileSet()
	f := fs.AddFile("scan", -1, len(src))
	nerr := 0
	s := parser.NewScanner(f, src, func(parser.SourceFilePos, string) { nerr++ }, 0)
	si.firstEnd = len(src)
	limit := 2*len(src) + 16
	for n := 0; ; n++ {
		if n > limit {
			si.noProgress = true
			return si
		}
		tok, _, pos := s.Scan()
		if n == 0 {
			si.errsInFirst = nerr > 0
			si.firstIllegal = tok == token.Illegal
		}
		if n == 1 {
			si.firstEnd = int(pos) - f.Base
		}
		if tok == token.EOF {
			break
		}
		si.tokens++
	}
	return si
}

// ---------- the oracle ----------

type result struct {
	fail       string   // non-empty: violation
	known      string   // non-empty: an open finding was met ("F7"); the case is a counted discard
	classes    []string // histogram
	nontrivial bool
	key        string
}

func (r *result) class(format string, a ...interface{}) {
	r.classes = append(r.classes, fmt.Sprintf(format, a...))
}

type parsed struct {
	fs   *parser.SourceFileSet
	sf   *parser.SourceFile
	file *parser.File
	err  error
	bad  string // verdict of checkError on err
}

func parseBytes(name string, src []byte) parsed {
	fs := parser.NewFileSet()
	sf := fs.AddFile(name, -1, len(src))
	before := string(src)
	p := parser.NewParser(sf, src, nil)
	file, err := p.ParseFile()
	if string(src) != before {
		panic(fmt.Sprintf("the parser changed the source bytes it was given: %q became %q", before, src))
	}
	return parsed{fs: fs, sf: sf, file: file, err: err}
}

// stage names what a guarded step was doing when it panicked or hung.
type stage struct{ v atomic.Value }

func (s *stage) set(x string) { s.v.Store(x) }
func (s *stage) String() string {
	x, _ := s.v.Load().(string)
	return x
}

type parseStep struct {
	si      scanInfo
	main    parsed
	modFail string
	modOK   []bool
	facts   astFacts
}

type bareResult struct {
	err     error
	bad     string // verdict of checkError on err
	globals int
	decode  string // bytecode decode failure (before or after RemoveDuplicates)
}

// evaluate runs every entry point on the case. honour=false ignores the
// open-findings switches (used by TestKnownFindings and TestReplay).
func evaluate(c *tcase, honour bool) (res result) {
	res.key = string(c.src) + "\x00" + c.cfgKey()
	res.class("gen:%s", c.origin)
	res.class("cfg:modules=%s", c.modules)
	res.class("cfg:file-import=%v", c.fileImport)
	res.class("cfg:vars=%d", len(c.vars))
	for _, v := range c.vars {
		if isBuiltinName(v.Name) {
			res.class("cfg:var-named-like-builtin")
			break
		}
	}
	for _, k := range c.mutKinds {
		res.class("mut:%s", k)
	}
	switch {
	case len(c.src) == 0:
		res.class("size:0")
	case len(c.src) < 64:
		res.class("size:<64")
	case len(c.src) < 1024:
		res.class("size:<1Ki")
	default:
		res.class("size:>=1Ki")
	}
	if len(c.src) > maxInput {
		res.fail = "harness: input beyond the size bound"
		return
	}
	ft := c.fileTable(mainNameBare, c.src)

	// 1. scanner alone (terminates, makes progress), then the bare parser on
	// the main source and on every source-module body
	var st stage
	ps, o := guard(func() parseStep {
		var r parseStep
		st.set("Scanner.Scan over the input")
		r.si = scanAll(c.src)
		if r.si.noProgress {
			return r
		}
		st.set("parser.NewParser/ParseFile(main)")
		r.main = parseBytes(mainNameBare, c.src)
		st.set("rendering/inspecting the error of ParseFile(main)")
		r.main.bad = checkError(r.main.err, "parse", ft)
		if r.main.file != nil {
			r.facts.scan(r.main.file)
		}
		if c.modules == "source" {
			for _, m := range c.mods {
				st.set(fmt.Sprintf("parser.NewParser/ParseFile(module %q)", m.name))
				mp := parseBytes(m.name, m.body)
				st.set(fmt.Sprintf("rendering/inspecting the error of ParseFile(module %q)", m.name))
				mft := &fileTable{main: m.name, files: map[string]*srcFile{m.name: {b: m.body}}}
				if msg := checkError(mp.err, "parse", mft); msg != "" {
					r.modFail = fmt.Sprintf("parser.ParseFile(module %q): %s", m.name, msg)
					return r
				}
				if (mp.err == nil) != (mp.file != nil) {
					r.modFail = fmt.Sprintf("parser.ParseFile(module %q) returned file=%v err=%v", m.name, mp.file != nil, mp.err)
					return r
				}
				r.modOK = append(r.modOK, mp.file != nil)
				if mp.file != nil {
					r.facts.scan(mp.file)
				}
			}
		}
		return r
	})
	if o.bad() {
		res.fail = st.String() + " " + o.String()
		return
	}
	si, main, facts := ps.si, ps.main, ps.facts
	if si.noProgress {
		res.fail = fmt.Sprintf("Scanner.Scan did not reach EOF after %d calls on %d bytes", 2*len(c.src)+16, len(c.src))
		return
	}
	res.class("entry:parser")
	// input patterns of repaired findings (known_test.go): shown in the
	// histogram so that it is visible that the search exercises them
	if facts.branchInClosureInLoop {
		res.class("pattern-of-repaired:F5")
	}
	if facts.assignToBuiltinName {
		res.class("pattern-of-repaired:F7")
	}
	if main.bad != "" {
		res.fail = "parser.ParseFile(main): " + main.bad
		return
	}
	if (main.err == nil) != (main.file != nil) {
		res.fail = fmt.Sprintf("parser.ParseFile(main) returned file=%v err=%v", main.file != nil, main.err)
		return
	}
	if ps.modFail != "" {
		res.fail = ps.modFail
		return
	}
	for _, ok := range ps.modOK {
		if ok {
			res.class("module-body:parse-ok")
		} else {
			res.class("module-body:parse-error")
		}
	}
	rejectedAtFirst := false
	if main.err != nil {
		res.class("parse:error")
		if el, ok := main.err.(parser.ErrorList); ok {
			min := len(c.src) + 1
			for _, e := range el {
				if e.Pos.Offset < min {
					min = e.Pos.Offset
				}
			}
			rejectedAtFirst = si.errsInFirst || si.firstIllegal || min < si.firstEnd || si.tokens <= 1
		}
	} else {
		res.class("parse:ok")
	}
	res.nontrivial = si.tokens >= 5 && !rejectedAtFirst && string(c.src) != c.base && !inCorpus(string(c.src))
	if si.tokens >= 5 {
		res.class("tokens>=5")
	}
	if rejectedAtFirst {
		res.class("rejected-at-first-token")
	}

	if main.file == nil {
		// the Script API must get through the same bytes without panicking
		scriptStep(c, honour, &facts, &res)
		return
	}

	// open finding whose symptoms include silent corruption of the emitted
	// code: the compile steps are skipped (counted)
	if honour && openFindings["F5"] && facts.branchInClosureInLoop {
		res.known = "F5"
		return
	}

	// 2. bare compiler API + Bytecode + RemoveDuplicates
	br, o := guard(func() bareResult {
		st.set("tengo.NewCompiler")
		syms := tengo.NewSymbolTable()
		seen := map[string]bool{}
		for _, v := range c.vars {
			if !seen[v.Name] {
				seen[v.Name] = true
				syms.Define(v.Name)
			}
		}
		cc := tengo.NewCompiler(main.sf, syms, nil, c.moduleGetter(), nil)
		if c.fileImport {
			cc.EnableFileImport(true)
			cc.SetImportDir(emptyImportDir())
		}
		var r bareResult
		st.set("Compiler.Compile")
		if r.err = cc.Compile(main.file); r.err != nil {
			st.set(fmt.Sprintf("rendering/inspecting the compiler error (%T)", r.err))
			r.bad = checkError(r.err, "compile", ft)
			return r
		}
		r.globals = syms.MaxSymbols()
		st.set("Compiler.Bytecode / decoding its instructions")
		bc := cc.Bytecode()
		if r.decode = decodeBytecode(bc); r.decode != "" {
			r.decode = "bytecode of a successful compilation does not decode: " + r.decode
			return r
		}
		st.set("Bytecode.RemoveDuplicates")
		bc.RemoveDuplicates()
		st.set("decoding the instructions after RemoveDuplicates")
		if r.decode = decodeBytecode(bc); r.decode != "" {
			r.decode = "bytecode after RemoveDuplicates does not decode: " + r.decode
		}
		return r
	})
	res.class("entry:compiler")
	if o.bad() {
		if id := matchKnown(o, &facts, honour, "compiler"); id != "" {
			res.known = id
			return
		}
		res.fail = st.String() + " " + o.String()
		return
	}
	if br.bad != "" {
		res.fail = "Compiler.Compile: " + br.bad
		return
	}
	if br.err != nil {
		res.class("compile:error")
		res.class("compile:error-type=%T", br.err)
	} else {
		res.class("compile:ok")
		res.class("entry:remove-duplicates")
		if br.decode != "" {
			res.fail = br.decode
			return
		}
		if br.globals >= tengo.GlobalsSize-3 {
			res.class("globals-within-3-of-GlobalsSize")
		}
	}

	// 3. Script API
	scriptStep(c, honour, &facts, &res)
	return
}

type scriptResult struct {
	ok  bool
	err error
	bad string
}

func scriptStep(c *tcase, honour bool, facts *astFacts, res *result) {
	var st stage
	sr, o := guard(func() scriptResult {
		st.set("tengo.NewScript / Add / SetImports")
		s := tengo.NewScript(c.src)
		if mm := c.moduleGetter(); mm != nil {
			s.SetImports(mm)
		}
		if c.fileImport {
			s.EnableFileImport(true)
			if err := s.SetImportDir(emptyImportDir()); err != nil {
				return scriptResult{err: err}
			}
		}
		for _, v := range c.vars {
			if err := s.Add(v.Name, varValue(v.Kind)); err != nil {
				return scriptResult{err: err}
			}
		}
		st.set("Script.Compile")
		compiled, err := s.Compile()
		r := scriptResult{ok: compiled != nil, err: err}
		st.set(fmt.Sprintf("rendering/inspecting the Script.Compile error (%T)", err))
		ft := c.fileTable(mainNameScript, c.src)
		phase := "compile"
		if el, ok := err.(parser.ErrorList); ok && len(el) > 0 && el[0] != nil && el[0].Pos.Filename == mainNameScript {
			phase = "parse"
		}
		r.bad = checkError(err, phase, ft)
		return r
	})
	res.class("entry:script")
	if o.bad() {
		if id := matchKnown(o, facts, honour, "script"); id != "" {
			res.known = id
			return
		}
		res.fail = st.String() + " " + o.String()
		return
	}
	if sr.bad != "" {
		res.fail = "Script.Compile: " + sr.bad
		return
	}
	if (sr.err == nil) != sr.ok {
		res.fail = fmt.Sprintf("Script.Compile returned compiled=%v err=%v", sr.ok, sr.err)
		return
	}
	if sr.err != nil {
		res.class("script:error")
	} else {
		res.class("script:ok")
	}
}

// report turns the verdict into evidence / a failure.
func report(t ev.TB, test string, c *tcase, res result) {
	if res.fail != "" {
		ev.Fail(t, test, c.payload(), "%s\ninput: %s\nconfig: modules=%s file-import=%v vars=%v", res.fail, echo(c.src), c.modules, c.fileImport, c.vars)
		return
	}
	if res.known != "" {
		ev.Discard("known:" + res.known)
		return
	}
	ev.Case(res.key, res.nontrivial, res.classes...)
	if res.nontrivial && ev.WantSample() && len(c.src) > 20 && len(c.src) < 300 {
		ev.Sample(map[string]interface{}{"origin": c.origin, "mutations": c.mutKinds, "src": echo(c.src),
			"modules": c.modules, "file_import": c.fileImport, "vars": c.vars, "outcome": outcomeClasses(res.classes)})
	}
}

func outcomeClasses(cls []string) []string {
	var out []string
	for _, c := range cls {
		if strings.HasPrefix(c, "parse:") || strings.HasPrefix(c, "compile:") || strings.HasPrefix(c, "script:") {
			out = append(out, c)
		}
	}
	return out
}

// ---------- rapid properties ----------

// setupCase is the input (if any) on which set-up met a scanner/parser that
// hangs; it is evaluated before anything else.
func setupCase() *tcase {
	loadCorpus()
	if setupDefect == nil {
		return nil
	}
	return &tcase{src: setupDefect, modules: "none", origin: "corpus-or-constant-unmodified", base: string(setupDefect)}
}

func TestMutatedPrograms(t *testing.T) {
	rapid.Check(t, func(t *rapid.T) {
		if c := setupCase(); c != nil {
			report(t, "TestMutatedPrograms", c, evaluate(c, true))
		}
		c := drawMutatedCase(t)
		report(t, "TestMutatedPrograms", c, evaluate(c, true))
	})
}

func TestRawBytes(t *testing.T) {
	rapid.Check(t, func(t *rapid.T) {
		if c := setupCase(); c != nil {
			report(t, "TestRawBytes", c, evaluate(c, true))
		}
		c := drawRawCase(t)
		report(t, "TestRawBytes", c, evaluate(c, true))
	})
}

func TestHostileShapes(t *testing.T) {
	rapid.Check(t, func(t *rapid.T) {
		if c := setupCase(); c != nil {
			report(t, "TestHostileShapes", c, evaluate(c, true))
		}
		c := drawHostileCase(t)
		report(t, "TestHostileShapes", c, evaluate(c, true))
	})
}

// ---------- native fuzz target (thorough tier) ----------

// cfg bits: 0-1 modules (0 none, 1 stdlib, 2 source, 3 none), 2 file import,
// 3-5 number of variables (0..6, 7 -> 6), 6-15 seed for the variable names.
func fuzzCase(src, mod []byte, cfg uint16) *tcase {
	c := &tcase{src: src, origin: "fuzz"}
	switch cfg & 3 {
	case 1:
		c.modules = "stdlib"
	case 2:
		c.modules = "source"
		c.mods = []srcMod{{name: "m1", body: mod}}
	default:
		c.modules = "none"
	}
	c.fileImport = cfg&4 != 0
	n := int(cfg>>3) & 7
	if n > 6 {
		n = 6
	}
	seed := int(cfg >> 6)
	for i := 0; i < n; i++ {
		c.vars = append(c.vars, varSpec{Name: varNamePool[(seed+i*7)%len(varNamePool)], Kind: (seed + i) % 8})
	}
	return c
}

func FuzzCompile(f *testing.F) {
	for i, s := range corpusSnippets() {
		f.Add([]byte(s), []byte("export {f: func(x) { return x*2 }}"), uint16(i%8|((i%5)<<3)|(i%97)<<6))
	}
	hostile := hostileConstants()
	for _, sh := range nestShapes {
		hostile = append(hostile, strings.Repeat(sh.open, 150)+sh.core+strings.Repeat(sh.close, 150))
	}
	for i, s := range hostile {
		if len(s) > 2048 {
			// inputs near the size bound cost ~0.1-0.5 s each under coverage
			// instrumentation; TestHostileShapes covers them, the fuzzer gets
			// the shallow variants above
			continue
		}
		f.Add([]byte(s), []byte(s), uint16(i%8|((i%7)<<3)))
		f.Add([]byte(`m := import("m1"); out := m`), []byte(s), uint16(2|(i%2)<<2))
	}
	if c := setupCase(); c != nil {
		report(f, "FuzzCompile", c, evaluate(c, true))
	}
	f.Fuzz(func(t *testing.T, src, mod []byte, cfg uint16) {
		if len(src) > maxInput || len(mod) > maxInput {
			return
		}
		c := fuzzCase(src, mod, cfg)
		report(t, "FuzzCompile", c, evaluate(c, true))
	})
}

// ---------- replay ----------

func replayFile(t *testing.T, path string, honour bool) result {
	var p casePayload
	test, err := ev.LoadReplay(path, &p)
	if err != nil {
		t.Fatalf("load %s: %v", path, err)
	}
	switch test {
	case "TestMutatedPrograms", "TestRawBytes", "TestHostileShapes", "FuzzCompile", "TestKnownFindings":
	default:
		t.Fatalf("unknown test %q in %s", test, path)
	}
	c, err := p.tcase()
	if err != nil {
		t.Fatalf("decode %s: %v", path, err)
	}
	return evaluate(c, honour)
}

func TestReplay(t *testing.T) {
	path := os.Getenv("VERIF_REPLAY")
	if path == "" {
		t.Skip("no VERIF_REPLAY")
	}
	if strings.HasSuffix(path, ".fuzz") {
		src, mod, cfg, err := readFuzzFile(path)
		if err != nil {
			t.Fatal(err)
		}
		c := fuzzCase(src, mod, cfg)
		report(t, "FuzzCompile", c, evaluate(c, false))
		return
	}
	var p casePayload
	test, err := ev.LoadReplay(path, &p)
	if err != nil {
		t.Fatalf("load %s: %v", path, err)
	}
	c, err := p.tcase()
	if err != nil {
		t.Fatalf("decode %s: %v", path, err)
	}
	// the raw behaviour is shown: open-finding switches are not honoured
	report(t, test, c, evaluate(c, false))
}

// TestRegressions re-runs every committed replay of a repaired defect: they
// must all pass.
func TestRegressions(t *testing.T) {
	files, _ := filepath.Glob(filepath.Join(verifRoot(), "replays", "C04", "fixed", "*.json"))
	sort.Strings(files)
	for _, f := range files {
		f := f
		t.Run(filepath.Base(f), func(t *testing.T) {
			var p casePayload
			test, err := ev.LoadReplay(f, &p)
			if err != nil {
				t.Fatalf("load %s: %v", f, err)
			}
			c, err := p.tcase()
			if err != nil {
				t.Fatalf("decode %s: %v", f, err)
			}
			res := evaluate(c, false)
			// a replay may name the outcome the repair established
			// (top-level "expect_class": e.g. "compile:error" for a defect
			// that also miscompiled silently): no panic is not enough then
			var x struct {
				ExpectClass string `json:"expect_class"`
			}
			if raw, err := os.ReadFile(f); err == nil {
				_ = json.Unmarshal(raw, &x)
			}
			if res.fail == "" && x.ExpectClass != "" {
				found := false
				for _, cl := range res.classes {
					if cl == x.ExpectClass {
						found = true
					}
				}
				if !found {
					res.fail = fmt.Sprintf("regression replay expects outcome %q, got %v", x.ExpectClass, outcomeClasses(res.classes))
				}
			}
			report(t, test, c, res)
		})
		ev.Note("regression replays run")
	}
}

func verifRoot() string {
	if r := os.Getenv("VERIF_ROOT"); r != "" {
		return r
	}
	return "/verif"
}

// readFuzzFile decodes a "go test fuzz v1" corpus file of FuzzCompile.
func readFuzzFile(path string) (src, mod []byte, cfg uint16, err error) {
	raw, err := os.ReadFile(path)
	if err != nil {
		return nil, nil, 0, err
	}
	var bs [][]byte
	for _, l := range strings.Split(string(raw), "\n")[1:] {
		l = strings.TrimSpace(l)
		switch {
		case strings.HasPrefix(l, "[]byte(") && strings.HasSuffix(l, ")"):
			s, err := strconv.Unquote(l[len("[]byte(") : len(l)-1])
			if err != nil {
				return nil, nil, 0, err
			}
			bs = append(bs, []byte(s))
		case strings.HasPrefix(l, "uint16(") && strings.HasSuffix(l, ")"):
			n, err := strconv.ParseUint(l[len("uint16("):len(l)-1], 0, 16)
			if err != nil {
				return nil, nil, 0, err
			}
			cfg = uint16(n)
		}
	}
	if len(bs) != 2 {
		return nil, nil, 0, fmt.Errorf("%s: expected two []byte values, found %d", path, len(bs))
	}
	return bs[0], bs[1], cfg, nil
}

// ---------- plain tests ----------

// TestCorpusAndConstants runs every corpus snippet and every hostile constant
// unmodified through the oracle under a fixed rotation of configurations.
func TestCorpusAndConstants(t *testing.T) {
	if c := setupCase(); c != nil {
		report(t, "TestMutatedPrograms", c, evaluate(c, true))
	}
	inputs := append(append([]string(nil), corpusSnippets()...), hostileConstants()...)
	modBody := []byte("x := 5\nexport {x: x, f: func(a) { return a + x }}")
	for i, s := range inputs {
		if len(s) > maxInput {
			s = s[:maxInput]
		}
		for k := 0; k < 3; k++ {
			c := &tcase{src: []byte(s), origin: "corpus-or-constant-unmodified", base: s}
			switch (i + k) % 3 {
			case 0:
				c.modules = "none"
			case 1:
				c.modules = "stdlib"
			default:
				c.modules = "source"
				c.mods = []srcMod{{name: "m1", body: modBody}, {name: "m2", body: []byte(s)}}
			}
			c.fileImport = (i+k)%2 == 0
			for j := 0; j < (i+k)%7; j++ {
				c.vars = append(c.vars, varSpec{Name: varNamePool[(i*3+j*5+k)%len(varNamePool)], Kind: (i + j) % 8})
			}
			if k == 2 {
				c.vars = append(c.vars, varSpec{Name: "out", Kind: 0})
			}
			report(t, "TestMutatedPrograms", c, evaluate(c, true))
		}
	}
}

// TestGrammarProgramsCompile validates the harness's own generator (DESIGN
// §6.6): programs of grammar_test.go are meant to be valid, so tengo's parser
// and compiler must accept them. A failure here is a harness defect (plain
// t.Fatalf, exit 2), never a verdict about the property.
func TestGrammarProgramsCompile(t *testing.T) {
	rapid.Check(t, func(t *rapid.T) {
		src := genProgram(t, nil, rapid.Bool().Draw(t, "module"))
		r := parseBytes("g", []byte(src))
		if r.err != nil {
			t.Fatalf("generated program does not parse: %v\n%s", r.err, src)
		}
		cc := tengo.NewCompiler(r.sf, nil, nil, nil, nil)
		if err := cc.Compile(r.file); err != nil {
			t.Fatalf("generated program does not compile: %v\n%s", err, src)
		}
		ev.Note("grammar programs accepted by tengo's parser and compiler")
	})
}
