package c04

import (
	"bufio"
	_ "embed"
	"fmt"
	"strconv"
	"strings"
	"sync"

	"github.com/d5/tengo/v2/parser"
	"github.com/d5/tengo/v2/stdlib"
	"github.com/d5/tengo/v2/token"
	"pgregory.net/rapid"
)

// ---------- corpus ----------

// corpus/snippets.txt: every string literal of /repo/vm_test.go,
// compiler_test.go, parser/parser_test.go and script_test.go (extracted once
// with go/parser, de-duplicated, sorted), one strconv.Quote'd record per line.
//
//go:embed corpus/snippets.txt
var corpusRaw string

type span struct {
	tok  token.Token
	text string // token text plus everything up to the next token
}

type program struct {
	src   string
	lead  string // bytes before the first token
	spans []span
	stuck bool // the scanner panicked or did not reach EOF (a defect the oracle reports)
}

var (
	corpusOnce  sync.Once
	corpusAll   []string
	corpusSet   map[string]bool
	corpusValid []*program // snippets tengo's parser accepts and that have >= 3 tokens
	corpusOther []*program // the rest (error messages, fragments, malformed inputs of the parser tests)
)

func loadCorpus() {
	corpusOnce.Do(func() {
		corpusSet = map[string]bool{}
		sc := bufio.NewScanner(strings.NewReader(corpusRaw))
		sc.Buffer(make([]byte, 1<<20), 1<<20)
		for sc.Scan() {
			line := sc.Text()
			if line == "" {
				continue
			}
			s, err := strconv.Unquote(line)
			if err != nil {
				panic(fmt.Sprintf("corpus/snippets.txt: bad record %q: %v", line, err))
			}
			corpusAll = append(corpusAll, s)
			corpusSet[s] = true
		}
		// classification runs under the watchdog: a scanner/parser that
		// panics or hangs (a defect the oracle reports on real cases) must
		// not take the harness down during set-up. The first input on which
		// set-up met such a defect is kept in setupDefect; every test
		// evaluates it first, so the run ends at once with a proper verdict
		// instead of crawling along next to a leaked, spinning goroutine.
		broken := false
		for _, s := range corpusAll {
			p := tokenise(s)
			ok := false
			if p.stuck && setupDefect == nil {
				setupDefect = []byte(s)
				broken = true
			}
			if !broken {
				var o outcome
				ok, o = guardOnce(func() bool {
					r := parseBytes("corpus", []byte(s))
					return r.err == nil && r.file != nil
				}, watchdog)
				if o.timeout {
					setupDefect = []byte(s)
					broken = true
				}
			}
			if ok && len(p.spans) >= 3 {
				corpusValid = append(corpusValid, p)
			} else {
				corpusOther = append(corpusOther, p)
			}
		}
		if len(corpusValid) == 0 {
			corpusValid = corpusOther // keep the generators going on whatever there is
		}
	})
}

// setupDefect: see loadCorpus.
var setupDefect []byte

func corpusSnippets() []string { loadCorpus(); return corpusAll }

func inCorpus(s string) bool { loadCorpus(); return corpusSet[s] }

// tokenise splits src at the token starts tengo's scanner reports. A scanner
// that panics or stops making progress (a defect the oracle reports on the
// final input) degrades to one span.
func tokenise(src string) (p *program) {
	p = &program{src: src}
	defer func() {
		if r := recover(); r != nil {
			p.lead, p.spans, p.stuck = "", []span{{tok: token.Illegal, text: src}}, true
		}
	}()
	b := []byte(src)
	fs := parser.NewFileSet()
	f := fs.AddFile("t", -1, len(b))
	s := parser.NewScanner(f, b, nil, 0)
	var toks []token.Token
	var offs []int
	for n := 0; ; n++ {
		if n > 2*len(b)+16 {
			p.lead, p.spans, p.stuck = "", []span{{tok: token.Illegal, text: src}}, true
			return p
		}
		tok, _, pos := s.Scan()
		if tok == token.EOF {
			break
		}
		off := int(pos) - f.Base
		if len(offs) > 0 && off < offs[len(offs)-1] {
			off = offs[len(offs)-1]
		}
		toks = append(toks, tok)
		offs = append(offs, off)
	}
	if len(offs) == 0 {
		p.lead = src
		return p
	}
	p.lead = src[:offs[0]]
	for i := range offs {
		end := len(src)
		if i+1 < len(offs) {
			end = offs[i+1]
		}
		p.spans = append(p.spans, span{tok: toks[i], text: src[offs[i]:end]})
	}
	return p
}

func join(lead string, spans []span) string {
	var sb strings.Builder
	sb.WriteString(lead)
	for _, s := range spans {
		sb.WriteString(s.text)
	}
	return sb.String()
}

// ---------- pools ----------

var varNamePool = []string{"a", "b", "c", "x", "y", "out", "foo", "f", "m", "arr", "it", "i", "n",
	"len", "append", "copy", "format", "string", "is_error", "range", "delete", "int",
	"import", "func", "for", "in", "undefined", "true", "error", "immutable", "export", "if",
	"_", ":it", "", "m1", "m2", "fmt", "math", "ä", "a1", "v0", "v1"}

var keywordPool = []string{"break", "continue", "else", "for", "func", "error", "immutable", "if", "return",
	"export", "true", "false", "in", "undefined", "import"}

var operatorPool = []string{"+", "-", "*", "/", "%", "&", "|", "^", "<<", ">>", "&^", "+=", "-=", "*=", "/=", "%=",
	"&=", "|=", "^=", "<<=", ">>=", "&^=", "&&", "||", "++", "--", "==", "<", ">", "=", "!", "!=", "<=", ">=", ":=",
	"...", ",", ".", ";", ":", "?"}

var bracketPool = []string{"(", ")", "[", "]", "{", "}"}

var fragmentPool = []string{"break", "continue", "return", "return ", "export ", "import(\"m1\")", "import(\"m2\")",
	"import(\"fmt\")", "import(\"enum\")", "import(\"nosuch\")", "import(\"\")", "import(\"../x\")", "import(", "func() {", "func(a, ...b) {",
	"for {", "for x in y {", "for k, v in [1,2] {", "for a, b, c in x {", "}", "}()", "in", "...", ":=", "=", "++", "if x {", "else {", "else if",
	"error(", "immutable(", "x := func() {", "\n", ";", "x ? y : z", "[1:2]", "[:]", ".a.b", "(1, 2)...", "{a: 1}", "undefined"}

var hugeLiterals = []string{
	strings.Repeat("9", 400), "0x" + strings.Repeat("f", 300), "1e" + strings.Repeat("9", 40), "0." + strings.Repeat("0", 500) + "1",
	"9223372036854775807", "9223372036854775808", "-9223372036854775809", "18446744073709551616", "0b2", "0b", "0o8", "0x", "08", "1e", "1e+", "1.e1", ".5", "1..2", "1_000", "1__0", "_1", "1_",
	"0x1p-2", "0x1.8p1", "0xp1", "1e400", "1e-400", "0x.p", "''", "'ab'", "'\\''", "'\\x41'", "'\\u00e9'", "'\\U0010ffff'", "'\\U00110000'", "'\\ud800'", "'\\400'", "'\\8'",
	`"\x"`, `"\u12"`, `"\ud800"`, `"\400"`, `"\q"`, "\"a\nb\"", "`a\r\nb`", `"` + strings.Repeat("s", 300) + `"`,
}

func stdlibNames() []string { return stdlib.AllModuleNames() }

// ---------- weighted choice ----------

// uni draws an index in [0,n) with (nearly) equal probabilities. rapid's
// integer generators are deliberately biased towards few-bit values (half of
// the draws of IntRange(0,99) fall below 32), which would put most mutations
// at the start of a program and most choices on the first alternative; the
// bias is removed by mixing the bits of one Uint64 draw (still a pure
// function of rapid's bit stream, so replay and shrinking keep working).
func uni(t *rapid.T, label string, n int) int {
	if n <= 1 {
		return 0
	}
	x := rapid.Uint64().Draw(t, label)
	x += 0x9e3779b97f4a7c15
	x = (x ^ (x >> 30)) * 0xbf58476d1ce4e5b9
	x = (x ^ (x >> 27)) * 0x94d049bb133111eb
	x ^= x >> 31
	return int(x % uint64(n))
}

func pick(t *rapid.T, label string, weights ...int) int {
	total := 0
	for _, w := range weights {
		total += w
	}
	n := uni(t, label, total)
	for i, w := range weights {
		if n < w {
			return i
		}
		n -= w
	}
	return len(weights) - 1
}

func sample(t *rapid.T, label string, xs []string) string {
	return xs[uni(t, label, len(xs))]
}

// ---------- base programs ----------

func drawBase(t *rapid.T, imports []string) (*program, string) {
	loadCorpus()
	switch pick(t, "base", 45, 8, 47) {
	case 0:
		return corpusValid[uni(t, "ci", len(corpusValid))], "corpus"
	case 1:
		return corpusOther[uni(t, "co", len(corpusOther))], "corpus"
	default:
		return tokenise(genProgram(t, imports, false)), "grammar"
	}
}

// ---------- token-level mutations ----------

func replaceWord(s span, word string) span {
	trimmed := strings.TrimRight(s.text, " \t\r\n")
	return span{tok: token.Lookup(word), text: word + s.text[len(trimmed):]}
}

func pickIndex(t *rapid.T, spans []span, label string, want func(span) bool) int {
	var idx []int
	for i, s := range spans {
		if want(s) {
			idx = append(idx, i)
		}
	}
	if len(idx) == 0 {
		return uni(t, label, len(spans))
	}
	return idx[uni(t, label, len(idx))]
}

func isBracket(tk token.Token) bool {
	switch tk {
	case token.LParen, token.RParen, token.LBrack, token.RBrack, token.LBrace, token.RBrace:
		return true
	}
	return false
}

func mutateTokens(t *rapid.T, spans []span, imports []string) ([]span, string) {
	if len(spans) == 0 {
		return []span{{tok: token.Ident, text: sample(t, "frag", fragmentPool) + " "}}, "tok-insert-fragment"
	}
	out := append([]span(nil), spans...)
	i := uni(t, "at", len(out))
	switch pick(t, "tokmut", 7, 7, 9, 20, 13, 8, 10, 8, 9, 9) {
	case 0:
		return append(out[:i], out[i+1:]...), "tok-delete"
	case 1:
		out = append(out[:i+1], out[i:]...)
		return out, "tok-duplicate"
	case 2:
		j := i + 1
		if rapid.IntRange(0, 2).Draw(t, "far") == 0 {
			j = uni(t, "j", len(out))
		}
		if j >= len(out) {
			j = 0
		}
		out[i], out[j] = out[j], out[i]
		return out, "tok-swap"
	case 3:
		i = pickIndex(t, out, "ident", func(s span) bool { return s.tok == token.Ident })
		loadBuiltins()
		var w string
		switch pick(t, "wk", 5, 3, 4) {
		case 0:
			w = sample(t, "builtin", builtinList)
		case 1:
			w = sample(t, "keyword", keywordPool)
		default:
			w = sample(t, "varname", varNamePool)
		}
		out[i] = replaceWord(out[i], w)
		return out, "tok-ident-to-builtin-or-keyword"
	case 4:
		i = pickIndex(t, out, "op", func(s span) bool { return s.tok.IsOperator() && !isBracket(s.tok) })
		if out[i].tok.Precedence() > 0 && rapid.IntRange(0, 2).Draw(t, "sameclass") > 0 {
			out[i] = replaceWord(out[i], sample(t, "newbinop", binOps))
		} else {
			out[i] = replaceWord(out[i], sample(t, "newop", operatorPool))
		}
		return out, "tok-replace-operator"
	case 5:
		if rapid.Bool().Draw(t, "delbr") {
			i = pickIndex(t, out, "br", func(s span) bool { return isBracket(s.tok) })
			return append(out[:i], out[i+1:]...), "tok-unbalance-bracket"
		}
		b := span{tok: token.LParen, text: sample(t, "bracket", bracketPool)}
		out = append(out[:i], append([]span{b}, out[i:]...)...)
		return out, "tok-unbalance-bracket"
	case 6:
		other, _ := drawBase(t, imports)
		if len(other.spans) == 0 {
			return out, "tok-splice"
		}
		a := uni(t, "fa", len(other.spans))
		n := rapid.IntRange(1, 12).Draw(t, "fn")
		if a+n > len(other.spans) {
			n = len(other.spans) - a
		}
		frag := append([]span(nil), other.spans[a:a+n]...)
		// keep tokens apart
		last := &frag[len(frag)-1]
		if !strings.HasSuffix(last.text, " ") && !strings.HasSuffix(last.text, "\n") {
			last.text += " "
		}
		cut := 0
		if rapid.Bool().Draw(t, "replace") {
			cut = rapid.IntRange(0, 4).Draw(t, "cut")
			if i+cut > len(out) {
				cut = len(out) - i
			}
		}
		res := append([]span(nil), out[:i]...)
		res = append(res, frag...)
		res = append(res, out[i+cut:]...)
		return res, "tok-splice"
	case 7:
		i = pickIndex(t, out, "lit", func(s span) bool { return s.tok.IsLiteral() && s.tok != token.Ident })
		out[i] = replaceWord(out[i], sample(t, "huge", hugeLiterals))
		out[i].tok = token.Int
		return out, "tok-hostile-literal"
	case 8:
		fr := span{tok: token.Ident, text: sample(t, "frag", fragmentPool) + sample(t, "sep", []string{" ", " ", "\n", ""})}
		out = append(out[:i], append([]span{fr}, out[i:]...)...)
		return out, "tok-insert-fragment"
	default:
		// whole statements of another program, inserted at a statement
		// boundary (after an automatic or explicit semicolon): usually still
		// parses, and confronts the compiler with foreign names, stray
		// return/break/export, redeclarations
		other, _ := drawBase(t, imports)
		var bounds []int
		for k, sp := range other.spans {
			if sp.tok == token.Semicolon {
				bounds = append(bounds, k+1)
			}
		}
		frag := other.spans
		if len(bounds) >= 2 {
			a := uni(t, "sa", len(bounds)-1)
			b := a + 1 + uni(t, "sb", min(3, len(bounds)-1-a))
			frag = other.spans[bounds[a]:bounds[b]]
		}
		at := 0
		var mine []int
		for k, sp := range out {
			if sp.tok == token.Semicolon || sp.tok == token.LBrace {
				mine = append(mine, k+1)
			}
		}
		if len(mine) > 0 {
			at = mine[uni(t, "sat", len(mine))]
		}
		res := append([]span(nil), out[:at]...)
		res = append(res, frag...)
		if len(frag) > 0 && !strings.HasSuffix(frag[len(frag)-1].text, "\n") {
			res = append(res, span{tok: token.Semicolon, text: "\n"})
		}
		res = append(res, out[at:]...)
		return res, "tok-splice-statements"
	}
}

// ---------- byte-level mutations ----------

var badBytes = []string{"\x00", "\xff", "\xfe", "\xc0\xaf", "\xe0\x80\xaf", "\xed\xa0\x80", "\xe2\x82", "\xf4\x90\x80\x80", "\xc3",
	"\xef\xbb\xbf", "\xef\xbb", " ", " ", "٠", "\U0001F600", "\x7f", "\x1b", "\x0c", "\x0b"}

var unterminated = []string{`"`, `'`, "`", "/*", "//", `\`, `'\`, `"\`, `"\x`, `"\u12`, `'\u`, "/*/", "*/", "/**", "'\n'", "\"\n", "`\r"}

type nestShape struct{ open, core, close string }

var nestShapes = []nestShape{
	{"(", "1", ")"}, {"[", "1", "]"}, {"{a:", "1", "}"}, {"func(){", "", "}"}, {"-", "1", ""}, {"!", "x", ""}, {"^", "1", ""},
	{"f(", "1", ")"}, {"a[", "0", "]"}, {"if x {", "", "}"}, {"for {", "", "}"}, {"x?", "1", ":2"}, {"{", "", "}"},
	{"error(", "1", ")"}, {"immutable([", "1", "])"}, {"func(){return ", "1", "}"}, {"a.", "b", ""}, {"[1,", "2", "]"},
	{"x := func(){", "", "}\n"}, {"for i in x {", "", "}"}, {"if x {} else ", "if x {}", ""}, {"1+", "1", ""}, {"(func(){", "", "})()"},
}

func insertAt(b []byte, pos int, s string) []byte {
	out := make([]byte, 0, len(b)+len(s))
	out = append(out, b[:pos]...)
	out = append(out, s...)
	return append(out, b[pos:]...)
}

func drawDepth(t *rapid.T, per int) int {
	if per < 1 {
		per = 1
	}
	max := maxInput / per
	switch pick(t, "depthk", 55, 38, 7) {
	case 0:
		return rapid.IntRange(1, 40).Draw(t, "depth")
	case 1:
		return rapid.IntRange(40, 1500).Draw(t, "depth")
	default:
		// up to the size bound; costs ~0.1-0.5 s of CPU per case (goroutine
		// stack growth to 10-30 MB), hence rare
		return rapid.IntRange(min(1500, max), max).Draw(t, "depth")
	}
}

func nesting(t *rapid.T) string {
	sh := nestShapes[uni(t, "shape", len(nestShapes))]
	n := drawDepth(t, len(sh.open)+len(sh.close))
	closers := n
	switch pick(t, "closers", 5, 3, 2) {
	case 1:
		closers = 0
	case 2:
		closers = rapid.IntRange(0, n).Draw(t, "nclose")
	}
	return strings.Repeat(sh.open, n) + sh.core + strings.Repeat(sh.close, closers)
}

func mutateBytes(t *rapid.T, b []byte) ([]byte, string) {
	pos := 0
	if len(b) > 0 {
		pos = uni(t, "pos", len(b)+1)
	}
	switch pick(t, "bytemut", 8, 8, 10, 8, 10, 8, 6, 8, 10, 4, 6) {
	case 0:
		return insertAt(b, pos, "\x00"), "byte-nul"
	case 1:
		if rapid.Bool().Draw(t, "bom0") {
			return insertAt(b, 0, "\xef\xbb\xbf"), "byte-bom-at-0"
		}
		return insertAt(b, pos, "\xef\xbb\xbf"), "byte-bom-elsewhere"
	case 2:
		return insertAt(b, pos, sample(t, "bad", badBytes)), "byte-invalid-utf8"
	case 3:
		if rapid.IntRange(0, 3).Draw(t, "crlf") == 0 {
			return []byte(strings.ReplaceAll(string(b), "\n", "\r\n")), "byte-cr"
		}
		return insertAt(b, pos, "\r"), "byte-cr"
	case 4:
		return insertAt(b, pos, sample(t, "unterm", unterminated)), "byte-unterminated"
	case 5:
		return insertAt(b, pos, sample(t, "huge", hugeLiterals)), "byte-huge-literal"
	case 6:
		return insertAt(b, pos, nesting(t)), "byte-deep-nesting"
	case 7:
		return append([]byte(nil), b[:pos]...), "byte-truncate"
	case 8:
		if len(b) == 0 {
			return []byte{rapid.Byte().Draw(t, "rb")}, "byte-random"
		}
		out := append([]byte(nil), b...)
		if pos >= len(out) {
			pos = len(out) - 1
		}
		switch rapid.IntRange(0, 2).Draw(t, "rk") {
		case 0:
			out[pos] = rapid.Byte().Draw(t, "rb")
		case 1:
			out[pos] ^= 1 << uint(rapid.IntRange(0, 7).Draw(t, "bit"))
		default:
			out = append(out[:pos], out[pos+1:]...)
		}
		return out, "byte-random"
	case 9:
		if len(b) == 0 {
			return b, "byte-dup-chunk"
		}
		a := uni(t, "ca", len(b))
		n := rapid.IntRange(1, 64).Draw(t, "cn")
		if a+n > len(b) {
			n = len(b) - a
		}
		reps := rapid.IntRange(1, 40).Draw(t, "reps")
		return insertAt(b, pos, strings.Repeat(string(b[a:a+n]), reps)), "byte-dup-chunk"
	default:
		return insertAt(b, pos, sample(t, "ws", []string{"\n", "\n\n", ";", " ", "\t", "//x\n", "/*\n*/", "/* */"})), "byte-whitespace-comment"
	}
}

func clip(b []byte) []byte {
	if len(b) > maxInput {
		return b[:maxInput]
	}
	return b
}

// ---------- configuration ----------

func drawVars(t *rapid.T, c *tcase) {
	n := 0
	switch pick(t, "nvarsk", 4, 6) {
	case 1:
		n = 1 + uni(t, "nvars", 6)
	}
	seen := map[string]bool{}
	for i := 0; i < n; i++ {
		name := sample(t, "varname", varNamePool)
		if seen[name] {
			continue
		}
		seen[name] = true
		c.vars = append(c.vars, varSpec{Name: name, Kind: uni(t, "varkind", 8)})
	}
}

// drawBody draws the bytes of a source module.
func drawBody(t *rapid.T, imports []string) []byte {
	loadCorpus()
	switch pick(t, "bodyk", 30, 40, 20, 10) {
	case 0:
		p := corpusValid[uni(t, "bci", len(corpusValid))]
		s := p.src
		if rapid.Bool().Draw(t, "exp") {
			s += "\nexport " + sample(t, "expv", []string{"1", "{a: 1}", "func(x) { return x }", "undefined", "[1, 2]", "\"s\""})
		}
		return clip([]byte(s))
	case 1:
		return clip([]byte(genProgram(t, imports, true)))
	case 2:
		base, _ := drawBase(t, imports)
		spans := base.spans
		n := rapid.IntRange(1, 4).Draw(t, "bn")
		for i := 0; i < n; i++ {
			spans, _ = mutateTokens(t, spans, imports)
		}
		return clip([]byte(join(base.lead, spans)))
	default:
		return rapid.SliceOfN(rapid.Byte(), 0, 48).Draw(t, "braw")
	}
}

// drawConfig fills modules / file import / variables and, for source
// modules, makes the main source import them most of the time.
func drawConfig(t *rapid.T, c *tcase) (imports []string) {
	switch pick(t, "modules", 30, 30, 40) {
	case 0:
		c.modules = "none"
		if uni(t, "none-imports", 10) < 3 {
			imports = []string{"nosuch", "m1", "fmt"}
		}
	case 1:
		c.modules = "stdlib"
		imports = append([]string{"nosuch"}, stdlibNames()...)
	default:
		c.modules = "source"
		n := 1 + uni(t, "nmods", 2)
		for i := 0; i < n; i++ {
			name := fmt.Sprintf("m%d", i+1)
			c.mods = append(c.mods, srcMod{name: name})
			imports = append(imports, name, name, name)
		}
		imports = append(imports, "nosuch")
	}
	c.fileImport = rapid.Bool().Draw(t, "file-import")
	drawVars(t, c)
	return imports
}

func finishConfig(t *rapid.T, c *tcase, imports []string) {
	if c.modules != "source" {
		return
	}
	for i := range c.mods {
		c.mods[i].body = drawBody(t, imports)
	}
	if uni(t, "do-import", 10) < 8 {
		var pre strings.Builder
		for _, m := range c.mods {
			switch uni(t, "impform", 3) {
			case 0:
				fmt.Fprintf(&pre, "%s := import(%q)\n", m.name, m.name)
			case 1:
				fmt.Fprintf(&pre, "import(%q);", m.name)
			default:
				fmt.Fprintf(&pre, "mm_%s := import(%q).x\n", m.name, m.name)
			}
		}
		c.src = clip(append([]byte(pre.String()), c.src...))
	}
}

// ---------- case generators ----------

func drawMutatedCase(t *rapid.T) *tcase {
	c := &tcase{}
	imports := drawConfig(t, c)
	base, origin := drawBase(t, imports)
	c.base = base.src
	nmut := 0
	switch pick(t, "nmutk", 8, 42, 30, 20) {
	case 1:
		nmut = 1
	case 2:
		nmut = 2 + uni(t, "nmut", 2)
	case 3:
		nmut = 4 + uni(t, "nmut", 5)
	}
	if pick(t, "level", 72, 28) == 0 {
		c.origin = origin + "+token-mutations"
		spans := base.spans
		for i := 0; i < nmut; i++ {
			var k string
			spans, k = mutateTokens(t, spans, imports)
			c.mutKinds = append(c.mutKinds, k)
		}
		c.src = []byte(join(base.lead, spans))
	} else {
		c.origin = origin + "+byte-mutations"
		b := []byte(base.src)
		for i := 0; i < nmut; i++ {
			var k string
			b, k = mutateBytes(t, b)
			c.mutKinds = append(c.mutKinds, k)
		}
		c.src = b
	}
	if nmut == 0 {
		c.origin = origin + "+unmodified"
	}
	c.src = clip(c.src)
	finishConfig(t, c, imports)
	if c.modules == "source" {
		// with the import prefix the input differs from the base by
		// construction; non-triviality is about the mutated part
		if string(c.src) != base.src && nmut == 0 {
			c.base = string(c.src)
		}
	}
	return c
}

func drawRawCase(t *rapid.T) *tcase {
	c := &tcase{origin: "raw-bytes"}
	imports := drawConfig(t, c)
	switch pick(t, "rawk", 5, 3, 2, 4) {
	case 3:
		c.origin = "lexical-edges"
		c.src = []byte(lexicalEdge(func(label string, n int) int { return uni(t, label, n) }))
	case 0:
		c.src = rapid.SliceOfN(rapid.Byte(), 0, 64).Draw(t, "raw")
	case 1:
		// bytes biased towards the characters the scanner switches on
		alphabet := []byte("abcxyz_019 \t\n\r;:,.()[]{}+-*/%&|^<>=!?\"'`\\#$@~\x00\xff\xef\xbb\xbf\xc3\xa9\xe2\x82\xac")
		n := rapid.IntRange(0, 200).Draw(t, "rawn")
		b := make([]byte, n)
		for i := range b {
			b[i] = alphabet[uni(t, "rc", len(alphabet))]
		}
		c.src = b
	default:
		c.src = rapid.SliceOfN(rapid.Byte(), 64, 2048).Draw(t, "rawlong")
	}
	finishConfig(t, c, imports)
	return c
}

// ---------- lexical edges: comments and literals against CR, EOF and their own delimiters ----------

var (
	edgeOpeners = []string{"/*", "/*", "//", "`", "\"", "'"}
	edgePieces  = []string{"*", "/", "\r", "\n", "\r\n", "a", "\\", " ", "\"", "`", "'", "*/", "/*", "\x00", "é", "\xff"}
	edgeEnds    = []string{"", "", "*", "\r", "*\r", "\r\n", "*\r\n", "/", "\\", "*/", "\n", "\r*", "*\r/"}
	edgePrefix  = []string{"", "", "a := 1\n", "a := 1 ", "x := [1,\n", "f(", "\r\n", "\xef\xbb\xbf", "a /", "a := `r`\r"}
	edgeSuffix  = []string{"", "", "", "\nb := 2\n", " b", "\r", "\r\n\r"}
)

// lexicalEdge builds: prefix, an opener of a comment / raw string / string /
// char literal, 0..5 body pieces, an ending that closes it properly, leaves it
// open at EOF, or ends in the bytes the scanner special-cases (CR, a lone *, a
// backslash), then possibly more source.
func lexicalEdge(draw func(label string, n int) int) string {
	var sb strings.Builder
	sb.WriteString(edgePrefix[draw("edgePrefix", len(edgePrefix))])
	open := edgeOpeners[draw("edgeOpen", len(edgeOpeners))]
	sb.WriteString(open)
	for i := draw("edgeN", 6); i > 0; i-- {
		sb.WriteString(edgePieces[draw("edgePiece", len(edgePieces))])
	}
	switch draw("edgeClose", 3) {
	case 0: // properly closed
		switch open {
		case "/*":
			sb.WriteString("*/")
		case "//":
			sb.WriteString("\n")
		default:
			sb.WriteString(open)
		}
		sb.WriteString(edgeSuffix[draw("edgeSuffix", len(edgeSuffix))])
	default:
		sb.WriteString(edgeEnds[draw("edgeEnd", len(edgeEnds))])
		if draw("edgeMore", 4) == 0 {
			sb.WriteString(edgeSuffix[draw("edgeSuffix", len(edgeSuffix))])
		}
	}
	return sb.String()
}

// ---------- hostile shapes: nesting, counts at the encoding limits ----------

var boundaryCounts = []int{1, 2, 10, 11, 12, 100, 254, 255, 256, 257, 258, 300, 511, 512, 1000, 1021, 1022, 1023, 1024, 1025, 1026, 1100, 2000, 4096}

func drawCount(t *rapid.T, max int) int {
	var n int
	if uni(t, "cntk", 4) == 0 {
		n = rapid.IntRange(0, max).Draw(t, "cnt")
	} else {
		n = boundaryCounts[uni(t, "cntb", len(boundaryCounts))]
	}
	if n > max {
		n = max
	}
	return n
}

func repeatIdx(n int, f func(i int) string) string {
	var sb strings.Builder
	for i := 0; i < n; i++ {
		sb.WriteString(f(i))
	}
	return sb.String()
}

func hostileShape(t *rapid.T) (string, string) {
	switch pick(t, "hostile", 14, 8, 6, 5, 5, 5, 5, 5, 5, 5, 5, 5, 5, 5, 5, 5, 5) {
	case 0:
		pre := sample(t, "npre", []string{"", "", "x := ", "f(", "return ", "a = ", "for ", "if ", "x := 1\n"})
		return pre + nesting(t), "nesting"
	case 1:
		n := drawCount(t, 2000)
		sep := sample(t, "gsep", []string{"\n", ";", "\n"})
		return repeatIdx(n, func(i int) string { return fmt.Sprintf("v%d:=%d%s", i, i%7, sep) }), "many-globals"
	case 2:
		n := drawCount(t, 1500)
		return "f := func() {\n" + repeatIdx(n, func(i int) string { return fmt.Sprintf("v%d:=%d\n", i, i%5) }) + "return v0\n}\n", "many-locals"
	case 3:
		n := drawCount(t, 4000)
		tail := sample(t, "seltail", []string{" = 1", " += 1", "++", "", "()", " := 1"})
		return "a := {}\na" + strings.Repeat(".b", n) + tail, "many-selectors"
	case 4:
		n := drawCount(t, 4000)
		return "f := func(...a) {}\nf(" + strings.Repeat("1,", n) + "2)", "many-call-args"
	case 5:
		n := drawCount(t, 7000)
		if rapid.Bool().Draw(t, "distinct") {
			return "x := [" + repeatIdx(min(n, 2500), func(i int) string { return fmt.Sprintf("%d,", i) }) + "0]", "many-constants"
		}
		return "x := [" + strings.Repeat("1,", n) + "1]", "many-array-elements"
	case 6:
		n := drawCount(t, 2000)
		return "x := {" + repeatIdx(n, func(i int) string { return fmt.Sprintf("k%d:%d,", i, i) }) + "z:0}", "many-map-elements"
	case 7:
		n := drawCount(t, 2000)
		va := sample(t, "va", []string{"", "...", ""})
		return "f := func(" + repeatIdx(n, func(i int) string { return fmt.Sprintf("p%d,", i) }) + va + "z) { return z }", "many-params"
	case 8:
		n := drawCount(t, 600)
		return "f := func() {\n" + repeatIdx(n, func(i int) string { return fmt.Sprintf("v%d:=%d\n", i, i) }) +
			"return func() { return 0" + repeatIdx(n, func(i int) string { return fmt.Sprintf("+v%d", i) }) + " }\n}", "many-free-variables"
	case 9:
		n := drawCount(t, 1200)
		return "x := 0\nif x == 0 {}" + repeatIdx(n, func(i int) string { return fmt.Sprintf(" else if x==%d {}", i) }), "long-else-if-chain"
	case 10:
		n := drawCount(t, 900)
		return "x := [1]\n" + repeatIdx(n, func(i int) string { return fmt.Sprintf("for k%d,v%d in x{}\n", i, i) }), "many-for-in-globals"
	case 11:
		n := drawCount(t, 800)
		names := append([]string{"m1", "nosuch"}, stdlibNames()...)
		return repeatIdx(n, func(i int) string { return fmt.Sprintf("i%d:=import(%q)\n", i, names[i%len(names)]) }), "many-imports"
	case 12:
		n := drawCount(t, maxInput)
		return sample(t, "longk", []string{"x", "\"s", "`r", "//c", "/*c", "1", "'c", " ", "\n", ";", "\r", "a1_"}) +
			strings.Repeat(sample(t, "longc", []string{"a", "é", "1", "\n", ";", "\r", " ", "_", "\\", "\x00", "\xff", "9"}), n), "long-run"
	case 13:
		n := drawCount(t, 3000)
		return repeatIdx(n, func(i int) string {
			return sample(t, "errline", []string{")\n", "a b\n", "= 1\n", "\x00\n", "'\n", "1 2;\n"})
		}), "many-error-lines"
	case 14:
		n := drawCount(t, 5000)
		op := sample(t, "chainop", []string{"+", "&&", "||", "==", "*", "<<", "&^", "-"})
		return "x := 1" + strings.Repeat(op+"1", n), "long-binary-chain"
	case 15:
		n := drawCount(t, 4000)
		return "f := func() { return f }\nx := [[1]]\ny := " + sample(t, "chain0", []string{"f", "x", "f()", "x[0]"}) +
			strings.Repeat(sample(t, "chainp", []string{"()", "[0]", "[:]", ".a", "(1)", "[0:1]"}), n), "long-postfix-chain"
	default:
		n := drawCount(t, 1200)
		return "x := 0\n" + repeatIdx(n, func(i int) string {
			return sample(t, "stmtk", []string{"x++\n", "x += 1\n", "x = x ? 1 : 2\n", "if x { x = 1 }\n", "for x < 1 { x++ }\n", "x = func() { return 1 }()\n"})
		}), "many-statements"
	}
}

// importLadder: module L<i> imports L<i+1> two or three times, for 12..40
// levels (optionally closed into a cycle at the bottom): the number of import
// paths is exponential in the depth, the number of modules linear. Compiling
// must terminate (each module is compiled once / the cycle is reported).
func importLadder(t *rapid.T) *tcase {
	c := &tcase{modules: "source", origin: "hostile:import-ladder"}
	depth := 12 + uni(t, "ladder-depth", 29)
	fan := 2 + uni(t, "ladder-fan", 2)
	cyc := uni(t, "ladder-cycle", 4) == 0
	for i := 0; i < depth; i++ {
		var b strings.Builder
		for k := 0; k < fan; k++ {
			switch {
			case i+1 < depth:
				fmt.Fprintf(&b, "v%d := import(\"L%d\")\n", k, i+1)
			case cyc && k == 0:
				fmt.Fprintf(&b, "v%d := import(\"L%d\")\n", k, uni(t, "ladder-back", depth))
			default:
				fmt.Fprintf(&b, "v%d := %d\n", k, k)
			}
		}
		b.WriteString("export {a: v0, b: v1}\n")
		c.mods = append(c.mods, srcMod{name: fmt.Sprintf("L%d", i), body: []byte(b.String())})
	}
	c.src = []byte("x := import(\"L0\")\ny := import(\"L0\")\n")
	c.fileImport = rapid.Bool().Draw(t, "file-import")
	drawVars(t, c)
	return c
}

func drawHostileCase(t *rapid.T) *tcase {
	if uni(t, "ladder", 25) == 0 {
		return importLadder(t)
	}
	c := &tcase{}
	imports := drawConfig(t, c)
	s, kind := hostileShape(t)
	c.origin = "hostile:" + kind
	if uni(t, "wrap", 5) == 0 {
		// embed in a corpus program
		base, _ := drawBase(t, imports)
		i := 0
		if len(base.spans) > 0 {
			i = uni(t, "embed-at", len(base.spans)+1)
		}
		s = join(base.lead, base.spans[:i]) + s + " " + join("", base.spans[i:])
		c.mutKinds = append(c.mutKinds, "embedded-in-program")
	}
	if uni(t, "post-mut", 6) == 0 {
		b := []byte(s)
		var k string
		b, k = mutateBytes(t, clip(b))
		c.mutKinds = append(c.mutKinds, k)
		s = string(b)
	}
	c.src = clip([]byte(s))
	finishConfig(t, c, imports)
	return c
}

func min(a, b int) int {
	if a < b {
		return a
	}
	return b
}

// hostileConstants seed the native fuzz target (and TestHostileConstants).
func hostileConstants() []string {
	out := []string{
		"len = 5", "len += 1", "len++", "copy.x = 1", "a := 1; a = 2; len := 3", "f := func() { len := 1; len = 2 }",
		"for { f := func() { break } }", "for x in [1] { func() { continue }() }", "for i := 0; i < 3; i++ { f := func() { for { break }; break } }",
		"for a, b, c in x {}", "for a, b, c in [1] {}", "x := {}; for a, b, c, d in x { a = b }", "for a, b in x {}", "for in x {}", "for a in {}",
		"\xef\xbb\xbfa := 1", "a := 1 \xef\xbb\xbf", "\x00", "a\x00b", "\xff", "a := \"abc", "a := `abc", "/* abc", "a /* \n */ b", "a // c\n b", "'", "'\\", "\"\\",
		"/**\r", "/* *\r", "/*\r", "/* a *\r\n", "`\r", "`a\r", "\"\r", "'\r", "//\r", "a /* b *\r", "/*/", "/*", "/**", "/***/", "'\\", "\"\\\r",
		"1e", "0x", "0b2", "1_", strings.Repeat("9", 400), "x := 1e400",
		"import(\"\")", "import(\"m1\")", "m := import(\"m1\"); m2 := import(\"m1\")", "import(\"nosuch\")", "import(\"../../x\")", "x := import(\"fmt\")", "import(\"enum\").all([], func(k, v) { return v })",
		"export 1", "export func() {}", "func() { export 1 }", "return", "return 1", "break", "continue", "a.b.c = 1", "a := 1; a := 2", "a, b := 1, 2", "a, b = 1", "a.b := 1", "1 = 2", "(a) = 1", "f() = 1",
		"x ? : ", "a[1:2:3]", "func(...a, b) {}", "f := func(a, ...b) {}; f(1, [2]...)", "if a := 1; a {}", "if ; a {}", "if {}", "for ;; {}", "for ; ; x {}", "immutable(", "error(", "error()", "a := {\"a\": 1, b: 2, 3: 4}",
		"a := 1\r\nb := 2\r\n", "a :=\r1", "x := 'a' + '\\n'", "x := `raw\r\nstring`", "f := func(x) { return x ? f(x-1) : 0 }", "x := [1, 2, 3][1:][0]", "x := {a: {b: [func() { return 1 }]}}.a.b[0]()",
		strings.Repeat("(", 5000), strings.Repeat("[", 5000), strings.Repeat("{a:", 3000), strings.Repeat("func(){", 1500), strings.Repeat("-", 8000) + "1",
		strings.Repeat("(", 4000) + "1" + strings.Repeat(")", 4000), strings.Repeat("[", 4000) + strings.Repeat("]", 4000),
		"a := {}\na" + strings.Repeat(".b", 300) + " = 1", "f := func(...a) {}\nf(" + strings.Repeat("1,", 300) + "2)",
		repeatIdx(1100, func(i int) string { return fmt.Sprintf("v%d:=0\n", i) }),
		"f := func() {\n" + repeatIdx(300, func(i int) string { return fmt.Sprintf("v%d:=0\n", i) }) + "}",
		repeatIdx(20, func(i int) string { return ")\n" }),
	}
	return out
}
