package c04

import (
	"fmt"
	"strconv"
	"strings"

	"pgregory.net/rapid"
)

// A small grammar-based generator of well-scoped tengo programs: every
// identifier that is read has been defined in an enclosing scope, break /
// continue only appear inside loops of the same function, return only inside
// functions, export only at the top level. (Programs need not be free of
// run-time errors; C04 never runs them.) TestGrammarProgramsCompile checks
// the claim "these are valid programs" against tengo's own parser/compiler.

type gen struct {
	t       *rapid.T
	sb      strings.Builder
	scopes  [][]string // visible variable names, innermost last
	funcs   []int      // index into scopes where each open function starts
	loops   []int      // number of open loops per open function (last = current)
	budget  int
	nextID  int
	imports []string
	indent  int
	module  bool
}

func genProgram(t *rapid.T, imports []string, module bool) string {
	g := &gen{t: t, imports: imports, module: module, budget: rapid.IntRange(4, 60).Draw(t, "budget")}
	g.scopes = [][]string{nil}
	g.loops = []int{0}
	n := rapid.IntRange(1, 8).Draw(t, "nstmts")
	for i := 0; i < n && g.budget > 0; i++ {
		g.stmt(0)
	}
	if module || uni(t, "export", 10) == 0 {
		g.line("export " + g.expr(2))
	}
	return g.sb.String()
}

func (g *gen) line(s string) {
	g.sb.WriteString(strings.Repeat("\t", g.indent))
	g.sb.WriteString(s)
	if uni(g.t, "semi", 8) == 0 {
		g.sb.WriteString(";")
	}
	g.sb.WriteString("\n")
}

func (g *gen) open(s string) {
	g.sb.WriteString(strings.Repeat("\t", g.indent))
	g.sb.WriteString(s)
	g.sb.WriteString("\n")
	g.indent++
	g.scopes = append(g.scopes, nil)
}

func (g *gen) close(s string) {
	g.indent--
	g.scopes = g.scopes[:len(g.scopes)-1]
	g.sb.WriteString(strings.Repeat("\t", g.indent))
	g.sb.WriteString(s)
	g.sb.WriteString("\n")
}

func (g *gen) fresh() string {
	g.nextID++
	base := sample(g.t, "idbase", []string{"a", "b", "x", "val", "fn", "tmp", "é", "_u", "k"})
	return base + strconv.Itoa(g.nextID)
}

func (g *gen) define(name string) {
	g.scopes[len(g.scopes)-1] = append(g.scopes[len(g.scopes)-1], name)
}

func (g *gen) visible() []string {
	var out []string
	for _, s := range g.scopes {
		out = append(out, s...)
	}
	return out
}

func (g *gen) someVar() (string, bool) {
	v := g.visible()
	if len(v) == 0 {
		return "", false
	}
	return v[uni(g.t, "var", len(v))], true
}

var binOps = []string{"+", "-", "*", "/", "%", "&", "|", "^", "<<", ">>", "&^", "&&", "||", "==", "!=", "<", ">", "<=", ">="}
var assignOps = []string{"=", "+=", "-=", "*=", "/=", "%=", "&=", "|=", "^=", "<<=", ">>=", "&^="}
var builtinCalls = []string{"len(%s)", "string(%s)", "int(%s)", "is_error(%s)", "type_name(%s)", "copy(%s)", "append([], %s)", "format(\"%%v\", %s)", "is_function(%s)"}

func (g *gen) literal() string {
	switch uni(g.t, "lit", 10) {
	case 0, 1, 2:
		return strconv.Itoa(rapid.IntRange(0, 300).Draw(g.t, "int"))
	case 3:
		return sample(g.t, "flt", []string{"1.5", "0.25", "2e3", "1e-2", ".5", "0x1F", "0b101", "0o17", "1_000"})
	case 4:
		return strconv.Quote(sample(g.t, "str", []string{"", "a", "hello world", "é\n", "\"q\"", "\\", "x\ty"}))
	case 5:
		return "`" + sample(g.t, "raw", []string{"", "raw", "a\nb", "\\n"}) + "`"
	case 6:
		return sample(g.t, "chr", []string{"'a'", "'\\n'", "'é'", "'\\''", "'\\x41'", "'0'"})
	case 7:
		return sample(g.t, "bool", []string{"true", "false"})
	case 8:
		return "undefined"
	default:
		return strconv.Itoa(rapid.IntRange(0, 9).Draw(g.t, "digit"))
	}
}

func (g *gen) expr(depth int) string {
	g.budget--
	if depth <= 0 || g.budget <= 0 {
		if v, ok := g.someVar(); ok && rapid.Bool().Draw(g.t, "leafvar") {
			return v
		}
		return g.literal()
	}
	switch uni(g.t, "expr", 18) {
	case 0, 1:
		return g.literal()
	case 2, 3:
		if v, ok := g.someVar(); ok {
			return v
		}
		return g.literal()
	case 4, 5:
		return g.expr(depth-1) + " " + sample(g.t, "binop", binOps) + " " + g.expr(depth-1)
	case 6:
		e := g.expr(depth - 1)
		if e != "" && strings.ContainsRune("-+^!", rune(e[0])) {
			e = "(" + e + ")"
		}
		return sample(g.t, "unop", []string{"-", "!", "^", "+"}) + e
	case 7:
		return "(" + g.expr(depth-1) + ")"
	case 8:
		n := rapid.IntRange(0, 3).Draw(g.t, "nelem")
		parts := make([]string, n)
		for i := range parts {
			parts[i] = g.expr(depth - 1)
		}
		return "[" + strings.Join(parts, ", ") + "]"
	case 9:
		n := rapid.IntRange(0, 3).Draw(g.t, "nkeys")
		parts := make([]string, n)
		for i := range parts {
			key := sample(g.t, "key", []string{"a", "b", "key", "\"s p\"", "x1", "len"})
			parts[i] = key + ": " + g.expr(depth-1)
		}
		return "{" + strings.Join(parts, ", ") + "}"
	case 10:
		return g.primary(depth-1) + "[" + g.expr(depth-1) + "]"
	case 11:
		return g.primary(depth-1) + sample(g.t, "slice", []string{"[:]", "[1:]", "[:2]", "[0:1]"})
	case 12:
		return g.primary(depth-1) + "." + sample(g.t, "sel", []string{"a", "b", "name", "len", "x"})
	case 13:
		n := rapid.IntRange(0, 3).Draw(g.t, "nargs")
		parts := make([]string, n)
		for i := range parts {
			parts[i] = g.expr(depth - 1)
		}
		callee := "func(...v) { return v }"
		if v, ok := g.someVar(); ok {
			callee = v
		}
		s := callee + "(" + strings.Join(parts, ", ")
		if n > 0 && uni(g.t, "spread", 6) == 0 {
			s += " ..."
		}
		return s + ")"
	case 14:
		return g.expr(depth-1) + " ? " + g.expr(depth-1) + " : " + g.expr(depth-1)
	case 15:
		return g.funcLit(depth - 1)
	case 16:
		switch uni(g.t, "special", 3) {
		case 0:
			return "error(" + g.expr(depth-1) + ")"
		case 1:
			return "immutable(" + g.expr(depth-1) + ")"
		default:
			if len(g.imports) > 0 {
				return "import(" + strconv.Quote(sample(g.t, "imp", g.imports)) + ")"
			}
			return g.literal()
		}
	default:
		return fmt.Sprintf(sample(g.t, "bcall", builtinCalls), g.expr(depth-1))
	}
}

// primary renders an operand that postfix operators can follow.
func (g *gen) primary(depth int) string {
	if v, ok := g.someVar(); ok && rapid.Bool().Draw(g.t, "primvar") {
		return v
	}
	return "(" + g.expr(depth) + ")"
}

func (g *gen) funcLit(depth int) string {
	np := rapid.IntRange(0, 3).Draw(g.t, "nparams")
	params := make([]string, np)
	for i := range params {
		params[i] = g.fresh()
	}
	sig := strings.Join(params, ", ")
	if np > 0 && uni(g.t, "varargs", 5) == 0 {
		params2 := append([]string(nil), params...)
		params2[np-1] = "..." + params2[np-1]
		sig = strings.Join(params2, ", ")
	}
	// body rendered into a separate builder
	saved := g.sb
	g.sb = strings.Builder{}
	g.sb.WriteString("func(" + sig + ") {\n")
	g.indent++
	g.scopes = append(g.scopes, append([]string(nil), params...))
	g.loops = append(g.loops, 0)
	n := rapid.IntRange(0, 3).Draw(g.t, "nbody")
	for i := 0; i < n && g.budget > 0; i++ {
		g.stmt(depth)
	}
	if rapid.Bool().Draw(g.t, "ret") {
		g.line("return " + g.expr(depth))
	}
	g.loops = g.loops[:len(g.loops)-1]
	g.scopes = g.scopes[:len(g.scopes)-1]
	g.indent--
	g.sb.WriteString(strings.Repeat("\t", g.indent) + "}")
	body := g.sb.String()
	g.sb = saved
	return body
}

// header renders an expression for an if/for header, where a leading "{"
// would be taken for the body.
func (g *gen) header(depth int) string {
	e := g.expr(depth)
	if strings.HasPrefix(e, "{") {
		return "(" + e + ")"
	}
	return e
}

func (g *gen) inFunc() bool { return len(g.loops) > 1 }

func (g *gen) block(depth int) {
	n := rapid.IntRange(0, 3).Draw(g.t, "nblock")
	for i := 0; i < n && g.budget > 0; i++ {
		g.stmt(depth)
	}
}

func (g *gen) stmt(depth int) {
	g.budget--
	d := 2
	if depth > 2 {
		g.line(g.simpleStmt(1))
		return
	}
	switch uni(g.t, "stmt", 16) {
	case 0, 1, 2, 3:
		name := g.fresh()
		rhs := g.expr(d)
		g.line(name + " := " + rhs)
		g.define(name)
	case 4, 5:
		g.line(g.simpleStmt(d))
	case 6:
		// recursive function definition
		name := g.fresh()
		g.define(name)
		g.line(name + " := " + g.funcLit(d))
	case 7:
		head := "if "
		g.scopes = append(g.scopes, nil) // the if statement's own scope
		if uni(g.t, "ifinit", 4) == 0 {
			name := g.fresh()
			head += name + " := " + g.expr(1) + "; "
			g.define(name)
		}
		g.open(head + g.header(d) + " {")
		g.block(depth + 1)
		switch uni(g.t, "else", 4) {
		case 0:
			g.close("} else {")
			g.open("")
			g.block(depth + 1)
			g.close("}")
		case 1:
			g.close("")
			g.open("} else if " + g.header(1) + " {")
			g.block(depth + 1)
			g.close("}")
		default:
			g.close("}")
		}
		g.scopes = g.scopes[:len(g.scopes)-1]
	case 8, 9:
		g.scopes = append(g.scopes, nil) // the for statement's own scope
		var head string
		switch uni(g.t, "for", 5) {
		case 0:
			head = "for {"
		case 1:
			head = "for " + g.header(1) + " {"
		case 2:
			name := g.fresh()
			init := name + " := " + g.expr(1)
			g.define(name)
			head = "for " + init + "; " + name + " < " + g.header(1) + "; " + name + sample(g.t, "post", []string{"++", " += 1", "--", " = " + name + " + 2"}) + " {"
		case 3:
			it := g.header(1)
			v := g.fresh()
			g.define(v)
			head = "for " + v + " in " + it + " {"
		default:
			it := g.header(1)
			k, v := g.fresh(), g.fresh()
			if uni(g.t, "blank", 5) == 0 {
				k = "_"
			} else {
				g.define(k)
			}
			g.define(v)
			head = "for " + k + ", " + v + " in " + it + " {"
		}
		g.loops[len(g.loops)-1]++
		g.open(head)
		g.block(depth + 1)
		if uni(g.t, "brk", 3) == 0 {
			g.line(sample(g.t, "branch", []string{"break", "continue"}))
		}
		g.close("}")
		g.loops[len(g.loops)-1]--
		g.scopes = g.scopes[:len(g.scopes)-1]
	case 10:
		if g.loops[len(g.loops)-1] > 0 {
			g.line("if " + g.header(1) + " { " + sample(g.t, "branch", []string{"break", "continue"}) + " }")
		} else {
			g.line(g.simpleStmt(d))
		}
	case 11:
		if g.inFunc() {
			if rapid.Bool().Draw(g.t, "retval") {
				g.line("return " + g.expr(d))
			} else {
				g.line("return")
			}
		} else {
			g.line(g.simpleStmt(d))
		}
	case 12:
		// (a bare block is not a statement in tengo: "{" starts a map literal)
		g.line("(" + g.expr(d) + ")")
	case 13:
		if len(g.imports) > 0 {
			name := g.fresh()
			g.line(name + " := import(" + strconv.Quote(sample(g.t, "imp", g.imports)) + ")")
			g.define(name)
		} else {
			g.line(g.simpleStmt(d))
		}
	case 14:
		g.line("// " + sample(g.t, "cmt", []string{"comment", "", "é", "/* nested */"}))
	default:
		g.line("/* " + sample(g.t, "cmt2", []string{"block", "multi\nline", ""}) + " */ " + g.simpleStmt(1))
	}
}

// simpleStmt: assignment to an existing variable, inc/dec, or a call.
func (g *gen) simpleStmt(d int) string {
	v, ok := g.someVar()
	if !ok {
		return g.expr(d)
	}
	switch uni(g.t, "simple", 6) {
	case 0, 1:
		return v + " " + sample(g.t, "asg", assignOps) + " " + g.expr(d)
	case 2:
		return v + sample(g.t, "incdec", []string{"++", "--"})
	case 3:
		return v + "[" + g.expr(1) + "] = " + g.expr(d)
	case 4:
		return v + "." + sample(g.t, "sel", []string{"a", "b", "name"}) + sample(g.t, "selmore", []string{"", ".c", "[0]"}) + " = " + g.expr(d)
	default:
		return v + "(" + g.expr(d) + ")"
	}
}
