package c04

import (
	"encoding/json"
	"os"
	"path/filepath"
	"regexp"
	"sort"
	"strings"
	"sync"
	"testing"

	"github.com/d5/tengo/v2"
	"github.com/d5/tengo/v2/parser"
	"github.com/d5/tengo/v2/token"

	"verifharness/ev"
)

// openFindings are the named exclusion switches of this package (BUILDING.md
// rule 3). A switch that is on makes the oracle treat exactly one
// (input predicate, panic signature) pair as a counted discard
// "known:<id>"; everything else is still a violation. See FINDINGS.md.
//
// No finding is open: F5, F7, F8 (and F9 before them) are repaired in /repo
// and every switch is off, so the patterns are compiled and judged like any
// other input (no panic; a failure is a well-formed, positioned error).
//
//	F5  break/continue in a function literal that is lexically inside a loop
//	    body. Repaired by ff10e37: compile error "break/continue not allowed
//	    outside loop". (While open: the compile steps were SKIPPED when the
//	    AST predicate held, the defect also corrupted the emitted code
//	    without panicking.)
//	F7  assignment to a builtin function name. Repaired by 7d7d92d: compile
//	    error "cannot assign to builtin function". (While open: the compile
//	    step was run; the panic was accepted only with predicate + message +
//	    site.)
//	F8  for-in with more than two loop variables. Repaired by 17356fa: parse
//	    error. (Same treatment as F7 while open.)
//	F9  >= GlobalsSize global symbols made Script.Compile panic. Repaired by
//	    a7b7e37; its switch is gone.
//
// The reproducers of all four are regression replays under
// replays/C04/fixed/. The AST predicates stay: they feed the histogram
// classes "pattern-of-repaired:<id>" that show the patterns are exercised.
var openFindings = map[string]bool{"F5": false, "F7": false, "F8": false}

type knownSig struct {
	id    string
	entry string // "compiler" (bare API and Script), "script" (Script only)
	msg   *regexp.Regexp
	site  string // first d5/tengo function on the panicking stack
	pred  func(f *astFacts) bool
	what  string
}

var knownSigs = []knownSig{
	{id: "F7", entry: "compiler",
		msg:  regexp.MustCompile(`^invalid assignment variable scope: BUILTIN$`),
		site: "github.com/d5/tengo/v2.(*Compiler).compileAssign",
		pred: func(f *astFacts) bool { return f.assignToBuiltinName },
		what: "assignment to a builtin function name (`len = 5`) panics in Compiler.compileAssign: invalid assignment variable scope: BUILTIN"},
	{id: "F8", entry: "compiler",
		msg:  regexp.MustCompile(`invalid memory address or nil pointer dereference`),
		site: "github.com/d5/tengo/v2.(*Compiler).compileForInStmt",
		pred: func(f *astFacts) bool { return f.forInNilVar },
		what: "for-in with more than two loop variables (`for a, b, c in x {}`) parses to a ForInStmt with nil Key/Value; Compiler.compileForInStmt dereferences nil"},
}

const f5What = "break/continue inside a function literal inside a loop body (`for { f := func() { break } }`) is attached to the outer function's loop: Compiler panics (index out of range / invalid jump position) or patches the wrong instruction"

// matchKnown decides whether a panic is an occurrence of an open finding:
// the switch is on, the input predicate holds, and message and site match.
func matchKnown(o outcome, f *astFacts, honour bool, entry string) string {
	if !honour || o.pan == nil {
		return ""
	}
	msg, site := panicText(o.pan), panicSite(o.stack)
	for _, k := range knownSigs {
		if !openFindings[k.id] || !k.pred(f) {
			continue
		}
		if k.entry == "script" && entry != "script" {
			continue
		}
		if k.msg.MatchString(msg) && site == k.site {
			return k.id
		}
	}
	return ""
}

var (
	builtinOnce  sync.Once
	builtinNames map[string]bool
	builtinList  []string
)

func loadBuiltins() {
	builtinOnce.Do(func() {
		builtinNames = map[string]bool{}
		for _, b := range tengo.GetAllBuiltinFunctions() {
			builtinNames[b.Name] = true
			builtinList = append(builtinList, b.Name)
		}
		sort.Strings(builtinList)
	})
}

func isBuiltinName(s string) bool {
	loadBuiltins()
	return builtinNames[s]
}

// astFacts are the syntactic input predicates of the open findings,
// evaluated on the ASTs tengo's own parser returns for the main source and
// for every source-module body.
type astFacts struct {
	// F5: a BranchStmt whose nearest enclosing function literal is itself
	// (transitively) inside the body of a for / for-in statement of the same
	// file, with no loop body between the BranchStmt and that literal. (The
	// compiler's loop stack is not reset on entering a function literal, so
	// currentLoop() is the outer function's loop.)
	branchInClosureInLoop bool
	// F7: `x = …`, `x op= …`, `x++`, `x--` (also through selectors/indexes)
	// whose root identifier is spelled like a builtin function.
	assignToBuiltinName bool
	// F8: ForInStmt with nil Key or Value (more than two loop variables).
	forInNilVar bool
}

type walkCtx struct {
	inFunc       bool // inside a function literal
	loopsInFunc  int  // loop bodies entered since the nearest function literal (or file start)
	loopsOutside int  // loop bodies open outside the nearest function literal
}

func (f *astFacts) scan(file *parser.File) {
	if file == nil {
		return
	}
	for _, s := range file.Stmts {
		f.stmt(s, walkCtx{})
	}
}

func lhsRoot(e parser.Expr) string {
	switch x := e.(type) {
	case *parser.SelectorExpr:
		return lhsRoot(x.Expr)
	case *parser.IndexExpr:
		return lhsRoot(x.Expr)
	case *parser.Ident:
		return x.Name
	}
	return ""
}

func (f *astFacts) stmt(s parser.Stmt, c walkCtx) {
	switch x := s.(type) {
	case nil:
	case *parser.AssignStmt:
		if x.Token != token.Define && len(x.LHS) == 1 && len(x.RHS) == 1 && isBuiltinName(lhsRoot(x.LHS[0])) {
			f.assignToBuiltinName = true
		}
		for _, e := range x.LHS {
			f.expr(e, c)
		}
		for _, e := range x.RHS {
			f.expr(e, c)
		}
	case *parser.IncDecStmt:
		if isBuiltinName(lhsRoot(x.Expr)) {
			f.assignToBuiltinName = true
		}
		f.expr(x.Expr, c)
	case *parser.BlockStmt:
		if x == nil {
			return
		}
		for _, st := range x.Stmts {
			f.stmt(st, c)
		}
	case *parser.BranchStmt:
		if c.inFunc && c.loopsInFunc == 0 && c.loopsOutside > 0 {
			f.branchInClosureInLoop = true
		}
	case *parser.ExportStmt:
		f.expr(x.Result, c)
	case *parser.ExprStmt:
		f.expr(x.Expr, c)
	case *parser.ForInStmt:
		if x.Key == nil || x.Value == nil {
			f.forInNilVar = true
		}
		f.expr(x.Iterable, c)
		body := c
		body.loopsInFunc++
		f.stmt(x.Body, body)
	case *parser.ForStmt:
		f.stmt(x.Init, c)
		f.expr(x.Cond, c)
		f.stmt(x.Post, c)
		body := c
		body.loopsInFunc++
		f.stmt(x.Body, body)
	case *parser.IfStmt:
		f.stmt(x.Init, c)
		f.expr(x.Cond, c)
		f.stmt(x.Body, c)
		f.stmt(x.Else, c)
	case *parser.ReturnStmt:
		f.expr(x.Result, c)
	}
}

func (f *astFacts) expr(e parser.Expr, c walkCtx) {
	switch x := e.(type) {
	case nil:
	case *parser.ArrayLit:
		for _, el := range x.Elements {
			f.expr(el, c)
		}
	case *parser.BinaryExpr:
		f.expr(x.LHS, c)
		f.expr(x.RHS, c)
	case *parser.CallExpr:
		f.expr(x.Func, c)
		for _, a := range x.Args {
			f.expr(a, c)
		}
	case *parser.CondExpr:
		f.expr(x.Cond, c)
		f.expr(x.True, c)
		f.expr(x.False, c)
	case *parser.ErrorExpr:
		f.expr(x.Expr, c)
	case *parser.FuncLit:
		inner := walkCtx{inFunc: true, loopsOutside: c.loopsOutside + c.loopsInFunc}
		if x.Body != nil {
			f.stmt(x.Body, inner)
		}
	case *parser.ImmutableExpr:
		f.expr(x.Expr, c)
	case *parser.IndexExpr:
		f.expr(x.Expr, c)
		f.expr(x.Index, c)
	case *parser.MapLit:
		for _, el := range x.Elements {
			if el != nil {
				f.expr(el.Value, c)
			}
		}
	case *parser.ParenExpr:
		f.expr(x.Expr, c)
	case *parser.SelectorExpr:
		f.expr(x.Expr, c)
		f.expr(x.Sel, c)
	case *parser.SliceExpr:
		f.expr(x.Expr, c)
		f.expr(x.Low, c)
		f.expr(x.High, c)
	case *parser.UnaryExpr:
		f.expr(x.Expr, c)
	}
}

// ---------- TestKnownFindings ----------

type openReplay struct {
	Finding string `json:"finding"`
}

// TestKnownFindings re-runs the committed reproducer of every open finding
// through the oracle with the exclusion switches ignored. While it still
// fails it is printed as KNOWN-FINDING; once it no longer does, only a note
// is left (the switch can then be turned off and the replay moved to fixed/).
// It also checks that the oracle WITH the switches classifies the reproducer
// as exactly that finding (so the exclusion is neither wider nor narrower
// than the reproducer).
func TestKnownFindings(t *testing.T) {
	files, _ := filepath.Glob(filepath.Join(verifRoot(), "replays", "C04", "open", "*.json"))
	sort.Strings(files)
	if len(files) == 0 {
		ev.Note("no open findings: nothing under replays/C04/open")
	}
	for id, on := range openFindings {
		if !on {
			continue
		}
		found := false
		for _, path := range files {
			if strings.HasPrefix(filepath.Base(path), id+"-") {
				found = true
			}
		}
		if !found {
			t.Errorf("open finding %s has no replay under replays/C04/open", id)
		}
	}
	for _, path := range files {
		raw, err := os.ReadFile(path)
		if err != nil {
			t.Fatal(err)
		}
		var or openReplay
		if err := json.Unmarshal(raw, &or); err != nil || or.Finding == "" {
			t.Fatalf("%s: no \"finding\" id (%v)", path, err)
		}
		what := f5What
		for _, k := range knownSigs {
			if k.id == or.Finding {
				what = k.what
			}
		}
		raw_ := replayFile(t, path, false)
		if raw_.fail != "" {
			ev.Known(or.Finding, what)
			t.Logf("%s still fails: %s", filepath.Base(path), firstLine(raw_.fail))
		} else {
			ev.Note("finding no longer reproduces: " + or.Finding + " (" + filepath.Base(path) + ")")
			t.Logf("%s no longer fails", filepath.Base(path))
			continue
		}
		if openFindings[or.Finding] {
			with := replayFile(t, path, true)
			if with.fail != "" || with.known != or.Finding {
				ev.Fail(t, "TestKnownFindings", json.RawMessage(payloadOf(raw)),
					"%s: with the exclusion switches on the oracle says fail=%q known=%q, want known=%q",
					filepath.Base(path), firstLine(with.fail), with.known, or.Finding)
			}
		}
	}
}

func payloadOf(raw []byte) []byte {
	var r struct {
		Payload json.RawMessage `json:"payload"`
	}
	_ = json.Unmarshal(raw, &r)
	return r.Payload
}

func firstLine(s string) string {
	if i := strings.IndexByte(s, '\n'); i >= 0 {
		return s[:i]
	}
	return s
}
