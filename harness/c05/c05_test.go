// C05 — no script can take the host down through the context-aware run path.
package c05

import (
	"context"
	"errors"
	"fmt"
	"math"
	"os"
	"os/exec"
	"path/filepath"
	"regexp"
	"sort"
	"strconv"
	"strings"
	"testing"
	"time"

	"github.com/d5/tengo/v2"
	"github.com/d5/tengo/v2/stdlib"
	"pgregory.net/rapid"

	"verifharness/bridge"
	"verifharness/ev"
	"verifharness/gen"
	"verifharness/guard"
	"verifharness/lang"
	"verifharness/tv"
)

func TestMain(m *testing.M) {
	// engine limits are process-wide: bound strings/bytes so that doubling
	// loops cannot exhaust memory (unbounded single allocations are outside
	// the claim; array growth is bounded by the probe guard)
	tengo.MaxStringLen = 1 << 16
	tengo.MaxBytesLen = 1 << 16
	ev.Main(m, "C05")
}

type payload struct {
	Kind      string               `json:"kind"`
	Source    string               `json:"source"`
	Modules   map[string]string    `json:"modules,omitempty"`
	Inputs    map[string]*lang.Val `json:"inputs,omitempty"`
	MaxAllocs int64                `json:"max_allocs"` // 0 = unlimited
	// AllowCycles: the program only applies operations outside open finding
	// F10 to the self-containing values it builds (cyclic_test.go); it runs
	// without the cycle guard and its values are never traversed host-side
	AllowCycles bool `json:"allow_cycles,omitempty"`
	// PreCancel: before the real run, RunContext is called once with a context
	// that is already cancelled (1) or already past its deadline (2)
	PreCancel int `json:"pre_cancel,omitempty"`
	// ViaScript: the real run goes through Script.RunContext (compile + run in
	// one call) and everything afterwards uses the object that call returned
	ViaScript bool `json:"via_script,omitempty"`
	// Stdlib: standard-library modules the script may import
	Stdlib []string `json:"stdlib,omitempty"`
}

const instrBudget = 3000000

type outcome struct {
	discard string
	fail    string
	classes []string
	steps   int64
}

func clip(s string) string {
	if len(s) > 1500 {
		return s[:900] + "\n… (" + fmt.Sprint(len(s)) + " bytes) …\n" + s[len(s)-400:]
	}
	return s
}

// guarded runs f with the probe guard installed; returns the guard state.
func guarded(f func(), allowCycles bool) *guard.State {
	st := &guard.State{Budget: instrBudget, MaxElems: 1 << 16}
	st.NoCycleStop = allowCycles
	if os.Getenv("VERIF_C05_UNGUARDED") != "" {
		// sacrificial child of TestKnownFindings: let the excluded
		// operation happen
		st.NoCycleStop = true
	}
	remove := guard.Install(st)
	defer remove()
	f()
	return st
}

// runCase is the whole oracle; it is executed on its own goroutine under a
// watchdog by check().
func runCase(p payload) (o outcome) {
	s := tengo.NewScript([]byte(p.Source))
	mm := tengo.NewModuleMap()
	for k, v := range p.Modules {
		mm.AddSourceModule(k, []byte(v))
	}
	for _, name := range p.Stdlib {
		if attrs, ok := stdlib.BuiltinModules[name]; ok {
			mm.AddBuiltinModule(name, attrs)
		} else if src, ok := stdlib.SourceModules[name]; ok {
			mm.AddSourceModule(name, []byte(src))
		}
	}
	s.SetImports(mm)
	memo := map[int]tengo.Object{}
	names := make([]string, 0, len(p.Inputs))
	for k := range p.Inputs {
		names = append(names, k)
	}
	sort.Strings(names)
	for _, k := range names {
		if err := s.Add(k, bridge.ToObject(p.Inputs[k], memo)); err != nil {
			o.discard = "input rejected"
			return
		}
	}
	if p.Kind == "host-function-panics" {
		for _, name := range hostPanicNames {
			if err := s.Add(name, &tengo.UserFunction{Name: name, Value: hostPanics[name]}); err != nil {
				o.discard = "input rejected"
				return
			}
		}
	}
	if p.MaxAllocs > 0 {
		s.SetMaxAllocs(p.MaxAllocs)
	}
	var c *tengo.Compiled
	var cerr error
	func() {
		defer func() {
			if r := recover(); r != nil {
				cerr = fmt.Errorf("compiler panic: %v", r)
				o.discard = "compiler panic (C04)"
			}
		}()
		c, cerr = s.Compile()
	}()
	if cerr != nil {
		if o.discard == "" {
			o.discard = "does not compile"
		}
		return
	}
	if p.PreCancel > 0 {
		// a run that is over before it starts must leave the object usable too
		ctx, cancel := context.WithCancel(context.Background())
		if p.PreCancel == 2 {
			cancel()
			ctx, cancel = context.WithDeadline(context.Background(), time.Now().Add(-time.Second))
		}
		cancel()
		var pan0 interface{}
		// under the guard as well: RunContext starts the VM before it looks at
		// the context, and the first instructions may be an excluded operation
		// (range(1 << 40, 0) ran unguarded here in the thorough tier and was
		// reported as a hang). The guard's instruction budget would also hide
		// a run that ignores its cancelled context: a cancelled run that uses
		// up all 3,000,000 instructions, three times in a row, did ignore it.
		ignored := 0
		for try := 0; try < 3; try++ {
			st0 := guarded(func() {
				defer func() { pan0 = recover() }()
				_ = c.RunContext(ctx)
			}, p.AllowCycles)
			if st0.Reason() != "budget" {
				break
			}
			ignored++
		}
		if ignored == 3 {
			o.fail = fmt.Sprintf("RunContext with an already-cancelled context kept executing until the harness stopped it after %d instructions (three times out of three)", instrBudget)
			return
		}
		if pan0 != nil {
			o.fail = fmt.Sprintf("RunContext with an already-cancelled context panicked: %v", pan0)
			return
		}
		free := make(chan struct{})
		go func() { c.IsDefined("x"); _ = c.Get("x"); close(free) }()
		select {
		case <-free:
		case <-time.After(60 * time.Second):
			o.fail = "after RunContext with an already-cancelled context, IsDefined/Get on the same object do not return (60 s): the object is unusable"
			return
		}
		o.classes = append(o.classes, "pre-cancelled-run-first")
	}
	// 1+2: the call returns nil or an error, no panic reaches the caller
	var runErr error
	var pan interface{}
	viaScriptNil := false
	st := guarded(func() {
		defer func() {
			if r := recover(); r != nil {
				pan = r
			}
		}()
		ctx, cancel := context.WithTimeout(context.Background(), 60*time.Second)
		defer cancel()
		if p.ViaScript {
			c2, err := s.RunContext(ctx)
			runErr = err
			if c2 == nil {
				viaScriptNil = true
				return
			}
			c = c2
			return
		}
		runErr = c.RunContext(ctx)
	}, p.AllowCycles)
	if viaScriptNil && pan == nil {
		o.fail = fmt.Sprintf("the script compiles, but Script.RunContext returned no compiled object (error: %v): nothing is left for Get/Set/Run", runErr)
		return
	}
	o.steps = st.Steps()
	if pan != nil {
		o.fail = fmt.Sprintf("panic propagated out of RunContext: %v", pan)
		return
	}
	switch st.Reason() {
	case "cyclic":
		o.discard = "known:F10-cyclic-container (excluded by the property)"
		return
	case "unbounded-allocation":
		o.discard = "excluded:unbounded-allocation"
		return
	}
	if runErr != nil && errors.Is(runErr, context.DeadlineExceeded) {
		o.fail = "RunContext ran into the 60 s context although the instruction budget guard was active"
		return
	}
	cls := "run:ok"
	switch {
	case st.Reason() == "budget":
		cls = "run:stopped-by-budget"
	case runErr != nil:
		cls = "run:error"
		msg := runErr.Error()
		switch {
		case errors.Is(runErr, tengo.ErrStackOverflow):
			cls += ":stack-overflow"
		case errors.Is(runErr, tengo.ErrObjectAllocLimit):
			cls += ":alloc-limit"
		case errors.Is(runErr, tengo.ErrStringLimit), errors.Is(runErr, tengo.ErrBytesLimit):
			cls += ":size-limit"
		case strings.Contains(msg, "runtime error:"):
			cls += ":recovered-go-panic"
		}
	}
	o.classes = append(o.classes, cls)
	// 3: the compiled object remains usable
	all := c.GetAll()
	huge := false
	for _, v := range all {
		_ = c.Get(v.Name())
		_ = c.IsDefined(v.Name())
		if p.AllowCycles {
			continue // String()/Value() of a self-containing value is F10
		}
		if guard.TreeSize(v.Object()) > 1<<18 {
			// small as a graph, huge as a tree (parts shared many times):
			// String / Value / Clone expand it - an unbounded allocation
			huge = true
			continue
		}
		// 4: values handed back can be traversed; a Go nil inside is a crash waiting for the host
		if tv.HasNil(v.Object()) {
			o.fail = fmt.Sprintf("variable %q holds a Go-nil Object after the run: %s", v.Name(), tv.Describe(v.Object()))
			return
		}
		func() {
			defer func() {
				if r := recover(); r != nil {
					o.fail = fmt.Sprintf("reading variable %q panicked: %v", v.Name(), r)
				}
			}()
			_ = v.Value()
			_ = v.ValueType()
			if depth(v.Object(), 0) < 2000 { // String() of a deeply nested value is a native recursion; keep it modest
				_ = v.String()
			}
		}()
		if o.fail != "" {
			return
		}
	}
	_ = c.Get("no such variable")
	if c.IsDefined("no such variable") {
		o.fail = "IsDefined(unknown) is true"
		return
	}
	for _, k := range names {
		if err := c.Set(k, 1); err != nil {
			o.fail = fmt.Sprintf("Set(%q) after the run failed: %v", k, err)
			return
		}
	}
	if err := c.Set("no such variable", 1); err == nil {
		o.fail = "Set(unknown) succeeded"
		return
	}
	var clone *tengo.Compiled
	func() {
		defer func() {
			if r := recover(); r != nil {
				o.fail = fmt.Sprintf("Clone after the run panicked: %v", r)
			}
		}()
		if !p.AllowCycles && !huge && !hasDeep(all) { // Clone copies every global: F10 on a self-containing value
			clone = c.Clone()
		}
	}()
	if o.fail != "" {
		return
	}
	// second run on the same object (and one on the clone)
	for i, obj := range []*tengo.Compiled{c, clone} {
		if obj == nil {
			continue
		}
		var err2 error
		var pan2 interface{}
		st2 := guarded(func() {
			defer func() {
				if r := recover(); r != nil {
					pan2 = r
				}
			}()
			ctx, cancel := context.WithTimeout(context.Background(), 60*time.Second)
			defer cancel()
			err2 = obj.RunContext(ctx)
		}, p.AllowCycles)
		if pan2 != nil {
			o.fail = fmt.Sprintf("panic propagated out of the second RunContext (object %d): %v", i, pan2)
			return
		}
		if st2.Reason() == "cyclic" || st2.Reason() == "unbounded-allocation" {
			break
		}
		if err2 != nil && errors.Is(err2, context.DeadlineExceeded) {
			o.fail = "second RunContext hit the 60 s context"
			return
		}
	}
	if huge {
		o.classes = append(o.classes, "huge-shared-structure(not traversed)")
	}
	o.classes = append(o.classes, "post-run-usability-checked")
	return
}

func depth(o tengo.Object, d int) int {
	if d > 3000 {
		return d
	}
	m := d
	each := func(e tengo.Object) {
		if x := depth(e, d+1); x > m {
			m = x
		}
	}
	switch x := o.(type) {
	case *tengo.Array:
		for _, e := range x.Value {
			each(e)
		}
	case *tengo.ImmutableArray:
		for _, e := range x.Value {
			each(e)
		}
	case *tengo.Map:
		for _, e := range x.Value {
			each(e)
		}
	case *tengo.ImmutableMap:
		for _, e := range x.Value {
			each(e)
		}
	case *tengo.Error:
		each(x.Value)
	}
	return m
}

func hasDeep(vars []*tengo.Variable) bool {
	for _, v := range vars {
		if depth(v.Object(), 0) >= 2000 {
			return true
		}
	}
	return false
}

func check(t ev.TB, test string, p payload, classes []string) {
	ev.InFlight(test, p)
	done := make(chan outcome, 1)
	go func() {
		defer func() {
			if r := recover(); r != nil {
				done <- outcome{fail: fmt.Sprintf("harness-visible panic: %v", r)}
			}
		}()
		done <- runCase(p)
	}()
	var o outcome
	select {
	case o = <-done:
	case <-time.After(180 * time.Second):
		// a hang cannot be shrunk or continued past (the goroutine and the
		// object's lock are lost): record the case and end this shard now
		ev.FailNow(test, p, fmt.Sprintf("the call sequence (RunContext / Get / GetAll / Set / Clone / RunContext) did not return within 180 s (contexts of 60 s had expired)\n--- source ---\n%s", clip(p.Source)))
		return
	}
	ev.InFlightDone()
	if o.discard != "" {
		ev.Discard(o.discard)
		return
	}
	if o.fail != "" {
		ev.Fail(t, test, p, "%s\n--- source ---\n%s", o.fail, clip(p.Source))
		return
	}
	nt := false
	for _, c := range o.classes {
		if strings.HasPrefix(c, "run:error") || c == "run:stopped-by-budget" {
			nt = true
		}
	}
	if strings.Contains(p.Kind, "mutate-while-iterating") {
		nt = true
	}
	ev.ClassN("instructions-executed", o.steps)
	ev.Case(p.Source+fmt.Sprint(p.MaxAllocs)+inputsKey(p.Inputs), nt, append(append(classes, "kind:"+p.Kind), o.classes...)...)
	if nt && ev.WantSample() && len(p.Source) < 500 {
		ev.Sample(map[string]interface{}{"kind": p.Kind, "source": p.Source, "outcome": o.classes})
	}
}

func inputsKey(in map[string]*lang.Val) string {
	if len(in) == 0 {
		return ""
	}
	keys := make([]string, 0, len(in))
	for k := range in {
		keys = append(keys, k)
	}
	sort.Strings(keys)
	var sb strings.Builder
	for _, k := range keys {
		v := in[k]
		fmt.Fprintf(&sb, "%s:%s:%d:%x:%x;", k, v.T, v.I, v.Bits, v.S)
	}
	return sb.String()
}

// ---------- (a) generated programs, type-undirected ----------

func TestGeneratedHostile(t *testing.T) {
	rapid.Check(t, func(t *rapid.T) {
		inputs := gen.Inputs(t, true, true, true)
		o := gen.Opts{MaxStmts: 12, MaxDepth: 4, Risky: 80, AlwaysErrMode: rapid.IntRange(0, 9).Draw(t, "errMode") < 7}
		if rapid.IntRange(0, 4).Draw(t, "withModules") == 0 {
			o.Modules = []string{"m1"}
		}
		p, _ := gen.Program(t, o, inputs)
		src := lang.Render(p.Main)
		mods := map[string]string{}
		for k, b := range p.Modules {
			mods[k] = lang.Render(b)
		}
		pl := payload{Kind: "generated", Source: src, Modules: mods, Inputs: inputs, ViaScript: rapid.IntRange(0, 5).Draw(t, "viaScript") == 0}
		if rapid.IntRange(0, 7).Draw(t, "preCancel") == 0 {
			pl.PreCancel = rapid.IntRange(1, 2).Draw(t, "preCancelKind")
		}
		if rapid.IntRange(0, 5).Draw(t, "limitAllocs") == 0 {
			pl.MaxAllocs = int64(rapid.IntRange(1, 200).Draw(t, "maxAllocs"))
		}
		check(t, "TestGeneratedHostile", pl, nil)
	})
}

// ---------- (b) hostile templates ----------

var values = []string{`0`, `1`, `-1`, `7`, `9223372036854775807`, `(-9223372036854775807 - 1)`, `0.0`, `2.5`, `(0.0/0.0)`, `(1.0/0.0)`, `'a'`,
	`""`, `"abc"`, `"héllo"`, `true`, `false`, `undefined`, `[]`, `[1, 2, 3]`, `{}`, `{a: 1, b: [2]}`, `bytes("xyz")`, `bytes(0)`,
	`immutable([1, 2])`, `immutable({a: 1})`, `error("e")`, `error([1])`, `func() { return 1 }`, `func(a, ...b) { return b }`, `len`,
	`time(0)`, `[[1], [2, [3]]]`, `"\xff\xfe"`, `1 << 62`}

func val(t *rapid.T, label string) string { return rapid.SampledFrom(values).Draw(t, label) }

func smallInt(t *rapid.T, label string) string {
	return rapid.SampledFrom([]string{"0", "1", "2", "3", "-1", "-2", "5", "100", "2047", "2048", "9223372036854775807",
		"(-9223372036854775807 - 1)", "63", "64", "65", "1 << 40"}).Draw(t, label)
}

// hostPanics: functions of the embedding program that panic - with every kind
// of panic value - when a script calls them. RunContext runs the VM on its own
// goroutine and has to turn all of them into an error it returns.
type privateSentinel struct{ code int }

var hostPanics = map[string]tengo.CallableFunc{
	"hp_string": func(args ...tengo.Object) (tengo.Object, error) { panic("host function panics with a string") },
	"hp_error": func(args ...tengo.Object) (tengo.Object, error) {
		panic(errors.New("host function panics with an error"))
	},
	"hp_int":    func(args ...tengo.Object) (tengo.Object, error) { panic(42) },
	"hp_struct": func(args ...tengo.Object) (tengo.Object, error) { panic(privateSentinel{7}) },
	"hp_ptr":    func(args ...tengo.Object) (tengo.Object, error) { panic(&privateSentinel{8}) },
	"hp_nilmap": func(args ...tengo.Object) (tengo.Object, error) {
		var m map[string]int
		m["x"] = 1 // runtime.Error
		return nil, nil
	},
	"hp_index":  func(args ...tengo.Object) (tengo.Object, error) { return args[len(args)+3], nil },
	"hp_object": func(args ...tengo.Object) (tengo.Object, error) { panic(&tengo.Int{Value: 1}) },
}

var hostPanicNames = []string{"hp_error", "hp_index", "hp_int", "hp_nilmap", "hp_object", "hp_ptr", "hp_string", "hp_struct"}

func hostPanicSource(t *rapid.T) string {
	f := rapid.SampledFrom(hostPanicNames).Draw(t, "hostPanic")
	call := f + "(1, \"a\")"
	switch rapid.IntRange(0, 5).Draw(t, "hostPanicCtx") {
	case 0:
		return "r := " + call + "\n"
	case 1:
		return "f := func() { return " + call + " }\nr := f()\n"
	case 2:
		return "r := 0\nfor i := 0; i < 3; i++ { r = " + call + " }\n"
	case 3:
		return "g := func(cb) { return cb(2) }\nr := g(" + f + ")\n"
	case 4:
		return "r := [1, 2, " + call + "]\n"
	default:
		return "r := is_error(" + call + ") || true\n"
	}
}

func hostileSource(t *rapid.T) (kind, src string) {
	k := rapid.IntRange(0, 22).Draw(t, "tpl")
	if k == 22 {
		return "host-function-panics", hostPanicSource(t)
	}
	switch k {
	case 0:
		// runaway recursion with l locals and m pending operands per frame
		l := rapid.IntRange(0, 40).Draw(t, "locals")
		m := rapid.IntRange(0, 6).Draw(t, "pending")
		var sb strings.Builder
		sb.WriteString("f := func(n) {\n")
		for i := 0; i < l; i++ {
			fmt.Fprintf(&sb, "\tl%d := n + %d\n", i, i)
		}
		sb.WriteString("\treturn ")
		// pending operands either as left operands of + (the body then starts
		// with a three-byte constant load) or as leading elements of array
		// literals (the body starts with a one-byte true/false/undefined
		// load when there are no locals): where exactly the stack runs out
		// differs - at a multi-byte instruction, at a one-byte instruction
		// at offset 0 of the callee, at the call
		form := rapid.IntRange(0, 3).Draw(t, "pendingForm")
		closers := ""
		for i := 0; i < m; i++ {
			switch form {
			case 0:
				fmt.Fprintf(&sb, "%d + (", i)
				closers = ")" + closers
			default:
				sb.WriteString([]string{"", "[true, ", "[undefined, ", "[false, "}[form])
				closers = "]" + closers
			}
		}
		sb.WriteString("f(n + 1)")
		sb.WriteString(closers)
		if m == 0 && rapid.Bool().Draw(t, "nontail") {
			sb.WriteString(" + 1")
		}
		sb.WriteString("\n}\nr := f(0)\n")
		return "runaway-recursion", sb.String()
	case 1:
		return "mutual-recursion", "b := undefined\na := func(n) { return [b(n + 1)] }\nb = func(n) { return [a(n + 1)] }\nr := a(0)\n"
	case 2:
		// mutation of the container being iterated
		iter := rapid.SampledFrom([]string{"[1, 2, 3, 4]", "{a: 1, b: 2, c: 3}", "range(0, 6)", "[[1], [2], [3]]"}).Draw(t, "iter")
		mut := rapid.SampledFrom([]string{
			"splice(x, 0, 1)", "splice(x, 0)", "x = append(x, 9)", "x[0] = 100", "x = []", "splice(x, 1, 0, 7, 8, 9)",
			"delete(x, \"b\")", "delete(x, k)", "x.z = 1", "x[k] = undefined", "x = {}", "delete(x, \"a\"); delete(x, \"c\")",
			"x = undefined", "splice(x, len(x))"}).Draw(t, "mut")
		use := rapid.SampledFrom([]string{"acc = acc + [v]", "acc = acc + [string(v)]", "acc = acc + [k]", "acc = acc + [is_undefined(v)]", "v2 := v; acc = acc + [v2]"}).Draw(t, "use")
		return "mutate-while-iterating", fmt.Sprintf("x := %s\nacc := []\nfor k, v in x {\n\t%s\n\t%s\n}\nr := [x, acc]\n", iter, mut, use)
	case 3:
		return "call-non-callable", fmt.Sprintf("x := %s\nr := x(%s)\n", val(t, "nc"), val(t, "arg"))
	case 4:
		n := rapid.SampledFrom([]int{0, 1, 5, 250, 1000, 1990, 2040, 2047, 2048, 3000, 5000}).Draw(t, "spreadN")
		f := rapid.SampledFrom([]string{"func(a) { return a }", "func(...a) { return len(a) }", "func(a, b, ...c) { return c }", "len", "append", "format"}).Draw(t, "spreadF")
		return "spread-long-array", fmt.Sprintf("f := %s\nr := f(range(0, %d)...)\n", f, n)
	case 5:
		return "index-any", fmt.Sprintf("x := %s\ni := %s\nr := x[i]\n", val(t, "ix"), val(t, "ii"))
	case 6:
		return "slice-any", fmt.Sprintf("x := %s\nlo := %s\nhi := %s\nr := x[lo:hi]\n", val(t, "sx"), rapid.OneOf(rapid.Just("undefined"), rapid.Custom(func(t *rapid.T) string { return smallInt(t, "lo") }), rapid.Custom(func(t *rapid.T) string { return val(t, "lov") })).Draw(t, "lo"), smallInt(t, "hi"))
	case 7:
		return "index-assign-any", fmt.Sprintf("x := %s\nx[%s] = %s\nr := x\n", val(t, "ax"), val(t, "ai"), rapid.SampledFrom([]string{"1", "\"s\"", "[2]", "undefined"}).Draw(t, "av"))
	case 8:
		return "selector-chain", fmt.Sprintf("x := %s\nx.a.b.c = 1\nr := x\n", val(t, "cx"))
	case 9:
		f := rapid.SampledFrom([]string{"bytes(%s)", "range(%s, %s)", "range(%s, %s, %s)", "splice([1,2,3], %s, %s)", "splice([1,2,3], %s, %s, 7, 8)",
			"char(%s)", "time(%s)", "string(%s)", "format(\"%%d %%v\", %s, %s)", "format(\"%%*d\", %s, %s)", "format(\"%%.*f\", %s, 2.5)", "\"abc\"[%s:%s]", "[1,2,3][%s:%s]"}).Draw(t, "bf")
		n := strings.Count(f, "%s")
		args := make([]interface{}, n)
		for i := range args {
			args[i] = smallInt(t, "ba")
		}
		return "builtin-boundary-ints", "r := " + fmt.Sprintf(f, args...) + "\n"
	case 10:
		op := rapid.SampledFrom([]string{"<<", ">>", "/", "%", "*", "+", "-", "&^"}).Draw(t, "op")
		return "int-boundary-ops", fmt.Sprintf("a := %s\nb := %s\nr := a %s b\n", smallInt(t, "oa"), smallInt(t, "ob"), op)
	case 11:
		return "nan-keys", "m := {}\nm[0.0/0.0] = 1\nm[1.0/0.0] = 2\nm[[1, 2]] = 3\nm[{}] = 4\nm[error(1)] = 5\nr := m\ns := m[0.0/0.0]\n"
	case 12:
		d := rapid.SampledFrom([]int{10, 100, 1000, 1800, 5000}).Draw(t, "depth")
		ops := rapid.SampledFrom([]string{"r1 := string(a)", "r1 := copy(a)", "r1 := a == b", "r1 := len(string(a))", "r1 := freeze(a)", "r1 := format(\"%v\", a)", "r1 := [a] + [b]", "r1 := type_name(a)", "r1 := error(a)"}).Draw(t, "deepOp")
		kind := rapid.SampledFrom([]string{"a = [a]", "a = {k: a}", "a = error(a)", "a = immutable([a])"}).Draw(t, "deepKind")
		return "deep-nesting", fmt.Sprintf("a := 1\nfor i := 0; i < %d; i++ {\n\t%s\n}\nb := a\n%s\nr := 1\n", d, kind, ops)
	case 13:
		n := rapid.SampledFrom([]int{100, 2000, 2040, 2047, 2048, 2049, 3000, 60000}).Draw(t, "elems")
		return "operand-stack-literal", "r := [" + strings.TrimSuffix(strings.Repeat("0,", n), ",") + "]\n"
	case 14:
		return "string-growth", "s := \"ab\"\nfor i := 0; i < 40; i++ { s += s }\nr := len(s)\n"
	case 15:
		return "bytes-growth", "b := bytes(\"ab\")\nfor i := 0; i < 40; i++ { b += b }\nr := len(b)\n"
	case 16:
		return "array-growth", "a := [1, 2]\nfor i := 0; i < 40; i++ { a += a }\nr := len(a)\n"
	case 17:
		return "error-values", fmt.Sprintf("e := error(%s)\nr1 := e.value\nr2 := is_error(e)\nr3 := e.nosuch\n", val(t, "ev"))
	case 18:
		return "closure-storm", "fs := []\nfor i := 0; i < 3000; i++ { x := i; fs = append(fs, func() { return x }) }\nr := 0\nfor f in fs { r += f() }\n"
	case 19:
		return "iterate-any", fmt.Sprintf("x := %s\nr := []\nfor k, v in x { r = append(r, k, v) }\n", val(t, "itx"))
	case 20:
		return "unary-any", fmt.Sprintf("x := %s\nr := %sx\n", val(t, "ux"), rapid.SampledFrom([]string{"-", "!", "^", "+"}).Draw(t, "uop"))
	default:
		op := rapid.SampledFrom([]string{"+", "-", "*", "/", "%", "<", "<=", "==", "!=", "&", "|", "^", "<<", ">>", "&^", "&&", "||", ">", ">="}).Draw(t, "bop")
		return "binary-any", fmt.Sprintf("a := %s\nb := %s\nr := a %s b\n", val(t, "ba"), val(t, "bb"), op)
	}
}

func TestHostileTemplates(t *testing.T) {
	rapid.Check(t, func(t *rapid.T) {
		kind, src := hostileSource(t)
		pl := payload{Kind: kind, Source: src, ViaScript: rapid.IntRange(0, 5).Draw(t, "viaScript") == 0}
		if rapid.IntRange(0, 7).Draw(t, "preCancel") == 0 {
			pl.PreCancel = rapid.IntRange(1, 2).Draw(t, "preCancelKind")
		}
		if rapid.IntRange(0, 7).Draw(t, "limitAllocs") == 0 {
			pl.MaxAllocs = int64(rapid.IntRange(1, 50).Draw(t, "maxAllocs"))
		}
		check(t, "TestHostileTemplates", pl, nil)
	})
}

// ---------- (c) exhaustive builtin x argument enumeration ----------

var repr = []*lang.Val{
	{T: "int", I: 0}, {T: "int", I: -1}, {T: "int", I: 7}, {T: "int", I: math.MaxInt64},
	{T: "float", Bits: math.Float64bits(2.5)}, {T: "float", Bits: math.Float64bits(math.NaN())},
	{T: "string", S: []byte("")}, {T: "string", S: []byte("a%dé")},
	{T: "char", I: 'x'}, {T: "bool", B: true}, {T: "bytes", S: []byte("ab")}, {T: "undefined"},
	{T: "array", Share: 1, Kids: []*lang.Val{{T: "int", I: 1}, {T: "string", S: []byte("s")}}},
	{T: "imm-array", Share: 2, Kids: []*lang.Val{{T: "int", I: 1}}},
	{T: "map", Share: 3, Keys: []string{"a"}, Kids: []*lang.Val{{T: "int", I: 1}}},
	{T: "imm-map", Share: 4, Keys: []string{"a"}, Kids: []*lang.Val{{T: "int", I: 1}}},
	{T: "error", Share: 5, Kids: []*lang.Val{{T: "string", S: []byte("e")}}},
	{T: "time", Sec: 1500000000}, {T: "hostfn", Name: "hf_first"}, {T: "builtin", Name: "len"},
}

func TestBuiltinEnumeration(t *testing.T) {
	maxArity := 2
	if ev.Thorough() {
		maxArity = 3
	}
	names := lang.BuiltinNames
	calls := 0
	for _, b := range names {
		for arity := 0; arity <= maxArity; arity++ {
			idx := make([]int, arity)
			for {
				inputs := map[string]*lang.Val{}
				args := make([]string, arity)
				for i, j := range idx {
					n := "a" + strconv.Itoa(i)
					inputs[n] = repr[j]
					args[i] = n
				}
				src := fmt.Sprintf("out := %s(%s)\n", b, strings.Join(args, ", "))
				check(t, "TestBuiltinEnumeration", payload{Kind: "builtin-enumeration", Source: src, Inputs: inputs}, []string{"enum:" + b})
				calls++
				// next tuple
				k := arity - 1
				for k >= 0 {
					idx[k]++
					if idx[k] < len(repr) {
						break
					}
					idx[k] = 0
					k--
				}
				if k < 0 {
					break
				}
			}
		}
	}
	ev.ClassN("enumerated-builtin-calls", int64(calls))
}

// ---------- (c1) runaway recursion grid ----------
//
// Where the operand stack runs out depends on slot arithmetic (locals, pending
// operands, how the argument is computed): every small combination, so that
// the overflow is met at a multi-byte instruction, at the call, and at a
// one-byte instruction at offset 0 of the callee.
func TestRecursionGrid(t *testing.T) {
	for l := 0; l <= 3; l++ {
		for m := 0; m <= 4; m++ {
			for form := 0; form <= 3; form++ {
				for _, arg := range []string{"n", "n + 1"} {
					var sb strings.Builder
					sb.WriteString("f := func(n) {\n")
					for i := 0; i < l; i++ {
						fmt.Fprintf(&sb, "\tl%d := n\n", i)
					}
					sb.WriteString("\treturn ")
					closers := ""
					for i := 0; i < m; i++ {
						if form == 0 {
							fmt.Fprintf(&sb, "%d + (", i)
							closers = ")" + closers
						} else {
							sb.WriteString([]string{"", "[true, ", "[undefined, ", "[false, "}[form])
							closers = "]" + closers
						}
					}
					sb.WriteString("f(" + arg + ")" + closers)
					if m == 0 {
						sb.WriteString(" + 1")
					}
					sb.WriteString("\n}\nr := f(0)\n")
					check(t, "TestRecursionGrid", payload{Kind: "runaway-recursion-grid", Source: sb.String()}, []string{"recursion-grid"})
				}
			}
		}
	}
}

// ---------- (c2) exhaustive stdlib function x argument enumeration ----------
//
// "Misusing builtins" does not stop at the core builtins for an embedder who
// hands the standard library to scripts: every function of the side-effect
// free modules is called through a script with every tuple (arity 0..2) of a
// hostile value pool - wrong types, invalid UTF-8 next to characters that need
// escaping, NaN, negative and large counts, host functions as callbacks. The
// oracle is C05's: the run returns nil or an error, no panic, the object stays
// usable. Left out: os and fmt (side effects on the host process by design)
// and times.sleep (blocks by design; RunContext cannot interrupt a Go call).
// Ints stop at 100000 so that repeat/pad/perm stay within a few MB.

var stdlibRepr = []*lang.Val{
	{T: "int", I: 0}, {T: "int", I: -1}, {T: "int", I: 7}, {T: "int", I: 100000},
	{T: "float", Bits: math.Float64bits(2.5)}, {T: "float", Bits: math.Float64bits(math.NaN())},
	{T: "string", S: []byte("")}, {T: "string", S: []byte("a\"\\\n\x80\xffé%d\xc3")},
	{T: "bytes", S: []byte("\"\x01\xbf\xf0\x9f")}, {T: "bool", B: true}, {T: "undefined"},
	{T: "array", Share: 1, Kids: []*lang.Val{{T: "int", I: 1}, {T: "string", S: []byte("s\t\x9c")}}},
	{T: "map", Share: 3, Keys: []string{"a\n\x85"}, Kids: []*lang.Val{{T: "int", I: 1}}},
	{T: "time", Sec: 1500000000}, {T: "hostfn", Name: "hf_first"},
}

var stdlibEnumMods = []string{"base64", "enum", "hex", "json", "math", "rand", "text", "times"}

func TestStdlibEnumeration(t *testing.T) {
	calls := 0
	for _, mod := range stdlibEnumMods {
		var fns []string
		if attrs, ok := stdlib.BuiltinModules[mod]; ok {
			for k, v := range attrs {
				if _, isFn := v.(*tengo.UserFunction); isFn && !(mod == "times" && k == "sleep") {
					fns = append(fns, k)
				}
			}
		} else {
			// enum is a source module: its exported functions, from its own text
			for _, m := range regexp.MustCompile(`(?m)^\s+(\w+): func\(`).FindAllStringSubmatch(stdlib.SourceModules[mod], -1) {
				fns = append(fns, m[1])
			}
		}
		sort.Strings(fns)
		if len(fns) == 0 {
			t.Fatalf("no functions found in stdlib module %q", mod)
		}
		for _, fn := range fns {
			for arity := 0; arity <= 2; arity++ {
				idx := make([]int, arity)
				for {
					inputs := map[string]*lang.Val{}
					args := make([]string, arity)
					for i, j := range idx {
						n := "a" + strconv.Itoa(i)
						inputs[n] = stdlibRepr[j]
						args[i] = n
					}
					src := fmt.Sprintf("m := import(%q)\nout := m.%s(%s)\n", mod, fn, strings.Join(args, ", "))
					check(t, "TestStdlibEnumeration", payload{Kind: "stdlib-enumeration", Source: src, Inputs: inputs, Stdlib: []string{mod}}, []string{"stdlib:" + mod})
					calls++
					k := arity - 1
					for k >= 0 {
						idx[k]++
						if idx[k] < len(stdlibRepr) {
							break
						}
						idx[k] = 0
						k--
					}
					if k < 0 {
						break
					}
				}
			}
		}
	}
	ev.ClassN("enumerated-stdlib-calls", int64(calls))
}

// ---------- (d) native fuzzing: source bytes -> compile -> RunContext ----------

func FuzzRun(f *testing.F) {
	for _, s := range []string{
		"a := [1]\nfor k, v in a { a = append(a, v) }\n", "f := func(n) { return f(n+1) + 1 }\nf(0)\n", "x := {a: 1}\nfor k in x { delete(x, k) }\n",
		"r := bytes(5)[1:3] + bytes(\"x\")\n", "m := {}\nm[1.5] = [1][2:1]\n", "s := \"é\"[0] + 1\nt := s / 0\n", "a := range(0, 10, 3)\nb := splice(a, 1, 1)\n",
		"e := error(1)\nr := e.value + e\n", "f := func(...a) { return a }\nr := f([1,2]...)\n", "x := 1 << 70 >> -1\ny := -9223372036854775808 / -1\n",
		"for i := 0; i < 10; i++ { if i % 2 { continue }; break }\n", "x := immutable([1,2])\nx[0] = 1\n", "r := format(\"%5.2f|%-4d|%q\", 1.5, 2, \"s\")\n",
	} {
		f.Add([]byte(s))
	}
	f.Fuzz(func(t *testing.T, b []byte) {
		if len(b) > 4096 {
			return
		}
		check(t, "FuzzRun", payload{Kind: "fuzz", Source: string(b), MaxAllocs: 100000}, nil)
	})
}

// ---------- replay / regressions / known findings ----------

func replayFile(t *testing.T, path string) {
	var p payload
	test, err := ev.LoadReplay(path, &p)
	if err != nil {
		t.Fatalf("load %s: %v", path, err)
	}
	check(t, test, p, []string{"replay"})
}

func TestReplay(t *testing.T) {
	path := os.Getenv("VERIF_REPLAY")
	if path == "" {
		t.Skip("no VERIF_REPLAY")
	}
	if strings.HasSuffix(path, ".fuzz") {
		b, err := readFuzzFile(path)
		if err != nil {
			t.Fatal(err)
		}
		check(t, "FuzzRun", payload{Kind: "fuzz", Source: string(b), MaxAllocs: 100000}, nil)
		return
	}
	replayFile(t, path)
}

func readFuzzFile(path string) ([]byte, error) {
	raw, err := os.ReadFile(path)
	if err != nil {
		return nil, err
	}
	for _, l := range strings.Split(string(raw), "\n")[1:] {
		l = strings.TrimSpace(l)
		if strings.HasPrefix(l, "[]byte(") && strings.HasSuffix(l, ")") {
			s, err := strconv.Unquote(l[len("[]byte(") : len(l)-1])
			if err != nil {
				return nil, err
			}
			return []byte(s), nil
		}
	}
	return nil, fmt.Errorf("no []byte value in %s", path)
}

// TestKnownFindings demonstrates the open finding F10 in a sacrificial child
// process (a Go fatal error cannot be recovered in-process): the committed
// reproducer is run without the cycle guard and must take the child down.
func TestKnownFindings(t *testing.T) {
	root := os.Getenv("VERIF_ROOT")
	if root == "" {
		root = "/verif"
	}
	files, _ := filepath.Glob(filepath.Join(root, "replays", "C05", "open", "F10-*.json"))
	sort.Strings(files)
	for _, f := range files {
		cmd := exec.Command(os.Args[0], "-test.run", "^TestReplay$", "-test.count", "1")
		cmd.Env = append(os.Environ(), "VERIF_REPLAY="+f, "VERIF_C05_UNGUARDED=1", "VERIF_EVID_OUT=", "VERIF_INFLIGHT=", "GOMAXPROCS=2")
		out, err := cmd.CombinedOutput()
		died := err != nil && (strings.Contains(string(out), "fatal error: stack overflow") || strings.Contains(string(out), "goroutine stack exceeds"))
		if died {
			ev.Known("F10", "a self-containing array/map (a := [1]; a[0] = a; a == a) makes ==, string(), copy() recurse until the Go runtime aborts the host process (fatal error: stack overflow) ["+filepath.Base(f)+"]")
		} else {
			ev.Note("finding F10 no longer reproduces with " + filepath.Base(f) + ": retire it")
			t.Logf("child output: %s", clip(string(out)))
		}
	}
}

func TestRegressions(t *testing.T) {
	root := os.Getenv("VERIF_ROOT")
	if root == "" {
		root = "/verif"
	}
	files, _ := filepath.Glob(filepath.Join(root, "replays", "C05", "fixed", "*.json"))
	sort.Strings(files)
	for _, f := range files {
		f := f
		t.Run(filepath.Base(f), func(t *testing.T) { replayFile(t, f) })
		ev.Note("regression replays run")
	}
}
