package c05

// Cyclic containers outside the open finding F10. F10 is the unbounded
// recursion of String / Equals / Copy (==, string(), copy(), format, "" + x,
// and the host-side String()/Value()/Clone()) on a self-containing value; the
// other checks of this package stop a run right before it would create such a
// value. That guard must not hide everything else that can be done with a
// cyclic value: indexing, iterating, len, the is_* predicates, truthiness,
// wrapping, passing around, slicing, appending, and freeze() - which
// documents a recursive traversal and carries a memo for exactly this case.
// Programs here build 1..4 containers, connect them into at least one cycle
// (through arrays, maps, immutable wrappers and error values) and then apply
// only operations that never reach String / Equals / Copy of a container.
// They run WITHOUT the cycle guard; a fatal error of the Go runtime takes the
// test process down and is reported by the driver from the in-flight record.

import (
	"testing"

	"pgregory.net/rapid"

	"verifharness/cyc"
)

// TestCyclicValues: see the comment at the top of this file.
func TestCyclicValues(t *testing.T) {
	rapid.Check(t, func(t *rapid.T) {
		pl := payload{Kind: "cyclic-values", Source: cyc.Source(t), AllowCycles: true}
		if rapid.IntRange(0, 7).Draw(t, "limitAllocs") == 0 {
			pl.MaxAllocs = int64(rapid.IntRange(1, 50).Draw(t, "maxAllocs"))
		}
		check(t, "TestCyclicValues", pl, nil)
	})
}
