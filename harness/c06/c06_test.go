// C06 — configured resource limits are honoured by every program.
package c06

import (
	"errors"
	"fmt"
	"os"
	"path/filepath"
	"sort"
	"strconv"
	"strings"
	"testing"

	"github.com/d5/tengo/v2"
	"pgregory.net/rapid"

	"verifharness/bridge"
	"verifharness/ev"
	"verifharness/gen"
	"verifharness/lang"
	"verifharness/ref"
	"verifharness/refx"
	"verifharness/tv"
)

// maxLen is the string maximum of this process (0 = engine default), maxBytes
// the bytes maximum (VERIF_MAXBYTES; the same as maxLen unless set: the two
// limits are separate settings and a check against the wrong one only shows
// when they differ).
var maxLen, maxBytes int

func TestMain(m *testing.M) {
	if s := os.Getenv("VERIF_MAXLEN"); s != "" {
		maxLen, _ = strconv.Atoi(s)
		maxBytes = maxLen
		if b := os.Getenv("VERIF_MAXBYTES"); b != "" {
			maxBytes, _ = strconv.Atoi(b)
		}
		if maxLen > 0 {
			tengo.MaxStringLen = maxLen
			tengo.MaxBytesLen = maxBytes
		}
	}
	ev.Main(m, "C06")
}

type payload struct {
	Sub      string               `json:"sub"` // alloc | strlen | recursion
	Program  *lang.Program        `json:"program,omitempty"`
	Inputs   map[string]*lang.Val `json:"inputs,omitempty"`
	Source   string               `json:"source"`
	MaxLen   int                  `json:"max_len,omitempty"`
	MaxBytes int                  `json:"max_bytes,omitempty"`
	Budgets  []int64              `json:"budgets,omitempty"`
}

func render(p *lang.Program) (string, map[string]string) {
	src := lang.Render(p.Main)
	mods := map[string]string{}
	for k, b := range p.Modules {
		mods[k] = lang.Render(b)
	}
	return src, mods
}

func clip(s string) string {
	if len(s) > 1500 {
		return s[:900] + "\n… (" + fmt.Sprint(len(s)) + " bytes) …\n" + s[len(s)-400:]
	}
	return s
}

// ---------- (a) allocation budget ----------

func checkAlloc(t ev.TB, test string, pl payload) {
	ev.InFlight(test, pl)
	defer ev.InFlightDone()
	p, inputs := pl.Program, pl.Inputs
	base, why := refx.StableBy(p, inputs, ref.DefaultConfig(), refx.KeyWithAllocs)
	// failf reports a violation unless the program turns out to be outside
	// the domain: the filter above tries four fixed map orders; before a
	// mismatch is reported the reference enumerates every order of every map
	// traversal (under the configuration the mismatch was observed with), and
	// a run whose outcome or allocation count depends on the order is discarded
	cfgCur := ref.DefaultConfig()
	failf := func(format string, args ...interface{}) {
		if refx.OrderDependentBy(p, inputs, ref.DefaultConfig(), refx.KeyWithAllocs) || refx.OrderDependentBy(p, inputs, cfgCur, refx.KeyWithAllocs) {
			ev.Discard("excluded:capacity-or-map-order-dependent (exhaustive enumeration after a mismatch)")
			return
		}
		ev.Fail(t, test, pl, format, args...)
	}
	if why != "" {
		ev.Discard(why)
		return
	}
	if base.Status == "compile-error" {
		ev.Discard("does not compile")
		return
	}
	src, mods := render(p)
	pl.Source = src
	A := base.Stats.Allocs // allocations the documented rule counts for the whole run (or up to the failure)
	// the VM's own count on an unlimited run must agree with the rule
	u, cerr := bridge.CompileUnit(src, mods, inputs, nil)
	if cerr != nil {
		ev.Discard("does not compile on the code under test (C01's subject)")
		return
	}
	u.Bytecode.RemoveDuplicates()
	un := bridge.RunVM(u.Bytecode, u.Globals, u.Index, 3000000, -1)
	if un.Status == "budget" || un.Status == "panic" {
		ev.Discard("unlimited run: " + un.Status)
		return
	}
	if un.Status != base.Status {
		ev.Discard("status differs from the reference (C01's subject)")
		return
	}
	if un.Allocs != A {
		failf("the run performs %d tracked allocations by the documented rule (one per operator result, unary -/^ result, array/map literal, error(), immutable() of a container, slice, builtin/host call result, closure creation, iterator creation) but the VM counted %d\n--- source ---\n%s",
			A, un.Allocs, clip(src))
		return
	}
	wantGlobals := bridge.DescribeGlobals(un.Globals, nil)
	budgets := pl.Budgets
	for _, n := range budgets {
		cfg := ref.DefaultConfig()
		cfg.MaxAllocs = n
		cfgCur = cfg
		// intermediate states may depend on map order / capacity even when the
		// final result does not: compare them only when every policy agrees
		want, unstable := refx.Stable(p, inputs, cfg)
		res := bridge.Run(src, mods, inputs, bridge.Config{SetAllocs: true, MaxAllocs: n})
		switch {
		case n < 0 || n >= A:
			// enough budget: same outcome and same result as the unlimited run
			if res.Status != base.Status {
				failf("budget %d >= %d allocations needed: status %s (%s), unlimited run: %s\n--- source ---\n%s", n, A, res.Status, oneLine(res.ErrText), base.Status, clip(src))
				return
			}
			if res.Err != nil && errors.Is(res.Err, tengo.ErrObjectAllocLimit) {
				failf("budget %d >= %d allocations needed but the run hit the allocation limit\n--- source ---\n%s", n, A, clip(src))
				return
			}
			if got := bridge.DescribeGlobals(res.Globals, nil); got != wantGlobals {
				failf("budget %d changes the result:\n unlimited: %s\n limited:   %s\n--- source ---\n%s", n, clipLine(wantGlobals), clipLine(got), clip(src))
				return
			}
		default:
			// 0 <= n < A: the (n+1)-th allocation must stop the run with the limit error
			if res.Status != "runtime-error" || !errors.Is(res.Err, tengo.ErrObjectAllocLimit) {
				failf("budget %d < %d allocations needed: expected the allocation-limit error, got status %s (%s)\n--- source ---\n%s", n, A, res.Status, oneLine(res.ErrText), clip(src))
				return
			}
			if unstable == "" && want.Status == "runtime-error" && want.RErr.Kind == "alloc-limit" {
				if got, w := bridge.DescribeGlobals(res.Globals, nil), ref.DescribeGlobals(want.Globals); got != w {
					failf("budget %d: globals at the point of the limit error differ:\n reference: %s\n tengo:     %s\n--- source ---\n%s", n, clipLine(w), clipLine(got), clip(src))
					return
				}
			}
		}
	}
	// A VM can be run again: every Run re-arms the allocation budget. Closed
	// programs (no host inputs: every global is re-initialised by the program)
	// are run three times on one VM under budgets around A; every run must end
	// like the first and count the same allocations.
	if len(inputs) == 0 && len(mods) == 0 {
		for _, n := range []int64{A + 2, A, A - 1, A / 2} {
			if n < 0 {
				continue
			}
			u2, cerr2 := bridge.CompileUnit(src, mods, inputs, nil)
			if cerr2 != nil {
				break
			}
			vm := tengo.NewVM(u2.Bytecode, u2.Globals, n)
			var first string
			for k := 1; k <= 3; k++ {
				var left int64
				steps := 0
				tengo.VerifSetProbe(func(v *tengo.VM) {
					left = v.VerifAllocsLeft()
					if steps++; steps > 3000000 {
						v.Abort()
					}
				})
				err := vm.Run()
				tengo.VerifSetProbe(nil)
				if steps > 3000000 {
					break
				}
				out := fmt.Sprintf("limit-error=%v error=%v allocations-counted-before-the-last-instruction=%d", err != nil && errors.Is(err, tengo.ErrObjectAllocLimit), err != nil, n+1-left)
				if k == 1 {
					first = out
				} else if out != first {
					failf("one VM, allocation budget %d (the program needs %d), run %d ends differently from run 1:\n run 1: %s\n run %d: %s\n--- source ---\n%s", n, A, k, first, k, out, clip(src))
					return
				}
			}
		}
	}
	kinds := len(base.Stats.AllocKinds)
	nt := A >= 5 && kinds >= 3
	cls := []string{"a:alloc-budget", "a:status:" + base.Status}
	for k := range base.Stats.AllocKinds {
		cls = append(cls, "a:site:"+k)
	}
	ev.ClassN("a:budget-runs", int64(len(budgets)))
	ev.Case("A"+src+fmt.Sprint(budgets), nt, cls...)
	if nt && ev.WantSample() && len(src) < 500 {
		ev.Sample(map[string]interface{}{"sub": "alloc", "source": src, "allocations": A, "budgets": budgets})
	}
}

func oneLine(s string) string {
	s = strings.ReplaceAll(s, "\n", " | ")
	if len(s) > 200 {
		s = s[:200]
	}
	return s
}

func clipLine(s string) string {
	if len(s) > 600 {
		return s[:600] + "…"
	}
	return s
}

func TestAllocBudget(t *testing.T) {
	rapid.Check(t, func(t *rapid.T) {
		inputs := gen.Inputs(t, true, true, false)
		o := gen.Opts{MaxStmts: 10, MaxDepth: 3}
		if rapid.IntRange(0, 4).Draw(t, "withModules") == 0 {
			o.Modules = []string{"m1"}
		}
		p, _ := gen.Program(t, o, inputs)
		pl := payload{Sub: "alloc", Program: p, Inputs: inputs}
		// budgets are chosen relative to the reference's count
		base := refx.RunOne(p, inputs, ref.Policies[0], ref.DefaultConfig())
		A := base.Stats.Allocs
		set := map[int64]bool{0: true, 1: true, A - 1: true, A: true, A + 1: true, 2 * A: true, -1: true}
		for i := 0; i < 3; i++ {
			set[int64(rapid.IntRange(0, int(A)+2).Draw(t, "budget"))] = true
		}
		for n := range set {
			if n >= -1 {
				pl.Budgets = append(pl.Budgets, n)
			}
		}
		sort.Slice(pl.Budgets, func(i, j int) bool { return pl.Budgets[i] < pl.Budgets[j] })
		checkAlloc(t, "TestAllocBudget", pl)
	})
}

// ---------- (b) string / bytes maxima ----------

// tooLong returns a description of a string/bytes value (or map key)
// reachable from o that is longer than max.
func tooLong(o tengo.Object, max int, depth int) string {
	if o == nil || depth > 60 {
		return ""
	}
	switch x := o.(type) {
	case *tengo.String:
		if len(x.Value) > max {
			return fmt.Sprintf("string of %d bytes", len(x.Value))
		}
	case *tengo.Bytes:
		if len(x.Value) > maxBytes {
			return fmt.Sprintf("bytes of %d bytes (bytes maximum %d)", len(x.Value), maxBytes)
		}
	case *tengo.Array:
		for _, e := range x.Value {
			if r := tooLong(e, max, depth+1); r != "" {
				return r
			}
		}
	case *tengo.ImmutableArray:
		for _, e := range x.Value {
			if r := tooLong(e, max, depth+1); r != "" {
				return r
			}
		}
	case *tengo.Map:
		return tooLongMap(x.Value, max, depth)
	case *tengo.ImmutableMap:
		return tooLongMap(x.Value, max, depth)
	case *tengo.Error:
		return tooLong(x.Value, max, depth+1)
	}
	return ""
}

func tooLongMap(m map[string]tengo.Object, max, depth int) string {
	keys := make([]string, 0, len(m))
	for k := range m {
		keys = append(keys, k)
	}
	sort.Strings(keys)
	for _, k := range keys {
		if len(k) > max {
			return fmt.Sprintf("map key of %d bytes", len(k))
		}
		if r := tooLong(m[k], max, depth+1); r != "" {
			return r
		}
	}
	return ""
}

func checkStrLen(t ev.TB, test string, pl payload) {
	ev.InFlight(test, pl)
	defer ev.InFlightDone()
	if pl.MaxLen != maxLen || (pl.MaxBytes != 0 && pl.MaxBytes != maxBytes) {
		t.Fatalf("replay needs VERIF_MAXLEN=%d VERIF_MAXBYTES=%d (process has %d / %d)", pl.MaxLen, pl.MaxBytes, maxLen, maxBytes)
	}
	p, inputs := pl.Program, pl.Inputs
	cfg := ref.DefaultConfig()
	cfg.MaxStringLen, cfg.MaxBytesLen = maxLen, maxBytes
	want, why := refx.Stable(p, inputs, cfg)
	if why != "" {
		ev.Discard(why)
		return
	}
	src, mods := render(p)
	pl.Source = src
	// see checkAlloc: the exhaustive domain check on the failure path
	failf := func(format string, args ...interface{}) {
		if refx.OrderDependent(p, inputs, cfg) {
			ev.Discard("excluded:capacity-or-map-order-dependent (exhaustive enumeration after a mismatch)")
			return
		}
		ev.Fail(t, test, pl, format, args...)
	}
	res := bridge.Run(src, mods, inputs, bridge.Config{})
	if res.Status == "timeout" || res.Status == "panic" {
		ev.Fail(t, test, pl, "run ended with %s: %s\n--- source ---\n%s", res.Status, oneLine(res.ErrText), clip(src))
		return
	}
	if want.Status == "compile-error" || res.Status == "compile-error" {
		wantLimit := want.Status == "compile-error" && want.CErr.Class == "string-limit"
		gotLimit := res.Status == "compile-error" && strings.Contains(res.ErrText, "exceeding string size limit")
		if want.Status == "compile-error" && res.Status == "compile-error" && wantLimit != gotLimit {
			// the program has two things wrong (an over-long literal and, say,
			// an unresolved name from the ill-scoped injection): which one is
			// reported first depends on the order the compiler and the
			// reference's resolver walk the tree - not this check's subject
			ev.Discard("two different compile errors in one program")
			return
		}
		if wantLimit && !gotLimit {
			failf("max=%d: the source has a string literal (or map-literal key) longer than the maximum, expected the string-limit compile error, got status %s (%s)\n--- source ---\n%s", maxLen, res.Status, oneLine(res.ErrText), clip(src))
			return
		}
		if gotLimit && !wantLimit {
			failf("max=%d: string-limit compile error although no literal exceeds the maximum (%s)\n--- source ---\n%s", maxLen, oneLine(res.ErrText), clip(src))
			return
		}
		if wantLimit {
			ev.Case(fmt.Sprintf("B%d:%s", maxLen, src), true, "b:strlen", fmt.Sprintf("b:max=%d", maxLen), "b:literal-over-max")
			return
		}
		ev.Discard("does not compile")
		return
	}
	limitWanted := want.Status == "runtime-error" && (want.RErr.Kind == "string-limit" || want.RErr.Kind == "bytes-limit")
	limitGot := res.Err != nil && (errors.Is(res.Err, tengo.ErrStringLimit) || errors.Is(res.Err, tengo.ErrBytesLimit))
	if limitWanted && !limitGot {
		failf("max=%d: the reference hits the %s at some operation, tengo ends with status %s (%s)\n--- source ---\n%s", maxLen, want.RErr.Kind, res.Status, oneLine(res.ErrText), clip(src))
		return
	}
	if !limitWanted && limitGot {
		failf("max=%d: tengo reports a size-limit error (%s) although no operation of the program yields a string/bytes longer than the maximum (reference status %s)\n--- source ---\n%s", maxLen, oneLine(res.ErrText), want.Status, clip(src))
		return
	}
	if limitWanted {
		if want.RErr.Kind == "string-limit" && !errors.Is(res.Err, tengo.ErrStringLimit) || want.RErr.Kind == "bytes-limit" && !errors.Is(res.Err, tengo.ErrBytesLimit) {
			failf("max=%d: wrong limit error: reference %s, tengo %s\n--- source ---\n%s", maxLen, want.RErr.Kind, oneLine(res.ErrText), clip(src))
			return
		}
	}
	if res.Status != want.Status {
		ev.Discard("status differs from the reference for another reason (C01's subject)")
		return
	}
	// the operation must fail not later than where the reference fails: globals as of the failure agree
	if w, g := ref.DescribeGlobals(want.Globals), bridge.DescribeGlobals(res.Globals, nil); w != g {
		if limitWanted {
			failf("max=%d: globals at the limit error differ (the failing operation is not the one that first exceeds the maximum):\n reference: %s\n tengo:     %s\n--- source ---\n%s", maxLen, clipLine(w), clipLine(g), clip(src))
			return
		}
		ev.Discard("globals differ from the reference (C01's subject)")
		return
	}
	// nothing reachable from the globals is longer than the maximum
	names := make([]string, 0, len(res.Globals))
	for k := range res.Globals {
		names = append(names, k)
	}
	sort.Strings(names)
	for _, k := range names {
		if r := tooLong(res.Globals[k], maxLen, 0); r != "" {
			failf("max=%d: after the run variable %q holds a %s: %s\n--- source ---\n%s", maxLen, k, r, clipLine(tv.Describe(res.Globals[k])), clip(src))
			return
		}
	}
	near := false
	for _, k := range names {
		if nearMax(res.Globals[k], maxLen, 0) {
			near = true
		}
	}
	nt := limitWanted || near
	cls := []string{"b:strlen", fmt.Sprintf("b:max=%d/bytes=%d", maxLen, maxBytes), "b:status:" + want.Status}
	if limitWanted {
		cls = append(cls, "b:limit-hit:"+want.RErr.Kind)
	}
	if near {
		cls = append(cls, "b:value-within-4-of-max")
	}
	ev.Case(fmt.Sprintf("B%d:%s", maxLen, src), nt, cls...)
	if nt && ev.WantSample() && len(src) < 500 {
		ev.Sample(map[string]interface{}{"sub": "strlen", "max": maxLen, "source": src, "status": want.Status})
	}
}

func nearMax(o tengo.Object, max, depth int) bool {
	if o == nil || depth > 20 {
		return false
	}
	switch x := o.(type) {
	case *tengo.String:
		return len(x.Value) >= max-4
	case *tengo.Bytes:
		return len(x.Value) >= max-4
	case *tengo.Array:
		for _, e := range x.Value {
			if nearMax(e, max, depth+1) {
				return true
			}
		}
	case *tengo.Map:
		for k, e := range x.Value {
			if len(k) >= max-4 || nearMax(e, max, depth+1) {
				return true
			}
		}
	}
	return false
}

func TestStringLimits(t *testing.T) {
	if maxLen == 0 {
		t.Skip("VERIF_MAXLEN not set")
	}
	rapid.Check(t, func(t *rapid.T) {
		inputs := gen.Inputs(t, false, false, false)
		// inputs themselves must respect the maximum
		for _, v := range inputs {
			clipVal(v, maxLen)
		}
		o := gen.Opts{MaxStmts: 10, MaxDepth: 3, StringHeavy: true, NoTime: true}
		p, _ := gen.Program(t, o, inputs)
		checkStrLen(t, "TestStringLimits", payload{Sub: "strlen", Program: p, Inputs: inputs, MaxLen: maxLen, MaxBytes: maxBytes})
	})
}

func clipVal(v *lang.Val, max int) {
	if v == nil {
		return
	}
	if (v.T == "string" || v.T == "bytes") && len(v.S) > max {
		v.S = v.S[:max]
	}
	for _, k := range v.Kids {
		clipVal(k, max)
	}
}

// ---------- (c) recursion beyond the frame / operand-stack capacity ----------

func recursionSource(locals, pending int, tail bool) string {
	var sb strings.Builder
	sb.WriteString("f := func(n) {\n")
	for i := 0; i < locals; i++ {
		fmt.Fprintf(&sb, "\tl%d := n\n", i)
	}
	sb.WriteString("\treturn ")
	for i := 0; i < pending; i++ {
		sb.WriteString("1 + (")
	}
	sb.WriteString("f(n + 1)")
	sb.WriteString(strings.Repeat(")", pending))
	if !tail && pending == 0 {
		sb.WriteString(" + 0")
	}
	sb.WriteString("\n}\nr := f(0)\n")
	return sb.String()
}

func checkRecursion(t ev.TB, test string, pl payload, slotUse int) {
	ev.InFlight(test, pl)
	defer ev.InFlightDone()
	res := bridge.Run(pl.Source, nil, nil, bridge.Config{})
	switch res.Status {
	case "runtime-error":
		if slotUse <= 1 && !errors.Is(res.Err, tengo.ErrStackOverflow) {
			ev.Fail(t, test, pl, "the frame limit runs out first (1 slot per frame) but the error is not the stack-overflow error: %s\n--- source ---\n%s", oneLine(res.ErrText), clip(pl.Source))
			return
		}
	default:
		ev.Fail(t, test, pl, "unbounded recursion ended with status %s (%s), expected an error\n--- source ---\n%s", res.Status, oneLine(res.ErrText), clip(pl.Source))
		return
	}
	cls := []string{"c:recursion", fmt.Sprintf("c:slots-per-frame=%d", slotUse)}
	if errors.Is(res.Err, tengo.ErrStackOverflow) {
		cls = append(cls, "c:stack-overflow-error")
	} else {
		cls = append(cls, "c:other-error")
	}
	ev.Case("C"+pl.Source, true, cls...)
}

func TestRecursionLimits(t *testing.T) {
	for locals := 0; locals <= 12; locals += 3 {
		for pending := 0; pending <= 4; pending++ {
			src := recursionSource(locals, pending, false)
			slot := 1 + locals + pending
			if pending == 0 {
				slot = 1 + locals + 1 // the "+ 0" keeps one operand pending
			}
			checkRecursion(t, "TestRecursionLimits", payload{Sub: "recursion", Source: src}, slot)
		}
	}
	// exactly one slot per frame: only the callee is pending
	checkRecursion(t, "TestRecursionLimits", payload{Sub: "recursion", Source: "f := func() { return [f()] }\nr := f()\n"}, 1)
	checkRecursion(t, "TestRecursionLimits", payload{Sub: "recursion", Source: "f := func() { x := f(); return x }\nr := f()\n"}, 1)
	checkRecursion(t, "TestRecursionLimits", payload{Sub: "recursion", Source: "g := undefined\nf := func() { return [g()] }\ng = func() { return [f()] }\nr := f()\n"}, 1)
}

// ---------- replay / regressions ----------

func replayFile(t *testing.T, path string) {
	if ev.ReplayTest(path) == "TestFormatExpansionGrid" {
		var gp fmtGridPayload
		if _, err := ev.LoadReplay(path, &gp); err != nil {
			t.Fatalf("load %s: %v", path, err)
		}
		checkFmtGrid(t, gp)
		return
	}
	var p payload
	test, err := ev.LoadReplay(path, &p)
	if err != nil {
		t.Fatalf("load %s: %v", path, err)
	}
	switch p.Sub {
	case "alloc":
		checkAlloc(t, test, p)
	case "strlen":
		if p.MaxLen != maxLen || (p.MaxBytes != 0 && p.MaxBytes != maxBytes) {
			t.Skipf("needs VERIF_MAXLEN=%d VERIF_MAXBYTES=%d", p.MaxLen, p.MaxBytes)
		}
		checkStrLen(t, test, p)
	case "recursion":
		checkRecursion(t, test, p, 2)
	}
}

func TestReplay(t *testing.T) {
	path := os.Getenv("VERIF_REPLAY")
	if path == "" {
		t.Skip("no VERIF_REPLAY")
	}
	replayFile(t, path)
}

func TestRegressions(t *testing.T) {
	root := os.Getenv("VERIF_ROOT")
	if root == "" {
		root = "/verif"
	}
	files, _ := filepath.Glob(filepath.Join(root, "replays", "C06", "fixed", "*.json"))
	sort.Strings(files)
	for _, f := range files {
		f := f
		t.Run(filepath.Base(f), func(t *testing.T) { replayFile(t, f) })
		ev.Note("regression replays run")
	}
}
