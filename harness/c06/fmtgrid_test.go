package c06

// TestFormatExpansionGrid: "no ... format call ... ever yields a string longer
// than the configured maximum". An exhaustive grid over the verbs that expand
// a string / bytes operand (x X q s), every combination of the flags
// ' ' # + - 0, no width / a width, operand lengths 0..40 and three maxima.
// Oracle: Go's fmt gives the length the text has (C17 checks the text itself);
// tengo.Format must return ErrStringLimit exactly when that length exceeds
// MaxStringLen, and otherwise a text no longer than the maximum. The engine
// limit is a process-wide variable: this test runs in a process of its own
// (driver: one job per plain test) and restores it.

import (
	"errors"
	"fmt"
	"strings"
	"testing"

	"github.com/d5/tengo/v2"

	"verifharness/ev"
)

type fmtGridPayload struct {
	Format string `json:"format"`
	Len    int    `json:"len"`
	Bytes  bool   `json:"bytes"`
	Max    int    `json:"max"`
}

func checkFmtGrid(t ev.TB, p fmtGridPayload) bool {
	old := tengo.MaxStringLen
	tengo.MaxStringLen = p.Max
	defer func() { tengo.MaxStringLen = old }()
	raw := strings.Repeat("k", p.Len)
	var arg tengo.Object = &tengo.String{Value: raw}
	var want string
	if p.Bytes {
		arg = &tengo.Bytes{Value: []byte(raw)}
		want = fmt.Sprintf(p.Format, []byte(raw))
	} else {
		want = fmt.Sprintf(p.Format, raw)
	}
	var got string
	var err error
	var pan interface{}
	func() {
		defer func() { pan = recover() }()
		got, err = tengo.Format(p.Format, arg)
	}()
	switch {
	case pan != nil:
		ev.Fail(t, "TestFormatExpansionGrid", p, "max=%d: Format(%q, %d-byte operand) panicked: %v", p.Max, p.Format, p.Len, pan)
	case len(want) > p.Max && !errors.Is(err, tengo.ErrStringLimit):
		ev.Fail(t, "TestFormatExpansionGrid", p, "max=%d: Format(%q, %d-byte operand) has a %d-byte result and must fail with the string-limit error; got %q, error %v", p.Max, p.Format, p.Len, len(want), got, err)
	case len(want) <= p.Max && err != nil:
		ev.Fail(t, "TestFormatExpansionGrid", p, "max=%d: Format(%q, %d-byte operand) has a %d-byte result within the maximum but fails: %v", p.Max, p.Format, p.Len, len(want), err)
	case err == nil && len(got) > p.Max:
		ev.Fail(t, "TestFormatExpansionGrid", p, "max=%d: Format(%q, %d-byte operand) returned %d bytes", p.Max, p.Format, p.Len, len(got))
	default:
		d := len(want) - p.Max
		ev.Case(fmt.Sprintf("G%d|%s|%d|%v", p.Max, p.Format, p.Len, p.Bytes), d >= -4 && d <= 4, "b:format-expansion-grid", fmt.Sprintf("b:grid-max=%d", p.Max))
		return true
	}
	return false
}

func TestFormatExpansionGrid(t *testing.T) {
	flags := []string{" ", "#", "+", "-", "0"}
	bad := 0
	for _, max := range []int{16, 32, 64} {
		for mask := 0; mask < 1<<len(flags); mask++ {
			fl := ""
			for i, f := range flags {
				if mask&(1<<i) != 0 {
					fl += f
				}
			}
			for _, w := range []string{"", "12", "40"} {
				for _, verb := range []string{"x", "X", "q", "s"} {
					for l := 0; l <= 40; l++ {
						for _, by := range []bool{false, true} {
							if !checkFmtGrid(t, fmtGridPayload{Format: "%" + fl + w + verb, Len: l, Bytes: by, Max: max}) {
								if bad++; bad >= 5 {
									return
								}
							}
						}
					}
				}
			}
		}
	}
}
