// C07 — cancellation stops any running script promptly and cleanly.
//
// The VM probe (build tag verif) gives the harness the schedule: it counts
// dispatched instructions and cancels the context at instruction K, on the VM
// goroutine. In strict mode it then holds that instruction until Abort is
// visible, so that the abort lands exactly at K (deterministic, shrinkable in
// (program, K)); in free mode it returns at once and the race between
// RunContext's select and the dispatch loop is the scheduler's.
package c07

import (
	"encoding/json"
	"fmt"
	"os"
	"path/filepath"
	"runtime/debug"
	"sort"
	"strings"
	"testing"

	"github.com/d5/tengo/v2"
	"pgregory.net/rapid"

	"verifharness/ev"
)

func TestMain(m *testing.M) {
	// every RunContext allocates a ~90 KB VM: collect less often (the shards
	// are otherwise dominated by sweeping and madvise)
	if os.Getenv("GOGC") == "" {
		debug.SetGCPercent(400)
	}
	ev.Main(m, "C07")
}

// openFindings: defects of the code under test that are excluded from
// generation by construction (none at present).
var openFindings = map[string]bool{}

type payload struct {
	Program    *program `json:"program"`
	Plan       plan     `json:"plan"`
	PreRunSame bool     `json:"pre_run_same,omitempty"` // an uncancelled run through the same Compiled precedes the cancelled one
	Rerun      *plan    `json:"rerun,omitempty"`        // non-terminating programs: the second cancellation on the same object
	Ops        []op     `json:"ops,omitempty"`          // TestCancelCycles
}

type verdict struct {
	discard    string
	fail       string
	hung       bool
	nontrivial bool
	classes    []string
	sample     map[string]interface{}
}

func clip(s string) string {
	if len(s) > 1600 {
		return s[:1000] + "\n… (" + fmt.Sprint(len(s)) + " bytes) …\n" + s[len(s)-400:]
	}
	return s
}

func oneLine(s string) string {
	s = strings.ReplaceAll(s, "\n", " | ")
	if len(s) > 240 {
		s = s[:240] + "…"
	}
	return s
}

func describePlan(pl plan) string {
	b, _ := json.Marshal(pl)
	return string(b)
}

// judge applies oracle clauses (1)-(4) to one scheduled run. base is nil for
// a non-terminating program. finished reports that the run completed by
// itself (its own result was returned).
func judge(p *program, pl plan, base *baseline, o *outcome, c *tengo.Compiled) (fail string, finished bool) {
	where := fmt.Sprintf("plan %s; %d instructions dispatched, fired=%v abortSeenAt=%d", describePlan(pl), o.N, o.Fired, o.AbortSeenAt)
	// (1) the call returns
	if o.Hung {
		return fmt.Sprintf("RunContext did not return within %v (%s)", watchdog, where), false
	}
	// (3) promptness, in instructions
	if o.PostAbort > 0 {
		forced := ""
		if o.Forced {
			forced = " (the harness then unwound the VM)"
		}
		return fmt.Sprintf("%d instruction(s) were dispatched after the one during which Abort became visible%s (%s)", o.PostAbort, forced, where), false
	}
	// (4) clean hand-off
	if o.EarlyReturn {
		return fmt.Sprintf("RunContext returned while the VM goroutine was still inside run() (held by the probe at instruction %d) (%s)", o.AbortSeenAt, where), false
	}
	if o.AfterReturn > 0 {
		return fmt.Sprintf("the VM dispatched %d instruction(s) after RunContext had returned (%s)", o.AfterReturn, where), false
	}
	if o.GetEarly {
		return fmt.Sprintf("a concurrent Compiled.Get completed while the run's VM goroutine was still inside run(): the lock is not held until the VM goroutine ends (%s)", where), false
	}
	if o.GetStuck {
		return fmt.Sprintf("a Compiled.Get started during the run had not returned %v after RunContext did (%s)", watchdog, where), false
	}
	if o.LeakDump != "" {
		return fmt.Sprintf("goroutine left behind (NumGoroutine %d before, %d after) (%s):\n%s", o.GoBefore, o.GoAfter, where, clip(o.LeakDump)), false
	}
	if o.GoAfter > o.GoBefore {
		ev.Note("goroutine count unsettled but no goroutine runs or was created by tengo code")
	}
	if o.StrictExpired {
		ev.Note("strict wait expired (Abort not visible 5 s after cancel); case judged as free")
	}
	if o.Foreign > 0 {
		ev.Note("probe called by a foreign VM")
	}
	// (2) the result
	isCtx := o.Err != nil && o.CtxErr != nil && o.Err == o.CtxErr
	own := false
	if base != nil {
		own = !isCtx && o.ErrText == base.ErrText
	}
	// strict: the probe held the run at an instruction until Abort (called
	// only on the ctx.Done branch) was visible, so the run cannot have
	// finished first; with an already-cancelled context the run is either
	// held at instruction 0 or aborted before it
	mustCtx := p.Infinite ||
		(pl.Mode == "strict" && !o.StrictExpired && pl.Instant == "pre") ||
		(pl.Mode == "strict" && !o.StrictExpired && o.Fired && o.AbortSeen)
	mustOwn := !mustCtx && (o.CtxErr == nil || pl.Instant == "after" || pl.Instant == "none")
	switch {
	case mustCtx && !isCtx:
		why := "the program does not terminate"
		if !p.Infinite {
			why = "the context was cancelled while the run was held at an instruction"
		}
		return fmt.Sprintf("RunContext returned %q, not the context's error %v, although %s (%s)", o.ErrText, o.CtxErr, why, where), false
	case mustOwn && !own:
		return fmt.Sprintf("the context was not cancelled before RunContext returned, yet the result %q is not the run's own result %q (%s)", o.ErrText, base.ErrText, where), false
	case !isCtx && !own:
		return fmt.Sprintf("RunContext returned %q: neither the context's error (%v) nor the run's own result %q (%s)", o.ErrText, o.CtxErr, base.ErrText, where), false
	}
	if isCtx {
		want := "context canceled"
		if pl.Ctx == "deadline" {
			want = "context deadline exceeded"
		}
		if o.ErrText != want {
			return fmt.Sprintf("context error is %q, expected %q (%s)", o.ErrText, want, where), false
		}
		return "", false
	}
	// the run's own result was returned: the run finished, so its effects are complete
	g, _, stuck := globalsOf(c)
	if stuck {
		return fmt.Sprintf("GetAll did not return within %v after RunContext returned (%s)", watchdog, where), true
	}
	if g != base.Globals {
		return fmt.Sprintf("RunContext returned the run's own result but the globals are not those of a complete run (%s)\n got:  %s\n want: %s", where, clip(g), clip(base.Globals)), true
	}
	return "", true
}

// apiWorks: Get/Set on the object after a cancelled run (clause 5).
func apiWorks(c *tengo.Compiled, names []string) string {
	msg := ""
	ok := guarded(func() {
		if err := c.Set("c07_not_defined_anywhere", 1); err == nil {
			msg = "Set of a name not defined at compile time returned no error"
			return
		}
		if d := describe(c.Get("c07_not_defined_anywhere").Object()); d != "undefined" {
			msg = "Get of an unknown name returned " + d
			return
		}
		for i, n := range names {
			if i >= 3 {
				break
			}
			// the value is put back afterwards: a later run that fails
			// before assigning n would otherwise keep the harness's value
			saved := c.Get(n).Object()
			if err := c.Set(n, int64(4200+i)); err != nil {
				msg = fmt.Sprintf("Set(%q) failed: %v", n, err)
				return
			}
			if d := describe(c.Get(n).Object()); d != fmt.Sprintf("int(%d)", 4200+i) {
				msg = fmt.Sprintf("Get(%q) after Set(%q, %d) returned %s", n, n, 4200+i, d)
				return
			}
			if !c.IsDefined(n) {
				msg = fmt.Sprintf("IsDefined(%q) is false after Set", n)
				return
			}
			if err := c.Set(n, saved); err != nil {
				msg = fmt.Sprintf("Set(%q) failed: %v", n, err)
				return
			}
			if got := c.Get(n).Object(); got != saved {
				msg = fmt.Sprintf("Get(%q) does not return the object just Set", n)
				return
			}
		}
	})
	if !ok {
		return fmt.Sprintf("Get/Set did not return within %v (lock still held?)", watchdog)
	}
	return msg
}

func instantLabel(pl plan, T int64) string {
	switch pl.Instant {
	case "k":
		switch {
		case pl.K == 0:
			return "k=0"
		case pl.K == 1 && T != 2:
			return "k=1"
		case T > 0 && pl.K == T-1:
			return "k=T-1"
		case T > 0 && pl.K >= T:
			return "k>=T"
		}
		return "k=mid"
	case "finish":
		return "k=T(finish)"
	}
	return pl.Instant
}

func kindGroup(p *program) string {
	switch {
	case p.Infinite:
		return "infinite"
	case strings.HasPrefix(p.Kind, "gen"):
		return "generated"
	}
	return "finite-shape"
}

func latencyClass(ns int64) string {
	switch {
	case ns <= 0:
		return ""
	case ns < 100e3:
		return "latency:<100us"
	case ns < 1e6:
		return "latency:<1ms"
	case ns < 10e6:
		return "latency:<10ms"
	case ns < 100e6:
		return "latency:<100ms"
	case ns < 1e9:
		return "latency:<1s"
	}
	return "latency:>=1s"
}

func planClasses(p *program, pl plan, T int64, o *outcome, finished bool) []string {
	mode := pl.Mode + "/" + pl.Ctx
	cl := []string{
		"kind:" + p.Kind,
		"instant:" + instantLabel(pl, T),
		"mode:" + mode,
		fmt.Sprintf("procs:%d", pl.Procs),
		"x:" + kindGroup(p) + "|" + instantLabel(pl, T) + "|" + mode,
	}
	if finished {
		cl = append(cl, "result:own")
	} else {
		cl = append(cl, "result:context-error")
	}
	if o.Fired && o.AbortSeen && pl.Mode == "strict" {
		cl = append(cl, "abort-landed-exactly-at-k")
	}
	if o.N == 0 {
		cl = append(cl, "aborted-before-first-instruction")
	}
	if pl.Getter && o.Fired {
		cl = append(cl, "concurrent-get-during-run")
	}
	if lc := latencyClass(o.LatencyNS); lc != "" {
		cl = append(cl, lc)
	}
	return cl
}

// inside: the cancellation took effect strictly inside the run.
func inside(p *program, pl plan, T int64, o *outcome, finished bool) bool {
	if p.Infinite {
		return true
	}
	if finished {
		return false
	}
	switch pl.Instant {
	case "k":
		return o.Fired && pl.K > 0 && pl.K < T
	case "timer":
		return o.N > 0 && o.N < T
	}
	return false
}

// freshBaseline measures p on two fresh objects. The own-result comparisons
// need a program whose uncancelled behaviour is one fixed thing: programs
// whose instruction count, error text or globals differ between two fresh
// objects (Go map order reaching an error message, ...) are outside that.
func freshBaseline(p *program) (base *baseline, o *outcome, a *tengo.Compiled, discard, fail string) {
	a, err := compile(p)
	if err != nil {
		return nil, nil, nil, "does not compile", ""
	}
	base, o, msg := measure(a, p)
	if msg != "" {
		if o != nil && o.Hung {
			return nil, o, a, "uncancelled run exceeds 10 s", ""
		}
		if isWatchdog(msg) {
			ev.Note("watchdog expired on an uncancelled run of a fresh object")
			return nil, o, a, "watchdog expiry without any cancellation", ""
		}
		return nil, o, a, "", "fresh object: " + msg
	}
	if strings.Contains(base.Globals, tooLarge) {
		return nil, o, a, "globals too large to compare", ""
	}
	a2, err := compile(p)
	if err != nil {
		return nil, o, a, "does not compile", ""
	}
	b2, o2, msg := measure(a2, p)
	if msg != "" {
		if o2 != nil && o2.Hung {
			return nil, o, a, "uncancelled run exceeds 10 s", ""
		}
		return nil, o, a, "", "fresh object: " + msg
	}
	if b2.T != base.T || b2.ErrText != base.ErrText || b2.Globals != base.Globals {
		return nil, o, a, "not deterministic across fresh objects", ""
	}
	return base, o, a, "", ""
}

// runCase evaluates one (program, schedule) pair through every oracle clause.
func runCase(pay payload, base *baseline) (v verdict) {
	p := pay.Program
	if !p.Infinite && base == nil {
		b, _, _, discard, fail := freshBaseline(p)
		if discard != "" || fail != "" {
			v.discard, v.fail = discard, fail
			return
		}
		base = b
	}
	c, err := compile(p)
	if err != nil {
		v.discard = "does not compile"
		return
	}
	var T int64 = -1
	names := []string{}
	if base != nil {
		T = base.T
		names = base.Names
	} else {
		_, names, _ = globalsOf(c)
	}
	if pay.PreRunSame && !p.Infinite {
		b2, _, msg := measure(c, p)
		if msg != "" {
			v.fail = "uncancelled pre-run: " + msg
			return
		}
		if b2.T != base.T || b2.ErrText != base.ErrText || b2.Globals != base.Globals {
			ev.Note("two uncancelled runs on two fresh objects differ (instruction count, error or globals)")
			v.discard = "not deterministic across fresh objects"
			return
		}
	}
	if msg := resetInputs(c, p); msg != "" {
		v.fail = msg
		return
	}
	getVar := "x"
	if len(names) > 0 {
		getVar = names[0]
	}
	o := runPlan(c, pay.Plan, getVar)
	src := "\n--- source ---\n" + clip(p.Source)
	fail, finished := judge(p, pay.Plan, base, o, c)
	if fail != "" {
		v.hung = o.Hung
		v.fail = fail + src
		return
	}
	v.classes = planClasses(p, pay.Plan, T, o, finished)
	v.nontrivial = inside(p, pay.Plan, T, o, finished)
	// (5) the same object afterwards: Get/Set, then another run
	if msg := apiWorks(c, names); msg != "" {
		v.fail = "after the cancelled run: " + msg + src
		return
	}
	if p.Infinite {
		rp := plan{Mode: "strict", Ctx: "cancel", Instant: "k", K: 7, Procs: pay.Plan.Procs}
		if pay.Rerun != nil {
			rp = *pay.Rerun
		}
		o2 := runPlan(c, rp, getVar)
		if fail, _ := judge(p, rp, nil, o2, c); fail != "" {
			v.hung = o2.Hung
			v.fail = "second run on the same object: " + fail + src
			return
		}
		v.classes = append(v.classes, "rerun:cancelled-again")
	} else {
		b3, o3, msg := measure(c, p)
		if msg != "" {
			v.hung = o3 != nil && o3.Hung
			v.fail = "re-run after the cancelled run: " + msg + src
			return
		}
		if f, _ := judge(p, plan{Mode: "free", Ctx: "none", Instant: "none"}, base, o3, c); f != "" {
			v.fail = "re-run after the cancelled run: " + f + src
			return
		}
		if b3.ErrText != base.ErrText || b3.Globals != base.Globals {
			v.fail = fmt.Sprintf("re-run on the same object after the cancelled run differs from an uncancelled run on a fresh object\n error: %q vs %q\n got:  %s\n want: %s%s",
				b3.ErrText, base.ErrText, clip(b3.Globals), clip(base.Globals), src)
			return
		}
		if b3.T != base.T {
			ev.Note("re-run dispatched a different number of instructions than the fresh run (same result)")
		}
		v.classes = append(v.classes, "rerun:compared-with-fresh-object")
		if base.ErrText != "" {
			v.classes = append(v.classes, "own-result:runtime-error")
		}
	}
	if pay.PreRunSame {
		v.classes = append(v.classes, "pre-run-on-same-object")
	}
	if v.nontrivial && len(p.Source) < 500 && len(p.Inputs) == 0 && pay.Plan.Instant == "k" && pay.Plan.K > 1 && (pay.Plan.K*7+int64(len(p.Source)))%5 == 0 {
		v.sample = map[string]interface{}{"source": p.Source, "kind": p.Kind, "plan": pay.Plan, "instructions_uncancelled": T,
			"instructions_dispatched": o.N, "returned": o.ErrText, "cancel_to_return_ns": o.LatencyNS}
	}
	return
}

// isWatchdog: the failure is a watchdog expiry (every such message says so).
func isWatchdog(msg string) bool {
	return strings.Contains(msg, "did not return within") || strings.Contains(msg, "had not returned")
}

func evaluate(t ev.TB, test string, pay payload, base *baseline) {
	v := runCase(pay, base)
	if v.hung || isWatchdog(v.fail) {
		// a watchdog expiry is re-tried once before it is reported
		v2 := runCase(pay, nil)
		if !v2.hung && !isWatchdog(v2.fail) {
			ev.Note("watchdog expired once, not reproduced on retry")
			v = v2
		}
	}
	switch {
	case v.discard != "":
		ev.Discard(v.discard)
		return
	case v.fail != "":
		ev.Fail(t, test, pay, "%s", v.fail)
		return
	}
	key, _ := json.Marshal(pay)
	ev.Case(string(key), v.nontrivial, v.classes...)
	if v.sample != nil && ev.WantSample() && (test != "TestShapes" || shapeSamples < 1) {
		if test == "TestShapes" {
			shapeSamples++
		}
		ev.Sample(v.sample)
	}
}

var shapeSamples int

// ---------- drawing schedules ----------

func drawK(t *rapid.T, p *program, T int64) int64 {
	if p.Infinite {
		if rapid.Bool().Draw(t, "kSmall") {
			return int64(rapid.IntRange(0, 40).Draw(t, "k"))
		}
		return int64(uniform(t, "k", 4001))
	}
	if rapid.Bool().Draw(t, "kUniform") {
		return int64(uniform(t, "k", int(T)))
	}
	return int64(rapid.IntRange(0, int(T-1)).Draw(t, "k"))
}

func pick(t *rapid.T, label string, names []string, weights []int) string {
	tot := 0
	for _, w := range weights {
		tot += w
	}
	r := uniform(t, label, tot)
	for i, w := range weights {
		if r < w {
			return names[i]
		}
		r -= w
	}
	return names[len(names)-1]
}

func drawStrict(t *rapid.T, p *program, T int64) plan {
	pl := plan{Mode: "strict", Ctx: "cancel"}
	pl.Procs = []int{1, 2, 2, 4}[uniform(t, "procs", 4)]
	pl.LingerUS = []int{0, 0, 30, 200}[uniform(t, "linger", 4)]
	pl.Getter = uniform(t, "getter", 3) == 0
	var inst string
	if p.Infinite {
		inst = pick(t, "instant", []string{"pre", "k0", "k1", "mid"}, []int{1, 1, 1, 6})
	} else {
		inst = pick(t, "instant", []string{"pre", "k0", "k1", "mid", "last", "after"}, []int{1, 1, 1, 6, 1, 1})
	}
	switch inst {
	case "pre", "after":
		pl.Instant = inst
	case "k0":
		pl.Instant, pl.K = "k", 0
	case "k1":
		pl.Instant, pl.K = "k", 1
		if !p.Infinite && T < 2 {
			pl.K = 0
		}
	case "last":
		pl.Instant, pl.K = "k", T-1
	default:
		pl.Instant, pl.K = "k", drawK(t, p, T)
	}
	return pl
}

func drawFree(t *rapid.T, p *program, T int64) plan {
	pl := plan{Mode: "free"}
	pl.Procs = []int{1, 2, 2, 16, 16}[uniform(t, "procs", 5)]
	pl.Getter = uniform(t, "getter", 4) == 0
	if uniform(t, "ctxKind", 10) < 6 {
		pl.Ctx = "cancel"
		pl.Yield = rapid.Bool().Draw(t, "yield")
		var inst string
		if p.Infinite {
			inst = pick(t, "instant", []string{"pre", "k"}, []int{1, 5})
		} else {
			inst = pick(t, "instant", []string{"pre", "k", "finish", "after"}, []int{1, 5, 2, 1})
		}
		pl.Instant = inst
		switch inst {
		case "k":
			pl.K = drawK(t, p, T)
		case "finish":
			pl.K = T - 1
		}
		return pl
	}
	pl.Ctx = "deadline"
	switch pick(t, "instant", []string{"pre", "hold", "timer"}, []int{1, 3, 3}) {
	case "pre":
		pl.Instant = "pre"
	case "hold":
		pl.Instant, pl.Hold = "k", true
		pl.K = drawK(t, p, T)
		pl.TimeoutUS = rapid.IntRange(1, 300).Draw(t, "timeoutUS")
	default:
		pl.Instant = "timer"
		pl.TimeoutUS = rapid.IntRange(0, 1500).Draw(t, "timeoutUS")
	}
	return pl
}

// prepare draws a program and measures it on a fresh object.
func prepare(t *rapid.T, test string, infinitePermille int) (*program, *baseline, bool) {
	p, why := drawProgram(t, infinitePermille)
	if why != "" {
		return nil, nil, false
	}
	if p.Infinite {
		return p, nil, true
	}
	base, o, a, discard, fail := freshBaseline(p)
	if discard == "does not compile" && !strings.HasPrefix(p.Kind, "gen") {
		t.Fatalf("hand-written shape does not compile:\n%s", p.Source)
	}
	if discard != "" {
		ev.Discard(discard)
		return nil, nil, false
	}
	if fail != "" {
		ev.Fail(t, test, payload{Program: p, Plan: plan{Mode: "free", Ctx: "none", Instant: "none"}}, "%s", fail)
	}
	if f, _ := judge(p, plan{Mode: "free", Ctx: "none", Instant: "none"}, base, o, a); f != "" {
		ev.Fail(t, test, payload{Program: p, Plan: plan{Mode: "free", Ctx: "none", Instant: "none"}}, "uncancelled run on a fresh object: %s", f)
	}
	return p, base, true
}

func rerunPlan(t *rapid.T, p *program, procs int) *plan {
	if !p.Infinite {
		return nil
	}
	rp := plan{Mode: "strict", Ctx: "cancel", Instant: "k", K: drawK(t, p, -1), Procs: procs}
	if rapid.IntRange(0, 4).Draw(t, "rerunPre") == 0 {
		rp.Instant = "pre"
	}
	return &rp
}

func TestCancelStrict(t *testing.T) {
	rapid.Check(t, func(t *rapid.T) {
		p, base, ok := prepare(t, "TestCancelStrict", 300)
		if !ok {
			return
		}
		var T int64 = -1
		if base != nil {
			T = base.T
		}
		pl := drawStrict(t, p, T)
		pay := payload{Program: p, Plan: pl, PreRunSame: !p.Infinite && rapid.Bool().Draw(t, "preRunSame")}
		pay.Rerun = rerunPlan(t, p, pl.Procs)
		evaluate(t, "TestCancelStrict", pay, base)
	})
}

func TestCancelFree(t *testing.T) {
	rapid.Check(t, func(t *rapid.T) {
		p, base, ok := prepare(t, "TestCancelFree", 400)
		if !ok {
			return
		}
		var T int64 = -1
		if base != nil {
			T = base.T
		}
		pl := drawFree(t, p, T)
		pay := payload{Program: p, Plan: pl, PreRunSame: !p.Infinite && rapid.Bool().Draw(t, "preRunSame")}
		pay.Rerun = rerunPlan(t, p, pl.Procs)
		evaluate(t, "TestCancelFree", pay, base)
	})
}

// ---------- (6) cancel / re-run cycles on one object ----------

type op struct {
	Op   string `json:"op"` // run | cancel | set | get | setbad
	Plan *plan  `json:"plan,omitempty"`
	Name string `json:"name,omitempty"`
	Val  int64  `json:"val,omitempty"`
}

type machine struct {
	p       *program
	base    *baseline
	baseBy  map[string]string
	c       *tengo.Compiled
	names   []string
	known   map[string]string       // name -> description the next Get must return
	saved   map[string]tengo.Object // values replaced by "set" operations, put back before the next run
	inside  int
	cancels int
	runs    int
	classes []string
}

func splitGlobals(c *tengo.Compiled) map[string]string {
	out := map[string]string{}
	for _, v := range c.GetAll() {
		out[v.Name()] = describe(v.Object())
	}
	return out
}

func newMachine(p *program, base *baseline) (*machine, string) {
	c, err := compile(p)
	if err != nil {
		return nil, "does not compile"
	}
	m := &machine{p: p, base: base, c: c, known: map[string]string{}, saved: map[string]tengo.Object{}}
	_, m.names, _ = globalsOf(c)
	if base != nil {
		// what a complete run leaves behind, per name (from a fresh object)
		a, err := compile(p)
		if err != nil {
			return nil, "does not compile"
		}
		b, _, msg := measure(a, p)
		if msg != "" || b.Globals != base.Globals || b.ErrText != base.ErrText {
			return nil, "not deterministic across fresh objects"
		}
		m.baseBy = splitGlobals(a)
	}
	return m, ""
}

// restore puts back what "set" operations replaced: a run that fails before
// assigning a variable keeps whatever the variable held, so values planted by
// the harness must not survive into the runs that are compared.
func (m *machine) restore() string {
	msg := ""
	ok := guarded(func() {
		for n, obj := range m.saved {
			if err := m.c.Set(n, obj); err != nil {
				msg = fmt.Sprintf("Set(%q) failed: %v", n, err)
			}
		}
	})
	m.saved = map[string]tengo.Object{}
	if !ok {
		return "Set did not return within 10 s (lock still held?)"
	}
	return msg
}

func (m *machine) apply(o op) string {
	src := "\n--- source ---\n" + clip(m.p.Source)
	var T int64 = -1
	if m.base != nil {
		T = m.base.T
	}
	if o.Op == "run" || o.Op == "cancel" {
		if msg := m.restore(); msg != "" {
			return msg + src
		}
	}
	switch o.Op {
	case "run":
		b, out, msg := measure(m.c, m.p)
		if msg != "" {
			return "uncancelled run: " + msg + src
		}
		if f, _ := judge(m.p, plan{Mode: "free", Ctx: "none", Instant: "none"}, m.base, out, m.c); f != "" {
			return "uncancelled run: " + f + src
		}
		if b.ErrText != m.base.ErrText || b.Globals != m.base.Globals {
			return fmt.Sprintf("uncancelled run on the re-used object differs from a fresh object\n error: %q vs %q\n got:  %s\n want: %s%s",
				b.ErrText, m.base.ErrText, clip(b.Globals), clip(m.base.Globals), src)
		}
		m.known = map[string]string{}
		for k, d := range m.baseBy {
			m.known[k] = d
		}
		m.runs++
	case "cancel":
		if msg := resetInputs(m.c, m.p); msg != "" {
			return msg + src
		}
		getVar := "x"
		if len(m.names) > 0 {
			getVar = m.names[0]
		}
		out := runPlan(m.c, *o.Plan, getVar)
		f, finished := judge(m.p, *o.Plan, m.base, out, m.c)
		if f != "" {
			return f + src
		}
		m.known = map[string]string{}
		if finished {
			for k, d := range m.baseBy {
				m.known[k] = d
			}
		}
		m.cancels++
		if inside(m.p, *o.Plan, T, out, finished) {
			m.inside++
		}
		m.classes = append(m.classes, planClasses(m.p, *o.Plan, T, out, finished)...)
	case "set":
		var err error
		if !guarded(func() {
			if _, done := m.saved[o.Name]; !done {
				m.saved[o.Name] = m.c.Get(o.Name).Object()
			}
			err = m.c.Set(o.Name, o.Val)
		}) {
			return "Set did not return within 10 s (lock still held?)" + src
		}
		if err != nil {
			return fmt.Sprintf("Set(%q, %d) failed: %v%s", o.Name, o.Val, err, src)
		}
		m.known[o.Name] = fmt.Sprintf("int(%d)", o.Val)
	case "get":
		var got tengo.Object
		if !guarded(func() { got = m.c.Get(o.Name).Object() }) {
			return "Get did not return within 10 s (lock still held?)" + src
		}
		d := describe(got)
		if want, ok := m.known[o.Name]; ok && d != want {
			return fmt.Sprintf("Get(%q) = %s, expected %s%s", o.Name, d, want, src)
		}
	case "setbad":
		var err error
		if !guarded(func() { err = m.c.Set("c07_not_defined_anywhere", o.Val) }) {
			return "Set did not return within 10 s (lock still held?)" + src
		}
		if err == nil {
			return "Set of a name not defined at compile time returned no error" + src
		}
	}
	return ""
}

func TestCancelCycles(t *testing.T) {
	rapid.Check(t, func(t *rapid.T) {
		p, base, ok := prepare(t, "TestCancelStrict", 350)
		if !ok {
			return
		}
		m, why := newMachine(p, base)
		if why != "" {
			ev.Discard(why)
			return
		}
		var T int64 = -1
		if base != nil {
			T = base.T
		}
		var ops []op
		do := func(t *rapid.T, o op) {
			ops = append(ops, o)
			msg := m.apply(o)
			if isWatchdog(msg) {
				// a watchdog expiry is re-tried once (the whole sequence, on
				// a fresh object) before it is reported
				if m2, why := newMachine(p, base); why == "" {
					again := ""
					for _, x := range ops {
						if again = m2.apply(x); again != "" {
							break
						}
					}
					if again == "" {
						ev.Note("watchdog expired once, not reproduced on retry")
						*m, msg = *m2, ""
					} else if !isWatchdog(again) {
						msg = again
					}
				}
			}
			if msg != "" {
				ev.Fail(t, "TestCancelCycles", payload{Program: p, Ops: ops}, "after %d operations, %s: %s", len(ops), o.Op, msg)
			}
		}
		name := func(t *rapid.T) string {
			if len(m.names) == 0 {
				t.Skip("no variables")
			}
			return m.names[rapid.IntRange(0, len(m.names)-1).Draw(t, "name")]
		}
		t.Repeat(map[string]func(*rapid.T){
			"run": func(t *rapid.T) {
				if p.Infinite {
					t.Skip("non-terminating")
				}
				do(t, op{Op: "run"})
			},
			"cancelStrict": func(t *rapid.T) {
				pl := drawStrict(t, p, T)
				do(t, op{Op: "cancel", Plan: &pl})
			},
			"cancelFree": func(t *rapid.T) {
				pl := drawFree(t, p, T)
				do(t, op{Op: "cancel", Plan: &pl})
			},
			"set": func(t *rapid.T) {
				do(t, op{Op: "set", Name: name(t), Val: int64(rapid.IntRange(-3, 1000).Draw(t, "val"))})
			},
			"get": func(t *rapid.T) {
				do(t, op{Op: "get", Name: name(t)})
			},
			"setbad": func(t *rapid.T) {
				do(t, op{Op: "setbad", Val: 1})
			},
		})
		finishCycles(p, m, ops)
	})
}

func finishCycles(p *program, m *machine, ops []op) {
	key, _ := json.Marshal(payload{Program: p, Ops: ops})
	seen := map[string]bool{}
	var cl []string
	for _, c := range m.classes {
		if !seen[c] && !strings.HasPrefix(c, "latency:") && !strings.HasPrefix(c, "procs:") {
			seen[c] = true
			cl = append(cl, c)
		}
	}
	cl = append(cl, "cycles", fmt.Sprintf("cycles:cancelled-runs=%s", bucket(m.cancels)), fmt.Sprintf("cycles:uncancelled-runs=%s", bucket(m.runs)))
	ev.Case(string(key), m.cancels > 0 && (p.Infinite || m.inside > 0), cl...)
}

func bucket(n int) string {
	switch {
	case n == 0:
		return "0"
	case n <= 2:
		return "1-2"
	case n <= 8:
		return "3-8"
	}
	return ">8"
}

func replayCycles(t ev.TB, pay payload) {
	p := pay.Program
	var base *baseline
	if !p.Infinite {
		b, _, _, discard, fail := freshBaseline(p)
		if discard != "" {
			ev.Discard(discard)
			return
		}
		if fail != "" {
			ev.Fail(t, "TestCancelCycles", pay, "%s", fail)
			return
		}
		base = b
	}
	for attempt := 0; ; attempt++ {
		m, why := newMachine(p, base)
		if why != "" {
			ev.Discard(why)
			return
		}
		retry := false
		for i, o := range pay.Ops {
			if msg := m.apply(o); msg != "" {
				if isWatchdog(msg) && attempt == 0 {
					retry = true
					break
				}
				ev.Fail(t, "TestCancelCycles", payload{Program: p, Ops: pay.Ops[:i+1]}, "after %d operations, %s: %s", i+1, o.Op, msg)
				return
			}
		}
		if !retry {
			finishCycles(p, m, pay.Ops)
			return
		}
		ev.Note("watchdog expired once; sequence re-tried")
	}
}

// ---------- plain: every hand-written shape x every kind of instant ----------

func TestShapes(t *testing.T) {
	n := 0
	for si, sh := range infiniteShapes {
		for a := 0; a < 9; a++ {
			p := &program{Kind: sh.kind, Source: sh.src(a+si, 3*a+si), Modules: sh.mods, Infinite: true}
			if _, err := compile(p); err != nil {
				t.Fatalf("infinite shape %d/%d does not compile: %v\n%s", si, a, err, p.Source)
			}
			plans := []plan{
				{Mode: "strict", Ctx: "cancel", Instant: "pre", Procs: 2},
				{Mode: "free", Ctx: "cancel", Instant: "pre", Procs: 2},
				{Mode: "free", Ctx: "deadline", Instant: "pre", Procs: 2},
			}
			for _, k := range []int64{0, 1, 2, 3, 4, 5, 6, 7, 8, 9, 10, 11, 12, 13, 21, 34, 100, 333, 1000} {
				plans = append(plans, plan{Mode: "strict", Ctx: "cancel", Instant: "k", K: k, Procs: 2, LingerUS: 20 * int(k%3), Getter: k%2 == 0})
			}
			plans = append(plans,
				plan{Mode: "free", Ctx: "cancel", Instant: "k", K: int64(17 + a), Procs: 2},
				plan{Mode: "free", Ctx: "deadline", Instant: "k", K: int64(5 + a), Hold: true, TimeoutUS: 50, Procs: 2},
				plan{Mode: "free", Ctx: "deadline", Instant: "timer", TimeoutUS: 100 * a, Procs: 2})
			for _, pl := range plans {
				evaluate(t, "TestShapes", payload{Program: p, Plan: pl}, nil)
				n++
			}
		}
	}
	for si, sh := range finiteShapes {
		for _, a := range []int{0, 1, 2, 3, 4, 5, 40, 400, 1030, 1099} {
			p := &program{Kind: sh.kind, Source: sh.src(a, a+si)}
			c, err := compile(p)
			if err != nil {
				t.Fatalf("finite shape %d/%d does not compile: %v\n%s", si, a, err, p.Source)
			}
			base, _, msg := measure(c, p)
			if msg != "" {
				t.Fatalf("finite shape %d/%d: %s", si, a, msg)
			}
			T := base.T
			plans := []plan{
				{Mode: "strict", Ctx: "cancel", Instant: "pre", Procs: 2},
				{Mode: "free", Ctx: "cancel", Instant: "pre", Procs: 2},
				{Mode: "free", Ctx: "deadline", Instant: "pre", Procs: 2},
				{Mode: "strict", Ctx: "cancel", Instant: "after", Procs: 2},
				{Mode: "free", Ctx: "cancel", Instant: "finish", K: T - 1, Procs: 2},
				{Mode: "free", Ctx: "deadline", Instant: "timer", TimeoutUS: 30, Procs: 2},
			}
			ks := map[int64]bool{0: true, 1: true, 2: true, T / 3: true, T / 2: true, T - 2: true, T - 1: true}
			var sorted []int64
			for k := range ks {
				if k >= 0 && k < T {
					sorted = append(sorted, k)
				}
			}
			sort.Slice(sorted, func(i, j int) bool { return sorted[i] < sorted[j] })
			for _, k := range sorted {
				plans = append(plans,
					plan{Mode: "strict", Ctx: "cancel", Instant: "k", K: k, Procs: 2, LingerUS: 20, Getter: k%2 == 1},
					plan{Mode: "free", Ctx: "cancel", Instant: "k", K: k, Procs: 2, Yield: k%2 == 0},
					plan{Mode: "free", Ctx: "deadline", Instant: "k", K: k, Hold: true, TimeoutUS: 20, Procs: 2})
			}
			for i, pl := range plans {
				evaluate(t, "TestShapes", payload{Program: p, Plan: pl, PreRunSame: i%2 == 0}, base)
				n++
			}
		}
	}
	t.Logf("%d shape cases", n)
}

// ---------- replay / regressions / known findings ----------

func replayFile(t *testing.T, path string) {
	if ev.ReplayTest(path) == "TestEntryPoints" {
		var c entryCase
		if _, err := ev.LoadReplay(path, &c); err != nil {
			t.Fatalf("load %s: %v", path, err)
		}
		checkEntry(t, "TestEntryPoints", &c)
		return
	}
	var pay payload
	test, err := ev.LoadReplay(path, &pay)
	if err != nil {
		t.Fatalf("load %s: %v", path, err)
	}
	if pay.Program == nil {
		t.Fatalf("%s: no program in payload", path)
	}
	if test == "TestCancelCycles" || len(pay.Ops) > 0 {
		replayCycles(t, pay)
		return
	}
	evaluate(t, test, pay, nil)
}

func TestReplay(t *testing.T) {
	path := os.Getenv("VERIF_REPLAY")
	if path == "" {
		t.Skip("no VERIF_REPLAY")
	}
	replayFile(t, path)
}

func replayDir(kind string) []string {
	root := os.Getenv("VERIF_ROOT")
	if root == "" {
		root = "/verif"
	}
	files, _ := filepath.Glob(filepath.Join(root, "replays", "C07", kind, "*.json"))
	sort.Strings(files)
	return files
}

func TestRegressions(t *testing.T) {
	for _, f := range replayDir("fixed") {
		f := f
		t.Run(filepath.Base(f), func(t *testing.T) { replayFile(t, f) })
		ev.Note("regression replays run")
	}
}

// knownTB turns a failing oracle on an open finding into a KNOWN-FINDING line.
type knownTB struct {
	failed bool
	msg    string
}

func (k *knownTB) Fatalf(format string, args ...interface{}) {
	k.failed, k.msg = true, fmt.Sprintf(format, args...)
}

func TestKnownFindings(t *testing.T) {
	for _, f := range replayDir("open") {
		id := strings.SplitN(filepath.Base(f), "-", 2)[0]
		var pay payload
		test, err := ev.LoadReplay(f, &pay)
		if err != nil || pay.Program == nil {
			t.Fatalf("load %s: %v", f, err)
		}
		msg := ""
		if test == "TestCancelCycles" || len(pay.Ops) > 0 {
			k := &knownTB{}
			replayCycles(k, pay)
			msg = k.msg
		} else {
			msg = runCase(pay, nil).fail
		}
		if msg != "" {
			ev.Known(id, oneLine(msg))
		} else {
			ev.Note("open finding " + id + " no longer reproduces")
		}
	}
	_ = openFindings
}
