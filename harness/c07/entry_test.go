package c07

// The other context-aware entry points: Script.RunContext (compile + run in
// one call) and tengo.Eval (an expression with parameters) must honour the
// context exactly as Compiled.RunContext does - the other tests of this
// package all go through Compiled.RunContext. Non-terminating programs are
// run with a context that is cancelled before the call, at a probe-chosen
// instruction, or by a deadline: the call must return the context's error
// within the watchdog. Terminating programs with a context that never fires
// must return nil.

import (
	"context"
	"errors"
	"fmt"
	"sync/atomic"
	"testing"
	"time"

	"github.com/d5/tengo/v2"
	"pgregory.net/rapid"

	"verifharness/ev"
)

type entryCase struct {
	Entry   string `json:"entry"`   // script | eval
	Program string `json:"program"` // statements (script) or an expression (eval)
	Inf     bool   `json:"infinite"`
	How     string `json:"how"` // pre | probe | deadline | never
	K       int64  `json:"k"`   // probe: instruction count at which the context is cancelled
}

var entryInfinite = []string{
	"for {}",
	"x := 0\nfor { x += 1 }",
	"f := func(n) { return f(n + 1) }\nf(0)",
	"f := func(n) { f(n + 1) }\nf(0)",
	"for i := 0; i >= 0; i = (i + 1) % 7 { a := [i] }",
}

var entryFinite = []string{"x := 1 + 2", "x := 0\nfor i := 0; i < 50; i++ { x += i }", "f := func(n) { if n == 0 { return 0 }; return f(n - 1) }\nx := f(300)"}

var evalInfinite = []string{"(func() { for {} })()", "(func() { f := func(n) { return f(n + 1) }; return f(0) })()", "(func() { x := 0; for { x += p } })()"}

var evalFinite = []string{"p + 1", "(func() { s := 0; for i := 0; i < 40; i++ { s += p }; return s })()"}

func checkEntry(t ev.TB, test string, c *entryCase) {
	ctx, cancel := context.WithCancel(context.Background())
	defer cancel()
	switch c.How {
	case "pre":
		cancel()
	case "deadline":
		ctx, cancel = context.WithTimeout(context.Background(), time.Duration(1+c.K%20)*time.Millisecond)
		defer cancel()
	case "probe":
		var n int64
		tengo.VerifSetProbe(func(v *tengo.VM) {
			if atomic.AddInt64(&n, 1) == c.K+1 {
				cancel()
			}
		})
		defer tengo.VerifSetProbe(nil)
	}
	done := make(chan error, 1)
	go func() {
		defer func() {
			if r := recover(); r != nil {
				done <- fmt.Errorf("panic: %v", r)
			}
		}()
		if c.Entry == "eval" {
			_, err := tengo.Eval(ctx, c.Program, map[string]interface{}{"p": 3})
			done <- err
			return
		}
		_, err := tengo.NewScript([]byte(c.Program)).RunContext(ctx)
		done <- err
	}()
	var err error
	select {
	case err = <-done:
	case <-time.After(watchdog):
		tengo.VerifSetProbe(nil)
		ev.FailNow(test, c, fmt.Sprintf("%s with a context cancelled by %q did not return within %v\n--- program ---\n%s", map[string]string{"script": "Script.RunContext", "eval": "tengo.Eval"}[c.Entry], c.How, watchdog, c.Program))
		return
	}
	name := map[string]string{"script": "Script.RunContext", "eval": "tengo.Eval"}[c.Entry]
	switch {
	case c.How == "never":
		if err != nil {
			ev.Fail(t, test, c, "%s of a terminating program with a live context returned %v\n%s", name, err, c.Program)
			return
		}
	case c.Inf:
		// the program cannot finish: only the context's error is right. (A
		// terminating program may have finished by the time the cancelled
		// context is looked at - also with a context cancelled before the call:
		// "or the run's own result if it had already finished".)
		if err == nil || !(errors.Is(err, context.Canceled) || errors.Is(err, context.DeadlineExceeded)) {
			ev.Fail(t, test, c, "%s returned %v, not the context's error (context cancelled by %q)\n--- program ---\n%s", name, err, c.How, c.Program)
			return
		}
	default:
		// terminating program, context fired somewhere: the context's error or nil
		if err != nil && !(errors.Is(err, context.Canceled) || errors.Is(err, context.DeadlineExceeded)) {
			ev.Fail(t, test, c, "%s returned %v: neither nil nor the context's error\n%s", name, err, c.Program)
			return
		}
	}
	ev.Case(fmt.Sprintf("entry|%s|%s|%s|%d", c.Entry, c.Program, c.How, c.K), c.Inf, "entry:"+c.Entry, "entry-cancel:"+c.How)
}

func TestEntryPoints(t *testing.T) {
	rapid.Check(t, func(t *rapid.T) {
		c := &entryCase{Entry: rapid.SampledFrom([]string{"script", "eval"}).Draw(t, "entry")}
		c.Inf = rapid.IntRange(0, 3).Draw(t, "infinite") > 0
		pool := map[string]map[bool][]string{"script": {true: entryInfinite, false: entryFinite}, "eval": {true: evalInfinite, false: evalFinite}}[c.Entry][c.Inf]
		c.Program = rapid.SampledFrom(pool).Draw(t, "program")
		hows := []string{"pre", "probe", "probe", "deadline"}
		if !c.Inf {
			hows = append(hows, "never", "never")
		}
		c.How = rapid.SampledFrom(hows).Draw(t, "how")
		c.K = int64(rapid.IntRange(0, 400).Draw(t, "k"))
		checkEntry(t, "TestEntryPoints", c)
	})
}
