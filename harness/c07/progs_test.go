package c07

// Programs: hand-written non-terminating shapes (parametrised), long-running
// terminating shapes, and terminating programs from the grammar generator.

import (
	"fmt"
	"strings"

	"pgregory.net/rapid"

	"verifharness/ev"
	"verifharness/gen"
	"verifharness/lang"
	"verifharness/ref"
	"verifharness/refx"
)

// loop bodies over the global/local x (each keeps running forever when
// repeated; none is a single long native call)
var bodies = []string{
	`x++`,
	`x += 2`,
	`x = x + 1; if x > 1000 { x = 0 }`,
	`a := [x, x]; x = len(a) + x`,
	`s := string(x); x += len(s)`,
	`m := {a: x}; x = m.a + 1`,
	`if x % 2 == 0 { x++; continue }; x += 3`,
	`x = is_int(x) ? x + 1 : 0`,
	`t := func(y) { return y + 1 }; x = t(x)`,
	`x = len(format("%d", x)) + x`,
	`b := bytes("ab"); x += len(b)`,
	`e := error(x); x = e.value + 1`,
}

type shape struct {
	kind string
	src  func(a, b int) string // a, b: small drawn parameters
	mods map[string]string
}

func body(i int) string { return bodies[i%len(bodies)] }

// bodyNoLoop: a body usable outside a loop (no continue).
func bodyNoLoop(i int) string {
	b := body(i)
	if strings.Contains(b, "continue") {
		return bodies[0]
	}
	return b
}

var infiniteShapes = []shape{
	{kind: "inf-empty", src: func(a, b int) string {
		return []string{"for {}", "for true {}", "x := 0\nfor {}", "for ;; {}", "for x := 0; ; {}", "for 1 {}"}[a%6]
	}},
	{kind: "inf-body", src: func(a, b int) string {
		return "x := 0\nfor {\n" + lines(body(a)) + "\n}"
	}},
	{kind: "inf-body", src: func(a, b int) string {
		return "x := 0\nfor {\n" + lines(body(a)) + "\nif x != -1 {\n" + lines(body(b)) + "\n}\n}"
	}},
	{kind: "inf-body", src: func(a, b int) string {
		return fmt.Sprintf("x := 0\nfor i := 0; i >= 0; i = (i + 1) %% %d {\n%s\n}", 2+b%5, lines(body(a)))
	}},
	{kind: "inf-nested", src: func(a, b int) string {
		return fmt.Sprintf("x := 0\nfor {\nfor i := 0; i < %d; i++ {\n%s\n}\n}", 1+b%6, lines(body(a)))
	}},
	{kind: "inf-nested", src: func(a, b int) string {
		return []string{"for {\nfor {}\n}", "x := 0\nfor {\nfor {\nfor {\nx++\n}\n}\n}", "for {\nfor true {\nfor {}\n}\n}"}[a%3]
	}},
	{kind: "inf-nested", src: func(a, b int) string {
		return fmt.Sprintf("x := 0\nfor {\nfor {\nx++\nif x %% %d == 0 {\nbreak\n}\n}\n%s\n}", 2+b%7, lines(body(a)))
	}},
	{kind: "inf-forin", src: func(a, b int) string {
		it := []string{"[1, 2, 3]", "{a: 1, b: 2}", `"abc"`, `bytes("xyz")`, fmt.Sprintf("range(0, %d)", 1+b%9), "immutable([4, 5])", "[]"}[a%7]
		return fmt.Sprintf("x := 0\nfor {\nfor k, v in %s {\nx += 1\nif v == undefined {\nx++\n}\n}\n}", it)
	}},
	{kind: "inf-forin", src: func(a, b int) string {
		return fmt.Sprintf("x := 0\nfor {\nfor v in range(0, %d) {\n%s\n}\n}", 1+b%5, lines(body(a)))
	}},
	{kind: "inf-forin", src: func(a, b int) string {
		return fmt.Sprintf("x := 0\nfor v in range(0, %d) {\nfor {\n%s\n}\n}", 1+b%5, lines(body(a)))
	}},
	{kind: "inf-tailrec", src: func(a, b int) string {
		return []string{
			"f := func(n) {\nreturn f(n + 1)\n}\nf(0)",
			"f := func(n) {\nf(n + 1)\n}\nf(0)",
			"f := func(n, acc) {\nif n < 0 {\nreturn acc\n}\nreturn f(n + 1, acc + n)\n}\nr := f(0, 0)",
			"f := func(...a) {\nreturn f(len(a))\n}\nf()",
			"f := func() {\nreturn f()\n}\nr := f()",
			"mk := func() {\ng := func(n) {\nreturn g(n + 1)\n}\nreturn g\n}\nh := mk()\nh(0)",
			"f := func(n) {\nif n % 3 == 0 {\nreturn f(n + 1)\n} else if n % 3 == 1 {\nreturn f(n + 2)\n}\nreturn f(n + 3)\n}\nf(0)",
			"x := 0\nf := func(n) {\nx = n\nreturn f(n + 1)\n}\nf(0)",
		}[a%8]
	}},
	{kind: "inf-tailrec", src: func(a, b int) string {
		return fmt.Sprintf("x := 0\nf := func(n) {\n%s\nreturn f(n + 1)\n}\nf(0)", lines(bodyNoLoop(a)))
	}},
	{kind: "inf-in-func", src: func(a, b int) string {
		return []string{
			"f := func() {\nfor {}\n}\nf()",
			"f := func(x) {\nfor {\nx++\n}\n}\ng := func() {\nreturn f(1)\n}\ng()",
			"f := func() {\nc := 0\ninc := func() {\nc++\n}\nfor {\ninc()\n}\n}\nf()",
			"f := func(d) {\nif d == 0 {\nfor {}\n}\nreturn 1 + f(d - 1)\n}\nr := f(40)",
			"r := func() {\nfor {}\n}()",
		}[a%5]
	}},
	{kind: "inf-in-func", src: func(a, b int) string {
		return fmt.Sprintf("f := func(x) {\nfor {\n%s\n}\n}\nf(%d)", lines(body(a)), b)
	}},
	{kind: "inf-builtin", src: func(a, b int) string {
		return []string{
			fmt.Sprintf("x := 0\nfor {\nx = len(range(0, %d))\n}", 50+40*(b%10)),
			fmt.Sprintf("x := 0\ns := \"\"\nfor {\ns = format(\"%%0%dd\", x)\nx = len(s)\n}", 20+b%50),
			fmt.Sprintf("a := range(0, %d)\nx := 0\nfor {\nb := copy(a)\nx = len(b)\n}", 30+30*(b%10)),
			fmt.Sprintf("a := range(0, %d)\ns := \"\"\nfor {\ns = string(a)\n}", 20+20*(b%10)),
			"x := 0\nfor {\nx = int(string(x % 1000)) + 1\n}",
			fmt.Sprintf("a := range(0, %d)\nx := 0\nfor {\nx = len(append(a, 1, 2))\n}", 30+30*(b%10)),
		}[a%6]
	}},
	{kind: "inf-module", mods: map[string]string{"m1": "export {\nspin: func() {\nfor {}\n},\nrec: func(n) {\nf := func(n) {\nreturn f(n + 1)\n}\nreturn f(n)\n}\n}"},
		src: func(a, b int) string {
			return []string{"m := import(\"m1\")\nm.spin()", "m := import(\"m1\")\nr := m.rec(0)"}[a%2]
		}},
	{kind: "inf-module", mods: map[string]string{"m1": "x := 0\nfor {\nx++\n}\nexport x"},
		src: func(a, b int) string { return "y := 1\nm := import(\"m1\")" }},
}

var finiteShapes = []shape{
	{kind: "long-forin", src: func(a, b int) string {
		return fmt.Sprintf("s := 0\nfor v in range(0, %d) {\ns += v\n}", 1+a)
	}},
	{kind: "long-forin", src: func(a, b int) string {
		return fmt.Sprintf("s := 0\nfor i, v in range(0, %d, %d) {\nif v %% 3 == 0 {\ncontinue\n}\ns += i\n}\nt := s * 2", 1+a, 1+b%4)
	}},
	{kind: "long-forin", src: func(a, b int) string {
		return fmt.Sprintf("x := 0\nfor v in range(0, %d) {\n%s\n}", 1+a/4, lines(body(b)))
	}},
	{kind: "deep-rec", src: func(a, b int) string {
		return fmt.Sprintf("f := func(n) {\nif n == 0 {\nreturn 0\n}\nreturn 1 + f(n - 1)\n}\nr := f(%d)", 1+a%1100)
	}},
	{kind: "deep-rec", src: func(a, b int) string {
		return fmt.Sprintf("g := undefined\nf := func(n) {\nif n <= 0 {\nreturn [n]\n}\nreturn g(n - 1)\n}\ng = func(n) {\nr := f(n - 1)\nreturn r\n}\nr := f(%d)", 1+a%1100)
	}},
	{kind: "bounded-tailrec", src: func(a, b int) string {
		return fmt.Sprintf("f := func(n, acc) {\nif n == 0 {\nreturn acc\n}\nreturn f(n - 1, acc + n)\n}\nr := f(%d, 0)", 1+a)
	}},
	{kind: "long-loop", src: func(a, b int) string {
		return fmt.Sprintf("x := 0\nfor i := 0; i < %d; i++ {\n%s\n}", 1+a/4, lines(body(b)))
	}},
	{kind: "tiny", src: func(a, b int) string {
		return []string{"", "a := 1", "a := 1\nb := a + 1", "a := [1, 2][5]", "a := 1 + \"x\" - 2", "f := func() {\nreturn 1\n}\na := f()"}[a%6]
	}},
}

// uniform draws an (approximately) uniformly distributed value in [0, n):
// rapid's integer generators are heavily biased towards small values, which
// is wanted for sizes but not for choosing between classes of cases.
func uniform(t *rapid.T, label string, n int) int {
	x := rapid.Uint64().Draw(t, label)
	x += 0x9e3779b97f4a7c15
	x = (x ^ (x >> 30)) * 0xbf58476d1ce4e5b9
	x = (x ^ (x >> 27)) * 0x94d049bb133111eb
	x ^= x >> 31
	return int(x % uint64(n))
}

func lines(s string) string { return strings.ReplaceAll(s, "; ", "\n") }

func drawShape(t *rapid.T, shapes []shape, maxA int) *program {
	i := uniform(t, "shape", len(shapes))
	var a int
	if maxA < 100 || rapid.Bool().Draw(t, "aUniform") {
		a = uniform(t, "a", maxA+1)
	} else {
		a = rapid.IntRange(0, maxA).Draw(t, "a")
	}
	b := uniform(t, "b", 100)
	sh := shapes[i]
	return &program{Kind: sh.kind, Source: sh.src(a, b), Modules: sh.mods}
}

func drawInfinite(t *rapid.T) *program {
	p := drawShape(t, infiniteShapes, 47)
	p.Infinite = true
	return p
}

// drawGenerated draws a terminating program from the grammar generator; ""
// discard reason when it is in the property's domain.
func drawGenerated(t *rapid.T) (*program, string) {
	var inputs map[string]*lang.Val
	if uniform(t, "withInputs", 3) > 0 {
		inputs = gen.Inputs(t, true, false, false)
	} else {
		inputs = map[string]*lang.Val{}
	}
	o := gen.Opts{MaxStmts: 10, MaxDepth: 3, NoTime: true, NoMapIter: true, ControlHeavy: uniform(t, "controlHeavy", 3) > 0}
	if uniform(t, "withModules", 6) == 0 {
		o.Modules = []string{"m1"}
	}
	lp, _ := gen.Program(t, o, inputs)
	out, why := refx.Stable(lp, inputs, ref.DefaultConfig())
	if why != "" {
		return nil, why
	}
	if out.Stats.MapIters > 0 || out.Stats.MapOrders > 0 {
		// Go map order decides which element fails first and how many
		// instructions run: the run has no single "own result"
		return nil, "excluded:iterates a map with >= 2 keys"
	}
	if out.Status == "compile-error" {
		return nil, "excluded:compile-error (reference agrees)"
	}
	p := &program{Kind: "gen", Source: lang.Render(lp.Main), Inputs: inputs}
	if len(lp.Modules) > 0 {
		p.Kind = "gen+modules"
		p.Modules = map[string]string{}
		for k, b := range lp.Modules {
			p.Modules[k] = lang.Render(b)
		}
	}
	if len(inputs) > 0 {
		p.Kind += "+inputs"
	}
	return p, ""
}

// drawProgram: which fraction of cases is non-terminating is the caller's.
func drawProgram(t *rapid.T, infinitePermille int) (*program, string) {
	r := uniform(t, "progClass", 1000)
	switch {
	case r < infinitePermille:
		return drawInfinite(t), ""
	case r < infinitePermille+(1000-infinitePermille)*2/7:
		return drawShape(t, finiteShapes, 2999), ""
	}
	p, why := drawGenerated(t)
	if why != "" {
		ev.Discard(why)
	}
	return p, why
}
