package c07

// The harness-owned cancellation schedule: a VM probe that counts dispatched
// instructions and acts at instruction K of a run, plus the bookkeeping the
// oracle needs (when Abort became visible, what was dispatched afterwards,
// whether RunContext returned or the Compiled's lock became free while the VM
// goroutine was provably still inside run()).

import (
	"context"
	"errors"
	"fmt"
	"regexp"
	"runtime"
	"sort"
	"strings"
	"sync"
	"sync/atomic"
	"time"

	"github.com/d5/tengo/v2"

	"verifharness/bridge"
	"verifharness/lang"
	"verifharness/tv"
)

// program is one script under test (rendered; re-runnable without rapid).
type program struct {
	Kind     string               `json:"kind"`
	Source   string               `json:"source"`
	Modules  map[string]string    `json:"modules,omitempty"`
	Inputs   map[string]*lang.Val `json:"inputs,omitempty"`
	Infinite bool                 `json:"infinite"`
}

// plan is one cancellation schedule.
type plan struct {
	Mode      string `json:"mode"`                 // strict | free
	Ctx       string `json:"ctx"`                  // cancel | deadline | none
	Instant   string `json:"instant"`              // pre | k | finish | timer | after | none
	K         int64  `json:"k"`                    // instruction index (0-based) at which the probe acts (k, finish)
	TimeoutUS int    `json:"timeout_us,omitempty"` // deadline contexts
	Hold      bool   `json:"hold,omitempty"`       // deadline: the probe keeps instruction K waiting until the deadline has passed
	Yield     bool   `json:"yield,omitempty"`      // free: runtime.Gosched() in the probe right after cancelling
	LingerUS  int    `json:"linger_us,omitempty"`  // strict: keep the VM goroutine inside instruction K this long after Abort became visible, watching for an early return / a free lock
	Getter    bool   `json:"getter,omitempty"`     // start a concurrent Compiled.Get at instruction K (must block until the run is over)
	Procs     int    `json:"procs,omitempty"`      // GOMAXPROCS for the case (0 = leave)
}

const (
	watchdog       = 10 * time.Second // "the call returns" (the property itself)
	strictWait     = 5 * time.Second  // how long the probe waits for Abort to become visible
	postAbortLimit = 6                // instructions tolerated after Abort became visible before the probe unwinds the VM
	afterRetLimit  = 64
)

var errForcedStop = errors.New("c07: VM goroutine unwound by the harness probe")

// stale VMs: VM goroutines that survived their case (only after a violation);
// the next installed probe unwinds them so that shrinking sees a clean process.
var (
	staleMu    sync.Mutex
	staleVMs   = map[*tengo.VM]bool{}
	staleCount int64
)

func markStale(v *tengo.VM) {
	if v == nil {
		return
	}
	staleMu.Lock()
	staleVMs[v] = true
	atomic.StoreInt64(&staleCount, int64(len(staleVMs)))
	staleMu.Unlock()
}

func isStale(v *tengo.VM) bool {
	staleMu.Lock()
	defer staleMu.Unlock()
	return staleVMs[v]
}

// outcome of one scheduled run.
type outcome struct {
	Hung          bool   // RunContext had not returned when the watchdog expired
	Err           error  // what RunContext returned
	ErrText       string //
	CtxErr        error  // ctx.Err() right after the return
	N             int64  // instructions dispatched by the run
	Fired         bool   // the probe reached instruction K and acted
	AbortSeen     bool   // the probe saw VerifAborting() == true
	AbortSeenAt   int64  // instruction index at which it first did
	PostAbort     int64  // instructions dispatched after that one
	StrictExpired bool   // strict wait ended without Abort becoming visible
	AfterReturn   int64  // instructions dispatched after RunContext had returned
	EarlyReturn   bool   // RunContext returned while the probe held the VM goroutine inside run()
	GetEarly      bool   // a concurrent Compiled.Get completed while the VM goroutine was inside run()
	GetStuck      bool   // the concurrent Get never completed
	Forced        bool   // the probe unwound the VM goroutine
	Foreign       int64  // probe calls from another VM
	LatencyNS     int64  // cancel -> return (evidence only)
	GoBefore      int    // runtime.NumGoroutine() before the call
	GoAfter       int    // ... after polling
	LeakDump      string // goroutines with tengo frames that survived the call
}

type sched struct {
	pl     plan
	c      *tengo.Compiled
	ctx    context.Context
	cancel context.CancelFunc
	getVar string

	vm       *tengo.VM
	n        int64
	returned int64 // atomic: RunContext has returned
	kill     int64 // atomic: unwind the VM at the next instruction
	getDone  int64 // atomic
	getCh    chan struct{}
	asyncCh  chan struct{}
	fireNS   int64 // atomic: unix nanos of the cancellation
	o        *outcome
}

func (s *sched) doCancel() {
	atomic.CompareAndSwapInt64(&s.fireNS, 0, time.Now().UnixNano())
	s.cancel()
}

// probe runs on the VM goroutine, once per dispatched instruction.
func (s *sched) probe(v *tengo.VM) {
	if atomic.LoadInt64(&staleCount) > 0 && isStale(v) {
		panic(errForcedStop)
	}
	if s.vm == nil {
		s.vm = v
	} else if s.vm != v {
		atomic.AddInt64(&s.o.Foreign, 1)
		return
	}
	o := s.o
	idx := s.n
	s.n++
	atomic.StoreInt64(&o.N, s.n)
	if atomic.LoadInt64(&s.kill) != 0 {
		o.Forced = true
		panic(errForcedStop)
	}
	if atomic.LoadInt64(&s.returned) != 0 {
		// RunContext has returned, yet this VM dispatches an instruction
		if atomic.AddInt64(&o.AfterReturn, 1) > afterRetLimit {
			o.Forced = true
			panic(errForcedStop)
		}
	}
	if atomic.LoadInt64(&s.getDone) != 0 {
		o.GetEarly = true // Get returned while this goroutine is inside run()
	}
	if o.AbortSeen {
		o.PostAbort++
		if o.PostAbort >= postAbortLimit {
			o.Forced = true
			panic(errForcedStop)
		}
		return
	}
	act := false
	switch s.pl.Instant {
	case "pre":
		act = s.pl.Mode == "strict" && idx == 0
	case "k", "finish":
		act = idx == s.pl.K
	}
	if !act {
		if v.VerifAborting() {
			o.AbortSeen, o.AbortSeenAt = true, idx
		}
		return
	}
	o.Fired = true
	if s.pl.Getter && s.getCh == nil {
		s.getCh = make(chan struct{})
		go func() {
			_ = s.c.Get(s.getVar)
			atomic.StoreInt64(&s.getDone, 1)
			close(s.getCh)
		}()
	}
	switch {
	case s.pl.Instant == "pre":
		// context already cancelled: nothing to trigger
	case s.pl.Instant == "finish":
		s.asyncCh = make(chan struct{})
		go func() {
			s.doCancel()
			close(s.asyncCh)
		}()
	case s.pl.Ctx == "deadline":
		if s.pl.Hold {
			t0 := time.Now()
			for s.ctx.Err() == nil && time.Since(t0) < strictWait {
				runtime.Gosched()
			}
			atomic.CompareAndSwapInt64(&s.fireNS, 0, time.Now().UnixNano())
		}
	default:
		s.doCancel()
	}
	if s.pl.Mode != "strict" {
		if s.pl.Yield {
			runtime.Gosched()
		}
		if v.VerifAborting() {
			o.AbortSeen, o.AbortSeenAt = true, idx
		}
		return
	}
	// strict: the abort must land exactly here
	t0 := time.Now()
	for !v.VerifAborting() {
		if time.Since(t0) > strictWait {
			o.StrictExpired = true
			return
		}
		if atomic.LoadInt64(&s.getDone) != 0 {
			o.GetEarly = true
		}
		if atomic.LoadInt64(&s.kill) != 0 {
			o.Forced = true
			panic(errForcedStop)
		}
		runtime.Gosched()
	}
	o.AbortSeen, o.AbortSeenAt = true, idx
	// this goroutine is inside run(): RunContext must still be waiting for it
	// and the Compiled must still be locked
	t1 := time.Now()
	for {
		if atomic.LoadInt64(&s.returned) != 0 {
			o.EarlyReturn = true
			break
		}
		if atomic.LoadInt64(&s.getDone) != 0 {
			o.GetEarly = true
			break
		}
		if time.Since(t1) >= time.Duration(s.pl.LingerUS)*time.Microsecond {
			break
		}
		runtime.Gosched()
	}
}

var (
	vmFrame    = regexp.MustCompile(`(?m)^github\.com/d5/tengo/v2\.\(\*VM\)\.`)
	tengoFrame = regexp.MustCompile(`(?m)^github\.com/d5/tengo/v2\.`)
)

// leakedGoroutines inspects a full goroutine dump. RunContext returns only
// after it received the VM's result, so once it has returned no goroutine may
// be inside a (*VM) method. (The goroutine RunContext started may still be
// on its way out - in the closure or its deferred recover - right after the
// return; that is not a leak.) When unsettled is set - NumGoroutine did not
// come back to its value from before the call within the polling bound - any
// goroutine that runs tengo code or was created by tengo code counts.
func leakedGoroutines(unsettled bool) string {
	buf := make([]byte, 1<<16)
	for {
		n := runtime.Stack(buf, true)
		if n < len(buf) {
			buf = buf[:n]
			break
		}
		buf = make([]byte, 2*len(buf))
	}
	var out []string
	for _, g := range strings.Split(string(buf), "\n\n") {
		body := g
		created := ""
		if i := strings.Index(g, "\ncreated by "); i >= 0 {
			body, created = g[:i], g[i+1:]
		}
		if vmFrame.MatchString(body) ||
			(unsettled && (tengoFrame.MatchString(body) || strings.HasPrefix(created, "created by github.com/d5/tengo/v2."))) {
			out = append(out, g)
		}
	}
	return strings.Join(out, "\n\n")
}

func setProcs(n int) {
	if n > 0 && runtime.GOMAXPROCS(0) != n {
		runtime.GOMAXPROCS(n)
	}
}

// runPlan performs one RunContext call on c under the schedule pl.
func runPlan(c *tengo.Compiled, pl plan, getVar string) *outcome {
	setProcs(pl.Procs)
	o := &outcome{AbortSeenAt: -1}
	s := &sched{pl: pl, c: c, o: o, getVar: getVar}
	switch {
	case pl.Ctx == "none":
		s.ctx, s.cancel = context.WithCancel(context.Background())
	case pl.Ctx == "deadline" && pl.Instant == "pre":
		s.ctx, s.cancel = context.WithDeadline(context.Background(), time.Now().Add(-time.Second))
	case pl.Ctx == "deadline":
		s.ctx, s.cancel = context.WithTimeout(context.Background(), time.Duration(pl.TimeoutUS)*time.Microsecond)
	default:
		s.ctx, s.cancel = context.WithCancel(context.Background())
		if pl.Instant == "pre" {
			s.cancel()
		}
	}
	defer s.cancel()
	if pl.Instant == "pre" {
		<-s.ctx.Done()
	}
	o.GoBefore = runtime.NumGoroutine()
	tengo.VerifSetProbe(s.probe)
	defer tengo.VerifSetProbe(nil)

	type ret struct {
		err    error
		ctxErr error
		at     int64
	}
	var r ret
	done := make(chan struct{})
	go func() {
		err := c.RunContext(s.ctx)
		atomic.StoreInt64(&s.returned, 1)
		r = ret{err, s.ctx.Err(), time.Now().UnixNano()}
		close(done)
	}()
	if !await(done) {
		o.Hung = true
		atomic.StoreInt64(&s.kill, 1)
		s.cancel()
		if !await(done) {
			markStale(s.vm)
			o.Err = errors.New("c07: no return even after unwinding")
			o.ErrText = o.Err.Error()
			return o
		}
	}
	o.Err, o.CtxErr = r.err, r.ctxErr
	if r.err != nil {
		o.ErrText = r.err.Error()
	}
	if f := atomic.LoadInt64(&s.fireNS); f != 0 && r.at >= f {
		o.LatencyNS = r.at - f
	}
	if pl.Instant == "after" {
		s.cancel()
	}
	// join the harness's own helper goroutines
	if s.asyncCh != nil {
		<-s.asyncCh
	}
	if s.getCh != nil && !await(s.getCh) {
		o.GetStuck = true
	}
	// (4) no goroutine left behind
	t0 := time.Now()
	for polls := 0; ; polls++ {
		o.GoAfter = runtime.NumGoroutine()
		if o.GoAfter <= o.GoBefore || (time.Since(t0) > 2*time.Second && polls > 500) {
			break
		}
		runtime.Gosched()
		if polls > 50 {
			time.Sleep(200 * time.Microsecond)
		}
	}
	o.LeakDump = leakedGoroutines(o.GoAfter > o.GoBefore)
	if o.LeakDump != "" {
		markStale(s.vm)
	}
	o.N = atomic.LoadInt64(&o.N)
	return o
}

// ---------- compiling, inputs, observations ----------

func compile(p *program) (*tengo.Compiled, error) {
	s := tengo.NewScript([]byte(p.Source))
	mm := tengo.NewModuleMap()
	for name, src := range p.Modules {
		mm.AddSourceModule(name, []byte(src))
	}
	s.SetImports(mm)
	memo := map[int]tengo.Object{}
	for _, k := range inputNames(p) {
		if err := s.Add(k, bridge.ToObject(p.Inputs[k], memo)); err != nil {
			return nil, err
		}
	}
	return s.Compile()
}

func inputNames(p *program) []string {
	names := make([]string, 0, len(p.Inputs))
	for k := range p.Inputs {
		names = append(names, k)
	}
	sort.Strings(names)
	return names
}

// guarded runs f with the watchdog: a Compiled whose lock was never released
// must show up as a verdict, not as a stuck test process.
func guarded(f func()) bool {
	done := make(chan struct{})
	go func() {
		f()
		close(done)
	}()
	return await(done)
}

// await is the watchdog: it waits for done during 100 observed ticks of
// 100 ms. Counting ticks this goroutine actually received (a Ticker drops the
// ticks nobody collects) rather than reading the clock once keeps a test
// process that was not scheduled for seconds - the machine may be heavily
// oversubscribed - from reading its own starvation as "the call does not
// return"; done is preferred when both are ready.
func await(done <-chan struct{}) bool {
	tick := time.NewTicker(watchdog / 100)
	defer tick.Stop()
	for i := 0; i < 100; i++ {
		select {
		case <-done:
			return true
		default:
		}
		select {
		case <-done:
			return true
		case <-tick.C:
		}
	}
	select {
	case <-done:
		return true
	default:
		return false
	}
}

// resetInputs gives every host input a fresh value again (a previous run may
// have mutated or re-assigned them). It returns "" or what went wrong.
func resetInputs(c *tengo.Compiled, p *program) string {
	msg := ""
	ok := guarded(func() {
		memo := map[int]tengo.Object{}
		for _, k := range inputNames(p) {
			if err := c.Set(k, bridge.ToObject(p.Inputs[k], memo)); err != nil {
				msg = fmt.Sprintf("Set(%q) failed: %v", k, err)
				return
			}
		}
	})
	if !ok {
		return "Compiled.Set did not return within 10 s (lock still held?)"
	}
	return msg
}

// describe renders a value like tv.Describe, but within a node budget: the
// values of generated programs can be small DAGs whose tree expansion is
// exponential (v = [v, v] in a loop). Over budget it returns tooLarge.
const (
	tooLarge   = "<TOO-LARGE>"
	descBudget = 20000
)

type describer struct {
	sb   strings.Builder
	left int
}

func (d *describer) seq(tag string, xs []tengo.Object, depth int) bool {
	d.sb.WriteString(tag + "[")
	for i, x := range xs {
		if i > 0 {
			d.sb.WriteString(", ")
		}
		if !d.walk(x, depth+1) {
			return false
		}
	}
	d.sb.WriteString("]")
	return true
}

func (d *describer) dict(tag string, m map[string]tengo.Object, depth int) bool {
	keys := make([]string, 0, len(m))
	for k := range m {
		keys = append(keys, k)
	}
	sort.Strings(keys)
	d.sb.WriteString(tag + "{")
	for i, k := range keys {
		if i > 0 {
			d.sb.WriteString(", ")
		}
		fmt.Fprintf(&d.sb, "%q: ", k)
		if !d.walk(m[k], depth+1) {
			return false
		}
	}
	d.sb.WriteString("}")
	return true
}

func (d *describer) walk(o tengo.Object, depth int) bool {
	d.left--
	if d.left < 0 {
		return false
	}
	if depth > 64 {
		d.sb.WriteString("<DEEP>")
		return true
	}
	switch v := o.(type) {
	case *tengo.Array:
		return d.seq("array", v.Value, depth)
	case *tengo.ImmutableArray:
		return d.seq("imm-array", v.Value, depth)
	case *tengo.Map:
		return d.dict("map", v.Value, depth)
	case *tengo.ImmutableMap:
		return d.dict("imm-map", v.Value, depth)
	case *tengo.Error:
		d.sb.WriteString("error(")
		if !d.walk(v.Value, depth+1) {
			return false
		}
		d.sb.WriteString(")")
		return true
	}
	d.sb.WriteString(tv.Describe(o))
	return true
}

func describe(o tengo.Object) string {
	d := &describer{left: descBudget}
	if !d.walk(o, 0) {
		return tooLarge
	}
	return d.sb.String()
}

// globalsOf describes all variables of c. Only the call that needs the
// object's lock runs under the watchdog; rendering does not.
func globalsOf(c *tengo.Compiled) (desc string, names []string, stuck bool) {
	var vars []*tengo.Variable
	if !guarded(func() { vars = c.GetAll() }) {
		return "", nil, true
	}
	by := map[string]tengo.Object{}
	for _, v := range vars {
		by[v.Name()] = v.Object()
		names = append(names, v.Name())
	}
	sort.Strings(names)
	var sb strings.Builder
	for _, n := range names {
		sb.WriteString(n + "=" + describe(by[n]) + ";")
	}
	return sb.String(), names, false
}

// baseline is the uncancelled behaviour of a program.
type baseline struct {
	T       int64    `json:"t"`
	ErrText string   `json:"err"`
	Globals string   `json:"globals"`
	Names   []string `json:"-"`
}

// measure runs c to completion (fresh inputs, no cancellation) counting the
// dispatched instructions.
func measure(c *tengo.Compiled, p *program) (*baseline, *outcome, string) {
	if msg := resetInputs(c, p); msg != "" {
		return nil, nil, msg
	}
	o := runPlan(c, plan{Mode: "free", Ctx: "none", Instant: "none"}, "")
	if o.Hung {
		return nil, o, "uncancelled run did not return within 10 s"
	}
	g, names, stuck := globalsOf(c)
	if stuck {
		return nil, o, "GetAll did not return within 10 s after an uncancelled run"
	}
	return &baseline{T: o.N, ErrText: o.ErrText, Globals: g, Names: names}, o, ""
}
