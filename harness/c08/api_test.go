package c08

import (
	"context"
	"fmt"
	"runtime"
	"sort"
	"strings"
	"time"

	"github.com/d5/tengo/v2"
	"pgregory.net/rapid"

	"verifharness/bridge"
	"verifharness/lang"
)

// API schedules on ONE compiled object.
//
// Deterministic schedules (Free == false) are built so that every observable
// has exactly one correct value (or a small, enumerable set) whatever the
// interleaving: goroutine g Sets and Gets only its own spare variable sp<g>
// (declared with Script.Add, never referenced by the program), the program's
// inputs are not Set while the schedule runs, Run calls are serialised by the
// object's lock so the final globals are those after T sequential runs, and a
// Clone taken at any moment is the state after j of the T runs for some j.
// Free schedules additionally Set inputs, Set/Get any spare and replace the
// builtin module while others run: their results depend on the interleaving,
// so only race-freedom, absence of panics and the set of names are checked.

func spareName(g int) string { return fmt.Sprintf("sp%d", g) }

func isSpare(name string) bool { return strings.HasPrefix(name, "sp") && len(name) == 3 }

var spareVals = []*lang.Val{
	vInt(0), vInt(7), vInt(-3), vStr("x"), vStr("héllo"), {T: "undefined"}, {T: "bool", B: true},
	{T: "array", Kids: []*lang.Val{vInt(1), vStr("a")}}, {T: "map", Keys: []string{"k"}, Kids: []*lang.Val{vInt(2)}},
	{T: "float", Bits: 0x4004000000000000},
}

func genAPI(t *rapid.T) *payload {
	tp := genTemplateProgram(t, rapid.IntRange(0, 4).Draw(t, "apiErr") == 0)
	p := &payload{Kind: "api", Family: "template", Source: tp.src.String(), Modules: tp.mods}
	if tp.lowLimit {
		p.MaxStrLen = 256
	}
	if raceEnabled {
		p.Free = rapid.IntRange(0, 1).Draw(t, "free") == 0
	} else {
		p.Free = rapid.IntRange(0, 7).Draw(t, "free") == 0
	}
	// Free schedules Set inputs while others run. So that the twin's
	// sequential runs still tell exactly which runs fail and which touch a
	// shared string (the known-finding guards), such a Set never changes the
	// control flow: all values are well typed and in0 (the only input a
	// condition looks at) is left alone.
	p.Base = tplInputs(t, !p.Free)
	ng := rapid.IntRange(2, 4).Draw(t, "goroutines")
	for g := 0; g < 4; g++ {
		p.Base[spareName(g)] = vInt(int64(g))
	}
	p.RunFirst = rapid.IntRange(0, 2).Draw(t, "runFirst") == 0
	p.OnClone = rapid.Bool().Draw(t, "onClone")
	progVars := programVars(p.Source)
	runs, maxRuns := 0, 6
	if raceEnabled {
		maxRuns = 3 // see drawRuns
	}
	for g := 0; g < ng; g++ {
		var ops []apiOp
		n := rapid.IntRange(1, 5).Draw(t, "nOps")
		for i := 0; i < n; i++ {
			kinds := []string{"run", "run", "run", "runctx", "set", "set", "set", "get", "get", "get", "isdef", "getall", "getall", "clone", "clone", "getp", "getp", "isdefp"}
			if p.Free {
				kinds = append(kinds, "setin", "setin", "setin", "replace", "set", "get", "runcancel", "runcancel")
			}
			op := apiOp{Op: kinds[rapid.IntRange(0, len(kinds)-1).Draw(t, "op")]}
			switch op.Op {
			case "run", "runctx":
				if runs >= maxRuns {
					op.Op = "get"
				} else {
					runs++
				}
			}
			switch op.Op {
			case "set", "get", "isdef":
				op.Name = spareName(g)
				if p.Free && rapid.IntRange(0, 2).Draw(t, "foreignSpare") == 0 {
					op.Name = spareName(rapid.IntRange(0, 3).Draw(t, "whichSpare"))
				}
				if op.Op == "set" {
					op.Val = spareVals[rapid.IntRange(0, len(spareVals)-1).Draw(t, "spareVal")]
				}
			case "getp", "isdefp":
				if len(progVars) == 0 {
					op.Op, op.Name = "get", spareName(g)
				} else {
					op.Name = progVars[rapid.IntRange(0, len(progVars)-1).Draw(t, "progVar")]
				}
			case "setin":
				in := tplInputs(t, false)
				op.Name = []string{"in1", "in2", "in3"}[rapid.IntRange(0, 2).Draw(t, "whichIn")]
				op.Val = in[op.Name]
			case "replace":
				op.N = int64(100 + g)
			case "runcancel":
				// a RunContext whose context expires before, during or after
				// the run; whatever it left behind, the calls that follow on the
				// same object must not overlap with its VM
				op.N = int64(rapid.IntRange(0, 400).Draw(t, "cancelAfterMicros"))
			}
			ops = append(ops, op)
		}
		p.API = append(p.API, ops)
	}
	if runs == 0 {
		p.API[0] = append(p.API[0], apiOp{Op: "run"})
	}
	p.Yield = drawYield(t)
	return p
}

// programVars lists the root-level names a template program defines
// (template programs define them as `name := …` at the start of a line).
func programVars(src string) []string {
	seen := map[string]bool{}
	for _, line := range strings.Split(src, "\n") {
		if i := strings.Index(line, " := "); i > 0 && lang.IsPlainIdent(line[:i]) {
			seen[line[:i]] = true
		}
	}
	for _, in := range []string{"in0", "in1", "in2", "in3"} {
		seen[in] = true
	}
	return sortedKeys(seen)
}

type apiObs struct {
	op     apiOp
	desc   string   // get: value; isdef: "true"/"false"; run: error text
	names  []string // getall
	own    string   // getall / clone: description of the goroutine's own spare
	snapB  snapshot // clone: right after Clone
	snapE  string   // clone: result of running the clone once
	snapA  snapshot // clone: after that run
	panics string
}

// skipSpares is the diffSnap filter that leaves the spare variables out.
func skipSpares(name string) bool { return isSpare(name) }

func checkAPI(p *payload) (v verdict) {
	build := func() (*tengo.Compiled, string) {
		c, err := compile(p)
		if err != nil {
			return nil, err.Error()
		}
		if p.RunFirst {
			runOnce(c, false)
		}
		if p.OnClone {
			c = c.Clone()
		}
		return c, ""
	}
	tw, bad := build()
	if bad != "" {
		v.infra = "template program does not compile: " + bad
		return
	}
	obj, bad := build()
	if bad != "" {
		v.infra = "second compilation failed: " + bad
		return
	}
	bc := bytecodeOf(tw)
	if bc == nil {
		v.infra = "cannot reach Compiled.bytecode (field renamed?)"
		return
	}
	shared := sharedStrings(bc)
	multiFile := bc.FileSet != nil && len(bc.FileSet.Files) > 1

	total, replaces, hasClone := 0, 0, false
	for _, g := range p.API {
		for _, o := range g {
			switch o.Op {
			case "run", "runctx":
				total++
			case "clone":
				hasClone = true
			case "replace":
				replaces++
			}
		}
	}

	// sequential expectations on the twin: state after j = 0..T runs, and
	// what a clone taken there looks like before / after one run of its own
	var st, stClone runStats
	snapB := make([]snapshot, total+1)
	snapA := make([]snapshot, total+1)
	snapE := make([]string, total+1)
	runErr := make([]string, 0, total)
	for j := 0; j <= total; j++ {
		if hasClone {
			c := tw.Clone()
			snapB[j] = describeAll(c)
			tengo.VerifSetProbe(probeFor(&stClone, bc, shared))
			snapE[j] = runOnce(c, false)
			tengo.VerifSetProbe(nil)
			snapA[j] = describeAll(c)
			if snapE[j] != "" {
				stClone.errRuns++
			}
		}
		if j < total {
			tengo.VerifSetProbe(probeFor(&st, bc, shared))
			e := runOnce(tw, false)
			tengo.VerifSetProbe(nil)
			runErr = append(runErr, e)
			if e != "" {
				st.errRuns++
			}
		}
	}
	final := describeAll(tw)
	v.stats = []runStats{st, stClone}

	// known findings: two VMs run at the same time only when a snapshot
	// clone runs while the object (or another snapshot) runs
	if guard(f24) && hasClone && (replaces >= 2 || (replaces == 1 && !p.OnClone)) {
		// a replacement on an object that owns its bytecode while
		// snapshots sharing that bytecode exist or are being taken
		v.discard = "known:" + f24
		return
	}
	if hasClone {
		if guard(f12) && stClone.f12 {
			v.discard = "known:" + f12
			return
		}
		if guard(f13) && multiFile && stClone.errRuns > 0 {
			v.discard = "known:" + f13
			return
		}
	}

	// concurrent phase
	obs := make([][]apiObs, len(p.API))
	if p.Yield > 0 {
		tengo.VerifSetProbe(yieldProbe(p.Yield))
	}
	start := make(chan struct{})
	done := make(chan int, len(p.API))
	for g := range p.API {
		obs[g] = make([]apiObs, len(p.API[g]))
		go func(g int) {
			defer func() { done <- g }()
			<-start
			for i, op := range p.API[g] {
				obs[g][i] = doOp(obj, g, op)
				if p.Yield > 0 {
					runtime.Gosched()
				}
			}
		}(g)
	}
	close(start)
	timer := time.NewTimer(watchdog)
	for n := 0; n < len(p.API); n++ {
		select {
		case <-done:
		case <-timer.C:
			tengo.VerifSetProbe(nil)
			v.infra = "watchdog: API schedule did not finish (deadlock?)"
			return
		}
	}
	timer.Stop()
	tengo.VerifSetProbe(nil)
	got := describeAll(obj)

	// evaluation
	for g := range obs {
		for i, o := range obs[g] {
			if o.panics != "" {
				v.fail = fmt.Sprintf("goroutine %d op %d (%s %s) panicked: %s", g, i, o.op.Op, o.op.Name, o.panics)
				return
			}
		}
	}
	wantNames := sortedKeys(final)
	if strings.Join(sortedKeys(got), ",") != strings.Join(wantNames, ",") {
		v.fail = fmt.Sprintf("set of variable names changed: %v, expected %v", sortedKeys(got), wantNames)
		return
	}
	if !p.Free {
		if msg := evalDeterministic(p, obs, got, final, snapB, snapE, snapA, runErr); msg != "" {
			v.fail = msg
			return
		}
	}

	cls := map[string]bool{"family:" + p.Family: true, fmt.Sprintf("goroutines:%d", len(p.API)): true}
	for _, g := range p.API {
		for _, o := range g {
			cls["op:"+o.Op] = true
		}
	}
	if p.Free {
		cls["schedule:free"] = true
	} else {
		cls["schedule:deterministic"] = true
	}
	if p.OnClone {
		cls["object-is-a-clone"] = true
	}
	if multiFile {
		cls["multi-file"] = true
	}
	if st.errRuns > 0 {
		cls["run-time-error"] = true
	}
	others := 0
	for _, g := range p.API {
		if len(g) > 0 {
			others++
		}
	}
	v.nt = others >= 2 && total >= 1 && st.steps/total >= 50
	v.classes = sortedKeys(cls)
	return
}

func doOp(obj *tengo.Compiled, g int, op apiOp) (o apiObs) {
	o.op = op
	defer func() {
		if r := recover(); r != nil {
			o.panics = fmt.Sprint(r)
		}
	}()
	own := spareName(g)
	switch op.Op {
	case "run":
		o.desc = runOnce(obj, false)
	case "runctx":
		o.desc = runOnce(obj, true)
	case "runcancel":
		ctx, cancel := context.WithTimeout(context.Background(), time.Duration(op.N)*time.Microsecond)
		_ = obj.RunContext(ctx) // context error, script error or nil: all legitimate
		cancel()
	case "set", "setin":
		if err := obj.Set(op.Name, bridge.ToObject(op.Val, map[int]tengo.Object{})); err != nil {
			o.panics = "Set failed: " + err.Error()
		}
	case "get":
		if op.Name == own {
			o.desc = describeObj(obj.Get(op.Name).Object())
		} else {
			o.desc = obj.Get(op.Name).ValueType() // somebody else may be using the value
		}
	case "isdef":
		o.desc = fmt.Sprint(obj.IsDefined(op.Name))
	case "getp":
		// the value may be in use by a running VM: only its type is looked at
		o.desc = obj.Get(op.Name).ValueType()
	case "isdefp":
		o.desc = fmt.Sprint(obj.IsDefined(op.Name))
	case "getall":
		for _, v := range obj.GetAll() {
			o.names = append(o.names, v.Name())
			if v.Name() == own {
				o.own = describeObj(v.Object())
			}
		}
		sort.Strings(o.names)
	case "clone":
		c := obj.Clone()
		o.snapB = describeAll(c)
		o.snapE = runOnce(c, false)
		o.snapA = describeAll(c)
	case "replace":
		obj.ReplaceBuiltinModule(bridge.HostModName, hostAttrs(op.N))
	}
	return
}

func descVal(v *lang.Val) string {
	return describeObj(bridge.ToObject(v, map[int]tengo.Object{}))
}

// evalDeterministic checks the observations of a deterministic schedule.
func evalDeterministic(p *payload, obs [][]apiObs, got, final snapshot, snapB []snapshot, snapE []string, snapA []snapshot, runErr []string) string {
	// history of every spare (its owner is the only writer)
	hist := map[string][]string{}
	for g := 0; g < 4; g++ {
		hist[spareName(g)] = []string{descVal(p.Base[spareName(g)])}
	}
	var gotErrs []string
	for g := range obs {
		own := spareName(g)
		cur := hist[own][0]
		for i, o := range obs[g] {
			where := fmt.Sprintf("goroutine %d op %d", g, i)
			switch o.op.Op {
			case "set":
				cur = descVal(o.op.Val)
				hist[own] = append(hist[own], cur)
			case "get":
				if o.desc != cur {
					return fmt.Sprintf("%s: Get(%s) returned %s, but this goroutine (the only writer) last Set it to %s", where, own, o.desc, cur)
				}
			case "isdef":
				if want := fmt.Sprint(cur != "undefined"); o.desc != want {
					return fmt.Sprintf("%s: IsDefined(%s) = %s with value %s", where, own, o.desc, cur)
				}
			case "getall":
				if strings.Join(o.names, ",") != strings.Join(sortedKeys(final), ",") {
					return fmt.Sprintf("%s: GetAll returned names %v, expected %v", where, o.names, sortedKeys(final))
				}
				if o.own != cur {
					return fmt.Sprintf("%s: GetAll shows %s = %s, last Set to %s", where, own, o.own, cur)
				}
			case "run", "runctx":
				gotErrs = append(gotErrs, o.desc)
			}
		}
	}
	// Run results: the multiset of the T sequential results
	a, b := append([]string(nil), gotErrs...), append([]string(nil), runErr...)
	sort.Strings(a)
	sort.Strings(b)
	if strings.Join(a, "\x00") != strings.Join(b, "\x00") {
		return fmt.Sprintf("results of the %d Run calls differ from %d sequential runs:\n   sequential: %q\n   concurrent: %q", len(a), len(b), b, a)
	}
	// final state: program part after T runs, spares as last written
	if d := diffSnap(final, got, skipSpares); d != "" {
		return fmt.Sprintf("globals after the schedule differ from %d sequential runs:\n   %s", len(runErr), d)
	}
	for g := 0; g < 4; g++ {
		h := hist[spareName(g)]
		if got[spareName(g)] != h[len(h)-1] {
			return fmt.Sprintf("%s ends as %s, its only writer last Set it to %s", spareName(g), got[spareName(g)], h[len(h)-1])
		}
	}
	// clones: the state after some j of the T runs
	for g := range obs {
		own := spareName(g)
		cur := hist[own][0]
		for i, o := range obs[g] {
			if o.op.Op == "set" {
				cur = descVal(o.op.Val)
			}
			if o.op.Op != "clone" {
				continue
			}
			where := fmt.Sprintf("goroutine %d op %d", g, i)
			match := -1
			for j := range snapB {
				if diffSnap(snapB[j], o.snapB, skipSpares) == "" && snapE[j] == o.snapE && diffSnap(snapA[j], o.snapA, skipSpares) == "" {
					match = j
					break
				}
			}
			if match < 0 {
				near := diffSnap(snapB[0], o.snapB, skipSpares)
				if near == "" {
					near = diffSnap(snapA[0], o.snapA, skipSpares)
				}
				return fmt.Sprintf("%s: a Clone taken during the schedule (and run once: %q) matches the object's state after none of 0..%d runs; against the state before any run:\n   %s", where, o.snapE, len(runErr), near)
			}
			if o.snapB[own] != cur {
				return fmt.Sprintf("%s: the Clone holds %s = %s, the cloning goroutine (only writer) last Set it to %s", where, own, o.snapB[own], cur)
			}
			for s, h := range hist {
				ok := false
				for _, x := range h {
					ok = ok || x == o.snapB[s]
				}
				if !ok {
					return fmt.Sprintf("%s: the Clone holds %s = %s, a value never Set (%v)", where, s, o.snapB[s], h)
				}
			}
		}
	}
	return ""
}
