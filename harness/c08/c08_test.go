// C08 — clones of a compiled script run concurrently without interference;
// concurrent Get/Set/Run/Clone/... calls on one compiled object are race free.
//
// Two case kinds (see progs_test.go / api_test.go for the generators):
//
//	clones: one compiled original, K clones (optionally the original itself
//	        as one more participant), each with its own input assignment,
//	        each run R times; sequential baseline on fresh clones vs. all
//	        participants at once behind a start barrier.
//	api:    one compiled object driven from 2..4 goroutines by an interleaved
//	        schedule of Run/Get/Set/IsDefined/GetAll/Clone/ReplaceBuiltinModule.
//
// Two modes: the same oracle runs (1) in a -race build, where additionally no
// data race report may appear (TestClonesRace / TestAPIRace, registered under
// "race"), and (2) in the plain build at higher volume with a yielding VM
// probe that forces instruction-level interleavings (TestClonesInterference /
// TestAPIInterference, registered under "rapid").
package c08

import (
	"context"
	"fmt"
	"os"
	"path/filepath"
	"reflect"
	"runtime"
	"sort"
	"strings"
	"testing"
	"time"
	"unsafe"

	"github.com/d5/tengo/v2"
	"github.com/d5/tengo/v2/parser"
	"github.com/d5/tengo/v2/stdlib"

	"verifharness/bridge"
	"verifharness/ev"
	"verifharness/lang"
	"verifharness/tv"
)

func TestMain(m *testing.M) { ev.Main(m, "C08") }

// ---------- open findings (BUILDING.md rule 3) ----------

const (
	f12 = "F12-string-runestr-race"
	f13 = "F13-fileset-lastfile-race"
	f24 = "F24-replace-module-on-cloned-original"
)

// openFindings: switches of the findings that are still open in /repo. While
// a switch is on, the generator keeps the exact pattern out of the concurrent
// phase (counted with ev.Discard("known:<id>")); turn it off once /repo is
// repaired and the pattern is exercised fully. VERIF_C08_ASSUME_FIXED=<id,id>
// turns switches off for one run (used to try a candidate fix in a scratch
// copy through VERIF_REPO without editing this file).
var openFindings = map[string]bool{
	// all three repaired in /repo (cfa7376, 8ee653f, 80f6696); reproducers moved to replays/C08/fixed
}

var knownWhat = map[string]string{
	f12: "data race: (*String).IndexGet / (*String).Iterate lazily write String.runeStr on a string constant of the bytecode shared by all clones (objects.go)",
	f24: "interference + data race: Compiled.ReplaceBuiltinModule on an object that still owns its bytecode (the compiled original, or a clone after its first replacement) rewrites Bytecode.Constants in place although clones taken from it share that slice (script.go Clone / ReplaceBuiltinModule)",
	f13: "data race: (*SourceFileSet).file writes SourceFileSet.LastFile while a run-time error of a multi-file program is formatted; the file set is shared by all clones (parser/source_file.go)",
}

func init() {
	for _, id := range strings.Split(os.Getenv("VERIF_C08_ASSUME_FIXED"), ",") {
		if id = strings.TrimSpace(id); id != "" {
			delete(openFindings, id)
		}
	}
}

// ---------- payload ----------

// partCfg configures one participant (a clone, or the original itself).
type partCfg struct {
	Inputs  map[string]*lang.Val `json:"inputs,omitempty"`  // Set on the participant before running (names missing here are inherited through Clone)
	Runs    int                  `json:"runs"`              // number of Run calls
	Reset   bool                 `json:"reset,omitempty"`   // Set the inputs again (fresh objects) before every run, not only the first
	Ctx     bool                 `json:"ctx,omitempty"`     // RunContext instead of Run
	Replace *int64               `json:"replace,omitempty"` // ReplaceBuiltinModule("hostmod") with this value of .answer before running
	Stagger int                  `json:"stagger,omitempty"` // Gosched calls after the barrier
}

type apiOp struct {
	Op   string    `json:"op"` // run runctx set get isdef getall clone getp isdefp setin replace
	Name string    `json:"name,omitempty"`
	Val  *lang.Val `json:"val,omitempty"`
	N    int64     `json:"n,omitempty"`
}

type payload struct {
	Kind     string               `json:"kind"` // clones | api
	Family   string               `json:"family"`
	Source   string               `json:"source"`
	Modules  map[string]string    `json:"modules,omitempty"`
	Base     map[string]*lang.Val `json:"base,omitempty"` // inputs Added to the script
	RunFirst bool                 `json:"run_first,omitempty"`
	// clones kind
	Orig        *partCfg  `json:"orig,omitempty"` // the original takes part too
	Clones      []partCfg `json:"clones,omitempty"`
	CloneInside bool      `json:"clone_inside,omitempty"` // Clone() is called by the participant goroutines, after the barrier
	// api kind
	OnClone bool      `json:"on_clone,omitempty"` // the object under test is a clone (shares bytecode) instead of the original
	Free    bool      `json:"free,omitempty"`     // free schedule: ops whose outcome depends on the interleaving are allowed (race-freedom and sanity only)
	API     [][]apiOp `json:"api,omitempty"`
	// scheduling
	Yield int `json:"yield,omitempty"` // VM probe yields when (ip+sp)%Yield==0 (0: no probe)
	// MaxStrLen > 0: tengo.MaxStringLen for the whole case (set before any
	// goroutine starts): some participants' format() calls exceed it and fail
	MaxStrLen int `json:"max_str_len,omitempty"`
}

// ---------- module maps ----------

const hostAnswer = 42

// hostAttrs: the builtin (Go) module of the cases. Only immutable attributes:
// a builtin module's attribute objects are shared by every clone through the
// constant pool by design (see ReplaceBuiltinModule's documentation), so a
// mutable attribute would be host state outside this property.
func hostAttrs(answer int64) map[string]tengo.Object {
	a := bridge.HostModule().Attrs
	delete(a, "list")
	delete(a, "conf")
	a["answer"] = &tengo.Int{Value: answer}
	return a
}

func moduleMap(p *payload) *tengo.ModuleMap {
	mm := stdlib.GetModuleMap("math", "text", "enum", "rand")
	mm.AddBuiltinModule(bridge.HostModName, hostAttrs(hostAnswer))
	for _, name := range sortedKeys(p.Modules) {
		mm.AddSourceModule(name, []byte(p.Modules[name]))
	}
	return mm
}

func sortedKeys[V any](m map[string]V) []string {
	ks := make([]string, 0, len(m))
	for k := range m {
		ks = append(ks, k)
	}
	sort.Strings(ks)
	return ks
}

// toObject is bridge.ToObject plus spare capacity in every array, as arrays
// built by a host with make(.., 0, n) or emptied in place have: Clone and Copy
// must give every clone storage of its own however much room the original's
// slice has left.
func toObject(v *lang.Val, memo map[int]tengo.Object) tengo.Object {
	o := bridge.ToObject(v, memo)
	seen := map[tengo.Object]bool{}
	var walk func(o tengo.Object)
	walk = func(o tengo.Object) {
		if o == nil || seen[o] {
			return
		}
		seen[o] = true
		switch x := o.(type) {
		case *tengo.Array:
			x.Value = append(make([]tengo.Object, 0, len(x.Value)+6), x.Value...)
			for _, e := range x.Value {
				walk(e)
			}
		case *tengo.ImmutableArray:
			for _, e := range x.Value {
				walk(e)
			}
		case *tengo.Map:
			for _, e := range x.Value {
				walk(e)
			}
		case *tengo.ImmutableMap:
			for _, e := range x.Value {
				walk(e)
			}
		}
	}
	walk(o)
	return o
}

func compile(p *payload) (*tengo.Compiled, error) {
	s := tengo.NewScript([]byte(p.Source))
	s.SetImports(moduleMap(p))
	memo := map[int]tengo.Object{}
	for _, k := range sortedKeys(p.Base) {
		if err := s.Add(k, toObject(p.Base[k], memo)); err != nil {
			return nil, err
		}
	}
	return s.Compile()
}

// ---------- access to the shared parts of a Compiled (read-only, harness side) ----------

// bytecodeOf returns the (unexported) bytecode of c. Only called while no
// other goroutine uses c.
func bytecodeOf(c *tengo.Compiled) *tengo.Bytecode {
	f := reflect.ValueOf(c).Elem().FieldByName("bytecode")
	if !f.IsValid() || f.Type() != reflect.TypeOf((*tengo.Bytecode)(nil)) {
		return nil
	}
	return (*tengo.Bytecode)(unsafe.Pointer(f.Pointer()))
}

// sharedStrings collects the String objects reachable from the constant pool
// (what every clone shares).
func sharedStrings(bc *tengo.Bytecode) map[*tengo.String]bool {
	out := map[*tengo.String]bool{}
	var walk func(o tengo.Object, d int)
	walk = func(o tengo.Object, d int) {
		if d > 8 {
			return
		}
		switch x := o.(type) {
		case *tengo.String:
			out[x] = true
		case *tengo.Array:
			for _, e := range x.Value {
				walk(e, d+1)
			}
		case *tengo.ImmutableArray:
			for _, e := range x.Value {
				walk(e, d+1)
			}
		case *tengo.Map:
			for _, e := range x.Value {
				walk(e, d+1)
			}
		case *tengo.ImmutableMap:
			for _, e := range x.Value {
				walk(e, d+1)
			}
		}
	}
	for _, c := range bc.Constants {
		walk(c, 0)
	}
	return out
}

// ---------- describing globals ----------

// describeObj is tv.Describe, except that closures also show the current
// values of their captured variables (so that a closure stored in a global
// is not opaque).
func describeObj(o tengo.Object) string {
	var sb strings.Builder
	descr(&sb, o, 0, map[*tengo.CompiledFunction]bool{})
	return sb.String()
}

func descr(sb *strings.Builder, o tengo.Object, d int, seen map[*tengo.CompiledFunction]bool) {
	if d > 24 {
		sb.WriteString("<DEEP>")
		return
	}
	seq := func(tag string, xs []tengo.Object) {
		sb.WriteString(tag + "[")
		for i, x := range xs {
			if i > 0 {
				sb.WriteString(", ")
			}
			descr(sb, x, d+1, seen)
		}
		sb.WriteString("]")
	}
	mp := func(tag string, m map[string]tengo.Object) {
		sb.WriteString(tag + "{")
		for i, k := range sortedKeys(m) {
			if i > 0 {
				sb.WriteString(", ")
			}
			fmt.Fprintf(sb, "%q: ", k)
			descr(sb, m[k], d+1, seen)
		}
		sb.WriteString("}")
	}
	switch x := o.(type) {
	case *tengo.Array:
		seq("array", x.Value)
	case *tengo.ImmutableArray:
		seq("imm-array", x.Value)
	case *tengo.Map:
		mp("map", x.Value)
	case *tengo.ImmutableMap:
		mp("imm-map", x.Value)
	case *tengo.Error:
		sb.WriteString("error(")
		descr(sb, x.Value, d+1, seen)
		sb.WriteString(")")
	case *tengo.CompiledFunction:
		if seen[x] {
			sb.WriteString("<function:again>")
			return
		}
		seen[x] = true
		fmt.Fprintf(sb, "<function params=%d free=[", x.NumParameters)
		for i, f := range x.Free {
			if i > 0 {
				sb.WriteString(", ")
			}
			if f == nil || f.Value == nil {
				sb.WriteString("<nil-cell>")
			} else {
				descr(sb, *f.Value, d+1, seen)
			}
		}
		sb.WriteString("]>")
		delete(seen, x)
	default:
		sb.WriteString(tv.Describe(o))
	}
}

type snapshot map[string]string

func describeAll(c *tengo.Compiled) snapshot {
	out := snapshot{}
	for _, v := range c.GetAll() {
		out[v.Name()] = describeObj(v.Object())
	}
	return out
}

func (s snapshot) render(skip func(string) bool) string {
	var sb strings.Builder
	for _, k := range sortedKeys(s) {
		if skip != nil && skip(k) {
			continue
		}
		sb.WriteString(k + "=" + s[k] + "; ")
	}
	return sb.String()
}

func diffSnap(want, got snapshot, skip func(string) bool) string {
	var out []string
	for _, k := range sortedKeys(want) {
		if skip != nil && skip(k) {
			continue
		}
		g, ok := got[k]
		if !ok {
			out = append(out, fmt.Sprintf("%s: missing (alone: %s)", k, clipLine(want[k])))
		} else if g != want[k] {
			out = append(out, fmt.Sprintf("%s: alone %s, concurrent %s", k, clipLine(want[k]), clipLine(g)))
		}
	}
	for _, k := range sortedKeys(got) {
		if skip != nil && skip(k) {
			continue
		}
		if _, ok := want[k]; !ok {
			out = append(out, fmt.Sprintf("%s: unexpected %s", k, clipLine(got[k])))
		}
	}
	if len(out) > 6 {
		out = append(out[:6], fmt.Sprintf("(%d more)", len(out)-6))
	}
	return strings.Join(out, "\n   ")
}

func clipLine(s string) string {
	if len(s) > 300 {
		return s[:300] + "…"
	}
	return s
}

func clip(s string) string {
	if len(s) > 2500 {
		return s[:1700] + "\n… (" + fmt.Sprint(len(s)) + " bytes) …\n" + s[len(s)-600:]
	}
	return s
}

// ---------- running ----------

// runOnce calls Run/RunContext and returns the error text ("" = ok). A Go
// panic escaping Run is part of the observable outcome ("panic: …").
func runOnce(c *tengo.Compiled, ctx bool) (res string) {
	defer func() {
		if r := recover(); r != nil {
			res = fmt.Sprintf("panic: %v", r)
		}
	}()
	var err error
	if ctx {
		err = c.RunContext(context.Background())
	} else {
		err = c.Run()
	}
	if err != nil {
		return err.Error()
	}
	return ""
}

func setInputs(c *tengo.Compiled, in map[string]*lang.Val) string {
	memo := map[int]tengo.Object{}
	for _, k := range sortedKeys(in) {
		if err := c.Set(k, toObject(in[k], memo)); err != nil {
			return "Set(" + k + "): " + err.Error()
		}
	}
	return ""
}

type partResult struct {
	errs  []string
	final snapshot
	bad   string // harness-level trouble (Set failed, panic outside Run)
}

// drive applies one participant's configuration to c. It is used unchanged
// for the sequential baseline and inside the concurrent phase.
func drive(c *tengo.Compiled, cfg *partCfg) (res partResult) {
	defer func() {
		if r := recover(); r != nil {
			res.bad = fmt.Sprintf("panic outside Run: %v", r)
		}
	}()
	if cfg.Replace != nil {
		c.ReplaceBuiltinModule(bridge.HostModName, hostAttrs(*cfg.Replace))
	}
	for r := 0; r < cfg.Runs; r++ {
		if r == 0 || cfg.Reset {
			if bad := setInputs(c, cfg.Inputs); bad != "" {
				res.bad = bad
				return
			}
		}
		res.errs = append(res.errs, runOnce(c, cfg.Ctx))
	}
	res.final = describeAll(c)
	return
}

// ---------- baseline instrumentation (sequential only) ----------

type runStats struct {
	steps      int
	errRuns    int
	f12        bool // a String of the constant pool was indexed / iterated
	fnConst    bool // a compiled-function constant was pushed / closed over
	modConst   bool // a builtin-module table constant was pushed
	strConst   bool
	literals   bool
	calls      int
	iterString bool
}

// probeFor returns the sequential-phase probe: counts instructions, notes
// which shared objects the run touches, and detects the F12 pattern exactly
// (IndexGet / Iterate on a String that lives in the constant pool).
func probeFor(st *runStats, bc *tengo.Bytecode, shared map[*tengo.String]bool) tengo.VerifProbeFunc {
	isShared := func(o tengo.Object) bool {
		s, ok := o.(*tengo.String)
		return ok && shared[s]
	}
	// walk the selectors of a.b[c].d = v the way indexAssign does
	selWalk := func(v *tengo.VM, dst tengo.Object, sp, n int) {
		for sidx := n - 1; sidx > 0 && dst != nil; sidx-- {
			if isShared(dst) {
				st.f12 = true
				return
			}
			if _, isStr := dst.(*tengo.String); isStr {
				return // per-run string: harmless, and IndexGet would fill its cache
			}
			next, err := dst.IndexGet(v.VerifStackAt(sp - n + sidx))
			if err != nil {
				return
			}
			dst = next
		}
	}
	return func(v *tengo.VM) {
		st.steps++
		fn, ip, sp, bp, _ := v.VerifState()
		if fn == nil || ip < 0 || ip >= len(fn.Instructions) {
			return
		}
		ins := fn.Instructions
		switch ins[ip] {
		case parser.OpIndex:
			if isShared(v.VerifStackAt(sp - 2)) {
				st.f12 = true
			}
		case parser.OpIteratorInit:
			if isShared(v.VerifStackAt(sp - 1)) {
				st.f12 = true
			}
			if _, ok := v.VerifStackAt(sp - 1).(*tengo.String); ok {
				st.iterString = true
			}
		case parser.OpSetSelGlobal:
			if ip+3 < len(ins) {
				selWalk(v, v.VerifGlobalAt(int(ins[ip+2])|int(ins[ip+1])<<8), sp, int(ins[ip+3]))
			}
		case parser.OpSetSelLocal:
			if ip+2 < len(ins) {
				dst := v.VerifStackAt(bp + int(ins[ip+1]))
				if p, ok := dst.(*tengo.ObjectPtr); ok && p.Value != nil {
					dst = *p.Value
				}
				selWalk(v, dst, sp, int(ins[ip+2]))
			}
		case parser.OpSetSelFree:
			if ip+2 < len(ins) {
				selWalk(v, v.VerifFreeAt(int(ins[ip+1])), sp, int(ins[ip+2]))
			}
		case parser.OpConstant:
			if ip+2 < len(ins) {
				ci := int(ins[ip+2]) | int(ins[ip+1])<<8
				if ci < len(bc.Constants) {
					switch bc.Constants[ci].(type) {
					case *tengo.CompiledFunction:
						st.fnConst = true
					case *tengo.ImmutableMap:
						st.modConst = true
					case *tengo.String:
						st.strConst = true
					}
				}
			}
		case parser.OpClosure:
			st.fnConst = true
		case parser.OpArray, parser.OpMap:
			st.literals = true
		case parser.OpCall:
			st.calls++
		}
	}
}

// yieldProbe is the concurrent-phase probe of the plain build: it makes the
// VMs hand the processor over at instruction granularity. It touches nothing
// shared (a probe that synchronised would hide races from the detector).
func yieldProbe(n int) tengo.VerifProbeFunc {
	return func(v *tengo.VM) {
		_, ip, sp, _, _ := v.VerifState()
		if (ip+sp)%n == 0 {
			runtime.Gosched()
		}
	}
}

const watchdog = 10 * time.Minute

// ---------- the clones oracle ----------

type verdict struct {
	fail    string // oracle failure
	discard string
	infra   string
	nt      bool
	classes []string
	stats   []runStats
}

func checkClones(p *payload) (v verdict) {
	// Two compilations of the same script: the sequential baseline runs on
	// the first, the concurrent phase on the second. (Were both phases to use
	// one compiled object, the baseline would already have filled every
	// lazily written cache inside the shared bytecode, and the concurrent
	// phase would only ever read them.)
	seq, err := compile(p)
	if err != nil {
		v.discard = "does not compile"
		if p.Family == "template" {
			v.infra = "template program does not compile: " + err.Error()
		}
		return
	}
	orig, err := compile(p)
	if err != nil {
		v.infra = "second compilation failed: " + err.Error()
		return
	}
	bc := bytecodeOf(seq)
	if bc == nil {
		v.infra = "cannot reach Compiled.bytecode (field renamed?)"
		return
	}
	shared := sharedStrings(bc)
	multiFile := bc.FileSet != nil && len(bc.FileSet.Files) > 1
	if p.RunFirst {
		runOnce(seq, false)
		runOnce(orig, false)
	}
	seqBefore := describeAll(seq)
	before := describeAll(orig)

	// sequential baseline: every participant alone
	parts := make([]*partCfg, 0, len(p.Clones)+1)
	for i := range p.Clones {
		parts = append(parts, &p.Clones[i])
	}
	if p.Orig != nil {
		parts = append(parts, p.Orig)
	}
	want := make([]partResult, len(parts))
	v.stats = make([]runStats, len(parts))
	for i, cfg := range parts {
		c := seq // the original itself comes last
		if i < len(p.Clones) {
			c = seq.Clone()
		}
		if i == len(p.Clones) {
			if d := diffSnap(seqBefore, describeAll(seq), nil); d != "" {
				v.fail = "running clones one after the other changed the original's globals:\n   " + d
				return
			}
		}
		tengo.VerifSetProbe(probeFor(&v.stats[i], bc, shared))
		want[i] = drive(c, cfg)
		tengo.VerifSetProbe(nil)
		if want[i].bad != "" {
			v.infra = fmt.Sprintf("participant %d alone: %s", i, want[i].bad)
			return
		}
		for _, e := range want[i].errs {
			if e != "" {
				v.stats[i].errRuns++
			}
		}
	}
	if p.Orig == nil {
		if d := diffSnap(seqBefore, describeAll(seq), nil); d != "" {
			v.fail = "running clones one after the other changed the original's globals:\n   " + d
			return
		}
	}

	// known findings: keep their exact patterns out of the concurrent phase
	nF12, nErr := 0, 0
	for i := range parts {
		if v.stats[i].f12 {
			nF12++
		}
		if v.stats[i].errRuns > 0 {
			nErr++
		}
	}
	if guard(f12) && nF12 >= 2 {
		v.discard = "known:" + f12
		return
	}
	if guard(f13) && multiFile && nErr >= 2 {
		v.discard = "known:" + f13
		return
	}

	// concurrent phase
	got := make([]partResult, len(parts))
	objs := make([]*tengo.Compiled, len(parts))
	for i := range parts {
		if i >= len(p.Clones) {
			objs[i] = orig
		} else if !p.CloneInside {
			objs[i] = orig.Clone()
		}
	}
	if p.Yield > 0 {
		tengo.VerifSetProbe(yieldProbe(p.Yield))
	}
	start := make(chan struct{})
	done := make(chan int, len(parts))
	for i := range parts {
		go func(i int) {
			defer func() { done <- i }()
			<-start
			for k := 0; k < parts[i].Stagger; k++ {
				runtime.Gosched()
			}
			c := objs[i]
			if c == nil {
				c = orig.Clone()
			}
			got[i] = drive(c, parts[i])
		}(i)
	}
	close(start)
	timer := time.NewTimer(watchdog)
	for n := 0; n < len(parts); n++ {
		select {
		case <-done:
		case <-timer.C:
			tengo.VerifSetProbe(nil)
			v.infra = "watchdog: concurrent phase did not finish"
			return
		}
	}
	timer.Stop()
	tengo.VerifSetProbe(nil)

	for i := range parts {
		who := fmt.Sprintf("clone %d", i)
		if i >= len(p.Clones) {
			who = "the original"
		}
		if got[i].bad != "" {
			v.fail = fmt.Sprintf("%s, concurrent phase: %s", who, got[i].bad)
			return
		}
		for r := range want[i].errs {
			if got[i].errs[r] != want[i].errs[r] {
				v.fail = fmt.Sprintf("%s, run %d of %d: result of Run differs from running alone\n   alone:      %q\n   concurrent: %q", who, r+1, len(want[i].errs), want[i].errs[r], got[i].errs[r])
				return
			}
		}
		if d := diffSnap(want[i].final, got[i].final, nil); d != "" {
			v.fail = fmt.Sprintf("%s: globals after %d run(s) differ from running alone with the same inputs:\n   %s", who, len(want[i].errs), d)
			return
		}
	}
	if p.Orig == nil {
		if d := diffSnap(before, describeAll(orig), nil); d != "" {
			v.fail = "the original's globals changed while only its clones were used:\n   " + d
			return
		}
	}

	// evidence
	busy, sharedFeat := 0, false
	cls := map[string]bool{"family:" + p.Family: true, fmt.Sprintf("participants:%d", len(parts)): true}
	for i := range parts {
		st := v.stats[i]
		if st.steps >= 50 {
			busy++
		}
		for name, on := range map[string]bool{
			"touches:function-constant": st.fnConst, "touches:builtin-module-table": st.modConst,
			"touches:string-constant": st.strConst, "touches:array/map-literal": st.literals,
			"touches:shared-string-rune-cache": st.f12, "iterates-string": st.iterString,
			"run-time-error": st.errRuns > 0, "run-time-error(multi-file)": st.errRuns > 0 && multiFile,
		} {
			if on {
				cls[name] = true
			}
		}
		if st.fnConst || st.modConst || st.f12 || st.literals || (st.errRuns > 0 && multiFile) {
			sharedFeat = true
		}
	}
	if multiFile {
		cls["multi-file"] = true
	}
	if p.Orig != nil {
		cls["original-takes-part"] = true
	}
	if p.CloneInside {
		cls["clone-inside-goroutines"] = true
	}
	if p.RunFirst {
		cls["original-ran-before-cloning"] = true
	}
	for _, c := range p.Clones {
		if c.Replace != nil {
			cls["replace-builtin-module"] = true
		}
		if c.Ctx {
			cls["run-context"] = true
		}
	}
	if p.Family == "template" && hasMutInput(p.Source) {
		cls["mutates-input-containers"] = true
		sharedFeat = true
	}
	v.nt = busy >= 2 && sharedFeat
	v.classes = sortedKeys(cls)
	return
}

func hasMutInput(src string) bool { return strings.Contains(src, "in3.a +=") }

// ---------- dispatch, evidence, failures ----------

// replaying: the case comes from a replay file; the known-finding guards are
// off (a replay of an open finding must reach the concurrent phase).
var replaying bool

func guard(id string) bool { return openFindings[id] && !replaying }

func runCase(p *payload, isReplay bool) (v verdict) {
	replaying = isReplay
	defer func() { replaying = false }()
	if p.MaxStrLen > 0 {
		old := tengo.MaxStringLen
		tengo.MaxStringLen = p.MaxStrLen
		defer func() { tengo.MaxStringLen = old }()
	}
	switch p.Kind {
	case "clones":
		return checkClones(p)
	case "api":
		return checkAPI(p)
	}
	v.infra = "unknown case kind " + p.Kind
	return
}

func check(t ev.TB, test string, p *payload) { checkWith(t, test, p, false) }

func checkWith(t ev.TB, test string, p *payload, isReplay bool) {
	v := runCase(p, isReplay)
	if v.fail == "" && v.infra == "" {
		if rr := newRaceReports(); rr != "" {
			v.fail = "the race detector reported during this case:\n" + rr
			if !tengoFrames(rr) {
				v.fail = "the race detector reported during this case, but no frame of the library under test is involved (a race inside the harness?):\n" + rr
			}
		}
	}
	switch {
	case v.infra != "":
		// never a verdict about the property
		t.Fatalf("INFRASTRUCTURE: %s\n--- source ---\n%s", v.infra, clip(p.Source))
	case v.fail != "":
		ev.Fail(t, test, p, "%s\n--- source ---\n%s%s", v.fail, clip(p.Source), modulesText(p))
	case v.discard != "":
		ev.Discard(v.discard)
	default:
		ev.Case(caseKey(p), v.nt, append(v.classes, "kind:"+p.Kind)...)
		if v.nt && ev.WantSample() && len(p.Source) < 700 {
			ev.Sample(map[string]interface{}{"kind": p.Kind, "family": p.Family, "source": p.Source,
				"participants": len(p.Clones), "api_goroutines": len(p.API), "classes": v.classes})
		}
	}
}

func modulesText(p *payload) string {
	var sb strings.Builder
	for _, k := range sortedKeys(p.Modules) {
		sb.WriteString("\n--- module " + k + " ---\n" + clip(p.Modules[k]))
	}
	return sb.String()
}

func caseKey(p *payload) string {
	var sb strings.Builder
	sb.WriteString(p.Kind + "|" + p.Source)
	for _, c := range p.Clones {
		fmt.Fprintf(&sb, "|%d", c.Runs)
		for _, k := range sortedKeys(c.Inputs) {
			sb.WriteString(k + valKey(c.Inputs[k]))
		}
	}
	for _, g := range p.API {
		sb.WriteString("|")
		for _, o := range g {
			sb.WriteString(o.Op + o.Name + ",")
		}
	}
	return sb.String()
}

func valKey(v *lang.Val) string {
	if v == nil {
		return "nil"
	}
	s := fmt.Sprintf("%s:%d:%d:%s:%v", v.T, v.I, v.Bits, v.S, v.B)
	for _, k := range v.Kids {
		s += "(" + valKey(k) + ")"
	}
	return s
}

// ---------- replay / regressions / known findings ----------

// replayRepeats: a concurrent failure is schedule dependent; a replay tries
// the case repeatedly.
const replayRepeats = 40

func replayFile(t *testing.T, path string) {
	var p payload
	test, err := ev.LoadReplay(path, &p)
	if err != nil {
		t.Fatalf("load %s: %v", path, err)
	}
	for i := 0; i < replayRepeats; i++ {
		q := p
		if !raceEnabled && q.Yield == 0 {
			q.Yield = 1 + i%5
		}
		checkWith(t, test, &q, true)
	}
}

func TestReplay(t *testing.T) {
	path := os.Getenv("VERIF_REPLAY")
	if path == "" {
		t.Skip("no VERIF_REPLAY")
	}
	replayFile(t, path)
}

func replayDir(sub string) []string {
	root := os.Getenv("VERIF_ROOT")
	if root == "" {
		root = "/verif"
	}
	files, _ := filepath.Glob(filepath.Join(root, "replays", "C08", sub, "*.json"))
	sort.Strings(files)
	return files
}

func TestRegressions(t *testing.T) {
	for _, f := range replayDir("fixed") {
		f := f
		t.Run(filepath.Base(f), func(t *testing.T) { replayFile(t, f) })
		ev.Note("regression replays run")
	}
}
