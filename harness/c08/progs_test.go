package c08

import (
	"fmt"
	"math"
	"strings"

	"pgregory.net/rapid"

	"verifharness/bridge"
	"verifharness/ev"
	"verifharness/gen"
	"verifharness/lang"
	"verifharness/ref"
	"verifharness/refx"
)

// ---------- family "gen": grammar-generated programs ----------

func refConfig(answer int64) ref.Config {
	cfg := ref.DefaultConfig()
	m := bridge.HostModRef()[bridge.HostModName]
	delete(m, "list")
	delete(m, "conf")
	m["answer"] = ref.IntV(answer)
	cfg.HostMods = map[string]map[string]ref.Value{bridge.HostModName: m}
	return cfg
}

var (
	vInts   = []int64{0, 1, -1, 2, 3, 7, 10, 255, -128, 65, math.MaxInt64}
	vStrs   = []string{"", "a", "abc", "héllo", "日本語", "x y z", "12", "hello wörld"}
	vFloats = []float64{0, 1.5, -2.25, 3, 1e21}
	vRunes  = []rune{'a', 'Z', 0x4e16, 'é'}
)

// variant derives another input value of the same shape: same types and
// sharing structure, other leaves (so that the generator's type guesses stay
// right and most clones run the program to the end on different data).
func variant(t *rapid.T, v *lang.Val, memo map[int]*lang.Val) *lang.Val {
	if v == nil {
		return nil
	}
	if v.Share > 0 {
		if x, ok := memo[v.Share]; ok {
			return x
		}
	}
	c := *v
	c.Kids, c.Keys, c.S = nil, append([]string(nil), v.Keys...), append([]byte(nil), v.S...)
	out := &c
	if v.Share > 0 {
		memo[v.Share] = out
	}
	change := rapid.IntRange(0, 2).Draw(t, "varyLeaf") > 0
	switch v.T {
	case "int":
		if change {
			out.I = vInts[rapid.IntRange(0, len(vInts)-1).Draw(t, "vInt")]
		}
	case "float":
		if change {
			out.Bits = math.Float64bits(vFloats[rapid.IntRange(0, len(vFloats)-1).Draw(t, "vFlt")])
		}
	case "string", "bytes":
		if change {
			out.S = []byte(vStrs[rapid.IntRange(0, len(vStrs)-1).Draw(t, "vStr")])
		}
	case "char":
		if change {
			out.I = int64(vRunes[rapid.IntRange(0, len(vRunes)-1).Draw(t, "vRune")])
		}
	case "bool":
		if change {
			out.B = !v.B
		}
	case "time":
		if change && !v.ZeroT {
			out.Sec = v.Sec + int64(rapid.IntRange(1, 50).Draw(t, "vSec"))
		}
	}
	for _, k := range v.Kids {
		out.Kids = append(out.Kids, variant(t, k, memo))
	}
	return out
}

func variantInputs(t *rapid.T, base map[string]*lang.Val) map[string]*lang.Val {
	out := map[string]*lang.Val{}
	memo := map[int]*lang.Val{}
	for _, k := range sortedKeys(base) {
		out[k] = variant(t, base[k], memo)
	}
	return out
}

// In the -race build every Run costs tens of milliseconds whatever the
// program (the detector pays for the ~100 KB VM allocated per Run), so that
// build keeps the run counts small and the plain build carries the volume.
func drawRuns(t *rapid.T) int {
	if raceEnabled {
		return []int{1, 1, 1, 1, 2, 2, 2, 3, 3, 6}[rapid.IntRange(0, 9).Draw(t, "runs")]
	}
	return []int{1, 1, 1, 2, 2, 3, 3, 5, 8, 20}[rapid.IntRange(0, 9).Draw(t, "runs")]
}

func drawClones(t *rapid.T) int {
	if raceEnabled {
		return []int{2, 2, 2, 2, 3, 3, 3, 4, 4, 8}[rapid.IntRange(0, 9).Draw(t, "nClones")]
	}
	return []int{2, 2, 2, 3, 3, 4, 4, 5, 6, 8}[rapid.IntRange(0, 9).Draw(t, "nClones")]
}

func drawYield(t *rapid.T) int {
	if raceEnabled {
		// mostly free running under the race detector
		return []int{0, 0, 0, 1, 3}[rapid.IntRange(0, 4).Draw(t, "yield")]
	}
	return []int{0, 1, 1, 2, 3, 5, 7}[rapid.IntRange(0, 6).Draw(t, "yield")]
}

func renderProg(p *lang.Program) (string, map[string]string) {
	src := lang.Render(p.Main)
	mods := map[string]string{}
	for k, b := range p.Modules {
		mods[k] = lang.Render(b)
	}
	return src, mods
}

// genClonesGrammar draws a clones case over a grammar-generated program. Every
// participant Sets a complete input assignment before each of its runs, and
// the program is in the deterministic, terminating fragment for each of
// these assignments (reference interpreter under all policies) - which makes
// every run equivalent to a first run: all other globals are (re)defined
// before they can be read.
func genClonesGrammar(t *rapid.T) *payload {
	base := gen.Inputs(t, true, true, false)
	o := gen.Opts{MaxStmts: 10, MaxDepth: 3, HostMods: []string{bridge.HostModName},
		ControlHeavy: rapid.IntRange(0, 3).Draw(t, "controlHeavy") == 0}
	if rapid.IntRange(0, 2).Draw(t, "withModules") == 0 {
		o.Modules = []string{"m1", "m2"}[:1+rapid.IntRange(0, 1).Draw(t, "nMods")]
	}
	prog, _ := gen.Program(t, o, base)
	p := &payload{Kind: "clones", Family: "grammar", Base: base}
	p.Source, p.Modules = renderProg(prog)
	stable := func(in map[string]*lang.Val, answer int64) bool {
		out, why := refx.Stable(prog, in, refConfig(answer))
		if why != "" {
			ev.Discard(why)
			return false
		}
		if out.Stats.MapOrders > 0 {
			// the baseline is the code under test itself, run alone: Go's map
			// order must not be able to make two runs of one participant differ
			// (the four fixed orders of the filter cannot rule that out)
			ev.Discard("excluded:traverses a map with >= 2 keys")
			return false
		}
		return true
	}
	part := func(i int, mayReplace bool) (partCfg, bool) {
		c := partCfg{Runs: drawRuns(t), Reset: true, Ctx: rapid.IntRange(0, 4).Draw(t, "ctx") == 0,
			Stagger: rapid.IntRange(0, 3).Draw(t, "stagger")}
		if i == 0 && rapid.Bool().Draw(t, "firstUsesBase") {
			c.Inputs = base
		} else {
			c.Inputs = variantInputs(t, base)
		}
		answer := int64(hostAnswer)
		if mayReplace && rapid.IntRange(0, 5).Draw(t, "replace") == 0 {
			answer = int64(100 + i)
			c.Replace = &answer
		}
		return c, stable(c.Inputs, answer)
	}
	k := drawClones(t)
	for i := 0; i < k; i++ {
		c, ok := part(i, true)
		if !ok {
			return nil
		}
		p.Clones = append(p.Clones, c)
	}
	p.CloneInside = rapid.IntRange(0, 2).Draw(t, "cloneInside") == 0
	if rapid.IntRange(0, 2).Draw(t, "runFirst") == 0 {
		if out, why := refx.Stable(prog, base, refConfig(hostAnswer)); why == "" && out.Stats.MapOrders == 0 {
			p.RunFirst = true
		}
	}
	if !p.CloneInside && rapid.IntRange(0, 3).Draw(t, "origTakesPart") == 0 {
		// the original replaces its module table while its clones run:
		// only once F24 is repaired
		c, ok := part(k, !openFindings[f24])
		if !ok {
			return nil
		}
		p.Orig = &c
	}
	p.Yield = drawYield(t)
	return p
}

// ---------- family "template": hand-written shapes that touch shared state ----------
//
// Deterministic by construction under repeated runs on persistent globals:
// no map is ever iterated or rendered, every loop is bounded, in2 is always
// an array and in3 always a map {a: int, b: array}. Inputs: in0 (int), in1
// (string), in2 (array, len >= 1), in3 (map).

const modMA = `base := 10
tbl := [1, 2, 3]
export {
	add: func(a, b) { return a + b + base },
	mk: func(x) { return func(y) { return [x, y, base] } },
	sum: func(arr) { s := 0; for v in arr { s += v }; return s },
	tbl: tbl,
	name: "module-a",
	fail: func(x) {
		y := 1 + x
		return y
	}
}
`

func lit(s string) string { return lang.RenderExpr(lang.Str(s)) }

var tplStrings = []string{"héllo wörld", "日本語テキスト", "plain ascii text", "aé\U0001F600z!", "x"}

type tplProg struct {
	src       strings.Builder
	mods      map[string]string
	blocks    []string
	multiFile bool
	lowLimit  bool // has a format() call that exceeds a string limit of 256 for some inputs
}

func genTemplateProgram(t *rapid.T, allowErr bool) *tplProg {
	tp := &tplProg{mods: map[string]string{}}
	n := rapid.IntRange(2, 5).Draw(t, "nBlocks")
	wantErr := allowErr && rapid.IntRange(0, 3).Draw(t, "errBlock") == 0
	// F13 open: a run-time error in a multi-file program is the finding's
	// pattern as soon as two participants fail; keep most failing programs
	// single-file then (the exact guard in checkClones decides the rest)
	singleFile := wantErr && openFindings[f13] && rapid.IntRange(0, 6).Draw(t, "f13Avoid") > 0
	if singleFile {
		ev.Class("generator:f13-pattern-avoided")
	}
	w := func(format string, args ...interface{}) { fmt.Fprintf(&tp.src, format, args...) }
	for b := 1; b <= n; b++ {
		kind := []string{"strconst", "strconst", "closure", "closure", "module", "module", "stdlib", "mutinput", "mutinput", "literals", "hostmod", "loop", "mutimm", "mutimm", "format", "format", "appendin", "appendin", "muterr", "muterr"}[rapid.IntRange(0, 19).Draw(t, "block")]
		if singleFile && kind == "module" {
			kind = "closure"
		}
		tp.blocks = append(tp.blocks, kind)
		switch kind {
		case "strconst":
			s := tplStrings[rapid.IntRange(0, len(tplStrings)-1).Draw(t, "tplStr")]
			idx := rapid.IntRange(0, 12).Draw(t, "tplIdx")
			if openFindings[f12] && rapid.IntRange(0, 9).Draw(t, "f12Avoid") > 0 {
				// F12 open: index / iterate a string made at run time
				// instead of the constant itself
				ev.Class("generator:f12-pattern-avoided")
				w("s%d := %s + in1\n", b, lit(s))
			} else {
				w("s%d := %s\n", b, lit(s))
			}
			if rapid.Bool().Draw(t, "tplCopyStr") {
				// copy() of the shared string constant while another clone may
				// be filling its rune cache
				w("cs%[1]d := copy(s%[1]d)\ncl%[1]d := len(cs%[1]d)\n", b)
			}
			w("c%d := s%d[%d]\n", b, b, idx)
			w("k%d := 0\nfor ch%d in s%d { k%d += int(ch%d) }\n", b, b, b, b, b)
			w("d%d := [s%d[0], s%d[in0 %% 5], len(s%d)]\n", b, b, b, b)
		case "closure":
			loops := rapid.IntRange(1, 40).Draw(t, "tplLoops")
			w("mk%[1]d := func(x) { acc := [x]; return func(d) { acc = append(acc, d); return len(acc) } }\n", b)
			w("f%[1]d := mk%[1]d(in0)\ng%[1]d := mk%[1]d(in1)\nr%[1]d := 0\n", b)
			w("for i%[1]d := 0; i%[1]d < %[2]d; i%[1]d++ { r%[1]d += f%[1]d(i%[1]d) + 2 * g%[1]d(in0) }\n", b, loops)
			w("h%[1]d := func() { return [in0, in1] }\nq%[1]d := [f%[1]d(0), g%[1]d(0), h%[1]d()]\n", b)
		case "module":
			tp.mods["ma"] = modMA
			tp.multiFile = true
			w("ma%[1]d := import(\"ma\")\na%[1]d := ma%[1]d.add(in0, %[2]d)\n", b, rapid.IntRange(0, 9).Draw(t, "tplAdd"))
			w("p%[1]d := ma%[1]d.mk(in0)(in1)\nt%[1]d := ma%[1]d.sum(in2) + ma%[1]d.sum(ma%[1]d.tbl)\nn%[1]d := ma%[1]d.name\n", b)
		case "stdlib":
			useEnum := !singleFile
			w("text%[1]d := import(\"text\")\nmath%[1]d := import(\"math\")\n", b)
			w("u%[1]d := text%[1]d.to_upper(in1) + text%[1]d.repeat(\"ab\", %[2]d)\n", b, rapid.IntRange(0, 4).Draw(t, "tplRep"))
			w("x%[1]d := math%[1]d.abs(-2.5) + math%[1]d.pow(2.0, 3.0)\ny%[1]d := text%[1]d.split(\"a,b,c\", \",\")\nz%[1]d := text%[1]d.re_match(\"^h\", in1)\n", b)
			w("j%[1]d := text%[1]d.join(y%[1]d, in1)\n", b)
			if rapid.IntRange(0, 1).Draw(t, "tplRand") == 0 {
				// process-wide state behind a stdlib module: every clone draws
				// from the same generator (values are not compared, only used)
				w("rand%[1]d := import(\"rand\")\nrz%[1]d := rand%[1]d.intn(10) * 0 + rand%[1]d.int() * 0\nrf%[1]d := rand%[1]d.float() < 2.0\nrp%[1]d := len(rand%[1]d.perm(4))\n", b)
				w("for i%[1]d := 0; i%[1]d < %[2]d; i%[1]d++ { rz%[1]d += rand%[1]d.intn(5) * 0 }\n", b, rapid.IntRange(1, 40).Draw(t, "tplRandLoops"))
			}
			if useEnum {
				tp.multiFile = true
				w("enum%[1]d := import(\"enum\")\nw%[1]d := enum%[1]d.map(in2, func(k, v) { return [k, v, in0] })\ne%[1]d := enum%[1]d.any(in2, func(k, v) { return v == in0 })\n", b)
			}
		case "mutinput":
			w("in2[0] = in2[0] + in0\nin2 = append(in2, len(in2))\nin3.a += 1\nin3.b = append(in3.b, in0)\nin3.c = {d: in1, e: [len(in3.b)]}\nm%d := [len(in2), in3.a, len(in3.b)]\n", b)
		case "mutimm":
			// in4 / in5 are immutable containers with mutable parts inside:
			// immutability is shallow, the script may write into the nested
			// map / array, and every clone must see only its own copy
			w("in4.lim.n += in0 + %[2]d\nin4.tags[0] = in1\nin4.tags = in4.tags\nin5[1][0] += 1\nin5[1] = in5[1]\nmi%[1]d := [in4.lim.n, in4.tags, in5[1], is_immutable_map(in4), is_immutable_array(in5)]\n", b, rapid.IntRange(0, 3).Draw(t, "tplImmInc"))
		case "muterr":
			// in7 is an error value wrapping a mutable map; in8 an array
			// holding one: an error is a container like any other, the script
			// may write into the payload through .value and every clone must
			// see only its own copy
			w("in7.value.n += in0 + %[2]d\nin7.value.tags[0] = in1\nin8[0].value[0] += 1\nin8 = append(in8, error([in0]))\nme%[1]d := [in7.value.n, in7.value.tags, in8[0].value, is_error(in7), len(in8)]\n", b, rapid.IntRange(0, 3).Draw(t, "tplErrInc"))
		case "literals":
			w("l%[1]d := {a: [1, 2, {b: in0}], s: \"k\", f: 1.5, u: undefined}\nl%[1]d.a[2].b += %[2]d\nl%[1]d.a = append(l%[1]d.a, in1)\nv%[1]d := [in0, [in1], {}, 'c', true, immutable([in0])]\n", b, rapid.IntRange(1, 9).Draw(t, "tplInc"))
		case "hostmod":
			w("hm%[1]d := import(\"hostmod\")\nan%[1]d := hm%[1]d.answer + in0\nnm%[1]d := hm%[1]d.name + \"!\"\ncn%[1]d := hm%[1]d.count(1, in0, in1)\npi%[1]d := hm%[1]d.pi * 2\n", b)
			if !openFindings[f12] {
				w("nc%[1]d := hm%[1]d.name[0]\n", b)
			}
		case "appendin":
			// in6 arrives empty (with room to grow, see toObject) and is
			// usually inherited through Clone rather than Set per clone
			w("in6 = append(in6, in0 + %[2]d)\nin6 = append(in6, in1)\nai%[1]d := [len(in6), in6[0], in6]\n", b, rapid.IntRange(0, 3).Draw(t, "tplAppend"))
		case "format":
			// the formatter keeps its printers in a pool shared by every VM
			w("fm%[1]d := format(\"%%0%[2]dd|%%s|%%v|%%x\", in0, in1, in2, in0)\nfq%[1]d := format(\"%%q %%5.2f %%-8v|\", in1, 2.5, in3.a)\n", b, rapid.IntRange(3, 30).Draw(t, "tplWidth"))
			w("fl%[1]d := 0\nfor i%[1]d := 0; i%[1]d < %[2]d; i%[1]d++ { fl%[1]d += len(format(\"%%d-%%s-%%v\", i%[1]d, in1, [i%[1]d, in0])) }\n", b, rapid.IntRange(1, 30).Draw(t, "tplFmtLoops"))
			if allowErr && rapid.IntRange(0, 2).Draw(t, "overLimit") == 0 {
				// over the (lowered) string limit for some inputs: that run fails
				tp.lowLimit = true
				w("if in0 %% 2 == 1 {\n\tbig%[1]d := format(\"%%300d\", in0)\n}\n", b)
			}
		case "loop":
			w("t%[1]d := 0\nfor i%[1]d := 0; i%[1]d < %[2]d; i%[1]d++ { t%[1]d += (i%[1]d * 3 + in0) %% 7 }\n", b, rapid.IntRange(10, 200).Draw(t, "tplN"))
		}
	}
	if wantErr {
		// fails for some input assignments only; when a module is there,
		// inside the module (the trace then spans two files)
		tp.blocks = append(tp.blocks, "error")
		cond := []string{"in0 % 2 == 0", "in0 % 3 == 0", "true"}[rapid.IntRange(0, 2).Draw(t, "tplErrCond")]
		if _, ok := tp.mods["ma"]; ok {
			w("if %s {\n\tboom := import(\"ma\").fail(\"\" + in1)\n}\n", cond)
		} else {
			w("if %s {\n\tboom := 1 + (\"\" + in1)\n}\n", cond)
		}
		w("after := 1\n")
	}
	return tp
}

func vInt(i int64) *lang.Val  { return &lang.Val{T: "int", I: i} }
func vStr(s string) *lang.Val { return &lang.Val{T: "string", S: []byte(s)} }

var tplInts = []int64{0, 1, 2, 3, 4, 5, 6, 7, 9, 10, -1, -4, 255, 1 << 40}

// tplInputs draws a complete assignment of in0..in3 (ill: now and then with an
// ill-typed scalar, which makes the program fail at a deterministic place).
func tplInputs(t *rapid.T, ill bool) map[string]*lang.Val {
	out := map[string]*lang.Val{}
	out["in0"] = vInt(tplInts[rapid.IntRange(0, len(tplInts)-1).Draw(t, "in0")])
	out["in1"] = vStr(vStrs[rapid.IntRange(0, len(vStrs)-1).Draw(t, "in1")])
	arr := func(share int, label string) *lang.Val {
		a := &lang.Val{T: "array", Share: share}
		for i, n := 0, rapid.IntRange(1, 4).Draw(t, label); i < n; i++ {
			a.Kids = append(a.Kids, vInt(int64(rapid.IntRange(-3, 12).Draw(t, label+"Elem"))))
		}
		return a
	}
	in2 := arr(1, "in2N")
	out["in2"] = in2
	b := in2 // shared sub-structure: in3.b is in2
	if rapid.IntRange(0, 2).Draw(t, "in3Shares") > 0 {
		b = arr(2, "in3bN")
	}
	out["in3"] = &lang.Val{T: "map", Share: 3, Keys: []string{"a", "b"},
		Kids: []*lang.Val{vInt(int64(rapid.IntRange(0, 9).Draw(t, "in3a"))), b}}
	// immutable containers with nested mutable parts
	out["in4"] = &lang.Val{T: "imm-map", Share: 4, Keys: []string{"lim", "tags"}, Kids: []*lang.Val{
		{T: "map", Share: 5, Keys: []string{"n"}, Kids: []*lang.Val{vInt(int64(rapid.IntRange(0, 5).Draw(t, "in4n")))}},
		{T: "array", Share: 6, Kids: []*lang.Val{vStr("t0"), vStr("t1")}}}}
	out["in6"] = &lang.Val{T: "array", Share: 9}
	out["in5"] = &lang.Val{T: "imm-array", Share: 7, Kids: []*lang.Val{vInt(1),
		{T: "array", Share: 8, Kids: []*lang.Val{vInt(int64(rapid.IntRange(0, 5).Draw(t, "in5n")))}}}}
	out["in7"] = &lang.Val{T: "error", Share: 10, Kids: []*lang.Val{
		{T: "map", Share: 11, Keys: []string{"n", "tags"}, Kids: []*lang.Val{vInt(int64(rapid.IntRange(0, 5).Draw(t, "in7n"))),
			{T: "array", Share: 12, Kids: []*lang.Val{vStr("e0")}}}}}}
	out["in8"] = &lang.Val{T: "array", Share: 13, Kids: []*lang.Val{
		{T: "error", Share: 14, Kids: []*lang.Val{{T: "array", Share: 15, Kids: []*lang.Val{vInt(int64(rapid.IntRange(0, 5).Draw(t, "in8n")))}}}}}}
	if !ill {
		return out
	}
	// a few ill-typed scalars (deterministic error paths)
	switch rapid.IntRange(0, 24).Draw(t, "illTyped") {
	case 0:
		out["in0"] = vStr("zz")
	case 1:
		out["in0"] = &lang.Val{T: "float", Bits: math.Float64bits(2.5)}
	case 2:
		out["in1"] = vInt(5)
	}
	return out
}

// subset keeps the sharing of in2 / in3.b intact only when both are kept.
func subset(t *rapid.T, in map[string]*lang.Val) map[string]*lang.Val {
	out := map[string]*lang.Val{}
	for _, k := range sortedKeys(in) {
		if rapid.IntRange(0, 3).Draw(t, "keep") > 0 {
			out[k] = in[k]
		}
	}
	return out
}

func genClonesTemplate(t *rapid.T) *payload {
	tp := genTemplateProgram(t, true)
	p := &payload{Kind: "clones", Family: "template", Source: tp.src.String(), Modules: tp.mods, Base: tplInputs(t, true)}
	if tp.lowLimit {
		p.MaxStrLen = 256
	}
	k := drawClones(t)
	part := func(i int, mayReplace bool) partCfg {
		c := partCfg{Runs: drawRuns(t), Reset: rapid.Bool().Draw(t, "reset"), Ctx: rapid.IntRange(0, 4).Draw(t, "ctx") == 0,
			Stagger: rapid.IntRange(0, 3).Draw(t, "stagger")}
		c.Inputs = tplInputs(t, true)
		if rapid.IntRange(0, 2).Draw(t, "partial") == 0 {
			c.Inputs = subset(t, c.Inputs)
		}
		if mayReplace && rapid.IntRange(0, 4).Draw(t, "replace") == 0 {
			answer := int64(100 + i)
			c.Replace = &answer
		}
		return c
	}
	for i := 0; i < k; i++ {
		p.Clones = append(p.Clones, part(i, true))
	}
	p.RunFirst = rapid.IntRange(0, 2).Draw(t, "runFirst") == 0
	p.CloneInside = rapid.IntRange(0, 2).Draw(t, "cloneInside") == 0
	if !p.CloneInside && rapid.IntRange(0, 3).Draw(t, "origTakesPart") == 0 {
		c := part(k, !openFindings[f24])
		p.Orig = &c
	}
	p.Yield = drawYield(t)
	for _, b := range tp.blocks {
		ev.Class("tpl:" + b)
	}
	return p
}

func genClones(t *rapid.T) *payload {
	if rapid.IntRange(0, 9).Draw(t, "family") < 4 {
		return genClonesGrammar(t)
	}
	return genClonesTemplate(t)
}
