//go:build !race

package c08

const raceEnabled = false
