package c08

import (
	"os"
	"path/filepath"
	"sort"
	"strings"
)

// The driver runs the -race binary with GORACE="halt_on_error=0 exitcode=0
// log_path=<prefix>": reports go to <prefix>.<pid> and the process goes on.
// After every case the test looks at what was appended, so that a report is
// turned into a failure of *that case* (with a replayable payload) instead of
// being found in the log after the fact.

var raceLogSeen = map[string]int64{}

func raceLogPrefix() string {
	for _, f := range strings.Fields(os.Getenv("GORACE")) {
		if strings.HasPrefix(f, "log_path=") {
			p := strings.TrimPrefix(f, "log_path=")
			if p != "stderr" && p != "stdout" {
				return p
			}
		}
	}
	return ""
}

// newRaceReports returns the race reports written since the last call ("" if
// none, or when not running under the race detector with a log file).
func newRaceReports() string {
	if !raceEnabled {
		return ""
	}
	prefix := raceLogPrefix()
	if prefix == "" {
		return ""
	}
	files, _ := filepath.Glob(prefix + "*")
	sort.Strings(files)
	var out strings.Builder
	for _, f := range files {
		b, err := os.ReadFile(f)
		if err != nil {
			continue
		}
		from := raceLogSeen[f]
		if int64(len(b)) > from {
			raceLogSeen[f] = int64(len(b))
			out.Write(b[from:])
		}
	}
	txt := out.String()
	if !strings.Contains(txt, "DATA RACE") {
		return ""
	}
	if len(txt) > 6000 {
		txt = txt[:6000] + "\n…"
	}
	return txt
}

// tengoFrames reports whether a race report mentions code of the library
// under test (as opposed to harness code only).
func tengoFrames(report string) bool {
	return strings.Contains(report, "github.com/d5/tengo/v2")
}
