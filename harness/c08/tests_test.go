package c08

import (
	"fmt"
	"reflect"
	"strings"
	"testing"

	"github.com/d5/tengo/v2"
	"github.com/d5/tengo/v2/parser"
	"pgregory.net/rapid"

	"verifharness/ev"
	"verifharness/lang"
)

// ---------- mode 1: under the race detector (check.json "race") ----------

func TestClonesRace(t *testing.T) {
	if !raceEnabled {
		ev.Note("TestClonesRace ran without the race detector (logical oracle only)")
	}
	rapid.Check(t, func(t *rapid.T) {
		if p := genClones(t); p != nil {
			check(t, "TestClonesRace", p)
		}
	})
}

func TestAPIRace(t *testing.T) {
	if !raceEnabled {
		ev.Note("TestAPIRace ran without the race detector (logical oracle only)")
	}
	rapid.Check(t, func(t *rapid.T) {
		check(t, "TestAPIRace", genAPI(t))
	})
}

// ---------- mode 2: plain build, yielding probe, higher volume (check.json "rapid") ----------

func TestClonesInterference(t *testing.T) {
	rapid.Check(t, func(t *rapid.T) {
		if p := genClones(t); p != nil {
			check(t, "TestClonesInterference", p)
		}
	})
}

func TestAPIInterference(t *testing.T) {
	rapid.Check(t, func(t *rapid.T) {
		check(t, "TestAPIInterference", genAPI(t))
	})
}

// ---------- hand-written cases (plain; both builds) ----------

func ints(xs ...int64) *lang.Val {
	a := &lang.Val{T: "array", Share: 1}
	for _, x := range xs {
		a.Kids = append(a.Kids, vInt(x))
	}
	return a
}

func stdInputs(i0 int64, s string) map[string]*lang.Val {
	return map[string]*lang.Val{"in0": vInt(i0), "in1": vStr(s), "in2": ints(1, 2, 3),
		"in3": {T: "map", Share: 3, Keys: []string{"a", "b"}, Kids: []*lang.Val{vInt(1), {T: "array", Share: 2, Kids: []*lang.Val{vInt(9)}}}}}
}

var shapes = []struct {
	name string
	src  string
	mods map[string]string
}{
	{"closures-in-globals", "mk := func(x) { acc := [x]; return func(d) { acc = append(acc, d); return len(acc) + x } }\nf := mk(in0)\ng := mk(in0 * 2)\nr := 0\nfor i := 0; i < 60; i++ { r += f(i) + g(i) }\nq := [f(0), g(0)]\n", nil},
	{"source-module-functions", "ma := import(\"ma\")\na := ma.add(in0, 2)\np := ma.mk(in0)(in1)\nt := 0\nfor i := 0; i < 30; i++ { t += ma.sum(in2) + ma.add(i, in0) }\n", map[string]string{"ma": modMA}},
	{"stdlib-modules", "text := import(\"text\")\nmath := import(\"math\")\nenum := import(\"enum\")\nu := text.to_upper(in1)\nw := enum.map(in2, func(k, v) { return v * in0 })\nx := math.abs(-1.5 * in0)\ny := text.split(in1, \" \")\nt := 0\nfor i := 0; i < 40; i++ { t += len(text.repeat(\"ab\", i % 5)) + in0 }\n", nil},
	{"mutable-inputs", "for i := 0; i < 30; i++ { in2[0] += in0\nin3.b = append(in3.b, i)\nin3.a += 1 }\nin2 = append(in2, len(in2))\nm := [in2, in3.a, len(in3.b)]\n", nil},
	{"literals-and-host-module", "hm := import(\"hostmod\")\nl := {a: [1, 2, {b: in0}], s: \"k\"}\nfor i := 0; i < 30; i++ { l.a[2].b += hm.answer\nl.a = append(l.a, [i, in1]) }\nan := hm.answer + in0\n", nil},
	{"fresh-string-index-iterate", "s := \"héllo wörld \" + in1\nk := 0\nfor i := 0; i < 20; i++ { for ch in s { k += int(ch) } }\nc := [s[1], s[in0], s[7]]\n", nil},
	{"error-single-file", "t := 0\nfor i := 0; i < 40; i++ { t += i * in0 }\nif in0 % 2 == 0 {\n\tboom := 1 + (\"\" + in1)\n}\nafter := 1\n", nil},
}

func TestShapes(t *testing.T) {
	for _, sh := range shapes {
		sh := sh
		t.Run(sh.name, func(t *testing.T) {
			for rep := 0; rep < 4; rep++ {
				p := &payload{Kind: "clones", Family: "template", Source: sh.src, Modules: sh.mods, Base: stdInputs(3, "base"),
					RunFirst: rep%2 == 1, CloneInside: rep >= 2}
				for i := 0; i < 4; i++ {
					c := partCfg{Inputs: stdInputs(int64(i+1), []string{"héllo", "x y", "日本語", "q"}[i]), Runs: 1 + 2*i, Reset: i%2 == 0, Ctx: i == 3}
					if i == 2 {
						delete(c.Inputs, "in2") // inherited through Clone
						a := int64(100)
						c.Replace = &a
					}
					p.Clones = append(p.Clones, c)
				}
				if !raceEnabled {
					p.Yield = 1 + rep
				}
				check(t, "TestShapes", p)
			}
		})
	}
}

// ---------- known findings ----------
//
// Both open findings are data races: under the race detector their reports
// would (correctly) fail the run, so the generator keeps their patterns out
// of the concurrent phase while the switches are on. This plain test shows
// each defect without the detector: the memory written lazily during a run
// is one object shared by all clones, and nothing in the type guards it.

func hasSyncField(t reflect.Type) bool {
	for i := 0; i < t.NumField(); i++ {
		p := t.Field(i).Type.PkgPath()
		if p == "sync" || p == "sync/atomic" {
			return true
		}
	}
	return false
}

// f12Reproduces: clone B never indexes the string, yet after clone A ran, the
// String object in B's global carries the rune cache A wrote.
func f12Reproduces(t *testing.T) (bool, string) {
	p := &payload{Source: "s := \"héllo wörld\"\nc := undefined\nif idx { c = s[1] }\n", Base: map[string]*lang.Val{"idx": {T: "bool"}}}
	orig, err := compile(p)
	if err != nil {
		t.Fatalf("F12 reproducer does not compile: %v", err)
	}
	a, b := orig.Clone(), orig.Clone()
	_ = a.Set("idx", true)
	_ = b.Set("idx", false)
	if e := runOnce(b, false); e != "" {
		t.Fatalf("F12 reproducer: %s", e)
	}
	sb, _ := b.Get("s").Object().(*tengo.String)
	if sb == nil {
		t.Fatalf("F12 reproducer: s is %T", b.Get("s").Object())
	}
	f := reflect.ValueOf(sb).Elem().FieldByName("runeStr")
	if !f.IsValid() || f.Kind() != reflect.Slice {
		return false, "String has no lazily filled rune slice any more"
	}
	if f.Len() != 0 {
		return false, "rune cache already filled before any indexing (not lazy)"
	}
	if e := runOnce(a, false); e != "" {
		t.Fatalf("F12 reproducer: %s", e)
	}
	sa, _ := a.Get("s").Object().(*tengo.String)
	if sa != sb {
		return false, "clones do not share the string constant object"
	}
	if f.Len() == 0 {
		return false, "indexing no longer writes into the shared constant"
	}
	if hasSyncField(reflect.TypeOf(*sb)) {
		return false, "String now carries a sync/atomic field guarding the cache"
	}
	return true, fmt.Sprintf("clone B (never indexes s) sees the %d-rune cache clone A's s[1] wrote into the shared constant; no synchronisation in tengo.String", f.Len())
}

// f13Reproduces: a failing run of clone A moves LastFile of the file set that
// clone B's bytecode points to as well.
func f13Reproduces(t *testing.T) (bool, string) {
	p := &payload{Source: "m := import(\"ma\")\nx := m.fail(\"s\")\n", Modules: map[string]string{"ma": modMA}}
	orig, err := compile(p)
	if err != nil {
		t.Fatalf("F13 reproducer does not compile: %v", err)
	}
	a, b := orig.Clone(), orig.Clone()
	fa, fb := bytecodeOf(a).FileSet, bytecodeOf(b).FileSet
	if fa != fb {
		return false, "clones no longer share the SourceFileSet"
	}
	lf := reflect.ValueOf(fb).Elem().FieldByName("LastFile")
	if !lf.IsValid() || lf.Type() != reflect.TypeOf((*parser.SourceFile)(nil)) {
		return false, "SourceFileSet.LastFile is no longer a plain pointer"
	}
	before := fb.LastFile
	e := runOnce(a, false)
	if !strings.Contains(e, "ma:") || !strings.Contains(e, "(main):") {
		t.Fatalf("F13 reproducer: expected an error trace through ma and (main), got %q", e)
	}
	mid := fb.LastFile
	_ = runOnce(a, false)
	if before == mid {
		// one more position lookup in the other file
		_ = fb.Position(parser.Pos(1))
		mid = fb.LastFile
	}
	if before == mid {
		return false, "formatting a two-file error trace no longer writes LastFile"
	}
	if hasSyncField(reflect.TypeOf(*fb)) {
		return false, "SourceFileSet now carries a sync/atomic field"
	}
	return true, fmt.Sprintf("formatting clone A's run-time error moved LastFile of the file set clone B uses too (%s -> %s); no synchronisation in SourceFileSet", before.Name, mid.Name)
}

// f24Reproduces: purely sequential - a clone is taken, then the ORIGINAL's
// builtin module is replaced; the clone must keep seeing the module it was
// cloned with.
func f24Reproduces(t *testing.T) (bool, string) {
	p := &payload{Source: "a := import(\"hostmod\").answer\n"}
	orig, err := compile(p)
	if err != nil {
		t.Fatalf("F24 reproducer does not compile: %v", err)
	}
	c := orig.Clone()
	orig.ReplaceBuiltinModule("hostmod", hostAttrs(100))
	if e := runOnce(c, false); e != "" {
		t.Fatalf("F24 reproducer: %s", e)
	}
	got := describeObj(c.Get("a").Object())
	if got == "int(42)" {
		return false, "the clone keeps its own module table"
	}
	return true, "orig.Clone(); orig.ReplaceBuiltinModule(hostmod, answer=100); clone.Run(): the clone reads answer = " + got + " (expected int(42)): the replacement was written into the Constants slice the clone shares"
}

func TestKnownFindings(t *testing.T) {
	for _, f := range []struct {
		id      string
		logical bool // the reproducer fails the logical oracle (no race detector needed)
		run     func(*testing.T) (bool, string)
	}{{f12, false, f12Reproduces}, {f13, false, f13Reproduces}, {f24, true, f24Reproduces}} {
		still, what := f.run(t)
		t.Logf("%s: reproduces=%v: %s", f.id, still, what)
		switch {
		case still && openFindings[f.id]:
			ev.Known(f.id, knownWhat[f.id])
		case still && f.logical:
			t.Errorf("%s still fails but its switch is off: %s", f.id, what)
		case still:
			// the switch is off: the pattern is exercised under the race
			// detector, which is the authority (a repair may keep a cache
			// and synchronise it in a way this structural look cannot see)
			ev.Note("finding " + f.id + ": switch is off; structural reproducer still matches (" + what + ") - the race runs decide")
		default:
			ev.Note("finding " + f.id + " no longer reproduces (" + what + "): turn its switch off")
		}
	}
	// the committed replays of the open findings, through the oracle with
	// the guards off (the race-only ones can fail only in the -race build:
	// ./check --replay uses the plain build)
	for _, f := range replayDir("open") {
		var p payload
		if _, err := ev.LoadReplay(f, &p); err != nil {
			t.Errorf("open replay %s is malformed: %v", f, err)
			continue
		}
		base := f[strings.LastIndex(f, "/")+1:]
		failed := false
		for i := 0; i < replayRepeats && !failed; i++ {
			q := p
			if q.Yield == 0 {
				q.Yield = 1 + i%5
			}
			v := runCase(&q, true)
			if v.infra != "" {
				t.Errorf("open replay %s: %s", base, v.infra)
				break
			}
			failed = v.fail != ""
		}
		if failed {
			ev.Note("open replay " + base + ": fails the logical oracle (as expected while open)")
		} else {
			ev.Note("open replay " + base + ": passes the logical oracle in the plain build (race-only finding, or repaired)")
		}
	}
}
