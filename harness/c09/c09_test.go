// C09 — immutable values cannot be changed by any sequence of operations.
//
// A rapid state machine grows a script, one operation per step, over a pool
// of handles (the immutable root and everything derived from it). After
// every step the whole script is re-run from scratch on the real VM and on
// the model (model_test.go); eval_test.go holds the oracle.
package c09

import (
	"encoding/json"
	"fmt"
	"os"
	"path/filepath"
	"runtime"
	"sort"
	"strconv"
	"strings"
	"testing"

	"pgregory.net/rapid"

	"verifharness/ev"
)

func TestMain(m *testing.M) {
	// rapid runs one case at a time and every step allocates a fresh VM
	// (~100 KB): on many Ps the GC workers of the parallel shard processes
	// only contend with each other (measured: 5x slower with 16 Ps).
	fuzzing := false
	for _, a := range os.Args {
		if strings.HasPrefix(a, "-test.fuzz") {
			fuzzing = true // the fuzz coordinator sizes its worker pool by GOMAXPROCS
		}
	}
	if os.Getenv("GOMAXPROCS") == "" && !fuzzing {
		runtime.GOMAXPROCS(1)
	}
	ev.Main(m, "C09")
}

const maxOps = 25

// ---------- the state machine ----------

type machine struct {
	test      string
	setup     *setupSpec
	ops       []*op // operations that succeeded
	attempted []string
	nextID    int
	cur       *model // state after ops (nil: rebuild)

	classes      map[string]bool
	derivedAt    int // number of attempted ops when a handle was first derived from immutable storage (-1: never)
	wroteThrough bool
}

func (s *machine) model(t *rapid.T) *model {
	if s.cur == nil {
		m, err := (&payload{Setup: s.setup, Ops: s.ops}).modelAfter()
		if err != nil {
			t.Fatalf("HARNESS: cannot rebuild the model: %v", err)
		}
		s.cur = m
	}
	return s.cur
}

func (s *machine) newName() string {
	s.nextID++
	return handleName(s.nextID)
}

func (s *machine) full() bool { return len(s.attempted) >= maxOps }

func report(t ev.TB, test string, p *payload, v verdict) {
	p.Src = v.src
	switch v.kind {
	case vViolation:
		ev.Fail(t, test, p, "%s", v.msg)
	case vDivergence:
		b, _ := json.Marshal(p)
		t.Fatalf("MODEL-DIVERGENCE (not a verdict about the property): %s\npayload: %s", v.msg, b)
	case vHarness:
		b, _ := json.Marshal(p)
		t.Fatalf("HARNESS: %s\npayload: %s", v.msg, b)
	}
}

// step evaluates the script grown by one operation.
func (s *machine) step(t *rapid.T, o *op) {
	m := s.model(t)
	p := &payload{Setup: s.setup, Ops: s.ops, Last: o}
	v := evalCase(p)
	report(t, s.test, p, v)

	rk := s.setup.rootKind()
	s.classes["op:"+o.Kind] = true
	s.classes["x:"+rk+"/"+o.Kind] = true
	if o.Route != "" {
		s.classes["route:"+o.Route] = true
	}
	if x := v.out.operand; x != nil {
		s.classes["operand:"+x.typeName()] = true
		if x.sealedImm() {
			s.classes["operand:sealed-immutable/"+o.Kind] = true
		}
	}
	if v.out.err != "" {
		s.classes["predicted-error:"+v.out.err] = true
		if v.out.immTarget {
			s.classes["refused:"+o.Kind+" on "+v.out.operand.typeName()] = true
		}
	}
	if o.New != "" && v.out.err == "" && v.out.fromImm && s.derivedAt < 0 {
		s.derivedAt = len(s.attempted)
	}
	if (o.isWrite() || o.Kind == "spread") && o.H != "root" && m.derived[o.H] && s.derivedAt >= 0 {
		s.wroteThrough = true
		s.classes["write-through-derived:"+o.Kind] = true
	}
	s.attempted = append(s.attempted, o.src())
	if v.out.err == "" {
		s.ops = append(s.ops, o)
		if p.Last != nil {
			s.cur = v.model // the model already has the operation applied
		}
	} else {
		s.cur = nil
	}
}

// finish counts the sequence as one evaluated case.
func (s *machine) finish() {
	nontrivial := len(s.attempted) >= 2 && s.derivedAt >= 0 && s.wroteThrough
	cls := []string{"root:" + s.setup.rootKind()}
	for c := range s.classes {
		cls = append(cls, c)
	}
	sort.Strings(cls)
	cls = append(cls, fmt.Sprintf("ops:%02d-%02d", len(s.attempted)/5*5, len(s.attempted)/5*5+4))
	main, _, _ := s.setup.program()
	sb, _ := json.Marshal(s.setup)
	key := string(sb) + "\n" + strings.Join(s.attempted, "\n")
	ev.Case(key, nontrivial, cls...)
	if nontrivial && len(s.attempted) <= 10 && ev.WantSample() {
		ev.Sample(map[string]interface{}{"root": s.setup.rootKind(), "setup": strings.TrimSpace(main),
			"operations": s.attempted, "kept": len(s.ops)})
	}
}

// ---------- actions ----------

func (s *machine) actions() map[string]func(*rapid.T) {
	type pred = func(operand) bool
	isArr := func(c operand) bool { return c.V.k == kArr }
	isCont := func(c operand) bool { return c.V.isContainer() }
	// act wraps an operation builder: choose the operand, build, step.
	act := func(f pred, build func(t *rapid.T, m *model, c operand) *op) func(*rapid.T) {
		return func(t *rapid.T) {
			if s.full() {
				return
			}
			m := s.model(t)
			c, ok := pickOperand(t, filter(m.operands(), f))
			if !ok {
				// a no-op step, not t.Skip: under the byte-driven fuzz target one
				// input can select the same inapplicable action over and over, and
				// rapid fails a run whose steps are all skipped
				return
			}
			o := build(t, m, c)
			if o == nil {
				return
			}
			o.H, o.Path = c.H, c.Path
			if o.Route == "" {
				o.Route = genRoute(t)
			} else if o.Route == "global" {
				o.Route = ""
			}
			s.step(t, o)
		}
	}
	assign := act(func(c operand) bool { return true }, func(t *rapid.T, m *model, c operand) *op {
		if !c.V.isContainer() && rapid.IntRange(0, 9).Draw(t, "scalarTarget") != 0 {
			return nil
		}
		sl := genSel(t, c.V)
		return &op{Kind: "assign", Sel: &sl, Val: genVal(t, m, c.V)}
	})
	// elemOf: a selector of an int / string element of container v
	elemOf := func(t *rapid.T, v *mval) (sel, *mval, bool) {
		var sels []sel
		var els []*mval
		add := func(s sel, e *mval) {
			if _, ok := arith(e, "+=", e); ok {
				sels = append(sels, s)
				els = append(els, e)
			}
		}
		switch v.k {
		case kArr:
			if v.st.fuzzy {
				return sel{}, nil, false
			}
			for i, e := range v.window() {
				add(sel{I: i}, e)
			}
		case kMap:
			for _, k := range sortedKeys(v.ms.m) {
				add(isKeySel(k), v.ms.m[k])
			}
		}
		if len(sels) == 0 {
			return sel{}, nil, false
		}
		i := rapid.IntRange(0, len(sels)-1).Draw(t, "elem")
		return sels[i], els[i], true
	}
	return map[string]func(*rapid.T){
		"get": act(func(c operand) bool { return len(c.Path) > 0 }, func(t *rapid.T, m *model, c operand) *op {
			if !c.V.isContainer() && rapid.IntRange(0, 3).Draw(t, "scalarGet") != 0 {
				return nil
			}
			return &op{Kind: "get", New: s.newName()}
		}),
		"slice": act(isArr, func(t *rapid.T, m *model, c operand) *op {
			o := &op{Kind: "slice", New: s.newName()}
			n := c.V.n
			switch rapid.IntRange(0, 5).Draw(t, "bounds") {
			case 0:
				o.Hi = intp(rapid.IntRange(0, n+1).Draw(t, "hi"))
			case 1:
				o.Lo = intp(rapid.IntRange(0, n).Draw(t, "lo"))
			case 2: // both omitted
			default:
				lo := rapid.IntRange(-1, n).Draw(t, "lo")
				hi := rapid.IntRange(lo, n+1).Draw(t, "hi")
				if rapid.IntRange(0, 19).Draw(t, "swap") == 0 {
					lo, hi = hi, lo
				}
				o.Lo, o.Hi = intp(lo), intp(hi)
			}
			return o
		}),
		"append": act(isArr, func(t *rapid.T, m *model, c operand) *op {
			o := &op{Kind: "append", New: s.newName()}
			for i, n := 0, rapid.IntRange(1, 2).Draw(t, "nvals"); i < n; i++ {
				o.Vals = append(o.Vals, genVal(t, m, c.V))
			}
			return o
		}),
		"add": act(isArr, func(t *rapid.T, m *model, c operand) *op {
			o := &op{Kind: "add", New: s.newName()}
			lit := &vnode{T: "a"}
			for i, n := 0, rapid.IntRange(0, 2).Draw(t, "nlit"); i < n; i++ {
				lit.Kids = append(lit.Kids, genScalar(t))
			}
			same := rapid.IntRange(0, 5).Draw(t, "sameKind") != 0
			switch rapid.IntRange(0, 2).Draw(t, "rhs") {
			case 0: // another handle's array
				others := filter(m.operands(), func(d operand) bool {
					return d.V.k == kArr && !d.V.st.fuzzy && (!same || d.V.imm == c.V.imm)
				})
				if len(others) > 0 {
					d := others[rapid.IntRange(0, len(others)-1).Draw(t, "rhsOperand")]
					o.H2, o.Path2 = d.H, d.Path
					return o
				}
				fallthrough
			default:
				if c.V.imm == same {
					lit = &vnode{T: "i", Kids: []*vnode{lit}}
				}
				o.Val = lit
			}
			return o
		}),
		"copy": act(func(c operand) bool { return (c.V.isContainer() || c.V.k == kErr) && clean(c.V) },
			func(t *rapid.T, m *model, c operand) *op { return &op{Kind: "copy", New: s.newName()} }),
		"immutable": act(isCont, func(t *rapid.T, m *model, c operand) *op {
			return &op{Kind: "immutable", New: s.newName()}
		}),
		"freeze": act(func(c operand) bool { return (c.V.isContainer() || c.V.k == kErr) && clean(c.V) },
			func(t *rapid.T, m *model, c operand) *op {
				o := &op{Kind: "freeze", New: s.newName()}
				if rapid.IntRange(0, 3).Draw(t, "frzroute") != 0 {
					o.Route = "global"
				}
				return o
			}),
		"spread": act(func(c operand) bool { return c.V.k == kArr && !c.V.st.fuzzy }, func(t *rapid.T, m *model, c operand) *op {
			return &op{Kind: "spread", New: s.newName(), Val: genVal(t, m, nil)}
		}),
		"wrap": act(func(c operand) bool { return clean(c.V) }, func(t *rapid.T, m *model, c operand) *op {
			x := &vnode{T: "x"}
			shapes := []*vnode{
				{T: "a", Kids: []*vnode{x, genScalar(t)}},
				{T: "m", Keys: []string{"k"}, Kids: []*vnode{x}},
				{T: "a", Kids: []*vnode{{T: "a", Kids: []*vnode{x}}}},
				{T: "i", Kids: []*vnode{{T: "a", Kids: []*vnode{x, genScalar(t)}}}},
				{T: "i", Kids: []*vnode{{T: "m", Keys: []string{"a", "b"}, Kids: []*vnode{genScalar(t), x}}}},
				{T: "e", Kids: []*vnode{x}},
			}
			return &op{Kind: "wrap", New: s.newName(), Val: shapes[rapid.IntRange(0, len(shapes)-1).Draw(t, "shape")]}
		}),
		"splice": act(isArr, func(t *rapid.T, m *model, c operand) *op {
			o := &op{Kind: "splice", New: s.newName()}
			o.Start = rapid.IntRange(0, c.V.n).Draw(t, "start")
			if rapid.IntRange(0, 14).Draw(t, "badstart") == 0 {
				o.Start = c.V.n + 1
			}
			o.Count = rapid.IntRange(0, 2).Draw(t, "count")
			for i, n := 0, rapid.IntRange(0, 2).Draw(t, "nitems"); i < n; i++ {
				o.Vals = append(o.Vals, genVal(t, m, c.V))
			}
			return o
		}),
		"assign":  assign,
		"assign2": assign,
		"compound": act(isCont, func(t *rapid.T, m *model, c operand) *op {
			sl, e, ok := elemOf(t, c.V)
			if !ok {
				return nil
			}
			o := &op{Kind: "compound", Sel: &sl}
			if _, isInt := arith(e, "-=", e); isInt {
				o.Tok = rapid.SampledFrom([]string{"+=", "-=", "*="}).Draw(t, "tok")
				o.Val = &vnode{T: "s", Lit: intLits[rapid.IntRange(0, len(intLits)-1).Draw(t, "int")]}
			} else {
				o.Tok = "+="
				o.Val = &vnode{T: "s", Lit: strLits[rapid.IntRange(0, len(strLits)-1).Draw(t, "str")]}
			}
			return o
		}),
		"incdec": act(isCont, func(t *rapid.T, m *model, c operand) *op {
			sl, e, ok := elemOf(t, c.V)
			if !ok {
				return nil
			}
			if _, isInt := arith(e, "-=", e); !isInt {
				return nil
			}
			return &op{Kind: "incdec", Sel: &sl, Tok: rapid.SampledFrom([]string{"++", "--"}).Draw(t, "tok")}
		}),
		"delete": act(func(c operand) bool { return c.V.k == kMap }, func(t *rapid.T, m *model, c operand) *op {
			sl := genSel(t, c.V)
			return &op{Kind: "delete", Key: sl.K}
		}),
		"forin": act(isCont, func(t *rapid.T, m *model, c operand) *op {
			return &op{Kind: "forin", Val: genScalar(t)}
		}),
		"forval": act(func(c operand) bool { return c.V.k == kArr && !c.V.st.fuzzy && c.V.n > 0 }, func(t *rapid.T, m *model, c operand) *op {
			// selector fitting the first element that is a container
			sl := sel{I: 0}
			for _, e := range c.V.window() {
				if e.isContainer() {
					sl = genSel(t, e)
					break
				}
			}
			return &op{Kind: "forval", Sel: &sl, Val: genScalar(t)}
		}),
	}
}

func newMachine(test string, setup *setupSpec) *machine {
	return &machine{test: test, setup: setup, classes: map[string]bool{}, derivedAt: -1}
}

// checkSetup: right after construction the root must be what the model says
// (immutable where the construction makes it immutable).
func (s *machine) checkSetup(t *rapid.T) {
	p := &payload{Setup: s.setup}
	v := evalCase(p)
	report(t, s.test, p, v)
	s.cur = v.model
}

// TestImmutableSequences: the state machine over every root kind.
func TestImmutableSequences(t *testing.T) {
	rapid.Check(t, seqProp("TestImmutableSequences"))
}

func seqProp(test string) func(*rapid.T) {
	return func(t *rapid.T) {
		s := newMachine(test, genSetup(t))
		s.checkSetup(t)
		t.Repeat(s.actions())
		s.finish()
	}
}

// FuzzImmutableSequences (thorough tier): the same state machine driven by
// the coverage-guided native fuzzer; the input bytes are rapid's bit stream.
func FuzzImmutableSequences(f *testing.F) {
	f.Add([]byte{})
	f.Add([]byte("immutable values cannot be changed by any sequence of operations"))
	seed := make([]byte, 0, 512)
	for i := 0; i < 512; i++ {
		seed = append(seed, byte(i*37+11))
	}
	f.Add(seed)
	f.Fuzz(rapid.MakeFuzz(seqProp("FuzzImmutableSequences")))
}

// TestFreezeNoSharing: clause 3 head-on. root := freeze(<argument with
// shared, nested, mutable and immutable parts>), then one write into every
// mutable container reachable from the argument; the frozen value must not
// move, must be deeply immutable and equal to the argument it was made from.
func TestFreezeNoSharing(t *testing.T) {
	rapid.Check(t, func(t *rapid.T) {
		setup := &setupSpec{Kind: "imm", Root: &vnode{T: "a"}}
		setup.Pre = genPre(t)
		if len(setup.Pre) == 0 {
			setup.Pre = []*vnode{genContainer(t, 3, 0, false, false)}
		}
		s := newMachine("TestFreezeNoSharing", setup)
		s.checkSetup(t)
		// freeze one of the arguments (global route: with the == check)
		arg := "s" + fmt.Sprint(rapid.IntRange(0, len(setup.Pre)-1).Draw(t, "arg"))
		fz := &op{Kind: "freeze", H: arg, New: s.newName()}
		s.step(t, fz)
		// one write per mutable storage reachable from any handle (store ids
		// are stable across the per-step rebuilds of the model)
		seenA := map[int]bool{}
		seenM := map[int]bool{}
		for !s.full() {
			var o *op
			for _, c := range s.model(t).operands() {
				if c.H == fz.New || !c.V.isContainer() || c.V.imm {
					continue
				}
				val := genScalar(t)
				if c.V.k == kArr {
					if seenA[c.V.st.id] {
						continue
					}
					seenA[c.V.st.id] = true
					switch k := rapid.IntRange(0, 3).Draw(t, "w"); {
					case c.V.n == 0 || k == 0:
						o = &op{Kind: "splice", Start: 0, Count: 1, Vals: []*vnode{val}, New: s.newName()}
					case k == 1:
						o = &op{Kind: "forin", Val: val}
					default:
						o = &op{Kind: "assign", Sel: &sel{I: rapid.IntRange(0, c.V.n-1).Draw(t, "i")}, Val: val}
					}
				} else {
					if seenM[c.V.ms.id] {
						continue
					}
					seenM[c.V.ms.id] = true
					keys := sortedKeys(c.V.ms.m)
					switch k := rapid.IntRange(0, 2).Draw(t, "w"); {
					case len(keys) > 0 && k == 0:
						o = &op{Kind: "delete", Key: keys[0]}
					case len(keys) > 0 && k == 1:
						o = &op{Kind: "assign", Sel: &sel{IsKey: true, K: keys[len(keys)-1]}, Val: val}
					default:
						o = &op{Kind: "assign", Sel: &sel{IsKey: true, K: "z"}, Val: val}
					}
				}
				o.H, o.Path, o.Route = c.H, c.Path, genRoute(t)
				break
			}
			if o == nil {
				break
			}
			s.step(t, o)
		}
		s.classes["freeze-no-sharing"] = true
		s.derivedAt, s.wroteThrough = 0, len(s.attempted) >= 2
		s.finish()
	})
}

// ---------- replays, regressions, known findings ----------

func replayFile(t *testing.T, path string) verdict {
	var p payload
	test, err := ev.LoadReplay(path, &p)
	if err != nil {
		t.Fatalf("load %s: %v", path, err)
	}
	switch test {
	case "TestImmutableSequences", "TestFreezeNoSharing", "TestKnownFindings", "FuzzImmutableSequences":
	default:
		t.Fatalf("unknown test %q in %s", test, path)
	}
	return evalCase(&p)
}

func TestReplay(t *testing.T) {
	path := os.Getenv("VERIF_REPLAY")
	if path == "" {
		t.Skip("no VERIF_REPLAY")
	}
	if strings.HasSuffix(path, ".fuzz") {
		b, err := readFuzzFile(path)
		if err != nil {
			t.Fatal(err)
		}
		rapid.MakeFuzz(seqProp("FuzzImmutableSequences"))(t, b)
		return
	}
	if ev.ReplayTest(path) == "TestBuiltinTablesKeepContents" {
		var bp btCase
		if _, err := ev.LoadReplay(path, &bp); err != nil {
			t.Fatalf("load %s: %v", path, err)
		}
		checkBuiltinTables(t, "TestBuiltinTablesKeepContents", &bp)
		return
	}
	if ev.ReplayTest(path) == "TestFreezeCyclic" {
		var cp cyclicPayload
		if _, err := ev.LoadReplay(path, &cp); err != nil {
			t.Fatalf("load %s: %v", path, err)
		}
		checkFreezeCyclic(t, "TestFreezeCyclic", cp)
		return
	}
	var p payload
	test, err := ev.LoadReplay(path, &p)
	if err != nil {
		t.Fatalf("load %s: %v", path, err)
	}
	v := evalCase(&p)
	t.Logf("script:\n%s", v.src)
	report(t, test, &p, v)
}

// readFuzzFile extracts the []byte value of a Go fuzz corpus file.
func readFuzzFile(path string) ([]byte, error) {
	raw, err := os.ReadFile(path)
	if err != nil {
		return nil, err
	}
	for _, l := range strings.Split(string(raw), "\n")[1:] {
		l = strings.TrimSpace(l)
		if strings.HasPrefix(l, "[]byte(") && strings.HasSuffix(l, ")") {
			s, err := strconv.Unquote(l[len("[]byte(") : len(l)-1])
			if err != nil {
				return nil, err
			}
			return []byte(s), nil
		}
	}
	return nil, fmt.Errorf("no []byte value in %s", path)
}

func replayDir(kind string) []string {
	root := os.Getenv("VERIF_ROOT")
	if root == "" {
		root = "/verif"
	}
	files, _ := filepath.Glob(filepath.Join(root, "replays", "C09", kind, "*.json"))
	sort.Strings(files)
	return files
}

// TestRegressions: committed replays of repaired defects must pass.
func TestRegressions(t *testing.T) {
	for _, f := range replayDir("fixed") {
		f := f
		t.Run(filepath.Base(f), func(t *testing.T) {
			var p payload
			test, err := ev.LoadReplay(f, &p)
			if err != nil {
				t.Fatalf("load %s: %v", f, err)
			}
			report(t, test, &p, evalCase(&p))
		})
		ev.Note("regression replays run")
	}
}

// TestKnownFindings re-runs the reproducer of every open finding through the
// oracle and reports whether it still fails.
func TestKnownFindings(t *testing.T) {
	files := replayDir("open")
	if len(files) == 0 {
		ev.Note("no open-finding replays")
	}
	for _, f := range files {
		base := filepath.Base(f)
		id := base
		if i := strings.IndexByte(base, '-'); i > 0 {
			id = base[:i]
		}
		v := replayFile(t, f)
		switch v.kind {
		case vViolation:
			ev.Known(id, knownWhat[id]+" ["+base+"]")
			if !openFindings[id] {
				t.Errorf("%s still fails but its switch is off: %s", base, v.msg)
			}
		case vOK:
			ev.Note("finding " + id + " no longer reproduces (" + base + "): turn its switch off and move the replay to fixed/")
			t.Logf("%s no longer reproduces", base)
		default:
			t.Errorf("%s: reproducer is malformed or diverges: %s", base, v.msg)
		}
	}
}
