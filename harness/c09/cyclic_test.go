package c09

// freeze() on values that contain themselves. "Recursively converts a value
// into its fully immutable equivalent": whatever freeze returned, no mutable
// array or map may be reachable from it through arrays and maps (error values
// are returned as they are and are not descended into) - also when the value
// is cyclic, and whichever container of the cycle freeze was handed: a
// back-reference met while a container is being frozen has to resolve to the
// frozen container, not to the original. The argument must keep its kind.
// Programs come from harness/cyc (cycles through arrays, maps, immutable
// wrappers, error values; only operations outside open finding F10), in its
// read-only form: immutable(x) shares x's storage, so a write through x after
// freeze(immutable(x)) would change the frozen value legitimately ("provided
// no mutable alias of its storage existed before").

import (
	"fmt"
	"strings"
	"testing"

	"github.com/d5/tengo/v2"
	"pgregory.net/rapid"

	"verifharness/cyc"
	"verifharness/ev"
)

type cyclicPayload struct {
	Source string `json:"source"`
}

// mutableReachable returns a path to a mutable container reachable from o
// ("" = none), walking arrays and maps of both kinds with a visited set.
func mutableReachable(o tengo.Object, path string, seen map[tengo.Object]bool) string {
	if o == nil || seen[o] {
		return ""
	}
	switch x := o.(type) {
	case *tengo.Array:
		return path + " is a mutable array"
	case *tengo.Map:
		return path + " is a mutable map"
	case *tengo.ImmutableArray:
		seen[o] = true
		for i, e := range x.Value {
			if r := mutableReachable(e, fmt.Sprintf("%s[%d]", path, i), seen); r != "" {
				return r
			}
		}
	case *tengo.ImmutableMap:
		seen[o] = true
		for k, e := range x.Value {
			if r := mutableReachable(e, path+"."+k, seen); r != "" {
				return r
			}
		}
	}
	return ""
}

func checkFreezeCyclic(t ev.TB, test string, p cyclicPayload) {
	s := tengo.NewScript([]byte(p.Source))
	c, err := s.Compile()
	if err != nil {
		ev.Fail(t, test, p, "generated program does not compile: %v\n%s", err, p.Source)
		return
	}
	_ = c.Run() // a run-time error of the (only ever last) failing operation is fine
	frozen := 0
	for _, v := range c.GetAll() {
		if !strings.HasPrefix(v.Name(), "fz") || v.Object() == nil {
			continue
		}
		frozen++
		if r := mutableReachable(v.Object(), v.Name(), map[tengo.Object]bool{}); r != "" {
			ev.Fail(t, test, p, "the result of freeze() is not immutable all the way: %s\n--- source ---\n%s", r, p.Source)
			return
		}
	}
	if frozen == 0 {
		ev.Discard("no freeze result in this program")
		return
	}
	ev.Case("cyc|"+p.Source, frozen >= 2, "freeze-of-cyclic-values", fmt.Sprintf("freeze-results:%d", min(frozen, 4)))
}

func TestFreezeCyclic(t *testing.T) {
	rapid.Check(t, func(t *rapid.T) {
		checkFreezeCyclic(t, "TestFreezeCyclic", cyclicPayload{Source: cyc.SourceReadOnly(t)})
	})
}
