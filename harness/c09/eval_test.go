package c09

// Applying operations to the model, and the oracle that compares one step of
// a case on the real VM with the model.

import (
	"fmt"
	"strings"

	"github.com/d5/tengo/v2"

	"verifharness/tv"
)

// outcome: what the model predicts for one operation.
type outcome struct {
	err       string // predicted run-time error class, "" = must succeed
	immTarget bool   // the error is the refusal to write immutable storage (clause 2)
	fromImm   bool   // the operand is, or was reached through, immutable storage / a derived handle
	operand   *mval
}

// resolve follows a read path from a handle.
func (m *model) resolve(h string, path []sel) (v *mval, viaImm bool, err error) {
	v, ok := m.h[h]
	if !ok {
		return nil, false, fmt.Errorf("unknown handle %q", h)
	}
	for _, s := range path {
		if v.immContainer() {
			viaImm = true
		}
		nv, e := m.index(v, s)
		if e != "" {
			return nil, false, fmt.Errorf("path %s%s: %s", h, pathSrc(path), e)
		}
		v = nv
	}
	if v.immContainer() {
		viaImm = true
	}
	return v, viaImm, nil
}

func (m *model) buildAll(vs []*vnode, opnd *mval) ([]*mval, error) {
	out := make([]*mval, 0, len(vs))
	for _, v := range vs {
		x, err := m.build(v, nil, opnd)
		if err != nil {
			return nil, err
		}
		out = append(out, x)
	}
	return out, nil
}

// arith: compound assignment / ++ -- on the scalars the generator uses.
func arith(cur *mval, tok string, rhs *mval) (*mval, bool) {
	if cur.k != kScalar || rhs.k != kScalar {
		return nil, false
	}
	switch a := cur.obj.(type) {
	case *tengo.Int:
		b, ok := rhs.obj.(*tengo.Int)
		if !ok {
			return nil, false
		}
		switch tok {
		case "+=", "++":
			return scalarOf(&tengo.Int{Value: a.Value + b.Value}), true
		case "-=", "--":
			return scalarOf(&tengo.Int{Value: a.Value - b.Value}), true
		case "*=":
			return scalarOf(&tengo.Int{Value: a.Value * b.Value}), true
		}
	case *tengo.String:
		b, ok := rhs.obj.(*tengo.String)
		if ok && tok == "+=" {
			return scalarOf(&tengo.String{Value: a.Value + b.Value}), true
		}
	}
	return nil, false
}

var oneVal = scalarOf(&tengo.Int{Value: 1})

// apply runs one operation on the model. A non-nil error is a defect of the
// generator or a malformed replay, never a verdict.
func (m *model) apply(o *op) (out outcome, herr error) {
	x, viaImm, err := m.resolve(o.H, o.Path)
	if err != nil {
		return out, err
	}
	out.operand = x
	out.fromImm = viaImm || m.derived[o.H]
	var res *mval
	needSel := func() error {
		if o.Sel == nil {
			return fmt.Errorf("%s without selector", o.Kind)
		}
		return nil
	}
	switch o.Kind {
	case "get":
		res = x
	case "slice":
		if x.k != kArr {
			return out, fmt.Errorf("slice of %s", x.typeName())
		}
		l, h, bad := clampSlice(x.n, o.Lo, o.Hi)
		if bad {
			out.err = eBadSlice
			break
		}
		res = m.sliceOf(x, l, h)
	case "append":
		if len(o.Vals) == 0 {
			return out, fmt.Errorf("append without items")
		}
		if x.k != kArr {
			out.err = eArgType
			break
		}
		vals, err := m.buildAll(o.Vals, x)
		if err != nil {
			return out, err
		}
		res = m.appendTo(x, vals)
	case "add":
		var y *mval
		if o.Val != nil {
			y, err = m.build(o.Val, nil, x)
		} else {
			y, _, err = m.resolve(o.H2, o.Path2)
		}
		if err != nil {
			return out, err
		}
		if x.k != kArr || y.k != kArr || x.imm != y.imm {
			out.err = eInvOp
			break
		}
		if y.st.fuzzy {
			return out, fmt.Errorf("add: right operand has unknown contents")
		}
		// the sum is a new array (docs/operators.md: "return a concatenated array")
		res = m.concat(x, y)
	case "copy":
		if !clean(x) {
			return out, fmt.Errorf("copy of a value with unknown contents")
		}
		res = m.copyOf(x)
	case "immutable":
		res = m.immutableOf(x)
	case "freeze":
		if !clean(x) {
			return out, fmt.Errorf("freeze of a value with unknown contents")
		}
		res = m.freezeOf(x, map[*mval]*mval{})
	case "spread":
		if x.k != kArr {
			out.err = eNotArray
			break
		}
		if x.st.fuzzy {
			return out, fmt.Errorf("spread of an array with unknown contents")
		}
		val, err := m.build(o.Val, nil, x)
		if err != nil {
			return out, err
		}
		arr := m.newArr(append([]*mval{}, x.window()...))
		if arr.n == 0 {
			out.err = eIOOB
			break
		}
		arr.st.cells[0] = val
		res = arr
	case "wrap":
		res, err = m.build(o.Val, nil, x)
		if err != nil {
			return out, err
		}
	case "splice":
		if !(x.k == kArr && !x.imm) {
			out.err = eArgType
			out.immTarget = x.k == kArr && x.imm
			break
		}
		n := x.n
		if o.Start < 0 || o.Start > n || o.Count < 0 {
			out.err = eIOOB
			break
		}
		cnt := o.Count
		if o.Start+cnt > n {
			cnt = n - o.Start
		}
		items, err := m.buildAll(o.Vals, x)
		if err != nil {
			return out, err
		}
		newLen := n - cnt + len(items)
		old := x.st
		if old.fuzzy {
			rs := m.newStore(make([]*mval, cnt))
			rs.fuzzy = true
			res = &mval{k: kArr, st: rs, n: cnt}
			if newLen <= n {
				x.n = newLen
				touch(old)
			} else {
				s := m.newStore(make([]*mval, newLen))
				s.fuzzy = true
				touch(old)
				join(s, old)
				x.st, x.off, x.n = s, 0, newLen
			}
			break
		}
		win := append([]*mval{}, x.window()...)
		res = m.newArr(append([]*mval{}, win[o.Start:o.Start+cnt]...))
		newCells := make([]*mval, 0, newLen)
		newCells = append(newCells, win[:o.Start]...)
		newCells = append(newCells, items...)
		newCells = append(newCells, win[o.Start+cnt:]...)
		if newLen <= n {
			// always in place: the head slice keeps the capacity
			copy(old.cells[x.off:], newCells)
			x.n = newLen
			touch(old)
		} else {
			// in place when capacity allows, else the array moves
			s := m.newStore(newCells)
			touch(old)
			old.fuzzy = true
			join(s, old)
			x.st, x.off, x.n = s, 0, newLen
		}
	case "assign":
		if err := needSel(); err != nil {
			return out, err
		}
		val, err := m.build(o.Val, nil, x)
		if err != nil {
			return out, err
		}
		if val.isContainer() || val.k == kErr {
			var g *agroup
			var ms *mstore
			if x.k == kArr {
				g = x.st.grp
			} else if x.k == kMap {
				ms = x.ms
			}
			if (g != nil || ms != nil) && reachesStorage(val, g, ms) {
				return out, fmt.Errorf("assignment would build a cycle")
			}
		}
		out.err, out.immTarget = m.store(x, *o.Sel, val)
	case "compound", "incdec":
		if err := needSel(); err != nil {
			return out, err
		}
		cur, e := m.index(x, *o.Sel)
		if e != "" {
			return out, fmt.Errorf("%s: reading the element: %s", o.Kind, e)
		}
		rhs := oneVal
		if o.Kind == "compound" {
			rhs, err = m.build(o.Val, nil, x)
			if err != nil {
				return out, err
			}
		}
		nv, ok := arith(cur, o.Tok, rhs)
		if !ok {
			return out, fmt.Errorf("%s %s on %s not modelled", o.Kind, o.Tok, cur.typeName())
		}
		out.err, out.immTarget = m.store(x, *o.Sel, nv)
	case "delete":
		if x.k == kMap && !x.imm {
			delete(x.ms.m, o.Key)
		} else {
			out.err = eArgType
			out.immTarget = x.k == kMap && x.imm
		}
	case "forin":
		val, err := m.build(o.Val, nil, x)
		if err != nil {
			return out, err
		}
		if val.k != kScalar {
			return out, fmt.Errorf("forin writes scalars only")
		}
		switch x.k {
		case kArr:
			if x.n == 0 {
				break
			}
			if x.imm {
				out.err, out.immTarget = eNIA, true
				break
			}
			for i := 0; i < x.n; i++ {
				x.st.cells[x.off+i] = val
			}
			touch(x.st)
		case kMap:
			if len(x.ms.m) == 0 {
				break
			}
			if x.imm {
				out.err, out.immTarget = eNIA, true
				break
			}
			for _, k := range sortedKeys(x.ms.m) {
				x.ms.m[k] = val
			}
		default:
			return out, fmt.Errorf("forin over %s", x.typeName())
		}
	case "forval":
		if err := needSel(); err != nil {
			return out, err
		}
		if x.k != kArr || x.st.fuzzy {
			return out, fmt.Errorf("forval needs an array with known contents")
		}
		val, err := m.build(o.Val, nil, x)
		if err != nil {
			return out, err
		}
		if val.k != kScalar {
			return out, fmt.Errorf("forval writes scalars only")
		}
		for _, c := range append([]*mval{}, x.window()...) {
			if e, it := m.store(c, *o.Sel, val); e != "" {
				out.err, out.immTarget = e, it
				break
			}
		}
	default:
		return out, fmt.Errorf("unknown operation kind %q", o.Kind)
	}
	if strings.HasPrefix(out.err, "harness:") {
		return out, fmt.Errorf("%s", out.err)
	}
	if out.err == "" && o.New != "" {
		if res == nil {
			return out, fmt.Errorf("%s defines %s but has no result", o.Kind, o.New)
		}
		if _, dup := m.h[o.New]; dup {
			return out, fmt.Errorf("handle %s defined twice", o.New)
		}
		m.define(o.New, res)
		if out.fromImm {
			m.derived[o.New] = true
		}
	}
	return out, nil
}

// ---------- the oracle ----------

type payload struct {
	Setup *setupSpec `json:"setup"`
	Ops   []*op      `json:"ops"`            // operations that succeeded so far (all predicted to succeed)
	Last  *op        `json:"last,omitempty"` // the operation under test
	Src   string     `json:"script,omitempty"`
}

type verdictKind int

const (
	vOK         verdictKind = iota
	vViolation              // the property is violated
	vDivergence             // model and VM disagree about something the property does not speak about
	vHarness                // malformed case / generator defect
)

type verdict struct {
	kind   verdictKind
	msg    string
	out    outcome
	model  *model
	runErr error
	src    string
}

func (p *payload) script() (string, *tengo.ModuleMap, map[string]tengo.Object) {
	main, mods, host := p.Setup.program()
	var sb strings.Builder
	sb.WriteString(main)
	for _, o := range p.Ops {
		sb.WriteString(o.src())
		sb.WriteByte('\n')
	}
	if p.Last != nil {
		sb.WriteString(p.Last.src())
		sb.WriteByte('\n')
	}
	return sb.String(), mods, host
}

// modelAfter rebuilds the model state after the kept operations.
func (p *payload) modelAfter() (*model, error) {
	m, err := p.Setup.initModel()
	if err != nil {
		return nil, err
	}
	for i, o := range p.Ops {
		out, err := m.apply(o)
		if err != nil {
			return nil, fmt.Errorf("op %d (%s): %v", i, o.src(), err)
		}
		if out.err != "" {
			return nil, fmt.Errorf("op %d (%s) is predicted to fail (%s) but is listed as succeeded", i, o.src(), out.err)
		}
	}
	return m, nil
}

func hostDescribe(attrs map[string]tengo.Object) string {
	if attrs == nil {
		return ""
	}
	return tv.Describe(&tengo.Map{Value: attrs})
}

// evalCase runs the script (kept operations plus the one under test) from
// scratch on the real VM and on the model, and compares.
func evalCase(p *payload) verdict {
	if p.Setup == nil {
		return verdict{kind: vHarness, msg: "no setup"}
	}
	m, err := p.modelAfter()
	if err != nil {
		return verdict{kind: vHarness, msg: err.Error()}
	}
	var out outcome
	if p.Last != nil {
		out, err = m.apply(p.Last)
		if err != nil {
			return verdict{kind: vHarness, msg: fmt.Sprintf("last op (%s): %v", p.Last.src(), err)}
		}
	}
	src, mods, host := p.script()
	v := verdict{out: out, model: m, src: src}
	hostBefore := hostDescribe(host)
	res := runVM(src, mods)
	if res.compileErr != nil {
		v.kind, v.msg = vHarness, fmt.Sprintf("script does not compile: %v\n%s", res.compileErr, src)
		return v
	}
	v.runErr = res.runErr
	fail := func(k verdictKind, format string, args ...interface{}) verdict {
		v.kind = k
		v.msg = fmt.Sprintf(format, args...) + "\nscript:\n" + src
		return v
	}

	// clause 2: an operation that targets immutable storage must fail with a
	// run-time error; every other operation of the script must run.
	lastSrc := ""
	if p.Last != nil {
		lastSrc = p.Last.src()
	}
	switch {
	case out.err != "" && res.runErr == nil:
		if out.immTarget {
			return fail(vViolation, "%q targets immutable storage (%s) and was carried out without a run-time error (expected: %s)",
				lastSrc, out.operand.typeName(), out.err)
		}
		return fail(vDivergence, "%q ran, the model expected the run-time error %q", lastSrc, out.err)
	case out.err == "" && res.runErr != nil:
		return fail(vDivergence, "unexpected run-time error: %v", res.runErr)
	case out.err != "":
		msg := res.runErr.Error()
		if !strings.HasPrefix(msg, "Runtime Error:") {
			return fail(vDivergence, "%q failed, but not with a run-time error: %v", lastSrc, res.runErr)
		}
		if !strings.Contains(msg, out.err) {
			return fail(vDivergence, "%q failed with %q, the model expected %q", lastSrc, firstLine(msg), out.err)
		}
	}

	// clause 1 (and 3): deep snapshots. Immutable values without a mutable
	// alias first: a difference there is a violation.
	var others []string
	for _, name := range m.names {
		if name == m.root || m.h[name].sealedImm() {
			if d := match(m.h[name], res.get(name), name, 0); d != "" {
				return fail(vViolation, "immutable value changed or is not what its construction says: %s\n  expected %s = %s\n  actual   %s = %s",
					d, name, clip(m.h[name].render(0)), name, clip(tv.Describe(res.get(name))))
			}
		} else {
			others = append(others, name)
		}
	}
	if host != nil {
		if after := hostDescribe(host); after != hostBefore {
			return fail(vViolation, "the host's builtin-module table changed:\n  before %s\n  after  %s", clip(hostBefore), clip(after))
		}
	}
	// clause 3: freeze returns a value equal to its argument
	if p.Last != nil && p.Last.Kind == "freeze" && p.Last.Route == "" && out.err == "" && !containsFuncOrErr(out.operand) {
		if got := res.get(eqName(p.Last.New)); got != tengo.TrueValue {
			return fail(vViolation, "freeze(x) == x is %s for x = %s", tv.Describe(got), clip(out.operand.render(0)))
		}
	}
	for _, name := range others {
		if d := match(m.h[name], res.get(name), name, 0); d != "" {
			return fail(vDivergence, "handle differs from the model: %s\n  expected %s = %s\n  actual   %s = %s",
				d, name, clip(m.h[name].render(0)), name, clip(tv.Describe(res.get(name))))
		}
	}
	return v
}

func firstLine(s string) string {
	if i := strings.IndexByte(s, '\n'); i >= 0 {
		return s[:i]
	}
	return s
}
