package c09

// Findings of C09: history, reproducers, and the (currently empty) list of
// open-finding switches.
//
// F14, F15 and F16 were re-derived by this check itself on the tree as it was
// before the repairs (TestImmutableSequences generating the patterns freely:
// first alarm after 35 sequences for F14, 45 for F15; F16 alarmed before
// 17a3ef9). All three are REPAIRED in /repo; the model gives the derived arrays
// the semantics the property demands - fresh mutable arrays sharing nothing
// with the immutable one - the generator exercises them fully, and the
// hand-minimised reproducers (TestWriteFindingReplays) are regression replays
// under replays/C09/fixed, run by TestRegressions in every tier.
//
// F14 (fixed by /repo 8401ffd) - a slice of an immutable array was a mutable
// window onto the immutable storage (vm.go OpSliceIndex, case *ImmutableArray):
//
//	root := immutable([1, 2, 3]); h1 := root[0:2]; h1[0] = 42            // root was [42, 2, 3]
//	root := immutable([1, 2, 3]); h1 := root[:0]; h2 := append(h1, 42)   // root was [42, 2, 3]
//
// F15 (fixed by /repo 8401ffd) - append to an immutable array whose backing
// slice had spare capacity (literals of 3, 5, 6, 7, 9... elements, results of
// append/copy, slices) returned a mutable array on the same backing array
// (builtins.go builtinAppend, case *ImmutableArray):
//
//	root := immutable([1, 2, 3]); h1 := append(root, 0); h1[0] = 42      // root was [42, 2, 3]
//
// F16 (fixed by /repo 17a3ef9) - immutable-array + immutable-array aliased the
// left operand, always with an empty right operand, else when capacity allowed
// (objects.go (*ImmutableArray).BinaryOp):
//
//	root := immutable([1, 2, 3]); h1 := root + immutable([0]); h1[0] = 42 // root was [42, 2, 3]
//
// Observations that are NOT findings (outside the property's proviso or
// documented behaviour; the model follows the implementation):
//   - h := [1,2]; x := immutable(h); f := freeze(x); h[0] = 9 changes f: freeze
//     returns an already-immutable argument without mutable descendants as it is
//     (docs/builtins.md), so f still shares h's storage (a mutable alias existed before).
//   - freeze returns errors and functions as they are (docs/builtins.md):
//     freeze([error([1])])[0].value[0] = 9 is legal.
//   - BuiltinModule.AsImmutableMap copies the attributes: array/map attributes,
//     even ImmutableArray ones, arrive as MUTABLE arrays/maps in the script; only
//     the table itself is immutable. The check verifies the top-level refusal and
//     that the host's Attrs never change.
//   - append(a, x) on a MUTABLE array still works in place when capacity allows
//     (two appends to the same array overwrite each other's element): F1's
//     family, not C09's; the model treats it as "contents unknown" (fuzzy).

import (
	"encoding/json"
	"os"
	"path/filepath"
	"testing"
)

// openFindings: switches of findings that are still open in /repo (BUILDING.md
// rule 3). None at present. A new one gets: an entry here, a predicate in the
// generator that excludes exactly its pattern (counted with
// ev.Discard("known:<id>")), a line in knownWhat, and a reproducer under
// replays/C09/open (TestKnownFindings prints KNOWN-FINDING while it fails).
var openFindings = map[string]bool{}

// knownWhat: call site + input pattern of each open finding.
var knownWhat = map[string]string{}

// TestWriteFindingReplays (C09_WRITE_REPLAYS=<dir>) writes the hand-minimised
// reproducers of F14-F16 in replay format; this is how the files under
// replays/C09/fixed were made.
func TestWriteFindingReplays(t *testing.T) {
	dir := os.Getenv("C09_WRITE_REPLAYS")
	if dir == "" {
		t.Skip("no C09_WRITE_REPLAYS")
	}
	lit := func(i int) *vnode { return &vnode{T: "s", Lit: i} }
	root123 := &setupSpec{Kind: "imm", Root: &vnode{T: "a", Kids: []*vnode{lit(1), lit(2), lit(3)}}}
	w := &op{Kind: "assign", H: "h1", Sel: &sel{I: 0}, Val: lit(5)}
	cases := map[string]*payload{
		"F14-slice-of-immutable-array-then-write": {Setup: root123,
			Ops: []*op{{Kind: "slice", H: "root", New: "h1", Lo: intp(0), Hi: intp(2)}}, Last: w},
		"F14-slice-of-immutable-array-then-append": {Setup: root123,
			Ops:  []*op{{Kind: "slice", H: "root", New: "h1", Hi: intp(0)}},
			Last: &op{Kind: "append", H: "h1", New: "h2", Vals: []*vnode{lit(5)}}},
		"F15-append-to-immutable-array-then-write": {Setup: root123,
			Ops: []*op{{Kind: "append", H: "root", New: "h1", Vals: []*vnode{lit(0)}}}, Last: w},
		"F16-sum-of-immutable-arrays-then-write": {Setup: root123,
			Ops: []*op{{Kind: "add", H: "root", New: "h1", Val: &vnode{T: "i", Kids: []*vnode{{T: "a", Kids: []*vnode{lit(0)}}}}}}, Last: w},
		"F16-sum-with-empty-immutable-array-then-write": {Setup: root123,
			Ops: []*op{{Kind: "add", H: "root", New: "h1", Val: &vnode{T: "i", Kids: []*vnode{{T: "a"}}}}}, Last: w},
	}
	for name, p := range cases {
		v := evalCase(p)
		p.Src = v.src
		doc := map[string]interface{}{"property": "C09", "test": "TestKnownFindings", "message": firstLine(v.msg), "payload": p}
		b, _ := json.MarshalIndent(doc, "", " ")
		if err := os.WriteFile(filepath.Join(dir, name+".json"), b, 0o644); err != nil {
			t.Fatal(err)
		}
		t.Logf("%s: verdict %d %s", name, v.kind, firstLine(v.msg))
	}
}
