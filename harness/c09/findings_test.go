package c09

// Findings of C09: switches, signatures, reproducers. (The text below is what
// harness/c09/FINDINGS.md says; it is kept next to the switches it explains.)
//
// All three findings were re-derived by the check itself: TestImmutableSequences
// with the exclusion switches off (C09_IGNORE_OPEN=F14 …) alarms after 35 (F14)
// and 45 (F15) sequences; F16 alarmed as well before /repo commit 17a3ef9. The
// committed replays are hand-minimised versions (TestWriteFindingReplays).
//
// F14 (OPEN) — a slice of an immutable array is a mutable window onto the
// immutable storage.
//
//	root := immutable([1, 2, 3]); h1 := root[0:2]; h1[0] = 42     // root is [42, 2, 3]
//	root := immutable([1, 2, 3]); h1 := root[:0]; h2 := append(h1, 42)  // root is [42, 2, 3]
//
// Expected: root stays [1, 2, 3]; the slice is handed out as a mutable array, so
// writing it is legal, it just must not reach root.
// Where: /repo/vm.go OpSliceIndex, case *ImmutableArray:
// &Array{Value: left.Value[lowIdx:highIdx]} aliases left.Value.
// Minimal fix (copy instead of alias):
//
//	elems := make([]Object, highIdx-lowIdx)
//	copy(elems, left.Value[lowIdx:highIdx])
//	var val Object = &Array{Value: elems}
//
// F15 (OPEN) — append to an immutable array may alias the immutable storage.
//
//	root := immutable([1, 2, 3])   // literal: len 3, cap 4 (OpArray grows by append)
//	h1 := append(root, 0); h1[0] = 42                               // root is [42, 2, 3]
//
// Happens whenever the immutable array's backing slice has spare capacity
// (literals of 3, 5, 6, 7, 9… elements, results of append/copy, slices); with
// immutable([1, 2]) Go's append reallocates and nothing is shared. Two appends
// to the same immutable array also overwrite each other's last element.
// Where: /repo/builtins.go builtinAppend, case *ImmutableArray:
// &Array{Value: append(arg.Value, args[1:]...)}.
// Minimal fix:
//
//	elems := make([]Object, 0, len(arg.Value)+len(args)-1)
//	elems = append(elems, arg.Value...)
//	elems = append(elems, args[1:]...)
//	return &Array{Value: elems}, nil
//
// F16 (FIXED by /repo 17a3ef9) — immutable-array + immutable-array aliased the
// left operand (always with an empty right operand, else when capacity allowed).
//
//	root := immutable([1, 2, 3]); h1 := root + immutable([0]); h1[0] = 42   // root was [42, 2, 3]
//
// Where: /repo/objects.go (*ImmutableArray).BinaryOp, append(o.Value, rhs.Value...).
// The switch is off, sums are written through, the reproducers are regression
// replays under replays/C09/fixed.
//
// How open findings are kept out of the run: the model gives slices / append
// results / sums of immutable arrays the semantics the property demands (a
// fresh mutable array) but remembers that they were carved out of sealed
// immutable storage (astore.via, astore.taint). While a finding is open,
// operations that would write through such an array or append to it in place
// (index / compound / ++ assignment, append, +, splice, for-in writes) are not
// generated: the draw is counted with ev.Discard("known:F14"/"known:F15") and
// another action is drawn. Deriving such arrays, reading, copying, freezing,
// spreading and wrapping them stays in.
//
// Observations that are NOT findings (outside the property's proviso or
// documented behaviour; the model follows the implementation):
//   - h := [1,2]; x := immutable(h); f := freeze(x); h[0] = 9 changes f: freeze
//     returns an already-immutable argument without mutable descendants as it is
//     (docs/builtins.md), so f still shares h's storage (a mutable alias existed before).
//   - freeze returns errors and functions as they are (docs/builtins.md):
//     freeze([error([1])])[0].value[0] = 9 is legal.
//   - BuiltinModule.AsImmutableMap copies the attributes: array/map attributes,
//     even ImmutableArray ones, arrive as MUTABLE arrays/maps in the script; only
//     the table itself is immutable. The check verifies the top-level refusal and
//     that the host's Attrs never change.

import (
	"encoding/json"
	"os"
	"path/filepath"
	"testing"
)

// openFindings: the generator does not write through arrays that the present
// implementation carves out of immutable storage. Turn an entry off once the
// defect is repaired in /repo (and move its replays from replays/C09/open to
// replays/C09/fixed).
var openFindings = map[string]bool{
	"F14": true, // immutable-array[l:h] aliases the immutable storage
	"F15": true, // append(immutable-array, …) may alias it (spare capacity)
	// F16 (immutable-array + immutable-array aliased the left operand) was
	// repaired in /repo by 17a3ef9; its replays live in replays/C09/fixed.
	"F16": false,
}

// knownWhat: call site + input pattern of each finding (KNOWN-FINDING lines).
var knownWhat = map[string]string{
	"F14": "site=vm.OpSliceIndex(*ImmutableArray) input=slice of an immutable array, then a write or append through the slice: the immutable array changes",
	"F15": "site=builtins.builtinAppend(*ImmutableArray) input=append to an immutable array with spare capacity, then a write through the result: the immutable array changes",
	"F16": "site=objects.(*ImmutableArray).BinaryOp(+) input=immutable-array + immutable-array, then a write through the result: the left operand changes",
}

// TestWriteFindingReplays (C09_WRITE_REPLAYS=<dir>) writes the hand-minimised
// reproducers of F14-F16 in replay format; this is how the files under
// replays/C09/open and replays/C09/fixed were made.
func TestWriteFindingReplays(t *testing.T) {
	dir := os.Getenv("C09_WRITE_REPLAYS")
	if dir == "" {
		t.Skip("no C09_WRITE_REPLAYS")
	}
	lit := func(i int) *vnode { return &vnode{T: "s", Lit: i} }
	root123 := &setupSpec{Kind: "imm", Root: &vnode{T: "a", Kids: []*vnode{lit(1), lit(2), lit(3)}}}
	w := &op{Kind: "assign", H: "h1", Sel: &sel{I: 0}, Val: lit(5)}
	cases := map[string]*payload{
		"F14-slice-of-immutable-array-then-write": {Setup: root123,
			Ops: []*op{{Kind: "slice", H: "root", New: "h1", Lo: intp(0), Hi: intp(2)}}, Last: w},
		"F14-slice-of-immutable-array-then-append": {Setup: root123,
			Ops:  []*op{{Kind: "slice", H: "root", New: "h1", Hi: intp(0)}},
			Last: &op{Kind: "append", H: "h1", New: "h2", Vals: []*vnode{lit(5)}}},
		"F15-append-to-immutable-array-then-write": {Setup: root123,
			Ops: []*op{{Kind: "append", H: "root", New: "h1", Vals: []*vnode{lit(0)}}}, Last: w},
		"F16-sum-of-immutable-arrays-then-write": {Setup: root123,
			Ops: []*op{{Kind: "add", H: "root", New: "h1", Val: &vnode{T: "i", Kids: []*vnode{{T: "a", Kids: []*vnode{lit(0)}}}}}}, Last: w},
		"F16-sum-with-empty-immutable-array-then-write": {Setup: root123,
			Ops: []*op{{Kind: "add", H: "root", New: "h1", Val: &vnode{T: "i", Kids: []*vnode{{T: "a"}}}}}, Last: w},
	}
	for name, p := range cases {
		v := evalCase(p)
		p.Src = v.src
		doc := map[string]interface{}{"property": "C09", "test": "TestKnownFindings", "message": firstLine(v.msg), "payload": p}
		b, _ := json.MarshalIndent(doc, "", " ")
		if err := os.WriteFile(filepath.Join(dir, name+".json"), b, 0o644); err != nil {
			t.Fatal(err)
		}
		t.Logf("%s: verdict %d %s", name, v.kind, firstLine(v.msg))
	}
}
