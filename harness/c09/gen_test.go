package c09

// rapid generators: setups (how the immutable root comes to be) and the
// operations of the state machine. All choices are rapid draws.

import (
	"strconv"

	"pgregory.net/rapid"
)

var keyPool = []string{"a", "b", "c", "k", "n m", "value"}

func genScalar(t *rapid.T) *vnode {
	return &vnode{T: "s", Lit: rapid.IntRange(0, len(scalarPool)-1).Draw(t, "lit")}
}

func genKeys(t *rapid.T, n int) []string {
	keys := make([]string, 0, n)
	start := rapid.IntRange(0, len(keyPool)-1).Draw(t, "key0")
	for i := 0; i < n; i++ {
		keys = append(keys, keyPool[(start+i)%len(keyPool)])
	}
	return keys
}

// genContainer: an array or map literal with generated children.
func genContainer(t *rapid.T, depth, npre int, forceArr, forceMap bool) *vnode {
	n := rapid.IntRange(0, 4).Draw(t, "n")
	isMap := rapid.IntRange(0, 9).Draw(t, "ismap") < 4
	if forceArr {
		isMap = false
	}
	if forceMap {
		isMap = true
	}
	v := &vnode{T: "a"}
	if isMap {
		v.T = "m"
		v.Keys = genKeys(t, n)
	}
	for i := 0; i < n; i++ {
		v.Kids = append(v.Kids, genTree(t, depth-1, npre))
	}
	return v
}

// genTree: any value expression: every scalar type, functions, errors,
// nested mutable and immutable containers, references to shared parts.
func genTree(t *rapid.T, depth, npre int) *vnode {
	k := rapid.IntRange(0, 19).Draw(t, "vk")
	if depth <= 0 && k >= 8 {
		k %= 8
	}
	switch {
	case k < 7:
		return genScalar(t)
	case k == 7:
		if rapid.Bool().Draw(t, "builtin") {
			return &vnode{T: "b"}
		}
		return &vnode{T: "f"}
	case k < 14:
		return genContainer(t, depth, npre, false, false)
	case k < 17:
		if npre > 0 && rapid.IntRange(0, 3).Draw(t, "immref") == 0 {
			return &vnode{T: "i", Kids: []*vnode{{T: "r", Ref: rapid.IntRange(0, npre-1).Draw(t, "ref")}}}
		}
		return &vnode{T: "i", Kids: []*vnode{genContainer(t, depth, npre, false, false)}}
	case k == 17:
		return &vnode{T: "e", Kids: []*vnode{genTree(t, depth-1, npre)}}
	default:
		if npre > 0 {
			return &vnode{T: "r", Ref: rapid.IntRange(0, npre-1).Draw(t, "ref")}
		}
		return genContainer(t, depth, npre, false, false)
	}
}

func genPre(t *rapid.T) []*vnode {
	n := rapid.SampledFrom([]int{0, 0, 1, 1, 2}).Draw(t, "npre")
	var pre []*vnode
	for i := 0; i < n; i++ {
		c := genContainer(t, 2, i, false, false)
		if rapid.IntRange(0, 3).Draw(t, "preimm") == 0 {
			c = &vnode{T: "i", Kids: []*vnode{c}}
		}
		pre = append(pre, c)
	}
	return pre
}

func genSetup(t *rapid.T) *setupSpec {
	kind := rapid.SampledFrom([]string{"imm", "imm", "imm", "imm", "freeze", "freeze", "export", "export", "module", "module", "stdlib"}).Draw(t, "rootkind")
	s := &setupSpec{Kind: kind}
	switch kind {
	case "imm":
		s.Pre = genPre(t)
		s.Root = genContainer(t, 3, len(s.Pre), false, false)
		if s.Root.T == "a" {
			s.Fresh = rapid.SampledFrom([]string{"", "", "", "append", "slice", "add", "copy"}).Draw(t, "fresh")
			if s.Fresh == "append" && len(s.Root.Kids) == 0 {
				s.Fresh = ""
			}
			if s.Fresh == "add" {
				s.Split = rapid.IntRange(0, len(s.Root.Kids)).Draw(t, "split")
			}
		} else if rapid.IntRange(0, 5).Draw(t, "mapcopy") == 0 {
			s.Fresh = "copy"
		}
	case "freeze":
		s.Pre = genPre(t)
		switch rapid.IntRange(0, 3).Draw(t, "frz") {
		case 0:
			if len(s.Pre) > 0 {
				s.Root = &vnode{T: "r", Ref: rapid.IntRange(0, len(s.Pre)-1).Draw(t, "ref")}
				break
			}
			fallthrough
		default:
			s.Root = genContainer(t, 3, len(s.Pre), false, false)
			if rapid.IntRange(0, 4).Draw(t, "frzimm") == 0 {
				s.Root = &vnode{T: "i", Kids: []*vnode{s.Root}}
			}
		}
	case "export":
		s.Pre = genPre(t)
		switch rapid.IntRange(0, 5).Draw(t, "exp") {
		case 0:
			if len(s.Pre) > 0 {
				s.Root = &vnode{T: "r", Ref: rapid.IntRange(0, len(s.Pre)-1).Draw(t, "ref")}
				break
			}
			fallthrough
		default:
			s.Root = genContainer(t, 3, len(s.Pre), false, false)
		}
		s.ViaVar = rapid.Bool().Draw(t, "viavar")
	case "module":
		s.Pre = genPre(t)
		s.Root = genContainer(t, 3, len(s.Pre), false, true)
		if len(s.Root.Kids) == 0 || rapid.Bool().Draw(t, "more") {
			// make sure scalar, array and map attributes are all there
			s.Root.Keys = append(s.Root.Keys, "num", "arr", "tbl", "iarr")
			s.Root.Kids = append(s.Root.Kids, genScalar(t), genContainer(t, 2, len(s.Pre), true, false),
				genContainer(t, 2, len(s.Pre), false, true),
				&vnode{T: "i", Kids: []*vnode{genContainer(t, 1, len(s.Pre), true, false)}})
		}
	case "stdlib":
		s.Stdlib = rapid.SampledFrom([]string{"math", "text"}).Draw(t, "stdlib")
	}
	return s
}

// ---------- operands ----------

type operand struct {
	H      string
	Path   []sel
	V      *mval
	viaImm bool // an immutable container lies on the way (or is the operand)
}

func isKeySel(k string) sel { return sel{IsKey: true, K: k} }

// operands lists what the handles denote, down to depth 3 (known contents only).
func (m *model) operands() []operand {
	var out []operand
	var rec func(h string, path []sel, v *mval, via bool, depth int)
	rec = func(h string, path []sel, v *mval, via bool, depth int) {
		via = via || v.immContainer()
		out = append(out, operand{H: h, Path: append([]sel{}, path...), V: v, viaImm: via})
		if depth >= 3 {
			return
		}
		switch v.k {
		case kArr:
			if v.st.fuzzy {
				return
			}
			for i, c := range v.window() {
				if i >= 5 {
					break
				}
				rec(h, append(path, sel{I: i}), c, via, depth+1)
			}
		case kMap:
			for i, k := range sortedKeys(v.ms.m) {
				if i >= 6 {
					break
				}
				s := isKeySel(k)
				s.Br = (i+depth)%3 == 0
				rec(h, append(path, s), v.ms.m[k], via, depth+1)
			}
		case kErr:
			rec(h, append(path, isKeySel("value")), v.inner, via, depth+1)
		}
	}
	for _, name := range m.names {
		rec(name, nil, m.h[name], m.derived[name], 0)
	}
	return out
}

func filter(cs []operand, f func(operand) bool) []operand {
	var out []operand
	for _, c := range cs {
		if f(c) {
			out = append(out, c)
		}
	}
	return out
}

// pickOperand draws one candidate, half of the time among those that are or
// come from immutable storage.
func pickOperand(t *rapid.T, cs []operand) (operand, bool) {
	if len(cs) == 0 {
		return operand{}, false
	}
	if rapid.Bool().Draw(t, "preferImm") {
		if im := filter(cs, func(c operand) bool { return c.viaImm }); len(im) > 0 {
			cs = im
		}
	}
	return cs[rapid.IntRange(0, len(cs)-1).Draw(t, "operand")], true
}

var smallLits = []*vnode{
	{T: "a", Kids: []*vnode{{T: "s", Lit: 1}}},
	{T: "a"},
	{T: "m", Keys: []string{"a"}, Kids: []*vnode{{T: "s", Lit: 2}}},
	{T: "i", Kids: []*vnode{{T: "a", Kids: []*vnode{{T: "s", Lit: 2}, {T: "s", Lit: 3}}}}},
	{T: "a", Kids: []*vnode{{T: "a", Kids: []*vnode{{T: "s", Lit: 5}}}}},
	{T: "i", Kids: []*vnode{{T: "m", Keys: []string{"k"}, Kids: []*vnode{{T: "a", Kids: []*vnode{{T: "s", Lit: 1}}}}}}},
}

// genVal: a value to write into / append to the container x: a scalar, a
// fresh small container, or another handle (sharing) - never one that
// reaches x's own storage (no cycles).
func genVal(t *rapid.T, m *model, x *mval) *vnode {
	switch rapid.IntRange(0, 9).Draw(t, "valkind") {
	case 0, 1:
		return smallLits[rapid.IntRange(0, len(smallLits)-1).Draw(t, "small")]
	case 2, 3:
		var ok []string
		for _, name := range m.names {
			v := m.h[name]
			if !clean(v) {
				continue
			}
			if x != nil && (v.isContainer() || v.k == kErr) {
				var g *agroup
				var ms *mstore
				if x.k == kArr {
					g = x.st.grp
				} else if x.k == kMap {
					ms = x.ms
				}
				if reachesStorage(v, g, ms) {
					continue
				}
			}
			ok = append(ok, name)
		}
		if len(ok) > 0 {
			return &vnode{T: "h", Name: ok[rapid.IntRange(0, len(ok)-1).Draw(t, "href")]}
		}
	}
	return genScalar(t)
}

func genRoute(t *rapid.T) string {
	return rapid.SampledFrom([]string{"", "", "", "local", "free"}).Draw(t, "route")
}

func intp(i int) *int { return &i }

// genSel: a selector into container v: mostly an existing element.
func genSel(t *rapid.T, v *mval) sel {
	switch v.k {
	case kArr:
		if v.n == 0 {
			return sel{I: 0}
		}
		if rapid.IntRange(0, 11).Draw(t, "oob") == 0 {
			return sel{I: v.n}
		}
		return sel{I: rapid.IntRange(0, v.n-1).Draw(t, "idx")}
	case kMap:
		keys := sortedKeys(v.ms.m)
		if len(keys) == 0 || rapid.IntRange(0, 3).Draw(t, "newkey") == 0 {
			return sel{IsKey: true, K: rapid.SampledFrom([]string{"z", "a", "n m"}).Draw(t, "key"), Br: rapid.Bool().Draw(t, "br")}
		}
		return sel{IsKey: true, K: keys[rapid.IntRange(0, len(keys)-1).Draw(t, "keyidx")], Br: rapid.Bool().Draw(t, "br")}
	}
	return sel{I: 0}
}

func handleName(n int) string { return "h" + strconv.Itoa(n) }
