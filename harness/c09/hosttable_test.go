package c09

// TestBuiltinTablesKeepContents: "a value made immutable ... by being a
// builtin-module table keeps its contents forever". Builtin (Go) modules are
// registered in one ModuleMap - possibly ONE module object under two names,
// possibly two objects with equal attributes - and a drawn sequence of scripts
// is compiled and run from that map, each importing a drawn selection of the
// names (directly, twice, or through a source module). Every table a script
// obtained is kept (the Go object read back with Get) together with its
// description at that moment; after every later step - compiling, running,
// importing the same module object under its other name, an importer's refused
// attempt to write a top-level entry - every kept table must still describe the
// same, and it must carry the name it was imported under.

import (
	"fmt"
	"strings"
	"testing"

	"github.com/d5/tengo/v2"
	"pgregory.net/rapid"

	"verifharness/ev"
	"verifharness/tv"
)

type btScript struct {
	Names    []int  `json:"names"`     // names imported, in order (index into the registered names)
	ViaMod   []bool `json:"via_mod"`   // through a source module re-exporting the table
	TryWrite int    `json:"try_write"` // -1, or the import whose top-level entry the script tries to overwrite (must be refused)
}

type btCase struct {
	Layout  string     `json:"layout"` // one-name | two-names-one-object | two-objects
	Scripts []btScript `json:"scripts"`
}

func btAttrs() map[string]tengo.Object {
	return map[string]tengo.Object{
		"answer": &tengo.Int{Value: 42},
		"name":   &tengo.String{Value: "tbl"},
		"list":   &tengo.ImmutableArray{Value: []tengo.Object{&tengo.Int{Value: 1}, &tengo.String{Value: "two"}}},
		"fn":     &tengo.UserFunction{Name: "fn", Value: func(args ...tengo.Object) (tengo.Object, error) { return tengo.UndefinedValue, nil }},
	}
}

func checkBuiltinTables(t ev.TB, test string, c *btCase) {
	mm := tengo.NewModuleMap()
	names := []string{"alpha"}
	mod := &tengo.BuiltinModule{Attrs: btAttrs()}
	mm.Add("alpha", mod)
	switch c.Layout {
	case "two-names-one-object":
		names = append(names, "beta")
		mm.Add("beta", mod)
	case "two-objects":
		names = append(names, "beta")
		mm.Add("beta", &tengo.BuiltinModule{Attrs: btAttrs()})
	}
	type kept struct {
		obj        tengo.Object
		desc, from string
	}
	var keep []kept
	verify := func(when string) bool {
		for _, k := range keep {
			if got := tv.Describe(k.obj); got != k.desc {
				ev.Fail(t, test, c, "%s: the builtin-module table obtained by %s changed:\n  was %s\n  now %s", when, k.from, k.desc, got)
				return false
			}
		}
		return true
	}
	other := 0
	for si, sc := range c.Scripts {
		var src strings.Builder
		smm := mm.Copy()
		for vi, ni := range sc.Names {
			if sc.ViaMod[vi] {
				mn := fmt.Sprintf("src%d", vi)
				smm.AddSourceModule(mn, []byte(fmt.Sprintf("export import(%q)", names[ni])))
				fmt.Fprintf(&src, "t%d := import(%q)\n", vi, mn)
			} else {
				fmt.Fprintf(&src, "t%d := import(%q)\n", vi, names[ni])
			}
		}
		for vi := range sc.Names {
			fmt.Fprintf(&src, "n%[1]d := t%[1]d.__module_name__\nimm%[1]d := is_immutable_map(t%[1]d)\n", vi)
		}
		if sc.TryWrite >= 0 {
			fmt.Fprintf(&src, "t%d.answer = 7\n", sc.TryWrite)
		}
		s := tengo.NewScript([]byte(src.String()))
		s.SetImports(smm)
		cc, err := s.Compile()
		if err != nil {
			ev.Fail(t, test, c, "script #%d does not compile: %v\n%s", si, err, src.String())
			return
		}
		if !verify(fmt.Sprintf("after compiling script #%d", si)) {
			return
		}
		err = cc.Run()
		if (err != nil) != (sc.TryWrite >= 0) {
			ev.Fail(t, test, c, "script #%d: run error = %v, a top-level write attempted: %v\n%s", si, err, sc.TryWrite >= 0, src.String())
			return
		}
		if !verify(fmt.Sprintf("after running script #%d", si)) {
			return
		}
		for vi, ni := range sc.Names {
			v := cc.Get(fmt.Sprintf("t%d", vi))
			obj := v.Object()
			if _, ok := obj.(*tengo.ImmutableMap); !ok {
				ev.Fail(t, test, c, "script #%d: import(%q) yields %s, not an immutable map", si, names[ni], tv.Describe(obj))
				return
			}
			if got := tv.Describe(cc.Get(fmt.Sprintf("n%d", vi)).Object()); got != fmt.Sprintf("string(%q)", names[ni]) {
				ev.Fail(t, test, c, "script #%d: the table imported as %q says __module_name__ = %s\n%s", si, names[ni], got, src.String())
				return
			}
			keep = append(keep, kept{obj, tv.Describe(obj), fmt.Sprintf("script #%d import(%q)", si, names[ni])})
			if ni > 0 {
				other++
			}
		}
		if !verify(fmt.Sprintf("after reading the tables of script #%d", si)) {
			return
		}
	}
	ev.Case(fmt.Sprintf("bt|%+v", *c), len(c.Scripts) > 1 && other > 0 && other < len(keep), "builtin-tables", "builtin-tables:"+c.Layout)
}

func TestBuiltinTablesKeepContents(t *testing.T) {
	rapid.Check(t, func(t *rapid.T) {
		c := &btCase{Layout: rapid.SampledFrom([]string{"one-name", "two-names-one-object", "two-names-one-object", "two-objects"}).Draw(t, "layout")}
		nn := 2
		if c.Layout == "one-name" {
			nn = 1
		}
		for i, k := 0, rapid.IntRange(1, 4).Draw(t, "scripts"); i < k; i++ {
			sc := btScript{TryWrite: -1}
			for j, n := 0, rapid.IntRange(1, 3).Draw(t, "imports"); j < n; j++ {
				sc.Names = append(sc.Names, rapid.IntRange(0, nn-1).Draw(t, "name"))
				sc.ViaMod = append(sc.ViaMod, rapid.IntRange(0, 3).Draw(t, "viaMod") == 0)
			}
			if rapid.IntRange(0, 3).Draw(t, "tryWrite") == 0 {
				sc.TryWrite = rapid.IntRange(0, len(sc.Names)-1).Draw(t, "tryWriteAt")
			}
			c.Scripts = append(c.Scripts, sc)
		}
		checkBuiltinTables(t, "TestBuiltinTablesKeepContents", c)
	})
}
