package c09

// The model: a tiny abstract heap for the operation language of this check.
//
// Values (mval) are scalars, functions, error values, arrays and maps. An
// array value is a *window* (off, n) onto a store, exactly like a Go slice
// header onto a backing array, and carries the flag "immutable wrapper"
// (ImmutableArray) or not (Array). Several values may window the same store
// (exact aliasing: slices of a mutable array, immutable(x) of a mutable x).
//
// What the language leaves to Go's append capacity (append and growing
// splice on MUTABLE arrays may or may not share the old backing array) is
// modelled as *uncertainty*, never guessed: the result gets its own store
// with known contents, is put in the same "alias group" as the source store,
// and every write to one member of a group makes the other (unsealed)
// members fuzzy = contents unknown from then on, compared as wildcards.
//
// A store that was made immutable without a reachable mutable alias
// (immutable(<fresh expression>), freeze, export, builtin-module table) is
// *sealed*. A sealed store never becomes fuzzy and no model operation ever
// writes it: that is the property. Slices, append results and sums of
// immutable arrays are fresh mutable arrays that share nothing with their
// source (what the property demands; the implementation copies since the
// repair of F14-F16), and so is the sum of two mutable arrays.

import (
	"fmt"
	"sort"
	"strings"

	"github.com/d5/tengo/v2"

	"verifharness/tv"
)

type kind int

const (
	kScalar kind = iota
	kFunc
	kErr
	kArr
	kMap
)

type agroup struct{ members []*astore }

type astore struct {
	id     int
	cells  []*mval
	fuzzy  bool
	sealed bool
	grp    *agroup
}

type mstore struct {
	id     int
	m      map[string]*mval
	sealed bool
}

type mval struct {
	k      kind
	imm    bool
	obj    tengo.Object // kScalar: the value itself
	desc   string       // kFunc: expected tv.Describe rendering
	st     *astore      // kArr
	off, n int
	ms     *mstore // kMap
	inner  *mval   // kErr
}

func (v *mval) isContainer() bool { return v.k == kArr || v.k == kMap }
func (v *mval) immContainer() bool {
	return v.isContainer() && v.imm
}

// sealedImm: an immutable container whose storage has no reachable mutable
// alias - the values the property speaks about.
func (v *mval) sealedImm() bool {
	switch v.k {
	case kArr:
		return v.imm && v.st.sealed
	case kMap:
		return v.imm && v.ms.sealed
	}
	return false
}

func (v *mval) typeName() string {
	switch v.k {
	case kArr:
		if v.imm {
			return "imm-array"
		}
		return "array"
	case kMap:
		if v.imm {
			return "imm-map"
		}
		return "map"
	case kErr:
		return "error"
	case kFunc:
		return "function"
	}
	return v.obj.TypeName()
}

func scalarOf(o tengo.Object) *mval { return &mval{k: kScalar, obj: o} }

var undefVal = scalarOf(tengo.UndefinedValue)

type model struct {
	h       map[string]*mval
	names   []string
	derived map[string]bool // handle derived from immutable storage
	nstore  int
	goSide  bool // building host-side (builtin module) values
	root    string

	// host side of a builtin-module root
	hostAttrs  map[string]tengo.Object
	hostBefore string
}

func newModel() *model {
	return &model{h: map[string]*mval{}, derived: map[string]bool{}}
}

func (m *model) define(name string, v *mval) {
	if _, dup := m.h[name]; !dup {
		m.names = append(m.names, name)
	}
	m.h[name] = v
}

func (m *model) newStore(cells []*mval) *astore {
	m.nstore++
	s := &astore{id: m.nstore, cells: cells}
	s.grp = &agroup{members: []*astore{s}}
	return s
}

func (m *model) newMStore(mm map[string]*mval) *mstore {
	m.nstore++
	return &mstore{id: m.nstore, m: mm}
}

func (m *model) newArr(cells []*mval) *mval {
	return &mval{k: kArr, st: m.newStore(cells), n: len(cells)}
}

func join(s, with *astore) {
	s.grp = with.grp
	with.grp.members = append(with.grp.members, s)
}

// touch: s was written; everything that may share its backing array is
// unknown from now on - except sealed stores, which must not change.
func touch(s *astore) {
	for _, u := range s.grp.members {
		if u != s && !u.sealed {
			u.fuzzy = true
		}
	}
}

// seal marks the storage of a freshly built immutable value as alias-free.
func seal(v *mval) {
	switch v.k {
	case kArr:
		v.st.sealed = true
		v.st.fuzzy = false
		v.st.grp = &agroup{members: []*astore{v.st}}
	case kMap:
		v.ms.sealed = true
	}
}

func (v *mval) window() []*mval { return v.st.cells[v.off : v.off+v.n] }

// ---------- semantic operations ----------

func (m *model) immutableOf(x *mval) *mval {
	switch x.k {
	case kArr:
		if x.imm {
			return x
		}
		return &mval{k: kArr, imm: true, st: x.st, off: x.off, n: x.n}
	case kMap:
		if x.imm {
			return x
		}
		return &mval{k: kMap, imm: true, ms: x.ms}
	}
	return x
}

// copyOf: the copy builtin - deep, always mutable, sharing un-shared.
func (m *model) copyOf(x *mval) *mval {
	switch x.k {
	case kErr:
		return &mval{k: kErr, inner: m.copyOf(x.inner)}
	case kArr:
		if x.st.fuzzy {
			s := m.newStore(make([]*mval, x.n))
			s.fuzzy = true
			return &mval{k: kArr, st: s, n: x.n}
		}
		cells := make([]*mval, 0, x.n)
		for _, c := range x.window() {
			cells = append(cells, m.copyOf(c))
		}
		return m.newArr(cells)
	case kMap:
		mm := make(map[string]*mval, len(x.ms.m))
		for k, c := range x.ms.m {
			mm[k] = m.copyOf(c)
		}
		return &mval{k: kMap, ms: m.newMStore(mm)}
	}
	return x
}

// freezeOf mirrors the documented behaviour of freeze: deep conversion,
// sharing of mutable parts preserved (memo), already-immutable parts without
// mutable descendants returned as they are, errors/functions as they are.
func (m *model) freezeOf(x *mval, memo map[*mval]*mval) *mval {
	switch x.k {
	case kArr:
		if !x.imm {
			if f, ok := memo[x]; ok {
				return f
			}
			cells := make([]*mval, x.n)
			f := &mval{k: kArr, imm: true, st: m.newStore(cells), n: x.n}
			f.st.sealed = true
			memo[x] = f
			for i, c := range x.window() {
				cells[i] = m.freezeOf(c, memo)
			}
			return f
		}
		cells := make([]*mval, x.n)
		changed := false
		for i, c := range x.window() {
			cells[i] = m.freezeOf(c, memo)
			if cells[i] != c {
				changed = true
			}
		}
		if !changed {
			return x
		}
		f := &mval{k: kArr, imm: true, st: m.newStore(cells), n: x.n}
		f.st.sealed = true
		return f
	case kMap:
		if !x.imm {
			if f, ok := memo[x]; ok {
				return f
			}
			mm := make(map[string]*mval, len(x.ms.m))
			f := &mval{k: kMap, imm: true, ms: m.newMStore(mm)}
			f.ms.sealed = true
			memo[x] = f
			for _, k := range sortedKeys(x.ms.m) {
				mm[k] = m.freezeOf(x.ms.m[k], memo)
			}
			return f
		}
		mm := make(map[string]*mval, len(x.ms.m))
		changed := false
		for _, k := range sortedKeys(x.ms.m) {
			mm[k] = m.freezeOf(x.ms.m[k], memo)
			if mm[k] != x.ms.m[k] {
				changed = true
			}
		}
		if !changed {
			return x
		}
		f := &mval{k: kMap, imm: true, ms: m.newMStore(mm)}
		f.ms.sealed = true
		return f
	}
	return x
}

func sortedKeys(mm map[string]*mval) []string {
	ks := make([]string, 0, len(mm))
	for k := range mm {
		ks = append(ks, k)
	}
	sort.Strings(ks)
	return ks
}

// freshFrom: a new mutable array holding x[lo:hi] followed by extra, sharing
// nothing with x.
func (m *model) freshFrom(x *mval, lo, hi int, extra []*mval) *mval {
	n := hi - lo + len(extra)
	if x.st.fuzzy {
		s := m.newStore(make([]*mval, n))
		s.fuzzy = true
		return &mval{k: kArr, st: s, n: n}
	}
	cells := make([]*mval, 0, n)
	cells = append(cells, x.st.cells[x.off+lo:x.off+hi]...)
	cells = append(cells, extra...)
	return m.newArr(cells)
}

// sliceOf: x[lo:hi] with the bounds already validated and clamped. A slice
// of a mutable array is a window onto the same storage; a slice of an
// immutable array is a mutable array of its own.
func (m *model) sliceOf(x *mval, lo, hi int) *mval {
	if !x.imm {
		return &mval{k: kArr, st: x.st, off: x.off + lo, n: hi - lo}
	}
	return m.freshFrom(x, lo, hi, nil)
}

// appendTo: append(x, extra...). For an immutable x the result is a fresh
// array. For a mutable x, Go's append works in place when capacity allows:
// cells behind x's window may be overwritten, stores that may share the
// backing array are unknown afterwards, and the result may or may not share
// x's storage (same alias group).
func (m *model) appendTo(x *mval, extra []*mval) *mval {
	r := m.freshFrom(x, 0, x.n, extra)
	if x.imm {
		return r
	}
	if len(extra) > 0 {
		if x.off+x.n < len(x.st.cells) {
			x.st.fuzzy = true
		}
		touch(x.st)
	}
	join(r.st, x.st)
	return r
}

// concat: x + y on arrays of the same kind - always a new array.
func (m *model) concat(x, y *mval) *mval {
	return m.freshFrom(x, 0, x.n, append([]*mval{}, y.window()...))
}

// clampSlice mirrors OpSliceIndex: lo > hi is an error before clamping.
func clampSlice(n int, lo, hi *int) (l, h int, bad bool) {
	l, h = 0, n
	if lo != nil {
		l = *lo
	}
	if hi != nil {
		h = *hi
	}
	if l > h {
		return 0, 0, true
	}
	if l < 0 {
		l = 0
	} else if l > n {
		l = n
	}
	if h < 0 {
		h = 0
	} else if h > n {
		h = n
	}
	return l, h, false
}

// index: read access container[s] (IndexGet).
func (m *model) index(c *mval, s sel) (*mval, string) {
	switch c.k {
	case kArr:
		if s.IsKey {
			return nil, "invalid index type"
		}
		if s.I < 0 || s.I >= c.n {
			return undefVal, ""
		}
		if c.st.fuzzy {
			return nil, "fuzzy"
		}
		return c.st.cells[c.off+s.I], ""
	case kMap:
		if v, ok := c.ms.m[s.key()]; ok {
			return v, ""
		}
		return undefVal, ""
	case kErr:
		if s.key() == "value" {
			return c.inner, ""
		}
		return nil, "invalid index on error"
	case kScalar:
		if c.obj == tengo.UndefinedValue {
			return undefVal, ""
		}
	}
	return nil, "not indexable"
}

// errClass values predicted by the model.
const (
	eNIA      = "not index-assignable"
	eIOOB     = "index out of bounds"
	eArgType  = "invalid type for argument"
	eInvOp    = "invalid operation"
	eNotArray = "not an array"
	eBadSlice = "invalid slice index"
	eBadIndex = "invalid index type"
)

// store: write access container[s] = v (IndexSet).
func (m *model) store(c *mval, s sel, v *mval) (errClass string, immTarget bool) {
	switch c.k {
	case kArr:
		if c.imm {
			return eNIA, true
		}
		if s.IsKey {
			// Array.IndexSet converts the index with ToInt; none of the keys
			// of this check is a numeric string
			return eBadIndex, false
		}
		if s.I < 0 || s.I >= c.n {
			return eIOOB, false
		}
		c.st.cells[c.off+s.I] = v
		touch(c.st)
		return "", false
	case kMap:
		if c.imm {
			return eNIA, true
		}
		c.ms.m[s.key()] = v
		return "", false
	}
	return eNIA, false
}

// ---------- reachability ----------

// clean: no fuzzy store reachable from v.
func clean(v *mval) bool {
	seen := map[*mval]bool{}
	var rec func(*mval) bool
	rec = func(x *mval) bool {
		if x == nil || seen[x] {
			return true
		}
		seen[x] = true
		switch x.k {
		case kErr:
			return rec(x.inner)
		case kArr:
			if x.st.fuzzy {
				return false
			}
			for _, c := range x.window() {
				if !rec(c) {
					return false
				}
			}
		case kMap:
			for _, c := range x.ms.m {
				if !rec(c) {
					return false
				}
			}
		}
		return true
	}
	return rec(v)
}

// reachesStorage: does v (clean) reach the array group g / map store ms?
// Storing v into a container with that storage would build a cycle, which is
// outside every property of this suite (and kills the process: F10).
func reachesStorage(v *mval, g *agroup, ms *mstore) bool {
	seen := map[*mval]bool{}
	var rec func(*mval) bool
	rec = func(x *mval) bool {
		if x == nil || seen[x] {
			return false
		}
		seen[x] = true
		switch x.k {
		case kErr:
			return rec(x.inner)
		case kArr:
			if g != nil && x.st.grp == g {
				return true
			}
			if x.st.fuzzy {
				return true // unknown contents: assume the worst
			}
			for _, c := range x.window() {
				if rec(c) {
					return true
				}
			}
		case kMap:
			if ms != nil && x.ms == ms {
				return true
			}
			for _, c := range x.ms.m {
				if rec(c) {
					return true
				}
			}
		}
		return false
	}
	return rec(v)
}

func containsFuncOrErr(v *mval) bool {
	seen := map[*mval]bool{}
	var rec func(*mval) bool
	rec = func(x *mval) bool {
		if x == nil || seen[x] {
			return false
		}
		seen[x] = true
		switch x.k {
		case kFunc, kErr:
			return true
		case kArr:
			if x.st.fuzzy {
				return true
			}
			for _, c := range x.window() {
				if rec(c) {
					return true
				}
			}
		case kMap:
			for _, c := range x.ms.m {
				if rec(c) {
					return true
				}
			}
		}
		return false
	}
	return rec(v)
}

// ---------- comparison with the real value ----------

// match compares the model value with the value read from the VM. Fuzzy
// stores match any contents of the right type and length.
func match(v *mval, o tengo.Object, path string, depth int) string {
	if o == nil {
		return path + ": Go nil object"
	}
	if depth > 40 {
		return path + ": too deep (cycle?)"
	}
	switch v.k {
	case kScalar:
		if got, want := tv.Describe(o), tv.Describe(v.obj); got != want {
			return fmt.Sprintf("%s: %s, expected %s", path, clip(got), clip(want))
		}
	case kFunc:
		if got := funcDesc(tv.Describe(o)); got != funcDesc(v.desc) {
			return fmt.Sprintf("%s: %s, expected %s", path, clip(got), v.desc)
		}
	case kErr:
		e, ok := o.(*tengo.Error)
		if !ok {
			return fmt.Sprintf("%s: %s, expected an error value", path, clip(tv.Describe(o)))
		}
		return match(v.inner, e.Value, path+".value", depth+1)
	case kArr:
		var xs []tengo.Object
		switch a := o.(type) {
		case *tengo.Array:
			if v.imm {
				return fmt.Sprintf("%s: mutable array %s, expected an immutable array", path, clip(tv.Describe(o)))
			}
			xs = a.Value
		case *tengo.ImmutableArray:
			if !v.imm {
				return fmt.Sprintf("%s: immutable array %s, expected a mutable array", path, clip(tv.Describe(o)))
			}
			xs = a.Value
		default:
			return fmt.Sprintf("%s: %s, expected %s", path, clip(tv.Describe(o)), v.typeName())
		}
		if len(xs) != v.n {
			return fmt.Sprintf("%s: length %d (%s), expected %d", path, len(xs), clip(tv.Describe(o)), v.n)
		}
		if v.st.fuzzy {
			return ""
		}
		for i, c := range v.window() {
			if d := match(c, xs[i], fmt.Sprintf("%s[%d]", path, i), depth+1); d != "" {
				return d
			}
		}
	case kMap:
		var mm map[string]tengo.Object
		switch a := o.(type) {
		case *tengo.Map:
			if v.imm {
				return fmt.Sprintf("%s: mutable map %s, expected an immutable map", path, clip(tv.Describe(o)))
			}
			mm = a.Value
		case *tengo.ImmutableMap:
			if !v.imm {
				return fmt.Sprintf("%s: immutable map %s, expected a mutable map", path, clip(tv.Describe(o)))
			}
			mm = a.Value
		default:
			return fmt.Sprintf("%s: %s, expected %s", path, clip(tv.Describe(o)), v.typeName())
		}
		keys := sortedKeys(v.ms.m)
		if len(mm) != len(keys) {
			return fmt.Sprintf("%s: %d keys (%s), expected %d keys %q", path, len(mm), clip(tv.Describe(o)), len(keys), keys)
		}
		for _, k := range keys {
			x, ok := mm[k]
			if !ok {
				return fmt.Sprintf("%s: key %q missing (%s)", path, k, clip(tv.Describe(o)))
			}
			if d := match(v.ms.m[k], x, fmt.Sprintf("%s[%q]", path, k), depth+1); d != "" {
				return d
			}
		}
	}
	return ""
}

// funcDesc drops the name of a builtin function: BuiltinFunction.Copy does
// not keep it (copy(len) describes as <builtin:>), which is none of C09's
// business.
func funcDesc(d string) string {
	if strings.HasPrefix(d, "<builtin:") {
		return "<builtin>"
	}
	return d
}

func clip(s string) string {
	if len(s) > 200 {
		return s[:200] + "…"
	}
	return s
}

// render: the model's view of a value, for messages and samples.
func (v *mval) render(depth int) string {
	if depth > 8 {
		return "…"
	}
	switch v.k {
	case kScalar:
		return tv.Describe(v.obj)
	case kFunc:
		return v.desc
	case kErr:
		return "error(" + v.inner.render(depth+1) + ")"
	case kArr:
		s := v.typeName() + "["
		if v.st.fuzzy {
			return s + fmt.Sprintf("?×%d]", v.n)
		}
		for i, c := range v.window() {
			if i > 0 {
				s += ", "
			}
			s += c.render(depth + 1)
		}
		return s + "]"
	case kMap:
		s := v.typeName() + "{"
		for i, k := range sortedKeys(v.ms.m) {
			if i > 0 {
				s += ", "
			}
			s += fmt.Sprintf("%q: %s", k, v.ms.m[k].render(depth+1))
		}
		return s + "}"
	}
	return "?"
}
