package c09

// JSON-serialisable description of a case: how the immutable root is set up,
// and the operations applied to the handle pool. From it both the tengo
// source and the model are rebuilt deterministically (replays need no rapid).

import (
	"context"
	"fmt"
	"strconv"
	"strings"
	"time"

	"github.com/d5/tengo/v2"
	"github.com/d5/tengo/v2/stdlib"

	"verifharness/tv"
)

// ---------- scalar pool ----------

type scalarLit struct {
	Src string
	obj tengo.Object
}

// every scalar runtime type; values are obtained once from the interpreter
// itself (literal evaluation is not what this check is about).
var scalarPool = []scalarLit{
	{Src: `0`}, {Src: `1`}, {Src: `2`}, {Src: `3`}, {Src: `-7`}, {Src: `42`}, {Src: `9223372036854775807`},
	{Src: `2.5`}, {Src: `-0.5`}, {Src: `1e100`},
	{Src: `"ab"`}, {Src: `""`}, {Src: `"x y"`}, {Src: `"日本"`},
	{Src: `'a'`}, {Src: `'é'`},
	{Src: `true`}, {Src: `false`},
	{Src: `undefined`},
	{Src: `bytes("hi")`}, {Src: `bytes("")`},
	{Src: `time(1500000000)`},
}

// indices of ints / strings in the pool (operands of compound assignment)
var intLits, strLits []int

func init() {
	var sb strings.Builder
	for i, s := range scalarPool {
		fmt.Fprintf(&sb, "v%d := %s\n", i, s.Src)
	}
	c, err := tengo.NewScript([]byte(sb.String())).Run()
	if err != nil {
		panic("c09: scalar pool does not evaluate: " + err.Error())
	}
	for i := range scalarPool {
		o := c.Get("v" + strconv.Itoa(i)).Object()
		scalarPool[i].obj = o
		switch o.(type) {
		case *tengo.Int:
			intLits = append(intLits, i)
		case *tengo.String:
			strLits = append(strLits, i)
		}
	}
}

// ---------- value trees ----------

// vnode: a value expression.
//
//	s scalar literal (Lit)      a array literal (Kids)     m map literal (Keys, Kids)
//	i immutable(Kids[0])        e error(Kids[0])           f function literal
//	b the builtin function len  r reference to Pre[Ref]    h reference to a handle (Name)
//	x the operand of the operation (wrap)
type vnode struct {
	T    string   `json:"t"`
	Lit  int      `json:"lit,omitempty"`
	Kids []*vnode `json:"kids,omitempty"`
	Keys []string `json:"keys,omitempty"`
	Ref  int      `json:"ref,omitempty"`
	Name string   `json:"name,omitempty"`
}

func isIdent(s string) bool {
	if s == "" {
		return false
	}
	for i, r := range s {
		if !(r == '_' || (r >= 'a' && r <= 'z') || (r >= 'A' && r <= 'Z') || (i > 0 && r >= '0' && r <= '9')) {
			return false
		}
	}
	switch s {
	case "func", "if", "else", "for", "in", "return", "export", "import", "true", "false", "undefined", "immutable", "error", "break", "continue":
		return false
	}
	return true
}

// src renders the expression; opnd is the text of the operation's operand.
func (v *vnode) src(opnd string) string {
	switch v.T {
	case "s":
		return scalarPool[v.Lit].Src
	case "a":
		parts := make([]string, len(v.Kids))
		for i, k := range v.Kids {
			parts[i] = k.src(opnd)
		}
		return "[" + strings.Join(parts, ", ") + "]"
	case "m":
		parts := make([]string, len(v.Kids))
		for i, k := range v.Kids {
			key := v.Keys[i]
			if !isIdent(key) {
				key = strconv.Quote(key)
			}
			parts[i] = key + ": " + k.src(opnd)
		}
		return "{" + strings.Join(parts, ", ") + "}"
	case "i":
		return "immutable(" + v.Kids[0].src(opnd) + ")"
	case "e":
		return "error(" + v.Kids[0].src(opnd) + ")"
	case "f":
		return "func(a) { return a }"
	case "b":
		return "len"
	case "r":
		return "s" + strconv.Itoa(v.Ref)
	case "h":
		return v.Name
	case "x":
		return opnd
	}
	panic("c09: bad vnode " + v.T)
}

// hrefs lists the handle names the expression mentions.
func (v *vnode) hrefs(out []string) []string {
	if v == nil {
		return out
	}
	if v.T == "h" {
		out = append(out, v.Name)
	}
	for _, k := range v.Kids {
		out = k.hrefs(out)
	}
	return out
}

// build evaluates the expression in the model.
func (m *model) build(v *vnode, pre []*mval, opnd *mval) (*mval, error) {
	switch v.T {
	case "s":
		if v.Lit < 0 || v.Lit >= len(scalarPool) {
			return nil, fmt.Errorf("bad literal %d", v.Lit)
		}
		return scalarOf(scalarPool[v.Lit].obj), nil
	case "a":
		cells := make([]*mval, 0, len(v.Kids))
		for _, k := range v.Kids {
			c, err := m.build(k, pre, opnd)
			if err != nil {
				return nil, err
			}
			cells = append(cells, c)
		}
		return m.newArr(cells), nil
	case "m":
		mm := make(map[string]*mval, len(v.Kids))
		for i, k := range v.Kids {
			c, err := m.build(k, pre, opnd)
			if err != nil {
				return nil, err
			}
			mm[v.Keys[i]] = c // later duplicates win, as in a map literal
		}
		return &mval{k: kMap, ms: m.newMStore(mm)}, nil
	case "i":
		c, err := m.build(v.Kids[0], pre, opnd)
		if err != nil {
			return nil, err
		}
		r := m.immutableOf(c)
		if t := v.Kids[0].T; t == "a" || t == "m" {
			seal(r) // the literal has no other name
		}
		return r, nil
	case "e":
		c, err := m.build(v.Kids[0], pre, opnd)
		if err != nil {
			return nil, err
		}
		return &mval{k: kErr, inner: c}, nil
	case "f":
		if m.goSide {
			return &mval{k: kFunc, desc: "<user-function:uf>"}, nil
		}
		return &mval{k: kFunc, desc: "<function>"}, nil
	case "b":
		return &mval{k: kFunc, desc: "<builtin:len>"}, nil
	case "r":
		if v.Ref < 0 || v.Ref >= len(pre) {
			return nil, fmt.Errorf("bad ref %d", v.Ref)
		}
		return pre[v.Ref], nil
	case "h":
		x, ok := m.h[v.Name]
		if !ok {
			return nil, fmt.Errorf("unknown handle %q", v.Name)
		}
		return x, nil
	case "x":
		if opnd == nil {
			return nil, fmt.Errorf("operand placeholder outside an operation")
		}
		return opnd, nil
	}
	return nil, fmt.Errorf("bad vnode %q", v.T)
}

// goObject builds the host-side value (attributes of a builtin module).
func (v *vnode) goObject(pre []tengo.Object) tengo.Object {
	switch v.T {
	case "s":
		return scalarPool[v.Lit].obj.Copy()
	case "a":
		xs := make([]tengo.Object, 0, len(v.Kids))
		for _, k := range v.Kids {
			xs = append(xs, k.goObject(pre))
		}
		return &tengo.Array{Value: xs}
	case "m":
		mm := make(map[string]tengo.Object, len(v.Kids))
		for i, k := range v.Kids {
			mm[v.Keys[i]] = k.goObject(pre)
		}
		return &tengo.Map{Value: mm}
	case "i":
		switch c := v.Kids[0].goObject(pre).(type) {
		case *tengo.Array:
			return &tengo.ImmutableArray{Value: c.Value}
		case *tengo.Map:
			return &tengo.ImmutableMap{Value: c.Value}
		default:
			return c
		}
	case "e":
		return &tengo.Error{Value: v.Kids[0].goObject(pre)}
	case "f":
		return &tengo.UserFunction{Name: "uf", Value: func(args ...tengo.Object) (tengo.Object, error) {
			return tengo.UndefinedValue, nil
		}}
	case "b":
		for _, f := range tengo.GetAllBuiltinFunctions() {
			if f.Name == "len" {
				return f
			}
		}
	case "r":
		return pre[v.Ref]
	}
	panic("c09: vnode " + v.T + " has no host-side value")
}

// fromObject converts a host-side value (stdlib module table) to the model.
func (m *model) fromObject(o tengo.Object) *mval {
	switch x := o.(type) {
	case *tengo.Array:
		return m.newArr(m.fromObjects(x.Value))
	case *tengo.ImmutableArray:
		r := m.newArr(m.fromObjects(x.Value))
		r.imm = true
		seal(r)
		return r
	case *tengo.Map:
		return &mval{k: kMap, ms: m.newMStore(m.fromMap(x.Value))}
	case *tengo.ImmutableMap:
		r := &mval{k: kMap, imm: true, ms: m.newMStore(m.fromMap(x.Value))}
		seal(r)
		return r
	case *tengo.Error:
		return &mval{k: kErr, inner: m.fromObject(x.Value)}
	case *tengo.UserFunction, *tengo.BuiltinFunction, *tengo.CompiledFunction:
		return &mval{k: kFunc, desc: tv.Describe(o)}
	}
	return scalarOf(o)
}

func (m *model) fromObjects(xs []tengo.Object) []*mval {
	out := make([]*mval, 0, len(xs))
	for _, x := range xs {
		out = append(out, m.fromObject(x))
	}
	return out
}

func (m *model) fromMap(mm map[string]tengo.Object) map[string]*mval {
	out := make(map[string]*mval, len(mm))
	for k, x := range mm {
		out[k] = m.fromObject(x)
	}
	return out
}

// ---------- selectors, operations ----------

type sel struct {
	IsKey bool   `json:"is_key,omitempty"`
	I     int    `json:"i,omitempty"`
	K     string `json:"k,omitempty"`
	Br    bool   `json:"br,omitempty"` // render a key as ["k"] even when .k is possible
}

func (s sel) key() string {
	if s.IsKey {
		return s.K
	}
	return strconv.Itoa(s.I)
}

func (s sel) src() string {
	if !s.IsKey {
		return "[" + strconv.Itoa(s.I) + "]"
	}
	if isIdent(s.K) && !s.Br {
		return "." + s.K
	}
	return "[" + strconv.Quote(s.K) + "]"
}

func pathSrc(p []sel) string {
	var sb strings.Builder
	for _, s := range p {
		sb.WriteString(s.src())
	}
	return sb.String()
}

// op: one operation = one more statement of the growing script.
//
// Deriving kinds (define handle New): get slice append add copy immutable
// freeze spread wrap splice. Writing kinds: assign compound incdec delete
// splice forin forval (and the in-function write of spread).
type op struct {
	Kind  string   `json:"kind"`
	H     string   `json:"h"`              // base handle
	Path  []sel    `json:"path,omitempty"` // from the base handle to the operand
	Sel   *sel     `json:"sel,omitempty"`  // element selector (assign compound incdec forval)
	New   string   `json:"new,omitempty"`
	Val   *vnode   `json:"val,omitempty"`  // written / wrapped value, right operand literal of add
	Vals  []*vnode `json:"vals,omitempty"` // append / splice items
	H2    string   `json:"h2,omitempty"`   // add: right operand handle (when Val is nil)
	Path2 []sel    `json:"path2,omitempty"`
	Lo    *int     `json:"lo,omitempty"`
	Hi    *int     `json:"hi,omitempty"`
	Start int      `json:"start,omitempty"`
	Count int      `json:"count,omitempty"`
	Tok   string   `json:"tok,omitempty"`   // compound: += -= *= ; incdec: ++ --
	Key   string   `json:"key,omitempty"`   // delete
	Route string   `json:"route,omitempty"` // "" (global), local, free
}

var writeKinds = map[string]bool{"assign": true, "compound": true, "incdec": true, "delete": true,
	"splice": true, "forin": true, "forval": true}

func (o *op) isWrite() bool { return writeKinds[o.Kind] }

// stmt renders the operation with base standing for the base handle.
func (o *op) stmt(base string) (text string, expr bool) {
	x := base + pathSrc(o.Path)
	vals := func() string {
		parts := make([]string, len(o.Vals))
		for i, v := range o.Vals {
			parts[i] = v.src(x)
		}
		return strings.Join(parts, ", ")
	}
	switch o.Kind {
	case "get":
		return x, true
	case "slice":
		lo, hi := "", ""
		if o.Lo != nil {
			lo = strconv.Itoa(*o.Lo)
		}
		if o.Hi != nil {
			hi = strconv.Itoa(*o.Hi)
		}
		return x + "[" + lo + ":" + hi + "]", true
	case "append":
		return "append(" + x + ", " + vals() + ")", true
	case "add":
		if o.Val != nil {
			return x + " + " + o.Val.src(x), true
		}
		return x + " + " + o.H2 + pathSrc(o.Path2), true
	case "copy":
		return "copy(" + x + ")", true
	case "immutable":
		return "immutable(" + x + ")", true
	case "freeze":
		return "freeze(" + x + ")", true
	case "spread":
		return "(func(...a) { a[0] = " + o.Val.src(x) + "; return a })(" + x + "...)", true
	case "wrap":
		return o.Val.src(x), true
	case "splice":
		s := "splice(" + x + ", " + strconv.Itoa(o.Start) + ", " + strconv.Itoa(o.Count)
		if len(o.Vals) > 0 {
			s += ", " + vals()
		}
		return s + ")", true
	case "assign":
		return x + o.Sel.src() + " = " + o.Val.src(x), false
	case "compound":
		return x + o.Sel.src() + " " + o.Tok + " " + o.Val.src(x), false
	case "incdec":
		return x + o.Sel.src() + o.Tok, false
	case "delete":
		return "delete(" + x + ", " + strconv.Quote(o.Key) + ")", false
	case "forin":
		return "for k, v in " + x + " { " + x + "[k] = " + o.Val.src(x) + " }", false
	case "forval":
		return "for i, v in " + x + " { v" + o.Sel.src() + " = " + o.Val.src(x) + " }", false
	}
	panic("c09: bad op kind " + o.Kind)
}

// src renders the whole statement, routed through the global, a local
// (parameter) or a free (captured) variable.
func (o *op) src() string {
	base := o.H
	if o.Route != "" {
		base = "x"
	}
	text, expr := o.stmt(base)
	var s string
	switch o.Route {
	case "":
		s = text
	case "local":
		if expr {
			s = "(func(x) { return " + text + " })(" + o.H + ")"
		} else {
			s = "(func(x) { " + text + " })(" + o.H + ")"
		}
	case "free":
		if expr {
			s = "(func(x) { return func() { return " + text + " } })(" + o.H + ")()"
		} else {
			s = "(func(x) { return func() { " + text + " } })(" + o.H + ")()"
		}
	default:
		panic("c09: bad route " + o.Route)
	}
	if o.New != "" {
		s = o.New + " := " + s
		if o.Kind == "freeze" && o.Route == "" {
			s += "\n" + eqName(o.New) + " := " + o.New + " == " + o.H + pathSrc(o.Path)
		}
	}
	return s
}

func eqName(h string) string { return "eq_" + h }

// ---------- setup ----------

type setupSpec struct {
	Kind   string   `json:"kind"` // imm | freeze | export | module | stdlib
	Pre    []*vnode `json:"pre,omitempty"`
	Root   *vnode   `json:"root,omitempty"`
	Fresh  string   `json:"fresh,omitempty"` // imm, array root: "", append, slice, add, copy
	Split  int      `json:"split,omitempty"` // add: length of the left literal
	ViaVar bool     `json:"via_var,omitempty"`
	Stdlib string   `json:"stdlib,omitempty"`
}

func (s *setupSpec) rootKind() string {
	k := s.Kind
	switch s.Kind {
	case "imm":
		if s.Fresh != "" {
			k += "(" + s.Fresh + ")"
		}
	case "stdlib":
		return "module:" + s.Stdlib
	case "module":
		return "module:generated"
	}
	if s.Root != nil {
		t := s.Root
		for t.T == "i" {
			t = t.Kids[0]
		}
		switch t.T {
		case "a":
			k += ":array"
		case "m":
			k += ":map"
		case "r":
			k += ":ref"
		default:
			k += ":scalar"
		}
	}
	return k
}

func preDefs(pre []*vnode) string {
	var sb strings.Builder
	for i, p := range pre {
		fmt.Fprintf(&sb, "s%d := %s\n", i, p.src(""))
	}
	return sb.String()
}

// freshExpr: the alias-free expression whose value immutable() wraps.
func (s *setupSpec) freshExpr() string {
	r := s.Root
	if r.T != "a" || s.Fresh == "" {
		if s.Fresh == "copy" {
			return "copy(" + r.src("") + ")"
		}
		return r.src("")
	}
	n := len(r.Kids)
	lit := func(ks []*vnode) string { return (&vnode{T: "a", Kids: ks}).src("") }
	switch s.Fresh {
	case "append":
		return "append(" + lit(r.Kids[:n-1]) + ", " + r.Kids[n-1].src("") + ")"
	case "slice":
		return lit(append(append([]*vnode{}, r.Kids...), &vnode{T: "s", Lit: 0})) + "[0:" + strconv.Itoa(n) + "]"
	case "add":
		return lit(r.Kids[:s.Split]) + " + " + lit(r.Kids[s.Split:])
	case "copy":
		return "copy(" + r.src("") + ")"
	}
	panic("c09: bad fresh form " + s.Fresh)
}

const modName = "mod0"

// program renders the script and the module map for the setup.
func (s *setupSpec) program() (main string, mods *tengo.ModuleMap, hostAttrs map[string]tengo.Object) {
	switch s.Kind {
	case "imm":
		return preDefs(s.Pre) + "root := immutable(" + s.freshExpr() + ")\n", nil, nil
	case "freeze":
		return preDefs(s.Pre) + "root := freeze(" + s.Root.src("") + ")\n", nil, nil
	case "export":
		body := preDefs(s.Pre)
		if s.ViaVar {
			body += "v := " + s.Root.src("") + "\nexport v\n"
		} else {
			body += "export " + s.Root.src("") + "\n"
		}
		mods = tengo.NewModuleMap()
		mods.AddSourceModule(modName, []byte(body))
		return "root := import(\"" + modName + "\")\n", mods, nil
	case "module":
		pre := make([]tengo.Object, 0, len(s.Pre))
		for _, p := range s.Pre {
			pre = append(pre, p.goObject(pre))
		}
		hostAttrs = s.Root.goObject(pre).(*tengo.Map).Value
		mods = tengo.NewModuleMap()
		mods.AddBuiltinModule(modName, hostAttrs)
		return "root := import(\"" + modName + "\")\n", mods, hostAttrs
	case "stdlib":
		return "root := import(\"" + s.Stdlib + "\")\n", stdlib.GetModuleMap(s.Stdlib), stdlib.BuiltinModules[s.Stdlib]
	}
	panic("c09: bad setup kind " + s.Kind)
}

// initModel builds the model state right after construction of the root.
func (s *setupSpec) initModel() (*model, error) {
	m := newModel()
	m.root = "root"
	var pre []*mval
	buildPre := func() error {
		for _, p := range s.Pre {
			v, err := m.build(p, pre, nil)
			if err != nil {
				return err
			}
			pre = append(pre, v)
		}
		return nil
	}
	switch s.Kind {
	case "imm":
		if err := buildPre(); err != nil {
			return nil, err
		}
		for i, v := range pre {
			m.define("s"+strconv.Itoa(i), v)
		}
		r := s.Root
		var val *mval
		var err error
		if r.T == "a" && s.Fresh != "" && s.Fresh != "copy" {
			n := len(r.Kids)
			switch s.Fresh {
			case "append":
				if n < 1 {
					return nil, fmt.Errorf("append form needs an element")
				}
				head, e := m.build(&vnode{T: "a", Kids: r.Kids[:n-1]}, pre, nil)
				if e != nil {
					return nil, e
				}
				last, e := m.build(r.Kids[n-1], pre, nil)
				if e != nil {
					return nil, e
				}
				val = m.appendTo(head, []*mval{last})
			case "slice":
				all, e := m.build(&vnode{T: "a", Kids: append(append([]*vnode{}, r.Kids...), &vnode{T: "s", Lit: 0})}, pre, nil)
				if e != nil {
					return nil, e
				}
				val = m.sliceOf(all, 0, n)
			case "add":
				if s.Split < 0 || s.Split > n {
					return nil, fmt.Errorf("bad split")
				}
				l, e := m.build(&vnode{T: "a", Kids: r.Kids[:s.Split]}, pre, nil)
				if e != nil {
					return nil, e
				}
				rr, e := m.build(&vnode{T: "a", Kids: r.Kids[s.Split:]}, pre, nil)
				if e != nil {
					return nil, e
				}
				val = m.concat(l, rr)
			default:
				return nil, fmt.Errorf("bad fresh form %q", s.Fresh)
			}
		} else {
			val, err = m.build(r, pre, nil)
			if err != nil {
				return nil, err
			}
			if s.Fresh == "copy" {
				val = m.copyOf(val)
			}
		}
		root := m.immutableOf(val)
		if r.T == "a" || r.T == "m" || s.Fresh == "copy" {
			seal(root) // immutable(<fresh expression>): no other name for the storage
		}
		m.define("root", root)
	case "freeze":
		if err := buildPre(); err != nil {
			return nil, err
		}
		for i, v := range pre {
			m.define("s"+strconv.Itoa(i), v)
		}
		arg, err := m.build(s.Root, pre, nil)
		if err != nil {
			return nil, err
		}
		m.define("root", m.freezeOf(arg, map[*mval]*mval{}))
	case "export":
		if err := buildPre(); err != nil {
			return nil, err
		}
		val, err := m.build(s.Root, pre, nil)
		if err != nil {
			return nil, err
		}
		root := m.immutableOf(val)
		if root != val {
			seal(root) // module-local names are dead once the module has returned
		}
		m.define("root", root)
	case "module":
		m.goSide = true
		if err := buildPre(); err != nil {
			return nil, err
		}
		attrs, err := m.build(s.Root, pre, nil)
		m.goSide = false
		if err != nil {
			return nil, err
		}
		if attrs.k != kMap {
			return nil, fmt.Errorf("module attributes must be a map")
		}
		m.define("root", m.moduleTable(attrs.ms.m, modName))
	case "stdlib":
		attrs, ok := stdlib.BuiltinModules[s.Stdlib]
		if !ok {
			return nil, fmt.Errorf("no stdlib module %q", s.Stdlib)
		}
		m.define("root", m.moduleTable(m.fromMap(attrs), s.Stdlib))
	default:
		return nil, fmt.Errorf("bad setup kind %q", s.Kind)
	}
	m.derived["root"] = true
	return m, nil
}

// moduleTable: what import of a builtin module yields - an immutable map of
// copies of the attributes plus __module_name__ (BuiltinModule.AsImmutableMap).
func (m *model) moduleTable(attrs map[string]*mval, name string) *mval {
	mm := make(map[string]*mval, len(attrs)+1)
	for _, k := range sortedKeys(attrs) {
		mm[k] = m.copyOf(attrs[k])
	}
	mm["__module_name__"] = scalarOf(&tengo.String{Value: name})
	r := &mval{k: kMap, imm: true, ms: m.newMStore(mm)}
	seal(r)
	return r
}

// ---------- running on the real VM ----------

type vmResult struct {
	compileErr error
	runErr     error
	get        func(name string) tengo.Object
}

func runVM(src string, mods *tengo.ModuleMap) vmResult {
	s := tengo.NewScript([]byte(src))
	if mods != nil {
		s.SetImports(mods)
	}
	c, err := s.Compile()
	if err != nil {
		return vmResult{compileErr: err}
	}
	ctx, cancel := context.WithTimeout(context.Background(), 20*time.Second)
	defer cancel()
	rerr := c.RunContext(ctx)
	return vmResult{runErr: rerr, get: func(name string) tengo.Object { return c.Get(name).Object() }}
}
