// C10 — value equality, ordering, truthiness, copy and conversion obey their
// laws. See check.json for the rule, FINDINGS.md for the open findings.
package c10

import (
	"fmt"
	"math"
	"os"
	"path/filepath"
	"runtime"
	"runtime/debug"
	"sort"
	"strconv"
	"strings"
	"testing"
	"time"

	"github.com/d5/tengo/v2"
	"pgregory.net/rapid"

	"verifharness/ev"
	"verifharness/tv"
)

// Every shard is one single-threaded rapid loop whose cost is dominated by the
// ~100 KB a tengo VM allocates per RunContext: with the default settings two
// thirds of the CPU go to background sweeping/scavenging on 16 Ps per shard
// process. Two Ps (the VM runs in its own goroutine) and a larger GC target cut
// the CPU cost of the scripted tests to a third.
func TestMain(m *testing.M) {
	if os.Getenv("GOMAXPROCS") == "" {
		runtime.GOMAXPROCS(2)
	}
	if os.Getenv("GOGC") == "" {
		debug.SetGCPercent(400)
	}
	ev.Main(m, "C10")
}

// ---------- payloads ----------

type pairPayload struct {
	A      *VS    `json:"a"`
	B      *VS    `json:"b"`
	Rel    string `json:"rel"`
	Script bool   `json:"script"`
	Echo   string `json:"echo,omitempty"`
}

type unaryPayload struct {
	X      *VS    `json:"x"`
	D      *VS    `json:"d"`
	Script bool   `json:"script"`
	Echo   string `json:"echo,omitempty"`
}

func mkPairPayload(a, b tengo.Object, rel string, script bool) pairPayload {
	e := newEncoder()
	return pairPayload{A: e.enc(a), B: e.enc(b), Rel: rel, Script: script, Echo: clip(tv.Describe(a) + " | " + tv.Describe(b))}
}

func mkUnaryPayload(x, d tengo.Object, script bool) unaryPayload {
	e := newEncoder()
	return unaryPayload{X: e.enc(x), D: e.enc(d), Script: script, Echo: clip(tv.Describe(x) + " | " + tv.Describe(d))}
}

func clip(s string) string {
	if len(s) > 400 {
		return s[:400] + "…"
	}
	return strconv.QuoteToASCII(s)
}

var sampling = true

// ---------- pair check ----------

func crossDefined(ka, kb string) bool {
	p := ka + "/" + kb
	switch p {
	case "int/float", "float/int", "int/char", "char/int", "array/imm-array", "imm-array/array", "map/imm-map", "imm-map/map":
		return true
	}
	return false
}

// pairViolation evaluates the six operators on (a,b) and (b,a), directly or by
// scripts, and applies the laws. Returns "" or the violation.
func pairViolation(a, b tengo.Object, rel string, script bool) string {
	var res results
	var trouble string
	if script {
		res, trouble = evalScript(a, b)
	} else {
		res, trouble = evalDirect(a, b)
	}
	if trouble != "" {
		return fmt.Sprintf("a=%s b=%s: %s", tv.Describe(a), tv.Describe(b), trouble)
	}
	v, laws, nan := checkLaws(a, b, res)
	if v != "" {
		return v
	}
	ka, kb := kindOf(a), kindOf(b)
	cls := append(laws, "pair:"+ka+"/"+kb, "rel:"+rel)
	if script {
		cls = append(cls, "path:script")
	} else {
		cls = append(cls, "path:direct")
	}
	if nan {
		cls = append(cls, "pair:NaN-operand(trichotomy-not-applied)")
		ev.Discard("trichotomy: NaN operand (other laws still checked)")
	}
	nontrivial := (rel != "independent" && rel != "grid") || (ka != kb && crossDefined(ka, kb))
	da, db := tv.Describe(a), tv.Describe(b)
	ev.Case("P|"+da+"|"+db+"|"+strconv.FormatBool(script), nontrivial, cls...)
	if sampling && nontrivial && rel != "same" && ev.WantSample() && len(da)+len(db) < 160 && len(da) > 8 {
		ev.Sample(map[string]interface{}{"kind": "pair", "a": da, "b": db, "rel": rel, "script": script,
			"a==b": res.R[0]["eq"].String(), "a<b": res.R[0]["lt"].String(), "a>b": res.R[0]["gt"].String()})
	}
	return ""
}

func checkPair(t ev.TB, test string, a, b tengo.Object, rel string, script bool) {
	if v := pairViolation(a, b, rel, script); v != "" {
		ev.Fail(t, test, mkPairPayload(a, b, rel, script), "%s", v)
	}
}

func TestPairLawsDirect(t *testing.T) {
	rapid.Check(t, func(t *rapid.T) {
		a, b, rel := drawPair(t)
		checkPair(t, "TestPairLawsDirect", a, b, rel, false)
	})
}

func TestPairLawsScript(t *testing.T) {
	rapid.Check(t, func(t *rapid.T) {
		a, b, rel := drawPair(t)
		checkPair(t, "TestPairLawsScript", a, b, rel, true)
	})
}

// ---------- unary check ----------

func nontrivialUnary(x tengo.Object) bool {
	if f, doc := wantFalsy(x); doc && f {
		return true
	}
	switch v := x.(type) {
	case *tengo.Array:
		return len(v.Value) > 0
	case *tengo.ImmutableArray:
		return len(v.Value) > 0
	case *tengo.Map:
		return len(v.Value) > 0
	case *tengo.ImmutableMap:
		return len(v.Value) > 0
	case *tengo.Error:
		return true
	case *tengo.String:
		_, e1 := strconv.ParseInt(v.Value, 10, 64)
		_, e2 := strconv.ParseFloat(v.Value, 64)
		return e1 == nil || e2 == nil
	case *tengo.Float:
		return math.IsInf(v.Value, 0) || math.Abs(v.Value) >= 9.2e18
	case *tengo.Int:
		return v.Value > math.MaxInt32 || v.Value < math.MinInt32
	}
	return false
}

var unaryScriptSrc = func() string {
	lines := []string{truthScript}
	for _, fn := range convFns {
		if fn != "bytes" {
			lines = append(lines, convScriptLines[fn])
		}
	}
	lines = append(lines, typeScript())
	return strings.Join(lines, "\n")
}()

// unaryViolation: truthiness, conversions, type predicates and copy of x
// (d = the default handed to the conversion builtins). x is consumed.
func unaryViolation(x, d tengo.Object, script, strict bool) string {
	dx := tv.Describe(x)
	kx := kindOf(x)
	nontrivial := nontrivialUnary(x)
	cls := []string{"unary:" + kx}
	if script {
		cls = append(cls, "path:script")
	} else {
		cls = append(cls, "path:direct")
	}
	var out, bytesOut map[string]tengo.Object
	var bytesErr error
	if script {
		var err error
		out, err = runScript(unaryScriptSrc, map[string]tengo.Object{"x": x, "d": d})
		if err != nil {
			return fmt.Sprintf("x=%s d=%s: script failed: %s", dx, tv.Describe(d), firstLine(err.Error()))
		}
		if w := convModel("bytes", x, strict); w.skip == "" && !w.rterr {
			bytesOut, bytesErr = runScript(convScriptLines["bytes"], map[string]tengo.Object{"x": x, "d": d})
			if bytesOut == nil {
				return fmt.Sprintf("x=%s: bytes script: %v", dx, bytesErr)
			}
		}
	}
	v, c := checkTruth(x, script, out)
	if v != "" {
		return v
	}
	cls = append(cls, c...)
	v, c = checkConv(x, d, script, strict, out, bytesOut, bytesErr)
	if v != "" {
		return v
	}
	cls = append(cls, c...)
	v, c = checkTypes(x, script, out)
	if v != "" {
		return v
	}
	cls = append(cls, c...)
	v, c = checkCopy(x, script, strict) // last: mutates x
	if v != "" {
		return v
	}
	cls = append(cls, c...)
	ev.Case("U|"+dx+"|"+tv.Describe(d)+"|"+strconv.FormatBool(script), nontrivial, cls...)
	if sampling && nontrivial && ev.WantSample() && len(dx) < 120 && len(dx) > 12 {
		ev.Sample(map[string]interface{}{"kind": "unary", "x": dx, "default": tv.Describe(d), "script": script})
	}
	return ""
}

func checkUnary(t ev.TB, test string, x, d tengo.Object, script bool) {
	p := mkUnaryPayload(x, d, script) // before x is consumed
	if v := unaryViolation(x, d, script, false); v != "" {
		ev.Fail(t, test, p, "%s", v)
	}
}

func drawUnary(t *rapid.T) (x, d tengo.Object) {
	x = genValue(t, "x", 3)
	if rapid.IntRange(0, 4).Draw(t, "dUndef") == 0 {
		return x, tengo.UndefinedValue
	}
	return x, genValue(t, "d", 1)
}

func TestUnaryDirect(t *testing.T) {
	rapid.Check(t, func(t *rapid.T) {
		x, d := drawUnary(t)
		checkUnary(t, "TestUnaryDirect", x, d, false)
	})
}

func TestUnaryScript(t *testing.T) {
	rapid.Check(t, func(t *rapid.T) {
		x, d := drawUnary(t)
		checkUnary(t, "TestUnaryScript", x, d, true)
	})
}

// ---------- deterministic boundary grid (plain test) ----------

func gridValues() []tengo.Object {
	I := func(v int64) tengo.Object { return &tengo.Int{Value: v} }
	F := func(v float64) tengo.Object { return &tengo.Float{Value: v} }
	C := func(v rune) tengo.Object { return &tengo.Char{Value: v} }
	S := func(v string) tengo.Object { return &tengo.String{Value: v} }
	B := func(v string) tengo.Object { return &tengo.Bytes{Value: []byte(v)} }
	T := func(sec, ns int64, z *time.Location) tengo.Object {
		return &tengo.Time{Value: time.Unix(sec, ns).In(z)}
	}
	A := func(xs ...tengo.Object) tengo.Object { return &tengo.Array{Value: append([]tengo.Object{}, xs...)} }
	IA := func(xs ...tengo.Object) tengo.Object {
		return &tengo.ImmutableArray{Value: append([]tengo.Object{}, xs...)}
	}
	M := func(kv ...interface{}) map[string]tengo.Object {
		m := map[string]tengo.Object{}
		for i := 0; i+1 < len(kv); i += 2 {
			m[kv[i].(string)] = kv[i+1].(tengo.Object)
		}
		return m
	}
	shared := A(I(1), S("s"))
	e1 := &tengo.Error{Value: S("a")}
	vals := []tengo.Object{
		I(0), I(1), I(-1), I(97), I(math.MaxInt64), I(math.MinInt64), I(1 << 53), I(1<<53 + 1), I(0x10FFFF), I(math.MaxInt32 + 1), I(1500000000),
		F(0), F(math.Copysign(0, -1)), F(1), F(97), F(0.5), F(math.NaN()), F(math.Inf(1)), F(math.Inf(-1)), F(1 << 53), F(9223372036854775808.0),
		F(math.Nextafter(1, 2)), F(math.MaxFloat64), F(math.SmallestNonzeroFloat64), F(-1),
		C(0), C('a'), C('b'), C(0x10FFFF), C(0xD800), C(-1), C(math.MaxInt32), C(1),
		S(""), S("a"), S("b"), S("ab"), S("12"), S(" 12"), S("1e3"), S("0x10"), S("true"), S("é"), S("\xff"), S("NaN"), S("9223372036854775808"),
		B(""), B("a"), B("ab"), B("\xff"), B("12"),
		tengo.TrueValue, tengo.FalseValue, tengo.UndefinedValue,
		&tengo.Time{}, T(0, 0, time.UTC), T(0, 0, zones[1]), T(1500000000, 0, time.UTC), T(1500000000, 1, zones[2]), T(1500000000, 0, zones[3]),
		e1, &tengo.Error{Value: S("a")}, &tengo.Error{Value: tengo.UndefinedValue}, &tengo.Error{Value: A(I(1))},
		A(), A(I(1)), A(F(1)), A(C(1)), A(I(1), A(I(2))), A(F(math.NaN())), A(e1), A(shared, shared), A(B("ab"), M2(M("a", I(1)))),
		IA(), IA(I(1)), IA(F(1)), IA(I(1), IA(I(2))), IA(I(1), A(I(2))), IA(shared, B("x")),
		M2(M()), M2(M("a", I(1))), M2(M("a", F(1))), M2(M("b", I(1))), M2(M("a", tengo.UndefinedValue)), M2(M("b", tengo.UndefinedValue)),
		M2(M("a", I(1), "b", A(I(2)))), M2(M("a", M2(M("k", I(1))), "e", &tengo.Error{Value: I(1)})),
		IM(M()), IM(M("a", I(1))), IM(M("a", F(1))), IM(M("a", I(1), "b", A(I(2)))), IM(M("a", IM(M("k", I(1))))),
		compiledFn(), builtinByName["len"], builtinByName["copy"], userFn("uf"),
	}
	return vals
}

func M2(m map[string]tengo.Object) tengo.Object { return &tengo.Map{Value: m} }
func IM(m map[string]tengo.Object) tengo.Object { return &tengo.ImmutableMap{Value: m} }

func gridRel(i, j int, a, b tengo.Object) string {
	if i == j {
		return "same"
	}
	return "grid"
}

// TestGrid: every ordered pair of the boundary values directly, every
// unordered pair of the same / cross-comparable kinds (and a quarter of the
// others) by scripts; every boundary value through the unary checks on both
// paths with an undefined and a non-undefined default.
func TestGrid(t *testing.T) {
	sampling = false // samples come from the generated cases
	defer func() { sampling = true }()
	vals := gridValues()
	for i, a := range vals {
		for j, b := range vals {
			if v := pairViolation(a, b, gridRel(i, j, a, b), false); v != "" {
				ev.Fail(t, "TestGrid", mkPairPayload(a, b, "grid", false), "%s", v)
			}
			// one call evaluates both operand orders, so j >= i is enough for
			// the (costly) script path; pairs of unrelated kinds, whose
			// comparisons all fail and need one script per operator, are thinned.
			ka, kb := kindOf(a), kindOf(b)
			if j < i || (ka != kb && !crossDefined(ka, kb) && (i+j)%4 != 0) {
				continue
			}
			if v := pairViolation(a, b, gridRel(i, j, a, b), true); v != "" {
				ev.Fail(t, "TestGrid", mkPairPayload(a, b, "grid", true), "%s", v)
			}
		}
	}
	n := len(vals)
	for i := 0; i < n; i++ {
		for k, script := range []bool{false, true, false, true} {
			x := gridValues()[i] // fresh: the check consumes x
			var d tengo.Object = tengo.UndefinedValue
			if k >= 2 {
				d = gridValues()[(i*7+3)%n]
			}
			p := mkUnaryPayload(x, d, script)
			if v := unaryViolation(x, d, script, false); v != "" {
				ev.Fail(t, "TestGrid", p, "%s", v)
			}
		}
	}
}

// ---------- replay, regressions, known findings ----------

// replayViolation re-runs a saved case with every exclusion switched off.
func replayViolation(path string) (string, error) {
	test := ev.ReplayTest(path)
	var probe struct {
		A *VS `json:"a"`
		X *VS `json:"x"`
	}
	if _, err := ev.LoadReplay(path, &probe); err != nil {
		return "", fmt.Errorf("load %s: %v", path, err)
	}
	switch {
	case probe.A != nil:
		var p pairPayload
		if _, err := ev.LoadReplay(path, &p); err != nil {
			return "", err
		}
		d := newDecoder()
		a := d.dec(p.A)
		b := d.dec(p.B)
		return pairViolation(a, b, p.Rel, p.Script), nil
	case probe.X != nil:
		var p unaryPayload
		if _, err := ev.LoadReplay(path, &p); err != nil {
			return "", err
		}
		d := newDecoder()
		x := d.dec(p.X)
		dd := d.dec(p.D)
		return unaryViolation(x, dd, p.Script, true), nil
	}
	return "", fmt.Errorf("unknown payload in %s (test %q)", path, test)
}

func TestReplay(t *testing.T) {
	path := os.Getenv("VERIF_REPLAY")
	if path == "" {
		t.Skip("no VERIF_REPLAY")
	}
	v, err := replayViolation(path)
	if err != nil {
		t.Fatal(err)
	}
	if v != "" {
		t.Fatalf("%s", v)
	}
}

func replayDir(kind string) []string {
	root := os.Getenv("VERIF_ROOT")
	if root == "" {
		root = "/verif"
	}
	files, _ := filepath.Glob(filepath.Join(root, "replays", "C10", kind, "*.json"))
	sort.Strings(files)
	return files
}

// TestRegressions: committed replays of repaired defects must pass.
func TestRegressions(t *testing.T) {
	for _, f := range replayDir("fixed") {
		f := f
		t.Run(filepath.Base(f), func(t *testing.T) {
			v, err := replayViolation(f)
			if err != nil {
				t.Fatal(err)
			}
			if v != "" {
				ev.Fail(t, "TestRegressions", map[string]string{"replay": f}, "%s: %s", filepath.Base(f), v)
			}
		})
		ev.Note("regression replays run")
	}
}

// TestKnownFindings re-runs the reproducer of every open finding through the
// oracle with no exclusion. File name: <finding id>__<slug>.json.
func TestKnownFindings(t *testing.T) {
	seen := map[string]bool{}
	for _, f := range replayDir("open") {
		base := strings.TrimSuffix(filepath.Base(f), ".json")
		id := base
		if i := strings.Index(base, "__"); i >= 0 {
			id = base[:i]
		}
		seen[id] = true
		v, err := replayViolation(f)
		if err != nil {
			t.Fatal(err)
		}
		if v != "" {
			ev.Known(id, knownSummary[id])
		} else {
			ev.Note("open finding " + id + " no longer reproduces (" + filepath.Base(f) + "): turn its switch off and move the replay to fixed/")
		}
	}
	for id := range openFindings {
		if openFindings[id] && !seen[id] {
			t.Errorf("open finding %s has no replay under replays/C10/open", id)
		}
	}
}

var knownSummary = map[string]string{
	"F-C10-1": "copy(<builtin function>) loses the function name: type_name(copy(len)) is \"builtin-function:\" (site tengo.(*BuiltinFunction).Copy; input predicate: value contains a builtin function)",
	"F-C10-2": "bytes(<negative int>) panics with makeslice: len out of range instead of an orderly failure (site tengo.builtinBytes; input predicate: first argument is a negative int)",
}
