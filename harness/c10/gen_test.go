package c10

import (
	"math"
	"time"

	"github.com/d5/tengo/v2"
	"pgregory.net/rapid"

	"verifharness/tv"
)

// ---------- kinds ----------

var leafKinds = []string{"int", "float", "char", "string", "bytes", "bool", "undefined", "time", "function", "builtin", "userfn"}
var nodeKinds = []string{"error", "array", "imm-array", "map", "imm-map"}
var allKinds = append(append([]string{}, leafKinds...), nodeKinds...)

func kindOf(o tengo.Object) string {
	switch o.(type) {
	case *tengo.Int:
		return "int"
	case *tengo.Float:
		return "float"
	case *tengo.Char:
		return "char"
	case *tengo.String:
		return "string"
	case *tengo.Bytes:
		return "bytes"
	case *tengo.Bool:
		return "bool"
	case *tengo.Undefined:
		return "undefined"
	case *tengo.Time:
		return "time"
	case *tengo.Error:
		return "error"
	case *tengo.Array:
		return "array"
	case *tengo.ImmutableArray:
		return "imm-array"
	case *tengo.Map:
		return "map"
	case *tengo.ImmutableMap:
		return "imm-map"
	case *tengo.CompiledFunction:
		return "function"
	case *tengo.BuiltinFunction:
		return "builtin"
	case *tengo.UserFunction:
		return "userfn"
	}
	return "other"
}

var builtinByName = func() map[string]*tengo.BuiltinFunction {
	m := map[string]*tengo.BuiltinFunction{}
	for _, f := range tengo.GetAllBuiltinFunctions() {
		m[f.Name] = f
	}
	return m
}()

var builtinPool = []string{"len", "copy", "string", "int", "is_int", "type_name", "bool"}

func userFn(name string) *tengo.UserFunction {
	return &tengo.UserFunction{Name: name, Value: func(args ...tengo.Object) (tengo.Object, error) {
		return &tengo.Int{Value: int64(len(args))}, nil
	}}
}

// strings that look like numbers / booleans, for the conversion table.
var numericStrings = []string{"0", "-0", "+5", "007", "12", " 12", "12 ", "-7", "1e3", "1E-2", "0x10", "0x1p4", "1_000", "0b11", "true", "false",
	"3.5", ".5", "5.", "-.5e1", "NaN", "nan", "Inf", "+Inf", "-inf", "infinity", "1e400", "-1e400", "1e-400",
	"9223372036854775807", "9223372036854775808", "-9223372036854775808", "-9223372036854775809", "18446744073709551615",
	"0.1", "1.7976931348623157e308", "4.9e-324", "１２", "1,5", "", "e", "-", "+", "0e0", "00.00"}

var extraFloats = []float64{math.Nextafter(1, 2), math.Nextafter(1, 0), float64(1<<53) - 1, float64(1<<53) + 2, math.Nextafter(9223372036854775808.0, 0),
	math.Nextafter(-9223372036854775808.0, 0), 9223372036854775808.0 * 2, 0x10FFFF, 97, 65.5, 2147483647, 2147483648, -2147483648, -2147483649}

var zones = []*time.Location{time.UTC, time.FixedZone("P5", 5*3600), time.FixedZone("M330", -(3*3600 + 1800)), time.FixedZone("P14", 14*3600)}

func genLeaf(t *rapid.T, kind string) tengo.Object {
	switch kind {
	case "int":
		return &tengo.Int{Value: tv.GenInt64().Draw(t, "i")}
	case "float":
		if rapid.IntRange(0, 7).Draw(t, "fx") == 0 {
			return &tengo.Float{Value: rapid.SampledFrom(extraFloats).Draw(t, "f")}
		}
		return &tengo.Float{Value: tv.GenFloat64(false).Draw(t, "f")}
	case "char":
		return &tengo.Char{Value: tv.GenRune().Draw(t, "c")}
	case "string":
		if rapid.IntRange(0, 3).Draw(t, "sx") == 0 {
			return &tengo.String{Value: rapid.SampledFrom(numericStrings).Draw(t, "s")}
		}
		return &tengo.String{Value: tv.GenString(false).Draw(t, "s")}
	case "bytes":
		b := tv.GenBytes().Draw(t, "by")
		if b == nil {
			b = []byte{}
		}
		return &tengo.Bytes{Value: b}
	case "bool":
		if rapid.Bool().Draw(t, "b") {
			return tengo.TrueValue
		}
		return tengo.FalseValue
	case "undefined":
		return tengo.UndefinedValue
	case "time":
		return &tengo.Time{Value: tv.GenTime().Draw(t, "tm")}
	case "function":
		return compiledFn()
	case "builtin":
		return builtinByName[rapid.SampledFrom(builtinPool).Draw(t, "bn")]
	case "userfn":
		return userFn(rapid.SampledFrom([]string{"uf", "g"}).Draw(t, "un"))
	}
	panic("genLeaf: " + kind)
}

type genCtx struct {
	pool   []tengo.Object // finished containers of the value being built (for sharing)
	maxLen int
}

func (g *genCtx) child(t *rapid.T, depth int) tengo.Object {
	if len(g.pool) > 0 && rapid.IntRange(0, 7).Draw(t, "share") == 0 {
		return g.pool[rapid.IntRange(0, len(g.pool)-1).Draw(t, "shareIdx")]
	}
	var kind string
	if depth <= 0 || rapid.IntRange(0, 2).Draw(t, "leafish") > 0 {
		kind = rapid.SampledFrom(leafKinds).Draw(t, "kind")
	} else {
		kind = rapid.SampledFrom(nodeKinds).Draw(t, "kind")
	}
	return g.value(t, kind, depth)
}

func (g *genCtx) value(t *rapid.T, kind string, depth int) tengo.Object {
	var o tengo.Object
	switch kind {
	case "error":
		o = &tengo.Error{Value: g.child(t, depth-1)}
	case "array", "imm-array":
		n := rapid.IntRange(0, g.maxLen).Draw(t, "n")
		xs := make([]tengo.Object, 0, n)
		for i := 0; i < n; i++ {
			xs = append(xs, g.child(t, depth-1))
		}
		if kind == "array" {
			o = &tengo.Array{Value: xs}
		} else {
			o = &tengo.ImmutableArray{Value: xs}
		}
	case "map", "imm-map":
		n := rapid.IntRange(0, g.maxLen).Draw(t, "n")
		m := make(map[string]tengo.Object, n)
		for i := 0; i < n; i++ {
			key := rapid.OneOf(rapid.SampledFrom([]string{"a", "b", "k", "value", "", "0", "1"}), tv.GenString(false)).Draw(t, "key")
			m[key] = g.child(t, depth-1)
		}
		if kind == "map" {
			o = &tengo.Map{Value: m}
		} else {
			o = &tengo.ImmutableMap{Value: m}
		}
	default:
		return genLeaf(t, kind)
	}
	g.pool = append(g.pool, o)
	return o
}

// genValue draws a value whose top-level kind is uniform over all 16 kinds.
func genValue(t *rapid.T, label string, depth int) tengo.Object {
	kind := rapid.SampledFrom(allKinds).Draw(t, label+"Kind")
	return genValueOfKind(t, kind, depth)
}

func genValueOfKind(t *rapid.T, kind string, depth int) tengo.Object {
	g := &genCtx{maxLen: 4}
	return g.value(t, kind, depth)
}

// ---------- cloning / derived ("related") values ----------

type cloner struct {
	memo   map[tengo.Object]tengo.Object
	leafNo int
	target int                                 // leaf index to transform (-1: none)
	leafFn func(tengo.Object) tengo.Object     // applied to the target leaf
	flip   func(o tengo.Object, top bool) bool // flip mutability of this container?
	top    tengo.Object
}

func isLeaf(o tengo.Object) bool {
	switch o.(type) {
	case *tengo.Array, *tengo.ImmutableArray, *tengo.Map, *tengo.ImmutableMap, *tengo.Error:
		return false
	}
	return true
}

func countLeaves(o tengo.Object) int {
	seen := map[tengo.Object]bool{}
	var walk func(o tengo.Object) int
	walk = func(o tengo.Object) int {
		if isLeaf(o) {
			return 1
		}
		if seen[o] {
			return 0
		}
		seen[o] = true
		n := 0
		switch v := o.(type) {
		case *tengo.Array:
			for _, e := range v.Value {
				n += walk(e)
			}
		case *tengo.ImmutableArray:
			for _, e := range v.Value {
				n += walk(e)
			}
		case *tengo.Map:
			for _, k := range sortedKeys(v.Value) {
				n += walk(v.Value[k])
			}
		case *tengo.ImmutableMap:
			for _, k := range sortedKeys(v.Value) {
				n += walk(v.Value[k])
			}
		case *tengo.Error:
			n += walk(v.Value)
		}
		return n
	}
	return walk(o)
}

func (c *cloner) clone(o tengo.Object) tengo.Object {
	if isLeaf(o) {
		idx := c.leafNo
		c.leafNo++
		if idx == c.target && c.leafFn != nil {
			return c.leafFn(o)
		}
		return cloneLeaf(o)
	}
	if n, ok := c.memo[o]; ok {
		return n
	}
	flip := c.flip != nil && c.flip(o, o == c.top)
	switch v := o.(type) {
	case *tengo.Error:
		e := &tengo.Error{}
		c.memo[o] = e
		e.Value = c.clone(v.Value)
		return e
	case *tengo.Array, *tengo.ImmutableArray:
		var src []tengo.Object
		mutable := false
		if a, ok := v.(*tengo.Array); ok {
			src, mutable = a.Value, true
		} else {
			src = v.(*tengo.ImmutableArray).Value
		}
		if flip {
			mutable = !mutable
		}
		xs := make([]tengo.Object, len(src))
		var n tengo.Object
		if mutable {
			n = &tengo.Array{Value: xs}
		} else {
			n = &tengo.ImmutableArray{Value: xs}
		}
		c.memo[o] = n
		for i, e := range src {
			xs[i] = c.clone(e)
		}
		return n
	case *tengo.Map, *tengo.ImmutableMap:
		var src map[string]tengo.Object
		mutable := false
		if a, ok := v.(*tengo.Map); ok {
			src, mutable = a.Value, true
		} else {
			src = v.(*tengo.ImmutableMap).Value
		}
		if flip {
			mutable = !mutable
		}
		m := make(map[string]tengo.Object, len(src))
		var n tengo.Object
		if mutable {
			n = &tengo.Map{Value: m}
		} else {
			n = &tengo.ImmutableMap{Value: m}
		}
		c.memo[o] = n
		for _, k := range sortedKeys(src) {
			m[k] = c.clone(src[k])
		}
		return n
	}
	return o
}

func cloneLeaf(o tengo.Object) tengo.Object {
	switch v := o.(type) {
	case *tengo.Int:
		return &tengo.Int{Value: v.Value}
	case *tengo.Float:
		return &tengo.Float{Value: v.Value}
	case *tengo.Char:
		return &tengo.Char{Value: v.Value}
	case *tengo.String:
		return &tengo.String{Value: v.Value}
	case *tengo.Bytes:
		return &tengo.Bytes{Value: append([]byte{}, v.Value...)}
	case *tengo.Time:
		return &tengo.Time{Value: v.Value}
	}
	return o // bool, undefined, functions
}

func deepClone(o tengo.Object) tengo.Object {
	c := &cloner{memo: map[tengo.Object]tengo.Object{}, target: -1, top: o}
	return c.clone(o)
}

func otherZone(t *rapid.T, tm time.Time) time.Time {
	z := zones[rapid.IntRange(0, len(zones)-1).Draw(t, "zone")]
	if z.String() == tm.Location().String() {
		z = time.FixedZone("M8", -8*3600)
	}
	return tm.In(z)
}

// crossLeaf: the "same" value in another type (int<->float<->char,
// string<->bytes, ...), or the same instant in another zone.
func crossLeaf(t *rapid.T, o tengo.Object) tengo.Object {
	switch v := o.(type) {
	case *tengo.Int:
		if v.Value >= math.MinInt32 && v.Value <= math.MaxInt32 && rapid.Bool().Draw(t, "toChar") {
			return &tengo.Char{Value: rune(v.Value)}
		}
		return &tengo.Float{Value: float64(v.Value)}
	case *tengo.Float:
		if v.Value == math.Trunc(v.Value) && math.Abs(v.Value) < 9.2e18 {
			return &tengo.Int{Value: int64(v.Value)}
		}
		if !math.IsNaN(v.Value) && !math.IsInf(v.Value, 0) && math.Abs(v.Value) < 9.2e18 {
			return &tengo.Int{Value: int64(v.Value)} // truncated neighbour
		}
		return &tengo.Int{Value: rapid.SampledFrom([]int64{math.MaxInt64, math.MinInt64, 0}).Draw(t, "edge")}
	case *tengo.Char:
		return &tengo.Int{Value: int64(v.Value)}
	case *tengo.String:
		return &tengo.Bytes{Value: []byte(v.Value)}
	case *tengo.Bytes:
		return &tengo.String{Value: string(v.Value)}
	case *tengo.Bool:
		if v == tengo.TrueValue {
			return &tengo.Int{Value: 1}
		}
		return &tengo.Int{Value: 0}
	case *tengo.Time:
		if rapid.IntRange(0, 3).Draw(t, "toUnix") == 0 {
			return &tengo.Int{Value: v.Value.Unix()}
		}
		return &tengo.Time{Value: otherZone(t, v.Value)}
	case *tengo.Undefined:
		return rapid.SampledFrom([]tengo.Object{tengo.FalseValue, &tengo.Int{Value: 0}, &tengo.String{Value: ""}}).Draw(t, "undefLike")
	}
	return o
}

// nudgeLeaf: a neighbour of the value (off by one / one ulp / one byte / one ns).
func nudgeLeaf(t *rapid.T, o tengo.Object) tengo.Object {
	up := rapid.Bool().Draw(t, "up")
	switch v := o.(type) {
	case *tengo.Int:
		if rapid.IntRange(0, 3).Draw(t, "toFloatUlp") == 0 {
			f := float64(v.Value)
			if up {
				return &tengo.Float{Value: math.Nextafter(f, math.Inf(1))}
			}
			return &tengo.Float{Value: math.Nextafter(f, math.Inf(-1))}
		}
		if (up && v.Value != math.MaxInt64) || v.Value == math.MinInt64 {
			return &tengo.Int{Value: v.Value + 1}
		}
		return &tengo.Int{Value: v.Value - 1}
	case *tengo.Float:
		if math.IsNaN(v.Value) {
			return &tengo.Float{Value: math.Float64frombits(math.Float64bits(v.Value) ^ 1)} // another NaN
		}
		if v.Value == 0 && rapid.Bool().Draw(t, "negzero") {
			return &tengo.Float{Value: math.Copysign(0, -1)}
		}
		if up {
			return &tengo.Float{Value: math.Nextafter(v.Value, math.Inf(1))}
		}
		return &tengo.Float{Value: math.Nextafter(v.Value, math.Inf(-1))}
	case *tengo.Char:
		if (up && v.Value != math.MaxInt32) || v.Value == math.MinInt32 {
			return &tengo.Char{Value: v.Value + 1}
		}
		return &tengo.Char{Value: v.Value - 1}
	case *tengo.String:
		return &tengo.String{Value: string(nudgeBytes(t, []byte(v.Value)))}
	case *tengo.Bytes:
		return &tengo.Bytes{Value: nudgeBytes(t, v.Value)}
	case *tengo.Bool:
		if v == tengo.TrueValue {
			return tengo.FalseValue
		}
		return tengo.TrueValue
	case *tengo.Time:
		d := rapid.SampledFrom([]time.Duration{1, time.Second, time.Hour}).Draw(t, "dt")
		if !up {
			d = -d
		}
		return &tengo.Time{Value: v.Value.Add(d)}
	case *tengo.BuiltinFunction:
		return builtinByName["append"]
	case *tengo.UserFunction:
		return userFn(v.Name)
	}
	return crossLeaf(t, o)
}

func nudgeBytes(t *rapid.T, b []byte) []byte {
	out := append([]byte{}, b...)
	switch rapid.IntRange(0, 4).Draw(t, "nb") {
	case 0:
		return append(out, 0)
	case 1:
		return append(out, rapid.SampledFrom([]byte{' ', 'a', 0xff, 0x80}).Draw(t, "tail"))
	case 2:
		if len(out) > 0 {
			return out[:len(out)-1]
		}
		return append(out, 'a')
	case 3:
		if len(out) > 0 {
			out[len(out)-1]++
			return out
		}
		return append(out, 0)
	default:
		if len(out) > 0 {
			out[0]--
			return out
		}
		return append(out, 0xff)
	}
}

var relations = []string{"same", "clone", "flipmut", "cross", "nudge", "zone", "resize"}

// derive builds b from a by one of the relations; returns the relation label
// actually applied.
func derive(t *rapid.T, a tengo.Object) (tengo.Object, string) {
	leaves := countLeaves(a)
	container := !isLeaf(a)
	choices := relations
	switch a.(type) {
	case *tengo.Time:
		choices = []string{"same", "clone", "zone", "zone", "nudge", "cross"}
	case *tengo.Error:
		choices = []string{"same", "clone", "cross", "nudge"}
	case *tengo.Array, *tengo.ImmutableArray, *tengo.Map, *tengo.ImmutableMap:
		choices = []string{"same", "clone", "flipmut", "flipmut", "cross", "nudge", "resize"}
	default:
		choices = []string{"same", "clone", "cross", "cross", "nudge", "nudge"}
	}
	rel := rapid.SampledFrom(choices).Draw(t, "rel")
	switch rel {
	case "same":
		return a, "same"
	case "clone":
		return deepClone(a), "clone"
	case "flipmut":
		if !container {
			return deepClone(a), "clone"
		}
		all := rapid.Bool().Draw(t, "flipAll")
		mask := rapid.Uint64().Draw(t, "flipMask")
		n := 0
		c := &cloner{memo: map[tengo.Object]tengo.Object{}, target: -1, top: a}
		c.flip = func(o tengo.Object, top bool) bool {
			if _, ok := o.(*tengo.Error); ok {
				return false
			}
			n++
			if top || all {
				return true
			}
			return mask>>(uint(n)%64)&1 == 1
		}
		return c.clone(a), "flipmut"
	case "zone":
		if tm, ok := a.(*tengo.Time); ok {
			return &tengo.Time{Value: otherZone(t, tm.Value)}, "zone"
		}
		fallthrough
	case "cross", "nudge":
		fn := crossLeaf
		label := "cross"
		if rel == "nudge" {
			fn, label = nudgeLeaf, "nudge"
		}
		if !container {
			return fn(t, a), label
		}
		if leaves == 0 {
			return deepClone(a), "clone"
		}
		c := &cloner{memo: map[tengo.Object]tengo.Object{}, top: a}
		c.target = rapid.IntRange(0, leaves-1).Draw(t, "leafIdx")
		c.leafFn = func(o tengo.Object) tengo.Object { return fn(t, o) }
		if rapid.IntRange(0, 3).Draw(t, "alsoFlip") == 0 {
			c.flip = func(o tengo.Object, top bool) bool { _, isErr := o.(*tengo.Error); return top && !isErr }
			label += "+flipmut"
		}
		return c.clone(a), "deep-" + label
	case "resize":
		b := deepClone(a)
		switch v := b.(type) {
		case *tengo.Array:
			v.Value = resizeSeq(t, v.Value)
		case *tengo.ImmutableArray:
			v.Value = resizeSeq(t, v.Value)
		case *tengo.Map:
			resizeMap(t, v.Value)
		case *tengo.ImmutableMap:
			resizeMap(t, v.Value)
		default:
			return nudgeLeaf(t, a), "nudge"
		}
		return b, "resize"
	}
	return deepClone(a), "clone"
}

func resizeSeq(t *rapid.T, xs []tengo.Object) []tengo.Object {
	if len(xs) > 0 && rapid.Bool().Draw(t, "shrink") {
		return xs[:len(xs)-1]
	}
	return append(xs, tengo.UndefinedValue)
}

func resizeMap(t *rapid.T, m map[string]tengo.Object) {
	keys := sortedKeys(m)
	if len(keys) > 0 {
		k := keys[rapid.IntRange(0, len(keys)-1).Draw(t, "mk")]
		switch rapid.IntRange(0, 2).Draw(t, "mr") {
		case 0:
			delete(m, k)
			return
		case 1: // same size, one key renamed (value kept): exercises the missing-key arm of Map.Equals
			v := m[k]
			delete(m, k)
			m[k+"'"] = v
			return
		}
	}
	m["extra"] = tengo.UndefinedValue
}

// drawPair: 60 % independent values, 40 % related.
func drawPair(t *rapid.T) (a, b tengo.Object, rel string) {
	a = genValue(t, "a", 3)
	if rapid.IntRange(0, 9).Draw(t, "related") < 4 {
		b, rel = derive(t, a)
		if rapid.Bool().Draw(t, "swap") {
			a, b = b, a
		}
		return a, b, rel
	}
	return a, genValue(t, "b", 3), "independent"
}
