package c10

import (
	"context"
	"fmt"
	"math"
	"strings"
	"time"

	"github.com/d5/tengo/v2"
	"github.com/d5/tengo/v2/token"

	"verifharness/tv"
)

// ---------- running scripts ----------

// runScript compiles src with the inputs injected through Script.Add and runs
// it with RunContext. The globals are returned even when the run fails (the
// ones assigned before the failure keep their values).
func runScript(src string, inputs map[string]tengo.Object) (map[string]tengo.Object, error) {
	s := tengo.NewScript([]byte(src))
	for k, v := range inputs {
		if err := s.Add(k, v); err != nil {
			return nil, fmt.Errorf("Script.Add(%s): %w", k, err)
		}
	}
	c, err := s.Compile()
	if err != nil {
		return nil, fmt.Errorf("compile: %w", err)
	}
	ctx, cancel := context.WithTimeout(context.Background(), 20*time.Second)
	defer cancel()
	rerr := c.RunContext(ctx)
	out := map[string]tengo.Object{}
	for _, v := range c.GetAll() {
		out[v.Name()] = v.Object()
	}
	return out, rerr
}

// errKind classifies a failure of an operator: the law "a<b and b>a are the
// same kind of run-time error" compares these.
func errKind(err error) string {
	if err == nil {
		return ""
	}
	if err == tengo.ErrInvalidOperator {
		return "invalid-operation"
	}
	msg := err.Error()
	if strings.Contains(msg, "invalid operation") {
		return "invalid-operation"
	}
	if i := strings.IndexByte(msg, '\n'); i >= 0 {
		msg = msg[:i]
	}
	return "other: " + msg
}

// ---------- results of the six operators, both operand orders ----------

type opRes struct {
	Val bool
	Err string // "" = the operator produced a bool
}

func (r opRes) String() string {
	if r.Err != "" {
		return "error(" + r.Err + ")"
	}
	return fmt.Sprint(r.Val)
}

var opNames = []string{"eq", "ne", "lt", "le", "gt", "ge"}
var opText = map[string]string{"eq": "==", "ne": "!=", "lt": "<", "le": "<=", "gt": ">", "ge": ">="}
var opToken = map[string]token.Token{"lt": token.Less, "le": token.LessEq, "gt": token.Greater, "ge": token.GreaterEq}

// results[0] = operators applied to (a, b); results[1] = applied to (b, a).
type results struct {
	R      [2]map[string]opRes
	HaveNe bool
}

func boolOf(o tengo.Object) (bool, bool) {
	if o == tengo.TrueValue {
		return true, true
	}
	if o == tengo.FalseValue {
		return false, true
	}
	return false, false
}

func evalDirect(a, b tengo.Object) (res results, trouble string) {
	defer func() {
		if r := recover(); r != nil {
			trouble = fmt.Sprintf("panic: %v", r)
		}
	}()
	ops := [2][2]tengo.Object{{a, b}, {b, a}}
	for i, p := range ops {
		m := map[string]opRes{}
		m["eq"] = opRes{Val: p[0].Equals(p[1])}
		for _, name := range []string{"lt", "le", "gt", "ge"} {
			o, err := p[0].BinaryOp(opToken[name], p[1])
			if err != nil {
				m[name] = opRes{Err: errKind(err)}
				continue
			}
			v, ok := boolOf(o)
			if !ok {
				return res, fmt.Sprintf("%s %s %s returned %s, not a bool", tv.Describe(p[0]), opText[name], tv.Describe(p[1]), tv.Describe(o))
			}
			m[name] = opRes{Val: v}
		}
		res.R[i] = m
	}
	return res, ""
}

const pairScript = `eq := a == b; ne := a != b; eq2 := b == a; ne2 := b != a
lt := a < b; le := a <= b; gt := a > b; ge := a >= b
lt2 := b < a; le2 := b <= a; gt2 := b > a; ge2 := b >= a`

func evalScript(a, b tengo.Object) (res results, trouble string) {
	res.HaveNe = true
	in := map[string]tengo.Object{"a": a, "b": b}
	out, err := runScript(pairScript, in)
	if out == nil {
		return res, "script: " + err.Error()
	}
	res.R[0], res.R[1] = map[string]opRes{}, map[string]opRes{}
	get := func(name string) (opRes, string) {
		v, ok := boolOf(out[name])
		if !ok {
			return opRes{}, fmt.Sprintf("script variable %s is %s, not a bool", name, tv.Describe(out[name]))
		}
		return opRes{Val: v}, ""
	}
	for _, n := range []string{"eq", "ne"} {
		for i, suffix := range []string{"", "2"} {
			r, tr := get(n + suffix)
			if tr != "" { // == and != never fail
				if err != nil {
					tr += " (run error: " + errKind(err) + ")"
				}
				return res, tr
			}
			res.R[i][n] = r
		}
	}
	if err == nil {
		for _, n := range []string{"lt", "le", "gt", "ge"} {
			for i, suffix := range []string{"", "2"} {
				r, tr := get(n + suffix)
				if tr != "" {
					return res, tr
				}
				res.R[i][n] = r
			}
		}
		return res, ""
	}
	// some comparison is a run-time error: evaluate each on its own
	for _, n := range []string{"lt", "le", "gt", "ge"} {
		for i, src := range []string{"r := a " + opText[n] + " b", "r := b " + opText[n] + " a"} {
			o, e := runScript(src, in)
			if o == nil {
				return res, "script: " + e.Error()
			}
			if e != nil {
				res.R[i][n] = opRes{Err: errKind(e)}
				continue
			}
			v, ok := boolOf(o["r"])
			if !ok {
				return res, fmt.Sprintf("%q left r = %s, not a bool", src, tv.Describe(o["r"]))
			}
			res.R[i][n] = opRes{Val: v}
		}
	}
	return res, ""
}

// ---------- independent expectations ----------

// orderedCmp: for the pairs the property calls ordered, the expected order
// computed in Go from the Go values. kind names the rule used.
// ok=false, kind="nan": a NaN is involved (excluded from the trichotomy).
func orderedCmp(a, b tengo.Object) (cmp int, kind string, ok bool) {
	c := func(less, greater bool) int {
		if less {
			return -1
		}
		if greater {
			return 1
		}
		return 0
	}
	switch x := a.(type) {
	case *tengo.Int:
		switch y := b.(type) {
		case *tengo.Int:
			return c(x.Value < y.Value, x.Value > y.Value), "int", true
		case *tengo.Float:
			if math.IsNaN(y.Value) {
				return 0, "nan", false
			}
			f := float64(x.Value) // "the int taken as a float"
			return c(f < y.Value, f > y.Value), "int/float", true
		case *tengo.Char:
			return c(x.Value < int64(y.Value), x.Value > int64(y.Value)), "int/char", true
		}
	case *tengo.Float:
		if math.IsNaN(x.Value) {
			switch b.(type) {
			case *tengo.Float, *tengo.Int:
				return 0, "nan", false
			}
			return 0, "", false
		}
		switch y := b.(type) {
		case *tengo.Float:
			if math.IsNaN(y.Value) {
				return 0, "nan", false
			}
			return c(x.Value < y.Value, x.Value > y.Value), "float", true
		case *tengo.Int:
			f := float64(y.Value)
			return c(x.Value < f, x.Value > f), "int/float", true
		}
	case *tengo.Char:
		switch y := b.(type) {
		case *tengo.Char:
			return c(x.Value < y.Value, x.Value > y.Value), "char", true
		case *tengo.Int:
			return c(int64(x.Value) < y.Value, int64(x.Value) > y.Value), "int/char", true
		}
	case *tengo.String:
		if y, ok := b.(*tengo.String); ok {
			return strings.Compare(x.Value, y.Value), "string", true // byte order
		}
	case *tengo.Time:
		if y, ok := b.(*tengo.Time); ok {
			return c(x.Value.Before(y.Value), x.Value.After(y.Value)), "time", true
		}
	}
	return 0, "", false
}

// refEq: expected result of == where the docs state it (operators.md:
// same-type equality of int, float, string, char, bool, bytes "same data",
// time "same time instant", (immutable) arrays "contain the same objects",
// (immutable) maps "contain the same key-objects"; property: int/float by
// value, int/char never equal). known=false where the docs are silent (errors:
// pointer identity by design; functions; NaN; any other mix of types).
func refEq(a, b tengo.Object) (eq, known bool) {
	if cmp, kind, ok := orderedCmp(a, b); ok {
		if kind == "int/char" {
			return false, true
		}
		return cmp == 0, true
	}
	switch x := a.(type) {
	case *tengo.Bool:
		if y, ok := b.(*tengo.Bool); ok {
			return x.IsFalsy() == y.IsFalsy(), true
		}
	case *tengo.Undefined:
		if _, ok := b.(*tengo.Undefined); ok {
			return true, true
		}
	case *tengo.Bytes:
		if y, ok := b.(*tengo.Bytes); ok {
			return string(x.Value) == string(y.Value), true
		}
	case *tengo.Array:
		return refEqSeq(x.Value, b)
	case *tengo.ImmutableArray:
		return refEqSeq(x.Value, b)
	case *tengo.Map:
		return refEqMap(x.Value, b)
	case *tengo.ImmutableMap:
		return refEqMap(x.Value, b)
	}
	return false, false
}

func refEqSeq(xs []tengo.Object, b tengo.Object) (bool, bool) {
	var ys []tengo.Object
	switch y := b.(type) {
	case *tengo.Array:
		ys = y.Value
	case *tengo.ImmutableArray:
		ys = y.Value
	default:
		return false, false
	}
	if len(xs) != len(ys) {
		return false, true
	}
	unknown := false
	for i := range xs {
		eq, known := refEq(xs[i], ys[i])
		if known && !eq {
			return false, true
		}
		if !known {
			unknown = true
		}
	}
	return !unknown, !unknown
}

func refEqMap(xm map[string]tengo.Object, b tengo.Object) (bool, bool) {
	var ym map[string]tengo.Object
	switch y := b.(type) {
	case *tengo.Map:
		ym = y.Value
	case *tengo.ImmutableMap:
		ym = y.Value
	default:
		return false, false
	}
	if len(xm) != len(ym) {
		return false, true
	}
	unknown := false
	for _, k := range sortedKeys(xm) {
		yv, ok := ym[k]
		if !ok {
			return false, true
		}
		eq, known := refEq(xm[k], yv)
		if known && !eq {
			return false, true
		}
		if !known {
			unknown = true
		}
	}
	return !unknown, !unknown
}

// ---------- the laws ----------

// checkLaws returns "" or the first violated law; laws lists the laws that
// were evaluated non-vacuously (for the evidence histogram).
func checkLaws(a, b tengo.Object, res results) (violation string, laws []string, nanExcluded bool) {
	da, db := tv.Describe(a), tv.Describe(b)
	r0, r1 := res.R[0], res.R[1]
	fail := func(format string, args ...interface{}) string {
		return fmt.Sprintf("a=%s b=%s: ", da, db) + fmt.Sprintf(format, args...)
	}

	// == symmetric
	laws = append(laws, "law:eq-symmetric")
	if r0["eq"].Val != r1["eq"].Val {
		return fail("(a==b)=%v but (b==a)=%v", r0["eq"].Val, r1["eq"].Val), laws, false
	}
	// != is the negation of ==
	if res.HaveNe {
		laws = append(laws, "law:ne-negates-eq")
		if r0["ne"].Val == r0["eq"].Val {
			return fail("(a!=b)=%v and (a==b)=%v", r0["ne"].Val, r0["eq"].Val), laws, false
		}
		if r1["ne"].Val == r1["eq"].Val {
			return fail("(b!=a)=%v and (b==a)=%v", r1["ne"].Val, r1["eq"].Val), laws, false
		}
	}
	// a<b <=> b>a, a<=b <=> b>=a (values, or the same kind of run-time error)
	mirror := [][2]string{{"lt", "gt"}, {"le", "ge"}, {"gt", "lt"}, {"ge", "le"}}
	anyErr := false
	for _, m := range mirror {
		x, y := r0[m[0]], r1[m[1]]
		if x.Err != "" || y.Err != "" {
			anyErr = true
		}
		if x != y {
			return fail("(a %s b)=%s but (b %s a)=%s", opText[m[0]], x, opText[m[1]], y), laws, false
		}
	}
	if anyErr {
		laws = append(laws, "law:mirror-same-error")
	} else {
		laws = append(laws, "law:mirror-lt-gt", "law:mirror-le-ge")
	}

	// documented equality
	if eq, known := refEq(a, b); known {
		laws = append(laws, "law:eq-documented-value")
		if r0["eq"].Val != eq {
			return fail("(a==b)=%v, expected %v", r0["eq"].Val, eq), laws, false
		}
	}

	// ordered pairs: exactly one of <, ==, > ; <= means < or == ; >= likewise
	cmp, kind, ok := orderedCmp(a, b)
	if !ok {
		return "", laws, kind == "nan"
	}
	for i, r := range []map[string]opRes{r0, r1} {
		c := cmp
		l, rr := "a", "b"
		if i == 1 {
			c = -cmp
			l, rr = "b", "a"
		}
		for _, n := range []string{"lt", "le", "gt", "ge"} {
			if r[n].Err != "" {
				return fail("%s %s %s is documented (%s) but failed: %s", l, opText[n], rr, kind, r[n].Err), laws, false
			}
		}
		lt, eq, gt, le, ge := r["lt"].Val, r["eq"].Val, r["gt"].Val, r["le"].Val, r["ge"].Val
		n := 0
		for _, v := range []bool{lt, eq, gt} {
			if v {
				n++
			}
		}
		if kind == "int/char" {
			// ordered by code point without being equal
			if eq {
				return fail("int/char pair compares equal (%s==%s)", l, rr), laws, false
			}
			if res.HaveNe && !r["ne"].Val {
				return fail("int/char pair: (%s!=%s) is false", l, rr), laws, false
			}
		} else {
			if n != 1 {
				return fail("%s pair (%s,%s): <,==,> = %v,%v,%v (exactly one must hold)", kind, l, rr, lt, eq, gt), laws, false
			}
			if eq != (c == 0) {
				return fail("%s pair: (%s==%s)=%v, expected %v", kind, l, rr, eq, c == 0), laws, false
			}
		}
		if le != (lt || c == 0) || ge != (gt || c == 0) {
			return fail("%s pair (%s,%s): <=%v >=%v but <%v >%v and values compare %d", kind, l, rr, le, ge, lt, gt, c), laws, false
		}
		if kind != "int/char" && (le != (lt || eq) || ge != (gt || eq)) {
			return fail("%s pair (%s,%s): <= is not (< or ==) or >= is not (> or ==): <%v ==%v >%v <=%v >=%v", kind, l, rr, lt, eq, gt, le, ge), laws, false
		}
		if lt != (c < 0) || gt != (c > 0) {
			return fail("%s pair: (%s<%s)=%v (%s>%s)=%v, values compare %d", kind, l, rr, lt, l, rr, gt, c), laws, false
		}
	}
	if kind == "int/char" {
		laws = append(laws, "law:int-char-ordered-not-equal")
	} else {
		laws = append(laws, "law:trichotomy", "law:le-is-lt-or-eq", "law:ge-is-gt-or-eq")
	}
	laws = append(laws, "law:order-matches-go:"+kind)
	return "", laws, false
}
