package c10

import (
	"context"
	"encoding/hex"
	"sort"
	"sync"
	"time"

	"github.com/d5/tengo/v2"

	"verifharness/tv"
)

// VS is the replay form of a value. Unlike tv.Spec it preserves pointer
// sharing of containers, errors and bytes (inside one value and across the two
// values of a pair when both are encoded with the same encoder), which matters
// here: error equality is pointer identity and copy() is about shared state.
type VS struct {
	T    string   `json:"t"` // leaf | array | imm-array | map | imm-map | error | ref | cfunc
	Leaf *tv.Spec `json:"leaf,omitempty"`
	ID   int      `json:"id,omitempty"`
	Ref  int      `json:"ref,omitempty"`
	Kids []*VS    `json:"kids,omitempty"`
	Keys []string `json:"keys,omitempty"` // hex, parallel to Kids
}

type vsEncoder struct {
	ids  map[tengo.Object]int
	next int
}

func newEncoder() *vsEncoder { return &vsEncoder{ids: map[tengo.Object]int{}} }

func (e *vsEncoder) id(o tengo.Object) (int, bool) {
	if id, ok := e.ids[o]; ok {
		return id, true
	}
	e.next++
	e.ids[o] = e.next
	return e.next, false
}

func (e *vsEncoder) enc(o tengo.Object) *VS {
	switch v := o.(type) {
	case *tengo.Array:
		return e.seq("array", o, v.Value)
	case *tengo.ImmutableArray:
		return e.seq("imm-array", o, v.Value)
	case *tengo.Map:
		return e.mp("map", o, v.Value)
	case *tengo.ImmutableMap:
		return e.mp("imm-map", o, v.Value)
	case *tengo.Error:
		id, seen := e.id(o)
		if seen {
			return &VS{T: "ref", Ref: id}
		}
		return &VS{T: "error", ID: id, Kids: []*VS{e.enc(v.Value)}}
	case *tengo.Bytes:
		id, seen := e.id(o)
		if seen {
			return &VS{T: "ref", Ref: id}
		}
		return &VS{T: "leaf", ID: id, Leaf: tv.FromObject(o)}
	case *tengo.CompiledFunction:
		return &VS{T: "cfunc"}
	}
	return &VS{T: "leaf", Leaf: tv.FromObject(o)}
}

func (e *vsEncoder) seq(t string, o tengo.Object, xs []tengo.Object) *VS {
	id, seen := e.id(o)
	if seen {
		return &VS{T: "ref", Ref: id}
	}
	s := &VS{T: t, ID: id}
	for _, x := range xs {
		s.Kids = append(s.Kids, e.enc(x))
	}
	return s
}

func (e *vsEncoder) mp(t string, o tengo.Object, m map[string]tengo.Object) *VS {
	id, seen := e.id(o)
	if seen {
		return &VS{T: "ref", Ref: id}
	}
	s := &VS{T: t, ID: id}
	for _, k := range sortedKeys(m) {
		s.Keys = append(s.Keys, hex.EncodeToString([]byte(k)))
		s.Kids = append(s.Kids, e.enc(m[k]))
	}
	return s
}

type vsDecoder struct{ objs map[int]tengo.Object }

func newDecoder() *vsDecoder { return &vsDecoder{objs: map[int]tengo.Object{}} }

func (d *vsDecoder) dec(s *VS) tengo.Object {
	if s == nil {
		return tengo.UndefinedValue
	}
	switch s.T {
	case "ref":
		if o, ok := d.objs[s.Ref]; ok {
			return o
		}
		return tengo.UndefinedValue
	case "cfunc":
		return compiledFn()
	case "leaf":
		o := s.Leaf.ToObject()
		if s.ID != 0 {
			d.objs[s.ID] = o
		}
		return o
	case "error":
		e := &tengo.Error{}
		d.objs[s.ID] = e
		if len(s.Kids) > 0 {
			e.Value = d.dec(s.Kids[0])
		} else {
			e.Value = tengo.UndefinedValue
		}
		return e
	case "array":
		a := &tengo.Array{}
		d.objs[s.ID] = a
		a.Value = d.kids(s)
		return a
	case "imm-array":
		a := &tengo.ImmutableArray{}
		d.objs[s.ID] = a
		a.Value = d.kids(s)
		return a
	case "map":
		m := &tengo.Map{Value: map[string]tengo.Object{}}
		d.objs[s.ID] = m
		d.fill(m.Value, s)
		return m
	case "imm-map":
		m := &tengo.ImmutableMap{Value: map[string]tengo.Object{}}
		d.objs[s.ID] = m
		d.fill(m.Value, s)
		return m
	}
	return tengo.UndefinedValue
}

func (d *vsDecoder) kids(s *VS) []tengo.Object {
	xs := make([]tengo.Object, 0, len(s.Kids))
	for _, k := range s.Kids {
		xs = append(xs, d.dec(k))
	}
	return xs
}

func (d *vsDecoder) fill(m map[string]tengo.Object, s *VS) {
	for i, k := range s.Kids {
		kb, _ := hex.DecodeString(s.Keys[i])
		m[string(kb)] = d.dec(k)
	}
}

func sortedKeys(m map[string]tengo.Object) []string {
	keys := make([]string, 0, len(m))
	for k := range m {
		keys = append(keys, k)
	}
	sort.Strings(keys)
	return keys
}

// ---------- the one compiled function used as a value ----------

var (
	cfnOnce sync.Once
	cfn     *tengo.CompiledFunction
)

func compiledFn() *tengo.CompiledFunction {
	cfnOnce.Do(func() {
		s := tengo.NewScript([]byte(`f := func(a) { return a }`))
		c, err := s.Compile()
		if err != nil {
			panic(err)
		}
		ctx, cancel := context.WithTimeout(context.Background(), 20*time.Second)
		defer cancel()
		if err := c.RunContext(ctx); err != nil {
			panic(err)
		}
		cfn = c.Get("f").Object().(*tengo.CompiledFunction)
	})
	return cfn
}
