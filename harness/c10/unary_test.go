package c10

import (
	"errors"
	"fmt"
	"math"
	"regexp"
	"sort"
	"strconv"
	"strings"
	"time"

	"github.com/d5/tengo/v2"

	"verifharness/ev"
	"verifharness/tv"
)

// openFindings: defects of /repo reported in FINDINGS.md whose input pattern
// is excluded (and counted) while the finding is open. Replays and
// TestKnownFindings run with strict=true, i.e. with no exclusion.
var openFindings = map[string]bool{
	"F-C10-1": false, // copy(<builtin function>) lost the function's name; repaired in /repo by bd9c161, replay under replays/C10/fixed
	"F-C10-2": false, // bytes(<negative int>) panicked (makeslice); repaired in /repo by 8264e23 (now the run-time error "invalid type for argument"), replays under replays/C10/fixed
}

func excluded(id string, strict bool) bool { return openFindings[id] && !strict }

const maxBytesN = 4096 // bytes(N) is only exercised for 0 <= N <= maxBytesN (bounded work)

// ---------- truthiness (runtime-types.md, "Object.IsFalsy()") ----------

// wantFalsy computes the documented truthiness from the Go value.
// documented=false for the types the table does not list (functions): only
// the agreement of the forms is asserted there.
func wantFalsy(x tengo.Object) (falsy, documented bool) {
	switch v := x.(type) {
	case *tengo.Int:
		return v.Value == 0, true
	case *tengo.String:
		return len(v.Value) == 0, true
	case *tengo.Float:
		return math.IsNaN(v.Value), true
	case *tengo.Bool:
		return v != tengo.TrueValue, true
	case *tengo.Char:
		return v.Value == 0, true
	case *tengo.Bytes:
		return len(v.Value) == 0, true
	case *tengo.Array:
		return len(v.Value) == 0, true
	case *tengo.ImmutableArray:
		return len(v.Value) == 0, true
	case *tengo.Map:
		return len(v.Value) == 0, true
	case *tengo.ImmutableMap:
		return len(v.Value) == 0, true
	case *tengo.Time:
		return v.Value.IsZero(), true
	case *tengo.Error:
		return true, true
	case *tengo.Undefined:
		return true, true
	}
	return false, false
}

const truthScript = `t_not := !x; t_bool := bool(x); t_tern := x ? 1 : 0
t_if := 0; if x { t_if = 1 }
t_and := x && 1; t_or := x || 1`

func isInt(o tengo.Object, n int64) bool {
	i, ok := o.(*tengo.Int)
	return ok && i.Value == n
}

// checkTruth: all forms agree with the table.
func checkTruth(x tengo.Object, script bool, out map[string]tengo.Object) (violation string, cls []string) {
	falsy, documented := wantFalsy(x)
	dx := tv.Describe(x)
	if !documented {
		falsy = x.IsFalsy()
		cls = append(cls, "truth:undocumented-type(forms-agree-only)")
	} else if falsy {
		cls = append(cls, "truth:falsy")
	} else {
		cls = append(cls, "truth:truthy")
	}
	if !script {
		if got := x.IsFalsy(); got != falsy {
			return fmt.Sprintf("IsFalsy(%s)=%v, table says %v", dx, got, falsy), cls
		}
		if v, ok := tengo.ToBool(x); !ok || v == falsy {
			return fmt.Sprintf("ToBool(%s)=%v,%v, table says %v", dx, v, ok, !falsy), cls
		}
		o, err, pan := callBuiltin("bool", x)
		if pan != "" || err != nil {
			return fmt.Sprintf("bool(%s) failed: %v %s", dx, err, pan), cls
		}
		if v, ok := boolOf(o); !ok || v == falsy {
			return fmt.Sprintf("bool(%s)=%s, table says %v", dx, tv.Describe(o), !falsy), cls
		}
		return "", append(cls, "law:truthiness-table")
	}
	type form struct {
		name string
		ok   bool
	}
	wantInt := int64(1)
	if falsy {
		wantInt = 0
	}
	nb, nok := boolOf(out["t_not"])
	bb, bok := boolOf(out["t_bool"])
	forms := []form{
		{"!x", nok && nb == falsy},
		{"bool(x)", bok && bb == !falsy},
		{"x ? 1 : 0", isInt(out["t_tern"], wantInt)},
		{"if x", isInt(out["t_if"], wantInt)},
	}
	// && and || yield the deciding operand: x&&1 is 1 for a truthy x, else x;
	// x||1 is x for a truthy x, else 1.
	and, or := out["t_and"], out["t_or"]
	if falsy {
		forms = append(forms, form{"x && 1", and != nil && tv.Equal(and, x)}, form{"x || 1", isInt(or, 1)})
	} else {
		forms = append(forms, form{"x && 1", isInt(and, 1)}, form{"x || 1", or != nil && tv.Equal(or, x)})
	}
	for _, f := range forms {
		if !f.ok {
			return fmt.Sprintf("x=%s (table: falsy=%v): form `%s` disagrees: !x=%s bool(x)=%s ternary=%s if=%s x&&1=%s x||1=%s", dx, falsy, f.name,
				tv.Describe(out["t_not"]), tv.Describe(out["t_bool"]), tv.Describe(out["t_tern"]), tv.Describe(out["t_if"]), tv.Describe(and), tv.Describe(or)), cls
		}
	}
	return "", append(cls, "law:truthiness-table", "law:truthiness-forms-agree")
}

// ---------- conversions (runtime-types.md, conversion table) ----------

func callBuiltin(name string, args ...tengo.Object) (o tengo.Object, err error, pan string) {
	defer func() {
		if r := recover(); r != nil {
			pan = fmt.Sprintf("panic: %v", r)
		}
	}()
	o, err = builtinByName[name].Value(args...)
	return
}

// render is the harness' own String() of a value as string(x) shows it for
// containers/errors ("[...]", "{...}", "error: ..."): nested strings quoted,
// chars as characters, floats in 'f' format. exact=false when a map with two
// or more keys is inside (iteration order is unspecified).
func render(x tengo.Object, top bool) (s string, exact bool) {
	exact = true
	switch v := x.(type) {
	case *tengo.Int:
		return strconv.FormatInt(v.Value, 10), true
	case *tengo.Float:
		return strconv.FormatFloat(v.Value, 'f', -1, 64), true
	case *tengo.Bool:
		if v == tengo.TrueValue {
			return "true", true
		}
		return "false", true
	case *tengo.Char:
		return string(v.Value), true
	case *tengo.String:
		if top {
			return v.Value, true
		}
		return strconv.Quote(v.Value), true
	case *tengo.Bytes:
		return string(v.Value), true
	case *tengo.Time:
		return v.Value.String(), true
	case *tengo.Undefined:
		return "<undefined>", true
	case *tengo.Error:
		in, ex := render(v.Value, false)
		return "error: " + in, ex
	case *tengo.Array:
		return renderSeq(v.Value)
	case *tengo.ImmutableArray:
		return renderSeq(v.Value)
	case *tengo.Map:
		return renderMap(v.Value)
	case *tengo.ImmutableMap:
		return renderMap(v.Value)
	case *tengo.CompiledFunction:
		return "<compiled-function>", true
	case *tengo.BuiltinFunction:
		return "<builtin-function>", true
	case *tengo.UserFunction:
		return "<user-function>", true
	}
	return "?", false
}

func renderSeq(xs []tengo.Object) (string, bool) {
	parts := make([]string, 0, len(xs))
	exact := true
	for _, e := range xs {
		p, ex := render(e, false)
		exact = exact && ex
		parts = append(parts, p)
	}
	return "[" + strings.Join(parts, ", ") + "]", exact
}

func renderMap(m map[string]tengo.Object) (string, bool) {
	parts := make([]string, 0, len(m))
	exact := len(m) < 2
	for _, k := range sortedKeys(m) {
		p, ex := render(m[k], false)
		exact = exact && ex
		parts = append(parts, k+": "+p)
	}
	return "{" + strings.Join(parts, ", ") + "}", exact
}

func sortedBytes(s string) string {
	b := []byte(s)
	sort.Slice(b, func(i, j int) bool { return b[i] < b[j] })
	return string(b)
}

// convModel: the documented result of fn(x). ok=false: the table has no
// conversion (X) -> undefined / the default. skip != "" : not asserted.
// For fn=="string" on a value containing a multi-key map, cmp="multiset".
type convWant struct {
	ok    bool
	obj   tengo.Object
	cmp   string // "" exact (tv.Equal), "multiset" (string: same bytes in any order), "same-object" (x itself documented as "-")
	skip  string
	rterr bool // the call must fail with the run-time error "invalid type for argument" (bytes(<negative int>))
}

var convFns = []string{"string", "int", "float", "char", "bytes", "time"}

func convModel(fn string, x tengo.Object, strict bool) convWant {
	switch fn {
	case "string":
		if _, ok := x.(*tengo.Undefined); ok {
			return convWant{}
		}
		s, exact := render(x, true)
		w := convWant{ok: true, obj: &tengo.String{Value: s}}
		if !exact {
			w.cmp = "multiset"
		}
		return w
	case "int":
		switch v := x.(type) {
		case *tengo.Int:
			return convWant{ok: true, obj: x}
		case *tengo.Float:
			return convWant{ok: true, obj: &tengo.Int{Value: int64(v.Value)}} // table: int64(f)
		case *tengo.Bool:
			if v == tengo.TrueValue {
				return convWant{ok: true, obj: &tengo.Int{Value: 1}}
			}
			return convWant{ok: true, obj: &tengo.Int{Value: 0}}
		case *tengo.Char:
			return convWant{ok: true, obj: &tengo.Int{Value: int64(v.Value)}}
		case *tengo.String:
			if n, err := strconv.ParseInt(v.Value, 10, 64); err == nil {
				return convWant{ok: true, obj: &tengo.Int{Value: n}}
			}
		}
		return convWant{}
	case "float":
		switch v := x.(type) {
		case *tengo.Int:
			return convWant{ok: true, obj: &tengo.Float{Value: float64(v.Value)}}
		case *tengo.Float:
			return convWant{ok: true, obj: x}
		case *tengo.String:
			if f, err := strconv.ParseFloat(v.Value, 64); err == nil {
				return convWant{ok: true, obj: &tengo.Float{Value: f}}
			}
		}
		return convWant{}
	case "char":
		switch v := x.(type) {
		case *tengo.Int:
			return convWant{ok: true, obj: &tengo.Char{Value: rune(v.Value)}}
		case *tengo.Char:
			return convWant{ok: true, obj: x}
		}
		return convWant{}
	case "bytes":
		switch v := x.(type) {
		case *tengo.Int: // "bytes(N): create a Bytes variable with the given size N"
			if v.Value < 0 {
				if excluded("F-C10-2", strict) {
					return convWant{skip: "known:F-C10-2"}
				}
				// no Bytes of a negative size exists: a run-time error
				// (ErrInvalidArgumentType since 8264e23), never a value
				// and never a Go panic
				return convWant{rterr: true}
			}
			if v.Value > maxBytesN {
				return convWant{skip: "bytes(N) with N > 4096 not allocated (bounded work)"}
			}
			return convWant{ok: true, obj: &tengo.Bytes{Value: make([]byte, v.Value)}}
		case *tengo.String:
			return convWant{ok: true, obj: &tengo.Bytes{Value: []byte(v.Value)}}
		case *tengo.Bytes:
			return convWant{ok: true, obj: x}
		}
		return convWant{}
	case "time":
		switch v := x.(type) {
		case *tengo.Int:
			return convWant{ok: true, obj: &tengo.Time{Value: time.Unix(v.Value, 0)}}
		case *tengo.Time:
			return convWant{ok: true, obj: x}
		}
		return convWant{}
	}
	panic("convModel: " + fn)
}

func convMatches(w convWant, got tengo.Object) bool {
	if got == nil {
		return false
	}
	if w.cmp == "multiset" {
		g, ok := got.(*tengo.String)
		ws := w.obj.(*tengo.String).Value
		return ok && len(g.Value) == len(ws) && sortedBytes(g.Value) == sortedBytes(ws)
	}
	return tv.Equal(w.obj, got)
}

var convScriptLines = map[string]string{
	"string": "c_string1 := string(x); c_string2 := string(x, d)",
	"int":    "c_int1 := int(x); c_int2 := int(x, d)",
	"float":  "c_float1 := float(x); c_float2 := float(x, d)",
	"char":   "c_char1 := char(x); c_char2 := char(x, d)",
	"bytes":  "c_bytes1 := bytes(x); c_bytes2 := bytes(x, d)",
	"time":   "c_time1 := time(x); c_time2 := time(x, d)",
}

// checkConv: fn(x) and fn(x, d) against the table. out: script results (nil
// for the direct path). bytesErr: how the separate bytes script ended.
func checkConv(x, d tengo.Object, script, strict bool, out map[string]tengo.Object, bytesOut map[string]tengo.Object, bytesErr error) (violation string, cls []string) {
	dx, dd := tv.Describe(x), tv.Describe(d)
	kx := kindOf(x)
	for _, fn := range convFns {
		w := convModel(fn, x, strict)
		if w.skip != "" {
			ev.Discard(w.skip)
			continue
		}
		if w.rterr {
			if v := checkConvFails(fn, x, d, script); v != "" {
				return v, cls
			}
			cls = append(cls, "conv:"+fn+"/"+kx+":run-time-error")
			continue
		}
		var got1, got2 tengo.Object
		if script {
			src := out
			if fn == "bytes" {
				src = bytesOut
				if bytesErr != nil {
					return fmt.Sprintf("bytes(%s) failed at run time: %v", dx, firstLine(bytesErr.Error())), cls
				}
			}
			got1, got2 = src["c_"+fn+"1"], src["c_"+fn+"2"]
		} else {
			var err error
			var pan string
			got1, err, pan = callBuiltin(fn, x)
			if pan != "" {
				return fmt.Sprintf("%s(%s) %s", fn, dx, pan), cls
			}
			if err != nil {
				return fmt.Sprintf("%s(%s) failed: %v", fn, dx, err), cls
			}
			got2, err, pan = callBuiltin(fn, x, d)
			if pan != "" {
				return fmt.Sprintf("%s(%s, %s) %s", fn, dx, dd, pan), cls
			}
			if err != nil {
				return fmt.Sprintf("%s(%s, %s) failed: %v", fn, dx, dd, err), cls
			}
		}
		if w.ok {
			cls = append(cls, "conv:"+fn+"/"+kx+":converts")
			if !convMatches(w, got1) {
				return fmt.Sprintf("%s(%s) = %s, table says %s", fn, dx, tv.Describe(got1), tv.Describe(w.obj)), cls
			}
			if !convMatches(w, got2) {
				return fmt.Sprintf("%s(%s, %s) = %s, table says %s (the default must be ignored)", fn, dx, dd, tv.Describe(got2), tv.Describe(w.obj)), cls
			}
		} else {
			cls = append(cls, "conv:"+fn+"/"+kx+":no-conversion")
			if got1 != tengo.UndefinedValue {
				return fmt.Sprintf("%s(%s) = %s, table has no conversion: expected undefined", fn, dx, tv.Describe(got1)), cls
			}
			if got2 == nil || !tv.Equal(got2, d) || (!script && got2 != d) {
				return fmt.Sprintf("%s(%s, %s) = %s, table has no conversion: expected the default", fn, dx, dd, tv.Describe(got2)), cls
			}
		}
	}
	// the Go-level helpers behind the builtins (host API), direct path only
	if !script {
		if v := goHelpers(x, strict); v != "" {
			return v, cls
		}
	}
	return "", append(cls, "law:conversion-table")
}

// checkConvFails: fn(x) and fn(x, d) must both end in the run-time error
// "invalid type for argument" (tengo.ErrInvalidArgumentType): no value, no
// default, no Go panic. Script path: an ordinary located "Runtime Error:".
// Each form runs in a script of its own (the first failure ends a script).
func checkConvFails(fn string, x, d tengo.Object, script bool) string {
	dx, dd := tv.Describe(x), tv.Describe(d)
	if !script {
		for i, args := range [][]tengo.Object{{x}, {x, d}} {
			call := fmt.Sprintf("%s(%s)", fn, dx)
			if i == 1 {
				call = fmt.Sprintf("%s(%s, %s)", fn, dx, dd)
			}
			got, err, pan := callBuiltin(fn, args...)
			if pan != "" {
				return call + " " + pan
			}
			var want tengo.ErrInvalidArgumentType
			if err == nil {
				return fmt.Sprintf("%s = %s, expected the run-time error \"invalid type for argument\"", call, tv.Describe(got))
			}
			if !errors.As(err, &want) {
				return fmt.Sprintf("%s failed with %q, expected the run-time error \"invalid type for argument\"", call, firstLine(err.Error()))
			}
		}
		return ""
	}
	judge := func(call string, out map[string]tengo.Object, err error, name string) string {
		if err == nil {
			return fmt.Sprintf("%s = %s, expected the run-time error \"invalid type for argument\"", call, tv.Describe(out[name]))
		}
		msg := err.Error()
		if strings.Contains(msg, "runtime error:") || !strings.HasPrefix(msg, "Runtime Error: invalid type for argument") || !strings.Contains(msg, "\n\tat ") {
			return fmt.Sprintf("%s failed with %q, expected a located \"Runtime Error: invalid type for argument ...\"", call, firstLine(msg))
		}
		return ""
	}
	in := map[string]tengo.Object{"x": x, "d": d}
	out, err := runScript("r := "+fn+"(x)", in)
	if v := judge(fmt.Sprintf("%s(%s)", fn, dx), out, err, "r"); v != "" {
		return v
	}
	out, err = runScript("r := "+fn+"(x, d)", in)
	return judge(fmt.Sprintf("%s(%s, %s)", fn, dx, dd), out, err, "r")
}

func firstLine(s string) string {
	if i := strings.IndexByte(s, '\n'); i >= 0 {
		return s[:i]
	}
	return s
}

// goHelpers: tengo.ToString/ToInt/ToInt64/ToFloat64/ToRune/ToByteSlice/ToTime
// against the same table.
func goHelpers(x tengo.Object, strict bool) string {
	dx := tv.Describe(x)
	w := convModel("string", x, strict)
	s, ok := tengo.ToString(x)
	if ok != w.ok || (ok && !convMatches(w, &tengo.String{Value: s})) {
		return fmt.Sprintf("ToString(%s) = %q,%v; table says %s,%v", dx, s, ok, tv.Describe(w.obj), w.ok)
	}
	w = convModel("int", x, strict)
	i64, ok := tengo.ToInt64(x)
	if ok != w.ok || (ok && i64 != w.obj.(*tengo.Int).Value) {
		return fmt.Sprintf("ToInt64(%s) = %d,%v; table says %s,%v", dx, i64, ok, tv.Describe(w.obj), w.ok)
	}
	i, ok := tengo.ToInt(x)
	if ok != w.ok || (ok && i != int(w.obj.(*tengo.Int).Value)) {
		return fmt.Sprintf("ToInt(%s) = %d,%v; table says %s,%v", dx, i, ok, tv.Describe(w.obj), w.ok)
	}
	w = convModel("float", x, strict)
	f, ok := tengo.ToFloat64(x)
	if ok != w.ok || (ok && math.Float64bits(f) != math.Float64bits(w.obj.(*tengo.Float).Value) && !(math.IsNaN(f) && math.IsNaN(w.obj.(*tengo.Float).Value))) {
		return fmt.Sprintf("ToFloat64(%s) = %v,%v; table says %s,%v", dx, f, ok, tv.Describe(w.obj), w.ok)
	}
	w = convModel("char", x, strict)
	r, ok := tengo.ToRune(x)
	if ok != w.ok || (ok && r != w.obj.(*tengo.Char).Value) {
		return fmt.Sprintf("ToRune(%s) = %d,%v; table says %s,%v", dx, r, ok, tv.Describe(w.obj), w.ok)
	}
	// ToByteSlice has no bytes(N) special case: int -> X
	bs, ok := tengo.ToByteSlice(x)
	switch v := x.(type) {
	case *tengo.String:
		if !ok || string(bs) != v.Value {
			return fmt.Sprintf("ToByteSlice(%s) = %q,%v", dx, bs, ok)
		}
	case *tengo.Bytes:
		if !ok || string(bs) != string(v.Value) {
			return fmt.Sprintf("ToByteSlice(%s) = %q,%v", dx, bs, ok)
		}
	default:
		if ok {
			return fmt.Sprintf("ToByteSlice(%s) = %q,%v; table has no conversion", dx, bs, ok)
		}
	}
	w = convModel("time", x, strict)
	tm, ok := tengo.ToTime(x)
	if ok != w.ok || (ok && !tv.Equal(&tengo.Time{Value: tm}, w.obj)) {
		return fmt.Sprintf("ToTime(%s) = %v,%v; table says %s,%v", dx, tm, ok, tv.Describe(w.obj), w.ok)
	}
	return ""
}

// ---------- is_* and type_name ----------

var typePreds = []string{"is_int", "is_float", "is_string", "is_bool", "is_char", "is_bytes", "is_array", "is_immutable_array",
	"is_map", "is_immutable_map", "is_time", "is_error", "is_undefined", "is_function", "is_callable", "is_iterable"}

var predOfKind = map[string]string{"int": "is_int", "float": "is_float", "string": "is_string", "bool": "is_bool", "char": "is_char",
	"bytes": "is_bytes", "array": "is_array", "imm-array": "is_immutable_array", "map": "is_map", "imm-map": "is_immutable_map",
	"time": "is_time", "error": "is_error", "undefined": "is_undefined", "function": "is_function"}

func wantTypeName(x tengo.Object) string {
	switch v := x.(type) {
	case *tengo.ImmutableArray:
		return "immutable-array"
	case *tengo.ImmutableMap:
		return "immutable-map"
	case *tengo.CompiledFunction:
		return "compiled-function"
	case *tengo.BuiltinFunction:
		return "builtin-function:" + v.Name
	case *tengo.UserFunction:
		return "user-function:" + v.Name
	}
	return kindOf(x)
}

// wantPred: expected is_*(x); asserted=false where the docs do not decide
// (is_iterable(undefined): builtins.md lists the iterable types without
// undefined, the implementation iterates undefined as an empty sequence).
func wantPred(pred string, x tengo.Object) (want, asserted bool) {
	k := kindOf(x)
	switch pred {
	case "is_callable":
		return k == "function" || k == "builtin" || k == "userfn", true
	case "is_iterable":
		if k == "undefined" {
			return false, false
		}
		switch k {
		case "array", "imm-array", "map", "imm-map", "string", "bytes":
			return true, true
		}
		return false, true
	}
	return predOfKind[k] == pred, true
}

func typeScript() string {
	var sb strings.Builder
	sb.WriteString("y_tn := type_name(x)\n")
	for _, p := range typePreds {
		fmt.Fprintf(&sb, "y_%s := %s(x)\n", p, p)
	}
	return sb.String()
}

func checkTypes(x tengo.Object, script bool, out map[string]tengo.Object) (string, []string) {
	dx := tv.Describe(x)
	var tn tengo.Object
	if script {
		tn = out["y_tn"]
	} else {
		var err error
		var pan string
		tn, err, pan = callBuiltin("type_name", x)
		if err != nil || pan != "" {
			return fmt.Sprintf("type_name(%s) failed: %v %s", dx, err, pan), nil
		}
		if x.TypeName() != wantTypeName(x) {
			return fmt.Sprintf("TypeName() of %s = %q, expected %q", dx, x.TypeName(), wantTypeName(x)), nil
		}
	}
	if s, ok := tn.(*tengo.String); !ok || s.Value != wantTypeName(x) {
		return fmt.Sprintf("type_name(%s) = %s, expected %q", dx, tv.Describe(tn), wantTypeName(x)), nil
	}
	for _, p := range typePreds {
		var got tengo.Object
		if script {
			got = out["y_"+p]
		} else {
			var err error
			var pan string
			got, err, pan = callBuiltin(p, x)
			if err != nil || pan != "" {
				return fmt.Sprintf("%s(%s) failed: %v %s", p, dx, err, pan), nil
			}
		}
		b, ok := boolOf(got)
		if !ok {
			return fmt.Sprintf("%s(%s) = %s, not a bool", p, dx, tv.Describe(got)), nil
		}
		want, asserted := wantPred(p, x)
		if !asserted {
			ev.Note("is_iterable(undefined) not asserted (docs list iterable types without undefined; implementation says true)")
			continue
		}
		if b != want {
			return fmt.Sprintf("%s(%s) = %v, expected %v", p, dx, b, want), nil
		}
	}
	return "", []string{"law:type-predicates-and-type_name"}
}

// ---------- copy ----------

var reBuiltin = regexp.MustCompile(`<builtin:[a-z_]*>`)

// erased: structural description with mutability erased (copy of an
// immutable value is documented to be mutable; nested ones follow the
// implementation) and, while F-C10-1 is open, builtin names erased.
func erased(o tengo.Object, strict bool) string {
	s := tv.Describe(o)
	s = strings.ReplaceAll(s, "imm-array[", "array[")
	s = strings.ReplaceAll(s, "imm-map{", "map{")
	if excluded("F-C10-1", strict) {
		s = reBuiltin.ReplaceAllString(s, "<builtin>")
	}
	return s
}

func contains(o tengo.Object, pred func(tengo.Object) bool) bool {
	found := false
	walkOnce(o, func(n tengo.Object) {
		if pred(n) {
			found = true
		}
	})
	return found
}

// walkOnce visits every reachable node once, children before parents.
func walkOnce(o tengo.Object, visit func(tengo.Object)) {
	seen := map[tengo.Object]bool{}
	var walk func(o tengo.Object)
	walk = func(o tengo.Object) {
		if o == nil {
			return
		}
		switch v := o.(type) {
		case *tengo.Array, *tengo.ImmutableArray, *tengo.Map, *tengo.ImmutableMap, *tengo.Error, *tengo.Bytes:
			if seen[o] {
				return
			}
			seen[o] = true
			switch c := v.(type) {
			case *tengo.Array:
				for _, e := range c.Value {
					walk(e)
				}
			case *tengo.ImmutableArray:
				for _, e := range c.Value {
					walk(e)
				}
			case *tengo.Map:
				for _, k := range sortedKeys(c.Value) {
					walk(c.Value[k])
				}
			case *tengo.ImmutableMap:
				for _, k := range sortedKeys(c.Value) {
					walk(c.Value[k])
				}
			case *tengo.Error:
				walk(c.Value)
			}
		}
		visit(o)
	}
	walk(o)
}

var sentinel = &tengo.String{Value: "<MUTATED>"}

// mutateAll changes every mutable node reachable from o in place (Go level):
// every array slot and map entry is overwritten and one is added, every byte
// of a bytes value is flipped. Returns the number of nodes changed.
func mutateAll(o tengo.Object) int {
	n := 0
	walkOnce(o, func(node tengo.Object) {
		switch v := node.(type) {
		case *tengo.Array:
			for i := range v.Value {
				v.Value[i] = sentinel
			}
			v.Value = append(v.Value, sentinel)
			n++
		case *tengo.Map:
			for k := range v.Value {
				v.Value[k] = sentinel
			}
			v.Value["<NEW>"] = sentinel
			n++
		case *tengo.Bytes:
			for i := range v.Value {
				v.Value[i] ^= 0xff
			}
			if len(v.Value) > 0 {
				n++
			}
		}
	})
	return n
}

// mutationScript writes tengo statements that overwrite every array slot and
// map entry reachable from variable root (deepest first) with S, reaching
// nodes through immutable containers and error values by reading. Keys are
// injected as variables.
func mutationScript(root string, o tengo.Object, inputs map[string]tengo.Object) (src string, nodes int) {
	var sb strings.Builder
	keyVar := map[string]string{}
	kv := func(k string) string {
		if v, ok := keyVar[k]; ok {
			return v
		}
		v := fmt.Sprintf("k%d", len(keyVar))
		keyVar[k] = v
		inputs[v] = &tengo.String{Value: k}
		return v
	}
	seen := map[tengo.Object]bool{}
	var walk func(o tengo.Object, path string)
	walk = func(o tengo.Object, path string) {
		switch v := o.(type) {
		case *tengo.Array, *tengo.ImmutableArray, *tengo.Map, *tengo.ImmutableMap, *tengo.Error:
			if seen[o] {
				return
			}
			seen[o] = true
			switch c := v.(type) {
			case *tengo.Array:
				for i, e := range c.Value {
					walk(e, fmt.Sprintf("%s[%d]", path, i))
				}
				for i := range c.Value {
					fmt.Fprintf(&sb, "%s[%d] = S\n", path, i)
				}
				if len(c.Value) > 0 {
					nodes++
				}
			case *tengo.ImmutableArray:
				for i, e := range c.Value {
					walk(e, fmt.Sprintf("%s[%d]", path, i))
				}
			case *tengo.Map:
				keys := sortedKeys(c.Value)
				for _, k := range keys {
					walk(c.Value[k], fmt.Sprintf("%s[%s]", path, kv(k)))
				}
				for _, k := range keys {
					fmt.Fprintf(&sb, "%s[%s] = S\n", path, kv(k))
				}
				fmt.Fprintf(&sb, "%s[%s] = S\n", path, kv("<NEW>"))
				nodes++
			case *tengo.ImmutableMap:
				for _, k := range sortedKeys(c.Value) {
					walk(c.Value[k], fmt.Sprintf("%s[%s]", path, kv(k)))
				}
			case *tengo.Error:
				walk(c.Value, path+".value")
			}
		}
	}
	walk(o, root)
	inputs["S"] = sentinel
	return sb.String(), nodes
}

func mutableTypeName(x tengo.Object) string {
	switch x.(type) {
	case *tengo.ImmutableArray:
		return "array"
	case *tengo.ImmutableMap:
		return "map"
	}
	return wantTypeName(x)
}

// checkCopy. x is consumed (mutated) by the check.
func checkCopy(x tengo.Object, script, strict bool) (violation string, cls []string) {
	dx := tv.Describe(x)
	hasErr := contains(x, func(n tengo.Object) bool { _, ok := n.(*tengo.Error); return ok })
	hasBuiltin := contains(x, func(n tengo.Object) bool { _, ok := n.(*tengo.BuiltinFunction); return ok })
	if hasBuiltin && excluded("F-C10-1", strict) {
		ev.Discard("known:F-C10-1")
	}
	var c, c2 tengo.Object
	var xx, cx, xc bool
	if script {
		out, err := runScript(`c := copy(x); c2 := copy(x); xx := x == x; cx := c == x; xc := x == c`, map[string]tengo.Object{"x": x})
		if err != nil {
			return fmt.Sprintf("copy script failed for x=%s: %v", dx, firstLine(err.Error())), cls
		}
		c, c2 = out["c"], out["c2"]
		var ok1, ok2, ok3 bool
		xx, ok1 = boolOf(out["xx"])
		cx, ok2 = boolOf(out["cx"])
		xc, ok3 = boolOf(out["xc"])
		if !ok1 || !ok2 || !ok3 {
			return fmt.Sprintf("copy script for x=%s: == did not yield bools", dx), cls
		}
	} else {
		var pan string
		func() {
			defer func() {
				if r := recover(); r != nil {
					pan = fmt.Sprintf("panic: %v", r)
				}
			}()
			c, c2 = x.Copy(), x.Copy()
			if c != nil {
				xx, cx, xc = x.Equals(x), c.Equals(x), x.Equals(c)
			}
		}()
		if pan != "" {
			return fmt.Sprintf("Copy/Equals of %s: %s", dx, pan), cls
		}
		if bc, err, pan := callBuiltin("copy", x); err != nil || pan != "" || bc == nil || !tv.Equal(bc, c) {
			return fmt.Sprintf("copy(%s) = %s %v %s, Copy() = %s", dx, tv.Describe(bc), err, pan, tv.Describe(c)), cls
		}
	}
	if c == nil || c2 == nil || tv.HasNil(c) {
		return fmt.Sprintf("copy(%s) contains a Go nil: %s", dx, tv.Describe(c)), cls
	}
	// equal structural content; immutable -> mutable at the top is documented
	if got, want := erased(c, strict), erased(x, strict); got != want {
		return fmt.Sprintf("copy(%s) = %s: content differs", dx, tv.Describe(c)), cls
	}
	if !(hasBuiltin && excluded("F-C10-1", strict)) && c.TypeName() != mutableTypeName(x) {
		return fmt.Sprintf("copy(%s) has type %q, expected %q", dx, c.TypeName(), mutableTypeName(x)), cls
	}
	cls = append(cls, "law:copy-equal-content")
	// copy(x) == x whenever x == x and no error value inside
	if xx && !hasErr {
		cls = append(cls, "law:copy-equals-original")
		if !cx || !xc {
			return fmt.Sprintf("x=%s: x==x but copy(x)==x is %v and x==copy(x) is %v", dx, cx, xc), cls
		}
	}
	// no shared mutable state, both directions
	snapX, snapC2 := tv.Describe(x), tv.Describe(c2)
	var n1, n2 int
	if script {
		in := map[string]tengo.Object{"c": c}
		src, n := mutationScript("c", c, in)
		n1 = n
		if src != "" {
			if _, err := runScript(src, in); err != nil {
				return fmt.Sprintf("mutating the copy of %s failed: %v\n%s", dx, firstLine(err.Error()), src), cls
			}
		}
	} else {
		n1 = mutateAll(c)
	}
	if after := tv.Describe(x); after != snapX {
		return fmt.Sprintf("mutating copy(x) changed x: before %s after %s", snapX, after), cls
	}
	if script {
		in := map[string]tengo.Object{"x": x}
		src, n := mutationScript("x", x, in)
		n2 = n
		if src != "" {
			if _, err := runScript(src, in); err != nil {
				return fmt.Sprintf("mutating %s failed: %v\n%s", dx, firstLine(err.Error()), src), cls
			}
		}
	} else {
		n2 = mutateAll(x)
	}
	if after := tv.Describe(c2); after != snapC2 {
		return fmt.Sprintf("mutating x=%s changed its earlier copy: before %s after %s", dx, snapC2, after), cls
	}
	if n1 > 0 || n2 > 0 {
		cls = append(cls, "law:copy-no-shared-state")
	} else {
		cls = append(cls, "copy:nothing-mutable")
	}
	return "", cls
}
