// C11 — a program means the same wherever its variables live.
package c11

import (
	"fmt"
	"os"
	"path/filepath"
	"sort"
	"strings"
	"testing"

	"github.com/d5/tengo/v2"
	"pgregory.net/rapid"

	"verifharness/bridge"
	"verifharness/ev"
	"verifharness/gen"
	"verifharness/lang"
	"verifharness/ref"
	"verifharness/refx"
	"verifharness/tv"
)

func TestMain(m *testing.M) { ev.Main(m, "C11") }

type payload struct {
	Program *lang.Program        `json:"program"`
	Inputs  map[string]*lang.Val `json:"inputs,omitempty"`
	Wraps   []int                `json:"wraps,omitempty"`  // pre-order indexes of expressions wrapped by V4
	Rename  map[string]string    `json:"rename,omitempty"` // V5
	Split   int                  `json:"split"`            // V2 split point
	Source  string               `json:"source"`           // echo of V0
}

// observed returns the root-level names a program defines (in order).
func observed(p *lang.Program, inputs map[string]*lang.Val) []string {
	var names []string
	seen := map[string]bool{}
	for _, s := range p.Main.Kids {
		if s != nil && s.K == "define" && !seen[s.S] {
			seen[s.S] = true
			names = append(names, s.S)
		}
	}
	return names
}

func resultMap(names []string) *lang.Node {
	vals := make([]*lang.Node, len(names))
	for i, n := range names {
		vals[i] = lang.Ident(n)
	}
	return lang.Map(append([]string(nil), names...), vals)
}

// ---------- variants ----------

func v0(p *lang.Program, names []string) *lang.Program {
	q := p.Clone()
	q.Main.Kids = append(q.Main.Kids, lang.Define("__r", resultMap(names)))
	return q
}

func v1(p *lang.Program, names []string) *lang.Program {
	q := p.Clone()
	body := lang.Block(append(q.Main.Kids, lang.Return(resultMap(names)))...)
	q.Main = lang.Block(lang.Define("__r", lang.Call(lang.Func(nil, false, body))))
	return q
}

func v2(p *lang.Program, names []string, split int) *lang.Program {
	q := p.Clone()
	k := q.Main.Kids
	if split > len(k) {
		split = len(k)
	}
	inner := lang.Block(append(append([]*lang.Node{}, k[split:]...), lang.Return(resultMap(names)))...)
	outerStmts := append(append([]*lang.Node{}, k[:split]...), lang.Return(lang.Call(lang.Func(nil, false, inner))))
	q.Main = lang.Block(lang.Define("__r", lang.Call(lang.Func(nil, false, lang.Block(outerStmts...)))))
	return q
}

func v3(p *lang.Program, names []string) *lang.Program {
	q := p.Clone()
	if q.Modules == nil {
		q.Modules = map[string]*lang.Node{}
	}
	q.Modules["__mainmod"] = lang.Block(append(q.Main.Kids, lang.Export(resultMap(names)))...)
	q.Main = lang.Block(lang.Define("__r", lang.Import("__mainmod")))
	return q
}

// wrappable lists expressions that V4 may wrap into an immediately invoked
// function literal, in pre-order.
func wrappable(root *lang.Node) []*lang.Node {
	var out []*lang.Node
	var walk func(n *lang.Node, ok bool)
	walk = func(n *lang.Node, ok bool) {
		if n == nil {
			return
		}
		if ok && n.IsExpr() && n.K != "func" {
			out = append(out, n)
		}
		switch n.K {
		case "define":
			// the direct function-literal RHS must stay direct (self reference)
			walk(n.Kids[0], n.Kids[0].K != "func")
		case "assign":
			walkLHS(n.Kids[0], walk)
			walk(n.Kids[1], true)
		case "incdec":
			walkLHS(n.Kids[0], walk)
		default:
			for _, k := range n.Kids {
				walk(k, true)
			}
		}
	}
	walk(root, false)
	return out
}

// walkLHS visits only the index expressions of an assignment target.
func walkLHS(l *lang.Node, walk func(*lang.Node, bool)) {
	for l != nil && (l.K == "index" || l.K == "selector") {
		if l.K == "index" {
			walk(l.Kids[1], true)
		}
		l = l.Kids[0]
	}
}

func v4(p *lang.Program, names []string, picks []int) *lang.Program {
	q := v0(p, names)
	// wrap innermost-first so that earlier picks remain valid nodes
	ws := wrappable(q.Main)
	sort.Sort(sort.Reverse(sort.IntSlice(picks)))
	for _, i := range picks {
		if i < 0 || i >= len(ws) {
			continue
		}
		n := ws[i]
		inner := *n
		*n = *lang.Call(lang.Func(nil, false, lang.Block(lang.Return(&inner))))
	}
	return q
}

func renameProg(p *lang.Program, m map[string]string) *lang.Program {
	q := p.Clone()
	ren := func(s string) string {
		if r, ok := m[s]; ok {
			return r
		}
		return s
	}
	var fix func(n *lang.Node)
	fix = func(n *lang.Node) {
		if n == nil {
			return
		}
		switch n.K {
		case "ident", "define":
			n.S = ren(n.S)
		case "forin":
			if n.S != "" && n.S != "_" {
				n.S = ren(n.S)
			}
			if n.S2 != "_" {
				n.S2 = ren(n.S2)
			}
		case "func":
			for i, pn := range n.Params {
				n.Params[i] = ren(pn)
			}
		}
		for _, k := range n.Kids {
			fix(k)
		}
	}
	fix(q.Main)
	for _, b := range q.Modules {
		_ = b // module-local names are renamed independently: not at all
	}
	return q
}

func v5(p *lang.Program, names []string, m map[string]string, inputs map[string]*lang.Val) (*lang.Program, map[string]*lang.Val, []string) {
	q := renameProg(v0(p, names), m)
	in := map[string]*lang.Val{}
	for k, v := range inputs {
		nk := k
		if r, ok := m[k]; ok {
			nk = r
		}
		in[nk] = v
	}
	return q, in, names
}

// ---------- execution ----------

type outcome struct {
	status string
	kind   string            // first line of the run-time error without positions
	vals   map[string]string // observed name -> description
	text   string
}

func firstLine(s string) string {
	s = strings.TrimPrefix(s, "Runtime Error: ")
	if i := strings.Index(s, "\n"); i >= 0 {
		s = s[:i]
	}
	return s
}

func run(p *lang.Program, inputs map[string]*lang.Val, keyOf func(string) string) outcome {
	src := lang.Render(p.Main)
	mods := map[string]string{}
	for k, b := range p.Modules {
		mods[k] = lang.Render(b)
	}
	res := bridge.Run(src, mods, inputs, bridge.Config{})
	o := outcome{status: res.Status, text: res.ErrText, vals: map[string]string{}}
	if res.Status == "runtime-error" {
		o.kind = firstLine(res.ErrText)
	}
	if res.Status == "ok" {
		r := res.Globals["__r"]
		var m map[string]tengo.Object
		switch x := r.(type) {
		case *tengo.Map:
			m = x.Value
		case *tengo.ImmutableMap:
			m = x.Value
		}
		if m == nil {
			o.status = "bad-result"
			o.text = "observation map missing: " + tv.Describe(r)
			return o
		}
		for k, v := range m {
			o.vals[k] = tv.Describe(v)
		}
	}
	return o
}

func diff(a, b outcome) string {
	if a.status != b.status {
		return fmt.Sprintf("status %s (%s) vs %s (%s)", a.status, oneLine(a.text), b.status, oneLine(b.text))
	}
	if a.kind != b.kind {
		return fmt.Sprintf("error %q vs %q", a.kind, b.kind)
	}
	var keys []string
	for k := range a.vals {
		keys = append(keys, k)
	}
	sort.Strings(keys)
	if len(a.vals) != len(b.vals) {
		return fmt.Sprintf("observed %d vs %d names", len(a.vals), len(b.vals))
	}
	for _, k := range keys {
		if a.vals[k] != b.vals[k] {
			return fmt.Sprintf("%s = %s vs %s", k, a.vals[k], b.vals[k])
		}
	}
	return ""
}

func oneLine(s string) string {
	s = strings.ReplaceAll(s, "\n", " | ")
	if len(s) > 160 {
		s = s[:160]
	}
	return s
}

func check(t ev.TB, test string, pl payload, feat map[string]int) {
	ev.InFlight(test, pl)
	defer ev.InFlightDone()
	p, inputs := pl.Program, pl.Inputs
	ro, why := refx.Stable(p, inputs, ref.DefaultConfig())
	if why != "" {
		ev.Discard(why)
		return
	}
	if ro.Status == "compile-error" {
		ev.Discard("does not compile")
		return
	}
	names := observed(p, inputs)
	base := run(v0(p, names), inputs, nil)
	if base.status == "compile-error" || base.status == "timeout" || base.status == "panic" {
		// compile errors / panics of the base program are C01's and C04's subject
		ev.Discard("base variant: " + base.status)
		return
	}
	variants := []struct {
		name string
		prog *lang.Program
		in   map[string]*lang.Val
	}{
		{"V1:in-function", v1(p, names), inputs},
		{"V2:two-level-closure", v2(p, names, pl.Split), inputs},
		{"V4:iife-wrapped", v4(p, names, append([]int(nil), pl.Wraps...)), inputs},
	}
	if len(inputs) == 0 {
		variants = append(variants, struct {
			name string
			prog *lang.Program
			in   map[string]*lang.Val
		}{"V3:in-module", v3(p, names), inputs})
	}
	if len(pl.Rename) > 0 {
		q, in, _ := v5(p, names, pl.Rename, inputs)
		variants = append(variants, struct {
			name string
			prog *lang.Program
			in   map[string]*lang.Val
		}{"V5:renamed", q, in})
		// V1 o V4 composition on the renamed program is covered by running V4 picks on V1
	}
	classes := []string{"status:" + base.status}
	for _, v := range variants {
		o := run(v.prog, v.in, nil)
		if v.name == "V5:renamed" && o.status == "ok" {
			// map the renamed observation keys back
			inv := map[string]string{}
			for k, r := range pl.Rename {
				inv[r] = k
			}
			vals := map[string]string{}
			for k, d := range o.vals {
				if orig, ok := inv[k]; ok {
					k = orig
				}
				vals[k] = d
			}
			// keys of __r are literal strings (not renamed); nothing to map
			_ = vals
		}
		if d := diff(base, o); d != "" {
			// is the program in the property's domain at all? The filter above
			// tried four fixed map orders; before reporting, the reference
			// enumerates every order of every map traversal, and the top-level
			// program is run 16 more times: a program that does not agree with
			// itself depends on Go's map iteration order.
			if refx.OrderDependent(p, inputs, ref.DefaultConfig()) {
				ev.Discard("excluded:capacity-or-map-order-dependent (exhaustive enumeration after a mismatch)")
				return
			}
			for i := 0; i < 16; i++ {
				if diff(base, run(v0(p, names), inputs, nil)) != "" {
					ev.Discard("excluded:map-order-dependent (the top-level program gives different results from run to run)")
					return
				}
			}
			pl.Source = lang.Render(v0(p, names).Main)
			ev.Fail(t, test, pl, "%s differs from the top-level program: %s\n--- top-level source ---\n%s\n--- variant source ---\n%s",
				v.name, d, clip(pl.Source), clip(lang.Render(v.prog.Main)))
			return
		}
		classes = append(classes, v.name)
	}
	s := ro.Stats
	nt := (s.Captures > 0 || feat["tpl:captured-selector-assign"] > 0) && s.Loops > 0
	if s.Captures > 0 {
		classes = append(classes, "closure-capture")
	}
	if s.Loops > 0 {
		classes = append(classes, "loop")
	}
	if s.SelAssigns > 0 {
		classes = append(classes, "selector-assign")
	}
	ev.ClassN("variant-runs", int64(len(variants)+1))
	ev.Case(lang.Render(p.Main), nt, classes...)
	if nt && ev.WantSample() {
		src := lang.Render(v0(p, names).Main)
		if len(src) < 700 {
			ev.Sample(map[string]interface{}{"source": src, "variants": len(variants), "status": base.status})
		}
	}
}

func clip(s string) string {
	if len(s) > 1800 {
		return s[:1200] + "\n… (" + fmt.Sprint(len(s)) + " bytes) …\n" + s[len(s)-400:]
	}
	return s
}

var renamePool = []string{"x", "y", "aVeryLongIdentifierNameThatGoesOnAndOnAndOn_1234567890", "_u", "ünï", "日本", "a1", "_", "Z9", "résumé", "k", "__x"}

func TestScopeMoves(t *testing.T) {
	rapid.Check(t, func(t *rapid.T) {
		inputs := map[string]*lang.Val{}
		if rapid.Bool().Draw(t, "withInputs") {
			inputs = gen.Inputs(t, true, true, false)
		}
		o := gen.Opts{MaxStmts: 12, MaxDepth: 3, ScopeIndep: true, NoMapIter: false}
		if rapid.IntRange(0, 4).Draw(t, "withModules") == 0 {
			o.Modules = []string{"m1"}
		}
		p, feat := gen.Program(t, o, inputs)
		pl := payload{Program: p, Inputs: inputs}
		pl.Split = rapid.IntRange(0, len(p.Main.Kids)).Draw(t, "split")
		nw := len(wrappable(v0(p, observed(p, inputs)).Main))
		if nw > 0 {
			k := rapid.IntRange(0, 4).Draw(t, "nWraps")
			seen := map[int]bool{}
			for i := 0; i < k; i++ {
				w := rapid.IntRange(0, nw-1).Draw(t, "wrap")
				if !seen[w] {
					seen[w] = true
					pl.Wraps = append(pl.Wraps, w)
				}
			}
		}
		if rapid.IntRange(0, 2).Draw(t, "rename") > 0 {
			// injective renaming of user-declared names (never to a builtin or keyword)
			var declared []string
			seen := map[string]bool{}
			lang.Walk(p.Main, func(n *lang.Node) bool {
				add := func(s string) {
					if s != "" && s != "_" && !seen[s] {
						seen[s] = true
						declared = append(declared, s)
					}
				}
				switch n.K {
				case "define":
					add(n.S)
				case "forin":
					add(n.S)
					add(n.S2)
				case "func":
					for _, pn := range n.Params {
						add(pn)
					}
				}
				return true
			})
			for k := range inputs {
				if !seen[k] {
					seen[k] = true
					declared = append(declared, k)
				}
			}
			sort.Strings(declared)
			pl.Rename = map[string]string{}
			used := map[string]bool{}
			for i, d := range declared {
				if builtin(d) {
					continue // a name shadowing a builtin keeps its name
				}
				if rapid.IntRange(0, 2).Draw(t, "renThis") == 0 {
					continue
				}
				nn := fmt.Sprintf("%s_%d", renamePool[rapid.IntRange(0, len(renamePool)-1).Draw(t, "renTo")], i)
				if nn[0] == '_' && len(nn) > 1 && nn[1] == '_' {
					nn = "q" + nn
				}
				if used[nn] || seen[nn] {
					continue
				}
				used[nn] = true
				pl.Rename[d] = nn
			}
		}
		check(t, "TestScopeMoves", pl, feat)
	})
}

func builtin(s string) bool {
	for _, b := range lang.BuiltinNames {
		if b == s {
			return true
		}
	}
	return false
}

// ---------- replay / regressions ----------

func replayFile(t *testing.T, path string) {
	var p payload
	test, err := ev.LoadReplay(path, &p)
	if err != nil {
		t.Fatalf("load %s: %v", path, err)
	}
	check(t, test, p, map[string]int{})
}

func TestReplay(t *testing.T) {
	path := os.Getenv("VERIF_REPLAY")
	if path == "" {
		t.Skip("no VERIF_REPLAY")
	}
	replayFile(t, path)
}

func TestRegressions(t *testing.T) {
	root := os.Getenv("VERIF_ROOT")
	if root == "" {
		root = "/verif"
	}
	files, _ := filepath.Glob(filepath.Join(root, "replays", "C11", "fixed", "*.json"))
	sort.Strings(files)
	for _, f := range files {
		f := f
		t.Run(filepath.Base(f), func(t *testing.T) { replayFile(t, f) })
		ev.Note("regression replays run")
	}
}
