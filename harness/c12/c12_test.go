// C12 — bytecode post-processing (constant de-duplication) and
// serialization preserve behaviour.
package c12

import (
	"bytes"
	"fmt"
	"os"
	"path/filepath"
	"sort"
	"strings"
	"testing"

	"github.com/d5/tengo/v2"
	"github.com/d5/tengo/v2/stdlib"
	"pgregory.net/rapid"

	"verifharness/bcv"
	"verifharness/bridge"
	"verifharness/ev"
	"verifharness/gen"
	"verifharness/lang"
	"verifharness/ref"
	"verifharness/refx"
	"verifharness/tv"
)

func TestMain(m *testing.M) { ev.Main(m, "C12") }

type payload struct {
	Source  string               `json:"source"`
	Modules map[string]string    `json:"modules,omitempty"`
	Inputs  map[string]*lang.Val `json:"inputs,omitempty"`
	Stdlib  bool                 `json:"stdlib,omitempty"` // use the real stdlib module map instead of the host module
	DataMod bool                 `json:"datamod,omitempty"` // compile with the function-free data module and decode WITHOUT a module map
	// RawMods: modules supplied through the embedder's own Importable, whose
	// Import returns a bare immutable map (no __module_name__, unlike the
	// ones AddBuiltinModule makes): name -> key -> int value
	RawMods map[string]map[string]int64 `json:"raw_mods,omitempty"`
	prog    *lang.Program        // generated cases only (not saved): lets the failure path ask the reference interpreter
}

// dataModule is a builtin module without functions: bytecode using it can be
// decoded without a module map, in which case Decode has to repair the
// bool/undefined singletons inside its (nested) values itself.
func dataModule() *tengo.ModuleMap {
	mm := tengo.NewModuleMap()
	mm.AddBuiltinModule("datamod", map[string]tengo.Object{
		"n":     &tengo.Int{Value: 3},
		"yes":   tengo.TrueValue,
		"no":    tengo.FalseValue,
		"undef": tengo.UndefinedValue,
		"flags": &tengo.Array{Value: []tengo.Object{tengo.TrueValue, tengo.FalseValue, tengo.UndefinedValue}},
		"frozen": &tengo.ImmutableArray{Value: []tengo.Object{tengo.FalseValue, &tengo.Array{Value: []tengo.Object{tengo.TrueValue}}}},
		"nested": &tengo.Map{Value: map[string]tengo.Object{"ok": tengo.TrueValue, "deep": &tengo.Array{Value: []tengo.Object{
			&tengo.ImmutableMap{Value: map[string]tengo.Object{"off": tengo.FalseValue, "u": tengo.UndefinedValue}}}}}},
		"err": &tengo.Error{Value: tengo.TrueValue},
	})
	return mm
}

const budget = 2000000

// rawImportable is an embedder-defined module: whatever Import returns is
// what import("name") yields.
type rawImportable struct{ m *tengo.ImmutableMap }

func (r rawImportable) Import(string) (interface{}, error) { return r.m, nil }

func moduleMap(p payload) *tengo.ModuleMap {
	if len(p.RawMods) > 0 {
		mm := bridge.HostModuleMap()
		for name, kv := range p.RawMods {
			m := &tengo.ImmutableMap{Value: map[string]tengo.Object{}}
			for k, v := range kv {
				m.Value[k] = &tengo.Int{Value: v}
			}
			mm.Add(name, rawImportable{m})
		}
		return mm
	}
	if p.DataMod {
		return dataModule()
	}
	if p.Stdlib {
		return stdlib.GetModuleMap("math", "text", "enum", "json", "base64", "hex", "rand", "times", "fmt")
	}
	return bridge.HostModuleMap()
}

// dump renders everything that decides what a bytecode does: the main
// instructions and every constant (functions as instruction listings).
func dump(bc *tengo.Bytecode) string {
	var sb strings.Builder
	sb.WriteString(strings.Join(tengo.FormatInstructions(bc.MainFunction.Instructions, 0), "\n"))
	for i, c := range bc.Constants {
		fmt.Fprintf(&sb, "\n[%d] ", i)
		if fn, ok := c.(*tengo.CompiledFunction); ok {
			fmt.Fprintf(&sb, "func/%d/%d/%v: %s", fn.NumLocals, fn.NumParameters, fn.VarArgs, strings.Join(tengo.FormatInstructions(fn.Instructions, 0), "; "))
		} else {
			sb.WriteString(tv.Describe(c))
		}
	}
	return sb.String()
}

func roundTrip(bc *tengo.Bytecode, mm *tengo.ModuleMap) (*tengo.Bytecode, error) {
	var buf bytes.Buffer
	before := dump(bc)
	if err := bc.Encode(&buf); err != nil {
		return nil, fmt.Errorf("encode: %w", err)
	}
	if after := dump(bc); after != before {
		return nil, fmt.Errorf("Encode changed the bytecode it was asked to write:\n--- before ---\n%s\n--- after ---\n%s", clip(before), clip(after))
	}
	out := &tengo.Bytecode{}
	if err := out.Decode(bytes.NewReader(buf.Bytes()), mm); err != nil {
		return nil, fmt.Errorf("decode: %w", err)
	}
	return out, nil
}

func clip(s string) string {
	if len(s) > 1500 {
		return s[:900] + "\n… (" + fmt.Sprint(len(s)) + " bytes) …\n" + s[len(s)-400:]
	}
	return s
}

type runOut struct {
	name string
	res  *bridge.VMResult
}

// constantKey returns a key under which two de-duplicable constants are equal.
func constantKey(o tengo.Object) (string, bool) {
	switch c := o.(type) {
	case *tengo.Int:
		return fmt.Sprintf("int:%d", c.Value), true
	case *tengo.Float:
		if c.Value != c.Value {
			return "", false
		}
		return fmt.Sprintf("float:%v", c.Value), true
	case *tengo.Char:
		return fmt.Sprintf("char:%d", c.Value), true
	case *tengo.String:
		return "string:" + c.Value, true
	}
	return "", false
}

func check(t ev.TB, test string, p payload, classes []string) {
	ev.InFlight(test, p)
	defer ev.InFlightDone()
	mm := moduleMap(p)
	compile := func() (*bridge.Unit, *bridge.CompileError) {
		return bridge.CompileUnit(p.Source, p.Modules, p.Inputs, mm)
	}
	u0, err := compile()
	if err != nil {
		ev.Discard("does not compile")
		return
	}
	u1, err := compile()
	if err != nil {
		ev.Fail(t, test, p, "second compilation of the same source failed: %v", err)
		return
	}
	nBefore := len(u1.Bytecode.Constants)
	dm := mm // module map handed to Decode
	if p.DataMod {
		dm = nil
	}
	// B2: serialization of the fresh bytecode (before anything runs)
	b2, e2 := roundTrip(u0.Bytecode, dm)
	if e2 != nil {
		ev.Fail(t, test, p, "fresh bytecode does not survive encode/decode: %v\n--- source ---\n%s", e2, clip(p.Source))
		return
	}
	// B1: de-duplicated
	func() {
		defer func() {
			if r := recover(); r != nil {
				err = &bridge.CompileError{Err: fmt.Errorf("RemoveDuplicates panicked: %v", r), Panicked: true}
			}
		}()
		u1.Bytecode.RemoveDuplicates()
	}()
	if err != nil {
		ev.Fail(t, test, p, "%v\n--- source ---\n%s", err, clip(p.Source))
		return
	}
	nAfter := len(u1.Bytecode.Constants)
	// invariants on B1
	rep := bcv.Verify(u1.Bytecode, u1.NumGlobals, len(tengo.GetAllBuiltinFunctions()))
	if len(rep.Issues) > 0 {
		ev.Fail(t, test, p, "de-duplicated bytecode is malformed: %s\n--- source ---\n%s", rep.Issues[0], clip(p.Source))
		return
	}
	seen := map[string]int{}
	mods := map[string]int{}
	for i, c := range u1.Bytecode.Constants {
		if k, ok := constantKey(c); ok {
			if j, dup := seen[k]; dup {
				ev.Fail(t, test, p, "after de-duplication constants #%d and #%d are equal (%s)\n--- source ---\n%s", j, i, k, clip(p.Source))
				return
			}
			seen[k] = i
		}
		if m, ok := c.(*tengo.ImmutableMap); ok {
			if n, ok := m.Value["__module_name__"].(*tengo.String); ok {
				if j, dup := mods[n.Value]; dup {
					ev.Fail(t, test, p, "after de-duplication constants #%d and #%d both hold module %q", j, i, n.Value)
					return
				}
				mods[n.Value] = i
			}
		}
	}
	// B3: what the CLI runs
	b3, e3 := roundTrip(u1.Bytecode, dm)
	if e3 != nil {
		ev.Fail(t, test, p, "de-duplicated bytecode does not survive encode/decode: %v\n--- source ---\n%s", e3, clip(p.Source))
		return
	}
	// decoded singletons
	for name, bc := range map[string]*tengo.Bytecode{"B2": b2, "B3": b3} {
		var bad string
		var walk func(o tengo.Object, d int)
		walk = func(o tengo.Object, d int) {
			if d > 20 || bad != "" {
				return
			}
			switch x := o.(type) {
			case *tengo.Bool:
				if o != tengo.TrueValue && o != tengo.FalseValue {
					bad = "a decoded bool is not the TrueValue/FalseValue singleton"
				}
			case *tengo.Undefined:
				if o != tengo.UndefinedValue {
					bad = "a decoded undefined is not the UndefinedValue singleton"
				}
			case *tengo.Array:
				for _, e := range x.Value {
					walk(e, d+1)
				}
			case *tengo.ImmutableArray:
				for _, e := range x.Value {
					walk(e, d+1)
				}
			case *tengo.Map:
				for _, e := range x.Value {
					walk(e, d+1)
				}
			case *tengo.ImmutableMap:
				for _, e := range x.Value {
					walk(e, d+1)
				}
			}
		}
		for _, c := range bc.Constants {
			walk(c, 0)
		}
		if bad != "" {
			ev.Fail(t, test, p, "%s: %s\n--- source ---\n%s", name, bad, clip(p.Source))
			return
		}
	}
	// behaviour
	runs := []runOut{}
	for _, v := range []struct {
		name string
		bc   *tengo.Bytecode
		u    *bridge.Unit
	}{{"B0:fresh", u0.Bytecode, u0}, {"B1:deduplicated", u1.Bytecode, u1}, {"B2:fresh-serialized", b2, u0}, {"B3:deduplicated-serialized", b3, u1}} {
		g := bridge.NewGlobals(v.u.Symbols, p.Inputs)
		runs = append(runs, runOut{v.name, bridge.RunVM(v.bc, g, v.u.Index, budget, -1)})
	}
	base := runs[0]
	if base.res.Status == "budget" {
		ev.Discard("instruction budget")
		return
	}
	for _, r := range runs[1:] {
		if r.res.Status != base.res.Status || r.res.ErrText != base.res.ErrText || bridge.DescribeGlobals(base.res.Globals, nil) != bridge.DescribeGlobals(r.res.Globals, nil) {
			// Before a behavioural difference is reported: is the program in
			// the property's domain at all? The generator's filter tries four
			// fixed map orders only. (a) the reference interpreter enumerates
			// every order of every map traversal; (b) the fresh bytecode is
			// compiled and run 16 more times: if it does not agree with itself
			// the result depends on Go's map iteration order.
			if p.prog != nil {
				cfg := ref.DefaultConfig()
				cfg.HostMods = bridge.HostModRef()
				if refx.OrderDependent(p.prog, p.Inputs, cfg) {
					ev.Discard("excluded:capacity-or-map-order-dependent (exhaustive enumeration after a mismatch)")
					return
				}
			}
			key := func(x *bridge.VMResult) string {
				return x.Status + "|" + x.ErrText + "|" + bridge.DescribeGlobals(x.Globals, nil)
			}
			for i := 0; i < 16; i++ {
				u, err := compile()
				if err != nil {
					break
				}
				again := bridge.RunVM(u.Bytecode, bridge.NewGlobals(u.Symbols, p.Inputs), u.Index, budget, -1)
				if key(again) != key(base.res) {
					ev.Discard("excluded:map-order-dependent (the fresh bytecode gives different results from run to run)")
					return
				}
			}
		}
		if r.res.Status != base.res.Status {
			ev.Fail(t, test, p, "%s: status %s (%s), %s: status %s (%s)\n--- source ---\n%s", base.name, base.res.Status, base.res.ErrText, r.name, r.res.Status, r.res.ErrText, clip(p.Source))
			return
		}
		if r.res.ErrText != base.res.ErrText {
			ev.Fail(t, test, p, "error text/positions differ:\n %s: %q\n %s: %q\n--- source ---\n%s", base.name, base.res.ErrText, r.name, r.res.ErrText, clip(p.Source))
			return
		}
		ga, gb := bridge.DescribeGlobals(base.res.Globals, nil), bridge.DescribeGlobals(r.res.Globals, nil)
		if ga != gb {
			ev.Fail(t, test, p, "globals differ:\n %s: %s\n %s: %s\n--- source ---\n%s", base.name, clipLine(ga), r.name, clipLine(gb), clip(p.Source))
			return
		}
	}
	nFuncs := 0
	for _, c := range u0.Bytecode.Constants {
		if _, ok := c.(*tengo.CompiledFunction); ok {
			nFuncs++
		}
	}
	nt := nAfter < nBefore && nFuncs > 0
	classes = append(classes, "status:"+base.res.Status)
	if nAfter < nBefore {
		classes = append(classes, "constants-removed")
	}
	if len(mods) > 0 {
		classes = append(classes, "builtin-module-constant")
	}
	if len(p.Modules) > 0 {
		classes = append(classes, "source-modules")
	}
	ev.ClassN("constants-before", int64(nBefore))
	ev.ClassN("constants-after", int64(nAfter))
	ev.Case(p.Source, nt, classes...)
	if nt && ev.WantSample() && len(p.Source) < 600 {
		ev.Sample(map[string]interface{}{"source": p.Source, "constants_before": nBefore, "constants_after": nAfter, "status": base.res.Status})
	}
}

func clipLine(s string) string {
	if len(s) > 700 {
		return s[:700] + "…"
	}
	return s
}

func renderProg(p *lang.Program) (string, map[string]string) {
	src := lang.Render(p.Main)
	mods := map[string]string{}
	for k, b := range p.Modules {
		mods[k] = lang.Render(b)
	}
	return src, mods
}

func TestDedupSerialize(t *testing.T) {
	rapid.Check(t, func(t *rapid.T) {
		inputs := gen.Inputs(t, true, true, false)
		o := gen.Opts{MaxStmts: 12, MaxDepth: 3, HostMods: []string{bridge.HostModName}, NoTime: false}
		if rapid.IntRange(0, 2).Draw(t, "withModules") == 0 {
			o.Modules = []string{"m1", "m2"}[:1+rapid.IntRange(0, 1).Draw(t, "nMods")]
		}
		p, _ := gen.Program(t, o, inputs)
		cfg := ref.DefaultConfig()
		cfg.HostMods = bridge.HostModRef()
		if _, why := refx.Stable(p, inputs, cfg); why != "" {
			ev.Discard(why)
			return
		}
		src, mods := renderProg(p)
		check(t, "TestDedupSerialize", payload{Source: src, Modules: mods, Inputs: inputs, prog: p}, nil)
	})
}

// deterministic programs over the real stdlib modules and repeated /
// near-repeated constants
var stdlibPrograms = []string{
	`math := import("math"); text := import("text"); a := math.abs(-1.5); b := text.to_upper("abc"); c := [1, 1.0, '1', "1", 1, 1.0, '1', "1"]; d := math.pi == import("math").pi`,
	`enum := import("enum"); r := enum.map([1,2,3], func(k, v) { return v * 2 }); s := enum.filter([1,2,3,4], func(k, v) { return v % 2 == 0 }); t := enum.all([1,1], func(k, v) { return v == 1 })`,
	`json := import("json"); e := string(json.encode({a: [1, 2.5, "x", true, undefined]})); d := json.decode("[1, 1.0, \"1\", true, null]"); f := d[3] == true && d[4] == undefined`,
	`text := import("text"); f := func(s) { return text.repeat(s, 2) + text.repeat(s, 2) }; g := func(s) { return text.repeat(s, 2) }; r := [f("ab"), g("ab"), f("1"), g("1"), 1, "1", '1', 1.0]`,
	`m := import("math"); f := func() { return [0.5, 0.5, 5e-1, 1, 1, 1.0, 2, "2", '2'] }; g := func() { return [0.5, 1, 1.0, "2"] }; r := f() + g(); s := m.floor(2.5) + m.floor(2.5); e := 1 / 0`,
	`b64 := import("base64"); hex := import("hex"); a := b64.encode("hello"); b := string(b64.decode(a)); c := hex.encode("hi"); d := a + a; e := [a, a, "aGVsbG8=", "aGVsbG8="]`,
	`fmt := import("fmt"); s := fmt.sprintf("%d-%s-%d", 7, "x", 7); t := format("%d-%s-%d", 7, "x", 7); u := s == t`,
	`times := import("times"); t1 := times.date(2020, 1, 2, 3, 4, 5, 6); y := times.time_year(t1); z := times.time_year(t1) + times.time_month(t1); w := [2020, 2020, 1, 1]`,
	`outer := func() { a := "dup"; return func() { b := "dup"; return func() { return a + b + "dup" } } }; r := outer()()(); x := "dup"; y := ["dup", "dup"]`,
}

func TestStdlibPrograms(t *testing.T) {
	for i, s := range stdlibPrograms {
		s := strings.ReplaceAll(s, "; ", "\n")
		t.Run(fmt.Sprint(i), func(t *testing.T) {
			check(t, "TestStdlibPrograms", payload{Source: s, Stdlib: true}, []string{"stdlib-program"})
		})
	}
}

// TestCustomImportables: 2..4 embedder-defined modules without a module name
// (equal or different contents), imported under different names, each 1..3
// times, also from inside functions: after de-duplication and after
// serialization every import expression still yields its own module.
func TestCustomImportables(t *testing.T) {
	rapid.Check(t, func(t *rapid.T) {
		p := payload{RawMods: map[string]map[string]int64{}}
		n := rapid.IntRange(2, 4).Draw(t, "modules")
		var sb strings.Builder
		for i := 0; i < n; i++ {
			name := fmt.Sprintf("raw%d", i)
			kv := map[string]int64{"id": int64(rapid.IntRange(0, 2).Draw(t, "id"))}
			if rapid.Bool().Draw(t, "second-key") {
				kv["w"] = int64(rapid.IntRange(0, 1).Draw(t, "w"))
			}
			p.RawMods[name] = kv
		}
		uses := rapid.IntRange(n, 3*n).Draw(t, "uses")
		for u := 0; u < uses; u++ {
			name := fmt.Sprintf("raw%d", rapid.IntRange(0, n-1).Draw(t, "which"))
			switch rapid.IntRange(0, 2).Draw(t, "form") {
			case 0:
				fmt.Fprintf(&sb, "u%d := import(%q)\n", u, name)
			case 1:
				fmt.Fprintf(&sb, "u%d := import(%q).id * 10 + %d\n", u, name, u)
			default:
				fmt.Fprintf(&sb, "u%d := (func() { m := import(%q); return [m.id, m] })()\n", u, name)
			}
		}
		sb.WriteString("h := import(\"hostmod\").answer\n")
		p.Source = sb.String()
		check(t, "TestCustomImportables", p, []string{"custom-importable"})
	})
}

var dataModPrograms = []string{
	`m := import("datamod"); a := m.yes == true; b := m.no == false; c := is_undefined(m.undef); d := m.undef == undefined; e := m.n`,
	`m := import("datamod"); a := m.flags[0] == true; b := m.flags[1] == false; c := m.flags[2] == undefined; d := [m.flags[0] ? 1 : 2, m.flags[1] ? 1 : 2]; e := m.flags == [true, false, undefined]`,
	`m := import("datamod"); a := m.nested.ok == true; b := m.nested.deep[0].off == false; c := m.nested.deep[0].u == undefined; d := bool(m.nested.deep[0].off)`,
	`m := import("datamod"); a := m.frozen[0] == false; b := m.frozen[1][0] == true; c := m.frozen == [false, [true]]; d := m.err.value == true`,
	`f := func() { m := import("datamod"); return [m.yes == true, m.flags[1] == false, m.nested.deep[0].u == undefined] }; r := f(); m2 := import("datamod"); s := m2.flags[0] == import("datamod").yes`,
}

// TestDecodeWithoutModuleMap: bytecode that embeds a function-free builtin
// module is decoded with a nil module map; every bool / undefined inside the
// module's nested values must come back as the singleton (== true etc. are
// identity comparisons).
func TestDecodeWithoutModuleMap(t *testing.T) {
	for i, s := range dataModPrograms {
		s := strings.ReplaceAll(s, "; ", "\n")
		t.Run(fmt.Sprint(i), func(t *testing.T) {
			check(t, "TestDecodeWithoutModuleMap", payload{Source: s, DataMod: true}, []string{"decode-without-module-map"})
		})
	}
}

// ---------- replay / regressions ----------

func replayFile(t *testing.T, path string) {
	var p payload
	test, err := ev.LoadReplay(path, &p)
	if err != nil {
		t.Fatalf("load %s: %v", path, err)
	}
	check(t, test, p, []string{"replay"})
}

func TestReplay(t *testing.T) {
	path := os.Getenv("VERIF_REPLAY")
	if path == "" {
		t.Skip("no VERIF_REPLAY")
	}
	replayFile(t, path)
}

func TestRegressions(t *testing.T) {
	root := os.Getenv("VERIF_ROOT")
	if root == "" {
		root = "/verif"
	}
	files, _ := filepath.Glob(filepath.Join(root, "replays", "C12", "fixed", "*.json"))
	sort.Strings(files)
	for _, f := range files {
		f := f
		t.Run(filepath.Base(f), func(t *testing.T) { replayFile(t, f) })
		ev.Note("regression replays run")
	}
}

var _ = tv.Describe
