package c13

// (a) TestBuiltinsInModules: "a module body sees only its own variables and
// the builtin functions" - every builtin, under its own name, whatever the
// embedder named its variables. A probe module calls each builtin once and
// exports what came back; the host shadows a drawn set of builtin names with
// variables of its own, through Script.Add or through a symbol table handed to
// tengo.NewCompiler (which may or may not have the builtins defined already).
// The export must be the same in every configuration, and main must read the
// host's values under the shadowed names.
//
// (b) TestModuleMapModel: ModuleMap is the embedder's registry; Add*, Remove,
// Copy, AddMap, Get, Len follow a plain map, and a Copy is independent of
// the map it was taken from (a script compiled with one sees that one only).

import (
	"fmt"
	"sort"
	"strings"
	"testing"

	"github.com/d5/tengo/v2"
	"github.com/d5/tengo/v2/parser"
	"pgregory.net/rapid"

	"verifharness/ev"
	"verifharness/tv"
)

// one harmless call per builtin, with the description of its result
var builtinProbes = [][3]string{
	{"len", `len("abc")`, `int(3)`}, {"copy", `copy([1])`, `array[int(1)]`}, {"append", `append([1], 2)`, `array[int(1), int(2)]`},
	{"delete", `type_name(delete({a: 1}, "a"))`, `string("undefined")`}, {"splice", `splice([1, 2, 3], 1, 1)`, `array[int(2)]`},
	{"string", `string(5)`, `string("5")`}, {"int", `int("7")`, `int(7)`}, {"bool", `bool(1)`, `bool(true)`}, {"float", `float(2)`, `float(2)`},
	{"char", `char(65)`, `char(65)`}, {"bytes", `bytes("ab")`, `bytes("ab")`}, {"time", `is_time(time(0))`, `bool(true)`},
	{"is_int", `is_int(1)`, `bool(true)`}, {"is_float", `is_float(1.5)`, `bool(true)`}, {"is_string", `is_string("")`, `bool(true)`},
	{"is_bool", `is_bool(false)`, `bool(true)`}, {"is_char", `is_char('a')`, `bool(true)`}, {"is_bytes", `is_bytes(bytes(1))`, `bool(true)`},
	{"is_array", `is_array([])`, `bool(true)`}, {"is_immutable_array", `is_immutable_array(immutable([]))`, `bool(true)`},
	{"is_map", `is_map({})`, `bool(true)`}, {"is_immutable_map", `is_immutable_map(immutable({}))`, `bool(true)`},
	{"is_iterable", `is_iterable([])`, `bool(true)`}, {"is_time", `is_time(1)`, `bool(false)`}, {"is_error", `is_error(error(1))`, `bool(true)`},
	{"is_undefined", `is_undefined(undefined)`, `bool(true)`}, {"is_function", `is_function(func() {})`, `bool(true)`},
	{"is_callable", `is_callable(len)`, `bool(true)`}, {"type_name", `type_name(1)`, `string("int")`}, {"format", `format("%d", 7)`, `string("7")`},
	{"range", `range(0, 2)`, `array[int(0), int(1)]`}, {"freeze", `is_immutable_array(freeze([1]))`, `bool(true)`},
}

type builtinsCase struct {
	Shadow []string `json:"shadow"` // builtin names the host defines as variables
	Mode   string   `json:"mode"`   // script | raw-bare | raw-predefined
	Nested bool     `json:"nested"` // the probe module is imported by another module, not by main
}

func checkBuiltinsInModules(t ev.TB, test string, c *builtinsCase) {
	known := map[string]bool{}
	for _, f := range tengo.GetAllBuiltinFunctions() {
		known[f.Name] = true
	}
	var keys, want []string
	var entries []string
	for _, p := range builtinProbes {
		if !known[p[0]] {
			continue // this tree has no such builtin
		}
		entries = append(entries, "\t"+p[0]+": "+p[1])
		keys = append(keys, p[0])
		want = append(want, p[2])
	}
	mm := tengo.NewModuleMap()
	mm.AddSourceModule("probe", []byte("export {\n"+strings.Join(entries, ",\n")+"\n}\n"))
	imp := "probe"
	if c.Nested {
		mm.AddSourceModule("outer", []byte("export import(\"probe\")\n"))
		imp = "outer"
	}
	var src strings.Builder
	fmt.Fprintf(&src, "res := import(%q)\n", imp)
	for i, n := range c.Shadow {
		fmt.Fprintf(&src, "seen%d := %s\n", i, n) // main reads the host's value under the builtin's name
	}
	globals := map[string]tengo.Object{}
	var runErr error
	switch c.Mode {
	case "script":
		s := tengo.NewScript([]byte(src.String()))
		s.SetImports(mm)
		for i, n := range c.Shadow {
			if err := s.Add(n, 1000+i); err != nil {
				ev.Fail(t, test, c, "Add(%q): %v", n, err)
				return
			}
		}
		cc, err := s.Compile()
		if err != nil {
			ev.Fail(t, test, c, "compile (Script, host variables %v): %v", c.Shadow, err)
			return
		}
		runErr = cc.Run()
		for _, v := range cc.GetAll() {
			globals[v.Name()] = v.Object()
		}
	default:
		st := tengo.NewSymbolTable()
		if c.Mode == "raw-predefined" {
			for idx, f := range tengo.GetAllBuiltinFunctions() {
				st.DefineBuiltin(idx, f.Name)
			}
		}
		syms := map[string]*tengo.Symbol{}
		for _, n := range c.Shadow {
			syms[n] = st.Define(n)
		}
		fs := parser.NewFileSet()
		sf := fs.AddFile("(main)", -1, src.Len())
		file, err := parser.NewParser(sf, []byte(src.String()), nil).ParseFile()
		if err != nil {
			ev.Fail(t, test, c, "parse: %v", err)
			return
		}
		comp := tengo.NewCompiler(sf, st, nil, mm, nil)
		if err := comp.Compile(file); err != nil {
			ev.Fail(t, test, c, "compile (NewCompiler, %s, caller-defined %v): %v", c.Mode, c.Shadow, err)
			return
		}
		g := make([]tengo.Object, tengo.GlobalsSize)
		for i, n := range c.Shadow {
			g[syms[n].Index] = &tengo.Int{Value: int64(1000 + i)}
		}
		runErr = tengo.NewVM(comp.Bytecode(), g, -1).Run()
		for _, n := range st.Names() {
			if s, _, ok := st.Resolve(n, false); ok && s.Scope == tengo.ScopeGlobal && g[s.Index] != nil {
				globals[n] = g[s.Index]
			}
		}
	}
	if runErr != nil {
		ev.Fail(t, test, c, "run (%s, host names %v): %v", c.Mode, c.Shadow, runErr)
		return
	}
	res, ok := globals["res"].(*tengo.ImmutableMap)
	if !ok {
		ev.Fail(t, test, c, "import yields %s", tv.Describe(globals["res"]))
		return
	}
	for i, k := range keys {
		if got := tv.Describe(res.Value[k]); got != want[i] {
			ev.Fail(t, test, c, "%s, host names %v: inside the module, builtin %s gave %s, expected %s", c.Mode, c.Shadow, k, got, want[i])
			return
		}
	}
	for i := range c.Shadow {
		if got, w := tv.Describe(globals[fmt.Sprintf("seen%d", i)]), fmt.Sprintf("int(%d)", 1000+i); got != w {
			ev.Fail(t, test, c, "%s: main reads %s under the host's name %q, the host set %s", c.Mode, got, c.Shadow[i], w)
			return
		}
	}
	ev.Case(fmt.Sprintf("builtins|%v|%s|%v", c.Shadow, c.Mode, c.Nested), len(c.Shadow) > 0, "builtins-in-modules:"+c.Mode, fmt.Sprintf("builtins-in-modules:shadowed=%d", len(c.Shadow)))
}

func TestBuiltinsInModules(t *testing.T) {
	rapid.Check(t, func(t *rapid.T) {
		c := &builtinsCase{Mode: rapid.SampledFrom([]string{"script", "raw-bare", "raw-predefined"}).Draw(t, "mode"), Nested: rapid.Bool().Draw(t, "nested")}
		seen := map[string]bool{}
		for i := rapid.IntRange(0, 3).Draw(t, "shadowed"); i > 0; i-- {
			n := builtinProbes[rapid.IntRange(0, len(builtinProbes)-1).Draw(t, "name")][0]
			if !seen[n] {
				seen[n] = true
				c.Shadow = append(c.Shadow, n)
			}
		}
		checkBuiltinsInModules(t, "TestBuiltinsInModules", c)
	})
}

// ---------- (b) ModuleMap model ----------

type rawModule struct{ m *tengo.ImmutableMap }

func (r rawModule) Import(string) (interface{}, error) { return r.m, nil }

type mmOp struct {
	Op   string `json:"op"` // add-src | add-builtin | remove | copy | addmap | use
	On   int    `json:"on"` // which map
	From int    `json:"from,omitempty"`
	Name string `json:"name,omitempty"`
	Val  int    `json:"val,omitempty"`
}

type mmCase struct {
	Ops []mmOp `json:"ops"`
}

func checkModuleMapModel(t ev.TB, test string, c *mmCase) {
	real := []*tengo.ModuleMap{tengo.NewModuleMap()}
	model := []map[string]string{{}}
	for step, op := range c.Ops {
		if op.On >= len(real) {
			op.On = len(real) - 1
		}
		if op.From >= len(real) {
			op.From = len(real) - 1
		}
		switch op.Op {
		case "add-src":
			real[op.On].AddSourceModule(op.Name, []byte(fmt.Sprintf("export %d", op.Val)))
			model[op.On][op.Name] = fmt.Sprintf("int(%d)", op.Val)
		case "add-builtin":
			real[op.On].AddBuiltinModule(op.Name, map[string]tengo.Object{"v": &tengo.Int{Value: int64(op.Val)}})
			model[op.On][op.Name] = fmt.Sprintf("imm-map{\"__module_name__\": string(%q), \"v\": int(%d)}", op.Name, op.Val) // builtin modules carry their name
		case "add-raw":
			// an embedder-defined Importable whose Import returns a bare
			// immutable map (no module name inside, unlike AddBuiltinModule's)
			real[op.On].Add(op.Name, rawModule{&tengo.ImmutableMap{Value: map[string]tengo.Object{"v": &tengo.Int{Value: int64(op.Val)}}}})
			model[op.On][op.Name] = fmt.Sprintf("imm-map{\"v\": int(%d)}", op.Val)
		case "remove":
			real[op.On].Remove(op.Name)
			delete(model[op.On], op.Name)
		case "copy":
			real = append(real, real[op.On].Copy())
			m := map[string]string{}
			for k, v := range model[op.On] {
				m[k] = v
			}
			model = append(model, m)
		case "addmap":
			real[op.On].AddMap(real[op.From])
			for k, v := range model[op.From] {
				model[op.On][k] = v
			}
		}
		// invariant: every map answers like its model, through Get/Len and through a script
		for i := range real {
			if real[i].Len() != len(model[i]) {
				ev.Fail(t, test, c, "after step %d (%s): map #%d has Len %d, expected %d (%v)", step, op.Op, i, real[i].Len(), len(model[i]), sortedNames(model[i]))
				return
			}
			for _, name := range []string{"a", "b", "c"} {
				_, has := model[i][name]
				if got := real[i].Get(name) != nil; got != has {
					ev.Fail(t, test, c, "after step %d (%s %q on #%d): map #%d Get(%q) present=%v, expected %v", step, op.Op, op.Name, op.On, i, name, got, has)
					return
				}
				s := tengo.NewScript([]byte(fmt.Sprintf("x := import(%q)", name)))
				s.SetImports(real[i])
				cc, err := s.Run()
				switch {
				case has && err != nil:
					ev.Fail(t, test, c, "after step %d: a script using map #%d cannot import %q: %v", step, i, name, err)
					return
				case !has && err == nil:
					ev.Fail(t, test, c, "after step %d (%s %q on #%d): a script using map #%d imports %q, which that map never got", step, op.Op, op.Name, op.On, i, name)
					return
				case has:
					if got := tv.Describe(cc.Get("x").Object()); got != model[i][name] {
						ev.Fail(t, test, c, "after step %d: map #%d module %q yields %s, expected %s", step, i, name, got, model[i][name])
						return
					}
				}
			}
		}
	}
	// and all modules of a map imported by ONE script (compiled, hence
	// de-duplicated, together): each import expression yields its own module
	for i := range real {
		var src strings.Builder
		names := sortedNames(model[i])
		for _, n := range names {
			fmt.Fprintf(&src, "x_%s := import(%q)\ny_%s := import(%q)\n", n, n, n, n)
		}
		if len(names) < 2 {
			continue
		}
		s := tengo.NewScript([]byte(src.String()))
		s.SetImports(real[i])
		cc, err := s.Run()
		if err != nil {
			ev.Fail(t, test, c, "a script importing all modules of map #%d fails: %v", i, err)
			return
		}
		for _, n := range names {
			for _, v := range []string{"x_", "y_"} {
				if got := tv.Describe(cc.Get(v + n).Object()); got != model[i][n] {
					ev.Fail(t, test, c, "one script importing all of %v from map #%d: import(%q) yields %s, expected %s", names, i, n, got, model[i][n])
					return
				}
			}
		}
	}
	copies := 0
	for _, op := range c.Ops {
		if op.Op == "copy" {
			copies++
		}
	}
	ev.Case(fmt.Sprintf("mm|%+v", c.Ops), copies > 0 && len(c.Ops) >= 4, "module-map-model")
}

func sortedNames(m map[string]string) []string {
	var ks []string
	for k := range m {
		ks = append(ks, k)
	}
	sort.Strings(ks)
	return ks
}

func TestModuleMapModel(t *testing.T) {
	rapid.Check(t, func(t *rapid.T) {
		c := &mmCase{}
		maps := 1
		for i := rapid.IntRange(2, 10).Draw(t, "ops"); i > 0; i-- {
			op := mmOp{Op: rapid.SampledFrom([]string{"add-src", "add-src", "add-builtin", "add-raw", "add-raw", "remove", "copy", "addmap"}).Draw(t, "op"),
				On: rapid.IntRange(0, maps-1).Draw(t, "on"), From: rapid.IntRange(0, maps-1).Draw(t, "from"),
				Name: rapid.SampledFrom([]string{"a", "b", "c"}).Draw(t, "name"), Val: rapid.IntRange(0, 9).Draw(t, "val")}
			if op.Op == "copy" {
				if maps >= 4 {
					op.Op = "remove"
				} else {
					maps++
				}
			}
			c.Ops = append(c.Ops, op)
		}
		checkModuleMapModel(t, "TestModuleMapModel", c)
	})
}
