// C13 — modules are isolated, immutable to importers, and acyclic.
//
// Oracle clauses and where they come from (property C13 in properties.jsonl,
// docs/tutorial.md "Modules", docs/interoperability.md):
//
//	(1) compilation terminates; it fails iff an import cycle is reachable
//	    from main, with "cyclic module import"            -> graph_test.go
//	(2) a module reached by several paths is compiled once -> graph_test.go
//	(3) a module sees its own variables and builtins only; the importer does
//	    not see module-private names                       -> isolation_test.go
//	(4) import yields the export, top level immutable, undefined without
//	    export; (5) each evaluation runs the body afresh   -> values_test.go
//	(6) file import disabled: names come from the module map only, the file
//	    system is not consulted                            -> fileoff_test.go
package c13

import (
	"fmt"
	"os"
	"path/filepath"
	"regexp"
	"runtime"
	"sort"
	"strings"
	"testing"

	"verifharness/ev"
)

func TestMain(m *testing.M) {
	// One shard = one process and the properties are sequential; the only
	// other goroutines are the watchdog's. Two Ps keep the hand-offs between
	// them cheap on a busy machine (the driver runs many shards at once).
	runtime.GOMAXPROCS(2)
	ev.Main(m, "C13")
}

// ---------- hand-written cases through the same oracles ----------

func s(to int, name, place string) site { return site{To: to, Name: name, Place: place} }

func exampleGraphs() []*graphCase {
	i1 := &val{K: "int", I: 1}
	arr := &val{K: "array", Kids: []*val{{K: "int", I: 1}, {K: "array", Kids: []*val{{K: "string", S: "x"}}}}}
	return []*graphCase{
		{Shape: "ex:self-loop", Layout: "map", Mods: []modSpec{{Key: "a", Sites: []site{s(0, "a", "top")}, Export: i1}}, Main: []site{s(0, "a", "top")}},
		{Shape: "ex:self-loop-in-func", Layout: "map", Mods: []modSpec{{Key: "a", Sites: []site{s(0, "a", "func")}, Export: i1}}, Main: []site{s(0, "a", "top")}},
		{Shape: "ex:two-cycle", Layout: "map", Mods: []modSpec{
			{Key: "a", Sites: []site{s(1, "b", "top")}, Export: i1},
			{Key: "b", Sites: []site{s(0, "a", "never")}, Export: i1}}, Main: []site{s(0, "a", "top")}},
		{Shape: "ex:three-cycle-dead-code", Layout: "map", Mods: []modSpec{
			{Key: "a", Sites: []site{s(1, "b", "top")}, Export: i1},
			{Key: "b", Sites: []site{s(2, "c", "called")}, Export: i1},
			{Key: "c", Sites: []site{s(0, "a", "dead")}, Export: i1}}, Main: []site{s(0, "a", "func")}},
		{Shape: "ex:cycle-through-cached", Layout: "map", Mods: []modSpec{
			// main imports b first (b and c get compiled and cached), then a, whose
			// import of b is served from the cache; then d -> e -> d is a cycle
			{Key: "a", Sites: []site{s(1, "b", "top"), s(3, "d", "top")}, Export: i1, Agg: true},
			{Key: "b", Sites: []site{s(2, "c", "top")}, Export: arr, Agg: true},
			{Key: "c", Export: arr},
			{Key: "d", Sites: []site{s(4, "e", "top")}, Export: i1},
			{Key: "e", Sites: []site{s(3, "d", "top"), s(1, "b", "top")}, Export: i1}}, Main: []site{s(1, "b", "top"), s(0, "a", "top")}},
		{Shape: "ex:diamond", Layout: "map", Mods: []modSpec{
			{Key: "top", Sites: []site{s(1, "./l", "top"), s(2, "l", "loop")}, Export: i1, Agg: true},
			{Key: "./l", Sites: []site{s(3, "base.tengo", "top")}, Export: arr, Agg: true, Style: 1},
			{Key: "l", Sites: []site{s(3, "base.tengo", "expr")}, Agg: true, Style: 2},
			{Key: "base.tengo", Export: arr}}, Main: []site{s(0, "top", "top"), s(3, "base.tengo", "top")}},
		{Shape: "ex:hidden-cycle", Layout: "map", Mods: []modSpec{
			{Key: "a", Export: arr},
			{Key: "x", Sites: []site{s(2, "y", "top")}, Export: i1},
			{Key: "y", Sites: []site{s(1, "x", "top"), s(0, "a", "top")}, Export: i1}}, Main: []site{s(0, "a", "top")}},
		{Shape: "ex:file-cycle-by-aliases", Layout: "files", FileImport: true, Mods: []modSpec{
			{Key: "f0.tengo", File: true, Sites: []site{s(1, "sub/f1", "top")}, Export: i1},
			{Key: "sub/f1.tengo", File: true, Sites: []site{s(0, "zz/../../f0.tengo", "func")}, Export: i1}}, Main: []site{s(0, "./f0", "top")}},
		{Shape: "ex:file-diamond", Layout: "files", FileImport: true, Mods: []modSpec{
			{Key: "f0.tengo", File: true, Sites: []site{s(1, "sub/f1", "top"), s(2, "./f2.tengo", "top")}, Agg: true},
			{Key: "sub/f1.tengo", File: true, Sites: []site{s(2, "../f2", "top")}, Export: arr, Agg: true},
			{Key: "f2.tengo", File: true, Export: arr}}, Main: []site{s(0, "f0", "top"), s(2, ".//f2", "loop")}},
		{Shape: "ex:no-export", Layout: "map", Mods: []modSpec{{Key: "quiet"}}, Main: []site{s(0, "quiet", "top")}},
	}
}

func TestExamples(t *testing.T) {
	base := tempBase(t)
	for _, c := range exampleGraphs() {
		c := c
		t.Run(c.Shape, func(t *testing.T) { checkGraph(t, "TestExamples", base, c) })
	}
	// the example of the property text: counters restart per evaluation
	t.Run("counter", func(t *testing.T) {
		checkValues(t, "TestValues", base, &valCase{Layout: "map", Start: 0, N: 3, V: 7,
			Export:  &val{K: "map", Keys: []string{"a", "inner"}, Kids: []*val{{K: "int", I: 1}, {K: "array", Kids: []*val{{K: "int", I: 2}}}}},
			Ops:     append([]string(nil), allOps...),
			FailOps: append([]string(nil), allFailOps...)})
	})
	t.Run("isolation", func(t *testing.T) {
		for _, pos := range []string{"top", "func", "never", "dead", "assign"} {
			checkIso(t, "TestIsolation", base, &isoCase{Layout: "map", Chain: 2, Leak: "module-sees-importer", At: 1, Foreign: "global-before", Pos: pos})
			checkIso(t, "TestIsolation", base, &isoCase{Layout: "map", Chain: 2, Leak: "importer-sees-private", At: -1, Foreign: "direct", Pos: pos})
		}
		checkIso(t, "TestIsolation", base, &isoCase{Layout: "map", Chain: 3, Leak: "none", At: -2, Shadow: true, InFunc: true, Host: true})
	})
}

// ---------- replay ----------

func replayFile(t *testing.T, path string) {
	test := ev.ReplayTest(path)
	switch test {
	case "TestGraph", "TestExamples":
		var p graphCase
		if _, err := ev.LoadReplay(path, &p); err != nil {
			t.Fatalf("load %s: %v", path, err)
		}
		checkGraph(t, test, tempBase(t), &p)
	case "TestIsolation":
		var p isoCase
		if _, err := ev.LoadReplay(path, &p); err != nil {
			t.Fatalf("load %s: %v", path, err)
		}
		checkIso(t, test, tempBase(t), &p)
	case "TestValues":
		var p valCase
		if _, err := ev.LoadReplay(path, &p); err != nil {
			t.Fatalf("load %s: %v", path, err)
		}
		checkValues(t, test, tempBase(t), &p)
	case "TestFileImportOff":
		var p offCase
		if _, err := ev.LoadReplay(path, &p); err != nil {
			t.Fatalf("load %s: %v", path, err)
		}
		checkOff(t, test, chdirWork(t), &p)
	case "TestNoFileAccessStrace":
		TestNoFileAccessStrace(t)
	case "TestBuiltinsInModules":
		var p builtinsCase
		if _, err := ev.LoadReplay(path, &p); err != nil {
			t.Fatalf("load %s: %v", path, err)
		}
		checkBuiltinsInModules(t, test, &p)
	case "TestHostModuleTables":
		var p htCase
		if _, err := ev.LoadReplay(path, &p); err != nil {
			t.Fatalf("load %s: %v", path, err)
		}
		checkHostTables(t, test, &p)
	case "TestModuleMapModel":
		var p mmCase
		if _, err := ev.LoadReplay(path, &p); err != nil {
			t.Fatalf("load %s: %v", path, err)
		}
		checkModuleMapModel(t, test, &p)
	default:
		t.Fatalf("unknown test %q in %s", test, path)
	}
}

func TestReplay(t *testing.T) {
	path := os.Getenv("VERIF_REPLAY")
	if path == "" {
		t.Skip("no VERIF_REPLAY")
	}
	replayFile(t, path)
}

func replayDir(kind string) []string {
	root := os.Getenv("VERIF_ROOT")
	if root == "" {
		root = "/verif"
	}
	files, _ := filepath.Glob(filepath.Join(root, "replays", "C13", kind, "*.json"))
	sort.Strings(files)
	return files
}

// TestRegressions re-runs every committed replay of a repaired defect: they
// must all pass.
func TestRegressions(t *testing.T) {
	for _, f := range replayDir("fixed") {
		f := f
		t.Run(filepath.Base(f), func(t *testing.T) { replayFile(t, f) })
		ev.Note("regression replays run")
	}
}

var tmpDirRe = regexp.MustCompile(`/[^ "]*/c13-[0-9]+/g[0-9]+/root`)

// knownTB runs an oracle without failing the test: open findings are
// reported, not alarmed.
type knownTB struct{ msgs []string }

func (k *knownTB) Fatalf(f string, a ...interface{}) { k.msgs = append(k.msgs, fmt.Sprintf(f, a...)) }

// TestKnownFindings re-runs the reproducers of open findings
// (replays/C13/open/<finding-id>*.json) through the oracle. A reproducer
// that still fails is printed as KNOWN-FINDING; one that passes is only
// noted (the switch can then be turned off and the replay moved to fixed/).
func TestKnownFindings(t *testing.T) {
	base := tempBase(t)
	for _, f := range replayDir("open") {
		id := ""
		for k := range openFindings {
			if strings.HasPrefix(filepath.Base(f), k) {
				id = k
			}
		}
		if id == "" {
			t.Fatalf("open replay %s matches no switch in openFindings", f)
		}
		var p graphCase
		test, err := ev.LoadReplay(f, &p)
		if err != nil || test != "TestGraph" {
			t.Fatalf("load %s: test=%q err=%v", f, test, err)
		}
		k := &knownTB{}
		checkGraph(k, "TestGraph", base, &p)
		if len(k.msgs) > 0 {
			what := strings.TrimSuffix(strings.TrimPrefix(filepath.Base(f), id+"-"), ".json")
			ev.Known(id, what+": "+tmpDirRe.ReplaceAllString(firstLine(k.msgs[0]), "<import dir>"))
		} else {
			ev.Note("open finding no longer reproduces: " + filepath.Base(f))
		}
	}
}
