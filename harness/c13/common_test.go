package c13

import (
	"context"
	"fmt"
	"os"
	"path/filepath"
	"sort"
	"strconv"
	"strings"
	"time"

	"github.com/d5/tengo/v2"
	"github.com/d5/tengo/v2/parser"
	"pgregory.net/rapid"

	"verifharness/ev"
)

// ---------- values the module generator knows how to write and predict ----------

// val is a JSON-serialisable value expression. Only expressions whose value
// the harness knows without an interpreter are generated.
type val struct {
	K    string   `json:"k"` // int float string char bool bytes undefined array map immarray immmap error time func builtin
	I    int64    `json:"i,omitempty"`
	S    string   `json:"s,omitempty"`
	Kids []*val   `json:"kids,omitempty"`
	Keys []string `json:"keys,omitempty"`
}

func (v *val) src() string {
	switch v.K {
	case "int":
		if v.I < 0 {
			return fmt.Sprintf("(%d)", v.I)
		}
		return strconv.FormatInt(v.I, 10)
	case "float": // value I/4, always written with a fraction
		s := strconv.FormatFloat(float64(v.I)/4, 'f', 2, 64)
		if v.I < 0 {
			return "(" + s + ")"
		}
		return s
	case "string":
		return strconv.Quote(v.S)
	case "char":
		return "'" + string(rune('a'+v.I%26)) + "'"
	case "bool":
		if v.I != 0 {
			return "true"
		}
		return "false"
	case "bytes":
		return "bytes(" + strconv.Quote(v.S) + ")"
	case "undefined":
		return "undefined"
	case "array", "immarray":
		parts := make([]string, len(v.Kids))
		for i, k := range v.Kids {
			parts[i] = k.src()
		}
		s := "[" + strings.Join(parts, ", ") + "]"
		if v.K == "immarray" {
			return "immutable(" + s + ")"
		}
		return s
	case "map", "immmap":
		parts := make([]string, len(v.Kids))
		for i, k := range v.Kids {
			parts[i] = v.Keys[i] + ": " + k.src()
		}
		s := "{" + strings.Join(parts, ", ") + "}"
		if v.K == "immmap" {
			return "immutable(" + s + ")"
		}
		return s
	case "error":
		return "error(" + v.Kids[0].src() + ")"
	case "time":
		return fmt.Sprintf("time(%d)", v.I)
	case "func": // adds I to its argument
		return fmt.Sprintf("func(x) { return x + %d }", v.I)
	case "builtin":
		return v.S
	}
	panic("val.src: unknown kind " + v.K)
}

// obj is the value of the expression v.src().
func (v *val) obj() tengo.Object {
	switch v.K {
	case "int":
		return &tengo.Int{Value: v.I}
	case "float":
		return &tengo.Float{Value: float64(v.I) / 4}
	case "string":
		return &tengo.String{Value: v.S}
	case "char":
		return &tengo.Char{Value: rune('a' + v.I%26)}
	case "bool":
		if v.I != 0 {
			return tengo.TrueValue
		}
		return tengo.FalseValue
	case "bytes":
		return &tengo.Bytes{Value: []byte(v.S)}
	case "undefined":
		return tengo.UndefinedValue
	case "array", "immarray":
		xs := make([]tengo.Object, len(v.Kids))
		for i, k := range v.Kids {
			xs[i] = k.obj()
		}
		if v.K == "immarray" {
			return &tengo.ImmutableArray{Value: xs}
		}
		return &tengo.Array{Value: xs}
	case "map", "immmap":
		m := make(map[string]tengo.Object, len(v.Kids))
		for i, k := range v.Kids {
			m[v.Keys[i]] = k.obj()
		}
		if v.K == "immmap" {
			return &tengo.ImmutableMap{Value: m}
		}
		return &tengo.Map{Value: m}
	case "error":
		return &tengo.Error{Value: v.Kids[0].obj()}
	case "time":
		return &tengo.Time{Value: time.Unix(v.I, 0)}
	case "func":
		return &tengo.CompiledFunction{}
	case "builtin":
		for _, f := range tengo.GetAllBuiltinFunctions() {
			if f.Name == v.S {
				return f
			}
		}
	}
	panic("val.obj: unknown kind " + v.K)
}

// exported is what an importer receives for `export <o>`: the top level made
// immutable, nested values as they are.
func exported(o tengo.Object) tengo.Object {
	switch x := o.(type) {
	case *tengo.Array:
		return &tengo.ImmutableArray{Value: x.Value}
	case *tengo.Map:
		return &tengo.ImmutableMap{Value: x.Value}
	}
	return o
}

var identKeys = []string{"a", "b", "c", "k", "inner", "x1"}

func genScalar(t *rapid.T) *val {
	switch rapid.IntRange(0, 9).Draw(t, "sk") {
	case 0, 1:
		return &val{K: "int", I: int64(rapid.IntRange(-50, 1000).Draw(t, "i"))}
	case 2:
		return &val{K: "float", I: int64(rapid.IntRange(-40, 400).Draw(t, "f"))}
	case 3, 4:
		return &val{K: "string", S: rapid.StringMatching(`[a-z0-9 _\-]{0,8}`).Draw(t, "s")}
	case 5:
		return &val{K: "char", I: int64(rapid.IntRange(0, 25).Draw(t, "c"))}
	case 6:
		return &val{K: "bool", I: int64(rapid.IntRange(0, 1).Draw(t, "b"))}
	case 7:
		return &val{K: "bytes", S: rapid.StringMatching(`[a-z]{0,5}`).Draw(t, "by")}
	case 8:
		return &val{K: "undefined"}
	default:
		return &val{K: "time", I: int64(rapid.IntRange(0, 100000).Draw(t, "tm"))}
	}
}

func genVal(t *rapid.T, depth int) *val {
	k := rapid.IntRange(0, 13).Draw(t, "vk")
	if depth <= 0 && k >= 6 && k <= 11 {
		k -= 6
	}
	switch k {
	case 6, 7, 8:
		n := rapid.IntRange(0, 3).Draw(t, "an")
		v := &val{K: "array"}
		if k == 8 {
			v.K = "immarray"
		}
		for i := 0; i < n; i++ {
			v.Kids = append(v.Kids, genVal(t, depth-1))
		}
		return v
	case 9, 10, 11:
		n := rapid.IntRange(0, 3).Draw(t, "mn")
		v := &val{K: "map"}
		if k == 11 {
			v.K = "immmap"
		}
		keys := rapid.Permutation(identKeys).Draw(t, "keys")[:n]
		for i := 0; i < n; i++ {
			v.Keys = append(v.Keys, keys[i])
			v.Kids = append(v.Kids, genVal(t, depth-1))
		}
		return v
	case 12:
		if depth <= 0 {
			return &val{K: "func", I: int64(rapid.IntRange(0, 9).Draw(t, "fi"))}
		}
		return &val{K: "error", Kids: []*val{genScalar(t)}}
	case 13:
		if rapid.Bool().Draw(t, "bf") {
			return &val{K: "builtin", S: rapid.SampledFrom([]string{"len", "copy", "is_int", "type_name"}).Draw(t, "bn")}
		}
		return &val{K: "func", I: int64(rapid.IntRange(0, 9).Draw(t, "fi"))}
	default:
		return genScalar(t)
	}
}

// ---------- module getter that counts and bounds look-ups ----------

type boundExceeded struct {
	name  string
	total int
}

// countingGetter wraps the module map handed to the compiler. Get is called
// by the compiler for every import expression it compiles, so the number of
// calls bounds the compiler's work: when each module is compiled once, no more
// import expressions are compiled than exist in main plus all reachable
// modules. Beyond the bound the getter panics, which unwinds a compiler that
// would otherwise recurse until the Go stack overflows (a fatal error no
// harness could report).
type countingGetter struct {
	inner *tengo.ModuleMap
	calls map[string]int
	total int
	bound int // 0 = unbounded
}

// fixed hands the same module map to every attempt.
func fixed(mm *tengo.ModuleMap) func() tengo.ModuleGetter {
	return func() tengo.ModuleGetter { return mm }
}

// bounded makes a fresh counting getter per attempt.
func bounded(mm *tengo.ModuleMap, bound int, last **countingGetter) func() tengo.ModuleGetter {
	return func() tengo.ModuleGetter {
		g := newGetter(mm, bound)
		if last != nil {
			*last = g
		}
		return g
	}
}

func newGetter(mm *tengo.ModuleMap, bound int) *countingGetter {
	return &countingGetter{inner: mm, calls: map[string]int{}, bound: bound}
}

func (g *countingGetter) Get(name string) tengo.Importable {
	g.total++
	g.calls[name]++
	if g.bound > 0 && g.total > g.bound {
		panic(boundExceeded{name, g.total})
	}
	return g.inner.Get(name)
}

// ---------- compile / run with watchdog ----------

const watchdog = 20 * time.Second

type compileOut struct {
	bc       *tengo.Bytecode
	compiled *tengo.Compiled
	err      error
	pan      interface{}
	timeout  bool
}

// withWatchdog runs f and gives up after the watchdog period. Time is not a
// correctness signal: a single expiry is retried once (the machine may be
// starved) before it is reported as "did not return".
func withWatchdog(f func() compileOut) compileOut {
	o := withWatchdogOnce(f)
	if o.timeout {
		ev.Note("watchdog expired once; retried")
		o = withWatchdogOnce(f)
	}
	return o
}

func withWatchdogOnce(f func() compileOut) compileOut {
	ch := make(chan compileOut, 1)
	go func() {
		var out compileOut
		defer func() {
			if r := recover(); r != nil {
				out = compileOut{pan: r}
			}
			ch <- out
		}()
		out = f()
	}()
	tm := time.NewTimer(watchdog)
	defer tm.Stop()
	select {
	case o := <-ch:
		return o
	case <-tm.C:
		return compileOut{timeout: true}
	}
}

type settings struct {
	FileImport bool   `json:"file_import"`
	Dir        string `json:"-"` // import dir ("" = not set)
}

// compileRaw compiles through tengo.NewCompiler and returns the bytecode with
// the constant pool as the compiler built it (no de-duplication).
//
// mods is called once per attempt so that a retried attempt gets a getter of
// its own.
func compileRaw(src string, mods func() tengo.ModuleGetter, st settings) compileOut {
	return withWatchdog(func() compileOut {
		fs := parser.NewFileSet()
		sf := fs.AddFile("(main)", -1, len(src))
		p := parser.NewParser(sf, []byte(src), nil)
		file, err := p.ParseFile()
		if err != nil {
			return compileOut{err: fmt.Errorf("parse: %w", err)}
		}
		c := tengo.NewCompiler(sf, nil, nil, mods(), nil)
		c.EnableFileImport(st.FileImport)
		if st.Dir != "" {
			c.SetImportDir(st.Dir)
		}
		if err := c.Compile(file); err != nil {
			return compileOut{err: err}
		}
		return compileOut{bc: c.Bytecode()}
	})
}

// compileScript compiles the way an embedder does.
func compileScript(src string, mods func() tengo.ModuleGetter, st settings, host map[string]interface{}) compileOut {
	return withWatchdog(func() compileOut {
		s := tengo.NewScript([]byte(src))
		if mods != nil {
			s.SetImports(mods())
		}
		s.EnableFileImport(st.FileImport)
		if st.Dir != "" {
			if err := s.SetImportDir(st.Dir); err != nil {
				return compileOut{err: err}
			}
		}
		names := make([]string, 0, len(host))
		for k := range host {
			names = append(names, k)
		}
		sort.Strings(names)
		for _, k := range names {
			if err := s.Add(k, host[k]); err != nil {
				return compileOut{err: err}
			}
		}
		c, err := s.Compile()
		if err != nil {
			return compileOut{err: err}
		}
		return compileOut{compiled: c}
	})
}

// runCompiled runs and returns the globals.
func runCompiled(c *tengo.Compiled) (map[string]tengo.Object, error) {
	ctx, cancel := context.WithTimeout(context.Background(), watchdog)
	defer cancel()
	err := c.RunContext(ctx)
	out := map[string]tengo.Object{}
	for _, v := range c.GetAll() {
		out[v.Name()] = v.Object()
	}
	return out, err
}

// ---------- temp dirs ----------

type tempT interface {
	Cleanup(func())
	Fatalf(string, ...interface{})
}

// tempBase makes a directory that the test removes when it ends.
func tempBase(t tempT) string {
	dir, err := os.MkdirTemp("", "c13-")
	if err != nil {
		t.Fatalf("mkdirtemp: %v", err)
	}
	if r, err := filepath.EvalSymlinks(dir); err == nil {
		dir = r
	}
	t.Cleanup(func() { _ = os.RemoveAll(dir) })
	return dir
}

func writeFile(path, content string) error {
	if err := os.MkdirAll(filepath.Dir(path), 0o755); err != nil {
		return err
	}
	return os.WriteFile(path, []byte(content), 0o644)
}

func firstLine(s string) string {
	if i := strings.IndexByte(s, '\n'); i >= 0 {
		return s[:i]
	}
	return s
}
