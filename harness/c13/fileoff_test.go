package c13

import (
	"bufio"
	"fmt"
	"os"
	"os/exec"
	"path/filepath"
	"strings"
	"testing"

	"github.com/d5/tengo/v2"
	"pgregory.net/rapid"

	"verifharness/ev"
	"verifharness/tv"
)

// Decoy layout under a base directory:
//
//	base/dcyD.tengo            (reached by "../dcyD" from work)
//	base/work/                 cwd and/or import dir
//	base/work/dcyA.tengo ...   decoys named like the requested modules
//	base/work/lib/dcyE.tengo
type decoy struct {
	ID   string // content marker
	Name string // import name; "@ABS@" is replaced by the absolute work dir
	File string // path relative to base/work
	Abs  bool   // name is an absolute path
}

var decoys = []decoy{
	{"A", "dcyA", "dcyA.tengo", false},
	{"B", "dcyB.tengo", "dcyB.tengo", false},
	{"C", "./dcyC", "dcyC.tengo", false},
	{"D", "../dcyD", "../dcyD.tengo", false},
	{"E", "lib/dcyE", "lib/dcyE.tengo", false},
	{"F", "dcy.F", "dcy.F.tengo", false},
	{"G", "./lib/../dcyG.tengo", "dcyG.tengo", false},
	{"H", "@ABS@/dcyH.tengo", "dcyH.tengo", true},
	{"I", "@ABS@/lib/dcyI", "lib/dcyI.tengo", true},
	{"J", "lib/dcyJ.tengo", "lib/dcyJ.tengo", false},
	{"K", "./dcyK.v2", "dcyK.v2.tengo", false},
}

func (d decoy) name(work string) string { return strings.ReplaceAll(d.Name, "@ABS@", work) }

func makeDecoys(base string) (work string, err error) {
	work = filepath.Join(base, "work")
	for _, d := range decoys {
		if err := writeFile(filepath.Join(work, filepath.FromSlash(d.File)), fmt.Sprintf("export \"DECOY %s\"\n", d.ID)); err != nil {
			return "", err
		}
	}
	return work, nil
}

// offCase: main imports decoy names. Some of them may also be module-map
// entries (then the map entry is what import yields, under both settings).
type offCase struct {
	FileImport bool   `json:"file_import"`
	UseDir     bool   `json:"use_dir"`   // Script.SetImportDir(work); otherwise names resolve against the cwd (= work)
	Names      []int  `json:"names"`     // indices into decoys, in source order
	InMap      []int  `json:"in_map"`    // indices (subset of Names) that the embedder ALSO supplies in the module map
	Via        string `json:"via"`       // main | module | func | never
	Unrelated  bool   `json:"unrelated"` // the module map holds unrelated entries too
}

func (c *offCase) inMap(i int) bool {
	for _, j := range c.InMap {
		if i == j {
			return true
		}
	}
	return false
}

func (c *offCase) build(work string) (string, *tengo.ModuleMap, map[string]tengo.Object, []string) {
	mm := tengo.NewModuleMap()
	if c.Unrelated {
		mm.AddSourceModule("dcy", []byte("export 1"))
		mm.AddSourceModule("lib", []byte("export 2"))
		mm.AddBuiltinModule("work", map[string]tengo.Object{"x": &tengo.Int{Value: 1}})
	}
	var sb strings.Builder
	want := map[string]tengo.Object{}
	var absent []string
	for k, i := range c.Names {
		d := decoys[i]
		name := d.name(work)
		val := "DECOY " + d.ID
		if c.inMap(i) {
			val = "MAP " + d.ID
			mm.AddSourceModule(name, []byte(fmt.Sprintf("export %q", val)))
		} else {
			absent = append(absent, name)
		}
		r := fmt.Sprintf("r%d", k)
		switch c.Via {
		case "main":
			fmt.Fprintf(&sb, "%s := import(%q)\n", r, name)
			want[r] = &tengo.String{Value: val}
		case "module":
			w := fmt.Sprintf("wrap%d", k)
			mm.AddSourceModule(w, []byte(fmt.Sprintf("export import(%q)", name)))
			fmt.Fprintf(&sb, "%s := import(%q)\n", r, w)
			want[r] = &tengo.String{Value: val}
		case "func":
			fmt.Fprintf(&sb, "f%d := func() { return import(%q) }\n%s := f%d()\n", k, name, r, k)
			want[r] = &tengo.String{Value: val}
		case "never":
			fmt.Fprintf(&sb, "%s := 0\nif %s != 0 { %s = import(%q) }\n", r, r, r, name)
			want[r] = &tengo.Int{Value: 0}
		}
	}
	return sb.String(), mm, want, absent
}

// checkOff is the in-process part of oracle (6).
func checkOff(t ev.TB, test, work string, c *offCase) {
	src, mm, want, absent := c.build(work)
	st := settings{FileImport: c.FileImport}
	if c.UseDir {
		st.Dir = work
	}
	for _, how := range []string{"Script", "Compiler"} {
		var o compileOut
		if how == "Script" {
			o = compileScript(src, fixed(mm), st, nil)
		} else {
			o = compileRaw(src, fixed(mm), st)
		}
		if o.timeout || o.pan != nil {
			ev.Fail(t, test, c, "%s: compilation did not complete (timeout=%v panic=%v)", how, o.timeout, o.pan)
			return
		}
		if !c.FileImport && len(absent) > 0 {
			if o.err == nil {
				ev.Fail(t, test, c, "%s: file import is disabled and %q are not in the module map, yet compilation succeeded (decoy files of these names exist)\n%s", how, absent, src)
				return
			}
			msg := o.err.Error()
			found := false
			for _, a := range absent {
				if strings.Contains(msg, "module '"+a+"' not found") {
					found = true
				}
			}
			if !found || strings.Contains(msg, "module file") {
				ev.Fail(t, test, c, "%s: file import disabled, names %q absent from the module map: want \"module '<name>' not found\", got: %s", how, absent, firstLine(msg))
				return
			}
			continue
		}
		if o.err != nil {
			ev.Fail(t, test, c, "%s: every name is in the module map or (file import enabled) an existing file, yet: %s\n%s", how, firstLine(o.err.Error()), src)
			return
		}
		if how == "Script" {
			globals, err := runCompiled(o.compiled)
			if err != nil {
				ev.Fail(t, test, c, "run failed: %s", firstLine(err.Error()))
				return
			}
			for k := range c.Names {
				r := fmt.Sprintf("r%d", k)
				if !tv.Equal(globals[r], want[r]) {
					ev.Fail(t, test, c, "%s = %s, want %s (module-map entries are what the embedder supplied; decoys are found only as files)\n%s", r, tv.Describe(globals[r]), tv.Describe(want[r]), src)
					return
				}
			}
		}
	}
	cls := []string{"F:case", "F:via=" + c.Via}
	if c.FileImport {
		cls = append(cls, "F:file-import=on(decoys-found)")
	} else if len(absent) > 0 {
		cls = append(cls, "F:file-import=off(not-found)")
	} else {
		cls = append(cls, "F:file-import=off(all-in-map)")
	}
	if c.UseDir {
		cls = append(cls, "F:decoys-in=import-dir")
	} else {
		cls = append(cls, "F:decoys-in=cwd")
	}
	for _, i := range c.Names {
		if decoys[i].Abs {
			cls = append(cls, "F:absolute-name")
			break
		}
	}
	if len(c.InMap) > 0 {
		cls = append(cls, "F:name-both-in-map-and-on-disk")
	}
	ev.Case(fmt.Sprintf("F%v%v%v%v%s%v", c.FileImport, c.UseDir, c.Names, c.InMap, c.Via, c.Unrelated), false, cls...)
}

func genOffCase(t *rapid.T) *offCase {
	c := &offCase{
		FileImport: rapid.IntRange(0, 2).Draw(t, "fileImport") == 0,
		UseDir:     rapid.Bool().Draw(t, "useDir"),
		Via:        rapid.SampledFrom([]string{"main", "main", "module", "func", "never"}).Draw(t, "via"),
		Unrelated:  rapid.Bool().Draw(t, "unrelated"),
	}
	n := rapid.IntRange(1, 4).Draw(t, "n")
	for _, i := range rapid.Permutation(seq(len(decoys))).Draw(t, "names") {
		if len(c.Names) == n {
			break
		}
		if decoys[i].Abs && c.FileImport && c.UseDir {
			continue // an absolute name is joined to the import dir (implementation's choice, not asserted)
		}
		c.Names = append(c.Names, i)
		if rapid.IntRange(0, 4).Draw(t, "inMap") == 0 {
			c.InMap = append(c.InMap, i)
		}
	}
	return c
}

// chdirWork creates the decoys and makes base/work the process's cwd for the
// duration of the test.
func chdirWork(t *testing.T) string {
	base := tempBase(t)
	work, err := makeDecoys(base)
	if err != nil {
		t.Fatalf("decoys: %v", err)
	}
	old, err := os.Getwd()
	if err != nil {
		t.Fatalf("getwd: %v", err)
	}
	if err := os.Chdir(work); err != nil {
		t.Fatalf("chdir: %v", err)
	}
	t.Cleanup(func() { _ = os.Chdir(old) })
	return work
}

func TestFileImportOff(t *testing.T) {
	work := chdirWork(t)
	rapid.Check(t, func(rt *rapid.T) {
		checkOff(rt, "TestFileImportOff", work, genOffCase(rt))
	})
}

// ---------- the same under strace: no file-system access at all ----------

const childEnv = "C13_STRACE_CHILD"

func straceBattery() []*offCase {
	var out []*offCase
	for i := range decoys {
		for _, useDir := range []bool{false, true} {
			for _, via := range []string{"main", "module", "func", "never"} {
				out = append(out, &offCase{UseDir: useDir, Names: []int{i}, Via: via, Unrelated: i%2 == 0})
			}
		}
	}
	// several names at once, one of them supplied by the embedder
	out = append(out, &offCase{UseDir: true, Names: []int{0, 2, 4}, InMap: []int{0}, Via: "main"})
	out = append(out, &offCase{UseDir: false, Names: []int{1, 3}, InMap: []int{1}, Via: "module"})
	return out
}

type childTB struct{ failed []string }

func (c *childTB) Fatalf(f string, a ...interface{}) {
	c.failed = append(c.failed, fmt.Sprintf(f, a...))
}

// TestStraceChild is the traced process. It only does work when started by
// TestNoFileAccessStrace.
func TestStraceChild(t *testing.T) {
	base := os.Getenv(childEnv)
	if base == "" {
		t.Skip("not a strace child")
	}
	work := filepath.Join(base, "work")
	if err := os.Chdir(work); err != nil {
		t.Fatalf("chdir: %v", err)
	}
	nonce := filepath.Base(base)
	mark := func(s string) { _, _ = os.Stat("/c13-marker-" + s + "-" + nonce) }
	tb := &childTB{}
	mark("off-begin")
	for _, c := range straceBattery() {
		checkOff(tb, "TestNoFileAccessStrace", work, c)
	}
	mark("off-end")
	for _, c := range straceBattery() {
		on := *c
		on.FileImport = true
		if on.UseDir {
			// absolute names are joined to the import dir; leave them to the cwd runs
			var names []int
			for _, i := range on.Names {
				if !decoys[i].Abs {
					names = append(names, i)
				}
			}
			if len(names) == 0 {
				continue
			}
			on.Names = names
		}
		checkOff(tb, "TestNoFileAccessStrace", work, &on)
	}
	mark("on-end")
	for _, f := range tb.failed {
		fmt.Printf("CHILD-FAIL: %s\n", strings.ReplaceAll(f, "\n", " | "))
	}
	if len(tb.failed) > 0 {
		t.Fatalf("%d failures in the traced battery", len(tb.failed))
	}
}

type stracePayload struct {
	Lines []string `json:"offending_trace_lines"`
	Note  string   `json:"note"`
}

func TestNoFileAccessStrace(t *testing.T) {
	if os.Getenv(childEnv) != "" {
		t.Skip("inside the strace child")
	}
	stracePath, err := exec.LookPath("strace")
	if err != nil {
		ev.Note("strace not installed: file-system-access sub-check skipped")
		t.Skip("no strace")
	}
	exe, err := os.Executable()
	if err != nil {
		ev.Note("cannot find own executable: strace sub-check skipped")
		t.Skip("no executable")
	}
	base := tempBase(t)
	work, err := makeDecoys(base)
	if err != nil {
		t.Fatalf("decoys: %v", err)
	}
	nonce := filepath.Base(base)
	trace := filepath.Join(base, "trace.txt")
	var env []string
	for _, e := range os.Environ() {
		if strings.HasPrefix(e, "VERIF_EVID_OUT=") || strings.HasPrefix(e, "VERIF_REPLAY") {
			continue
		}
		env = append(env, e)
	}
	env = append(env, childEnv+"="+base, "VERIF_REPLAY_DIR="+filepath.Join(base, "child-replays"))
	var out []byte
	ran := false
	for _, filter := range []string{"trace=%file", "trace=openat,open,stat,lstat,newfstatat,statx,access,faccessat,readlink,readlinkat", "trace=openat,stat,newfstatat"} {
		_ = os.Remove(trace)
		cmd := exec.Command(stracePath, "-f", "-qq", "-s", "4096", "-e", filter, "-o", trace, exe, "-test.run", "^TestStraceChild$", "-test.count", "1")
		cmd.Env = env
		cmd.Dir = base
		out, err = cmd.CombinedOutput()
		fi, serr := os.Stat(trace)
		if serr == nil && fi.Size() > 0 && (err == nil || strings.Contains(string(out), "CHILD-FAIL")) {
			ran = true
			break
		}
		if serr == nil && fi.Size() > 0 && strings.Contains(string(out), "--- FAIL") {
			t.Fatalf("harness: traced child failed outside the oracle: %v\n%s", err, out)
		}
	}
	if !ran {
		ev.Note("strace could not be executed (ptrace not permitted?): file-system-access sub-check skipped")
		t.Skipf("strace failed: %v\n%s", err, out)
	}
	if strings.Contains(string(out), "CHILD-FAIL") {
		var lines []string
		for _, l := range strings.Split(string(out), "\n") {
			if strings.HasPrefix(l, "CHILD-FAIL") {
				lines = append(lines, l)
			}
		}
		ev.Fail(t, "TestNoFileAccessStrace", stracePayload{Lines: lines, Note: "in-process oracle failed inside the traced child"}, "traced battery failed: %s", lines[0])
		return
	}
	f, err := os.Open(trace)
	if err != nil {
		ev.Note("strace wrote no trace: sub-check skipped")
		t.Skip("no trace")
	}
	defer f.Close()
	phase := "setup"
	var offending []string
	onAccess := 0
	offLines := 0
	sc := bufio.NewScanner(f)
	sc.Buffer(make([]byte, 1<<20), 1<<20)
	touches := func(l string) bool {
		return strings.Contains(l, nonce) || strings.Contains(l, "dcy") || strings.Contains(l, work)
	}
	for sc.Scan() {
		l := sc.Text()
		if strings.Contains(l, "/c13-marker-") {
			switch {
			case strings.Contains(l, "off-begin"):
				phase = "off"
			case strings.Contains(l, "off-end"):
				phase = "on"
			case strings.Contains(l, "on-end"):
				phase = "done"
			}
			continue
		}
		switch phase {
		case "off":
			offLines++
			if touches(l) {
				offending = append(offending, l)
			}
		case "on":
			if touches(l) {
				onAccess++
			}
		}
	}
	if phase != "done" {
		ev.Note("strace trace lacks the phase markers: sub-check skipped")
		t.Skipf("markers missing (phase %s)\n%s", phase, out)
	}
	if onAccess == 0 {
		ev.Note("strace positive control saw no access with file import enabled: sub-check skipped")
		t.Skip("tracing ineffective")
	}
	if len(offending) > 0 {
		if len(offending) > 10 {
			offending = offending[:10]
		}
		ev.Fail(t, "TestNoFileAccessStrace", stracePayload{Lines: offending, Note: "file import disabled"},
			"with file import disabled the compiler touched the decoy directory: %s", offending[0])
		return
	}
	n := len(straceBattery())
	for i := 0; i < n; i++ {
		ev.Case(fmt.Sprintf("S%d", i), false, "S:traced-import-with-file-import-off")
	}
	ev.ClassN("S:file-syscalls-touching-decoys-with-file-import-on(control)", int64(onAccess))
	ev.ClassN("S:file-syscalls-touching-decoys-with-file-import-off", 0)
	ev.Note("strace sub-check ran")
}
