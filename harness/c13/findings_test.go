package c13

// Findings of property C13 and the switches that kept their patterns out of
// the generators while they were open (BUILDING.md rule 3). The text below is
// what harness/c13/FINDINGS.md is meant to hold.
//
// Status: no finding is open. F-C13-pathkey is FIXED in /repo by commit
// c7ebb65 ("fix: a module-map entry named like a module file's path is
// confused with that file"): the switch is off, genGraphCase produces the
// pattern again (layout "mixed", draw "collide"), checkGraph judges it like
// any other graph, and the two reproducers live in replays/C13/fixed/ (run by
// TestRegressions, must pass). TestKnownFindings has nothing to report.
//
// # F-C13-pathkey (fixed, c7ebb65) — a module-map name that spells the absolute path of a file module was confused with that file
//
// Switch: openFindings["F-C13-pathkey"] (generator of TestGraph, layout
// "mixed"), now false. Replays: replays/C13/fixed/F-C13-pathkey-*.json, run by
// TestRegressions ("@ROOT@" in them stands for the import dir the harness
// creates for the case).
//
// Input. File import enabled, import dir D containing f1.tengo:
//
//	D/f1.tengo : export "FILE"
//	module map : "D/f1.tengo" (the absolute path used as a plain key) -> export "MAP"
//
// (a) main:
//
//	a := import("./f1")          // the file
//	b := import("D/f1.tengo")    // the embedder's module-map entry
//
// Observed: a == "FILE" and b == "FILE" (with the two lines swapped both are
// "MAP"). Expected: a == "FILE", b == "MAP": the value an import expression
// yields is what that module exported.
//
// (b) module-map entry "D/f1.tengo" with body
// `x := import("./f1"); export ["MAP", x]`, main `b := import("D/f1.tengo")`.
// The graph main -> map module -> file has no cycle. Observed:
// "Compile Error: cyclic module import: D/f1.tengo". Expected: compiles,
// b == ["MAP", "FILE"].
//
// Where. compiler.go, compileModule: the one string modulePath is the bare
// name for module-map modules (ImportExpr, `c.compileModule(node,
// node.ModuleName, v, false)`) and the absolute file path for file modules
// (`c.compileModule(node, modulePath, moduleSrc, true)`), and it is the key
// both of checkCyclicImports (compared with c.modulePath along the parent
// chain) and of loadCompiledModule/storeCompiledModule (compiledModules at the
// root). Names and file paths are two name spaces; a name spelled like a path
// collides with the file of that path.
//
// Why it belongs to C13. The property quantifies over "all import names
// (including path-like ones) under both file-import settings", requires that
// compilation succeeds exactly when no cycle is reachable, and that an import
// yields what the imported module exported.
//
// Suggested minimal fix (validated in a scratch copy: d5/tengo's own tests
// pass; `./check C13 quick` passes with the switch turned off, 442 generated
// cases of the pattern; both replays stop failing): key the cache and the
// cycle check by a string tagged with the name space and leave modulePath
// (file-set name, importDir derivation, error text) as it is.
//
//	// Compiler: new field
//	moduleKey string
//
//	func (c *Compiler) checkCyclicImports(node parser.Node, moduleKey, modulePath string) error {
//		if c.moduleKey == moduleKey {
//			return c.errorf(node, "cyclic module import: %s", modulePath)
//		} else if c.parent != nil {
//			return c.parent.checkCyclicImports(node, moduleKey, modulePath)
//		}
//		return nil
//	}
//
//	// compileModule
//	moduleKey := "name:" + modulePath
//	if isFile {
//		moduleKey = "file:" + modulePath
//	}
//	if err := c.checkCyclicImports(node, moduleKey, modulePath); err != nil { return nil, err }
//	compiledModule, exists := c.loadCompiledModule(moduleKey)
//	...
//	moduleCompiler := c.fork(modFile, modulePath, symbolTable, isFile)
//	moduleCompiler.moduleKey = moduleKey
//	...
//	c.storeCompiledModule(moduleKey, compiledFunc)
//
// Handling while it was open. With the switch on, genGraphCase never gave a
// module-map module the absolute path of a file module as its key; each time
// it would have, ev.Discard("known:F-C13-pathkey") was counted, and
// TestKnownFindings re-ran both reproducers through checkGraph and reported
// KNOWN-FINDING. Since the repair the switch is off and the replays are
// regression replays.

const findingPathKey = "F-C13-pathkey"

// openFindings: turning a switch off makes the generator produce the pattern
// again.
var openFindings = map[string]bool{
	findingPathKey: false, // repaired in /repo by c7ebb65; replays under replays/C13/fixed
}
