package c13

import (
	"fmt"
	"os"
	"path/filepath"
	"sort"
	"strings"
	"testing"

	"github.com/d5/tengo/v2"
	"github.com/d5/tengo/v2/parser"
	"pgregory.net/rapid"

	"verifharness/ev"
	"verifharness/tv"
)

// ---------- case description ----------

// site is one import expression in a unit (main or a module).
type site struct {
	To    int    `json:"to"`    // index of the imported module
	Name  string `json:"name"`  // module name as written in the import expression
	Place string `json:"place"` // top | expr | called | loop | func | never | dead
}

func executed(place string) bool {
	return place == "top" || place == "expr" || place == "called" || place == "loop"
}

type modSpec struct {
	Key    string `json:"key"`            // module-map key, or path of the file relative to the import dir
	File   bool   `json:"file,omitempty"` // a file under the import dir instead of a module-map entry
	Sites  []site `json:"sites"`
	Export *val   `json:"export,omitempty"` // nil: no export statement
	Agg    bool   `json:"agg,omitempty"`    // export {self: <Export>, deps: [values of executed imports]}
	Style  int    `json:"style,omitempty"`  // 0: plain export, 1: export inside a taken branch + dead code, 2: export followed by dead code and a second export
}

type graphCase struct {
	Shape      string    `json:"shape"`
	Layout     string    `json:"layout"` // map | files | mixed
	FileImport bool      `json:"file_import"`
	Mods       []modSpec `json:"mods"`
	Main       []site    `json:"main"`
}

// ---------- rendering ----------

func renderSite(prefix string, k int, s site, cond string) string {
	v := fmt.Sprintf("%ss%d", prefix, k)
	imp := fmt.Sprintf("import(%q)", s.Name)
	switch s.Place {
	case "top", "dead":
		return fmt.Sprintf("%s := %s\n", v, imp)
	case "expr":
		return fmt.Sprintf("%s := [0, %s][1]\n", v, imp)
	case "called":
		return fmt.Sprintf("%sf%d := func() { return %s }\n%s := %sf%d()\n", prefix, k, imp, v, prefix, k)
	case "loop":
		return fmt.Sprintf("%s := undefined\nfor %sj%d := 0; %sj%d < 2; %sj%d++ { %s = %s }\n", v, prefix, k, prefix, k, prefix, k, v, imp)
	case "func":
		return fmt.Sprintf("%s := func() { return %s }\n", v, imp)
	case "never":
		return fmt.Sprintf("if %s { %sn%d := %s; %sn%d = 0 }\n", cond, prefix, k, imp, prefix, k)
	}
	panic("renderSite: " + s.Place)
}

func (m *modSpec) render(i int) string {
	p := fmt.Sprintf("p%d_", i)
	var sb strings.Builder
	fmt.Fprintf(&sb, "%sv := %d\n", p, i*10+1)
	var deps []string
	for k, s := range m.Sites {
		if s.Place == "dead" {
			continue
		}
		sb.WriteString(renderSite(p, k, s, p+"v < 0"))
		if executed(s.Place) {
			deps = append(deps, fmt.Sprintf("%ss%d", p, k))
		}
	}
	expr := ""
	if m.Export != nil {
		expr = m.Export.src()
	}
	if m.Agg {
		self := "undefined"
		if m.Export != nil {
			self = m.Export.src()
		}
		expr = fmt.Sprintf("{self: %s, deps: [%s]}", self, strings.Join(deps, ", "))
	}
	if expr != "" {
		switch m.Style {
		case 1:
			fmt.Fprintf(&sb, "if %sv > 0 { export %s }\n%sv = -1\nexport \"not reached\"\n", p, expr, p)
		case 2:
			fmt.Fprintf(&sb, "export %s\n%sv = -2\n", expr, p)
		default:
			fmt.Fprintf(&sb, "export %s\n", expr)
		}
	}
	for k, s := range m.Sites {
		if s.Place == "dead" {
			sb.WriteString(renderSite(p, k, s, ""))
		}
	}
	if expr != "" && m.Style == 2 {
		sb.WriteString("export \"second export\"\n")
	}
	return sb.String()
}

func (c *graphCase) renderMain() string {
	var sb strings.Builder
	sb.WriteString("g_v := 7\n")
	for k, s := range c.Main {
		sb.WriteString(renderSite("r_", k, s, "g_v < 0"))
	}
	return sb.String()
}

// ---------- graph search (the oracle's own) ----------

type graphInfo struct {
	reach     []bool // reachable from main following every import expression
	onCycle   []bool // reachable and on a cycle
	cyclic    bool   // a cycle is reachable from main
	anyCycle  bool   // some cycle exists anywhere
	selfLoop  bool
	maxCycle  int // size of the largest strongly connected component with a cycle
	diamond   bool
	bound     int // import expressions in main plus reachable modules
	sitesTo   []int
	maxDepth  int
	placeSeen map[string]bool
}

func analyse(c *graphCase) *graphInfo {
	n := len(c.Mods)
	g := &graphInfo{reach: make([]bool, n), onCycle: make([]bool, n), sitesTo: make([]int, n), placeSeen: map[string]bool{}}
	var stack []int
	for _, s := range c.Main {
		if !g.reach[s.To] {
			g.reach[s.To] = true
			stack = append(stack, s.To)
		}
	}
	for len(stack) > 0 {
		u := stack[len(stack)-1]
		stack = stack[:len(stack)-1]
		for _, s := range c.Mods[u].Sites {
			if !g.reach[s.To] {
				g.reach[s.To] = true
				stack = append(stack, s.To)
			}
		}
	}
	// transitive closure over all modules (n <= 7)
	cl := make([][]bool, n)
	for i := range cl {
		cl[i] = make([]bool, n)
		for _, s := range c.Mods[i].Sites {
			cl[i][s.To] = true
			if s.To == i {
				g.selfLoop = true
			}
		}
	}
	for k := 0; k < n; k++ {
		for i := 0; i < n; i++ {
			for j := 0; j < n; j++ {
				if cl[i][k] && cl[k][j] {
					cl[i][j] = true
				}
			}
		}
	}
	for i := 0; i < n; i++ {
		if cl[i][i] {
			g.anyCycle = true
			size := 0
			for j := 0; j < n; j++ {
				if cl[i][j] && cl[j][i] {
					size++
				}
			}
			if size > g.maxCycle {
				g.maxCycle = size
			}
			if g.reach[i] {
				g.onCycle[i] = true
				g.cyclic = true
			}
		}
	}
	g.bound = len(c.Main)
	for _, s := range c.Main {
		g.sitesTo[s.To]++
		g.placeSeen[s.Place] = true
	}
	for i, m := range c.Mods {
		if !g.reach[i] {
			continue
		}
		g.bound += len(m.Sites)
		for _, s := range m.Sites {
			g.sitesTo[s.To]++
			g.placeSeen[s.Place] = true
		}
	}
	for i := range c.Mods {
		if g.reach[i] && g.sitesTo[i] >= 2 {
			g.diamond = true
		}
	}
	return g
}

// value of import(i) in an acyclic graph.
func (c *graphCase) valueOf(i int, memo map[int]tengo.Object) tengo.Object {
	if v, ok := memo[i]; ok {
		return v
	}
	m := &c.Mods[i]
	var out tengo.Object = tengo.UndefinedValue
	if m.Agg {
		var self tengo.Object = tengo.UndefinedValue
		if m.Export != nil {
			self = m.Export.obj()
		}
		deps := []tengo.Object{}
		for _, s := range m.Sites {
			if executed(s.Place) {
				deps = append(deps, c.valueOf(s.To, memo))
			}
		}
		out = &tengo.ImmutableMap{Value: map[string]tengo.Object{"self": self, "deps": &tengo.Array{Value: deps}}}
	} else if m.Export != nil {
		out = exported(m.Export.obj())
	}
	memo[i] = out
	return out
}

// ---------- environment: module map + files ----------

type builtEnv struct {
	mm    *tengo.ModuleMap
	dir   string         // import dir ("" when no file is involved)
	paths map[int]string // module index -> module path as the compiler names it
}

const rootMark = "@ROOT@" // stands for the absolute import dir of the case in keys and names

// resolved returns a copy of the case with rootMark replaced by root.
func (c *graphCase) resolved(root string) *graphCase {
	r := *c
	r.Mods = make([]modSpec, len(c.Mods))
	fix := func(ss []site) []site {
		out := make([]site, len(ss))
		for i, s := range ss {
			s.Name = strings.ReplaceAll(s.Name, rootMark, root)
			out[i] = s
		}
		return out
	}
	for i, m := range c.Mods {
		m.Key = strings.ReplaceAll(m.Key, rootMark, root)
		m.Sites = fix(m.Sites)
		r.Mods[i] = m
	}
	r.Main = fix(c.Main)
	return &r
}

// build creates the import dir (when a file module exists), resolves the
// placeholders, and registers/writes the modules. It returns the resolved
// case, which is what gets compiled.
func (c *graphCase) build(base string) (*graphCase, *builtEnv, func(), error) {
	e := &builtEnv{mm: tengo.NewModuleMap(), paths: map[int]string{}}
	cleanup := func() {}
	needDir := false
	for _, m := range c.Mods {
		if m.File {
			needDir = true
		}
	}
	if needDir {
		dir, err := os.MkdirTemp(base, "g")
		if err != nil {
			return nil, nil, cleanup, err
		}
		e.dir = filepath.Join(dir, "root")
		cleanup = func() { _ = os.RemoveAll(dir) }
		if err := os.MkdirAll(e.dir, 0o755); err != nil {
			return nil, nil, cleanup, err
		}
	}
	r := c.resolved(e.dir)
	for i := range r.Mods {
		m := &r.Mods[i]
		src := m.render(i)
		if m.File {
			p := filepath.Join(e.dir, filepath.FromSlash(m.Key))
			if err := writeFile(p, src); err != nil {
				return nil, nil, cleanup, err
			}
			e.paths[i] = p
		} else {
			e.mm.AddSourceModule(m.Key, []byte(src))
			e.paths[i] = m.Key
		}
	}
	return r, e, cleanup, nil
}

// ---------- oracle ----------

func moduleFuncFile(bc *tengo.Bytecode, cf *tengo.CompiledFunction) (string, bool) {
	n := len(cf.Instructions)
	if n == 0 || cf.Instructions[n-1] != parser.OpSuspend {
		return "", false // a function literal, not a module body
	}
	min := -1
	for pos := range cf.SourceMap {
		if min < 0 || pos < min {
			min = pos
		}
	}
	if min < 0 {
		return "", true
	}
	return bc.FileSet.Position(cf.SourceMap[min]).Filename, true
}

// checkGraph: orig is the case as generated (what a replay file stores); the
// compiled case has the import dir substituted.
func checkGraph(t ev.TB, test, base string, orig *graphCase) {
	g := analyse(orig)
	c, env, cleanup, err := orig.build(base)
	defer cleanup()
	if err != nil {
		t.Fatalf("harness: cannot build environment: %v", err)
		return
	}
	mainSrc := c.renderMain()
	st := settings{FileImport: c.FileImport, Dir: env.dir}
	// Several modules may carry the same module path (a module-map key that
	// spells the absolute path of a file module): expectations per path are
	// then summed over them.
	pathMods := map[string][]int{}
	for i := 0; i < len(c.Mods); i++ {
		pathMods[env.paths[i]] = append(pathMods[env.paths[i]], i)
	}
	collision := len(pathMods) != len(c.Mods)

	verdict := func(how string, o compileOut) bool {
		if o.timeout {
			ev.Fail(t, test, orig, "%s: compilation did not return within %v", how, watchdog)
			return false
		}
		if be, ok := o.pan.(boundExceeded); ok {
			ev.Fail(t, test, orig, "%s: the compiler resolved %d import expressions (last %q) although main and the reachable modules contain only %d: a module is compiled more than once or compilation does not terminate", how, be.total, be.name, g.bound)
			return false
		}
		if o.pan != nil {
			ev.Fail(t, test, orig, "%s: compiler panicked: %v", how, o.pan)
			return false
		}
		if g.cyclic {
			if o.err == nil {
				ev.Fail(t, test, orig, "%s: an import cycle is reachable from main but compilation succeeded", how)
				return false
			}
			msg := o.err.Error()
			const key = "cyclic module import: "
			k := strings.Index(msg, key)
			if k < 0 {
				ev.Fail(t, test, orig, "%s: an import cycle is reachable from main; compilation failed with a different error: %s", how, firstLine(msg))
				return false
			}
			named := firstLine(msg[k+len(key):])
			ok := false
			for _, idx := range pathMods[named] {
				ok = ok || g.onCycle[idx]
			}
			if !ok {
				ev.Fail(t, test, orig, "%s: cycle error names %q, which is not a module on a reachable cycle", how, named)
				return false
			}
			return true
		}
		if o.err != nil {
			ev.Fail(t, test, orig, "%s: no import cycle is reachable from main but compilation failed: %s", how, firstLine(o.err.Error()))
			return false
		}
		return true
	}

	// 1+2: through the compiler, constant pool as built
	var get *countingGetter
	raw := compileRaw(mainSrc, bounded(env.mm, g.bound, &get), st)
	if !verdict("Compiler", raw) {
		return
	}
	if !g.cyclic {
		bc := raw.bc
		// every reachable module parsed/compiled exactly once
		files := map[string]int{}
		for _, f := range bc.FileSet.Files {
			files[f.Name]++
		}
		paths := make([]string, 0, len(pathMods))
		for p := range pathMods {
			paths = append(paths, p)
		}
		sort.Strings(paths)
		reachCount := map[string]int{}
		for _, p := range paths {
			for _, i := range pathMods[p] {
				if g.reach[i] {
					reachCount[p]++
				}
			}
			if files[p] != reachCount[p] {
				ev.Fail(t, test, orig, "module path %q: %d reachable module(s), but it was added to the file set (parsed and compiled) %d times", p, reachCount[p], files[p])
				return
			}
		}
		// all constants of one module are one *CompiledFunction
		ptrs := map[string]map[*tengo.CompiledFunction]bool{}
		for _, k := range bc.Constants {
			cf, ok := k.(*tengo.CompiledFunction)
			if !ok {
				continue
			}
			name, isMod := moduleFuncFile(bc, cf)
			if !isMod {
				continue
			}
			if ptrs[name] == nil {
				ptrs[name] = map[*tengo.CompiledFunction]bool{}
			}
			ptrs[name][cf] = true
		}
		for _, p := range paths {
			n := len(ptrs[p])
			if n > reachCount[p] {
				ev.Fail(t, test, orig, "module path %q occurs in the constant pool as %d different compiled functions for %d reachable module(s): compiled more than once", p, n, reachCount[p])
				return
			}
			if n < reachCount[p] {
				ev.Fail(t, test, orig, "module path %q: %d reachable module(s) but %d compiled function(s) in the constant pool", p, reachCount[p], n)
				return
			}
		}
		if get.total > g.bound {
			ev.Fail(t, test, orig, "compiler resolved %d import expressions, only %d exist in main and reachable modules", get.total, g.bound)
			return
		}
	}

	// the way an embedder compiles; then the values
	sc := compileScript(mainSrc, bounded(env.mm, g.bound, nil), st, nil)
	if !verdict("Script", sc) {
		return
	}
	if !g.cyclic {
		globals, err := runCompiled(sc.compiled)
		if err != nil {
			ev.Fail(t, test, orig, "run failed: %s", firstLine(err.Error()))
			return
		}
		memo := map[int]tengo.Object{}
		for k, s := range c.Main {
			name := fmt.Sprintf("r_s%d", k)
			got := globals[name]
			switch {
			case executed(s.Place):
				want := c.valueOf(s.To, memo)
				if !tv.Equal(got, want) {
					ev.Fail(t, test, orig, "%s = import(%q): got %s, the module exports %s", name, s.Name, tv.Describe(got), tv.Describe(want))
					return
				}
			case s.Place == "func":
				if _, ok := got.(*tengo.CompiledFunction); !ok {
					ev.Fail(t, test, orig, "%s: got %s, want a function", name, tv.Describe(got))
					return
				}
			}
		}
		if v, ok := globals["g_v"].(*tengo.Int); !ok || v.Value != 7 {
			ev.Fail(t, test, orig, "importer variable g_v changed to %s", tv.Describe(globals["g_v"]))
			return
		}
	}

	// evidence
	n := len(c.Mods)
	cls := []string{"G:case", "G:layout=" + c.Layout, "G:shape=" + c.Shape, fmt.Sprintf("G:modules=%d", n)}
	if c.FileImport {
		cls = append(cls, "G:file-import=on")
	} else {
		cls = append(cls, "G:file-import=off")
	}
	switch {
	case g.cyclic:
		cls = append(cls, "G:cycle-reachable(compile-fails)")
	case g.anyCycle:
		cls = append(cls, "G:cycle-only-unreachable(compiles)")
	default:
		cls = append(cls, "G:acyclic(compiles)")
	}
	if g.selfLoop {
		cls = append(cls, "G:has-self-loop")
	}
	if g.maxCycle >= 2 {
		cls = append(cls, fmt.Sprintf("G:cycle-length>=%d", min(g.maxCycle, 3)))
	}
	if g.diamond {
		cls = append(cls, "G:diamond(module-reached-by-several-sites)")
	}
	if collision {
		cls = append(cls, "G:map-key-equals-file-path")
	}
	places := make([]string, 0, len(g.placeSeen))
	for p := range g.placeSeen {
		places = append(places, p)
	}
	sort.Strings(places)
	for _, p := range places {
		cls = append(cls, "G:import-in="+p)
	}
	nontrivial := n >= 3 && (g.diamond || g.anyCycle)
	key := orig.renderMain()
	for i := range orig.Mods {
		key += "\x00" + orig.Mods[i].Key + "\x00" + orig.Mods[i].render(i)
	}
	ev.Case("G"+key, nontrivial, cls...)
	if nontrivial && ev.WantSample() && n <= 4 {
		mods := map[string]string{}
		for i := range c.Mods {
			mods[c.Mods[i].Key] = c.Mods[i].render(i)
		}
		ev.Sample(map[string]interface{}{"kind": "graph", "layout": c.Layout, "file_import": c.FileImport,
			"cycle_reachable": g.cyclic, "main": mainSrc, "modules": mods})
	}
}

// ---------- generator ----------

var placesAll = []string{"top", "top", "top", "expr", "called", "loop", "func", "never", "dead"}

// mapName spells the module-map key of module i. Keys that look like paths
// or like each other (m0, ./m0, m0.tengo) are different keys.
func mapName(t *rapid.T, i int, used map[string]bool) string {
	base := fmt.Sprintf("m%d", rapid.IntRange(0, 2).Draw(t, "base"))
	for try := 0; try < 2; try++ {
		var s string
		switch rapid.IntRange(0, 11).Draw(t, "style") {
		case 0, 1:
			s = base
		case 2:
			s = base + ".tengo"
		case 3:
			s = "./" + base
		case 4:
			s = "../" + base
		case 5:
			s = "lib/" + base
		case 6:
			s = "/abs/" + base + ".tengo"
		case 7:
			s = "pkg." + base
		case 8:
			s = base + ".v2"
		case 9:
			s = "/" + base
		case 10:
			s = "./lib/../" + base
		default:
			s = "my " + base + "-x"
		}
		if !used[s] {
			used[s] = true
			return s
		}
		base = fmt.Sprintf("m%d", i+3)
	}
	s := fmt.Sprintf("unique%d", i)
	used[s] = true
	return s
}

var fileDirs = []string{"", "", "sub", "sub/deep", "other"}

// spellFile writes an import name for the file `target` (slash path relative
// to the import dir, with extension) as seen from a unit in directory fromDir.
func spellFile(t *rapid.T, fromDir, target string) string {
	rel, err := filepath.Rel(filepath.FromSlash("/"+fromDir), filepath.FromSlash("/"+target))
	if err != nil {
		rel = target
	}
	rel = filepath.ToSlash(rel)
	if rapid.Bool().Draw(t, "noext") {
		rel = strings.TrimSuffix(rel, ".tengo")
	}
	switch rapid.IntRange(0, 4).Draw(t, "sp") {
	case 0:
		if !strings.HasPrefix(rel, "../") {
			rel = "./" + rel
		}
	case 1:
		rel = "zz/../" + rel // lexically cleaned by the path join
	case 2:
		rel = ".//" + rel
	}
	return rel
}

func genEdges(t *rapid.T, n int, shape string) ([][]int, []int) {
	adj := make([][]int, n)
	add := func(a, b int) { adj[a] = append(adj[a], b) }
	var roots []int
	switch shape {
	case "chain":
		for i := 0; i+1 < n; i++ {
			add(i, i+1)
		}
		roots = []int{0}
	case "chain+back":
		for i := 0; i+1 < n; i++ {
			add(i, i+1)
		}
		add(n-1, rapid.IntRange(0, n-1).Draw(t, "back"))
		roots = []int{0}
	case "diamond":
		// 0 -> 1..k -> last
		if n >= 3 {
			for i := 1; i < n-1; i++ {
				add(0, i)
				add(i, n-1)
			}
		} else if n == 2 {
			add(0, 1)
			add(0, 1)
		}
		if rapid.IntRange(0, 3).Draw(t, "close") == 0 {
			add(n-1, rapid.IntRange(0, n-1).Draw(t, "closeTo"))
		}
		roots = []int{0}
	case "dag":
		p := rapid.SampledFrom([]int{20, 35, 60}).Draw(t, "p")
		for i := 0; i < n; i++ {
			for j := i + 1; j < n; j++ {
				if rapid.IntRange(0, 99).Draw(t, "e") < p {
					add(i, j)
				}
			}
		}
	case "hidden-cycle":
		// an acyclic part that main reaches and a cycle it does not reach
		k := rapid.IntRange(1, max(1, n-1)).Draw(t, "k")
		for i := 0; i < k; i++ {
			for j := i + 1; j < k; j++ {
				if rapid.IntRange(0, 99).Draw(t, "e") < 40 {
					add(i, j)
				}
			}
		}
		for i := k; i < n; i++ {
			nx := i + 1
			if nx == n {
				nx = k
			}
			add(i, nx)
			if rapid.IntRange(0, 3).Draw(t, "into") == 0 {
				add(i, rapid.IntRange(0, k-1).Draw(t, "intoTo")) // hidden part may import the visible part
			}
		}
		cnt := rapid.IntRange(1, k).Draw(t, "nroots")
		roots = rapid.Permutation(seq(k)).Draw(t, "roots")[:cnt]
		return adj, roots
	default: // random
		p := rapid.SampledFrom([]int{8, 15, 30}).Draw(t, "p")
		for i := 0; i < n; i++ {
			for j := 0; j < n; j++ {
				if rapid.IntRange(0, 99).Draw(t, "e") < p {
					add(i, j)
				}
			}
		}
	}
	if rapid.IntRange(0, 9).Draw(t, "self") == 0 {
		i := rapid.IntRange(0, n-1).Draw(t, "selfAt")
		add(i, i)
	}
	if roots == nil || rapid.Bool().Draw(t, "moreRoots") {
		cnt := rapid.IntRange(1, min(n, 3)).Draw(t, "nroots")
		roots = append(roots, rapid.Permutation(seq(n)).Draw(t, "roots")[:cnt]...)
	}
	return adj, roots
}

func seq(n int) []int {
	s := make([]int, n)
	for i := range s {
		s[i] = i
	}
	return s
}

var shapes = []string{"chain", "chain+back", "diamond", "diamond", "dag", "dag", "dag", "hidden-cycle", "random", "random"}

func genGraphCase(t *rapid.T) *graphCase {
	n := rapid.IntRange(1, 7).Draw(t, "n")
	c := &graphCase{Shape: rapid.SampledFrom(shapes).Draw(t, "shape")}
	c.Layout = rapid.SampledFrom([]string{"map", "map", "map", "files", "mixed"}).Draw(t, "layout")
	adj, roots := genEdges(t, n, c.Shape)
	// relabel so that index order says nothing about import order
	perm := rapid.Permutation(seq(n)).Draw(t, "relabel")
	c.Mods = make([]modSpec, n)
	used := map[string]bool{}
	dirs := make([]string, n)
	for i := 0; i < n; i++ {
		m := &c.Mods[i]
		switch c.Layout {
		case "files":
			m.File = true
		case "mixed":
			m.File = rapid.Bool().Draw(t, "isFile")
		}
		if m.File {
			if c.Layout == "files" {
				dirs[i] = rapid.SampledFrom(fileDirs).Draw(t, "dir")
			}
			m.Key = fmt.Sprintf("f%d.tengo", i)
			if c.Layout == "files" && !used["shared@"+dirs[i]] && rapid.IntRange(0, 2).Draw(t, "sharedBase") == 0 {
				// different files with the same base name in different
				// directories: importers next to them spell them alike
				// ("./shared") and still mean different modules
				used["shared@"+dirs[i]] = true
				m.Key = "shared.tengo"
			}
			if dirs[i] != "" {
				m.Key = dirs[i] + "/" + m.Key
			}
		} else {
			m.Key = mapName(t, i, used)
		}
		if rapid.IntRange(0, 9).Draw(t, "noexport") != 0 {
			m.Export = genVal(t, 2)
		}
		m.Agg = rapid.Bool().Draw(t, "agg")
		m.Style = rapid.SampledFrom([]int{0, 0, 1, 2}).Draw(t, "style")
	}
	c.FileImport = c.Layout != "map" || rapid.Bool().Draw(t, "fileImport")
	if c.Layout == "mixed" && rapid.IntRange(0, 7).Draw(t, "collide") == 0 {
		// a module-map key that spells the absolute path of a file module
		a, b := -1, -1
		for i := range c.Mods {
			if c.Mods[i].File && b < 0 {
				b = i
			}
			if !c.Mods[i].File && a < 0 {
				a = i
			}
		}
		if a >= 0 && b >= 0 {
			if openFindings[findingPathKey] {
				ev.Discard("known:" + findingPathKey) // pattern not generated while the finding is open
			} else {
				c.Mods[a].Key = rootMark + "/" + c.Mods[b].Key
			}
		}
	}
	mkSite := func(fromDir string, fromMain bool, to int) site {
		s := site{To: to}
		for {
			s.Place = rapid.SampledFrom(placesAll).Draw(t, "place")
			if !(fromMain && s.Place == "dead") {
				break
			}
		}
		if c.Mods[to].File {
			s.Name = spellFile(t, fromDir, c.Mods[to].Key)
		} else {
			s.Name = c.Mods[to].Key
		}
		return s
	}
	for a := 0; a < n; a++ {
		i := perm[a]
		tos := append([]int(nil), adj[a]...)
		if len(tos) > 1 {
			tos = permuteInts(t, tos)
		}
		for _, b := range tos {
			c.Mods[i].Sites = append(c.Mods[i].Sites, mkSite(dirs[i], false, perm[b]))
		}
	}
	if len(roots) > 1 {
		roots = permuteInts(t, roots)
	}
	for _, r := range roots {
		c.Main = append(c.Main, mkSite("", true, perm[r]))
	}
	return c
}

func permuteInts(t *rapid.T, xs []int) []int {
	idx := rapid.Permutation(seq(len(xs))).Draw(t, "perm")
	out := make([]int, len(xs))
	for i, j := range idx {
		out[i] = xs[j]
	}
	return out
}

func TestGraph(t *testing.T) {
	base := tempBase(t)
	rapid.Check(t, func(rt *rapid.T) {
		checkGraph(rt, "TestGraph", base, genGraphCase(rt))
	})
}
