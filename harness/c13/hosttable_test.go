package c13

// TestHostModuleTables: a builtin (Go) module whose attributes hold mutable
// containers. "The value an import expression yields is what the module
// exported, made immutable" and "a builtin-module table keeps its contents":
// the table is shallowly immutable, so an importer may write INTO a nested map
// or array of its table - but that write must stay with the compiled program
// that made it:
//   - the embedder's BuiltinModule.Attrs are never changed by any importer,
//   - a script compiled later from the same ModuleMap starts from the values
//     the embedder registered,
//   - one *BuiltinModule registered under two names yields two independent
//     tables, each carrying its own __module_name__, whatever is imported
//     afterwards,
//   - within one compiled program every import of one name is one table
//     (writes through one import expression are read through another, also
//     from inside a source module, and they survive from one Run to the next
//     of the same Compiled: the table is a constant of the bytecode).
// The model is a plain Go copy of the attributes per (compiled program, name).

import (
	"fmt"
	"strings"
	"testing"

	"github.com/d5/tengo/v2"
	"pgregory.net/rapid"

	"verifharness/ev"
	"verifharness/tv"
)

type htOp struct {
	Via   int `json:"via"`   // which import variable (index into Imports of the script)
	Field int `json:"field"` // 0: cfg.n  1: tags[0]  2: tags[1]  3: deep.inner.k
	Val   int `json:"val"`
}

type htScript struct {
	Imports []int  `json:"imports"` // per import variable: index into Names
	InMod   []bool `json:"in_mod"`  // the import is made by a source module which exports the table
	Ops     []htOp `json:"ops"`
	Runs    int    `json:"runs"`
}

type htCase struct {
	Names   []string   `json:"names"` // names the ONE module object is registered under
	Other   bool       `json:"other"` // a second, unrelated module object "zother" is registered too
	N       int        `json:"n"`
	Scripts []htScript `json:"scripts"`
}

type htModel struct{ n, t0, t1, k int }

func htAttrs(n int) map[string]tengo.Object {
	return map[string]tengo.Object{
		"cfg":  &tengo.Map{Value: map[string]tengo.Object{"n": &tengo.Int{Value: int64(n)}}},
		"tags": &tengo.Array{Value: []tengo.Object{&tengo.Int{Value: 10}, &tengo.Int{Value: 11}}},
		"deep": &tengo.ImmutableMap{Value: map[string]tengo.Object{"inner": &tengo.Map{Value: map[string]tengo.Object{"k": &tengo.Int{Value: 5}}}}},
		"raw":  &tengo.Bytes{Value: []byte{1, 2, 3}},
		"ver":  &tengo.Int{Value: 3},
	}
}

func htDescribeAttrs(a map[string]tengo.Object) string {
	return tv.Describe(&tengo.Map{Value: a})
}

func checkHostTables(t ev.TB, test string, c *htCase) {
	mod := &tengo.BuiltinModule{Attrs: htAttrs(c.N)}
	pristine := htDescribeAttrs(htAttrs(c.N))
	mm := tengo.NewModuleMap()
	for _, n := range c.Names {
		mm.Add(n, mod)
	}
	if c.Other {
		mm.AddBuiltinModule("zother", htAttrs(c.N+100))
	}
	fields := []string{"cfg.n", "tags[0]", "tags[1]", "deep.inner.k"}
	for si, sc := range c.Scripts {
		var src strings.Builder
		mods := map[string]string{}
		for vi, ni := range sc.Imports {
			name := c.Names[ni]
			if sc.InMod[vi] {
				mn := fmt.Sprintf("src%d", vi)
				mods[mn] = fmt.Sprintf("export import(%q)", name)
				fmt.Fprintf(&src, "t%d := import(%q)\n", vi, mn)
			} else {
				fmt.Fprintf(&src, "t%d := import(%q)\n", vi, name)
			}
		}
		if c.Other {
			src.WriteString("zo := import(\"zother\")\nzo.cfg.n = 999\nzo.tags[0] = 999\n")
		}
		for _, op := range sc.Ops {
			fmt.Fprintf(&src, "t%d.%s = %d\n", op.Via, fields[op.Field], op.Val)
		}
		for vi := range sc.Imports {
			fmt.Fprintf(&src, "o%[1]d := [t%[1]d.cfg.n, t%[1]d.tags[0], t%[1]d.tags[1], t%[1]d.deep.inner.k, t%[1]d.__module_name__, t%[1]d.ver, len(t%[1]d.raw)]\n", vi)
		}
		smm := mm.Copy()
		for n, body := range mods {
			smm.AddSourceModule(n, []byte(body))
		}
		s := tengo.NewScript([]byte(src.String()))
		s.SetImports(smm)
		cc, err := s.Compile()
		if err != nil {
			ev.Fail(t, test, c, "script #%d does not compile: %v\n%s", si, err, src.String())
			return
		}
		// one model table per name for this compiled program
		model := map[int]*htModel{}
		for _, ni := range sc.Imports {
			if model[ni] == nil {
				model[ni] = &htModel{n: c.N, t0: 10, t1: 11, k: 5}
			}
		}
		for run := 0; run < sc.Runs; run++ {
			if err := cc.Run(); err != nil {
				ev.Fail(t, test, c, "script #%d run %d fails: %v\n%s", si, run, err, src.String())
				return
			}
			for _, op := range sc.Ops {
				m := model[sc.Imports[op.Via]]
				switch op.Field {
				case 0:
					m.n = op.Val
				case 1:
					m.t0 = op.Val
				case 2:
					m.t1 = op.Val
				case 3:
					m.k = op.Val
				}
			}
			for vi, ni := range sc.Imports {
				m := model[ni]
				want := fmt.Sprintf("array[int(%d), int(%d), int(%d), int(%d), string(%q), int(3), int(3)]", m.n, m.t0, m.t1, m.k, c.Names[ni])
				if got := tv.Describe(cc.Get(fmt.Sprintf("o%d", vi)).Object()); got != want {
					ev.Fail(t, test, c, "script #%d run %d: the table imported as %q (variable t%d) reads [cfg.n, tags[0], tags[1], deep.inner.k, __module_name__, ver, len(raw)] = %s, expected %s\n%s", si, run, c.Names[ni], vi, got, want, src.String())
					return
				}
			}
			if got := htDescribeAttrs(mod.Attrs); got != pristine {
				ev.Fail(t, test, c, "after script #%d run %d the embedder's BuiltinModule.Attrs read %s, registered were %s\n%s", si, run, got, pristine, src.String())
				return
			}
		}
	}
	writes, twoNames, viaMod := 0, len(c.Names) > 1, false
	for _, sc := range c.Scripts {
		writes += len(sc.Ops)
		for _, b := range sc.InMod {
			viaMod = viaMod || b
		}
	}
	cls := []string{"host-module-tables"}
	if twoNames {
		cls = append(cls, "host-table:two-names")
	}
	if viaMod {
		cls = append(cls, "host-table:through-source-module")
	}
	ev.Case(fmt.Sprintf("ht|%+v", *c), writes > 0 && len(c.Scripts) > 1, cls...)
}

func genHostTables(t *rapid.T) *htCase {
	c := &htCase{Names: []string{"hm"}, N: rapid.IntRange(0, 9).Draw(t, "n"), Other: rapid.IntRange(0, 3).Draw(t, "other") == 0}
	if rapid.Bool().Draw(t, "twoNames") {
		c.Names = append(c.Names, "hm2")
	}
	for i, k := 0, rapid.IntRange(2, 3).Draw(t, "scripts"); i < k; i++ {
		sc := htScript{Runs: rapid.IntRange(1, 2).Draw(t, "runs")}
		for j, n := 0, rapid.IntRange(1, 3).Draw(t, "imports"); j < n; j++ {
			sc.Imports = append(sc.Imports, rapid.IntRange(0, len(c.Names)-1).Draw(t, "name"))
			sc.InMod = append(sc.InMod, rapid.IntRange(0, 3).Draw(t, "inMod") == 0)
		}
		for j, n := 0, rapid.IntRange(0, 4).Draw(t, "ops"); j < n; j++ {
			sc.Ops = append(sc.Ops, htOp{Via: rapid.IntRange(0, len(sc.Imports)-1).Draw(t, "via"),
				Field: rapid.IntRange(0, 3).Draw(t, "field"), Val: rapid.IntRange(20, 29).Draw(t, "val")})
		}
		c.Scripts = append(c.Scripts, sc)
	}
	return c
}

func TestHostModuleTables(t *testing.T) {
	rapid.Check(t, func(t *rapid.T) {
		checkHostTables(t, "TestHostModuleTables", genHostTables(t))
	})
}
