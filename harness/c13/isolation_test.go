package c13

import (
	"fmt"
	"os"
	"path/filepath"
	"strings"
	"testing"

	"github.com/d5/tengo/v2"
	"pgregory.net/rapid"

	"verifharness/ev"
	"verifharness/tv"
)

// isoCase: main -> M0 -> M1 -> ... (a chain of Chain modules). One unit may
// mention a name that belongs to another unit.
type isoCase struct {
	Layout  string `json:"layout"`  // map | files
	Chain   int    `json:"chain"`   // 1..3 modules
	Leak    string `json:"leak"`    // none | module-sees-importer | importer-sees-private
	At      int    `json:"at"`      // unit that mentions the foreign name: -1 main, else module index
	Foreign string `json:"foreign"` // which foreign name (see foreignName)
	Pos     string `json:"pos"`     // top | call | func | never | dead | assign | compound | selector
	Shadow  bool   `json:"shadow"`  // modules define their own variables named like the importer's
	InFunc  bool   `json:"in_func"` // main's import expression sits in a function with a parameter and a local
	Host    bool   `json:"host"`    // the embedder adds a variable `host` to the script
}

func isoModName(c *isoCase, i int) string {
	if c.Layout == "files" {
		return fmt.Sprintf("./iso%d", i)
	}
	return fmt.Sprintf("iso%d", i)
}

// foreignName returns the name mentioned and whether the combination exists
// in this case.
func (c *isoCase) foreignName() (string, bool) {
	switch c.Leak {
	case "module-sees-importer":
		if c.At < 0 || c.At >= c.Chain {
			return "", false
		}
		switch c.Foreign {
		case "global-before":
			return "secret", true
		case "global-after":
			return "later", true
		case "import-var":
			if c.At == 0 {
				if c.InFunc {
					return "mk", true // the function holding the import
				}
				return "r", true
			}
			return fmt.Sprintf("q%d_next", c.At-1), true
		case "func-param":
			return "fp", c.InFunc
		case "func-local":
			return "fl", c.InFunc
		case "host":
			return "host", c.Host
		case "parent-private":
			if c.At == 0 {
				return "", false
			}
			return fmt.Sprintf("q%d_priv", c.At-1), true
		case "parent-func":
			if c.At == 0 {
				return "", false
			}
			return fmt.Sprintf("q%d_fn", c.At-1), true
		}
	case "importer-sees-private":
		// unit At (main or module) mentions a private name of a module it
		// imports directly or indirectly
		tgt := c.At + 1
		if c.Foreign == "deeper" {
			tgt = c.At + 2
		}
		if c.At < -1 || tgt >= c.Chain {
			return "", false
		}
		if c.Foreign == "func" {
			return fmt.Sprintf("q%d_fn", tgt), true
		}
		return fmt.Sprintf("q%d_priv", tgt), true
	}
	return "", false
}

func mention(pos, w, x string) string {
	switch pos {
	case "top", "dead":
		return fmt.Sprintf("%s := %s\n", w, x)
	case "call":
		return fmt.Sprintf("%s := len([%s])\n", w, x)
	case "func":
		return fmt.Sprintf("%s := func() { return %s }\n", w, x)
	case "never":
		return fmt.Sprintf("if false { %s := %s }\n", w, x)
	case "assign":
		return fmt.Sprintf("%s = 1\n", x)
	case "compound":
		return fmt.Sprintf("%s += 1\n", x)
	case "selector":
		return fmt.Sprintf("%s.k = 1\n", x)
	}
	panic("mention: " + pos)
}

func (c *isoCase) renderModule(i int, leakName string) string {
	var sb strings.Builder
	p := fmt.Sprintf("q%d_", i)
	fmt.Fprintf(&sb, "%spriv := %d\n", p, 50+i)
	fmt.Fprintf(&sb, "%sfn := func(a) { return a + %spriv }\n", p, p)
	if c.Shadow {
		// own variables that merely share a name with the importer's
		fmt.Fprintf(&sb, "secret := %d\nsecret += 1\nlater := \"mine%d\"\nhost := [%d]\nr := %d\n", 1000+i, i, i, i)
	}
	if i+1 < c.Chain {
		fmt.Fprintf(&sb, "%snext := import(%q)\n", p, isoModName(c, i+1))
	} else {
		fmt.Fprintf(&sb, "%snext := undefined\n", p)
	}
	fmt.Fprintf(&sb, "%sb := [len(\"abc\"), type_name(%spriv), is_undefined(undefined), string(%sfn(1))]\n", p, p, p)
	if c.At == i && leakName != "" && c.Pos != "dead" {
		sb.WriteString(mention(c.Pos, p+"w", leakName))
	}
	if c.Shadow {
		fmt.Fprintf(&sb, "export {priv: %spriv, next: %snext, b: %sb, own: [secret, later, host, r]}\n", p, p, p)
	} else {
		fmt.Fprintf(&sb, "export {priv: %spriv, next: %snext, b: %sb}\n", p, p, p)
	}
	if c.At == i && leakName != "" && c.Pos == "dead" {
		sb.WriteString(mention(c.Pos, p+"w", leakName))
	}
	return sb.String()
}

func (c *isoCase) renderMain(leakName string) string {
	var sb strings.Builder
	sb.WriteString("secret := 100\n")
	if c.InFunc {
		fmt.Fprintf(&sb, "mk := func(fp) { fl := fp + 1; return import(%q) }\nr := mk(1)\n", isoModName(c, 0))
	} else {
		fmt.Fprintf(&sb, "r := import(%q)\n", isoModName(c, 0))
	}
	sb.WriteString("later := 200\n")
	if c.At == -1 && leakName != "" {
		pos := c.Pos
		if pos == "dead" {
			pos = "top"
		}
		sb.WriteString(mention(pos, "w", leakName))
	}
	if c.Host {
		sb.WriteString("out := [secret, later, host]\n")
	} else {
		sb.WriteString("out := [secret, later]\n")
	}
	return sb.String()
}

func (c *isoCase) expectedModule(i int) tengo.Object {
	var next tengo.Object = tengo.UndefinedValue
	if i+1 < c.Chain {
		next = c.expectedModule(i + 1)
	}
	m := map[string]tengo.Object{
		"priv": &tengo.Int{Value: int64(50 + i)},
		"next": next,
		"b": &tengo.Array{Value: []tengo.Object{&tengo.Int{Value: 3}, &tengo.String{Value: "int"}, tengo.TrueValue,
			&tengo.String{Value: fmt.Sprint(51 + i)}}},
	}
	if c.Shadow {
		m["own"] = &tengo.Array{Value: []tengo.Object{&tengo.Int{Value: int64(1001 + i)}, &tengo.String{Value: fmt.Sprintf("mine%d", i)},
			&tengo.Array{Value: []tengo.Object{&tengo.Int{Value: int64(i)}}}, &tengo.Int{Value: int64(i)}}}
	}
	return &tengo.ImmutableMap{Value: m}
}

func checkIso(t ev.TB, test, base string, c *isoCase) {
	leakName, ok := c.foreignName()
	if c.Leak != "none" && !ok {
		ev.Discard("isolation: combination does not exist")
		return
	}
	if c.Leak == "none" {
		leakName = ""
	}
	if c.Shadow && leakName != "" && (leakName == "secret" || leakName == "later" || leakName == "host" || leakName == "r") {
		// the module defines that name itself: not a foreign name
		ev.Discard("isolation: name is the module's own")
		return
	}
	mm := tengo.NewModuleMap()
	st := settings{}
	if c.Layout == "files" {
		dir, err := os.MkdirTemp(base, "i")
		if err != nil {
			t.Fatalf("harness: %v", err)
			return
		}
		defer os.RemoveAll(dir)
		st = settings{FileImport: true, Dir: dir}
		for i := 0; i < c.Chain; i++ {
			if err := writeFile(filepath.Join(dir, fmt.Sprintf("iso%d.tengo", i)), c.renderModule(i, leakName)); err != nil {
				t.Fatalf("harness: %v", err)
				return
			}
		}
	} else {
		for i := 0; i < c.Chain; i++ {
			mm.AddSourceModule(isoModName(c, i), []byte(c.renderModule(i, leakName)))
		}
	}
	mainSrc := c.renderMain(leakName)
	var host map[string]interface{}
	if c.Host {
		host = map[string]interface{}{"host": 5}
	}
	bound := c.Chain + 1

	// the Compiler path has no host variables; main mentions `host` only
	// with c.Host, so use it only otherwise
	outs := []struct {
		how string
		o   compileOut
	}{{"Script", compileScript(mainSrc, bounded(mm, bound, nil), st, host)}}
	if !c.Host {
		outs = append(outs, struct {
			how string
			o   compileOut
		}{"Compiler", compileRaw(mainSrc, bounded(mm, bound, nil), st)})
	}
	for _, x := range outs {
		o := x.o
		if o.timeout || o.pan != nil {
			ev.Fail(t, test, c, "%s: compilation did not complete (timeout=%v panic=%v)", x.how, o.timeout, o.pan)
			return
		}
		if leakName != "" {
			who := "main"
			if c.At >= 0 {
				who = "module " + isoModName(c, c.At)
			}
			if o.err == nil {
				ev.Fail(t, test, c, "%s: %s mentions %q, a name of another compilation unit (%s/%s), and compiled", x.how, who, leakName, c.Leak, c.Foreign)
				return
			}
			want := "unresolved reference '" + leakName + "'"
			if !strings.Contains(o.err.Error(), want) {
				ev.Fail(t, test, c, "%s: %s mentions foreign name %q: want %q, got: %s", x.how, who, leakName, want, firstLine(o.err.Error()))
				return
			}
		} else if o.err != nil {
			ev.Fail(t, test, c, "%s: well-scoped modules (own variables and builtins only) failed to compile: %s", x.how, firstLine(o.err.Error()))
			return
		}
	}
	if leakName == "" {
		globals, err := runCompiled(outs[0].o.compiled)
		if err != nil {
			ev.Fail(t, test, c, "run failed: %s", firstLine(err.Error()))
			return
		}
		if want := c.expectedModule(0); !tv.Equal(globals["r"], want) {
			ev.Fail(t, test, c, "r: got %s want %s", tv.Describe(globals["r"]), tv.Describe(want))
			return
		}
		wantOut := []tengo.Object{&tengo.Int{Value: 100}, &tengo.Int{Value: 200}}
		if c.Host {
			wantOut = append(wantOut, &tengo.Int{Value: 5})
		}
		if want := (&tengo.Array{Value: wantOut}); !tv.Equal(globals["out"], want) {
			ev.Fail(t, test, c, "importer variables after the import: got %s want %s (a module wrote to its importer's variables)", tv.Describe(globals["out"]), tv.Describe(want))
			return
		}
	}
	cls := []string{"I:case", "I:layout=" + c.Layout, "I:leak=" + c.Leak}
	if leakName != "" {
		cls = append(cls, "I:foreign="+c.Foreign, "I:mention="+c.Pos)
	}
	if c.Shadow {
		cls = append(cls, "I:module-shadows-importer-names")
	}
	ev.Case("I"+mainSrc+"\x00"+c.renderModule(max(c.At, 0), leakName)+fmt.Sprint(*c), false, cls...)
}

func genIsoCase(t *rapid.T) *isoCase {
	c := &isoCase{
		Layout: rapid.SampledFrom([]string{"map", "map", "files"}).Draw(t, "layout"),
		Chain:  rapid.IntRange(1, 3).Draw(t, "chain"),
		Leak:   rapid.SampledFrom([]string{"none", "module-sees-importer", "module-sees-importer", "importer-sees-private"}).Draw(t, "leak"),
		InFunc: rapid.Bool().Draw(t, "inFunc"),
		Host:   rapid.Bool().Draw(t, "host"),
	}
	switch c.Leak {
	case "none":
		c.Shadow = rapid.Bool().Draw(t, "shadow")
		c.At = -2
	case "module-sees-importer":
		c.At = rapid.IntRange(0, c.Chain-1).Draw(t, "at")
		opts := []string{"global-before", "global-after", "import-var"}
		if c.InFunc {
			opts = append(opts, "func-param", "func-local")
		}
		if c.Host {
			opts = append(opts, "host")
		}
		if c.At > 0 {
			opts = append(opts, "parent-private", "parent-func", "parent-private")
		}
		c.Foreign = rapid.SampledFrom(opts).Draw(t, "foreign")
		c.Pos = rapid.SampledFrom([]string{"top", "call", "func", "never", "dead", "assign", "compound", "selector"}).Draw(t, "pos")
	case "importer-sees-private":
		c.At = rapid.IntRange(-1, c.Chain-2).Draw(t, "at")
		c.Foreign = rapid.SampledFrom([]string{"direct", "func", "deeper"}).Draw(t, "foreign")
		if c.Foreign == "deeper" && c.At+2 >= c.Chain {
			c.Foreign = "direct"
		}
		c.Pos = rapid.SampledFrom([]string{"top", "call", "func", "never", "dead", "assign", "compound", "selector"}).Draw(t, "pos")
	}
	return c
}

func TestIsolation(t *testing.T) {
	base := tempBase(t)
	rapid.Check(t, func(rt *rapid.T) {
		checkIso(rt, "TestIsolation", base, genIsoCase(rt))
	})
}
