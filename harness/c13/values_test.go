package c13

import (
	"fmt"
	"os"
	"path/filepath"
	"strings"
	"testing"

	"github.com/d5/tengo/v2"
	"pgregory.net/rapid"

	"verifharness/ev"
	"verifharness/tv"
)

// valCase: a value module "m" (exports Export, or nothing), a counter module
// "c", a module "st" with private state reachable through exported functions,
// and re-exporting modules "mid" (export import("m")) and "midc" (imports "c",
// bumps it once, exports it). Main runs Ops in one script; every FailOp runs
// in a script of its own because a run-time error ends the run.
type valCase struct {
	Layout  string   `json:"layout"` // map | files
	Export  *val     `json:"export,omitempty"`
	Style   int      `json:"style"`
	Start   int64    `json:"start"`
	N       int      `json:"n"`
	V       int64    `json:"v"`
	Ops     []string `json:"ops"`
	FailOps []string `json:"fail_ops"`
}

func (c *valCase) name(n string) string {
	if c.Layout == "files" {
		return "./" + n
	}
	return n
}

func (c *valCase) sources() map[string]string {
	m := "mv := 1\n"
	if c.Export != nil {
		switch c.Style {
		case 1:
			m += fmt.Sprintf("if mv > 0 { export %s }\nmv = 2\nexport \"not reached\"\n", c.Export.src())
		case 2:
			m += fmt.Sprintf("export %s\nmv = 3\nexport \"second export\"\n", c.Export.src())
		default:
			m += fmt.Sprintf("export %s\n", c.Export.src())
		}
	}
	return map[string]string{
		"m":    m,
		"c":    fmt.Sprintf("cnt := %d\nexport {inc: func() { cnt += 1; return cnt }, get: func() { return cnt }}\n", c.Start),
		"st":   "arr := [0, 0]\nexport {arr: arr, set: func(v) { arr[0] = v }, get: func() { return arr[0] }}\n",
		"mid":  fmt.Sprintf("x := import(%q)\nexport x\n", c.name("m")),
		"midc": fmt.Sprintf("k := import(%q)\nk.inc()\nexport k\n", c.name("c")),
	}
}

func ints(xs ...int64) tengo.Object {
	out := make([]tengo.Object, len(xs))
	for i, x := range xs {
		out[i] = &tengo.Int{Value: x}
	}
	return &tengo.Array{Value: out}
}

func boolObj(b bool) tengo.Object {
	if b {
		return tengo.TrueValue
	}
	return tengo.FalseValue
}

// childAccess returns the source suffix selecting child i of a container
// expression value and the child.
func childAccess(v *val, i int) (string, *val) {
	switch v.K {
	case "array", "immarray":
		return fmt.Sprintf("[%d]", i), v.Kids[i]
	case "map", "immmap":
		return "." + v.Keys[i], v.Kids[i]
	}
	return "", nil
}

func isContainer(v *val) bool {
	return v != nil && (v.K == "array" || v.K == "immarray" || v.K == "map" || v.K == "immmap")
}

// renderOps writes the script for the non-failing ops and the expected
// globals.
func (c *valCase) renderOps() (string, map[string]tengo.Object, []string) {
	var sb strings.Builder
	want := map[string]tengo.Object{}
	var used []string
	var E tengo.Object = tengo.UndefinedValue
	if c.Export != nil {
		E = exported(c.Export.obj())
	}
	S := c.Start
	for k, op := range c.Ops {
		r := fmt.Sprintf("r%d", k)
		switch op {
		case "read":
			fmt.Fprintf(&sb, "%s := import(%q)\n", r, c.name("m"))
			want[r] = E
		case "read-twice":
			fmt.Fprintf(&sb, "%s := [import(%q), import(%q)]\n", r, c.name("m"), c.name("m"))
			want[r] = &tengo.Array{Value: []tengo.Object{E, E}}
		case "via-mid":
			fmt.Fprintf(&sb, "%s := import(%q)\n", r, c.name("mid"))
			want[r] = E
		case "is-immutable":
			fmt.Fprintf(&sb, "x%d := import(%q)\n%s := [is_immutable_array(x%d), is_immutable_map(x%d), is_array(x%d), is_map(x%d)]\n", k, c.name("m"), r, k, k, k, k)
			arr := c.Export != nil && (c.Export.K == "array" || c.Export.K == "immarray")
			mp := c.Export != nil && (c.Export.K == "map" || c.Export.K == "immmap")
			want[r] = &tengo.Array{Value: []tengo.Object{boolObj(arr), boolObj(mp), tengo.FalseValue, tengo.FalseValue}}
		case "nested-read":
			if !isContainer(c.Export) || len(c.Export.Kids) == 0 {
				continue
			}
			i := (k + int(c.V)) % len(c.Export.Kids)
			acc, kid := childAccess(c.Export, i)
			fmt.Fprintf(&sb, "%s := import(%q)%s\n", r, c.name("m"), acc)
			want[r] = kid.obj()
		case "nested-mutate":
			// a mutable container nested in the export is mutable for the
			// importer ("nested values as exported"); the next evaluation of
			// the import expression yields the original again
			if !isContainer(c.Export) {
				continue
			}
			done := false
			for i, kid := range c.Export.Kids {
				acc, _ := childAccess(c.Export, i)
				var stmt string
				mod := kid.obj()
				switch x := mod.(type) {
				case *tengo.Array:
					if len(x.Value) == 0 {
						continue
					}
					stmt = "[0] = 99"
					x.Value[0] = &tengo.Int{Value: 99}
				case *tengo.Map:
					stmt = ".zz = 99"
					x.Value["zz"] = &tengo.Int{Value: 99}
				default:
					continue
				}
				fmt.Fprintf(&sb, "x%d := import(%q)\nx%d%s%s\n%s := x%d%s\ny%d := import(%q)\n%sb := y%d%s\n%sc := x%d%s\n",
					k, c.name("m"), k, acc, stmt, r, k, acc, k, c.name("m"), r, k, acc, r, k, acc)
				want[r] = mod
				want[r+"b"] = kid.obj()
				want[r+"c"] = mod
				done = true
				break
			}
			if !done {
				continue
			}
		case "call-func":
			if c.Export == nil || c.Export.K != "func" {
				continue
			}
			fmt.Fprintf(&sb, "%s := import(%q)(10)\n", r, c.name("m"))
			want[r] = &tengo.Int{Value: 10 + c.Export.I}
		case "counter-ab":
			fmt.Fprintf(&sb, "a%d := import(%q)\nb%d := import(%q)\n%s := [a%d.inc(), a%d.inc(), b%d.inc(), a%d.get(), b%d.get()]\n",
				k, c.name("c"), k, c.name("c"), r, k, k, k, k, k)
			want[r] = ints(S+1, S+2, S+1, S+2, S+1)
		case "counter-loop":
			fmt.Fprintf(&sb, "%s := []\nfor i%d := 0; i%d < %d; i%d++ { m%d := import(%q); m%d.inc(); %s = append(%s, m%d.inc()) }\n",
				r, k, k, c.N, k, k, c.name("c"), k, r, r, k)
			xs := make([]int64, c.N)
			for i := range xs {
				xs[i] = S + 2
			}
			want[r] = ints(xs...)
		case "counter-func":
			fmt.Fprintf(&sb, "mk%d := func() { return import(%q) }\na%d := mk%d()\nb%d := mk%d()\n%s := [a%d.inc(), b%d.inc(), b%d.inc(), a%d.inc()]\n",
				k, c.name("c"), k, k, k, k, r, k, k, k, k)
			want[r] = ints(S+1, S+1, S+2, S+2)
		case "counter-reassign":
			fmt.Fprintf(&sb, "z%d := import(%q)\nz%d.inc()\nz%d.inc()\nz%d = import(%q)\n%s := z%d.inc()\n", k, c.name("c"), k, k, k, c.name("c"), r, k)
			want[r] = &tengo.Int{Value: S + 1}
		case "counter-via-mid":
			fmt.Fprintf(&sb, "a%d := import(%q)\nb%d := import(%q)\n%s := [a%d.inc(), a%d.inc(), b%d.inc()]\n", k, c.name("midc"), k, c.name("midc"), r, k, k, k)
			want[r] = ints(S+2, S+3, S+2)
		case "state":
			fmt.Fprintf(&sb, "a%d := import(%q)\nb%d := import(%q)\na%d.set(%d)\n%s := [a%d.get(), a%d.arr[0], b%d.get(), b%d.arr[0]]\n",
				k, c.name("st"), k, c.name("st"), k, c.V, r, k, k, k, k)
			want[r] = ints(c.V, c.V, 0, 0)
		default:
			panic("renderOps: " + op)
		}
		used = append(used, op)
	}
	return sb.String(), want, used
}

// renderFail writes a script whose last statement tries to change the
// imported value and must fail at run time; x must still be the export.
func (c *valCase) renderFail(op string) (src string, check string, want tengo.Object, ok bool) {
	var E tengo.Object = tengo.UndefinedValue
	if c.Export != nil {
		E = exported(c.Export.obj())
	}
	pre := fmt.Sprintf("x := import(%q)\n", c.name("m"))
	switch op {
	case "set-index":
		return pre + "x[0] = 9\n", "x", E, true
	case "set-key":
		return pre + "x.a = 9\n", "x", E, true
	case "set-new-key":
		return pre + "x[\"zz\"] = 9\n", "x", E, true
	case "compound":
		return pre + "x[0] += 1\n", "x", E, true
	case "delete":
		if c.Export == nil || (c.Export.K != "map" && c.Export.K != "immmap") {
			return "", "", nil, false
		}
		return pre + "delete(x, \"a\")\n", "x", E, true
	case "nested-immutable":
		if !isContainer(c.Export) {
			return "", "", nil, false
		}
		for i, kid := range c.Export.Kids {
			acc, _ := childAccess(c.Export, i)
			switch kid.K {
			case "immarray":
				return pre + "x" + acc + "[0] = 9\n", "x", E, true
			case "immmap":
				return pre + "x" + acc + ".zz = 9\n", "x", E, true
			}
		}
		return "", "", nil, false
	case "counter-set":
		cm := &tengo.ImmutableMap{Value: map[string]tengo.Object{"inc": &tengo.CompiledFunction{}, "get": &tengo.CompiledFunction{}}}
		return fmt.Sprintf("x := import(%q)\nx.inc = 5\n", c.name("c")), "x", cm, true
	case "via-mid":
		return fmt.Sprintf("x := import(%q)\nx[0] = 9\n", c.name("mid")), "x", E, true
	}
	panic("renderFail: " + op)
}

func checkValues(t ev.TB, test, base string, c *valCase) {
	srcs := c.sources()
	mm := tengo.NewModuleMap()
	st := settings{}
	if c.Layout == "files" {
		dir, err := os.MkdirTemp(base, "v")
		if err != nil {
			t.Fatalf("harness: %v", err)
			return
		}
		defer os.RemoveAll(dir)
		st = settings{FileImport: true, Dir: dir}
		for _, n := range []string{"m", "c", "st", "mid", "midc"} {
			if err := writeFile(filepath.Join(dir, n+".tengo"), srcs[n]); err != nil {
				t.Fatalf("harness: %v", err)
				return
			}
		}
	} else {
		for _, n := range []string{"m", "c", "st", "mid", "midc"} {
			mm.AddSourceModule(n, []byte(srcs[n]))
		}
	}
	run := func(src string) (map[string]tengo.Object, error, bool) {
		o := compileScript(src, fixed(mm), st, nil)
		if o.timeout || o.pan != nil {
			ev.Fail(t, test, c, "compilation did not complete (timeout=%v panic=%v) for:\n%s", o.timeout, o.pan, src)
			return nil, nil, false
		}
		if o.err != nil {
			ev.Fail(t, test, c, "acyclic, well-scoped program failed to compile: %s\n%s", firstLine(o.err.Error()), src)
			return nil, nil, false
		}
		g, err := runCompiled(o.compiled)
		return g, err, true
	}

	src, want, used := c.renderOps()
	cls := []string{"V:case", "V:layout=" + c.Layout}
	if len(used) > 0 {
		globals, err, ok := run(src)
		if !ok {
			return
		}
		if err != nil {
			ev.Fail(t, test, c, "run failed: %s\n%s", firstLine(err.Error()), src)
			return
		}
		for k := range c.Ops {
			for _, suffix := range []string{"", "b", "c"} {
				name := fmt.Sprintf("r%d%s", k, suffix)
				w, ok := want[name]
				if !ok {
					continue
				}
				if !tv.Equal(globals[name], w) {
					ev.Fail(t, test, c, "op %s: %s is %s, expected %s\n%s", c.Ops[k], name, tv.Describe(globals[name]), tv.Describe(w), src)
					return
				}
			}
		}
		for _, u := range used {
			cls = append(cls, "V:op="+u)
		}
	}
	for _, op := range c.FailOps {
		fsrc, name, w, ok := c.renderFail(op)
		if !ok {
			continue
		}
		globals, err, ok := run(fsrc)
		if !ok {
			return
		}
		if err == nil {
			ev.Fail(t, test, c, "fail-op %s: changing the top level of an imported value succeeded (x is now %s)\n%s", op, tv.Describe(globals[name]), fsrc)
			return
		}
		if !tv.Equal(globals[name], w) {
			ev.Fail(t, test, c, "fail-op %s: after the failed assignment x is %s, the module exports %s\n%s", op, tv.Describe(globals[name]), tv.Describe(w), fsrc)
			return
		}
		cls = append(cls, "V:fail-op="+op)
	}
	kind := "none"
	if c.Export != nil {
		kind = c.Export.K
	}
	cls = append(cls, "V:export="+kind)
	ev.Case("V"+src+"\x00"+srcs["m"]+fmt.Sprint(c.FailOps, c.Start), false, cls...)
	if ev.WantSample() && len(used) >= 2 && isContainer(c.Export) && len(src) < 600 {
		ev.Sample(map[string]interface{}{"kind": "values", "module_m": srcs["m"], "module_c": srcs["c"], "main": src})
	}
}

var allOps = []string{"read", "read-twice", "via-mid", "is-immutable", "nested-read", "nested-mutate", "call-func",
	"counter-ab", "counter-loop", "counter-func", "counter-reassign", "counter-via-mid", "state"}
var allFailOps = []string{"set-index", "set-key", "set-new-key", "compound", "delete", "nested-immutable", "counter-set", "via-mid"}

func genValCase(t *rapid.T) *valCase {
	c := &valCase{
		Layout: rapid.SampledFrom([]string{"map", "map", "files"}).Draw(t, "layout"),
		Style:  rapid.SampledFrom([]int{0, 0, 1, 2}).Draw(t, "style"),
		Start:  int64(rapid.IntRange(-3, 20).Draw(t, "start")),
		N:      rapid.IntRange(1, 4).Draw(t, "n"),
		V:      int64(rapid.IntRange(1, 50).Draw(t, "v")),
	}
	if rapid.IntRange(0, 11).Draw(t, "noexport") != 0 {
		switch rapid.IntRange(0, 3).Draw(t, "top") {
		case 0:
			c.Export = genVal(t, 0)
		default:
			// a container, so that there is something to (try to) change
			for {
				c.Export = genVal(t, 2)
				if isContainer(c.Export) || rapid.IntRange(0, 3).Draw(t, "anyway") == 0 {
					break
				}
			}
		}
	}
	c.Ops = rapid.SliceOfN(rapid.SampledFrom(allOps), 1, 5).Draw(t, "ops")
	c.FailOps = rapid.SliceOfNDistinct(rapid.SampledFrom(allFailOps), 0, 3, func(s string) string { return s }).Draw(t, "failops")
	return c
}

func TestValues(t *testing.T) {
	base := tempBase(t)
	rapid.Check(t, func(rt *rapid.T) {
		checkValues(rt, "TestValues", base, genValCase(rt))
	})
}
