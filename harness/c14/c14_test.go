// C14 — run-time errors point at the statement that failed.
//
// Property (properties.jsonl): when a script fails at run time, the reported
// location lies within the source text of the innermost statement that was
// executing, and the trace that follows lists, innermost first, one location
// per active call, each within the statement containing that call; errors
// returned by host functions and the engine's sentinel errors stay
// recognisable through error unwrapping.
//
// Span rules (decided from the property text, generous where ambiguous):
//   - the failing statement is the innermost *statement* of the grammar that
//     textually contains the failing operation; its span is its whole source
//     text, from its first to its last byte (for if / for / for-in this
//     includes header and body: a failing header expression — init, condition,
//     post, iterable — belongs to that if / for statement, and so does the
//     condition of an `else if`);
//   - an operation inside a function literal's body belongs to the innermost
//     statement inside that body, not to the statement containing the literal;
//   - the statement "containing a call" is found the same way for the call
//     expression; an `import(...)` whose module body is still running is an
//     active call of that import expression;
//   - only "within the span, in the right file" is asserted, never an exact
//     line or column. Columns are byte counts (parser.SourceFilePos doc).
package c14

import (
	"bytes"
	"context"
	"errors"
	"fmt"
	"os"
	"path/filepath"
	"reflect"
	"regexp"
	"runtime"
	"runtime/debug"
	"sort"
	"strconv"
	"strings"
	"testing"
	"time"
	"unsafe"

	"github.com/d5/tengo/v2"
	"pgregory.net/rapid"

	"verifharness/ev"
)

func TestMain(m *testing.M) {
	// every run allocates a fresh VM (~80 KB of stack and frame arrays); the
	// live heap is tiny, so collect less often.
	debug.SetGCPercent(400)
	// one shard = one single-threaded rapid loop (+ the goroutine RunContext
	// starts); the driver runs a dozen shards side by side.
	if os.Getenv("GOMAXPROCS") == "" {
		runtime.GOMAXPROCS(2)
	}
	ev.Main(m, "C14")
}

// ---------- payload ----------

type spanT struct {
	File  string `json:"file"`
	Start int    `json:"start"` // byte offset, inclusive
	End   int    `json:"end"`   // byte offset, exclusive
	Text  string `json:"text"`  // echo of the statement (readability; the offsets are what is checked)
}

type traceItem struct {
	Span spanT `json:"span"`
	// Repeat 0: exactly one location. -1: (calls of host tick) - 1 locations
	// (frame-overflow template: one per active recursive call but the first);
	// (calls of host tick) locations when the failure lies in the payload's
	// Tick statement (the newest call had not been counted yet).
	Repeat int `json:"repeat,omitempty"`
}

type modSrc struct {
	Name string `json:"name"`
	Src  string `json:"src"`
}

type caseMeta struct {
	Group     string   `json:"group"`
	Op        string   `json:"op"`
	Depth     int      `json:"depth"`
	Scenario  string   `json:"scenario"`
	Modules   int      `json:"modules"`
	FailHome  string   `json:"fail_home"` // main | module
	DeadFail  bool     `json:"dead_before_fail"`
	DeadChain int      `json:"dead_in_chain"`
	CrossFile int      `json:"cross_file_calls"`
	FailLines int      `json:"fail_lines"`
	Features  []string `json:"features,omitempty"`
}

type casePayload struct {
	Main    string   `json:"main"`
	Modules []modSrc `json:"modules,omitempty"`
	// expectations
	Fail spanT `json:"fail"` // statement that must contain the first location
	// Tick: operand-stack overflow templates only. The recursing function
	// starts with the statement that calls the host counter; when the newest
	// call exhausts the operand stack already there (before the counter is
	// incremented), that statement is the innermost one executing: the first
	// location lies in Tick and the trace lists one location per counted call.
	Tick     *spanT      `json:"tick,omitempty"`
	Trace    []traceItem `json:"trace"` // statements of the active calls, innermost first
	Kind     string      `json:"kind"`
	MsgRe    string      `json:"msg_re"` // sanity: the intended operation is the one that failed
	Sentinel string      `json:"sentinel,omitempty"`
	Host     string      `json:"host,omitempty"`
	// limits
	MaxAllocs    int64    `json:"max_allocs,omitempty"`
	MaxStringLen int      `json:"max_string_len,omitempty"`
	MaxBytesLen  int      `json:"max_bytes_len,omitempty"`
	Meta         caseMeta `json:"meta"`

	lastModules *tengo.ModuleMap // module map of the latest compile() (for decoding the bytecode again)
}

// ---------- running ----------

func (p *casePayload) compile(ticks *int) (c *tengo.Compiled, err error) {
	defer func() {
		if r := recover(); r != nil {
			err = fmt.Errorf("compiler panicked: %v", r)
		}
	}()
	s := tengo.NewScript([]byte(p.Main))
	mm := tengo.NewModuleMap()
	for _, m := range p.Modules {
		mm.AddSourceModule(m.Name, []byte(m.Src))
	}
	hf := hostFuncs(ticks)
	mm.AddBuiltinModule("host", hf)
	p.lastModules = mm
	s.SetImports(mm)
	for _, n := range hostNames() {
		if err := s.Add("h"+n, hf[n]); err != nil {
			return nil, err
		}
	}
	if p.MaxAllocs > 0 {
		s.SetMaxAllocs(p.MaxAllocs)
	}
	return s.Compile()
}

const watchdog = 60 * time.Second

// outcome of one API call
type outcome struct {
	api      string
	err      error
	panicked interface{}
	ticks    int
	hung     bool
}

func (p *casePayload) run(api string) (o outcome, compileErr error) {
	o.api = api
	c, err := p.compile(&o.ticks)
	if err != nil {
		return o, err
	}
	if api == "RunContext" {
		ctx, cancel := context.WithTimeout(context.Background(), watchdog)
		defer cancel()
		o.err = c.RunContext(ctx)
		if o.err != nil && ctx.Err() != nil {
			o.hung = true
		}
		return o, nil
	}
	if api == "RunDecoded" {
		// the same program after a trip through Bytecode.Encode / Decode (as
		// compiled files take): locations and traces must survive it
		f := reflect.ValueOf(c).Elem().FieldByName("bytecode")
		if !f.IsValid() || f.Type() != reflect.TypeOf((*tengo.Bytecode)(nil)) {
			return o, fmt.Errorf("cannot reach Compiled.bytecode (field renamed?)")
		}
		bc := (*tengo.Bytecode)(unsafe.Pointer(f.Pointer()))
		var buf bytes.Buffer
		if err := bc.Encode(&buf); err != nil {
			return o, fmt.Errorf("encode: %w", err)
		}
		dec := &tengo.Bytecode{}
		if err := dec.Decode(bytes.NewReader(buf.Bytes()), p.lastModules); err != nil {
			return o, fmt.Errorf("decode: %w", err)
		}
		*bc = *dec
	}
	func() {
		defer func() {
			if r := recover(); r != nil {
				o.panicked = r
			}
		}()
		o.err = c.Run()
	}()
	return o, nil
}

// ---------- oracle ----------

var locRe = regexp.MustCompile(`^(.+):(\d+):(\d+)$`)

type lineTable struct {
	starts []int
	size   int
}

func newLineTable(src string) lineTable {
	lt := lineTable{starts: []int{0}, size: len(src)}
	for i := 0; i < len(src); i++ {
		if src[i] == '\n' {
			lt.starts = append(lt.starts, i+1)
		}
	}
	return lt
}

// offset of line:col (1-based, col in bytes); -1 when there is no such place.
func (lt lineTable) offset(line, col int) int {
	if line < 1 || line > len(lt.starts) || col < 1 {
		return -1
	}
	end := lt.size
	if line < len(lt.starts) {
		end = lt.starts[line]
	}
	off := lt.starts[line-1] + col - 1
	if off > end {
		return -1
	}
	return off
}

func (lt lineTable) pos(off int) string {
	i := sort.Search(len(lt.starts), func(i int) bool { return lt.starts[i] > off }) - 1
	return fmt.Sprintf("%d:%d", i+1, off-lt.starts[i]+1)
}

func (p *casePayload) tables() map[string]lineTable {
	t := map[string]lineTable{"(main)": newLineTable(p.Main)}
	for _, m := range p.Modules {
		t[m.Name] = newLineTable(m.Src)
	}
	return t
}

func describe(s spanT, lt map[string]lineTable) string {
	return fmt.Sprintf("%s:%s..%s %q", s.File, lt[s.File].pos(s.Start), lt[s.File].pos(s.End), clip(s.Text, 120))
}

func clip(s string, n int) string {
	if len(s) > n {
		return s[:n] + "…"
	}
	return s
}

func within(loc string, s spanT, lt map[string]lineTable) string {
	m := locRe.FindStringSubmatch(loc)
	if m == nil {
		return fmt.Sprintf("location %q is not of the form file:line:column", loc)
	}
	if m[1] != s.File {
		return fmt.Sprintf("location %s is in file %q, the statement is in %q", loc, m[1], s.File)
	}
	line, _ := strconv.Atoi(m[2])
	col, _ := strconv.Atoi(m[3])
	off := lt[s.File].offset(line, col)
	if off < 0 {
		return fmt.Sprintf("location %s does not exist in %q", loc, s.File)
	}
	if off < s.Start || off >= s.End {
		return fmt.Sprintf("location %s lies outside the statement", loc)
	}
	return ""
}

// verdict checks one API outcome; "" = property holds.
func (p *casePayload) verdict(o outcome) string {
	if o.hung {
		return fmt.Sprintf("%s did not return within %v", o.api, watchdog)
	}
	if o.panicked != nil {
		return fmt.Sprintf("Go panic escaped Compiled.%s (the host is taken down; no location, no trace): %v", o.api, o.panicked)
	}
	if o.err == nil {
		return fmt.Sprintf("%s returned nil: the %s operation was expected to fail (generator expectation)", o.api, p.Kind)
	}
	text := o.err.Error()
	parts := strings.Split(text, "\n\tat ")
	head, locs := parts[0], parts[1:]
	if len(locs) == 0 {
		return fmt.Sprintf("%s: error carries no location and no trace: %q", o.api, clip(text, 300))
	}
	msg := strings.TrimPrefix(head, "Runtime Error: ")
	if ok, _ := regexp.MatchString(p.MsgRe, msg); !ok {
		return fmt.Sprintf("%s: a different operation failed: message %q does not match %s (first location %s)", o.api, clip(msg, 200), p.MsgRe, locs[0])
	}
	lt := p.tables()
	inTick := false
	if r := within(locs[0], p.Fail, lt); r != "" {
		if p.Tick == nil || within(locs[0], *p.Tick, lt) != "" {
			return fmt.Sprintf("%s: %s: failing statement is %s", o.api, r, describe(p.Fail, lt))
		}
		inTick = true // the newest recursive call failed before it was counted
	}
	if p.Tick != nil && o.api == "Run" {
		if inTick {
			ev.Class("operand-stack-overflow:in-counter-statement-of-newest-call")
		} else {
			ev.Class("operand-stack-overflow:in-recursing-statement")
		}
	}
	var want []spanT
	for _, it := range p.Trace {
		n := 1
		if it.Repeat == -1 {
			n = o.ticks - 1
			if inTick {
				n = o.ticks
			}
			if n < 1 {
				return fmt.Sprintf("%s: frame-overflow template made %d recursive calls", o.api, o.ticks)
			}
		}
		for i := 0; i < n; i++ {
			want = append(want, it.Span)
		}
	}
	if len(locs)-1 != len(want) {
		return fmt.Sprintf("%s: trace lists %d locations, %d calls were active: %q", o.api, len(locs)-1, len(want), clip(text, 600))
	}
	for i, w := range want {
		if r := within(locs[i+1], w, lt); r != "" {
			return fmt.Sprintf("%s: trace entry %d of %d: %s: the statement containing that call is %s; trace: %q", o.api, i+1, len(want), r, describe(w, lt), clip(text, 600))
		}
	}
	if p.Sentinel != "" {
		s, ok := sentinels[p.Sentinel]
		if !ok {
			return "unknown sentinel in payload: " + p.Sentinel
		}
		if !errors.Is(o.err, s) {
			return fmt.Sprintf("%s: errors.Is(err, tengo.%s) is false for %q", o.api, p.Sentinel, clip(text, 200))
		}
	}
	if p.Host != "" {
		kind, arg, _ := strings.Cut(p.Host, ":")
		code, _ := strconv.ParseInt(arg, 10, 64)
		switch kind {
		case "ptr", "wrapped":
			var he *hostErr
			if !errors.As(o.err, &he) || he.Code != code {
				return fmt.Sprintf("%s: errors.As(err, **hostErr) does not recover the host function's error (code %d) from %q", o.api, code, clip(text, 200))
			}
		case "val":
			var he hostErrV
			if !errors.As(o.err, &he) || he.Code != code {
				return fmt.Sprintf("%s: errors.As(err, *hostErrV) does not recover the host function's error (code %d) from %q", o.api, code, clip(text, 200))
			}
		case "sentinel":
			if !errors.Is(o.err, errHostSentinel) {
				return fmt.Sprintf("%s: errors.Is(err, host sentinel) is false for %q", o.api, clip(text, 200))
			}
		default:
			return "unknown host check in payload: " + p.Host
		}
	}
	return ""
}

// checkEach runs the program through RunContext and Run (a fresh compilation
// each) and returns the violated clause per API ("" = holds). infra reports a
// program that could not be compiled (generator trouble, never a verdict).
func (p *casePayload) checkEach() (violations []string, infra string) {
	if p.MaxStringLen > 0 {
		old := tengo.MaxStringLen
		tengo.MaxStringLen = p.MaxStringLen
		defer func() { tengo.MaxStringLen = old }()
	}
	if p.MaxBytesLen > 0 {
		old := tengo.MaxBytesLen
		tengo.MaxBytesLen = p.MaxBytesLen
		defer func() { tengo.MaxBytesLen = old }()
	}
	for _, api := range []string{"RunContext", "Run", "RunDecoded"} {
		o, cerr := p.run(api)
		if cerr != nil {
			return nil, fmt.Sprintf("generated program does not compile: %v", cerr)
		}
		violations = append(violations, p.verdict(o))
		if o.hung {
			break // Run has no way to be interrupted
		}
	}
	return violations, ""
}

// check returns the first violated clause ("" = the property holds).
func (p *casePayload) check() (violation string, infra string) {
	vs, infra := p.checkEach()
	for _, v := range vs {
		if v != "" {
			return v, infra
		}
	}
	return "", infra
}

func (p *casePayload) key() string {
	var sb strings.Builder
	sb.WriteString(p.Main)
	for _, m := range p.Modules {
		sb.WriteString("\x00" + m.Name + "\x00" + m.Src)
	}
	return sb.String()
}

func depthBucket(d int) string {
	switch {
	case d <= 1:
		return strconv.Itoa(d)
	case d <= 3:
		return "2-3"
	}
	return "4-6"
}

func b2s(b bool) string {
	if b {
		return "1"
	}
	return "0"
}

func (p *casePayload) record() {
	m := p.Meta
	nontrivial := m.Depth >= 1 && (m.FailLines >= 2 || m.DeadFail)
	cls := []string{
		"kind:" + m.Group,
		"depth:" + strconv.Itoa(m.Depth),
		"fail-in:" + m.FailHome,
		"scenario:" + m.Scenario,
		"dead-before-fail:" + b2s(m.DeadFail),
		"dead-in-chain-functions:" + strconv.Itoa(m.DeadChain),
		"fail-stmt-multiline:" + b2s(m.FailLines >= 2),
		"cross-file-calls:" + strconv.Itoa(m.CrossFile),
		"joint:" + m.Group + "|d=" + depthBucket(m.Depth) + "|" + m.FailHome + "|dead=" + b2s(m.DeadFail),
	}
	for _, f := range m.Features {
		cls = append(cls, "shape:"+f)
	}
	ev.Case(p.key(), nontrivial, cls...)
	if nontrivial && m.Depth >= 2 && m.Depth <= 3 && len(p.Main) < 1500 && ev.WantSample() {
		ev.Sample(map[string]interface{}{"kind": p.Kind, "main": p.Main, "modules": p.Modules,
			"failing_statement": p.Fail.Text, "trace_statements": len(p.Trace)})
	}
}

func evaluate(t ev.TB, test string, p *casePayload) {
	v, infra := p.check()
	if infra != "" {
		ev.Fail(t, test, p, "GENERATOR: %s", infra)
		return
	}
	if v != "" {
		ev.Fail(t, test, p, "%s", v)
		return
	}
	p.record()
}

func property(test, mode string) func(t *rapid.T) {
	return func(t *rapid.T) {
		p, discard := genCase(t, mode, nil)
		if discard != "" {
			ev.Discard(discard)
			return
		}
		evaluate(t, test, p)
	}
}

// ---------- tests ----------

// TestErrorLocations: every failure kind that needs no process-wide limit.
func TestErrorLocations(t *testing.T) {
	rapid.Check(t, property("TestErrorLocations", "general"))
}

// TestLimitLocations: string / bytes limit errors. tengo.MaxStringLen and
// MaxBytesLen are process-wide; the driver runs this test in its own process
// and check() restores them after every case.
func TestLimitLocations(t *testing.T) {
	rapid.Check(t, property("TestLimitLocations", "limits"))
}

// TestOverflowLocations: frame overflow by deep non-tail recursion (traces of
// about MaxFrames lines).
func TestOverflowLocations(t *testing.T) {
	rapid.Check(t, property("TestOverflowLocations", "overflow"))
}

// TestEveryOperation puts every entry of the operation table (each failure
// kind, each type pair) through the oracle at least once per run, in a
// program shape drawn by rapid from a seed derived from VERIF_SEED.
func TestEveryOperation(t *testing.T) {
	base := int(ev.Seed()%1000) * 100003
	stride := 16 // quick tier: every 16th type pair of the two binary-operator groups, offset by the seed
	if ev.Thorough() {
		stride = 1
	}
	for i := range allOps {
		op := allOps[i]
		if (op.Group == "binop" || op.Group == "binop-assign") && (i+int(ev.Seed()))%stride != 0 {
			continue
		}
		if op.Finding != "" && openFindings[op.Finding] {
			ev.Discard("known:" + op.Finding)
			continue
		}
		p := rapid.Custom(func(rt *rapid.T) *casePayload {
			p, _ := genCase(rt, "", &op)
			return p
		}).Example(base + i)
		evaluate(t, "TestEveryOperation", p)
		ev.Class("every-operation:" + op.Group)
	}
}

// ---------- replay, regressions, known findings ----------

func loadPayload(path string) (*casePayload, string, error) {
	var p casePayload
	test, err := ev.LoadReplay(path, &p)
	return &p, test, err
}

func TestReplay(t *testing.T) {
	path := os.Getenv("VERIF_REPLAY")
	if path == "" {
		t.Skip("no VERIF_REPLAY")
	}
	p, test, err := loadPayload(path)
	if err != nil {
		t.Fatalf("load %s: %v", path, err)
	}
	v, infra := p.check()
	if infra != "" {
		t.Fatalf("%s", infra)
	}
	if v != "" {
		ev.Fail(t, test, p, "%s", v)
	}
}

func replayDir(kind string) []string {
	root := os.Getenv("VERIF_ROOT")
	if root == "" {
		root = "/verif"
	}
	files, _ := filepath.Glob(filepath.Join(root, "replays", "C14", kind, "*.json"))
	sort.Strings(files)
	return files
}

// TestRegressions: committed replays of repaired defects must pass.
func TestRegressions(t *testing.T) {
	for _, f := range replayDir("fixed") {
		f := f
		t.Run(filepath.Base(f), func(t *testing.T) {
			p, test, err := loadPayload(f)
			if err != nil {
				t.Fatalf("load %s: %v", f, err)
			}
			v, infra := p.check()
			if infra != "" {
				t.Fatalf("%s", infra)
			}
			if v != "" {
				ev.Fail(t, test, p, "%s", v)
			}
		})
		ev.Note("regression replays run")
	}
}

// TestKnownFindings re-runs the committed reproducer of every open finding
// through the same oracle. While it still fails the finding is reported as
// KNOWN-FINDING (exit 0); once it passes only a note is left, and the switch
// in openFindings should be turned off and the replay moved to fixed/.
func TestKnownFindings(t *testing.T) {
	seen := map[string]bool{}
	for _, f := range replayDir("open") {
		id := strings.SplitN(filepath.Base(f), "--", 2)[0]
		p, _, err := loadPayload(f)
		if err != nil {
			t.Fatalf("load %s: %v", f, err)
		}
		seen[id] = true
		vs, infra := p.checkEach()
		if infra != "" {
			t.Fatalf("%s: %s", f, infra)
		}
		failed := false
		for _, v := range vs {
			if v != "" {
				failed = true
				ev.Known(id, fmt.Sprintf("[%s] %s", strings.TrimSuffix(filepath.Base(f), ".json"), clip(v, 170)))
			}
		}
		if !failed {
			ev.Note("open finding no longer reproduces: " + filepath.Base(f))
		}
	}
	for id, on := range openFindings {
		if on && !seen[id] {
			t.Fatalf("open finding %s has no replay under replays/C14/open", id)
		}
	}
}
