// C14 — minimal reproducers of the findings (see FINDINGS.md). Both findings
// are repaired in /repo (F17: 342098c, operand-stack overflow: 8f34add), so
// the committed replays live under /verif/replays/C14/fixed/ (TestRegressions:
// must pass). They are produced from the table below by
//
//	C14_WRITE_REPLAYS=/verif/replays/C14/fixed go test -tags verif -run TestWriteReplays ./c14
//
// (for a finding that is still open: the directory replays/C14/open; the
// writer then insists that the reproducer fails on the tree under test).
package c14

import (
	"encoding/json"
	"os"
	"path/filepath"
	"strings"
	"testing"
)

type reproducer struct {
	finding, name, test string
	main                string // with « » around the failing statement, ‹i … › around the statement of call i (innermost = 0), ⟦ ⟧ around the counter statement of an overflow template
	p                   casePayload
	overflow            bool
}

var reproducers = []reproducer{
	{finding: findingDivZero, name: "quo-in-function", test: "TestErrorLocations",
		main: "f := func(x) {\n\t«return x / 0»\n}\n‹0f(1)›\n",
		p:    casePayload{Kind: "div-zero:/0", MsgRe: "^integer division by zero$", Sentinel: "ErrDivisionByZero", Meta: caseMeta{Group: "div-zero", Depth: 1, Scenario: "main", FailHome: "main", FailLines: 1}}},
	{finding: findingDivZero, name: "rem-top-level", test: "TestErrorLocations",
		main: "x := 7\n«y := x %\n\t0»\n",
		p:    casePayload{Kind: "div-zero:%0", MsgRe: "^integer division by zero$", Sentinel: "ErrDivisionByZero", Meta: caseMeta{Group: "div-zero", Depth: 0, Scenario: "main", FailHome: "main", FailLines: 2}}},
	{finding: findingOpStack, name: "one-parameter-recursion", test: "TestOverflowLocations", overflow: true,
		main: "f := func(n) {\n\t⟦htick()⟧\n\t«return 1 + f(n + 1)»\n}\n‹0f(1)›\n",
		p:    casePayload{Kind: "frame-overflow-wide:0", MsgRe: "^stack overflow$", Sentinel: "ErrStackOverflow", Meta: caseMeta{Group: "frame-overflow-wide", Depth: 0, Scenario: "main", FailHome: "main", FailLines: 1}}},
	// the operand stack runs out in the counter statement of the newest call
	// (3 slots per frame, the argument is the last push of the caller)
	{finding: findingOpStack, name: "overflow-in-first-statement-of-newest-call", test: "TestOverflowLocations", overflow: true,
		main: "f := func(n) {\n\t⟦htick()⟧\n\t«return [1,\n\t\tf(n)]»\n}\n‹0f(1)›\n",
		p:    casePayload{Kind: "frame-overflow-wide:1", MsgRe: "^stack overflow$", Sentinel: "ErrStackOverflow", Meta: caseMeta{Group: "frame-overflow-wide", Depth: 0, Scenario: "main", FailHome: "main", FailLines: 2}}},
}

func (r reproducer) payload() *casePayload {
	src := r.main
	src = replaceAll(src, "«", "\x00S900;", "»", "\x00E900;", "‹0", "\x00S0;", "›", "\x00E0;", "⟦", "\x00S901;", "⟧", "\x00E901;")
	text, spans, err := strip("(main)", src)
	if err != nil {
		panic(err)
	}
	p := r.p
	p.Main = text
	p.Fail = spans[900]
	if s, ok := spans[901]; ok {
		p.Tick = &s
	}
	if r.overflow {
		p.Trace = append(p.Trace, traceItem{Span: spans[900], Repeat: -1})
	}
	if s, ok := spans[0]; ok {
		p.Trace = append(p.Trace, traceItem{Span: s})
	}
	return &p
}

func replaceAll(s string, pairs ...string) string {
	for i := 0; i+1 < len(pairs); i += 2 {
		s = strings.ReplaceAll(s, pairs[i], pairs[i+1])
	}
	return s
}

func TestWriteReplays(t *testing.T) {
	dir := os.Getenv("C14_WRITE_REPLAYS")
	if dir == "" {
		t.Skip("C14_WRITE_REPLAYS not set")
	}
	open := filepath.Base(dir) == "open"
	for _, r := range reproducers {
		p := r.payload()
		vs, infra := p.checkEach()
		if infra != "" {
			t.Fatalf("%s: %s", r.name, infra)
		}
		msg := ""
		for _, v := range vs {
			if v != "" {
				if msg != "" {
					msg += " | "
				}
				msg += v
			}
		}
		if open != (msg != "") {
			t.Errorf("%s--%s: fails on this tree: %v (writing to %s)", r.finding, r.name, msg != "", dir)
			continue
		}
		if msg == "" {
			msg = "(repaired in /repo; regression replay) " + r.finding
		}
		b, _ := json.MarshalIndent(map[string]interface{}{"property": "C14", "test": r.test, "message": msg, "payload": p}, "", " ")
		if err := os.WriteFile(filepath.Join(dir, r.finding+"--"+r.name+".json"), append(b, '\n'), 0o644); err != nil {
			t.Fatal(err)
		}
	}
}
