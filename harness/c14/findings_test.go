// C14 — minimal reproducers of the open findings (see FINDINGS.md). The
// committed replays under /verif/replays/C14/open/ are produced from these by
//
//	C14_WRITE_OPEN=/verif/replays/C14/open go test -tags verif -run TestWriteOpenReplays ./c14
package c14

import (
	"encoding/json"
	"os"
	"path/filepath"
	"strings"
	"testing"
)

type reproducer struct {
	finding, name, test string
	main                string // with « » around the failing statement and ‹i … › around the statement of call i (innermost = 0)
	p                   casePayload
	overflow            bool
}

var reproducers = []reproducer{
	{finding: findingDivZero, name: "quo-in-function", test: "TestErrorLocations",
		main: "f := func(x) {\n\t«return x / 0»\n}\n‹0f(1)›\n",
		p:    casePayload{Kind: "div-zero:/0", MsgRe: "(?i)divi[ds]", Meta: caseMeta{Group: "div-zero", Depth: 1, Scenario: "main", FailHome: "main", FailLines: 1}}},
	{finding: findingDivZero, name: "rem-top-level", test: "TestErrorLocations",
		main: "x := 7\n«y := x %\n\t0»\n",
		p:    casePayload{Kind: "div-zero:%0", MsgRe: "(?i)divi[ds]", Meta: caseMeta{Group: "div-zero", Depth: 0, Scenario: "main", FailHome: "main", FailLines: 2}}},
	{finding: findingOpStack, name: "one-parameter-recursion", test: "TestOverflowLocations", overflow: true,
		main: "f := func(n) {\n\thtick()\n\t«return 1 + f(n + 1)»\n}\n‹0f(1)›\n",
		p:    casePayload{Kind: "frame-overflow-wide:0", MsgRe: "(?i)overflow", Sentinel: "ErrStackOverflow", Meta: caseMeta{Group: "frame-overflow-wide", Depth: 0, Scenario: "main", FailHome: "main", FailLines: 1}}},
}

func (r reproducer) payload() *casePayload {
	src := r.main
	src = replaceAll(src, "«", "\x00S900;", "»", "\x00E900;", "‹0", "\x00S0;", "›", "\x00E0;")
	text, spans, err := strip("(main)", src)
	if err != nil {
		panic(err)
	}
	p := r.p
	p.Main = text
	p.Fail = spans[900]
	if r.overflow {
		p.Trace = append(p.Trace, traceItem{Span: spans[900], Repeat: -1})
	}
	if s, ok := spans[0]; ok {
		p.Trace = append(p.Trace, traceItem{Span: s})
	}
	return &p
}

func replaceAll(s string, pairs ...string) string {
	for i := 0; i+1 < len(pairs); i += 2 {
		s = strings.ReplaceAll(s, pairs[i], pairs[i+1])
	}
	return s
}

func TestWriteOpenReplays(t *testing.T) {
	dir := os.Getenv("C14_WRITE_OPEN")
	if dir == "" {
		t.Skip("C14_WRITE_OPEN not set")
	}
	for _, r := range reproducers {
		p := r.payload()
		vs, infra := p.checkEach()
		if infra != "" {
			t.Fatalf("%s: %s", r.name, infra)
		}
		msg := ""
		for _, v := range vs {
			if v != "" {
				if msg != "" {
					msg += " | "
				}
				msg += v
			}
		}
		if msg == "" {
			t.Errorf("%s--%s does not fail on this tree", r.finding, r.name)
			continue
		}
		b, _ := json.MarshalIndent(map[string]interface{}{"property": "C14", "test": r.test, "message": msg, "payload": p}, "", " ")
		if err := os.WriteFile(filepath.Join(dir, r.finding+"--"+r.name+".json"), append(b, '\n'), 0o644); err != nil {
			t.Fatal(err)
		}
	}
}
