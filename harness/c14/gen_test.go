// C14 — program generator. It renders the source text itself, so it knows
// the byte span of every statement that matters (the failing statement and
// the statement containing each active call).
package c14

import (
	"fmt"
	"math/bits"
	"regexp"
	"sort"
	"strconv"
	"strings"

	"pgregory.net/rapid"
)

// ---------- span markers ----------
//
// While a program is being composed the statements of interest are wrapped
// in "\x00S<id>;" … "\x00E<id>;". strip removes the markers from the final
// text and returns the byte spans.
//
//	id 0..d   statement at call level i (level d = the failing statement,
//	          level i<d = the statement containing the call of level i+1)
//	id 100+j  statement containing the j-th import that is still running
//	id 200    the recursing statement of the frame-overflow template
//	id 201    the statement calling the host counter in the recursing function
//	          of the operand-stack overflow templates (⟦ ⟧ in the operation table)
const (
	idImport  = 100
	idRecurse = 200
	idTick    = 201
)

func mark(id int, s string) string { return fmt.Sprintf("\x00S%d;%s\x00E%d;", id, s, id) }

func strip(file, src string) (string, map[int]spanT, error) {
	var out strings.Builder
	spans := map[int]spanT{}
	open := map[int]int{}
	for i := 0; i < len(src); {
		if src[i] != 0 {
			out.WriteByte(src[i])
			i++
			continue
		}
		j := strings.IndexByte(src[i:], ';')
		if j < 3 {
			return "", nil, fmt.Errorf("bad marker at %d", i)
		}
		id, err := strconv.Atoi(src[i+2 : i+j])
		if err != nil {
			return "", nil, err
		}
		switch src[i+1] {
		case 'S':
			if _, dup := open[id]; dup {
				return "", nil, fmt.Errorf("marker %d opened twice", id)
			}
			if _, dup := spans[id]; dup {
				return "", nil, fmt.Errorf("marker %d used twice", id)
			}
			open[id] = out.Len()
		case 'E':
			st, ok := open[id]
			if !ok {
				return "", nil, fmt.Errorf("marker %d closed but not open", id)
			}
			delete(open, id)
			spans[id] = spanT{File: file, Start: st, End: out.Len()}
		default:
			return "", nil, fmt.Errorf("bad marker kind at %d", i)
		}
		i += j + 1
	}
	if len(open) > 0 {
		return "", nil, fmt.Errorf("unclosed markers %v", open)
	}
	text := out.String()
	for id, s := range spans {
		s.Text = text[s.Start:s.End]
		spans[id] = s
	}
	return text, spans, nil
}

func indent(s, pre string) string { return pre + strings.ReplaceAll(s, "\n", "\n"+pre) }

// subst puts x in place of § ; continuation lines of x get the indentation
// of the line § stands on.
func subst(tmpl, x string) string {
	i := strings.Index(tmpl, "§")
	if i < 0 {
		panic("context without §: " + tmpl)
	}
	ls := strings.LastIndexByte(tmpl[:i], '\n') + 1
	k := ls
	for k < i && tmpl[k] == '\t' {
		k++
	}
	return tmpl[:i] + strings.ReplaceAll(x, "\n", "\n"+tmpl[ls:k]) + tmpl[i+len("§"):]
}

func simple(s string) bool {
	return !strings.Contains(s, "\n") && !strings.Contains(s, "//") && !strings.Contains(s, "/*")
}

// ---------- statement contexts for an expression ----------

type ctxT struct {
	name     string
	pre      []string // statements that must precede (not part of the span)
	tmpl     string
	funcOnly bool
	notTiny  bool
}

const gfn = "$g := func(...p) { return len(p) }"

var contexts = []ctxT{
	{name: "define", tmpl: "$n := §"},
	{name: "array-elem", tmpl: "$n := [1,\n\t§,\n\t3]"},
	{name: "array-elem-nl", tmpl: "$n := [\n\t1,\n\t§\n]"},
	{name: "call-arg", pre: []string{gfn}, tmpl: "$g(1,\n\t§)"},
	{name: "call-arg-nl", pre: []string{gfn}, tmpl: "$n := $g(\n\t§,\n\t2\n)"},
	{name: "builtin-arg", tmpl: "$n := len([\n\t§])"},
	{name: "nested-call-arg", pre: []string{gfn}, tmpl: "$n := $g($g(§),\n\t2)"},
	{name: "if-and", pre: []string{"$a := 1"}, tmpl: "if $a > 0 &&\n\t§ {\n\t$n := 1\n}"},
	{name: "if-cond", tmpl: "if § {\n\t$n := 1\n} else {\n\t$n := 2\n}"},
	{name: "if-init", pre: []string{"$a := 1"}, tmpl: "if $n := §; $n {\n\t$a += 1\n}"},
	{name: "else-if", pre: []string{"$a := 1"}, tmpl: "if $a < 0 {\n\t$n := 1\n} else if § {\n\t$n := 2\n}"},
	{name: "ternary-true", pre: []string{"$a := 1"}, tmpl: "$n := $a > 0 ?\n\t§ :\n\t0"},
	{name: "ternary-false", pre: []string{"$a := 1"}, tmpl: "$n := $a < 0 ? 0 :\n\t§"},
	{name: "ternary-cond", tmpl: "$n := § ?\n\t1 :\n\t2"},
	{name: "forin-elem", pre: []string{"$a := 1"}, tmpl: "for $e in [1,\n\t§] {\n\t$a += 1\n}"},
	{name: "forin-iterable", pre: []string{"$a := 1"}, tmpl: "for $k, $e in § {\n\t$a += 1\n}"},
	{name: "for-cond", pre: []string{"$a := 1"}, tmpl: "for $i := 0; $i <\n\t§; $i++ {\n\t$a += 1\n}"},
	{name: "for-post", pre: []string{"$a := 1"}, tmpl: "for $i := 0; $i < 2; $i +=\n\t§ {\n\t$a += 1\n}"},
	{name: "for-init", pre: []string{"$a := 1"}, tmpl: "for $i :=\n\t§; $i < 2; $i++ {\n\t$a += 1\n}"},
	{name: "for-cond-only", tmpl: "for § {\n\tbreak\n}"},
	{name: "compound-assign", pre: []string{"$a := 1"}, tmpl: "$a +=\n\t§"},
	{name: "compound-assign-mul", pre: []string{"$a := 1"}, tmpl: "$a *= §"},
	{name: "assign", pre: []string{"$a := 1"}, tmpl: "$a = §"},
	{name: "map-value", tmpl: "$n := {a: 1,\n\tb: §}"},
	{name: "map-value-nl", tmpl: "$n := {\n\ta: 1,\n\tb: §\n}"},
	{name: "index-expr", pre: []string{"$r := [1, 2, 3]"}, tmpl: "$r[§] = 1"},
	{name: "index-rhs", pre: []string{"$r := [1, 2, 3]"}, tmpl: "$r[0] =\n\t§"},
	{name: "selector-rhs", pre: []string{"$m := {a: {b: 1}}"}, tmpl: "$m.a.b = §"},
	{name: "expr-stmt", tmpl: "§"},
	{name: "paren", tmpl: "$n := (\n\t§)"},
	{name: "arith", tmpl: "$n := 1 +\n\t§ *\n\t2"},
	{name: "error-expr", tmpl: "$n := error(\n\t§)"},
	{name: "immutable-expr", tmpl: "$n := immutable([\n\t§])"},
	{name: "slice-bound", pre: []string{"$r := [1, 2, 3]"}, tmpl: "$n := $r[§:\n\t2]"},
	{name: "index-read", pre: []string{"$r := [1, 2, 3]"}, tmpl: "$n := $r[\n\t§]"},
	{name: "selector-of", tmpl: "$n := [§][0]"},
	{name: "not", tmpl: "$n := !§"},
	{name: "or-rhs", pre: []string{"$a := 1"}, tmpl: "$n := $a < 0 ||\n\t§"},
	{name: "and-rhs", pre: []string{"$a := 1"}, tmpl: "$n := $a > 0 && §"},
	{name: "spread-arg", pre: []string{gfn}, tmpl: "$n := $g(1, [2,\n\t§]...)"},
	{name: "funclit-arg", tmpl: "$n := func($y) {\n\treturn $y\n}(§)"},
	{name: "after-multibyte", tmpl: "$n := [\"é日本\", §]"},
	{name: "after-rawstring", tmpl: "$n := [`r\naw`, §]", notTiny: true},
	{name: "comments", tmpl: "$n := /* c\nc */ § // note"},
	{name: "return", tmpl: "return §", funcOnly: true},
	{name: "return-array", tmpl: "return [§,\n\t1]", funcOnly: true},
	{name: "return-arith", tmpl: "return 1 +\n\t§", funcOnly: true},
}

// ---------- generator state ----------

type gen struct {
	t    *rapid.T
	seq  int
	tiny bool // string/bytes limits are small: keep every string tiny
	feat map[string]bool
}

// intn draws uniformly from lo..hi. rapid's own integer and SampledFrom
// generators favour small values and the range ends (the first groups of the
// operation table would get three times the cases of the others), so the
// choice is assembled from unbiased bits; all-false shrinks to lo.
func (g *gen) intn(label string, lo, hi int) int {
	n := hi - lo + 1
	if n <= 1 {
		return lo
	}
	k := bits.Len(uint(n-1)) + 7
	x := 0
	for _, b := range rapid.SliceOfN(rapid.Bool(), k, k).Draw(g.t, label) {
		x <<= 1
		if b {
			x |= 1
		}
	}
	return lo + x%n
}
func (g *gen) chance(label string, pct int) bool { return g.intn(label, 0, 99) < pct }
func (g *gen) name(p string) string              { g.seq++; return fmt.Sprintf("%s_%d", p, g.seq) }

var phRe = regexp.MustCompile(`\$[a-z]+`)

// fresh replaces every $name of s by an identifier: the one given in names or
// a new unique one (remembered in names).
func (g *gen) fresh(s string, names map[string]string) string {
	return phRe.ReplaceAllStringFunc(s, func(m string) string {
		k := m[1:]
		if v, ok := names[k]; ok {
			return v
		}
		v := g.name(k[:1])
		names[k] = v
		return v
	})
}

type scope struct {
	inFunc bool // parameters v, t exist; return allowed
	modTop bool // top level of a module file
	isMain bool // file is the main script
	ints   []string
}

func (s *scope) child() *scope {
	c := *s
	c.ints = append([]string(nil), s.ints...)
	return &c
}

func (g *gen) join(stmts []string) string {
	var sb strings.Builder
	for i, s := range stmts {
		if i > 0 {
			k := g.intn("sep", 0, 11)
			switch {
			case k == 0 && simple(stmts[i-1]) && simple(s):
				sb.WriteString("; ")
			case k == 1:
				sb.WriteString("\n\n")
			case k == 2:
				sb.WriteString("\n// note\n")
			case k == 3 && !g.tiny:
				sb.WriteString("\n/* block\n   comment */\n")
			default:
				sb.WriteString("\n")
			}
		}
		sb.WriteString(s)
	}
	return sb.String()
}

// filler returns one statement that never fails and allocates a bounded
// number of objects (loops run at most 3 times, no recursion).
func (g *gen) filler(sc *scope) string {
	p := ""
	if len(sc.ints) > 0 {
		p = sc.ints[g.intn("fint", 0, len(sc.ints)-1)]
	} else if sc.inFunc {
		p = "v"
	}
	k := g.intn("fk", 0, 24)
	if p == "" && k >= 10 {
		k = 0
	}
	if p == "v" && (k == 12 || k == 13 || k == 14 || k == 15 || k == 16) {
		k = 10 // never assign to the parameter
	}
	n := g.name("q")
	switch k {
	case 0, 1:
		sc.ints = append(sc.ints, n)
		return fmt.Sprintf("%s := %d", n, g.intn("fv", 0, 9))
	case 2:
		return n + ` := "ab"`
	case 3:
		return n + ` := [1, "b", 2.5]`
	case 4:
		return n + " := {k: 1, j: [2]}"
	case 5:
		return n + " := func(a, b) {\n\treturn a + b\n}(1, 2)"
	case 6:
		return n + " := len([1, 2])"
	case 7:
		return n + ` := "é日"`
	case 8:
		if g.tiny {
			return n + " := 'c'"
		}
		return n + " := `x\ny`"
	case 9:
		return n + " := immutable([1, error(\"e\")])[0:1]"
	case 10:
		sc.ints = append(sc.ints, n)
		return fmt.Sprintf("%s := %s * 2 + 1", n, p)
	case 11:
		return fmt.Sprintf("%s := %s > 2 ? \"a\" : \"b\"", n, p)
	case 12:
		return fmt.Sprintf("if %s > 1 {\n\t%s = %s - 1\n} else {\n\t%s += 2\n}", p, p, p, p)
	case 13:
		i := g.name("i")
		return fmt.Sprintf("for %s := 0; %s < 3; %s++ {\n\t%s += %s\n}", i, i, i, p, i)
	case 14:
		kk, e := g.name("k"), g.name("e")
		return fmt.Sprintf("for %s, %s in [1, 2, 3] {\n\t%s += %s + %s\n}", kk, e, p, e, kk)
	case 15:
		return p + "++"
	case 16:
		return p + " -= 1"
	case 17:
		f := g.name("g")
		return fmt.Sprintf("%s := func(a) {\n\tif a > 0 {\n\t\treturn a\n\t\ta = 5\n\t}\n\treturn 0\n}\n%s := %s(%s)", f, n, f, p)
	case 18:
		return fmt.Sprintf("%s := host.id(%s)", n, p)
	case 19:
		return fmt.Sprintf("%s := [%s,\n\t%s + 1][1]", n, p, p)
	case 20:
		e := g.name("e")
		return fmt.Sprintf("for %s in {a: 1, b: 2} {\n\tif %s == \"zz\" {\n\t\tbreak\n\t}\n\tcontinue\n}", e, e)
	case 21:
		return fmt.Sprintf("%s := %s > 0 && %s < 100 || !%s", n, p, p, p)
	case 22:
		return fmt.Sprintf("%s := {a: %s}.a", n, p)
	case 23:
		return fmt.Sprintf("%s := string(%s %% 7)", n, p)
	default:
		return fmt.Sprintf("%s := 2.5 * 2.0", n)
	}
}

func (g *gen) fillers(sc *scope, label string, lo, hi int) []string {
	n := g.intn(label, lo, hi)
	var out []string
	for i := 0; i < n; i++ {
		out = append(out, g.filler(sc))
	}
	return out
}

// deadBlock returns a statement that is never taken at run time but contains
// code after a `return` (or, at module top level, after an `export`), which
// the optimizer removes: every instruction offset after it shifts.
func (g *gen) deadBlock(sc *scope) (pre []string, stmt string) {
	d1, d2 := g.name("d"), g.name("d")
	if !sc.inFunc {
		a := g.name("a")
		return []string{a + " := 1"}, fmt.Sprintf("if %s < 0 {\n\texport 1\n\t%s := 1\n\t%s := [%s,\n\t\t2]\n}", a, d1, d2, d1)
	}
	switch g.intn("dk", 0, 4) {
	case 0:
		return nil, fmt.Sprintf("if v == -99 {\n\treturn 0\n\t%s := 1\n\t%s := [%s, 2]\n}", d1, d2, d1)
	case 1:
		return nil, fmt.Sprintf("if v < -5 {\n\treturn\n\t%s := func(a) { return a }\n\t%s(1)\n} else {\n\t%s := 1\n}", d1, d1, d2)
	case 2:
		i := g.name("i")
		return nil, fmt.Sprintf("for %s := 0; %s < 2; %s++ {\n\tif %s > 5 {\n\t\treturn %s\n\t\t%s := %s * 2\n\t\t%s := [%s]\n\t}\n}", i, i, i, i, i, d1, i, d2, d1)
	case 3:
		return nil, fmt.Sprintf("if v == -7 {\n\treturn [1,\n\t\t2]\n\t%s := {a: 1}\n\tfor %s in [1, 2] {\n\t\t%s.a += %s\n\t}\n\treturn %s\n}", d1, d2, d1, d2, d1)
	default:
		return nil, fmt.Sprintf("if v < -3 {\n\tif v < -4 {\n\t\treturn 1\n\t\t%s := 2\n\t} else {\n\t\treturn 3\n\t\t%s := 4\n\t}\n\t%s := 5\n}", d1, d2, g.name("d"))
	}
}

// wrapBlock nests the (marked) statement s in the block of an if / for.
func (g *gen) wrapBlock(s string, sc *scope, dead *bool) string {
	child := sc.child()
	inner := g.fillers(child, "wrap-before", 0, 2)
	if (sc.inFunc || sc.modTop) && g.chance("wrap-dead", 20) {
		pre, db := g.deadBlock(child)
		inner = append(inner, pre...)
		inner = append(inner, db)
		*dead = true
	}
	inner = append(inner, s)
	inner = append(inner, g.fillers(child, "wrap-after", 0, 1)...)
	body := indent(g.join(inner), "\t")
	switch g.intn("wrap-kind", 0, 5) {
	case 0:
		g.feat["wrap:if"] = true
		return "if 1 > 0 {\n" + body + "\n}"
	case 1:
		g.feat["wrap:else"] = true
		return "if 1 < 0 {\n\t" + g.name("w") + " := 1\n} else {\n" + body + "\n}"
	case 2:
		g.feat["wrap:for"] = true
		i := g.name("i")
		return fmt.Sprintf("for %s := 0; %s < 2; %s++ {\n%s\n}", i, i, i, body)
	case 3:
		g.feat["wrap:for-in"] = true
		return fmt.Sprintf("for _, %s in [1, 2] {\n%s\n}", g.name("e"), body)
	case 4:
		g.feat["wrap:for-ever"] = true
		return "for {\n" + body + "\n\tbreak\n}"
	default:
		g.feat["wrap:else-if"] = true
		return "if 1 < 0 {\n\t" + g.name("w") + " := 1\n} else if 2 > 1 {\n" + body + "\n}"
	}
}

// wrapExpr puts the expression x into a statement.
func (g *gen) wrapExpr(x string, sc *scope, tag string) (pre []string, stmt string) {
	for {
		c := contexts[g.intn(tag+"-ctx", 0, len(contexts)-1)]
		if (c.funcOnly && !sc.inFunc) || (c.notTiny && g.tiny) {
			continue
		}
		names := map[string]string{}
		for _, p := range c.pre {
			pre = append(pre, g.fresh(p, names))
		}
		g.feat[tag+"-ctx:"+c.name] = true
		return pre, subst(g.fresh(c.tmpl, names), x)
	}
}

// buildBody surrounds the marked statement core with fillers, optional
// enclosing blocks and optional dead code. dead reports whether removed dead
// code precedes core in the same function.
func (g *gen) buildBody(core string, pre []string, sc *scope) (stmts []string, dead bool) {
	stmts = g.fillers(sc, "before", 0, 3)
	if (sc.inFunc || sc.modTop) && g.chance("dead", 40) {
		dp, db := g.deadBlock(sc)
		stmts = append(stmts, dp...)
		stmts = append(stmts, db)
		dead = true
		stmts = append(stmts, g.fillers(sc, "after-dead", 0, 2)...)
	}
	stmts = append(stmts, pre...)
	s := core
	for n := g.intn("wraps", 0, 3); n > 1; n-- { // 0,1 -> none; 2 -> one; 3 -> two
		s = g.wrapBlock(s, sc, &dead)
	}
	stmts = append(stmts, s)
	stmts = append(stmts, g.fillers(sc, "after", 0, 2)...)
	if sc.inFunc {
		switch g.intn("tail", 0, 3) {
		case 0:
			stmts = append(stmts, "return v + 1")
		case 1:
			stmts = append(stmts, "return v", g.name("d")+" := 1")
		}
	}
	return stmts, dead
}

// ---------- files ----------

type fileBuf struct {
	name    string
	isMain  bool
	imports []string
	topVars []string
	funcs   []string
	table   string
	driver  []string
	exports []string
}

func (g *gen) render(f *fileBuf, unit string, crlf bool) string {
	sc := &scope{isMain: f.isMain, modTop: !f.isMain}
	var st []string
	if g.chance("header", 30) {
		st = append(st, "// "+f.name+" — generated\n")
	}
	st = append(st, `host := import("host")`)
	st = append(st, g.fillers(sc, "top-a", 0, 2)...)
	st = append(st, f.imports...)
	st = append(st, f.topVars...)
	for _, fn := range f.funcs {
		st = append(st, g.fillers(sc, "top-b", 0, 1)...)
		st = append(st, fn)
	}
	if f.table != "" {
		st = append(st, f.table)
	}
	st = append(st, f.driver...)
	if !f.isMain {
		sort.Strings(f.exports)
		var kv []string
		for _, e := range f.exports {
			kv = append(kv, e+": "+e)
		}
		switch {
		case len(kv) == 0 && g.chance("export-none", 50):
			// a module without export yields undefined
		case len(kv) > 1 && g.chance("export-ml", 50):
			st = append(st, "export {\n\t"+strings.Join(kv, ",\n\t")+"\n}")
		default:
			st = append(st, "export {"+strings.Join(kv, ", ")+"}")
		}
	}
	text := g.join(st) + "\n"
	text = strings.ReplaceAll(text, "\t", unit)
	if crlf {
		text = strings.ReplaceAll(text, "\n", "\r\n")
	}
	return text
}

// ---------- one case ----------

func pickOp(g *gen, mode string) failOp {
	var groups []string
	for _, gr := range groupNames {
		switch {
		case mode == "limits":
			if gr == "string-limit" || gr == "bytes-limit" {
				groups = append(groups, gr)
			}
		case mode == "overflow":
			if strings.HasPrefix(gr, "frame-overflow") {
				groups = append(groups, gr)
			}
		default:
			if gr != "string-limit" && gr != "bytes-limit" && !strings.HasPrefix(gr, "frame-overflow") {
				groups = append(groups, gr)
			}
		}
	}
	gr := groups[g.intn("group", 0, len(groups)-1)]
	if mode == "overflow" {
		// one slot per frame (MaxFrames reached first) and several slots per
		// frame (operand stack exhausted first) in equal shares; while the
		// finding about the latter was open it was drawn in 10 % of the cases
		// only (always discarded) so that the test kept its case count
		gr = "frame-overflow"
		wide := 50
		if openFindings[findingOpStack] {
			wide = 10
		}
		if g.chance("wide", wide) {
			gr = "frame-overflow-wide"
		}
	}
	idx := opsByGroup[gr]
	return allOps[idx[g.intn("variant", 0, len(idx)-1)]]
}

// genCase draws one program. A non-empty discard means the drawn pattern is
// excluded (open finding).
func genCase(t *rapid.T, mode string, forced *failOp) (p *casePayload, discard string) {
	g := &gen{t: t, feat: map[string]bool{}}
	var op failOp
	if forced != nil {
		op = *forced
	} else {
		op = pickOp(g, mode)
	}
	if op.Finding != "" && openFindings[op.Finding] {
		return nil, "known:" + op.Finding
	}
	g.tiny = op.StrLimit > 0 || op.BytesLimit > 0

	// ----- shape
	nmods := g.intn("modules", 0, 2)
	scen := "main"
	if nmods > 0 {
		switch s := g.intn("scenario", 0, 7); {
		case s == 0:
			scen = "modinit1"
		case s == 1 && nmods == 2:
			scen = "modinit2"
		}
	}
	d := g.intn("depth", 0, 6)
	m1m2 := nmods == 2 && (scen == "modinit2" || g.chance("m1-imports-m2", 50))
	files := map[string]*fileBuf{"(main)": {name: "(main)", isMain: true}}
	order := []string{"(main)"}
	for i := 1; i <= nmods; i++ {
		n := fmt.Sprintf("m%d", i)
		files[n] = &fileBuf{name: n}
		order = append(order, n)
	}
	imports := func(a, b string) bool {
		switch {
		case a == "(main)":
			return scen == "main" && b != "(main)"
		case a == "m1":
			return b == "m2" && m1m2
		}
		return false
	}
	home := make([]string, d+1)
	inline := make([]bool, d+1)
	cmode := make([]string, d+1)
	switch scen {
	case "main":
		home[0] = "(main)"
	case "modinit1":
		home[0] = "m1"
	default:
		home[0] = "m2"
	}
	for i := 1; i <= d; i++ {
		if g.chance("inline", 20) {
			inline[i], home[i], cmode[i] = true, home[i-1], "inline"
			continue
		}
		var cands []string
		if scen == "main" {
			cands = order
		} else {
			cands = []string{home[i-1]}
			if imports(home[i-1], "m2") {
				cands = append(cands, "m2")
			}
		}
		home[i] = cands[g.intn("home", 0, len(cands)-1)]
		var modes []string
		if home[i] == home[i-1] {
			modes = append(modes, "direct")
		}
		if imports(home[i-1], home[i]) {
			modes = append(modes, "import")
		}
		if scen == "main" {
			modes = append(modes, "table")
		}
		cmode[i] = modes[g.intn("call-mode", 0, len(modes)-1)]
	}
	scopeOf := func(level int) *scope {
		// level i>0 is a function body; level 0 the top level of home[0]
		if level > 0 {
			return &scope{inFunc: true, isMain: home[level] == "(main)"}
		}
		return &scope{isMain: home[0] == "(main)", modTop: home[0] != "(main)"}
	}

	// ----- the failing operation (level d)
	failFile := home[d]
	names := map[string]string{}
	type vdef struct{ name, init, place string }
	var vdefs []vdef
	for _, v := range op.Vars {
		if !v.NoInline && g.chance("inline-var", 40) {
			names[v.Name] = "(" + v.Init + ")"
			continue
		}
		n := g.name("u")
		names[v.Name] = n
		places := []string{"local", "local", "top"}
		if d > 0 && inline[d] {
			places = append(places, "outer")
		}
		vdefs = append(vdefs, vdef{n, v.Init, places[g.intn("var-place", 0, len(places)-1)]})
	}
	hostGlobal := failFile == "(main)" && g.chance("host-global", 50)
	resolve := func(s string, id int) string {
		s = g.fresh(s, names)
		s = regexp.MustCompile(`@([a-z]+)`).ReplaceAllStringFunc(s, func(m string) string {
			if hostGlobal {
				return "h" + m[1:]
			}
			return "host." + m[1:]
		})
		s = strings.ReplaceAll(s, "⟦", fmt.Sprintf("\x00S%d;", idTick))
		s = strings.ReplaceAll(s, "⟧", fmt.Sprintf("\x00E%d;", idTick))
		s = strings.ReplaceAll(s, "«", fmt.Sprintf("\x00S%d;", id))
		return strings.ReplaceAll(s, "»", fmt.Sprintf("\x00E%d;", id))
	}
	var localPre, outerPre []string
	for _, v := range vdefs {
		def := v.name + " := " + resolve(v.init, idRecurse)
		switch v.place {
		case "local":
			localPre = append(localPre, def)
		case "outer":
			outerPre = append(outerPre, def)
		default:
			files[failFile].topVars = append(files[failFile].topVars, def)
		}
		g.feat["var:"+v.place] = true
	}
	sc := scopeOf(d)
	var core string
	if len(op.Stmt) > 0 {
		s := resolve(op.Stmt[g.intn("stmt-variant", 0, len(op.Stmt)-1)], d)
		if !strings.Contains(s, "\x00") {
			s = mark(d, s)
		}
		core = s
		g.feat["fail-ctx:own-statement"] = true
	} else {
		pre, s := g.wrapExpr(resolve(op.Expr, d), sc, "fail")
		localPre = append(localPre, pre...)
		core = mark(d, s)
	}
	meta := caseMeta{Group: op.Group, Op: op.Name, Depth: d, Scenario: scen, Modules: nmods}
	if failFile == "(main)" {
		meta.FailHome = "main"
	} else {
		meta.FailHome = "module"
	}
	body, dead := g.buildBody(core, localPre, sc)
	meta.DeadFail = dead

	// ----- the call chain, innermost first
	for i := d; i >= 1; i-- {
		params := "v, t"
		variadic := g.chance("variadic", 20)
		if variadic {
			params = "v, t, ...w"
		}
		// an immediately invoked literal without parameters (v and t are then
		// the enclosing function's, captured): literal, closure and call
		// instruction all carry the position of the `func` keyword, and
		// nothing compiled in between has another one
		noArgs := inline[i] && i >= 2 && !variadic && g.chance("inline-no-args", 40)
		if noArgs {
			params = ""
			g.feat["call:inline-no-args"] = true
		}
		lit := "func(" + params + ") {\n" + indent(g.join(body), "\t") + "\n}"
		varg, targ := "v + 1", "t"
		if i-1 == 0 {
			varg = "1"
			if scen != "main" {
				targ = "undefined"
			}
		}
		var args string
		switch k := g.intn("args", 0, 5); {
		case k == 0:
			args = varg + ",\n\t" + targ
		case k == 1:
			args = "[" + varg + ", " + targ + "]..."
			g.feat["call:spread"] = true
		case k == 2 && variadic:
			args = varg + ", " + targ + ", 7, [8]"
		default:
			args = varg + ", " + targ
		}
		if noArgs {
			args = ""
		}
		fn := fmt.Sprintf("f%d", i)
		var call string
		switch cmode[i] {
		case "inline":
			call = "(" + lit + "(" + args + "))"
		case "direct":
			call = fn + "(" + args + ")"
			if g.chance("call-copy", 15) {
				// a copied function must report positions like the original
				call = "copy(" + fn + ")(" + args + ")"
				g.feat["call:through-copy"] = true
			}
		case "import":
			if g.chance("import-index", 30) {
				call = home[i] + "[\"" + fn + "\"](" + args + ")"
			} else {
				call = home[i] + "." + fn + "(" + args + ")"
			}
		default:
			if g.chance("table-index", 30) {
				call = "t[\"" + fn + "\"](" + args + ")"
			} else {
				call = "t." + fn + "(" + args + ")"
			}
		}
		g.feat["call:"+cmode[i]] = true
		if !inline[i] {
			f := files[home[i]]
			f.funcs = append(f.funcs, fn+" := "+lit)
			f.exports = append(f.exports, fn)
		}
		if home[i] != home[i-1] {
			meta.CrossFile++
		}
		sc = scopeOf(i - 1)
		pre, s := g.wrapExpr(call, sc, "call")
		if i == d {
			pre = append(outerPre, pre...)
		}
		var dd bool
		body, dd = g.buildBody(mark(i-1, s), pre, sc)
		if dd {
			meta.DeadChain++
		}
	}
	files[home[0]].driver = body

	// ----- imports, table, module-initialisation frames
	main := files["(main)"]
	nImportFrames := 0
	switch scen {
	case "main":
		for _, m := range order[1:] {
			if g.chance("import-ml", 30) {
				main.imports = append(main.imports, m+" :=\n\timport(\""+m+"\")")
			} else {
				main.imports = append(main.imports, m+" := import(\""+m+"\")")
			}
		}
		var kv []string
		for _, fn := range main.exports {
			kv = append(kv, fn+": "+fn)
		}
		for _, m := range order[1:] {
			for _, fn := range files[m].exports {
				kv = append(kv, fn+": "+m+"."+fn)
			}
		}
		sort.Strings(kv)
		if len(kv) > 1 && g.chance("table-ml", 50) {
			main.table = "t := {\n\t" + strings.Join(kv, ",\n\t") + "\n}"
		} else {
			main.table = "t := {" + strings.Join(kv, ", ") + "}"
		}
		if m1m2 {
			files["m1"].imports = append(files["m1"].imports, `m2 := import("m2")`)
		}
	case "modinit1":
		if m1m2 {
			files["m1"].imports = append(files["m1"].imports, `m2 := import("m2")`)
		} else if nmods == 2 {
			main.imports = append(main.imports, `m2 := import("m2")`) // runs to completion first
		}
		pre, s := g.wrapExpr(`import("m1")`, scopeOf0(true), "import")
		main.driver, _ = g.buildBody(mark(idImport, s), pre, scopeOf0(true))
		nImportFrames = 1
	default: // modinit2: main imports m1, whose body imports m2, whose body runs the chain
		pre, s := g.wrapExpr(`import("m2")`, scopeOf0(false), "import")
		files["m1"].driver, _ = g.buildBody(mark(idImport, s), pre, scopeOf0(false))
		pre, s = g.wrapExpr(`import("m1")`, scopeOf0(true), "import")
		main.driver, _ = g.buildBody(mark(idImport+1, s), pre, scopeOf0(true))
		nImportFrames = 2
	}

	// ----- render, collect spans
	unit := []string{"\t", "\t", "  ", "    ", " ", ""}[g.intn("indent-unit", 0, 5)]
	p = &casePayload{Kind: op.Name, MsgRe: op.MsgRe, Sentinel: op.Sentinel, Host: op.Host,
		MaxAllocs: op.MaxAllocs, MaxStringLen: op.StrLimit, MaxBytesLen: op.BytesLimit}
	spans := map[int]spanT{}
	for _, n := range order {
		crlf := g.chance("crlf", 10)
		if crlf {
			g.feat["crlf"] = true
		}
		text, sp, err := strip(n, g.render(files[n], unit, crlf))
		if err != nil {
			panic(fmt.Sprintf("generator: %v", err))
		}
		for id, s := range sp {
			if _, dup := spans[id]; dup {
				panic(fmt.Sprintf("generator: marker %d in two files", id))
			}
			spans[id] = s
		}
		if n == "(main)" {
			p.Main = text
		} else {
			p.Modules = append(p.Modules, modSrc{Name: n, Src: text})
		}
	}
	need := func(id int) spanT {
		s, ok := spans[id]
		if !ok {
			panic(fmt.Sprintf("generator: marker %d missing", id))
		}
		return s
	}
	first := d - 1
	if op.Overflow {
		p.Fail = need(idRecurse)
		p.Trace = append(p.Trace, traceItem{Span: need(idRecurse), Repeat: -1})
		if s, ok := spans[idTick]; ok {
			p.Tick = &s
		}
		first = d
	} else {
		p.Fail = need(d)
	}
	for i := first; i >= 0; i-- {
		p.Trace = append(p.Trace, traceItem{Span: need(i)})
	}
	for j := 0; j < nImportFrames; j++ {
		p.Trace = append(p.Trace, traceItem{Span: need(idImport + j)})
	}
	meta.FailLines = strings.Count(p.Fail.Text, "\n") + 1
	for f := range g.feat {
		meta.Features = append(meta.Features, f)
	}
	sort.Strings(meta.Features)
	p.Meta = meta
	return p, ""
}

func scopeOf0(isMain bool) *scope { return &scope{isMain: isMain, modTop: !isMain} }
