// C14 — the table of failing operations (every VM/object failure kind) and
// the host-provided functions used by the generated programs.
package c14

import (
	"errors"
	"fmt"
	"regexp"
	"sort"

	"github.com/d5/tengo/v2"
	"github.com/d5/tengo/v2/token"
)

// varDef is a value the failing operation needs. In templates the variable
// is written $name; the generator either defines it with `:=` in an earlier
// statement (function-local, enclosing function, or file top level) or, when
// allowed, pastes (Init) in place of the name.
type varDef struct {
	Name     string
	Init     string
	NoInline bool
}

// failOp is ONE failing operation. Exactly one of Expr / Stmt is set.
//
//	$name  -> a variable of Vars, or (any other name) a fresh identifier
//	@name  -> the host function `name` (host.name, or the global hname in main)
//	« … »  -> inside Stmt: the innermost statement that fails, when it is not
//	          the whole Stmt; inside a Vars Init: the recursing statement of
//	          the frame-overflow template
type failOp struct {
	Group    string   // failure kind (histogram class)
	Name     string   // unique variant name
	Vars     []varDef //
	Expr     string   // failing expression (can be put into any statement)
	Stmt     []string // failing statement, alternative spellings
	MsgRe    string   // what the message after "Runtime Error: " must match
	Sentinel string   // engine sentinel that errors.Is must recognise
	Host     string   // "ptr:N" | "val:N" | "wrapped:N" | "sentinel": host error checks
	// limits under which the operation fails (0 = engine default)
	MaxAllocs  int64
	StrLimit   int
	BytesLimit int
	Overflow   bool   // frame-overflow template (trace repeats the recursing statement)
	Finding    string // finding this operation reproduces ("" = none); excluded only while its switch in openFindings is on
}

var sentinels = map[string]error{
	"ErrObjectAllocLimit": tengo.ErrObjectAllocLimit,
	"ErrStackOverflow":    tengo.ErrStackOverflow,
	"ErrDivisionByZero":   tengo.ErrDivisionByZero,
	"ErrIndexOutOfBounds": tengo.ErrIndexOutOfBounds,
	"ErrStringLimit":      tengo.ErrStringLimit,
	"ErrBytesLimit":       tengo.ErrBytesLimit,
}

// ---------- host functions ----------

type hostErr struct{ Code int64 }

func (e *hostErr) Error() string { return fmt.Sprintf("host failure code=%d", e.Code) }

type hostErrV struct{ Code int64 }

func (e hostErrV) Error() string { return fmt.Sprintf("host value failure code=%d", e.Code) }

var errHostSentinel = errors.New("host sentinel failure")

func argCode(args []tengo.Object) int64 {
	if len(args) > 0 {
		if i, ok := args[0].(*tengo.Int); ok {
			return i.Value
		}
	}
	return -1
}

// hostFuncs builds a fresh set of host functions; ticks counts calls of tick.
func hostFuncs(ticks *int) map[string]tengo.Object {
	mk := func(name string, f tengo.CallableFunc) tengo.Object {
		return &tengo.UserFunction{Name: name, Value: f}
	}
	return map[string]tengo.Object{
		"fail": mk("fail", func(a ...tengo.Object) (tengo.Object, error) {
			return nil, &hostErr{Code: argCode(a)}
		}),
		"failv": mk("failv", func(a ...tengo.Object) (tengo.Object, error) {
			return nil, hostErrV{Code: argCode(a)}
		}),
		"failw": mk("failw", func(a ...tengo.Object) (tengo.Object, error) {
			return nil, fmt.Errorf("host context: %w", &hostErr{Code: argCode(a)})
		}),
		"sentinel": mk("sentinel", func(a ...tengo.Object) (tengo.Object, error) {
			return nil, errHostSentinel
		}),
		// the host's own error with one of the engine's argument errors as
		// its cause: still the host's error
		"failargc": mk("failargc", func(a ...tengo.Object) (tengo.Object, error) {
			return nil, fmt.Errorf("host refuses: %w (%w)", &hostErr{Code: argCode(a)}, tengo.ErrWrongNumArguments)
		}),
		"failargt": mk("failargt", func(a ...tengo.Object) (tengo.Object, error) {
			return nil, fmt.Errorf("host refuses: %w (%w)", &hostErr{Code: argCode(a)}, tengo.ErrInvalidArgumentType{Name: "first", Expected: "string", Found: "int"})
		}),
		"oob": mk("oob", func(a ...tengo.Object) (tengo.Object, error) {
			return nil, tengo.ErrIndexOutOfBounds
		}),
		"argc": mk("argc", func(a ...tengo.Object) (tengo.Object, error) {
			return nil, tengo.ErrWrongNumArguments
		}),
		"argt": mk("argt", func(a ...tengo.Object) (tengo.Object, error) {
			found := "nothing"
			if len(a) > 0 {
				found = a[0].TypeName()
			}
			return nil, tengo.ErrInvalidArgumentType{Name: "first", Expected: "string", Found: found}
		}),
		"tick": mk("tick", func(a ...tengo.Object) (tengo.Object, error) {
			*ticks++
			return nil, nil
		}),
		"id": mk("id", func(a ...tengo.Object) (tengo.Object, error) {
			if len(a) == 0 {
				return tengo.UndefinedValue, nil
			}
			return a[0], nil
		}),
	}
}

func hostNames() []string {
	n := 0
	var names []string
	for k := range hostFuncs(&n) {
		names = append(names, k)
	}
	sort.Strings(names)
	return names
}

// ---------- typed samples ----------

type sample struct {
	ty  string // TypeName()
	lit string // source text
	obj tengo.Object
}

func builtinObj(name string) tengo.Object {
	for _, b := range tengo.GetAllBuiltinFunctions() {
		if b.Name == name {
			return b
		}
	}
	panic("no builtin " + name)
}

var samples = []sample{
	{lit: "7", obj: &tengo.Int{Value: 7}},
	{lit: "2.5", obj: &tengo.Float{Value: 2.5}},
	{lit: `"ab"`, obj: &tengo.String{Value: "ab"}},
	{lit: "'c'", obj: &tengo.Char{Value: 'c'}},
	{lit: "true", obj: tengo.TrueValue},
	{lit: "[1, 2]", obj: &tengo.Array{Value: []tengo.Object{&tengo.Int{Value: 1}, &tengo.Int{Value: 2}}}},
	{lit: "{k: 1}", obj: &tengo.Map{Value: map[string]tengo.Object{"k": &tengo.Int{Value: 1}}}},
	{lit: "undefined", obj: tengo.UndefinedValue},
	{lit: `bytes("ab")`, obj: &tengo.Bytes{Value: []byte("ab")}},
	{lit: "immutable([1])", obj: &tengo.ImmutableArray{Value: []tengo.Object{&tengo.Int{Value: 1}}}},
	{lit: "immutable({k: 1})", obj: &tengo.ImmutableMap{Value: map[string]tengo.Object{"k": &tengo.Int{Value: 1}}}},
	{lit: `error("e")`, obj: &tengo.Error{Value: &tengo.String{Value: "e"}}},
	{lit: "func(a) { return a }", obj: &tengo.CompiledFunction{}},
	{lit: "len", obj: builtinObj("len")},
}

func init() {
	for i := range samples {
		samples[i].ty = samples[i].obj.TypeName()
	}
}

var binTokens = []token.Token{token.Add, token.Sub, token.Mul, token.Quo, token.Rem,
	token.And, token.Or, token.Xor, token.AndNot, token.Shl, token.Shr,
	token.Less, token.LessEq, token.Greater, token.GreaterEq}

var assignable = map[token.Token]bool{token.Add: true, token.Sub: true, token.Mul: true,
	token.Quo: true, token.Rem: true, token.And: true, token.Or: true, token.Xor: true,
	token.AndNot: true, token.Shl: true, token.Shr: true}

// invalidBinary asks the object itself whether `l tok r` is an invalid
// operation (the property is about where errors are reported, not about which
// operations fail, so the implementation's own operator table is the domain).
func invalidBinary(l tengo.Object, tok token.Token, r tengo.Object) (inv bool) {
	defer func() {
		if recover() != nil {
			inv = false
		}
	}()
	_, err := l.BinaryOp(tok, r)
	return err == tengo.ErrInvalidOperator
}

func q(s string) string { return regexp.QuoteMeta(s) }

// ---------- the table ----------

var allOps []failOp
var opsByGroup = map[string][]int{}
var groupNames []string

func addOp(o failOp) {
	if o.Name == "" {
		o.Name = fmt.Sprintf("%s#%d", o.Group, len(opsByGroup[o.Group]))
	}
	opsByGroup[o.Group] = append(opsByGroup[o.Group], len(allOps))
	allOps = append(allOps, o)
}

func init() {
	// --- invalid binary operator per type pair (expression and compound assignment)
	for _, l := range samples {
		for _, r := range samples {
			for _, tok := range binTokens {
				if !invalidBinary(l.obj, tok, r.obj) {
					continue
				}
				msg := "^" + q(fmt.Sprintf("invalid operation: %s %s %s", l.ty, tok.String(), r.ty)) + "$"
				addOp(failOp{Group: "binop", Name: fmt.Sprintf("binop:%s%s%s", l.ty, tok, r.ty),
					Vars: []varDef{{Name: "a", Init: l.lit}, {Name: "b", Init: r.lit}},
					Expr: "($a " + tok.String() + " $b)", MsgRe: msg})
				if assignable[tok] {
					addOp(failOp{Group: "binop-assign", Name: fmt.Sprintf("binop-assign:%s%s=%s", l.ty, tok, r.ty),
						Vars:  []varDef{{Name: "a", Init: l.lit, NoInline: true}, {Name: "b", Init: r.lit}},
						Stmt:  []string{"$a " + tok.String() + "= $b", "$a " + tok.String() + "=\n\t$b"},
						MsgRe: msg})
				}
			}
		}
	}
	// compound assignment through selectors: the left side is read first
	addOp(failOp{Group: "binop-assign", Name: "binop-assign:arr[9]+=1",
		Vars:  []varDef{{Name: "a", Init: "[1, 2, 3]", NoInline: true}},
		Stmt:  []string{"$a[9] += 1", "$a[9] +=\n\t1"},
		MsgRe: "^invalid operation: undefined \\+ int$"})
	addOp(failOp{Group: "binop-assign", Name: "binop-assign:m.a.b-=str",
		Vars:  []varDef{{Name: "m", Init: "{a: {b: 5}}", NoInline: true}},
		Stmt:  []string{`$m.a.b -= "s"`, "$m.a[\"b\"] -=\n\t\"s\""},
		MsgRe: "^invalid operation: int - string$"})
	addOp(failOp{Group: "binop-assign", Name: "binop-assign:x++",
		Vars:  []varDef{{Name: "a", Init: "[1]", NoInline: true}},
		Stmt:  []string{"$a++", "$a--"},
		MsgRe: "^invalid operation: array [+-] int$"})

	// --- unary operator on the wrong type
	for _, s := range samples {
		_, isInt := s.obj.(*tengo.Int)
		_, isFloat := s.obj.(*tengo.Float)
		if !isInt && !isFloat {
			addOp(failOp{Group: "unary", Name: "unary:-" + s.ty,
				Vars: []varDef{{Name: "a", Init: s.lit}}, Expr: "(-$a)",
				MsgRe: "^" + q("invalid operation: -"+s.ty) + "$"})
		}
		if !isInt {
			addOp(failOp{Group: "unary", Name: "unary:^" + s.ty,
				Vars: []varDef{{Name: "a", Init: s.lit}}, Expr: "(^$a)",
				MsgRe: "^" + q("invalid operation: ^"+s.ty) + "$"})
		}
	}

	// --- not callable
	for _, s := range samples {
		if s.obj.CanCall() {
			continue
		}
		msg := "^" + q("not callable: "+s.ty) + "$"
		addOp(failOp{Group: "not-callable", Name: "not-callable:" + s.ty,
			Vars: []varDef{{Name: "a", Init: s.lit}}, Expr: "$a(1, 2)", MsgRe: msg})
		addOp(failOp{Group: "not-callable", Name: "not-callable:sel:" + s.ty,
			Vars: []varDef{{Name: "m", Init: "{k: " + s.lit + "}"}}, Expr: "$m.k()", MsgRe: msg})
	}

	// --- wrong argument count
	argc := func(fn, call string, want string, got int) {
		addOp(failOp{Group: "argc-compiled", Name: "argc-compiled:" + fn + ":" + call,
			Vars: []varDef{{Name: "f", Init: fn}}, Expr: "$f" + call,
			MsgRe: "^" + q(fmt.Sprintf("wrong number of arguments: want%s, got=%d", want, got)) + "$"})
	}
	argc("func(a, b) { return a }", "(1)", "=2", 1)
	argc("func(a, b) { return a }", "(1, 2, 3)", "=2", 3)
	argc("func(a, b) { return a }", "()", "=2", 0)
	argc("func(a, b) { return a }", "([1, 2, 3]...)", "=2", 3)
	argc("func(a, b) { return a }", "(1,\n\t[2, 3, 4]...)", "=2", 4)
	argc("func() { return 1 }", "(1)", "=0", 1)
	argc("func(a, ...b) { return a }", "()", ">=1", 0)
	argc("func(a, b, ...c) { return a }", "(1)", ">=2", 1)
	argc("func(a, b, ...c) { return a }", "([]...)", ">=2", 0)
	for _, c := range []string{"len()", "len(1, 2)", "append([1])", "delete({})", "splice()",
		"range(1)", "range(1, 2, 3, 4)", "format()", "copy()", "type_name()", "int()", "is_int()",
		"string()", "bytes()", "char()", "float()", "bool()", "time()", "is_callable(1, 2)", "immutable([1])[0:1] == len(\n\t1,\n\t2)"} {
		name := regexp.MustCompile(`([a-z_]+)\(\s*[^()]*\)$`).FindStringSubmatch(c)[1]
		addOp(failOp{Group: "argc-builtin", Name: "argc-builtin:" + c, Expr: "(" + c + ")",
			MsgRe: "^" + q("wrong number of arguments in call to 'builtin-function:"+name+"'") + "$"})
	}
	addOp(failOp{Group: "argc-host", Name: "argc-host:argc", Expr: "@argc(1)",
		MsgRe: "^" + q("wrong number of arguments in call to 'user-function:argc'") + "$"})
	addOp(failOp{Group: "argc-host", Name: "argc-host:argc-multiline", Expr: "@argc(1,\n\t2)",
		MsgRe: "^" + q("wrong number of arguments in call to 'user-function:argc'") + "$"})

	// --- index / selector read
	for _, s := range samples {
		_, err := s.obj.IndexGet(&tengo.Int{Value: 0})
		if err == tengo.ErrNotIndexable {
			addOp(failOp{Group: "index-read", Name: "index-read:not-indexable:" + s.ty,
				Vars: []varDef{{Name: "a", Init: s.lit}}, Expr: "$a[0]", MsgRe: "^not indexable: "})
			addOp(failOp{Group: "index-read", Name: "index-read:not-indexable-sel:" + s.ty,
				Vars: []varDef{{Name: "a", Init: s.lit}}, Expr: "$a.k", MsgRe: "^not indexable: "})
			addOp(failOp{Group: "index-read", Name: "index-read:not-indexable-deep:" + s.ty,
				Vars: []varDef{{Name: "m", Init: "{a: {b: " + s.lit + "}}"}}, Expr: "$m.a.b[\n\t0]", MsgRe: "^not indexable: "})
		}
		for _, idx := range []sample{samples[2], samples[1], samples[4], samples[5]} {
			_, err := s.obj.IndexGet(idx.obj)
			if err == tengo.ErrInvalidIndexType {
				addOp(failOp{Group: "index-read", Name: "index-read:invalid-index:" + s.ty + "[" + idx.ty + "]",
					Vars: []varDef{{Name: "a", Init: s.lit}, {Name: "i", Init: idx.lit}}, Expr: "$a[$i]",
					MsgRe: "^" + q("invalid index type: "+idx.ty) + "$"})
				addOp(failOp{Group: "index-read", Name: "index-read:invalid-index-deep:" + s.ty + "[" + idx.ty + "]",
					Vars: []varDef{{Name: "m", Init: "{a: [" + s.lit + "]}"}, {Name: "i", Init: idx.lit}}, Expr: "$m.a[0][$i]",
					MsgRe: "^" + q("invalid index type: "+idx.ty) + "$"})
			}
		}
	}
	addOp(failOp{Group: "index-read", Name: "index-read:error-selector",
		Vars: []varDef{{Name: "e", Init: `error("x")`}}, Expr: "$e.foo", MsgRe: "^invalid index on error$"})

	// --- slice
	for _, s := range samples {
		switch s.obj.(type) {
		case *tengo.Array, *tengo.ImmutableArray, *tengo.String, *tengo.Bytes:
			addOp(failOp{Group: "slice", Name: "slice:low>high:" + s.ty,
				Vars: []varDef{{Name: "a", Init: s.lit}}, Expr: "$a[2:1]", MsgRe: "^invalid slice index: 2 > 1$"})
			addOp(failOp{Group: "slice", Name: "slice:high-type:" + s.ty,
				Vars: []varDef{{Name: "a", Init: s.lit}}, Expr: "$a[0:\n\t\"b\"]", MsgRe: "^invalid slice index type: string$"})
			addOp(failOp{Group: "slice", Name: "slice:low-type:" + s.ty,
				Vars: []varDef{{Name: "a", Init: s.lit}}, Expr: "$a[1.5:]", MsgRe: "^invalid slice index type: float$"})
		default:
			addOp(failOp{Group: "slice", Name: "slice:not-indexable:" + s.ty,
				Vars: []varDef{{Name: "a", Init: s.lit}}, Expr: "$a[0:1]",
				MsgRe: "^" + q("not indexable: "+s.ty) + "$"})
		}
	}

	// --- index assignment, at each selector depth
	ia := func(name, init string, stmts []string, msg, sentinel string) {
		addOp(failOp{Group: "index-assign", Name: "index-assign:" + name,
			Vars: []varDef{{Name: "a", Init: init, NoInline: true}}, Stmt: stmts, MsgRe: msg, Sentinel: sentinel})
	}
	oob := "^index out of bounds$"
	ia("oob-1", "[1, 2, 3]", []string{"$a[5] = 1", "$a[-1] = 1", "$a[3] =\n\t[1,\n\t2]", "$a[\n\t7] = 0"}, oob, "ErrIndexOutOfBounds")
	ia("oob-2", "{a: [1, 2]}", []string{"$a.a[7] = 1", "$a[\"a\"][2] =\n\t1"}, oob, "ErrIndexOutOfBounds")
	ia("oob-3", "{a: {b: [1]}}", []string{"$a.a.b[3] = 1", "$a.a[\"b\"][\n\t1] = {x: 1,\n\ty: 2}"}, oob, "ErrIndexOutOfBounds")
	ia("oob-nested-array", "[[1], [2]]", []string{"$a[0][9] = 1", "$a[1][1] =\n\t2"}, oob, "ErrIndexOutOfBounds")
	ia("oob-coerced-index", "[1, 2]", []string{"$a[\"9\"] = 1", "$a[7.0] = 1"}, oob, "ErrIndexOutOfBounds")
	nia := func(ty string) string { return "^" + q("not index-assignable: "+ty) + "$" }
	ia("string", `"abc"`, []string{"$a[0] = 'x'", "$a[0] =\n\t'x'"}, nia("string"), "")
	ia("bytes", `bytes("abc")`, []string{"$a[0] = 1"}, nia("bytes"), "")
	ia("immutable-array", "immutable([1, 2])", []string{"$a[0] = 1", "$a[0] =\n\t1"}, nia("immutable-array"), "")
	ia("immutable-map", "immutable({k: 1})", []string{"$a.k = 1", "$a[\"z\"] = 1"}, nia("immutable-map"), "")
	ia("int", "5", []string{"$a[0] = 1", "$a.k = 1"}, nia("int"), "")
	ia("undefined", "undefined", []string{"$a.k = 1"}, nia("undefined"), "")
	ia("deep-string", `{s: "abc"}`, []string{"$a.s[0] = 'x'"}, nia("string"), "")
	ia("deep-immutable", "{s: {t: immutable([1])}}", []string{"$a.s.t[0] = 1", "$a.s[\"t\"][\n\t0] = 1"}, nia("immutable-array"), "")
	ia("deep-int", "{n: 5}", []string{"$a.n.x = 1"}, nia("int"), "")
	ia("frozen-element", "[immutable({k: 1})]", []string{"$a[0].k = 2"}, nia("immutable-map"), "")
	ia("intermediate-not-indexable", "{n: 5}", []string{"$a.n.x.y = 1", "$a.n[0][\n\t1] = 1"}, "^not indexable: int$", "")
	ia("intermediate-invalid-index", "{a: [1, 2]}", []string{"$a.a[\"k\"][0] = 1", "$a.a[1.5].x =\n\t1"}, "^invalid index type: (string|float)$", "")
	ia("invalid-index-type", "[1, 2]", []string{"$a[\"k\"] = 1", "$a[[1]] = 1", "$a[{}] =\n\t1"}, "^invalid index type$", "")
	ia("error-selector", `{e: error("x")}`, []string{"$a.e.foo.bar = 1"}, "^invalid index on error$", "")

	// --- not iterable
	for _, s := range samples {
		if s.obj.CanIterate() {
			continue
		}
		addOp(failOp{Group: "not-iterable", Name: "not-iterable:" + s.ty,
			Vars:  []varDef{{Name: "a", Init: s.lit}},
			Stmt:  []string{"for $e in $a {\n\t$q := $e\n}", "for $k, $e in $a {\n\t$q := [$k,\n\t\t$e]\n}", "for $e in\n\t$a {\n}"},
			MsgRe: "^" + q("not iterable: "+s.ty) + "$"})
	}

	// --- spread of a non-array
	for _, s := range samples {
		switch s.obj.(type) {
		case *tengo.Array, *tengo.ImmutableArray:
			continue
		}
		msg := "^" + q("not an array: "+s.ty) + "$"
		addOp(failOp{Group: "spread", Name: "spread:compiled:" + s.ty,
			Vars: []varDef{{Name: "g", Init: "func(...x) { return x }"}, {Name: "a", Init: s.lit}},
			Expr: "$g(1, $a...)", MsgRe: msg})
		addOp(failOp{Group: "spread", Name: "spread:builtin:" + s.ty,
			Vars: []varDef{{Name: "a", Init: s.lit}}, Expr: "append([1],\n\t$a...)", MsgRe: msg})
	}

	// --- builtin / host argument type errors
	for _, c := range [][2]string{
		{"len(5)", "len"}, {"len(undefined)", "len"}, {"append(5, 1)", "append"}, {`append("s",` + "\n\t1)", "append"},
		{`delete(5, "k")`, "delete"}, {"delete({}, 5)", "delete"}, {"splice(5)", "splice"},
		{`splice([1], "a")`, "splice"}, {`splice([1], 0, "b")`, "splice"}, {`range("a", 2)`, "range"},
		{"range(1, 2.5)", "range"}, {`range(1, 2, "x")`, "range"}, {"format(5)", "format"},
		{"format(\n\t[1])", "format"},
	} {
		addOp(failOp{Group: "builtin-argtype", Name: "builtin-argtype:" + c[0], Expr: c[0],
			MsgRe: "^invalid type for argument '[a-z]+' in call to '" + q("builtin-function:"+c[1]) + "': expected .+, found .+$"})
	}
	addOp(failOp{Group: "builtin-argtype", Name: "builtin-argtype:range-step", Expr: "range(1, 5, 0)",
		MsgRe: "^range step must be greater than 0$"})
	addOp(failOp{Group: "builtin-argtype", Name: "builtin-argtype:host-argt", Expr: "@argt(1)",
		MsgRe: "^" + q("invalid type for argument 'first' in call to 'user-function:argt': expected string, found int") + "$"})
	addOp(failOp{Group: "builtin-oob", Name: "builtin-oob:splice-start", Expr: "splice([1, 2], 5)",
		MsgRe: oob, Sentinel: "ErrIndexOutOfBounds"})
	addOp(failOp{Group: "builtin-oob", Name: "builtin-oob:splice-count", Expr: "splice([1, 2], 0,\n\t-1)",
		MsgRe: oob, Sentinel: "ErrIndexOutOfBounds"})
	addOp(failOp{Group: "builtin-oob", Name: "builtin-oob:splice-var",
		Vars: []varDef{{Name: "a", Init: "[1, 2, 3]"}}, Expr: "splice($a, -1)",
		MsgRe: oob, Sentinel: "ErrIndexOutOfBounds"})

	// --- host function returning its own error values
	addOp(failOp{Group: "host-error", Name: "host-error:ptr", Expr: "@fail(7)", MsgRe: "^host failure code=7$", Host: "ptr:7"})
	addOp(failOp{Group: "host-error", Name: "host-error:ptr-multiline", Expr: "@fail(\n\t41,\n\t2)", MsgRe: "^host failure code=41$", Host: "ptr:41"})
	addOp(failOp{Group: "host-error", Name: "host-error:val", Expr: "@failv(9)", MsgRe: "^host value failure code=9$", Host: "val:9"})
	addOp(failOp{Group: "host-error", Name: "host-error:wrapped", Expr: "@failw(3)", MsgRe: "^host context: host failure code=3$", Host: "wrapped:3"})
	addOp(failOp{Group: "host-error", Name: "host-error:wraps-wrong-args", Expr: "@failargc(5)", MsgRe: "^host refuses: host failure code=5 ", Host: "wrapped:5"})
	addOp(failOp{Group: "host-error", Name: "host-error:wraps-arg-type", Expr: "@failargt(6)", MsgRe: "^host refuses: host failure code=6 ", Host: "wrapped:6"})
	addOp(failOp{Group: "host-error", Name: "host-error:sentinel", Expr: "@sentinel()", MsgRe: "^host sentinel failure$", Host: "sentinel"})
	addOp(failOp{Group: "host-error", Name: "host-error:engine-sentinel", Expr: "@oob()", MsgRe: oob, Sentinel: "ErrIndexOutOfBounds"})

	// --- string / bytes limit (run with a small process-wide limit)
	sl := func(name string, vars []varDef, expr string, stmts []string) {
		addOp(failOp{Group: "string-limit", Name: "string-limit:" + name, Vars: vars, Expr: expr, Stmt: stmts,
			MsgRe: "^exceeding string size limit$", Sentinel: "ErrStringLimit", StrLimit: limitLen})
	}
	s8 := []varDef{{Name: "s", Init: `"abcdefgh"`}}
	sl("s+s", s8, "($s + $s)", nil)
	sl("s+int", s8, "($s +\n\t123456)", nil)
	sl("s+array", s8, "($s + [1, 2, 3])", nil)
	sl("s+=s", []varDef{{Name: "s", Init: `"abcdefgh"`, NoInline: true}}, "", []string{"$s += $s", "$s +=\n\t\"ijklm\""})
	sl("string(int)", nil, "string(1234567890123)", nil)
	sl("string(bytes)", nil, `string(bytes("abcdefg") + bytes("hijklmn"))`, nil)
	sl("string(array)", nil, "string([1, 2, 3, 4, 5])", nil)
	sl("format", s8, `format("%s-%s", $s, $s)`, nil)
	sl("format-width", nil, `format("%20d", 1)`, nil)
	bl := func(name string, vars []varDef, expr string, stmts []string) {
		addOp(failOp{Group: "bytes-limit", Name: "bytes-limit:" + name, Vars: vars, Expr: expr, Stmt: stmts,
			MsgRe: "^exceeding bytes size limit$", Sentinel: "ErrBytesLimit", BytesLimit: limitLen})
	}
	b8 := []varDef{{Name: "b", Init: `bytes("abcdefgh")`}}
	bl("b+b", b8, "($b + $b)", nil)
	bl("b+=b", []varDef{{Name: "b", Init: `bytes("abcdefgh")`, NoInline: true}}, "", []string{"$b += $b", "$b +=\n\t$b"})
	bl("bytes(n)", nil, "bytes(100)", nil)
	bl("bytes(string)", nil, `bytes("abcdefghijklm")`, nil)

	// --- allocation limit: everything before the loop allocates far fewer than
	// allocBudget objects (every filler allocates <= 10 objects, a body has
	// <= ~12 of them, <= 7 bodies + 3 file top levels: < 1200), the loop far
	// more (>= 1 per iteration, 8000 iterations); inside the
	// loop only the marked statement allocates (for-in over a builtin range
	// does not), so the failing statement is known whatever the exact count.
	for i, body := range []string{"$z = [$x,\n\t\t$x]", "$z = {k: $x}", "$z = error($x)", "$z = $x + 1", "$z = immutable([$x])",
		"$z = string($x)", "$z = -$x", "$z = [1, 2, 3][0:1]", "$z = [func() { return $x }]", "$z = \"a\" + $x", "$z = ^$x",
		"$z = [[$x], {a: $x},\n\t\t$x * 2]", "$z = $z > 5 ? -$x : 0 - $x"} {
		addOp(failOp{Group: "alloc-limit", Name: fmt.Sprintf("alloc-limit:%d", i),
			Vars:  []varDef{{Name: "z", Init: "0", NoInline: true}},
			Stmt:  []string{"for $x in range(0, 8000) {\n\t«" + body + "»\n}", "for $x in range(0, 8000) {\n\t$y := 0\n\t«" + body + "»\n\t$y = 1\n}"},
			MsgRe: "^object allocation limit exceeded$", Sentinel: "ErrObjectAllocLimit", MaxAllocs: allocBudget})
	}

	// --- frame overflow: deep non-tail recursion of a distinct function r.
	// The recursing statement pushes the callee first and r has no locals, so
	// every frame costs one operand slot and MaxFrames is reached first (with
	// more than one slot per frame the operand stack is exhausted before
	// MaxFrames: group frame-overflow-wide below).
	for i, rec := range []string{"return [$r(),\n\t\t1]", "return $r() + 1", "return $r()[0]", "return (-$r())",
		"return $r() ?\n\t\t1 :\n\t\t2", "if $r() {\n\t\treturn 1\n\t}", "return error($r())", "return immutable([$r()])"} {
		tail := ""
		if i == 5 {
			tail = "\n\treturn 0"
		}
		addOp(failOp{Group: "frame-overflow", Name: fmt.Sprintf("frame-overflow:%d", i),
			Vars:  []varDef{{Name: "r", Init: "func() {\n\t@tick()\n\t«" + rec + "»" + tail + "\n}", NoInline: true}},
			Expr:  "$r()",
			MsgRe: "^stack overflow$", Sentinel: "ErrStackOverflow", Overflow: true})
	}
	// the same with two or more operand slots per frame (parameters, locals,
	// pending operands under the call): the 2048-slot operand stack is
	// exhausted before MaxFrames; reported as ErrStackOverflow since 8f34add
	// (was finding C14-operand-stack-overflow). The push that runs past the
	// end can belong to the recursing statement or to the counter statement
	// ⟦ ⟧ of the newest call; the oracle tells the two apart (payload Tick).
	for i, w := range []struct{ rec, tail string }{
		{"return 1 + $r($n + 1)", ""},
		{"return [1,\n\t\t$r($n)]", ""},
		{"return len($r($n))", ""},
		{"$m := $r($n + 1)", "\n\treturn $m"},
		{"return {a: $n, b: [$n, $r($n +\n\t\t1)]}", ""},
		{"if $m := [$n, $r($n)]; $m {\n\t\treturn $m\n\t}", "\n\treturn 0"},
	} {
		call := "$r(1)"
		addOp(failOp{Group: "frame-overflow-wide", Name: fmt.Sprintf("frame-overflow-wide:%d", i),
			Vars:  []varDef{{Name: "r", Init: "func($n) {\n\t⟦@tick()⟧\n\t«" + w.rec + "»" + w.tail + "\n}", NoInline: true}},
			Expr:  call,
			MsgRe: "^stack overflow$", Sentinel: "ErrStackOverflow", Overflow: true, Finding: findingOpStack})
	}

	// --- integer division / modulo by zero: tengo.ErrDivisionByZero, located
	// like any operator error since 342098c (was finding F17)
	dz := "^integer division by zero$"
	addOp(failOp{Group: "div-zero", Name: "div-zero:/0", Vars: []varDef{{Name: "a", Init: "7"}}, Expr: "($a / 0)", MsgRe: dz, Sentinel: "ErrDivisionByZero", Finding: findingDivZero})
	addOp(failOp{Group: "div-zero", Name: "div-zero:%0", Vars: []varDef{{Name: "a", Init: "7"}}, Expr: "($a % 0)", MsgRe: dz, Sentinel: "ErrDivisionByZero", Finding: findingDivZero})
	addOp(failOp{Group: "div-zero", Name: "div-zero:/z", Vars: []varDef{{Name: "a", Init: "7"}, {Name: "z", Init: "0", NoInline: true}}, Expr: "($a /\n\t$z)", MsgRe: dz, Sentinel: "ErrDivisionByZero", Finding: findingDivZero})
	addOp(failOp{Group: "div-zero", Name: "div-zero:/=", Vars: []varDef{{Name: "a", Init: "7", NoInline: true}}, Stmt: []string{"$a /= 0", "$a %=\n\t0"}, MsgRe: dz, Sentinel: "ErrDivisionByZero", Finding: findingDivZero})

	for g := range opsByGroup {
		groupNames = append(groupNames, g)
	}
	sort.Strings(groupNames)
}

const (
	limitLen    = 12   // MaxStringLen / MaxBytesLen of the limit ops
	allocBudget = 3000 // SetMaxAllocs of the alloc-limit ops

	findingDivZero = "F17-int-div-by-zero"
	findingOpStack = "C14-operand-stack-overflow"
)

// openFindings: genuine defects of the tree under test (FINDINGS.md). While a
// switch is on, the generator never emits that pattern (counted as a discard
// "known:<id>") and TestKnownFindings reports it from its committed replay.
// Both findings are repaired in /repo (342098c, 8f34add): switches off, the
// patterns are generated and judged, replays under replays/C14/fixed.
var openFindings = map[string]bool{
	findingDivZero: false,
	findingOpStack: false,
}
