package c14

// Twin functions: two or more function literals whose compiled form is
// byte-identical (no constants inside, same parameter and local names) at
// different places of the program - in main, nested in other functions, in a
// module. Anything that shares, caches or merges compiled functions by
// content (constant de-duplication, copies that keep or drop the source map)
// must still report a failure inside the twin that was actually running, and
// the call statement that was actually executing. The main generator of this
// package cannot build such bodies (its failing operations need constants).

import (
	"fmt"
	"strings"
	"testing"

	"pgregory.net/rapid"
)

// constant-free failing bodies over the parameters a, b; called with the
// globals (one, zero): both ints
var twinOps = []struct{ stmt, msgRe string }{
	{"return a / b", `division by zero`},
	{"return a % b", `division by zero`},
	{"return a[b]", `not indexable`},
	{"return a(b)", `not callable`},
	{"return a[b:]", `not indexable`},
	{"for v in a { return v }", `not iterable`},
	{"c := a / b\nreturn c", `division by zero`},
	{"return [a, b][a][b]", `not indexable`},
}

// constant-free statements that do not fail
var twinFillers = []string{"c0 := a", "c1 := b", "if a { c2 := b }", "c3 := [a, b]", "c4 := a == b", "for v in [a, b] { c5 := v }", "c6 := a && b"}

func genTwin(t *rapid.T) *casePayload {
	op := twinOps[rapid.IntRange(0, len(twinOps)-1).Draw(t, "op")]
	var pre []string
	for _, f := range twinFillers { // each at most once: they declare distinct names
		if rapid.IntRange(0, 3).Draw(t, "filler") == 0 {
			pre = append(pre, f)
		}
	}
	body := func(markFail bool, indent string) string {
		s := op.stmt
		if markFail {
			// the failing statement is the first line of op.stmt
			first, rest, more := strings.Cut(s, "\n")
			s = mark(1, first)
			if more {
				s += "\n" + rest
			}
		}
		lines := append(append([]string{}, pre...), strings.Split(s, "\n")...)
		return indent + strings.Join(lines, "\n"+indent)
	}
	n := rapid.IntRange(2, 4).Draw(t, "twins")
	called := rapid.IntRange(0, n-1).Draw(t, "called")
	inModule := -1 // index of the twin that lives in module m1, if any
	if rapid.IntRange(0, 2).Draw(t, "moduleTwin") == 0 {
		inModule = rapid.IntRange(0, n-1).Draw(t, "whichInModule")
	}
	var main, mod strings.Builder
	main.WriteString("one := 1\nzero := 0\n")
	callee := make([]string, n)
	for i := 0; i < n; i++ {
		// blank lines / comments shift every twin to its own lines and columns
		for k := rapid.IntRange(0, 2).Draw(t, "gap"); k > 0; k-- {
			main.WriteString("// gap\n")
		}
		name := fmt.Sprintf("tw%d", i)
		switch {
		case i == inModule:
			fmt.Fprintf(&mod, "helper := func(x) { return x }\nexport {\n\tf: func(a, b) {\n%s\n\t}\n}\n", body(i == called, "\t\t"))
			fmt.Fprintf(&main, "m%d := import(\"m1\")\n", i)
			callee[i] = fmt.Sprintf("m%d.f", i)
		case rapid.IntRange(0, 3).Draw(t, "nested") == 0:
			// made inside another function (a fresh closure-free literal per call)
			fmt.Fprintf(&main, "mk%d := func() {\n\treturn func(a, b) {\n%s\n\t}\n}\n%s := mk%d()\n", i, body(i == called, "\t\t"), name, i)
			callee[i] = name
		default:
			fmt.Fprintf(&main, "%s := func(a, b) {\n%s\n}\n", name, body(i == called, "\t"))
			callee[i] = name
		}
	}
	// the other twins are called with harmless arguments first (so that they
	// are live and run), then the chosen one fails
	for i := 0; i < n; i++ {
		if i != called && rapid.Bool().Draw(t, "warm") && !strings.Contains(op.stmt, "a(b)") && !strings.Contains(op.stmt, "for v in a") && !strings.Contains(op.stmt, "[b") {
			fmt.Fprintf(&main, "w%d := %s(one, one)\n", i, callee[i])
		}
	}
	via := rapid.IntRange(0, 2).Draw(t, "via")
	switch via {
	case 0:
		main.WriteString(mark(2, fmt.Sprintf("r := %s(one, zero)", callee[called])) + "\n")
	case 1: // through copy(): a function object with a copy of the instructions
		fmt.Fprintf(&main, "cp := copy(%s)\n", callee[called])
		main.WriteString(mark(2, "r := cp(one, zero)") + "\n")
	default: // picked from a table of all twins
		fmt.Fprintf(&main, "tbl := [%s]\n", strings.Join(callee, ", "))
		main.WriteString(mark(2, fmt.Sprintf("r := tbl[%d](one, zero)", called)) + "\n")
	}
	p := &casePayload{Kind: "twin", MsgRe: op.msgRe}
	mainText, mainSpans, err := strip("(main)", main.String())
	if err != nil {
		t.Fatalf("generator: %v", err)
	}
	p.Main = mainText
	spans := mainSpans
	if inModule >= 0 {
		modText, modSpans, err := strip("m1", mod.String())
		if err != nil {
			t.Fatalf("generator: %v", err)
		}
		p.Modules = []modSrc{{Name: "m1", Src: modText}}
		for k, v := range modSpans {
			spans[k] = v
		}
	}
	p.Fail = spans[1]
	p.Trace = []traceItem{{Span: spans[2]}}
	home := "main"
	if called == inModule {
		home = "module"
	}
	p.Meta = caseMeta{Group: "twin-functions", Op: op.stmt, Depth: 1, Scenario: fmt.Sprintf("twins=%d,via=%d", n, via), FailHome: home,
		FailLines: 2, Features: []string{fmt.Sprintf("twin:called-%d-of-%d", called, n), fmt.Sprintf("twin:via-%d", via)}}
	if inModule >= 0 {
		p.Meta.Modules = 1
		p.Meta.Features = append(p.Meta.Features, "twin:one-in-module")
	}
	return p
}

// TestTwinFunctions: see the comment at the top of this file.
func TestTwinFunctions(t *testing.T) {
	rapid.Check(t, func(t *rapid.T) { evaluate(t, "TestTwinFunctions", genTwin(t)) })
}

// ---------------------------------------------------------------------------
// File starts: the failing statement, or a call statement of the trace, begins
// at the very first byte of its file - of main or of a module, and of a file
// that is not the last one the compiler added. The main generator always
// begins a file with `host := import("host")`.
// ---------------------------------------------------------------------------

// statements whose failing operation is located at the statement's first byte
var startFails = []struct{ stmt, msgRe string }{
	{`len()`, `wrong number of arguments`},
	{`1[0]`, `not indexable`},
	{`-"s"`, `invalid operation`},
	{`"a" - 1`, `invalid operation`},
	{`undefined()`, `not callable`},
	{`[1, 2][3:1]`, `invalid slice index`},
}

const boomModule = "export {\n\tboom: func(x) {\n\t\ty := x\n\t\t\x00S1;return y[0]\x00E1;\n\t}\n}\n"

func genFileStart(t *rapid.T) *casePayload {
	sf := startFails[rapid.IntRange(0, len(startFails)-1).Draw(t, "stmt")]
	scen := rapid.IntRange(0, 3).Draw(t, "scenario")
	extra := rapid.Bool().Draw(t, "extraModule") // one more module, imported (compiled) last
	tail := ""
	if extra {
		tail = "last := import(\"mz\")\n"
	}
	files := map[string]string{}
	p := &casePayload{Kind: "file-start"}
	var trace []int
	switch scen {
	case 0: // main begins with the failing statement; modules are compiled after it
		files["(main)"] = mark(1, sf.stmt) + "\nm := import(\"m1\")\n" + tail
		files["m1"] = "export {a: 1}\n"
		p.MsgRe = sf.msgRe
	case 1: // module m1 begins with the failing statement and fails while being imported
		files["(main)"] = "one := 1\n" + mark(2, "a := import(\"m1\")") + "\nb := import(\"m2\")\n" + tail
		files["m1"] = mark(1, sf.stmt) + "\nexport {a: 1}\n"
		files["m2"] = "export {b: 2}\n"
		p.MsgRe = sf.msgRe
		trace = []int{2}
	case 2: // main begins with the call statement of the trace
		files["(main)"] = mark(2, "import(\"m1\").boom(1)") + "\nz := 0\n" + tail
		files["m1"] = boomModule
		p.MsgRe = `not indexable`
		trace = []int{2}
	default: // a module begins with the call statement; main imports it
		files["(main)"] = "one := 1\n" + mark(3, "x := import(\"m1\")") + "\n" + tail
		files["m1"] = mark(2, "import(\"m2\").boom(1)") + "\nexport {a: 1}\n"
		files["m2"] = boomModule
		p.MsgRe = `not indexable`
		trace = []int{2, 3}
	}
	if extra {
		files["mz"] = "export {z: 26}\n"
	}
	spans := map[int]spanT{}
	for _, name := range []string{"(main)", "m1", "m2", "mz"} {
		src, ok := files[name]
		if !ok {
			continue
		}
		text, sp, err := strip(name, src)
		if err != nil {
			t.Fatalf("generator: %v", err)
		}
		for k, v := range sp {
			spans[k] = v
		}
		if name == "(main)" {
			p.Main = text
		} else {
			p.Modules = append(p.Modules, modSrc{Name: name, Src: text})
		}
	}
	p.Fail = spans[1]
	for _, id := range trace {
		p.Trace = append(p.Trace, traceItem{Span: spans[id]})
	}
	home := "main"
	if p.Fail.File != "(main)" {
		home = "module"
	}
	p.Meta = caseMeta{Group: "file-start", Op: sf.stmt, Depth: len(trace), Scenario: fmt.Sprintf("file-start-%d", scen), Modules: len(p.Modules), FailHome: home,
		FailLines: 2, Features: []string{fmt.Sprintf("file-start:scenario-%d", scen)}}
	return p
}

// TestFileStart: see the comment above genFileStart.
func TestFileStart(t *testing.T) {
	rapid.Check(t, func(t *rapid.T) { evaluate(t, "TestFileStart", genFileStart(t)) })
}
