// C15 — host/script value exchange is coherent over any sequence of API calls.
//
// Part (a), conversions (stateless): TestConvert, TestAddArrives,
// TestAccessors, TestEval. Part (b), histories (state machine): TestHistories.
package c15

import (
	"bytes"
	"context"
	"fmt"
	"math"
	"os"
	"path/filepath"
	"sort"
	"strings"
	"testing"
	"time"

	"github.com/d5/tengo/v2"
	"pgregory.net/rapid"

	"verifharness/ev"
	"verifharness/tv"
)

func TestMain(m *testing.M) { ev.Main(m, "C15") }

// Open findings (see FINDINGS.md). While a switch is on, the generator leaves
// the exact pattern out (counted as discard "known:<id>") and
// TestKnownFindings re-runs the committed reproducer.
var openFindings = map[string]bool{
	"F-C15-nil-objmap": false, // repaired in /repo (de2e3de); replay moved to fixed/
}

// ---------- (a) conversions ----------

type convPayload struct {
	Value *GoSpec `json:"value"`
	Path  string  `json:"path,omitempty"` // TestAddArrives: "add" or "set"
}

func safeFrom(v interface{}) (o tengo.Object, err error, pan interface{}) {
	pan = safely(func() { o, err = tengo.FromInterface(v) })
	return
}

func hasErrNode(v interface{}) bool {
	switch x := v.(type) {
	case errNode:
		return true
	case []interface{}:
		for _, e := range x {
			if hasErrNode(e) {
				return true
			}
		}
	case map[string]interface{}:
		for _, e := range x {
			if hasErrNode(e) {
				return true
			}
		}
	}
	return false
}

func convClasses(s *GoSpec, prefix string) (cls []string, nontrivial bool) {
	d := s.depth()
	cls = append(cls, prefix+"kind:"+s.K)
	if d >= 2 {
		cls = append(cls, prefix+"nested>=2")
	}
	if d >= 3 {
		cls = append(cls, prefix+"nested>=3")
	}
	if s.Nil {
		cls = append(cls, prefix+"typed-nil")
	}
	if !s.supported() {
		cls = append(cls, prefix+"unsupported")
		if supportedKinds[s.K] {
			cls = append(cls, prefix+"unsupported-nested")
		}
	}
	// non-trivial: a nested container crossing the boundary (DESIGN §4 C15)
	return cls, d >= 2
}

func checkConvert(t ev.TB, test string, s *GoSpec) {
	p := convPayload{Value: s}
	val := s.build()
	obj, err, pan := safeFrom(val)
	if pan != nil {
		ev.Fail(t, test, p, "FromInterface(%s) panicked: %v", s.describe(), pan)
		return
	}
	cls, nontrivial := convClasses(s, "conv:")
	exp, ok := s.expect()
	var nv *tengo.Variable
	var nerr error
	if pan := safely(func() { nv, nerr = tengo.NewVariable("n", s.build()) }); pan != nil {
		ev.Fail(t, test, p, "NewVariable(%s) panicked: %v", s.describe(), pan)
		return
	}
	if !ok {
		// not in the table of interoperability.md: an error, no object
		if err == nil {
			ev.Fail(t, test, p, "FromInterface accepted %s (%T), which is not in the conversion table: %s", s.describe(), val, tv.Describe(obj))
			return
		}
		if obj != nil {
			ev.Fail(t, test, p, "FromInterface(%s) returned both an error and an object %s", s.describe(), tv.Describe(obj))
			return
		}
		if nerr == nil || nv != nil {
			ev.Fail(t, test, p, "NewVariable accepted %s (%T), which is not in the conversion table", s.describe(), val)
			return
		}
		ev.Case("conv|"+s.describe(), nontrivial, cls...)
		return
	}
	if err != nil {
		ev.Fail(t, test, p, "FromInterface(%s) (%T) failed: %v", s.describe(), val, err)
		return
	}
	if obj == nil {
		ev.Fail(t, test, p, "FromInterface(%s) returned no object and no error", s.describe())
		return
	}
	if got, want := tv.Describe(obj), tv.Describe(exp); got != want {
		ev.Fail(t, test, p, "FromInterface(%T %s) = %s, the conversion table gives %s", val, s.describe(), got, want)
		return
	}
	if s.K == "object" && obj != val.(tengo.Object) {
		// "Object -> Object (no type conversion performed)"
		ev.Fail(t, test, p, "FromInterface(Object %s) returned a different object", s.describe())
		return
	}
	// and back
	var back interface{}
	if pan := safely(func() { back = tengo.ToInterface(obj) }); pan != nil {
		ev.Fail(t, test, p, "ToInterface(%s) panicked: %v", tv.Describe(obj), pan)
		return
	}
	norm := normObj(exp)
	if d := sameGo(back, norm); d != "" {
		ev.Fail(t, test, p, "ToInterface(FromInterface(%s)) is not the normalised value: %s", s.describe(), d)
		return
	}
	// the normalised value is a fixed point of the round trip (errors
	// excepted: their message gains the "error: " prefix on every trip)
	if !hasErrNode(norm) {
		obj2, err2, pan2 := safeFrom(back)
		if pan2 != nil || err2 != nil {
			ev.Fail(t, test, p, "FromInterface(ToInterface(FromInterface(%s))) failed: %v %v", s.describe(), err2, pan2)
			return
		}
		if d := sameGo(tengo.ToInterface(obj2), norm); d != "" {
			ev.Fail(t, test, p, "second round trip of %s changes the value: %s", s.describe(), d)
			return
		}
		cls = append(cls, "conv:second-trip")
	}
	// NewVariable: same conversion
	if nerr != nil || nv == nil {
		ev.Fail(t, test, p, "NewVariable(%s) failed: %v", s.describe(), nerr)
		return
	}
	if nv.Name() != "n" {
		ev.Fail(t, test, p, "NewVariable(\"n\", …).Name() = %q", nv.Name())
		return
	}
	if d := accessorDiff(nv, exp); d != "" {
		ev.Fail(t, test, p, "NewVariable(%s): %s", s.describe(), d)
		return
	}
	ev.Case("conv|"+s.describe(), nontrivial, cls...)
	if nontrivial && wantSample("convert") {
		ev.Sample(map[string]string{"kind": "convert", "go": fmt.Sprintf("%T", val), "tengo": clip(tv.Describe(obj)), "back": clip(fmt.Sprintf("%#v", back))})
	}
}

// wantSample: two samples per test, taken by shard 0 only, so that the merged
// evidence (the driver keeps the first 8 in job order) shows every kind.
var sampleCount = map[string]int{}

func wantSample(kind string) bool {
	if sh := os.Getenv("VERIF_SHARD"); sh != "" && sh != "0" {
		return false
	}
	if sampleCount[kind] >= 2 || !ev.WantSample() {
		return false
	}
	sampleCount[kind]++
	return true
}

func clip(s string) string {
	if len(s) > 300 {
		return s[:300] + "…"
	}
	return s
}

func TestConvert(t *testing.T) {
	rapid.Check(t, func(t *rapid.T) {
		s := genGoSpec(t, genOpts{unsupported: true}, rapid.IntRange(0, 4).Draw(t, "depth"))
		checkConvert(t, "TestConvert", s)
	})
}

// accessorDiff checks every accessor of a Variable against the documented
// tables for the value exp; "" when all agree.
func accessorDiff(v *tengo.Variable, exp tengo.Object) (diff string) {
	if pan := safely(func() { diff = accessorDiff1(v, exp) }); pan != nil {
		return fmt.Sprintf("an accessor panicked on %s: %v", tv.Describe(exp), pan)
	}
	return
}

func accessorDiff1(v *tengo.Variable, exp tengo.Object) string {
	desc := tv.Describe(exp)
	if got := tv.Describe(v.Object()); got != desc {
		return fmt.Sprintf("Object() = %s, expected %s", got, desc)
	}
	if got, want := v.IsUndefined(), exp == tengo.UndefinedValue; got != want {
		return fmt.Sprintf("IsUndefined() = %v for %s", got, desc)
	}
	if got, want := v.ValueType(), typeName(exp); got != want {
		return fmt.Sprintf("ValueType() = %q for %s, expected %q", got, desc, want)
	}
	if d := sameGo(v.Value(), normObj(exp)); d != "" {
		return fmt.Sprintf("Value() of %s: %s", desc, d)
	}
	// Error(): the error for an error value ("error: ..."), nil otherwise
	gotErr := v.Error()
	if e, ok := exp.(*tengo.Error); ok {
		if gotErr == nil {
			return fmt.Sprintf("Error() = nil for %s", desc)
		}
		if !matchRender(e, gotErr.Error()) {
			return fmt.Sprintf("Error() = %q for %s, expected %q", gotErr.Error(), desc, render(e))
		}
	} else if gotErr != nil {
		return fmt.Sprintf("Error() = %v for the non-error %s", gotErr, desc)
	}
	// Array(): the converted elements for an array, the zero value otherwise.
	// (impl: an empty array gives a nil slice; an immutable array gives nil
	// although Value() converts it: the table has no row for it, both are
	// accepted.)
	gotArr := v.Array()
	switch a := exp.(type) {
	case *tengo.Array:
		if d := sameGo(orEmpty(gotArr), normSeq(a.Value)); d != "" {
			return fmt.Sprintf("Array() of %s: %s", desc, d)
		}
	case *tengo.ImmutableArray:
		if gotArr != nil {
			if d := sameGo(gotArr, normSeq(a.Value)); d != "" {
				return fmt.Sprintf("Array() of %s: %s", desc, d)
			}
		}
	default:
		if gotArr != nil {
			return fmt.Sprintf("Array() = %v for the non-array %s", gotArr, desc)
		}
	}
	gotMap := v.Map()
	switch mm := exp.(type) {
	case *tengo.Map:
		if gotMap == nil {
			return fmt.Sprintf("Map() = nil for %s", desc)
		}
		if d := sameGo(gotMap, normMap(mm.Value)); d != "" {
			return fmt.Sprintf("Map() of %s: %s", desc, d)
		}
	case *tengo.ImmutableMap:
		if gotMap != nil {
			if d := sameGo(gotMap, normMap(mm.Value)); d != "" {
				return fmt.Sprintf("Map() of %s: %s", desc, d)
			}
		}
	default:
		if gotMap != nil {
			return fmt.Sprintf("Map() = %v for the non-map %s", gotMap, desc)
		}
	}
	if !inTable(exp) {
		return "" // functions, user types: the coercion table has no row
	}
	w64 := wantInt64(exp)
	if got := v.Int64(); got != w64 {
		return fmt.Sprintf("Int64() = %d for %s, the coercion table gives %d", got, desc, w64)
	}
	if got := v.Int(); got != int(w64) {
		return fmt.Sprintf("Int() = %d for %s, the coercion table gives %d", got, desc, int(w64))
	}
	wf := wantFloat(exp)
	if got := v.Float(); !(math.Float64bits(got) == math.Float64bits(wf) || (math.IsNaN(got) && math.IsNaN(wf))) {
		return fmt.Sprintf("Float() = %v for %s, the coercion table gives %v", got, desc, wf)
	}
	if got, want := v.Char(), wantChar(exp); got != want {
		return fmt.Sprintf("Char() = %d for %s, the coercion table gives %d", got, desc, want)
	}
	f, _ := falsy(exp)
	if got := v.Bool(); got != !f {
		return fmt.Sprintf("Bool() = %v for %s, the coercion table gives %v", got, desc, !f)
	}
	wb := wantBytes(exp)
	if got := v.Bytes(); !bytes.Equal(got, wb) || (wb == nil && got != nil && !isBytesOrString(exp)) {
		return fmt.Sprintf("Bytes() = %q for %s, the coercion table gives %q", got, desc, wb)
	}
	if ok, want := stringOK(exp, v.String()); !ok {
		return fmt.Sprintf("String() = %q for %s, the coercion table gives %q", v.String(), desc, want)
	}
	return ""
}

func isBytesOrString(o tengo.Object) bool {
	switch o.(type) {
	case *tengo.Bytes, *tengo.String:
		return true
	}
	return false
}

func orEmpty(a []interface{}) []interface{} {
	if a == nil {
		return []interface{}{}
	}
	return a
}

type accPayload struct {
	Value *tv.Spec `json:"value"`
}

func accClasses(o tengo.Object) []string {
	cls := []string{"acc:type:" + strings.SplitN(typeName(o), ":", 2)[0]}
	switch v := o.(type) {
	case *tengo.Float:
		if math.IsNaN(v.Value) || math.IsInf(v.Value, 0) || v.Value >= 9.3e18 || v.Value <= -9.3e18 {
			cls = append(cls, "acc:float-beyond-int64")
		} else if v.Value != math.Trunc(v.Value) {
			cls = append(cls, "acc:float-fraction")
		}
	case *tengo.String:
		if wantInt64(o) != 0 {
			cls = append(cls, "acc:string-parses-as-int")
		} else if wantFloat(o) != 0 {
			cls = append(cls, "acc:string-parses-as-float")
		}
	case *tengo.Int:
		if v.Value > math.MaxInt32 || v.Value < math.MinInt32 {
			cls = append(cls, "acc:int-beyond-rune")
		}
	}
	return cls
}

func checkAccessors(t ev.TB, test string, spec *tv.Spec) {
	p := accPayload{Value: spec}
	obj := spec.ToObject()
	exp := spec.ToObject()
	var v *tengo.Variable
	var err error
	if pan := safely(func() { v, err = tengo.NewVariable("v", obj) }); pan != nil || err != nil || v == nil {
		ev.Fail(t, test, p, "NewVariable(Object %s) failed: %v %v", tv.Describe(exp), err, pan)
		return
	}
	if v.Object() != obj {
		ev.Fail(t, test, p, "NewVariable(Object %s).Object() is a different object", tv.Describe(exp))
		return
	}
	if d := accessorDiff(v, exp); d != "" {
		ev.Fail(t, test, p, "%s", d)
		return
	}
	// non-trivial: the value is coerced by at least one accessor (a row with
	// an entry other than X / identity), or is a nested container
	nontrivial := objDepth(exp) >= 2
	switch exp.(type) {
	case *tengo.Float, *tengo.String, *tengo.Char, *tengo.Int, *tengo.Error:
		nontrivial = true
	}
	ev.Case("acc|"+tv.Describe(exp), nontrivial, accClasses(exp)...)
	if nontrivial && wantSample("accessors") {
		ev.Sample(map[string]string{"kind": "accessors", "value": clip(tv.Describe(exp)), "Int": fmt.Sprint(v.Int()), "Float": fmt.Sprint(v.Float()),
			"Char": fmt.Sprint(v.Char()), "Bool": fmt.Sprint(v.Bool()), "String": clip(v.String())})
	}
}

func TestAccessors(t *testing.T) {
	rapid.Check(t, func(t *rapid.T) {
		var spec *tv.Spec
		switch rapid.IntRange(0, 3).Draw(t, "src") {
		case 0:
			// numeric-looking strings: the strconv columns
			s := rapid.OneOf(
				rapid.SampledFrom([]string{"12", "-7", "+5", " 12", "12 ", "0x10", "1e3", "3.5", ".5", "5.", "1_000", "NaN", "Inf", "-Inf",
					"9223372036854775807", "9223372036854775808", "-9223372036854775808", "1e400", "0b11", "0o17", "017", "١٢", "", "-", "--1", "1.0", "1e-400", "0x1p-2", "infinity"}),
				rapid.StringMatching(`[-+]?[0-9]{1,20}`),
				rapid.StringMatching(`[-+]?[0-9]{0,4}\.?[0-9]{0,4}([eE][-+]?[0-9]{1,3})?`),
			).Draw(t, "numstr")
			spec = tv.FromObject(&tengo.String{Value: s})
		case 1:
			s := genGoSpec(t, genOpts{}, rapid.IntRange(0, 2).Draw(t, "depth"))
			o, _ := s.expect()
			spec = tv.FromObject(o)
		default:
			spec = tv.FromObject(tv.GenObject(tv.Opts{MaxDepth: rapid.IntRange(1, 3).Draw(t, "depth"), MaxLen: 3}).Draw(t, "obj"))
		}
		checkAccessors(t, "TestAccessors", spec)
	})
}

// TestAddArrives: a Go value given to Script.Add (or Compiled.Set) arrives in
// the script as the documented Tengo type and value.
func checkAddArrives(t ev.TB, test string, s *GoSpec, path string) {
	p := convPayload{Value: s, Path: path}
	exp, ok := s.expect()
	src := "out := n\ntn := type_name(n)"
	if _, isFn := exp.(*tengo.UserFunction); ok && isFn {
		src += "\nr := n(1, 2)"
	}
	sc := tengo.NewScript([]byte(src))
	var c *tengo.Compiled
	var err error
	var stage string
	pan := safely(func() {
		if path == "set" {
			stage = "Add(nil)"
			if err = sc.Add("n", nil); err != nil {
				return
			}
			stage = "Compile"
			if c, err = sc.Compile(); err != nil {
				return
			}
			stage = "Set"
			err = c.Set("n", s.build())
		} else {
			stage = "Add"
			if err = sc.Add("n", s.build()); err != nil {
				return
			}
			stage = "Compile"
			c, err = sc.Compile()
		}
	})
	if pan != nil {
		ev.Fail(t, test, p, "%s panicked for %s: %v", stage, s.describe(), pan)
		return
	}
	cls, nontrivial := convClasses(s, "arrive:")
	cls = append(cls, "arrive:via-"+path)
	if !ok {
		if err == nil || (stage != "Add" && stage != "Set") {
			ev.Fail(t, test, p, "%s accepted %s, which is not in the conversion table (stage %s, err %v)", path, s.describe(), stage, err)
			return
		}
		ev.Case("arrive|"+path+s.describe(), nontrivial, cls...)
		return
	}
	if err != nil {
		ev.Fail(t, test, p, "%s failed for %s: %v", stage, s.describe(), err)
		return
	}
	rerr, rpan := runCompiled(c, false)
	if rpan != nil || rerr != nil {
		ev.Fail(t, test, p, "running %q with n = %s failed: %v %v", src, s.describe(), rerr, rpan)
		return
	}
	out := c.Get("out")
	if d := accessorDiff(out, exp); d != "" {
		ev.Fail(t, test, p, "n = %s read back through `out := n`: %s", s.describe(), d)
		return
	}
	if got, want := c.Get("tn").String(), typeName(exp); got != want {
		ev.Fail(t, test, p, "type_name(n) = %q for n = %s, documented type %q", got, s.describe(), want)
		return
	}
	if got, want := c.IsDefined("out"), exp != tengo.UndefinedValue; got != want {
		ev.Fail(t, test, p, "IsDefined(out) = %v for %s", got, s.describe())
		return
	}
	if fn, isFn := exp.(*tengo.UserFunction); isFn {
		r, _ := fn.Value(&tengo.Int{Value: 1}, &tengo.Int{Value: 2})
		if got := tv.Describe(c.Get("r").Object()); got != tv.Describe(r) {
			ev.Fail(t, test, p, "calling the host function from the script gave %s, expected %s", got, tv.Describe(r))
			return
		}
		cls = append(cls, "arrive:called-host-function")
	}
	ev.Case("arrive|"+path+s.describe(), nontrivial, cls...)
}

func TestAddArrives(t *testing.T) {
	rapid.Check(t, func(t *rapid.T) {
		s := genGoSpec(t, genOpts{unsupported: true}, rapid.IntRange(0, 3).Draw(t, "depth"))
		path := rapid.SampledFrom([]string{"add", "add", "set"}).Draw(t, "path")
		checkAddArrives(t, "TestAddArrives", s, path)
	})
}

// ---------- Eval ----------

type evalPayload struct {
	Expr    *Expr              `json:"expr,omitempty"`
	Src     string             `json:"src"`
	Params  map[string]*GoSpec `json:"params"`
	ErrKind string             `json:"err_kind,omitempty"` // expected failure: empty unresolved unsupported-param statement
}

func checkEval(t ev.TB, test string, p evalPayload) {
	params := map[string]interface{}{}
	env := map[string]tengo.Object{}
	allOK := true
	for k, s := range p.Params {
		params[k] = s.build()
		if o, ok := s.expect(); ok {
			env[k] = o
		} else {
			allOK = false
		}
	}
	src := p.Src
	if p.Expr != nil {
		src = p.Expr.src()
		p.Src = src
	}
	var res interface{}
	var err error
	pan := safely(func() {
		ctx, cancel := context.WithTimeout(context.Background(), 60*time.Second)
		defer cancel()
		res, err = tengo.Eval(ctx, src, params)
	})
	if pan != nil {
		ev.Fail(t, test, p, "Eval(%q) panicked: %v", src, pan)
		return
	}
	if p.ErrKind != "" || !allOK {
		if err == nil {
			ev.Fail(t, test, p, "Eval(%q) returned %#v, expected an error (%s)", src, res, p.ErrKind)
			return
		}
		if res != nil {
			ev.Fail(t, test, p, "Eval(%q) returned both a value %#v and an error %v", src, res, err)
			return
		}
		ev.Case("eval|"+src, false, "eval:error:"+p.ErrKind)
		return
	}
	want, werr := p.Expr.eval(env)
	if werr != nil {
		t.Fatalf("harness: cannot evaluate %q: %v", src, werr)
		return
	}
	if err != nil {
		ev.Fail(t, test, p, "Eval(%q) failed: %v (expected %s)", src, err, tv.Describe(want))
		return
	}
	if d := sameGo(res, normObj(want)); d != "" {
		ev.Fail(t, test, p, "Eval(%q) with %s: %s (expected the conversion of %s)", src, describeParams(p.Params), d, tv.Describe(want))
		return
	}
	ops := map[string]bool{}
	p.Expr.ops(ops)
	cls := make([]string, 0, len(ops))
	for o := range ops {
		cls = append(cls, "eval:op:"+o)
	}
	sort.Strings(cls)
	cls = append(cls, "eval:result:"+strings.SplitN(typeName(want), ":", 2)[0])
	nontrivial := ops["p"] && len(ops) >= 2 // a parameter crosses in and is computed with
	ev.Case("eval|"+src+"|"+describeParams(p.Params), nontrivial, cls...)
	if nontrivial && len(ops) >= 4 && wantSample("eval") {
		ev.Sample(map[string]string{"kind": "eval", "expr": clip(src), "params": clip(describeParams(p.Params)), "result": clip(fmt.Sprintf("%#v", res))})
	}
}

func describeParams(ps map[string]*GoSpec) string {
	ks := make([]string, 0, len(ps))
	for k := range ps {
		ks = append(ks, k)
	}
	sort.Strings(ks)
	var sb strings.Builder
	for _, k := range ks {
		fmt.Fprintf(&sb, "%s=%s ", k, clip(ps[k].describe()))
	}
	return sb.String()
}

func TestEval(t *testing.T) {
	rapid.Check(t, func(t *rapid.T) {
		p := evalPayload{Params: map[string]*GoSpec{}}
		n := rapid.IntRange(0, 4).Draw(t, "nparams")
		for i := 0; i < n; i++ {
			p.Params[fmt.Sprintf("p%d", i)] = genGoSpec(t, genOpts{small: true}, rapid.IntRange(0, 2).Draw(t, "pdepth"))
		}
		switch rapid.IntRange(0, 19).Draw(t, "mode") {
		case 0:
			p.ErrKind, p.Src = "empty", rapid.SampledFrom([]string{"", " ", "\n\t "}).Draw(t, "blank")
		case 1:
			p.ErrKind, p.Src = "unresolved", rapid.SampledFrom([]string{"zz9", "p9 + 1", "[q]"}).Draw(t, "unres")
		case 2:
			p.ErrKind, p.Src = "statement", rapid.SampledFrom([]string{"q := 1", "for {}", "1; 2", "if true { 1 }"}).Draw(t, "stmt")
		case 3:
			p.ErrKind, p.Src = "unsupported-param", "1"
			p.Params["u"] = &GoSpec{K: rapid.SampledFrom(unsupportedKinds).Draw(t, "uk"), I: 3}
		default:
			g := &exprGen{t: t, env: map[string]tengo.Object{}}
			for k, s := range p.Params {
				o, _ := s.expect()
				g.env[k] = o
			}
			g.index()
			p.Expr = g.any(rapid.IntRange(0, 3).Draw(t, "edepth"))
		}
		checkEval(t, "TestEval", p)
	})
}

// ---------- (b) histories ----------

func genHistValue(t *rapid.T) *GoSpec {
	o := genOpts{small: true} // builtin-function objects included: a clone must read "builtin-function:<name>" like the original (O2, repaired by bd9c161)
	if rapid.IntRange(0, 7).Draw(t, "shaped") == 0 {
		// shapes the in-place templates can write into: {k: {..}}, [[..], ..]
		inner := genGoSpec(t, o, 1)
		switch rapid.IntRange(0, 3).Draw(t, "shape") {
		case 0:
			return &GoSpec{K: "mapi", Keys: []string{hexOf("k")}, Kids: []*GoSpec{{K: "mapi", Keys: []string{hexOf("j")}, Kids: []*GoSpec{inner}}}}
		case 1:
			return &GoSpec{K: "mapi", Keys: []string{hexOf("k")}, Kids: []*GoSpec{inner}}
		case 2:
			return &GoSpec{K: "object", Obj: tv.FromObject(&tengo.ImmutableMap{Value: map[string]tengo.Object{
				"k": &tengo.Map{Value: map[string]tengo.Object{"i": &tengo.Int{Value: 1}}}}})}
		default:
			return &GoSpec{K: "slicei", Kids: []*GoSpec{inner, {K: "int", I: 2}}}
		}
	}
	if rapid.IntRange(0, 19).Draw(t, "unsup") == 0 {
		o.unsupported = true
	}
	return genGoSpec(t, o, rapid.SampledFrom([]int{0, 0, 1, 1, 1, 2, 2, 3}).Draw(t, "vdepth"))
}

var (
	inputNames = []string{"a", "a", "a", "a", "a", "a", "a", "a", "a", "a", "b", "b", "b", "b", "b", "b", "b", "b", "b", "b",
		"c", "c", "c", "c", "c", "c", "x", "y", "z", "len", "len", "format"} // len, format: a host variable may be named like a builtin function
	opsWithObj = []string{"add", "add", "remove", "compile", "compile", "srun", "set", "set", "set", "set", "set",
		"run", "run", "run", "run", "run", "get", "get", "get", "getall", "isdef", "clone", "clone"}
	opsNoObj = []string{"add", "add", "add", "remove", "compile", "compile", "compile", "srun"}
	anyNames   = []string{"a", "b", "c", "x", "y", "a", "b", "x", "t", "f", "z", "len", "format"}
)

func TestHistories(t *testing.T) {
	rapid.Check(t, func(t *rapid.T) {
		m := newMachine(rapid.IntRange(0, len(templates)-1).Draw(t, "template"))
		do := func(t *rapid.T, a Action) {
			if id := m.knownPattern(a); id != "" {
				ev.Discard("known:" + id)
				t.Skip("known finding " + id)
			}
			if f := m.apply(a); f != "" {
				ev.Fail(t, "TestHistories", m.payload(), "template %q: %s", m.tpl.src, f)
			}
		}
		// most machines start with the inputs the template needs
		if rapid.IntRange(0, 19).Draw(t, "prefill") > 0 {
			for _, n := range m.tpl.reads {
				if rapid.IntRange(0, 19).Draw(t, "skipfill") == 0 {
					continue
				}
				a := Action{Op: "add", Name: n, Val: genHistValue(t)}
				if m.knownPattern(a) != "" {
					ev.Discard("known:" + m.knownPattern(a))
					continue
				}
				do(t, a)
			}
		}
		t.Repeat(map[string]func(*rapid.T){
			"step": func(t *rapid.T) {
				ops := opsWithObj
				if len(m.objs) == 0 {
					ops = opsNoObj
				}
				a := Action{Op: rapid.SampledFrom(ops).Draw(t, "op")}
				switch a.Op {
				case "add":
					a.Name, a.Val = rapid.SampledFrom(inputNames).Draw(t, "name"), genHistValue(t)
				case "remove":
					a.Name = rapid.SampledFrom(inputNames).Draw(t, "name")
					if d := sortedKeys(m.decl); len(d) > 0 && rapid.IntRange(0, 2).Draw(t, "declared") > 0 {
						a.Name = rapid.SampledFrom(d).Draw(t, "dname")
					}
				case "srun":
					a.Ctx = rapid.Bool().Draw(t, "ctx")
				case "set":
					a.Name, a.Val = rapid.SampledFrom(anyNames).Draw(t, "name"), genHistValue(t)
				case "run":
					a.Ctx = rapid.IntRange(0, 3).Draw(t, "ctx") == 0
				case "get", "isdef":
					a.Name = rapid.SampledFrom(anyNames).Draw(t, "name")
				}
				switch a.Op {
				case "set", "run", "get", "getall", "isdef", "clone":
					a.Obj = rapid.IntRange(0, len(m.objs)-1).Draw(t, "obj")
				}
				do(t, a)
			},
		})
		// evidence: one case per history
		cls := []string{"hist:template:" + m.tpl.name}
		both := m.runAfterSet && m.sawClone
		if m.runAfterSet {
			cls = append(cls, "hist:run-after-set")
		}
		if m.sawClone {
			cls = append(cls, "hist:clone")
		}
		if both {
			cls = append(cls, "hist:run-after-set+clone")
		}
		if m.cloneUsed {
			cls = append(cls, "hist:action-on-a-clone")
		}
		if m.nested {
			cls = append(cls, "hist:nested-value-crossed")
		}
		if m.compileErrs > 0 {
			cls = append(cls, "hist:compile-error-predicted")
		}
		if m.runErrs > 0 {
			cls = append(cls, "hist:run-error-predicted")
		}
		if m.setErrs > 0 {
			cls = append(cls, "hist:set-error-predicted")
		}
		if len(m.objs) == 0 {
			cls = append(cls, "hist:never-compiled")
			why := "never-tried"
			switch {
			case m.tpl.parseErr:
				why = "parse-error-template"
			case m.compileErrs > 0:
				why = "always-missing-or-redeclared"
			}
			cls = append(cls, "hist:never-compiled:"+why)
		}
		ev.Case("hist|"+m.key(), both || m.nested, cls...)
		ev.ClassN("hist:steps", int64(len(m.hist)))
		for op, n := range m.ops {
			ev.ClassN("act:"+op, int64(n))
		}
		if both && len(m.hist) >= 8 && len(m.hist) <= 40 && wantSample("history") {
			ev.Sample(map[string]interface{}{"kind": "history", "script": m.tpl.src, "calls": m.payload().Trace})
		}
	})
}

// ---------- replay ----------

func replayFile(t *testing.T, path string) {
	test := ev.ReplayTest(path)
	switch test {
	case "TestConvert":
		var p convPayload
		if _, err := ev.LoadReplay(path, &p); err != nil {
			t.Fatalf("load %s: %v", path, err)
		}
		checkConvert(t, test, p.Value)
	case "TestAddArrives":
		var p convPayload
		if _, err := ev.LoadReplay(path, &p); err != nil {
			t.Fatalf("load %s: %v", path, err)
		}
		checkAddArrives(t, test, p.Value, p.Path)
	case "TestAccessors":
		var p accPayload
		if _, err := ev.LoadReplay(path, &p); err != nil {
			t.Fatalf("load %s: %v", path, err)
		}
		checkAccessors(t, test, p.Value)
	case "TestEval":
		var p evalPayload
		if _, err := ev.LoadReplay(path, &p); err != nil {
			t.Fatalf("load %s: %v", path, err)
		}
		checkEval(t, test, p)
	case "TestHistories":
		var p histPayload
		if _, err := ev.LoadReplay(path, &p); err != nil {
			t.Fatalf("load %s: %v", path, err)
		}
		if _, f := runHistory(p); f != "" {
			ev.Fail(t, test, p, "template %q: %s", p.Src, f)
		}
	case "TestHostIndexable":
		var p hostIndexPayload
		if _, err := ev.LoadReplay(path, &p); err != nil {
			t.Fatalf("load %s: %v", path, err)
		}
		checkHostIndexable(t, test, p)
	case "TestHostCallArgs":
		var p hostCallPayload
		if _, err := ev.LoadReplay(path, &p); err != nil {
			t.Fatalf("load %s: %v", path, err)
		}
		checkHostCall(t, test, p)
	default:
		t.Fatalf("unknown test %q in %s", test, path)
	}
}

func TestReplay(t *testing.T) {
	path := os.Getenv("VERIF_REPLAY")
	if path == "" {
		t.Skip("no VERIF_REPLAY")
	}
	replayFile(t, path)
}

func verifRoot() string {
	if root := os.Getenv("VERIF_ROOT"); root != "" {
		return root
	}
	return "/verif"
}

// TestRegressions re-runs every committed replay of a repaired defect.
func TestRegressions(t *testing.T) {
	files, _ := filepath.Glob(filepath.Join(verifRoot(), "replays", "C15", "fixed", "*.json"))
	sort.Strings(files)
	for _, f := range files {
		f := f
		t.Run(filepath.Base(f), func(t *testing.T) { replayFile(t, f) })
		ev.Note("regression replays run")
	}
}

// TestKnownFindings re-runs the committed reproducer of every open finding
// (replays/C15/open/<finding-id>*.json) through the oracle.
func TestKnownFindings(t *testing.T) {
	files, _ := filepath.Glob(filepath.Join(verifRoot(), "replays", "C15", "open", "*.json"))
	sort.Strings(files)
	for _, f := range files {
		id := strings.TrimSuffix(filepath.Base(f), ".json")
		for k := range openFindings {
			if strings.HasPrefix(id, k) {
				id = k
			}
		}
		if !openFindings[id] {
			t.Errorf("replay %s belongs to no open finding of this package", f)
			continue
		}
		if ev.ReplayTest(f) != "TestHistories" {
			t.Errorf("replay %s: only history reproducers are supported here", f)
			continue
		}
		var p histPayload
		if _, err := ev.LoadReplay(f, &p); err != nil {
			t.Errorf("load %s: %v", f, err)
			continue
		}
		_, fail := runHistory(p)
		if fail != "" {
			ev.Known(id, clip(strings.ReplaceAll(fail, "\n", " ")))
		} else {
			ev.Note("open finding " + id + " no longer reproduces: turn its switch off and move the replay to fixed/")
		}
	}
}
