package c15

// Small expressions for tengo.Eval with an evaluator written from the
// language documentation (operators.md: int/float/string arithmetic;
// runtime-types.md: IsFalsy for `?:` and `!`; builtins.md: len, type_name,
// is_*; tutorial.md: array/map literals, indexing, selectors returning
// undefined for a missing key, immutable(), error()). The generator is typed
// so that only documented, total operations are produced.

import (
	"fmt"
	"regexp"
	"sort"
	"strconv"
	"strings"

	"github.com/d5/tengo/v2"
	"pgregory.net/rapid"
)

type Expr struct {
	Op   string   `json:"op"`
	I    int64    `json:"i,omitempty"`
	S    string   `json:"s,omitempty"`
	Keys []string `json:"keys,omitempty"`
	Args []*Expr  `json:"args,omitempty"`
}

var identRe = regexp.MustCompile(`^[a-z][a-z0-9]*$`)

func (e *Expr) src() string {
	arg := func(i int) string { return e.Args[i].src() }
	switch e.Op {
	case "p":
		return e.S
	case "int":
		if e.I < 0 {
			return "(-" + strconv.FormatInt(-e.I, 10) + ")"
		}
		return strconv.FormatInt(e.I, 10)
	case "float":
		return e.S
	case "str":
		return strconv.Quote(e.S)
	case "char":
		switch rune(e.I) {
		case '\'':
			return `'\''`
		case '\\':
			return `'\\'`
		}
		return "'" + string(rune(e.I)) + "'"
	case "true", "false":
		return e.Op
	case "undef":
		return "undefined"
	case "arr":
		parts := make([]string, len(e.Args))
		for i := range e.Args {
			parts[i] = arg(i)
		}
		return "[" + strings.Join(parts, ", ") + "]"
	case "map":
		parts := make([]string, len(e.Args))
		for i := range e.Args {
			k := e.Keys[i]
			if !identRe.MatchString(k) {
				k = strconv.Quote(k)
			}
			parts[i] = k + ": " + arg(i)
		}
		return "{" + strings.Join(parts, ", ") + "}"
	case "imm":
		return "immutable(" + arg(0) + ")"
	case "add", "fadd", "cat":
		return "(" + arg(0) + " + " + arg(1) + ")"
	case "sub", "fsub":
		return "(" + arg(0) + " - " + arg(1) + ")"
	case "mul", "fmul":
		return "(" + arg(0) + " * " + arg(1) + ")"
	case "fdiv":
		return "(" + arg(0) + " / " + arg(1) + ")"
	case "len":
		return "len(" + arg(0) + ")"
	case "cond":
		return "(" + arg(0) + " ? " + arg(1) + " : " + arg(2) + ")"
	case "idx":
		return arg(0) + "[" + strconv.FormatInt(e.I, 10) + "]"
	case "sel":
		return arg(0) + "." + e.S
	case "tname":
		return "type_name(" + arg(0) + ")"
	case "isint":
		return "is_int(" + arg(0) + ")"
	case "isstr":
		return "is_string(" + arg(0) + ")"
	case "isundef":
		return "is_undefined(" + arg(0) + ")"
	case "isimmarr":
		return "is_immutable_array(" + arg(0) + ")"
	case "not":
		return "(!" + arg(0) + ")"
	case "err":
		return "error(" + arg(0) + ")"
	}
	return "<?" + e.Op + ">"
}

func (e *Expr) ops(into map[string]bool) {
	into[e.Op] = true
	for _, a := range e.Args {
		a.ops(into)
	}
}

func boolObj(b bool) tengo.Object {
	if b {
		return tengo.TrueValue
	}
	return tengo.FalseValue
}

func (e *Expr) eval(env map[string]tengo.Object) (tengo.Object, error) {
	args := make([]tengo.Object, len(e.Args))
	if e.Op != "cond" {
		for i, a := range e.Args {
			v, err := a.eval(env)
			if err != nil {
				return nil, err
			}
			args[i] = v
		}
	}
	ints := func() (int64, int64, error) {
		a, ok1 := args[0].(*tengo.Int)
		b, ok2 := args[1].(*tengo.Int)
		if !ok1 || !ok2 {
			return 0, 0, fmt.Errorf("%s: operands are not ints", e.Op)
		}
		return a.Value, b.Value, nil
	}
	floats := func() (float64, float64, error) {
		a, ok1 := args[0].(*tengo.Float)
		b, ok2 := args[1].(*tengo.Float)
		if !ok1 || !ok2 {
			return 0, 0, fmt.Errorf("%s: operands are not floats", e.Op)
		}
		return a.Value, b.Value, nil
	}
	switch e.Op {
	case "p":
		v, ok := env[e.S]
		if !ok {
			return nil, fmt.Errorf("no parameter %s", e.S)
		}
		return v, nil
	case "int":
		return &tengo.Int{Value: e.I}, nil
	case "float":
		f, err := strconv.ParseFloat(e.S, 64)
		if err != nil {
			return nil, err
		}
		return &tengo.Float{Value: f}, nil
	case "str":
		return &tengo.String{Value: e.S}, nil
	case "char":
		return &tengo.Char{Value: rune(e.I)}, nil
	case "true":
		return tengo.TrueValue, nil
	case "false":
		return tengo.FalseValue, nil
	case "undef":
		return tengo.UndefinedValue, nil
	case "arr":
		return &tengo.Array{Value: args}, nil
	case "map":
		m := make(map[string]tengo.Object, len(args))
		for i, k := range e.Keys {
			m[k] = args[i] // a repeated key keeps the last value
		}
		return &tengo.Map{Value: m}, nil
	case "imm":
		switch v := args[0].(type) {
		case *tengo.Array:
			return &tengo.ImmutableArray{Value: v.Value}, nil
		case *tengo.Map:
			return &tengo.ImmutableMap{Value: v.Value}, nil
		case *tengo.ImmutableArray, *tengo.ImmutableMap:
			return v, nil
		}
		return nil, fmt.Errorf("imm: operand is not a container")
	case "add", "sub", "mul":
		a, b, err := ints()
		if err != nil {
			return nil, err
		}
		switch e.Op {
		case "add":
			return &tengo.Int{Value: a + b}, nil
		case "sub":
			return &tengo.Int{Value: a - b}, nil
		}
		return &tengo.Int{Value: a * b}, nil
	case "fadd", "fsub", "fmul", "fdiv":
		a, b, err := floats()
		if err != nil {
			return nil, err
		}
		var r float64
		switch e.Op {
		case "fadd":
			r = a + b
		case "fsub":
			r = a - b
		case "fmul":
			r = a * b
		default:
			r = a / b
		}
		// A zero result carries the IEEE sign (-0.0 + 0.0 is +0.0): judged
		// bit for bit since b578847 (FINDINGS.md, observation O3).
		return &tengo.Float{Value: r}, nil
	case "cat":
		a, ok1 := args[0].(*tengo.String)
		b, ok2 := args[1].(*tengo.String)
		if !ok1 || !ok2 {
			return nil, fmt.Errorf("cat: operands are not strings")
		}
		return &tengo.String{Value: a.Value + b.Value}, nil
	case "len":
		switch v := args[0].(type) {
		case *tengo.Array:
			return &tengo.Int{Value: int64(len(v.Value))}, nil
		case *tengo.ImmutableArray:
			return &tengo.Int{Value: int64(len(v.Value))}, nil
		case *tengo.Map:
			return &tengo.Int{Value: int64(len(v.Value))}, nil
		case *tengo.ImmutableMap:
			return &tengo.Int{Value: int64(len(v.Value))}, nil
		case *tengo.Bytes:
			return &tengo.Int{Value: int64(len(v.Value))}, nil
		}
		return nil, fmt.Errorf("len: operand has no documented length")
	case "cond":
		c, err := e.Args[0].eval(env)
		if err != nil {
			return nil, err
		}
		f, known := falsy(c)
		if !known {
			return nil, fmt.Errorf("cond: truthiness of %T is not documented", c)
		}
		if f {
			return e.Args[2].eval(env)
		}
		return e.Args[1].eval(env)
	case "idx":
		var xs []tengo.Object
		switch v := args[0].(type) {
		case *tengo.Array:
			xs = v.Value
		case *tengo.ImmutableArray:
			xs = v.Value
		default:
			return nil, fmt.Errorf("idx: operand is not an array")
		}
		if e.I < 0 || int(e.I) >= len(xs) {
			return nil, fmt.Errorf("idx: out of range")
		}
		return xs[e.I], nil
	case "sel":
		var m map[string]tengo.Object
		switch v := args[0].(type) {
		case *tengo.Map:
			m = v.Value
		case *tengo.ImmutableMap:
			m = v.Value
		default:
			return nil, fmt.Errorf("sel: operand is not a map")
		}
		if v, ok := m[e.S]; ok {
			return v, nil
		}
		return tengo.UndefinedValue, nil
	case "tname":
		return &tengo.String{Value: typeName(args[0])}, nil
	case "isint":
		_, ok := args[0].(*tengo.Int)
		return boolObj(ok), nil
	case "isstr":
		_, ok := args[0].(*tengo.String)
		return boolObj(ok), nil
	case "isundef":
		return boolObj(args[0] == tengo.UndefinedValue), nil
	case "isimmarr":
		_, ok := args[0].(*tengo.ImmutableArray)
		return boolObj(ok), nil
	case "not":
		f, known := falsy(args[0])
		if !known {
			return nil, fmt.Errorf("not: truthiness of %T is not documented", args[0])
		}
		return boolObj(f), nil
	case "err":
		return &tengo.Error{Value: args[0]}, nil
	}
	return nil, fmt.Errorf("unknown op %s", e.Op)
}

// ---------- generator ----------

type exprGen struct {
	t   *rapid.T
	env map[string]tengo.Object
	// parameter names by the type they arrive as
	ints, floats, strs, seqs, maps, lens, truthKnown, all []string
}

func (g *exprGen) index() {
	names := make([]string, 0, len(g.env))
	for k := range g.env {
		names = append(names, k)
	}
	sort.Strings(names)
	for _, n := range names {
		o := g.env[n]
		g.all = append(g.all, n)
		if _, known := falsy(o); known {
			g.truthKnown = append(g.truthKnown, n)
		}
		switch o.(type) {
		case *tengo.Int:
			g.ints = append(g.ints, n)
		case *tengo.Float:
			g.floats = append(g.floats, n)
		case *tengo.String:
			g.strs = append(g.strs, n)
		case *tengo.Array, *tengo.ImmutableArray:
			g.seqs = append(g.seqs, n)
			g.lens = append(g.lens, n)
		case *tengo.Map, *tengo.ImmutableMap:
			g.maps = append(g.maps, n)
			g.lens = append(g.lens, n)
		case *tengo.Bytes:
			g.lens = append(g.lens, n)
		}
	}
}

func (g *exprGen) pick(n int, label string) int { return rapid.IntRange(0, n-1).Draw(g.t, label) }

func (g *exprGen) param(names []string) *Expr {
	return &Expr{Op: "p", S: names[g.pick(len(names), "param")]}
}

var floatLits = []string{"0.0", "1.5", "0.25", "2.0", "100.125", "1e3", "1e-3", "3.0e10", "0.1", "12345.6789"}
var strLits = []string{"", "a", "abc", "hello world", "x=1", "q\"uote", "back\\slash", "tab\there", "%d", "0"}

func (g *exprGen) intE(d int) *Expr {
	k := g.pick(6, "ik")
	if d <= 0 && k >= 3 {
		k -= 3
	}
	switch k {
	case 0, 1:
		if len(g.ints) > 0 {
			return g.param(g.ints)
		}
		fallthrough
	case 2:
		return &Expr{Op: "int", I: rapid.OneOf(rapid.Int64Range(-1000, 1000),
			rapid.SampledFrom([]int64{0, 1, 9223372036854775807, 4294967296, -9223372036854775807})).Draw(g.t, "ilit")}
	case 3, 4:
		op := []string{"add", "sub", "mul"}[g.pick(3, "iop")]
		return &Expr{Op: op, Args: []*Expr{g.intE(d - 1), g.intE(d - 1)}}
	default:
		return &Expr{Op: "len", Args: []*Expr{g.lenE(d - 1)}}
	}
}

func (g *exprGen) floatE(d int) *Expr {
	k := g.pick(5, "fk")
	if d <= 0 && k >= 3 {
		k -= 3
	}
	switch k {
	case 0, 1:
		if len(g.floats) > 0 {
			return g.param(g.floats)
		}
		fallthrough
	case 2:
		return &Expr{Op: "float", S: floatLits[g.pick(len(floatLits), "flit")]}
	default:
		op := []string{"fadd", "fsub", "fmul", "fdiv"}[g.pick(4, "fop")]
		return &Expr{Op: op, Args: []*Expr{g.floatE(d - 1), g.floatE(d - 1)}}
	}
}

func (g *exprGen) strE(d int) *Expr {
	k := g.pick(5, "sk")
	if d <= 0 && k >= 3 {
		k -= 3
	}
	switch k {
	case 0, 1:
		if len(g.strs) > 0 {
			return g.param(g.strs)
		}
		fallthrough
	case 2:
		return &Expr{Op: "str", S: strLits[g.pick(len(strLits), "slit")]}
	case 3:
		return &Expr{Op: "cat", Args: []*Expr{g.strE(d - 1), g.strE(d - 1)}}
	default:
		return &Expr{Op: "tname", Args: []*Expr{g.any(d - 1)}}
	}
}

// seqE: an expression whose value is an array or immutable array.
func (g *exprGen) seqE(d int) *Expr {
	k := g.pick(4, "ak")
	if k == 0 && len(g.seqs) > 0 {
		return g.param(g.seqs)
	}
	n := g.pick(4, "alen")
	e := &Expr{Op: "arr"}
	for i := 0; i < n; i++ {
		e.Args = append(e.Args, g.any(d-1))
	}
	if k == 1 {
		return &Expr{Op: "imm", Args: []*Expr{e}}
	}
	return e
}

var mapKeys = []string{"k", "j", "p", "q", "a b", "0", "é", "key2"}

func (g *exprGen) mapE(d int) *Expr {
	k := g.pick(4, "mk")
	if k == 0 && len(g.maps) > 0 {
		return g.param(g.maps)
	}
	n := g.pick(4, "mlen")
	e := &Expr{Op: "map"}
	seen := map[string]bool{}
	for i := 0; i < n; i++ {
		key := mapKeys[g.pick(len(mapKeys), "mkey")]
		if seen[key] {
			continue
		}
		seen[key] = true
		e.Keys = append(e.Keys, key)
		e.Args = append(e.Args, g.any(d-1))
	}
	if k == 1 {
		return &Expr{Op: "imm", Args: []*Expr{e}}
	}
	return e
}

// lenE: an expression with a documented len (array, map, bytes).
func (g *exprGen) lenE(d int) *Expr {
	k := g.pick(3, "lk")
	if k == 0 && len(g.lens) > 0 {
		return g.param(g.lens)
	}
	if k == 1 {
		return g.mapE(d)
	}
	return g.seqE(d)
}

// truthE: an expression whose truthiness is documented.
func (g *exprGen) truthE(d int) *Expr {
	if len(g.truthKnown) > 0 && g.pick(2, "tk") == 0 {
		return g.param(g.truthKnown)
	}
	switch g.pick(6, "tk2") {
	case 0:
		return g.intE(d)
	case 1:
		return g.strE(d)
	case 2:
		return g.floatE(d)
	case 3:
		return g.seqE(d)
	case 4:
		return &Expr{Op: []string{"true", "false", "undef"}[g.pick(3, "tlit")]}
	default:
		return &Expr{Op: "isint", Args: []*Expr{g.any(d - 1)}}
	}
}

func (g *exprGen) any(d int) *Expr {
	if d <= 0 {
		switch k := g.pick(9, "leaf"); {
		case k <= 3 && len(g.all) > 0:
			return g.param(g.all)
		case k == 4:
			return g.intE(0)
		case k == 5:
			return g.strE(0)
		case k == 6:
			return g.floatE(0)
		case k == 7:
			return &Expr{Op: "char", I: int64(rapid.SampledFrom([]rune{'a', 'Z', '0', ' ', '\'', '\\', 'é', '日'}).Draw(g.t, "clit"))}
		default:
			return &Expr{Op: []string{"true", "false", "undef"}[g.pick(3, "blit")]}
		}
	}
	switch g.pick(14, "ek") {
	case 0:
		return g.intE(d)
	case 1:
		return g.floatE(d)
	case 2:
		return g.strE(d)
	case 3:
		return g.seqE(d)
	case 4:
		return g.mapE(d)
	case 5:
		return &Expr{Op: "cond", Args: []*Expr{g.truthE(d - 1), g.any(d - 1), g.any(d - 1)}}
	case 6:
		// index an array within bounds
		a := g.seqE(d - 1)
		v, err := a.eval(g.env)
		if err != nil {
			return a
		}
		n := 0
		switch s := v.(type) {
		case *tengo.Array:
			n = len(s.Value)
		case *tengo.ImmutableArray:
			n = len(s.Value)
		}
		if n == 0 {
			return a
		}
		return &Expr{Op: "idx", I: int64(g.pick(n, "idx")), Args: []*Expr{a}}
	case 7:
		return &Expr{Op: "sel", S: []string{"k", "j", "p", "q", "key2", "nope"}[g.pick(6, "selk")], Args: []*Expr{g.mapE(d - 1)}}
	case 8:
		op := []string{"isint", "isstr", "isundef", "isimmarr"}[g.pick(4, "isop")]
		return &Expr{Op: op, Args: []*Expr{g.any(d - 1)}}
	case 9:
		return &Expr{Op: "not", Args: []*Expr{g.truthE(d - 1)}}
	case 10:
		return &Expr{Op: "err", Args: []*Expr{g.any(d - 1)}}
	case 11:
		return &Expr{Op: "tname", Args: []*Expr{g.any(d - 1)}}
	default:
		return g.any(0)
	}
}
