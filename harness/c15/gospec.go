package c15

// GoSpec: a JSON-serialisable description of a *Go* value handed to the tengo
// host API (FromInterface / NewVariable / Script.Add / Compiled.Set / Eval
// params). From one spec the harness builds
//   - the Go value itself (build, a fresh instance on every call),
//   - the Tengo object the documented conversion table of
//     docs/interoperability.md promises (expect), built independently of
//     tengo.FromInterface,
//   - the Go value ToInterface must give back (normObj(expect)): the documented
//     normalisation int->int64, byte/rune->rune, error->error carrying the
//     message, typed containers -> []interface{} / map[string]interface{}.

import (
	"encoding/hex"
	"errors"
	"fmt"
	"math"
	"sort"
	"strconv"
	"time"

	"github.com/d5/tengo/v2"
	"pgregory.net/rapid"

	"verifharness/tv"
)

type GoSpec struct {
	K    string    `json:"k"`
	I    int64     `json:"i,omitempty"`
	Bits string    `json:"bits,omitempty"` // float64 bits, hex
	Hex  string    `json:"hex,omitempty"`  // string / []byte / error message content
	Txt  string    `json:"txt,omitempty"`  // human-readable echo only
	B    bool      `json:"b,omitempty"`
	Sec  int64     `json:"sec,omitempty"`
	Nsec int64     `json:"nsec,omitempty"`
	Zone int       `json:"zone,omitempty"` // offset seconds east of UTC
	Zero bool      `json:"zero,omitempty"` // time.Time{}
	Nil  bool      `json:"nil,omitempty"`  // typed-nil container ([]byte, map, slice)
	Keys []string  `json:"keys,omitempty"` // hex map keys, parallel to Kids
	Kids []*GoSpec `json:"kids,omitempty"`
	Obj  *tv.Spec  `json:"obj,omitempty"` // K == "object"
}

// Supported kinds: the rows of the conversion table of interoperability.md
// plus CallableFunc (accepted by FromInterface; the table is silent about it,
// the implementation is followed: it arrives as a callable user function).
var supportedKinds = map[string]bool{"nil": true, "string": true, "int": true, "int64": true, "bool": true,
	"rune": true, "byte": true, "float64": true, "bytes": true, "time": true, "error": true, "mapi": true,
	"slicei": true, "mapo": true, "sliceo": true, "object": true, "callable": true}

// Unsupported kinds: Go types that are not in the table. (int32 is NOT one of
// them: rune is an alias of int32, so an int32 is documented to arrive as Char.)
var unsupportedKinds = []string{"int8", "int16", "uint", "uint16", "uint32", "uint64", "float32", "complex",
	"struct", "pstruct", "chan", "ints", "strings", "mapsi", "mapii", "pint", "func0", "myint", "mystring"}

type someStruct struct{ A int }
type myInt int
type myString string

type customErr struct{ msg string }

func (e *customErr) Error() string { return e.msg }

const callableBase = 1000

func hexOf(s string) string { return hex.EncodeToString([]byte(s)) }
func unhex(h string) string { b, _ := hex.DecodeString(h); return string(b) }

func (s *GoSpec) float() float64 {
	b, _ := strconv.ParseUint(s.Bits, 16, 64)
	return math.Float64frombits(b)
}

func (s *GoSpec) time() time.Time {
	if s.Zero {
		return time.Time{}
	}
	loc := time.UTC
	if s.Zone != 0 {
		loc = time.FixedZone("Z", s.Zone)
	}
	return time.Unix(s.Sec, s.Nsec).In(loc)
}

func theCallable() tengo.CallableFunc {
	return func(args ...tengo.Object) (tengo.Object, error) {
		return &tengo.Int{Value: int64(callableBase + len(args))}, nil
	}
}

// supported reports whether the documented table converts the value (all of
// it: an unsupported element makes the whole container unsupported).
func (s *GoSpec) supported() bool {
	if !supportedKinds[s.K] {
		return false
	}
	if s.K == "mapi" || s.K == "slicei" {
		for _, k := range s.Kids {
			if !k.supported() {
				return false
			}
		}
	}
	return true
}

// build returns a fresh Go value.
func (s *GoSpec) build() interface{} {
	switch s.K {
	case "nil":
		return nil
	case "string":
		return unhex(s.Hex)
	case "int":
		return int(s.I)
	case "int64":
		return s.I
	case "bool":
		return s.B
	case "rune":
		return rune(s.I)
	case "byte":
		return byte(s.I)
	case "float64":
		return s.float()
	case "bytes":
		if s.Nil {
			return []byte(nil)
		}
		return []byte(unhex(s.Hex))
	case "time":
		return s.time()
	case "error":
		switch s.I {
		case 1:
			return fmt.Errorf("%s", unhex(s.Hex))
		case 2:
			return &customErr{msg: unhex(s.Hex)}
		}
		return errors.New(unhex(s.Hex))
	case "mapi":
		if s.Nil {
			return map[string]interface{}(nil)
		}
		m := make(map[string]interface{}, len(s.Kids))
		for i, k := range s.Kids {
			m[unhex(s.Keys[i])] = k.build()
		}
		return m
	case "slicei":
		if s.Nil {
			return []interface{}(nil)
		}
		a := make([]interface{}, len(s.Kids))
		for i, k := range s.Kids {
			a[i] = k.build()
		}
		return a
	case "mapo":
		if s.Nil {
			return map[string]tengo.Object(nil)
		}
		m := make(map[string]tengo.Object, len(s.Kids))
		for i, k := range s.Kids {
			m[unhex(s.Keys[i])] = k.Obj.ToObject()
		}
		return m
	case "sliceo":
		if s.Nil {
			return []tengo.Object(nil)
		}
		a := make([]tengo.Object, len(s.Kids))
		for i, k := range s.Kids {
			a[i] = k.Obj.ToObject()
		}
		return a
	case "object":
		return s.Obj.ToObject()
	case "callable":
		return theCallable()
	// ---- not in the table ----
	case "int8":
		return int8(s.I)
	case "int16":
		return int16(s.I)
	case "uint":
		return uint(s.I)
	case "uint16":
		return uint16(s.I)
	case "uint32":
		return uint32(s.I)
	case "uint64":
		return uint64(s.I)
	case "float32":
		return float32(s.I)
	case "complex":
		return complex(float64(s.I), 1)
	case "struct":
		return someStruct{A: int(s.I)}
	case "pstruct":
		return &someStruct{A: int(s.I)}
	case "chan":
		return make(chan int)
	case "ints":
		return []int{int(s.I)}
	case "strings":
		return []string{"a"}
	case "mapsi":
		return map[string]int{"a": int(s.I)}
	case "mapii":
		return map[int]interface{}{1: int(s.I)}
	case "pint":
		v := int(s.I)
		return &v
	case "func0":
		return func() {}
	case "myint":
		return myInt(s.I)
	case "mystring":
		return myString("s")
	}
	panic("c15: unknown GoSpec kind " + s.K)
}

// expect builds, independently of tengo.FromInterface, the object the
// conversion table of interoperability.md documents for the value:
//
//	nil->Undefined string->String int64,int->Int bool->Bool rune,byte->Char
//	float64->Float []byte->Bytes time.Time->Time error->Error{String}
//	map[string]Object->Map  map[string]interface{}->Map (elements converted)
//	[]Object->Array  []interface{}->Array (elements converted)  Object->Object
//
// ok=false: the value (or an element) is not in the table.
func (s *GoSpec) expect() (tengo.Object, bool) {
	switch s.K {
	case "nil":
		return tengo.UndefinedValue, true
	case "string":
		return &tengo.String{Value: unhex(s.Hex)}, true
	case "int", "int64":
		return &tengo.Int{Value: s.I}, true
	case "bool":
		if s.B {
			return tengo.TrueValue, true
		}
		return tengo.FalseValue, true
	case "rune":
		return &tengo.Char{Value: rune(s.I)}, true
	case "byte":
		return &tengo.Char{Value: rune(byte(s.I))}, true
	case "float64":
		return &tengo.Float{Value: s.float()}, true
	case "bytes":
		return &tengo.Bytes{Value: []byte(unhex(s.Hex))}, true
	case "time":
		return &tengo.Time{Value: s.time()}, true
	case "error":
		return &tengo.Error{Value: &tengo.String{Value: unhex(s.Hex)}}, true
	case "mapi":
		m := make(map[string]tengo.Object, len(s.Kids))
		for i, k := range s.Kids {
			o, ok := k.expect()
			if !ok {
				return nil, false
			}
			m[unhex(s.Keys[i])] = o
		}
		return &tengo.Map{Value: m}, true
	case "slicei":
		a := make([]tengo.Object, 0, len(s.Kids))
		for _, k := range s.Kids {
			o, ok := k.expect()
			if !ok {
				return nil, false
			}
			a = append(a, o)
		}
		return &tengo.Array{Value: a}, true
	case "mapo":
		m := make(map[string]tengo.Object, len(s.Kids))
		for i, k := range s.Kids {
			m[unhex(s.Keys[i])] = k.Obj.ToObject()
		}
		return &tengo.Map{Value: m}, true
	case "sliceo":
		a := make([]tengo.Object, 0, len(s.Kids))
		for _, k := range s.Kids {
			a = append(a, k.Obj.ToObject())
		}
		return &tengo.Array{Value: a}, true
	case "object":
		return s.Obj.ToObject(), true
	case "callable":
		return &tengo.UserFunction{Value: theCallable()}, true
	}
	return nil, false
}

// depth of container nesting (scalars 0).
func (s *GoSpec) depth() int {
	d := 0
	switch s.K {
	case "mapi", "slicei":
		for _, k := range s.Kids {
			if kd := k.depth() + 1; kd > d {
				d = kd
			}
		}
		if d == 0 {
			d = 1
		}
	case "mapo", "sliceo":
		d = 1
		for _, k := range s.Kids {
			if kd := objDepth(k.Obj.ToObject()) + 1; kd > d {
				d = kd
			}
		}
	case "object":
		d = objDepth(s.Obj.ToObject())
	}
	return d
}

func objDepth(o tengo.Object) int {
	d := 0
	each := func(x tengo.Object) {
		if k := objDepth(x) + 1; k > d {
			d = k
		}
	}
	switch v := o.(type) {
	case *tengo.Array:
		d = 1
		for _, e := range v.Value {
			each(e)
		}
	case *tengo.ImmutableArray:
		d = 1
		for _, e := range v.Value {
			each(e)
		}
	case *tengo.Map:
		d = 1
		for _, e := range v.Value {
			each(e)
		}
	case *tengo.ImmutableMap:
		d = 1
		for _, e := range v.Value {
			each(e)
		}
	case *tengo.Error:
		d = objDepth(v.Value)
	}
	return d
}

// hasNilObjMap: a nil map[string]Object somewhere in the value (pattern of
// the open finding F-C15-nil-objmap).
func (s *GoSpec) hasNilObjMap() bool {
	if s.K == "mapo" && s.Nil {
		return true
	}
	for _, k := range s.Kids {
		if k.hasNilObjMap() {
			return true
		}
	}
	return false
}

// describe: a short deterministic rendering used as the distinctness key.
func (s *GoSpec) describe() string {
	if o, ok := s.expect(); ok {
		n := ""
		if s.Nil {
			n = "nil-"
		}
		return n + s.K + ":" + tv.Describe(o)
	}
	return "unsupported:" + s.K + fmt.Sprintf("(%d,%d kids)", s.I, len(s.Kids))
}

// ---------- generators ----------

type genOpts struct {
	depth       int  // container nesting budget
	unsupported bool // may contain values outside the table
	noBuiltins  bool // no function objects among the tengo objects (not used any more: BuiltinFunction.Copy keeps the name since bd9c161)
	noNilObjMap bool // never a nil map[string]Object (open finding F-C15-nil-objmap)
	small       bool // small payloads (histories)
}

func genKeyHex(t *rapid.T) string {
	if rapid.IntRange(0, 3).Draw(t, "keyk") == 0 {
		return hexOf(tv.GenString(false).Draw(t, "key"))
	}
	return hexOf(rapid.SampledFrom([]string{"k", "j", "0", "p", "q", "", "a b", "é"}).Draw(t, "key"))
}

func genTimeSpec(t *rapid.T) *GoSpec {
	tm := tv.GenTime().Draw(t, "tm")
	if tm.IsZero() && tm.Location() == time.UTC {
		return &GoSpec{K: "time", Zero: true}
	}
	_, off := tm.Zone()
	return &GoSpec{K: "time", Sec: tm.Unix(), Nsec: int64(tm.Nanosecond()), Zone: off, Txt: tm.String()}
}

func genObjSpec(t *rapid.T, o genOpts, depth int) *tv.Spec {
	if depth < 0 {
		depth = 0
	}
	// tv.GenObject treats MaxDepth 0 as "default 3": use NoImm + scalar filter for depth 0.
	opts := tv.Opts{MaxDepth: depth, MaxLen: 3, NoFuncs: o.noBuiltins}
	if depth == 0 {
		opts.MaxDepth = 1
		obj := tv.GenObject(opts).Filter(func(x tengo.Object) bool { return objDepth(x) == 0 }).Draw(t, "obj")
		return tv.FromObject(obj)
	}
	return tv.FromObject(tv.GenObject(opts).Draw(t, "obj"))
}

func genGoSpec(t *rapid.T, o genOpts, depth int) *GoSpec {
	kinds := []string{"nil", "string", "int", "int64", "bool", "rune", "byte", "float64", "bytes", "time", "error",
		"int", "string", "object", "callable"}
	if o.small {
		kinds = []string{"nil", "string", "int", "int", "int64", "bool", "rune", "byte", "float64", "bytes", "time",
			"error", "int", "string", "object", "callable", "nil"}
	}
	if depth > 0 {
		kinds = append(kinds, "mapi", "slicei", "mapo", "sliceo", "mapi", "slicei")
		if o.small {
			kinds = append(kinds, "mapi", "slicei", "slicei", "mapi")
		}
	} else {
		kinds = append(kinds, "emptyc")
	}
	if o.unsupported {
		kinds = append(kinds, "unsupported")
	}
	k := rapid.SampledFrom(kinds).Draw(t, "gk")
	switch k {
	case "nil":
		return &GoSpec{K: "nil"}
	case "string":
		s := tv.GenString(false).Draw(t, "s")
		return &GoSpec{K: "string", Hex: hexOf(s), Txt: strconv.QuoteToASCII(s)}
	case "int":
		return &GoSpec{K: "int", I: tv.GenInt64().Draw(t, "i")}
	case "int64":
		return &GoSpec{K: "int64", I: tv.GenInt64().Draw(t, "i")}
	case "bool":
		return &GoSpec{K: "bool", B: rapid.Bool().Draw(t, "b")}
	case "rune":
		return &GoSpec{K: "rune", I: int64(tv.GenRune().Draw(t, "r"))}
	case "byte":
		return &GoSpec{K: "byte", I: int64(rapid.Byte().Draw(t, "by"))}
	case "float64":
		f := tv.GenFloat64(false).Draw(t, "f")
		return &GoSpec{K: "float64", Bits: strconv.FormatUint(math.Float64bits(f), 16), Txt: strconv.FormatFloat(f, 'g', -1, 64)}
	case "bytes":
		if rapid.IntRange(0, 9).Draw(t, "nilb") == 0 {
			return &GoSpec{K: "bytes", Nil: true}
		}
		b := tv.GenBytes().Draw(t, "bs")
		return &GoSpec{K: "bytes", Hex: hex.EncodeToString(b), Txt: strconv.QuoteToASCII(string(b))}
	case "time":
		return genTimeSpec(t)
	case "error":
		s := tv.GenString(false).Draw(t, "msg")
		return &GoSpec{K: "error", I: int64(rapid.IntRange(0, 2).Draw(t, "ek")), Hex: hexOf(s), Txt: strconv.QuoteToASCII(s)}
	case "callable":
		return &GoSpec{K: "callable"}
	case "object":
		return &GoSpec{K: "object", Obj: genObjSpec(t, o, depth)}
	case "emptyc":
		ck := rapid.SampledFrom([]string{"mapi", "slicei", "mapo", "sliceo"}).Draw(t, "ck")
		s := &GoSpec{K: ck, Nil: rapid.Bool().Draw(t, "nilc")}
		if o.noNilObjMap && s.hasNilObjMap() {
			s.Nil = false
		}
		return s
	case "unsupported":
		return &GoSpec{K: rapid.SampledFrom(unsupportedKinds).Draw(t, "uk"), I: int64(rapid.IntRange(0, 100).Draw(t, "ui"))}
	}
	// containers
	maxLen := 4
	if o.small {
		maxLen = 3
	}
	n := rapid.IntRange(0, maxLen).Draw(t, "n")
	s := &GoSpec{K: k}
	if n == 0 && rapid.IntRange(0, 3).Draw(t, "nilc") == 0 {
		s.Nil = true
		if o.noNilObjMap && s.hasNilObjMap() {
			s.Nil = false
		}
		return s
	}
	seen := map[string]bool{}
	for i := 0; i < n; i++ {
		var kid *GoSpec
		if k == "mapo" || k == "sliceo" {
			kid = &GoSpec{K: "object", Obj: genObjSpec(t, o, depth-1)}
		} else {
			kid = genGoSpec(t, o, depth-1)
		}
		if k == "mapi" || k == "mapo" {
			key := genKeyHex(t)
			if seen[key] {
				continue
			}
			seen[key] = true
			s.Keys = append(s.Keys, key)
		}
		s.Kids = append(s.Kids, kid)
	}
	if len(s.Keys) > 0 {
		// canonical order (build() makes a Go map anyway)
		idx := make([]int, len(s.Keys))
		for i := range idx {
			idx[i] = i
		}
		sort.Slice(idx, func(a, b int) bool { return s.Keys[idx[a]] < s.Keys[idx[b]] })
		keys := make([]string, len(idx))
		kids := make([]*GoSpec, len(idx))
		for i, j := range idx {
			keys[i], kids[i] = s.Keys[j], s.Kids[j]
		}
		s.Keys, s.Kids = keys, kids
	}
	return s
}
