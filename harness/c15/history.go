package c15

// Part (b): histories. A model of Script / Compiled written from the
// documentation (interoperability.md "Using Scripts", "Compiled.Clone()", the
// godoc comments of script.go) and, where those are silent, from the
// implementation (each such place is marked "impl:").
//
// Model values are Tengo object trees built by the harness (GoSpec.expect),
// never the objects handed to tengo. Reference semantics are modelled with Go
// pointers: `x := a` makes x and a the same model object, `a[0] = b` stores
// the model object of b in the model array of a, in place.
//
// impl: Script.Compile hands the Script's variable objects to the Compiled
// without copying, so two Compiled made from one Script share the objects of
// the declared variables (an in-place update by one run is visible through
// the other). The model shares the pointers the same way. Clone copies.

import (
	"context"
	"fmt"
	"sort"
	"strings"
	"time"

	"github.com/d5/tengo/v2"

	"verifharness/tv"
)

// Names the host may address: inputs a b c, outputs x y, names defined only
// by some templates (t, f) and a name that never exists (z).
var universe = []string{"a", "b", "c", "x", "y", "t", "f", "z"}

type tpl struct {
	name     string
	src      string
	reads    []string // must be declared by the host, else "unresolved reference" at compile time
	builtin  []string // read too, but named like a builtin function: undeclared, the name means that builtin
	defs     []string // defined with := at top level: become script globals; a host-declared name here is "redeclared"
	parseErr bool
	mutatesA bool // writes into the container held by a
	nestedK  bool // writes into the container held by a.k
	// run applies the script's effect to the model globals; true = the run
	// fails with a run-time error (effects up to the failing statement stay).
	run func(v map[string]tengo.Object) bool
}

var compiledFnSentinel = &tengo.CompiledFunction{}

// builtinLenSentinel stands for the builtin `len` (compared by type and name).
var builtinLenSentinel = &tengo.BuiltinFunction{Name: "len"}

// plusOne: `v + 1` per docs/operators.md: int+int=int (wrapping), float+int=
// float, char+int=char, string+other=string (string-converted), time+int=time
// (nanoseconds); every other left operand is an invalid operation.
func plusOne(o tengo.Object) (tengo.Object, bool) {
	switch v := o.(type) {
	case *tengo.Int:
		return &tengo.Int{Value: v.Value + 1}, true
	case *tengo.Float:
		return &tengo.Float{Value: v.Value + 1}, true
	case *tengo.Char:
		return &tengo.Char{Value: v.Value + 1}, true
	case *tengo.String:
		return &tengo.String{Value: v.Value + "1"}, true
	case *tengo.Time:
		return &tengo.Time{Value: v.Value.Add(time.Duration(1))}, true
	}
	return nil, false
}

// truthy: condition of `if`, via the IsFalsy list of runtime-types.md; impl:
// values the list does not mention (functions) are truthy.
func truthy(o tengo.Object) bool {
	f, known := falsy(o)
	if !known {
		return true
	}
	return !f
}

var templates = []*tpl{
	{name: "copy", src: "x := a", reads: []string{"a"}, defs: []string{"x"},
		run: func(v map[string]tengo.Object) bool { v["x"] = v["a"]; return false }},
	{name: "copy2", src: "x := a\ny := b", reads: []string{"a", "b"}, defs: []string{"x", "y"},
		run: func(v map[string]tengo.Object) bool { v["x"] = v["a"]; v["y"] = v["b"]; return false }},
	{name: "incr", src: "a += 1", reads: []string{"a"},
		run: func(v map[string]tengo.Object) bool {
			n, ok := plusOne(v["a"])
			if !ok {
				return true
			}
			v["a"] = n
			return false
		}},
	{name: "incr-out", src: "a += 1\nx := a", reads: []string{"a"}, defs: []string{"x"},
		run: func(v map[string]tengo.Object) bool {
			n, ok := plusOne(v["a"])
			if !ok {
				return true
			}
			v["a"] = n
			v["x"] = n
			return false
		}},
	{name: "build-array", src: "x := [a, b]", reads: []string{"a", "b"}, defs: []string{"x"},
		run: func(v map[string]tengo.Object) bool {
			v["x"] = &tengo.Array{Value: []tengo.Object{v["a"], v["b"]}}
			return false
		}},
	{name: "build-map", src: "x := {p: a, q: b}\ny := [x.p, c]", reads: []string{"a", "b", "c"}, defs: []string{"x", "y"},
		run: func(v map[string]tengo.Object) bool {
			v["x"] = &tengo.Map{Value: map[string]tengo.Object{"p": v["a"], "q": v["b"]}}
			v["y"] = &tengo.Array{Value: []tengo.Object{v["a"], v["c"]}}
			return false
		}},
	{name: "cond", src: "x := c\nif a { x = b }", reads: []string{"a", "b", "c"}, defs: []string{"x"},
		run: func(v map[string]tengo.Object) bool {
			v["x"] = v["c"]
			if truthy(v["a"]) {
				v["x"] = v["b"]
			}
			return false
		}},
	// a[0] = b: array element (index out of bounds when empty), or map key
	// "0" (impl: a map index is string-converted); other types, immutable
	// containers included, are not index-assignable.
	{name: "index-assign", src: "a[0] = b", reads: []string{"a", "b"}, mutatesA: true,
		run: func(v map[string]tengo.Object) bool {
			switch a := v["a"].(type) {
			case *tengo.Array:
				if len(a.Value) == 0 {
					return true
				}
				a.Value[0] = v["b"]
				return false
			case *tengo.Map:
				a.Value["0"] = v["b"]
				return false
			}
			return true
		}},
	{name: "selector-assign", src: "a.k = b\nx := a", reads: []string{"a", "b"}, defs: []string{"x"}, mutatesA: true,
		run: func(v map[string]tengo.Object) bool {
			a, ok := v["a"].(*tengo.Map)
			if !ok {
				return true
			}
			a.Value["k"] = v["b"]
			v["x"] = v["a"]
			return false
		}},
	// a.k.j = b: a is a map (immutability is shallow, tutorial.md: "immutability
	// is not applied to the individual elements"), a.k a mutable map. A missing
	// key reads undefined, which is not index-assignable; arrays, strings,
	// bytes and errors reject the selector k; other types are not indexable.
	{name: "nested-assign", src: "a.k.j = b", reads: []string{"a", "b"}, nestedK: true,
		run: func(v map[string]tengo.Object) bool {
			var inner tengo.Object
			switch a := v["a"].(type) {
			case *tengo.Map:
				inner = a.Value["k"]
			case *tengo.ImmutableMap:
				inner = a.Value["k"]
			default:
				return true
			}
			m, ok := inner.(*tengo.Map)
			if !ok {
				return true
			}
			m.Value["j"] = v["b"]
			return false
		}},
	{name: "failing", src: "x := a\ny := 1 + \"s\"\nx = b", reads: []string{"a", "b"}, defs: []string{"x", "y"},
		run: func(v map[string]tengo.Object) bool { v["x"] = v["a"]; return true }},
	{name: "constants", src: "x := 5\ny := \"s\"", defs: []string{"x", "y"},
		run: func(v map[string]tengo.Object) bool {
			v["x"] = &tengo.Int{Value: 5}
			v["y"] = &tengo.String{Value: "s"}
			return false
		}},
	{name: "assign-declared-output", src: "y = a", reads: []string{"a", "y"},
		run: func(v map[string]tengo.Object) bool { v["y"] = v["a"]; return false }},
	{name: "parse-error", src: "x := (a", reads: []string{"a"}, defs: []string{"x"}, parseErr: true,
		run: func(v map[string]tengo.Object) bool { return true }},
	{name: "swap", src: "t := a\na = b\nb = t", reads: []string{"a", "b"}, defs: []string{"t"},
		run: func(v map[string]tengo.Object) bool {
			v["t"] = v["a"]
			v["a"] = v["b"]
			v["b"] = v["t"]
			return false
		}},
	{name: "function", src: "f := func(v) { return [v] }\nx := f(a)", reads: []string{"a"}, defs: []string{"f", "x"},
		run: func(v map[string]tengo.Object) bool {
			v["f"] = compiledFnSentinel
			v["x"] = &tengo.Array{Value: []tengo.Object{v["a"]}}
			return false
		}},
	// a host variable named like a builtin function shadows the builtin
	// (Script.prepCompile defines the builtins first, the variables after them)
	{name: "builtin-named-input", src: "x := len\ny := [len, a]", reads: []string{"a"}, builtin: []string{"len"}, defs: []string{"x", "y"},
		run: func(v map[string]tengo.Object) bool {
			l, declared := v["len"]
			if !declared {
				l = builtinLenSentinel
			}
			v["x"] = l
			v["y"] = &tengo.Array{Value: []tengo.Object{l, v["a"]}}
			return false
		}},
	{name: "conditional-fail", src: "x := a\ny := b + 1", reads: []string{"a", "b"}, defs: []string{"x", "y"},
		run: func(v map[string]tengo.Object) bool {
			v["x"] = v["a"]
			n, ok := plusOne(v["b"])
			if !ok {
				return true
			}
			v["y"] = n
			return false
		}},
}

// compileFails: a read name that is not declared is an unresolved reference
// ("Remove before Compile makes the name unresolved"); `:=` of a declared
// name is a redeclaration (tutorial.md: variables are defined with := once
// per scope); a parse error fails always.
func (p *tpl) compileFails(decl map[string]tengo.Object) bool {
	if p.parseErr {
		return true
	}
	for _, n := range p.reads {
		if _, ok := decl[n]; !ok {
			return true
		}
	}
	for _, n := range p.defs {
		if _, ok := decl[n]; ok {
			return true
		}
	}
	return false
}

// modelCopy: what Clone does to a global. interoperability.md: "Clone creates
// a new copy of Compiled instance"; tutorial.md: copying an immutable value
// "will return a mutable copy"; builtins.md (copy): a deep copy. impl: Clone
// uses Object.Copy for every global, so immutable containers arrive mutable in
// the clone (builtins.md's remark under `freeze` that frozen values are shared
// by clones is not what the code does; see FINDINGS.md, observation O1).
func modelCopy(o tengo.Object) tengo.Object {
	switch v := o.(type) {
	case *tengo.Int:
		return &tengo.Int{Value: v.Value}
	case *tengo.Float:
		return &tengo.Float{Value: v.Value}
	case *tengo.Char:
		return &tengo.Char{Value: v.Value}
	case *tengo.String:
		return &tengo.String{Value: v.Value}
	case *tengo.Bytes:
		return &tengo.Bytes{Value: append([]byte{}, v.Value...)}
	case *tengo.Time:
		return &tengo.Time{Value: v.Value}
	case *tengo.Error:
		return &tengo.Error{Value: modelCopy(v.Value)}
	case *tengo.Array:
		return &tengo.Array{Value: copySeq(v.Value)}
	case *tengo.ImmutableArray:
		return &tengo.Array{Value: copySeq(v.Value)}
	case *tengo.Map:
		return &tengo.Map{Value: copyMap(v.Value)}
	case *tengo.ImmutableMap:
		return &tengo.Map{Value: copyMap(v.Value)}
	case *tengo.UserFunction:
		return &tengo.UserFunction{Name: v.Name, Value: v.Value}
	case *tengo.BuiltinFunction:
		// the copy keeps the name (bd9c161; FINDINGS.md, observation O2)
		return &tengo.BuiltinFunction{Name: v.Name, Value: v.Value}
	}
	return o // Bool, Undefined, compiled function sentinel
}

func copySeq(xs []tengo.Object) []tengo.Object {
	out := make([]tengo.Object, len(xs))
	for i, x := range xs {
		out[i] = modelCopy(x)
	}
	return out
}

func copyMap(m map[string]tengo.Object) map[string]tengo.Object {
	out := make(map[string]tengo.Object, len(m))
	for k, x := range m {
		out[k] = modelCopy(x)
	}
	return out
}

// ---------- actions ----------

type Action struct {
	Op   string  `json:"op"` // add remove compile srun set run get getall isdef clone
	Name string  `json:"name,omitempty"`
	Obj  int     `json:"obj,omitempty"` // index of the addressed Compiled
	Val  *GoSpec `json:"val,omitempty"`
	Ctx  bool    `json:"ctx,omitempty"` // RunContext instead of Run
}

func (a Action) String() string {
	switch a.Op {
	case "add":
		return fmt.Sprintf("Add(%s, %s)", a.Name, a.Val.describe())
	case "remove":
		return fmt.Sprintf("Remove(%s)", a.Name)
	case "compile":
		return "Compile()"
	case "srun":
		if a.Ctx {
			return "Script.RunContext()"
		}
		return "Script.Run()"
	case "set":
		return fmt.Sprintf("#%d.Set(%s, %s)", a.Obj, a.Name, a.Val.describe())
	case "run":
		if a.Ctx {
			return fmt.Sprintf("#%d.RunContext()", a.Obj)
		}
		return fmt.Sprintf("#%d.Run()", a.Obj)
	case "clone":
		return fmt.Sprintf("#%d.Clone()", a.Obj)
	case "getall":
		return fmt.Sprintf("#%d.GetAll()", a.Obj)
	}
	return fmt.Sprintf("#%d.%s(%s)", a.Obj, a.Op, a.Name)
}

type histPayload struct {
	Tpl     int      `json:"tpl"`
	Name    string   `json:"template,omitempty"` // wins over Tpl when present
	Src     string   `json:"src"` // echo
	Actions []Action `json:"actions"`
	Trace   []string `json:"trace,omitempty"` // echo
}

const maxObjs = 4

type cobj struct {
	c      *tengo.Compiled
	names  map[string]bool         // declared at compile time + script globals
	vars   map[string]tengo.Object // absent = never assigned: reads as undefined
	hadSet bool
	clone  bool
}

type machine struct {
	tplIdx  int
	tpl     *tpl
	script  *tengo.Script
	decl    map[string]tengo.Object
	objs    []*cobj
	created int
	hist    []Action
	// statistics
	ops         map[string]int
	runAfterSet bool
	sawClone    bool
	nested      bool
	cloneUsed   bool // an action addressed a clone
	compileErrs int
	runErrs     int
	setErrs     int
}

func newMachine(tplIdx int) *machine {
	p := templates[tplIdx]
	return &machine{tplIdx: tplIdx, tpl: p, script: tengo.NewScript([]byte(p.src)),
		decl: map[string]tengo.Object{}, ops: map[string]int{}}
}

func (m *machine) payload() histPayload {
	tr := make([]string, len(m.hist))
	for i, a := range m.hist {
		tr[i] = a.String()
	}
	return histPayload{Tpl: m.tplIdx, Name: m.tpl.name, Src: m.tpl.src, Actions: m.hist, Trace: tr}
}

func (m *machine) push(o *cobj) {
	if len(m.objs) < maxObjs {
		m.objs = append(m.objs, o)
	} else {
		m.objs[m.created%maxObjs] = o
	}
	m.created++
}

func safely(f func()) (pan interface{}) {
	defer func() {
		if r := recover(); r != nil {
			pan = r
		}
	}()
	f()
	return nil
}

func runCompiled(c *tengo.Compiled, useCtx bool) (err error, pan interface{}) {
	pan = safely(func() {
		if useCtx {
			// Never cancelled in practice: time is not a correctness signal.
			ctx, cancel := context.WithTimeout(context.Background(), 60*time.Second)
			defer cancel()
			err = c.RunContext(ctx)
		} else {
			err = c.Run()
		}
	})
	return
}

func modelValue(o *cobj, name string) tengo.Object {
	if v, ok := o.vars[name]; ok && v != nil {
		return v
	}
	return tengo.UndefinedValue
}

// knownPattern reports the open finding an action would run into (so the
// generator can leave the action out), "" if none.
func (m *machine) knownPattern(a Action) string {
	if !openFindings["F-C15-nil-objmap"] || (a.Op != "add" && a.Op != "set") || a.Name != "a" || a.Val == nil {
		return ""
	}
	isNilObjMap := func(s *GoSpec) bool { return s.K == "mapo" && s.Nil }
	if m.tpl.mutatesA && isNilObjMap(a.Val) {
		return "F-C15-nil-objmap"
	}
	if m.tpl.nestedK && a.Val.K == "mapi" {
		for i, k := range a.Val.Keys {
			if unhex(k) == "k" && isNilObjMap(a.Val.Kids[i]) {
				return "F-C15-nil-objmap"
			}
		}
	}
	return ""
}

// apply performs one action on the real objects and on the model, compares
// the immediate results, then checks the invariant on every live Compiled.
// "" = fine, otherwise the description of the disagreement.
func (m *machine) apply(a Action) string {
	m.hist = append(m.hist, a)
	m.ops[a.Op]++
	var o *cobj
	switch a.Op {
	case "set", "run", "get", "getall", "isdef", "clone":
		if a.Obj < 0 || a.Obj >= len(m.objs) {
			return fmt.Sprintf("harness: action %s addresses object %d of %d", a.Op, a.Obj, len(m.objs))
		}
		o = m.objs[a.Obj]
		if o.clone {
			m.cloneUsed = true
		}
	}
	if a.Val != nil && a.Val.depth() >= 2 && a.Val.supported() {
		m.nested = true
	}
	switch a.Op {
	case "add":
		var err error
		if pan := safely(func() { err = m.script.Add(a.Name, a.Val.build()) }); pan != nil {
			return fmt.Sprintf("%s panicked: %v", a, pan)
		}
		exp, ok := a.Val.expect()
		if !ok {
			if err == nil {
				return fmt.Sprintf("%s: value outside the conversion table accepted", a)
			}
			// impl: a failed Add leaves the previous declaration (if any) alone.
		} else {
			if err != nil {
				return fmt.Sprintf("%s failed: %v", a, err)
			}
			m.decl[a.Name] = exp
		}
	case "remove":
		_, want := m.decl[a.Name]
		var got bool
		if pan := safely(func() { got = m.script.Remove(a.Name) }); pan != nil {
			return fmt.Sprintf("%s panicked: %v", a, pan)
		}
		if got != want {
			return fmt.Sprintf("%s returned %v, the name was declared: %v", a, got, want)
		}
		delete(m.decl, a.Name)
	case "compile", "srun":
		var c *tengo.Compiled
		var err error
		pan := safely(func() {
			switch {
			case a.Op == "compile":
				c, err = m.script.Compile()
			case a.Ctx:
				ctx, cancel := context.WithTimeout(context.Background(), 60*time.Second)
				defer cancel()
				c, err = m.script.RunContext(ctx)
			default:
				c, err = m.script.Run()
			}
		})
		if pan != nil {
			return fmt.Sprintf("%s panicked: %v", a, pan)
		}
		if m.tpl.compileFails(m.decl) {
			m.compileErrs++
			if err == nil {
				return fmt.Sprintf("%s of %q succeeded with declared names %v: expected a compile error", a, m.tpl.src, sortedKeys(m.decl))
			}
			break
		}
		n := &cobj{c: c, names: map[string]bool{}, vars: map[string]tengo.Object{}}
		for k, v := range m.decl {
			n.names[k] = true
			n.vars[k] = v // shared with the Script and with other compilations (impl, see top)
		}
		for _, k := range m.tpl.defs {
			n.names[k] = true
		}
		if a.Op == "compile" {
			if err != nil {
				return fmt.Sprintf("%s of %q with declared names %v failed: %v", a, m.tpl.src, sortedKeys(m.decl), err)
			}
		} else {
			wantErr := m.tpl.run(n.vars)
			if wantErr {
				m.runErrs++
			}
			if (err != nil) != wantErr {
				return fmt.Sprintf("%s of %q: error %v, expected a run-time error: %v", a, m.tpl.src, err, wantErr)
			}
			if c == nil {
				// impl: the Compiled is returned also when the run fails.
				return fmt.Sprintf("%s returned no Compiled (err %v)", a, err)
			}
		}
		m.push(n)
	case "set":
		var err error
		if pan := safely(func() { err = o.c.Set(a.Name, a.Val.build()) }); pan != nil {
			return fmt.Sprintf("%s panicked: %v", a, pan)
		}
		exp, ok := a.Val.expect()
		wantErr := !ok || !o.names[a.Name]
		if wantErr {
			m.setErrs++
		}
		if (err != nil) != wantErr {
			return fmt.Sprintf("%s returned error %v; name known to the compilation: %v, value convertible: %v", a, err, o.names[a.Name], ok)
		}
		if !wantErr {
			o.vars[a.Name] = exp
			o.hadSet = true
		}
	case "run":
		err, pan := runCompiled(o.c, a.Ctx)
		if pan != nil {
			return fmt.Sprintf("%s of %q panicked: %v", a, m.tpl.src, pan)
		}
		wantErr := m.tpl.run(o.vars)
		if wantErr {
			m.runErrs++
		}
		if (err != nil) != wantErr {
			return fmt.Sprintf("%s of %q: error %v, expected a run-time error: %v", a, m.tpl.src, err, wantErr)
		}
		if o.hadSet {
			m.runAfterSet = true
		}
	case "get":
		var v *tengo.Variable
		if pan := safely(func() { v = o.c.Get(a.Name) }); pan != nil {
			return fmt.Sprintf("%s panicked: %v", a, pan)
		}
		if v == nil {
			return fmt.Sprintf("%s returned nil", a)
		}
		if v.Name() != a.Name {
			return fmt.Sprintf("%s returned a variable named %q", a, v.Name())
		}
		if d := accessorDiff(v, modelValue(o, a.Name)); d != "" {
			return fmt.Sprintf("%s: %s", a, d)
		}
	case "getall":
		if d := m.getAllDiff(o, true); d != "" {
			return fmt.Sprintf("%s: %s", a, d)
		}
	case "isdef":
		var got bool
		if pan := safely(func() { got = o.c.IsDefined(a.Name) }); pan != nil {
			return fmt.Sprintf("%s panicked: %v", a, pan)
		}
		if want := modelValue(o, a.Name) != tengo.UndefinedValue; got != want {
			return fmt.Sprintf("%s = %v, model value %s", a, got, tv.Describe(modelValue(o, a.Name)))
		}
	case "clone":
		var c *tengo.Compiled
		if pan := safely(func() { c = o.c.Clone() }); pan != nil {
			return fmt.Sprintf("%s panicked: %v", a, pan)
		}
		if c == nil {
			return fmt.Sprintf("%s returned nil", a)
		}
		n := &cobj{c: c, names: o.names, vars: map[string]tengo.Object{}, clone: true, hadSet: o.hadSet}
		for k, v := range o.vars {
			if v != nil {
				n.vars[k] = modelCopy(v)
			}
		}
		m.push(n)
		m.sawClone = true
	default:
		return "harness: unknown action " + a.Op
	}
	return m.checkAll(a)
}

func sortedKeys(m map[string]tengo.Object) []string {
	ks := make([]string, 0, len(m))
	for k := range m {
		ks = append(ks, k)
	}
	sort.Strings(ks)
	return ks
}

// getAllDiff: GetAll returns exactly the declared and the script-global
// names, each once, with the current values.
func (m *machine) getAllDiff(o *cobj, deep bool) string {
	var vars []*tengo.Variable
	if pan := safely(func() { vars = o.c.GetAll() }); pan != nil {
		return fmt.Sprintf("GetAll panicked: %v", pan)
	}
	seen := map[string]bool{}
	for _, v := range vars {
		if v == nil {
			return "GetAll returned a nil variable"
		}
		n := v.Name()
		if seen[n] {
			return fmt.Sprintf("GetAll lists %q twice", n)
		}
		seen[n] = true
		if !o.names[n] {
			return fmt.Sprintf("GetAll lists %q, which is neither declared nor a script global (%v)", n, keysOf(o.names))
		}
		want := modelValue(o, n)
		if got := tv.Describe(v.Object()); got != tv.Describe(want) {
			return fmt.Sprintf("GetAll: %s = %s, expected %s", n, got, tv.Describe(want))
		}
		if deep {
			if d := sameGo(v.Value(), normObj(want)); d != "" {
				return fmt.Sprintf("GetAll: %s.Value(): %s", n, d)
			}
		}
	}
	if len(seen) != len(o.names) {
		var missing []string
		for n := range o.names {
			if !seen[n] {
				missing = append(missing, n)
			}
		}
		sort.Strings(missing)
		return fmt.Sprintf("GetAll omits %v (lists %v)", missing, keysOf(seen))
	}
	return ""
}

func keysOf(m map[string]bool) []string {
	ks := make([]string, 0, len(m))
	for k := range m {
		ks = append(ks, k)
	}
	sort.Strings(ks)
	return ks
}

// checkAll: the invariant, on every live Compiled and every name of the
// universe: Get reads the last value the host set or the script assigned
// (undefined for names the compilation does not know and for script globals
// not assigned yet), IsDefined is "has a value other than undefined", GetAll
// lists exactly the known names.
func (m *machine) checkAll(after Action) string {
	for i, o := range m.objs {
		for _, n := range universe {
			want := modelValue(o, n)
			var v *tengo.Variable
			var def bool
			if pan := safely(func() { v = o.c.Get(n); def = o.c.IsDefined(n) }); pan != nil {
				return fmt.Sprintf("after %s: #%d.Get/IsDefined(%s) panicked: %v", after, i, n, pan)
			}
			if v == nil {
				return fmt.Sprintf("after %s: #%d.Get(%s) returned nil", after, i, n)
			}
			if got := tv.Describe(v.Object()); got != tv.Describe(want) {
				return fmt.Sprintf("after %s: #%d.Get(%s) = %s, expected %s", after, i, n, got, tv.Describe(want))
			}
			if wantDef := want != tengo.UndefinedValue; def != wantDef {
				return fmt.Sprintf("after %s: #%d.IsDefined(%s) = %v, value %s", after, i, n, def, tv.Describe(want))
			}
		}
		if d := m.getAllDiff(o, false); d != "" {
			return fmt.Sprintf("after %s: #%d: %s", after, i, d)
		}
	}
	return ""
}

// runHistory replays a recorded history without rapid.
func runHistory(p histPayload) (m *machine, fail string) {
	for i, tp := range templates {
		if p.Name != "" && tp.name == p.Name {
			p.Tpl = i
		}
	}
	if p.Tpl < 0 || p.Tpl >= len(templates) {
		return nil, fmt.Sprintf("harness: template %d does not exist", p.Tpl)
	}
	m = newMachine(p.Tpl)
	for _, a := range p.Actions {
		if f := m.apply(a); f != "" {
			return m, f
		}
	}
	return m, ""
}

func (m *machine) key() string {
	var sb strings.Builder
	sb.WriteString(m.tpl.name)
	for _, a := range m.hist {
		sb.WriteString("|")
		sb.WriteString(a.String())
	}
	return sb.String()
}
