package c15

// Values the script hands to a host function, and values the host function
// hands back, stay what they were. A CallableFunc receives `args ...Object`;
// nothing says it must copy the slice before keeping it - returning
// &Array{Value: args}, or logging args, is ordinary host code - so the slice
// has to be the callee's own, not a window of the VM's operand stack that
// later pushes overwrite. Scripts here call two such host functions with
// literal arguments between statements that keep the operand stack busy; at
// the end every retained slice and every returned array must still describe
// the arguments of its own call, also after a Set and a second Run.

import (
	"fmt"
	"strings"
	"testing"

	"github.com/d5/tengo/v2"
	"pgregory.net/rapid"

	"verifharness/ev"
	"verifharness/tv"
)

type hostCallPayload struct {
	Src   string   `json:"src"`
	Wants []string `json:"wants"` // expected description of r<i> (pack) / of the i-th kept slice (keep)
	Kinds []string `json:"kinds"` // "pack" | "keep" per call
}

var hostCallLits = []string{`1`, `2`, `-7`, `"x"`, `"héllo"`, `true`, `'c'`, `2.5`, `[1, 2]`, `{k: 1}`, `undefined`}

func hostCallLitObj(lit string) tengo.Object {
	switch lit {
	case `1`:
		return &tengo.Int{Value: 1}
	case `2`:
		return &tengo.Int{Value: 2}
	case `-7`:
		return &tengo.Int{Value: -7}
	case `"x"`:
		return &tengo.String{Value: "x"}
	case `"héllo"`:
		return &tengo.String{Value: "héllo"}
	case `true`:
		return tengo.TrueValue
	case `'c'`:
		return &tengo.Char{Value: 'c'}
	case `2.5`:
		return &tengo.Float{Value: 2.5}
	case `[1, 2]`:
		return &tengo.Array{Value: []tengo.Object{&tengo.Int{Value: 1}, &tengo.Int{Value: 2}}}
	case `{k: 1}`:
		return &tengo.Map{Value: map[string]tengo.Object{"k": &tengo.Int{Value: 1}}}
	}
	return tengo.UndefinedValue
}

var hostCallNoise = []string{
	`n%d := [7, 8, 9, "a", "b"][1] + len("abcdef")`,
	`n%d := (func(a, b, c) { return [c, b, a] })("p", "q", "r")`,
	`n%d := {x: [1, 2, 3], y: "yy"}.x[2] * 4`,
	`n%d := 0; for i := 0; i < 4; i++ { n%d += i * 3 }`,
	`n%d := format("%%d-%%s-%%v", 5, "s", [6])`,
	`n%d := [[10, 20], [30, 40]][1][0] + (1 + (2 + (3 + 4)))`,
}

func genHostCall(t *rapid.T) hostCallPayload {
	var p hostCallPayload
	var sb strings.Builder
	calls := rapid.IntRange(1, 5).Draw(t, "calls")
	for i := 0; i < calls; i++ {
		na := rapid.IntRange(0, 4).Draw(t, "nargs")
		var lits []string
		var objs []tengo.Object
		for j := 0; j < na; j++ {
			l := rapid.SampledFrom(hostCallLits).Draw(t, "arg")
			lits = append(lits, l)
			objs = append(objs, hostCallLitObj(l))
		}
		kind := rapid.SampledFrom([]string{"pack", "pack", "keep"}).Draw(t, "kind")
		p.Kinds = append(p.Kinds, kind)
		p.Wants = append(p.Wants, tv.Describe(&tengo.Array{Value: objs}))
		call := kind + "(" + strings.Join(lits, ", ") + ")"
		switch rapid.IntRange(0, 3).Draw(t, "callCtx") {
		case 0:
			fmt.Fprintf(&sb, "r%d := %s\n", i, call)
		case 1:
			fmt.Fprintf(&sb, "r%d := [0, %s][1]\n", i, call)
		case 2:
			fmt.Fprintf(&sb, "r%d := (func() { return %s })()\n", i, call)
		default:
			fmt.Fprintf(&sb, "r%d := undefined\nfor q%d := 0; q%d < 1; q%d++ { r%d = %s }\n", i, i, i, i, i, call)
		}
		for k := rapid.IntRange(0, 2).Draw(t, "noise"); k > 0; k-- {
			nz := rapid.SampledFrom(hostCallNoise).Draw(t, "noiseStmt")
			id := i*10 + k
			fmt.Fprintf(&sb, strings.ReplaceAll(nz, "%d", fmt.Sprint(id))+"\n")
		}
	}
	p.Src = sb.String()
	return p
}

func checkHostCall(t ev.TB, test string, p hostCallPayload) {
	var kept [][]tengo.Object
	pack := func(args ...tengo.Object) (tengo.Object, error) { return &tengo.Array{Value: args}, nil }
	keep := func(args ...tengo.Object) (tengo.Object, error) {
		kept = append(kept, args)
		return &tengo.Int{Value: int64(len(args))}, nil
	}
	s := tengo.NewScript([]byte(p.Src))
	_ = s.Add("pack", &tengo.UserFunction{Name: "pack", Value: pack})
	_ = s.Add("keep", &tengo.UserFunction{Name: "keep", Value: keep})
	_ = s.Add("extra", 1)
	c, err := s.Compile()
	if err != nil {
		ev.Fail(t, test, p, "generated script does not compile: %v\n%s", err, p.Src)
		return
	}
	verify := func(when string) bool {
		ki := 0
		for i, kind := range p.Kinds {
			var got string
			if kind == "pack" {
				got = tv.Describe(c.Get(fmt.Sprintf("r%d", i)).Object())
			} else {
				if ki >= len(kept) {
					ev.Fail(t, test, p, "%s: keep was called %d times, expected more\n%s", when, len(kept), p.Src)
					return false
				}
				got = tv.Describe(&tengo.Array{Value: kept[ki]})
				ki++
			}
			if got != p.Wants[i] {
				ev.Fail(t, test, p, "%s: the arguments of call %d (%s) read %s, the script passed %s\n--- script ---\n%s", when, i, kind, got, p.Wants[i], p.Src)
				return false
			}
		}
		return true
	}
	if err := c.Run(); err != nil {
		ev.Fail(t, test, p, "run failed: %v\n%s", err, p.Src)
		return
	}
	if !verify("after Run") {
		return
	}
	first := kept
	kept = nil
	_ = c.Set("extra", []interface{}{1, "two", 3.0})
	if err := c.Run(); err != nil {
		ev.Fail(t, test, p, "second run failed: %v\n%s", err, p.Src)
		return
	}
	if !verify("after Set and a second Run") {
		return
	}
	// what the first run handed to the host is still intact
	kept = first
	if !verify("slices kept from the first run, after the second") {
		return
	}
	ev.Case("hostcall|"+p.Src, len(p.Kinds) >= 2, "hostcall:retained-arguments")
}

func TestHostCallArgs(t *testing.T) {
	rapid.Check(t, func(t *rapid.T) { checkHostCall(t, "TestHostCallArgs", genHostCall(t)) })
}

// ---------------------------------------------------------------------------
// Host-defined indexable objects: "If nil is returned as value, it will be
// converted to undefined by the runtime" (Object.IndexGet). A host type that
// returns (nil, nil) for a missing field is therefore a correct host type, and
// everything a script does with the result must see undefined.
// ---------------------------------------------------------------------------

type hostRecord struct {
	tengo.ObjectImpl
	fields map[string]tengo.Object
}

func (r *hostRecord) TypeName() string { return "host-record" }
func (r *hostRecord) String() string   { return "<host-record>" }
func (r *hostRecord) IndexGet(index tengo.Object) (tengo.Object, error) {
	k, ok := tengo.ToString(index)
	if !ok {
		return nil, tengo.ErrInvalidIndexType
	}
	return r.fields[k], nil // nil for a missing field
}

type hostIndexPayload struct {
	Uses []string `json:"uses"`
}

var hostIndexUses = []struct{ stmt, want string }{
	{`R := h.missing`, `undefined`},
	{`R := is_undefined(h.missing)`, `bool(true)`},
	{`R := h.missing == undefined`, `bool(true)`},
	{`R := h["nope"] != undefined`, `bool(false)`},
	{`R := [h.missing, 1]`, `array[undefined, int(1)]`},
	{`R := {k: h.missing}`, `map{"k": undefined}`},
	{`R := h.missing ? 1 : 2`, `int(2)`},
	{`R := !h.missing`, `bool(true)`},
	{`R := h.missing || "d"`, `string("d")`},
	{`R := type_name(h.missing)`, `string("undefined")`},
	{`R := string(h.missing, "dflt")`, `string("dflt")`},
	{`R := (func(x) { return is_undefined(x) })(h.missing)`, `bool(true)`},
	{`R := h.missing.deeper`, `undefined`},
	{`R := h.n + 1`, `int(6)`},
	{`R := h.s`, `string("str")`},
	{`R := copy([h.missing])`, `array[undefined]`},
	{`R := immutable([h.missing])[0]`, `undefined`},
}

func checkHostIndexable(t ev.TB, test string, p hostIndexPayload) {
	var sb strings.Builder
	var wants []string
	for i, u := range p.Uses {
		for _, c := range hostIndexUses {
			if c.stmt == u {
				sb.WriteString(strings.ReplaceAll(u, "R", fmt.Sprintf("r%d", i)) + "\n")
				wants = append(wants, c.want)
			}
		}
	}
	s := tengo.NewScript([]byte(sb.String()))
	_ = s.Add("h", &hostRecord{fields: map[string]tengo.Object{"n": &tengo.Int{Value: 5}, "s": &tengo.String{Value: "str"}}})
	var c *tengo.Compiled
	var err error
	pan := safely(func() { c, err = s.Run() })
	if pan != nil {
		ev.Fail(t, test, p, "the run panicked: %v\n%s", pan, sb.String())
		return
	}
	if err != nil {
		ev.Fail(t, test, p, "the run failed: %v\n%s", err, sb.String())
		return
	}
	for i, w := range wants {
		v := c.Get(fmt.Sprintf("r%d", i))
		var got string
		if pan := safely(func() { got = tv.Describe(v.Object()) }); pan != nil {
			got = fmt.Sprintf("panic while describing: %v", pan)
		}
		if tv.HasNil(v.Object()) {
			got = "a Go nil (where the runtime owes undefined) in " + got
		}
		if got != w {
			ev.Fail(t, test, p, "statement %d (%s): result %s, expected %s\n--- script ---\n%s", i, p.Uses[i], got, w, sb.String())
			return
		}
	}
	ev.Case("hostindex|"+sb.String(), len(wants) >= 3, "hostcall:host-indexable-nil-field")
}

func TestHostIndexable(t *testing.T) {
	rapid.Check(t, func(t *rapid.T) {
		var p hostIndexPayload
		for i := rapid.IntRange(1, 6).Draw(t, "uses"); i > 0; i-- {
			p.Uses = append(p.Uses, hostIndexUses[rapid.IntRange(0, len(hostIndexUses)-1).Draw(t, "use")].stmt)
		}
		checkHostIndexable(t, "TestHostIndexable", p)
	})
}
