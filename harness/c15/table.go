package c15

// The documented tables, written down independently of tengo.go:
//   - normObj: Tengo object -> Go value (what ToInterface / Variable.Value give
//     back), the reverse of the table of interoperability.md with the
//     documented normalisation (Int->int64, Char->rune, Error->error carrying
//     the message, Array/ImmutableArray->[]interface{}, Map/ImmutableMap->
//     map[string]interface{}, Undefined->nil, anything else -> the Object);
//   - the "Type Conversion/Coercion Table" and the IsFalsy list of
//     docs/runtime-types.md for the typed accessors of Variable.

import (
	"bytes"
	"fmt"
	"math"
	"sort"
	"strconv"
	"strings"
	"time"

	"github.com/d5/tengo/v2"

	"verifharness/tv"
)

// errNode stands for "a Go error whose message is `error: <value>`" (runtime-
// types.md, row Error column String: "error: ..."); val is the error's
// underlying Tengo value.
type errNode struct{ val tengo.Object }

// objNode stands for "the Tengo object itself" (no Go equivalent: functions,
// user types).
type objNode struct{ o tengo.Object }

func normObj(o tengo.Object) interface{} {
	switch v := o.(type) {
	case *tengo.Int:
		return v.Value
	case *tengo.String:
		return v.Value
	case *tengo.Float:
		return v.Value
	case *tengo.Bool:
		return !v.IsFalsy()
	case *tengo.Char:
		return v.Value
	case *tengo.Bytes:
		return v.Value
	case *tengo.Time:
		return v.Value
	case *tengo.Undefined:
		return nil
	case *tengo.Error:
		return errNode{val: v.Value}
	case *tengo.Array:
		return normSeq(v.Value)
	case *tengo.ImmutableArray:
		return normSeq(v.Value)
	case *tengo.Map:
		return normMap(v.Value)
	case *tengo.ImmutableMap:
		return normMap(v.Value)
	}
	return objNode{o: o}
}

func normSeq(xs []tengo.Object) []interface{} {
	out := make([]interface{}, len(xs))
	for i, x := range xs {
		out[i] = normObj(x)
	}
	return out
}

func normMap(m map[string]tengo.Object) map[string]interface{} {
	out := make(map[string]interface{}, len(m))
	for k, x := range m {
		out[k] = normObj(x)
	}
	return out
}

// sameGo compares a Go value obtained from tengo with the expected normalised
// value; "" when equal, else a description of the first difference. Types are
// compared exactly (an int where int64 is documented is a difference).
func sameGo(got, want interface{}) string {
	switch w := want.(type) {
	case nil:
		if got != nil {
			return fmt.Sprintf("got %T(%v), want nil", got, got)
		}
	case int64:
		if g, ok := got.(int64); !ok || g != w {
			return fmt.Sprintf("got %T(%v), want int64(%d)", got, got, w)
		}
	case string:
		if g, ok := got.(string); !ok || g != w {
			return fmt.Sprintf("got %T(%q), want string(%q)", got, got, w)
		}
	case float64:
		g, ok := got.(float64)
		if !ok || !(math.Float64bits(g) == math.Float64bits(w) || (math.IsNaN(g) && math.IsNaN(w))) {
			return fmt.Sprintf("got %T(%v), want float64(%v)", got, got, w)
		}
	case bool:
		if g, ok := got.(bool); !ok || g != w {
			return fmt.Sprintf("got %T(%v), want bool(%v)", got, got, w)
		}
	case rune:
		if g, ok := got.(rune); !ok || g != w {
			return fmt.Sprintf("got %T(%v), want rune(%d)", got, got, w)
		}
	case []byte:
		if g, ok := got.([]byte); !ok || !bytes.Equal(g, w) {
			return fmt.Sprintf("got %T(%q), want []byte(%q)", got, got, w)
		}
	case time.Time:
		g, ok := got.(time.Time)
		if !ok {
			return fmt.Sprintf("got %T, want time.Time", got)
		}
		_, go1 := g.Zone()
		_, wo := w.Zone()
		if !g.Equal(w) || go1 != wo || g.IsZero() != w.IsZero() {
			return fmt.Sprintf("got time %v, want %v", g, w)
		}
	case errNode:
		g, ok := got.(error)
		if !ok || g == nil {
			return fmt.Sprintf("got %T(%v), want an error", got, got)
		}
		if !matchRender(&tengo.Error{Value: w.val}, g.Error()) {
			return fmt.Sprintf("got error with message %q, want message %q", g.Error(), render(&tengo.Error{Value: w.val}))
		}
	case objNode:
		g, ok := got.(tengo.Object)
		if !ok || tv.Describe(g) != tv.Describe(w.o) {
			return fmt.Sprintf("got %T(%v), want the object %s", got, got, tv.Describe(w.o))
		}
	case []interface{}:
		g, ok := got.([]interface{})
		if !ok {
			return fmt.Sprintf("got %T, want []interface{}", got)
		}
		if len(g) != len(w) {
			return fmt.Sprintf("got %d elements, want %d", len(g), len(w))
		}
		for i := range w {
			if d := sameGo(g[i], w[i]); d != "" {
				return fmt.Sprintf("[%d]: %s", i, d)
			}
		}
	case map[string]interface{}:
		g, ok := got.(map[string]interface{})
		if !ok {
			return fmt.Sprintf("got %T, want map[string]interface{}", got)
		}
		if len(g) != len(w) {
			return fmt.Sprintf("got %d keys, want %d", len(g), len(w))
		}
		keys := make([]string, 0, len(w))
		for k := range w {
			keys = append(keys, k)
		}
		sort.Strings(keys)
		for _, k := range keys {
			gv, ok := g[k]
			if !ok {
				return fmt.Sprintf("key %q missing", k)
			}
			if d := sameGo(gv, w[k]); d != "" {
				return fmt.Sprintf("[%q]: %s", k, d)
			}
		}
	default:
		return fmt.Sprintf("harness: unexpected expected type %T", want)
	}
	return ""
}

// render: the string form of a value as the String column of the coercion
// table needs it. The table fixes the shapes (strconv for Int/Float,
// "true"/"false", string(c), string(y), "[...]", "{...}", Time.String(),
// "error: ..."); where it leaves details open (float format 'f', elements
// joined by ", ", string elements quoted, "k: v" pairs) the implementation of
// Object.String() is followed. Map pairs are rendered in sorted key order;
// see matchRender for the comparison.
func render(o tengo.Object) string {
	switch v := o.(type) {
	case *tengo.Int:
		return strconv.FormatInt(v.Value, 10)
	case *tengo.Float:
		return strconv.FormatFloat(v.Value, 'f', -1, 64)
	case *tengo.String:
		return strconv.Quote(v.Value)
	case *tengo.Char:
		return string(v.Value)
	case *tengo.Bytes:
		return string(v.Value)
	case *tengo.Bool:
		if v.IsFalsy() {
			return "false"
		}
		return "true"
	case *tengo.Undefined:
		return "<undefined>"
	case *tengo.Time:
		return v.Value.String()
	case *tengo.Error:
		return "error: " + render(v.Value)
	case *tengo.Array:
		return renderSeq(v.Value)
	case *tengo.ImmutableArray:
		return renderSeq(v.Value)
	case *tengo.Map:
		return renderMap(v.Value)
	case *tengo.ImmutableMap:
		return renderMap(v.Value)
	case *tengo.UserFunction:
		return "<user-function>"
	case *tengo.BuiltinFunction:
		return "<builtin-function>"
	case *tengo.CompiledFunction:
		return "<compiled-function>"
	}
	return o.String()
}

func renderSeq(xs []tengo.Object) string {
	parts := make([]string, len(xs))
	for i, x := range xs {
		parts[i] = render(x)
	}
	return "[" + strings.Join(parts, ", ") + "]"
}

func renderMap(m map[string]tengo.Object) string {
	keys := make([]string, 0, len(m))
	for k := range m {
		keys = append(keys, k)
	}
	sort.Strings(keys)
	parts := make([]string, len(keys))
	for i, k := range keys {
		parts[i] = k + ": " + render(m[k])
	}
	return "{" + strings.Join(parts, ", ") + "}"
}

func hasMultiKeyMap(o tengo.Object) bool {
	any := func(xs []tengo.Object) bool {
		for _, x := range xs {
			if hasMultiKeyMap(x) {
				return true
			}
		}
		return false
	}
	anyM := func(m map[string]tengo.Object) bool {
		if len(m) > 1 {
			return true
		}
		for _, x := range m {
			if hasMultiKeyMap(x) {
				return true
			}
		}
		return false
	}
	switch v := o.(type) {
	case *tengo.Array:
		return any(v.Value)
	case *tengo.ImmutableArray:
		return any(v.Value)
	case *tengo.Map:
		return anyM(v.Value)
	case *tengo.ImmutableMap:
		return anyM(v.Value)
	case *tengo.Error:
		return hasMultiKeyMap(v.Value)
	}
	return false
}

// matchRender: s is the string form of o. Exact unless o contains a map with
// two or more keys: the order of map pairs is unspecified (Go map iteration),
// so then only the multiset of bytes, the length and the outer delimiters are
// compared.
func matchRender(o tengo.Object, s string) bool {
	want := render(o)
	if !hasMultiKeyMap(o) {
		return s == want
	}
	if len(s) != len(want) || len(s) == 0 || s[0] != want[0] || s[len(s)-1] != want[len(want)-1] {
		return false
	}
	a, b := []byte(s), []byte(want)
	sort.Slice(a, func(i, j int) bool { return a[i] < a[j] })
	sort.Slice(b, func(i, j int) bool { return b[i] < b[j] })
	return bytes.Equal(a, b)
}

// falsy: the IsFalsy list of runtime-types.md. known=false for types the list
// does not mention (functions, user types). Immutable containers are treated
// like their mutable counterparts (the list is silent; implementation).
func falsy(o tengo.Object) (f bool, known bool) {
	switch v := o.(type) {
	case *tengo.Int:
		return v.Value == 0, true
	case *tengo.String:
		return len(v.Value) == 0, true
	case *tengo.Float:
		return math.IsNaN(v.Value), true
	case *tengo.Bool:
		return v == tengo.FalseValue, true
	case *tengo.Char:
		return v.Value == 0, true
	case *tengo.Bytes:
		return len(v.Value) == 0, true
	case *tengo.Array:
		return len(v.Value) == 0, true
	case *tengo.ImmutableArray:
		return len(v.Value) == 0, true
	case *tengo.Map:
		return len(v.Value) == 0, true
	case *tengo.ImmutableMap:
		return len(v.Value) == 0, true
	case *tengo.Time:
		return v.Value.IsZero(), true
	case *tengo.Error:
		return true, true
	case *tengo.Undefined:
		return true, true
	}
	return false, false
}

// typeName: the names used by the documentation (tutorial.md "Values and
// Value Types", builtins.md type_name / is_* entries); function names follow
// the implementation.
func typeName(o tengo.Object) string {
	switch v := o.(type) {
	case *tengo.Int:
		return "int"
	case *tengo.String:
		return "string"
	case *tengo.Float:
		return "float"
	case *tengo.Bool:
		return "bool"
	case *tengo.Char:
		return "char"
	case *tengo.Bytes:
		return "bytes"
	case *tengo.Array:
		return "array"
	case *tengo.ImmutableArray:
		return "immutable-array"
	case *tengo.Map:
		return "map"
	case *tengo.ImmutableMap:
		return "immutable-map"
	case *tengo.Time:
		return "time"
	case *tengo.Error:
		return "error"
	case *tengo.Undefined:
		return "undefined"
	case *tengo.UserFunction:
		return "user-function:" + v.Name
	case *tengo.BuiltinFunction:
		return "builtin-function:" + v.Name
	case *tengo.CompiledFunction:
		return "compiled-function"
	}
	return o.TypeName()
}

// inTable: the value's type has a row in the coercion table of
// runtime-types.md (immutable containers share the rows of Array / Map for
// the String and Bool columns: implementation, the table has no row for them).
func inTable(o tengo.Object) bool {
	switch o.(type) {
	case *tengo.Int, *tengo.String, *tengo.Float, *tengo.Bool, *tengo.Char, *tengo.Bytes, *tengo.Array,
		*tengo.Map, *tengo.Time, *tengo.Error, *tengo.Undefined, *tengo.ImmutableArray, *tengo.ImmutableMap:
		return true
	}
	return false
}

// wantInt64: column Int. String: strconv (base 10, 64 bit; zero value when it
// does not parse); Float: int64(f); Bool: 1/0; Char: int64(c); X: zero.
func wantInt64(o tengo.Object) int64 {
	switch v := o.(type) {
	case *tengo.Int:
		return v.Value
	case *tengo.Float:
		return int64(v.Value)
	case *tengo.Char:
		return int64(v.Value)
	case *tengo.Bool:
		if v == tengo.TrueValue {
			return 1
		}
		return 0
	case *tengo.String:
		n, err := strconv.ParseInt(v.Value, 10, 64)
		if err != nil {
			return 0
		}
		return n
	}
	return 0
}

// wantFloat: column Float. Int: float64(v); String: strconv; X: zero.
func wantFloat(o tengo.Object) float64 {
	switch v := o.(type) {
	case *tengo.Int:
		return float64(v.Value)
	case *tengo.Float:
		return v.Value
	case *tengo.String:
		f, err := strconv.ParseFloat(v.Value, 64)
		if err != nil {
			return 0
		}
		return f
	}
	return 0
}

// wantChar: column Char. Int: rune(v); X: zero.
func wantChar(o tengo.Object) rune {
	switch v := o.(type) {
	case *tengo.Int:
		return rune(v.Value)
	case *tengo.Char:
		return v.Value
	}
	return 0
}

// wantBytes: column Bytes. String: []byte(s); X: nil.
func wantBytes(o tengo.Object) []byte {
	switch v := o.(type) {
	case *tengo.Bytes:
		return v.Value
	case *tengo.String:
		return []byte(v.Value)
	}
	return nil
}

// stringOK checks Variable.String() against column String: a String is
// itself; Undefined has no conversion (zero value ""); everything else is
// its string form.
func stringOK(o tengo.Object, got string) (bool, string) {
	switch v := o.(type) {
	case *tengo.String:
		return got == v.Value, v.Value
	case *tengo.Undefined:
		return got == "", ""
	}
	return matchRender(o, got), render(o)
}
