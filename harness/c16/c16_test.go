// C16 — self tail calls run in constant frame space at any depth.
//
// Generated self-recursive functions (model_test.go) are compiled with
// Script.Compile and run with Compiled.RunContext; the result is compared with
// the equivalent Go loop. Self calls in the tail positions the property names
// (`return f(..)`, also through the right operand of && / ||) must complete at
// every depth; self calls anywhere else must give the mathematically expected
// value while the frames/operand stack suffice and an error once they cannot
// (MaxFrames / StackSize), never a wrong value.
package c16

import (
	"context"
	"errors"
	"fmt"
	"os"
	"path/filepath"
	"runtime"
	"runtime/debug"
	"sort"
	"strings"
	"sync"
	"sync/atomic"
	"testing"
	"time"

	"github.com/d5/tengo/v2"
	"pgregory.net/rapid"

	"verifharness/ev"
)

func TestMain(m *testing.M) {
	// every run allocates a VM (~90 KB) and one Int per arithmetic step; a
	// shard is one VM goroutine plus its watchdog, and the driver runs many
	// shards side by side
	debug.SetGCPercent(400)
	runtime.GOMAXPROCS(2)
	// maintenance: VERIF_C16_OPEN_OFF=F3 runs with the exclusion of an open
	// finding switched off (to validate a candidate repair in a scratch copy)
	for _, id := range strings.Split(os.Getenv("VERIF_C16_OPEN_OFF"), ",") {
		if id != "" {
			openFindings[id] = false
		}
	}
	ev.Main(m, "C16")
}

// openFindings: generator exclusions for open findings (BUILDING.md rule 3).
// F3: a self call that is an expression statement directly followed by the
// function's end (or a bare `return`) is executed as a tail call, so the
// caller returns the callee's value instead of undefined. See FINDINGS.md.
var openFindings = map[string]bool{"F3": false} // F3 repaired in /repo d295d0a; reproducers moved to replays/C16/fixed

const f3What = "F3 self call as last expression statement runs as a tail call: caller returns the callee's value instead of undefined (vm.go OpCall tail test accepts CALL;POP;RET 0)"

// Margins of the window in which a non-tail recursion may either succeed or
// fail with an error (derived from tengo.MaxFrames / tengo.StackSize):
//   - it MUST fail once the positions that are certainly not tail calls need
//     more simultaneous script-function activations than MaxFrames;
//   - it MUST succeed while (activations + frameSlack) <= MaxFrames and
//     (activations + 4) * slotsPerLevel + stackSlack <= StackSize, where
//     slotsPerLevel over-approximates the operand slots of one activation.
const (
	frameSlack = 8
	stackSlack = 64
)

var (
	watchdog      = 60 * time.Second
	watchdogAfter = 15 * time.Second // once a failure is recorded (shrinking re-runs)
	failedOnce    int32
	failedAt      int64    // unix nanoseconds of the first recorded failure
	failCache     sync.Map // script -> failure message of cases that failed in this process
)

// Once a failure is recorded the verdict of the process is settled; what
// follows only serves rapid's shrinker, whose passes can make ~100 attempts
// without looking at its deadline. Hanging candidates cost a watchdog each, so
// after shrinkBudget unseen candidates are no longer run (they count as "not
// failing"); candidates that already failed are answered from failCache so the
// minimal case rapid re-runs at the end fails the same way.
const shrinkBudget = 45 * time.Second

func recordFailure(src, msg string) {
	if atomic.CompareAndSwapInt32(&failedOnce, 0, 1) {
		atomic.StoreInt64(&failedAt, time.Now().UnixNano())
	}
	failCache.Store(src, msg)
}

// afterFailure reports (cached failure message, skip) for a candidate
// evaluated after the first failure of the process.
func afterFailure(src string) (string, bool) {
	if atomic.LoadInt32(&failedOnce) == 0 {
		return "", false
	}
	if m, ok := failCache.Load(src); ok {
		return m.(string), false
	}
	if time.Since(time.Unix(0, atomic.LoadInt64(&failedAt))) > shrinkBudget {
		ev.Note("shrink budget exhausted: candidate not run")
		return "", true
	}
	return "", false
}

func failText(msg, src string) string {
	return msg + "\n--- script ---\n" + src + "=> " + msg
}

type payload struct {
	Kind     string    `json:"kind"` // "template" | "notself"
	Template *Template `json:"template,omitempty"`
	NotSelf  *NotSelf  `json:"notself,omitempty"`
	Nest     *Nest     `json:"nest,omitempty"`
	Reuse    *Reuse    `json:"reuse,omitempty"`
	// ReusePermille > 0: the template ran on a VM whose first run was aborted
	// after that fraction of its instructions (TestVMReuseAfterAbort)
	ReusePermille int `json:"reuse_permille,omitempty"`
	Source   string    `json:"source"` // echo
}

// ---------------------------------------------------------------------------
// running a script
// ---------------------------------------------------------------------------

type runResult struct {
	CompileErr error
	Err        error
	TimedOut   bool
	Vars       map[string]tengo.Object
}

func runOnce(src string, names []string, d time.Duration) runResult {
	s := tengo.NewScript([]byte(src))
	c, err := s.Compile()
	if err != nil {
		return runResult{CompileErr: err}
	}
	ctx, cancel := context.WithTimeout(context.Background(), d)
	defer cancel()
	err = c.RunContext(ctx)
	if err != nil {
		if errors.Is(err, context.DeadlineExceeded) {
			return runResult{TimedOut: true, Err: err}
		}
		return runResult{Err: err}
	}
	vars := map[string]tengo.Object{}
	for _, n := range names {
		v := c.Get(n)
		if v != nil {
			vars[n] = v.Object()
		}
	}
	return runResult{Vars: vars}
}

// currentRunner is how evalTemplate executes a script: through the Script API
// (runScript), or - TestVMReuseAfterAbort - on a VM that is run a second time
// after its first run was aborted somewhere in the middle.
var currentRunner = runScript

// reusePermille is non-zero while currentRunner is the reused-VM runner.
var reusePermille int

// runScript runs with the watchdog; a single expiry is retried once.
func runScript(src string, names ...string) runResult {
	d := watchdog
	if atomic.LoadInt32(&failedOnce) != 0 {
		d = watchdogAfter
	}
	r := runOnce(src, names, d)
	if r.TimedOut && atomic.LoadInt32(&failedOnce) == 0 {
		ev.Note("watchdog expiry retried")
		r = runOnce(src, names, d)
	}
	return r
}

func errKind(err error) string {
	if err == nil {
		return "none"
	}
	msg := err.Error()
	switch {
	case errors.Is(err, tengo.ErrStackOverflow) || strings.Contains(msg, "stack overflow"):
		return "stack-overflow" // tengo.ErrStackOverflow: frames, or (newer trees) the operand stack
	case strings.Contains(msg, "index out of range"):
		return "operand-stack-index-panic" // recovered by RunContext (older trees)
	}
	return "other"
}

func short(s string, n int) string {
	if len(s) > n {
		return s[:n] + "..."
	}
	return s
}

func depthClass(n int64) string {
	switch {
	case n == 0:
		return "d=0"
	case n <= 2:
		return "d=1..2"
	case n < 1023:
		return "d=3..1022"
	case n == 1023:
		return "d=1023"
	case n == 1024:
		return "d=1024"
	case n == 1025:
		return "d=1025"
	case n < 2048:
		return "d=1026..2047"
	case n == 2048:
		return "d=2048"
	case n < 10000:
		return "d=2049..9999"
	case n < 100000:
		return "d=1e4..1e5-1"
	case n < 1000000:
		return "d=1e5..1e6-1"
	}
	return "d=1e6"
}

// ---------------------------------------------------------------------------
// template validation (generator self check, replay safety)
// ---------------------------------------------------------------------------

func (tp *Template) validate() error {
	if tp.Fixed < 0 || tp.Fixed > 5 || tp.VarN < -1 || tp.VarN > 3 {
		return fmt.Errorf("bad parameter counts")
	}
	ns := tp.nState()
	if len(tp.Init) < ns {
		return fmt.Errorf("init too short")
	}
	if len(tp.Arms) < 1 || len(tp.Arms) > 3 || tp.Mod < int64(len(tp.Arms)) || tp.N < 0 {
		return fmt.Errorf("bad arms/mod/n")
	}
	if tp.Style != "chain" && tp.Style != "seq" {
		return fmt.Errorf("bad style")
	}
	switch tp.Place {
	case "global", "nested", "nested2", "mapfield", "alias", "arg":
	default:
		return fmt.Errorf("bad placement")
	}
	if tp.VarN < 0 && tp.Spread != 0 {
		return fmt.Errorf("spread without variadic")
	}
	var chk func(e *Expr, nt int) error
	chk = func(e *Expr, nt int) error {
		if e == nil {
			return fmt.Errorf("nil expr")
		}
		switch e.K {
		case "n", "c":
		case "s":
			if e.I < 0 || e.I >= ns {
				return fmt.Errorf("state index")
			}
		case "t":
			if e.I < 0 || e.I >= nt {
				return fmt.Errorf("local index")
			}
		case "bin":
			if !strings.Contains("+-*^&|", e.Op) || len(e.Op) != 1 {
				return fmt.Errorf("operator")
			}
			if err := chk(e.L, nt); err != nil {
				return err
			}
			return chk(e.R, nt)
		default:
			return fmt.Errorf("expr kind")
		}
		return nil
	}
	for i, l := range tp.Locals {
		if err := chk(l, i); err != nil {
			return err
		}
	}
	if tp.Collect != 0 {
		if tp.Cap == nil || (tp.Cap.K != "n" && tp.Cap.K != "s" && tp.Cap.K != "t") {
			return fmt.Errorf("bad capture")
		}
		if err := chk(tp.Cap, len(tp.Locals)); err != nil {
			return err
		}
	}
	if tp.Bump && (tp.Collect != 1 || tp.Cap.K != "s" || tp.Cap.I >= tp.Fixed) {
		return fmt.Errorf("bad bump")
	}
	intOnly, nonInt := false, tp.BaseUndef != 0
	for i := range tp.Arms {
		a := &tp.Arms[i]
		info, ok := ctxTable[a.Ctx]
		if !ok {
			return fmt.Errorf("unknown ctx %q", a.Ctx)
		}
		if len(a.Next) != ns {
			return fmt.Errorf("next length")
		}
		for _, e := range a.Next {
			if err := chk(e, len(tp.Locals)); err != nil {
				return err
			}
		}
		if a.X == 0 {
			return fmt.Errorf("x must not be 0")
		}
		intOnly = intOnly || info.IntOnly
		nonInt = nonInt || info.NonInt
		if a.Ctx == "logic" {
			if len(a.Logic) < 1 || len(a.Logic) > 3 {
				return fmt.Errorf("logic chain length")
			}
			for _, l := range a.Logic {
				if l.Op != "&&" && l.Op != "||" {
					return fmt.Errorf("logic op")
				}
				if l.Form > 3 || l.Neutral < 0 {
					return fmt.Errorf("logic form")
				}
				if l.Form >= 0 && l.Form != 1 {
					nonInt = true
				}
				if a.Flat && l.Op != a.Logic[0].Op {
					return fmt.Errorf("flat chain with mixed operators")
				}
			}
		}
		if a.Ctx == "last" {
			if len(a.Wrap) != 0 || a.LastForm < 0 || a.LastForm > 4 {
				return fmt.Errorf("bad last form")
			}
			if tp.Style == "seq" && i != 0 && len(tp.Arms) > 1 {
				return fmt.Errorf("falling-through arm in seq style")
			}
		}
		if len(a.Wrap) > 2 {
			return fmt.Errorf("too many wrappers")
		}
		for _, w := range a.Wrap {
			found := false
			for _, k := range wrapKinds {
				found = found || k == w
			}
			if !found {
				return fmt.Errorf("unknown wrapper")
			}
		}
	}
	if intOnly && nonInt {
		return fmt.Errorf("arithmetic context in a template whose values are not all ints")
	}
	return nil
}

// ---------------------------------------------------------------------------
// the oracle applied to one template
// ---------------------------------------------------------------------------

type verdict struct {
	Discard string // non-empty: excluded (reason)
	Fail    string // non-empty: oracle violated
	Zone    string
	Outcome string
}

func getInt(vars map[string]tengo.Object, name string) (int64, bool) {
	i, ok := vars[name].(*tengo.Int)
	if !ok {
		return 0, false
	}
	return i.Value, true
}

// evalTemplate runs the template and applies the oracle. bypassKnown keeps
// the cases matching an open finding (used by TestKnownFindings).
func evalTemplate(tp *Template, bypassKnown bool) (v verdict, src string) {
	src = tp.Render()
	spec := simulate(tp, false, tengo.MaxFrames)
	if tp.hasF3Shape() && openFindings["F3"] && !bypassKnown {
		f3 := simulate(tp, true, tengo.MaxFrames)
		same := spec.Overflow == f3.Overflow && (spec.Overflow ||
			(sameValue(spec.Val, f3.Val) && spec.Tr == f3.Tr && len(spec.Caps) == len(f3.Caps)))
		if !same {
			v.Discard = "known:F3 self call as last expression statement in a function returning a value"
			return
		}
	}
	u := tp.slotsPerLevel()
	switch {
	case spec.Overflow:
		v.Zone = "must-error"
	case spec.FramesHi+frameSlack <= tengo.MaxFrames && (spec.FramesHi+4)*u+stackSlack <= tengo.StackSize:
		v.Zone = "must-value"
	default:
		v.Zone = "either"
	}
	r := currentRunner(src, "out", "tr", "ch", "cn")
	switch {
	case r.CompileErr != nil:
		v.Fail = fmt.Sprintf("generated program does not compile: %v", r.CompileErr)
		return
	case r.TimedOut:
		v.Fail = fmt.Sprintf("did not return within the %v watchdog (depth %d)", watchdog, tp.N)
		return
	case r.Err != nil:
		k := errKind(r.Err)
		v.Outcome = "error:" + k
		if v.Zone == "must-value" {
			v.Fail = fmt.Sprintf("depth %d needs at most %d frames and %d operand slots but the run failed: %s",
				tp.N, spec.FramesHi, (spec.FramesHi+4)*u, short(r.Err.Error(), 300))
			return
		}
		if k == "other" {
			v.Fail = fmt.Sprintf("depth %d: run failed with an error that is not frame/stack exhaustion: %s",
				tp.N, short(r.Err.Error(), 300))
		}
		return
	}
	v.Outcome = "value"
	out := r.Vars["out"]
	if v.Zone == "must-error" {
		v.Fail = fmt.Sprintf("depth %d: the non-tail self calls alone need %d frames (MaxFrames=%d) but the run returned %s",
			tp.N, spec.FramesLo, tengo.MaxFrames, descValue(out))
		return
	}
	if !sameValue(spec.Val, out) {
		v.Fail = fmt.Sprintf("depth %d: result %s, the equivalent loop gives %s", tp.N, descValue(out), descValue(spec.Val))
		return
	}
	if tr, ok := getInt(r.Vars, "tr"); !ok || tr != spec.Tr {
		v.Fail = fmt.Sprintf("depth %d: side-effect trace %s, the equivalent loop gives %d", tp.N, descValue(r.Vars["tr"]), spec.Tr)
		return
	}
	if cn, ok := getInt(r.Vars, "cn"); !ok || cn != int64(len(spec.Caps)) {
		v.Fail = fmt.Sprintf("depth %d: %s closures collected, expected %d", tp.N, descValue(r.Vars["cn"]), len(spec.Caps))
		return
	}
	if ch, ok := getInt(r.Vars, "ch"); !ok || ch != capsChecksum(spec.Caps) {
		v.Fail = fmt.Sprintf("depth %d: collected closures do not return the parameters of their own iteration (checksum %s, expected %d%s)",
			tp.N, descValue(r.Vars["ch"]), capsChecksum(spec.Caps), firstCaps(spec.Caps))
		return
	}
	return
}

func firstCaps(c []int64) string {
	if len(c) == 0 {
		return ""
	}
	n := len(c)
	if n > 6 {
		n = 6
	}
	return fmt.Sprintf("; expected values start %v", c[:n])
}

func templateClasses(tp *Template, v verdict) []string {
	dc := depthClass(tp.N)
	seen := map[string]bool{}
	var cls []string
	add := func(c string) {
		if !seen[c] {
			seen[c] = true
			cls = append(cls, c)
		}
	}
	allTail := true
	for i := range tp.Arms {
		a := &tp.Arms[i]
		name := a.Ctx
		switch a.Ctx {
		case "logic":
			ops := ""
			for _, l := range a.Logic {
				ops += l.Op
			}
			name = "logic:" + ops
			pol := "never-decides"
			if a.K > 0 && a.K <= tp.N {
				pol = "decides"
			}
			add("logic-polarity:" + pol)
		case "last":
			name = fmt.Sprintf("last:form%d", a.LastForm)
			if tp.f3Shaped(i) {
				name += ":procedure"
			}
		}
		add("ctx:" + name + "|" + dc)
		add("ctx:" + name)
		for _, w := range a.Wrap {
			add("wrap:" + w)
		}
		if ctxTable[a.Ctx].Kind != kTail {
			allTail = false
		}
	}
	if allTail {
		add("kind:all-tail|" + dc)
	} else {
		add("kind:has-non-tail|" + dc + "|" + v.Zone)
	}
	add("zone:" + v.Zone)
	add("outcome:" + v.Outcome)
	add("place:" + tp.Place)
	add(fmt.Sprintf("params:%d", tp.numParams()))
	if tp.VarN >= 0 {
		add(fmt.Sprintf("variadic:spread%d", tp.Spread))
	}
	add(fmt.Sprintf("locals:%d", len(tp.Locals)))
	add(fmt.Sprintf("arms:%d", len(tp.Arms)))
	if tp.Mod > int64(len(tp.Arms)) {
		add("arm-selector:sparse")
	}
	if tp.Collect > 0 {
		add(fmt.Sprintf("collect:%d:cap-%s", tp.Collect, tp.Cap.K))
		if tp.Bump {
			add("collect:bump-after-capture")
		}
	}
	if tp.BaseVia && tp.BaseUndef == 0 {
		add("base:via-other-function")
	}
	if tp.BaseUndef != 0 {
		add("base:undefined")
	}
	if tp.Trace {
		add("trace")
	}
	return cls
}

func checkTemplate(t ev.TB, test string, tp *Template) {
	if err := tp.validate(); err != nil {
		t.Fatalf("invalid template: %v", err)
		return
	}
	if msg, skip := afterFailure(tp.Render()); skip {
		return
	} else if msg != "" {
		ev.Fail(t, test, payload{Kind: "template", Template: tp, Source: tp.Render(), ReusePermille: reusePermille}, "%s", failText(msg, tp.Render()))
		return
	}
	v, src := evalTemplate(tp, false)
	if v.Discard != "" {
		ev.Discard(v.Discard)
		return
	}
	if v.Fail != "" {
		recordFailure(src, v.Fail)
		ev.Fail(t, test, payload{Kind: "template", Template: tp, Source: src, ReusePermille: reusePermille}, "%s", failText(v.Fail, src))
		return
	}
	// DESIGN.md: non-trivial = depth >= 1025 or a closure captured a parameter
	nontrivial := tp.N >= 1025 || (tp.Collect > 0 && tp.Cap.K != "t" && tp.N >= 1)
	ev.Case(src, nontrivial, templateClasses(tp, v)...)
	if nontrivial && ev.WantSample() && len(src) < 1500 {
		ev.Sample(map[string]string{"script": src, "zone": v.Zone, "outcome": v.Outcome})
	}
}

// ---------------------------------------------------------------------------
// generators
// ---------------------------------------------------------------------------

var depthSpecials = []int64{0, 1, 2, 3, 7, 64, 300, 600, 1000, 1021, 1022, 1023, 1024, 1025, 1026,
	1100, 2046, 2047, 2048, 2049, 4096, 10000, 100000}

func drawDepth(t *rapid.T, mod int64, maxN int64) int64 {
	var n int64
	switch rapid.IntRange(0, 11).Draw(t, "depthKind") {
	case 0, 1, 2, 3:
		n = rapid.SampledFrom(depthSpecials).Draw(t, "depthSpecial")
	case 4:
		// the same boundaries counted in levels taken by one arm
		n = rapid.SampledFrom(depthSpecials).Draw(t, "depthSpecial")*mod + rapid.Int64Range(0, mod).Draw(t, "depthOff")
	case 5, 6:
		n = rapid.Int64Range(0, 1100).Draw(t, "depthSmall")
	case 7:
		n = rapid.Int64Range(1000, 2100).Draw(t, "depthNear")
	case 8:
		n = rapid.Int64Range(0, 40).Draw(t, "depthTiny")
	case 9:
		n = rapid.Int64Range(2000, 20000).Draw(t, "depthMid")
	default:
		// log-uniform
		e := rapid.IntRange(0, 20).Draw(t, "depthExp")
		n = rapid.Int64Range(0, int64(1)<<uint(e)).Draw(t, "depthLog")
	}
	if n > maxN {
		n = maxN
	}
	return n
}

var smallConsts = []int64{0, 1, 2, 3, 5, 7, -1, -2, 10, 31, 1000003, -1000003, 4611686018427387903, 9223372036854775807}

func genExpr(t *rapid.T, ns, nt, depth int) *Expr {
	if depth > 0 && rapid.IntRange(0, 2).Draw(t, "bin") > 0 {
		op := rapid.SampledFrom([]string{"+", "+", "-", "*", "^", "&", "|"}).Draw(t, "op")
		return eB(op, genExpr(t, ns, nt, depth-1), genExpr(t, ns, nt, depth-1))
	}
	for {
		switch rapid.IntRange(0, 4).Draw(t, "leaf") {
		case 0:
			return eN()
		case 1, 2:
			if ns > 0 {
				return eS(rapid.IntRange(0, ns-1).Draw(t, "si"))
			}
		case 3:
			if nt > 0 {
				return eT(rapid.IntRange(0, nt-1).Draw(t, "ti"))
			}
		}
		return eC(rapid.SampledFrom(smallConsts).Draw(t, "const"))
	}
}

func genNext(t *rapid.T, i, ns, nt int) *Expr {
	other := func() *Expr {
		if ns <= 1 {
			return eS(i)
		}
		j := rapid.IntRange(0, ns-2).Draw(t, "sj")
		if j >= i {
			j++
		}
		return eS(j)
	}
	switch rapid.IntRange(0, 8).Draw(t, "nextKind") {
	case 0, 1:
		return other() // permutation: f(b, a)
	case 2:
		return eB("+", eS(i), other()) // f(b, a+b)
	case 3:
		return eB("+", eS(i), eN())
	case 4:
		return eB("+", eB("*", eS(i), eC(3)), eC(1))
	case 5:
		return eS(i)
	case 6:
		if nt > 0 {
			return eB("^", eS(i), eT(rapid.IntRange(0, nt-1).Draw(t, "ti")))
		}
		return eB("-", other(), eS(i))
	default:
		return genExpr(t, ns, nt, 2)
	}
}

// adjustStop moves k down to the nearest level >= 1 at which arm ai is the
// arm taken (-1 when there is none).
func adjustStop(tp *Template, ai int, k int64) int64 {
	for i := int64(0); i <= tp.Mod && k >= 1; i, k = i+1, k-1 {
		if tp.armIndex(k) == ai {
			return k
		}
	}
	return -1
}

type genMode struct {
	tailOnly bool
	deep     bool // depth 3e5..1e6, no closure collection
	maxN     int64
}

func drawTemplate(t *rapid.T, m genMode) *Template {
	tp := &Template{VarN: -1}
	tp.Fixed = rapid.SampledFrom([]int{0, 0, 1, 1, 2, 2, 2, 3, 3, 4, 5}).Draw(t, "fixed")
	if rapid.IntRange(0, 3).Draw(t, "variadic") == 0 {
		tp.VarN = rapid.IntRange(0, 3).Draw(t, "varN")
		tp.Spread = rapid.IntRange(0, 2).Draw(t, "spread")
	}
	ns := tp.nState()
	tp.Init = make([]int64, ns)
	for i := range tp.Init {
		if rapid.IntRange(0, 4).Draw(t, "initBig") == 0 {
			tp.Init[i] = rapid.Int64().Draw(t, "init")
			if tp.Init[i] == -9223372036854775808 {
				tp.Init[i]++ // cannot be written as a literal
			}
		} else {
			tp.Init[i] = rapid.Int64Range(-3, 9).Draw(t, "init")
		}
	}
	nl := rapid.SampledFrom([]int{0, 0, 0, 1, 1, 2, 3}).Draw(t, "nlocals")
	for j := 0; j < nl; j++ {
		tp.Locals = append(tp.Locals, genExpr(t, ns, j, 2))
	}
	intFlow := rapid.Bool().Draw(t, "intFlow")
	nArms := rapid.SampledFrom([]int{1, 1, 1, 1, 2, 2, 3}).Draw(t, "narms")
	tp.Mod = int64(nArms)
	if nArms > 1 || rapid.IntRange(0, 3).Draw(t, "sparse1") == 0 {
		switch rapid.IntRange(0, 5).Draw(t, "modKind") {
		case 0:
			tp.Mod = int64(nArms) + 1
		case 1:
			tp.Mod = 7
		case 2:
			tp.Mod = 100
		case 3:
			tp.Mod = 1000
		}
	}
	tp.Style = rapid.SampledFrom([]string{"chain", "seq"}).Draw(t, "style")
	if !intFlow {
		tp.BaseUndef = rapid.SampledFrom([]int{0, 0, 1, 1, 2}).Draw(t, "baseUndef")
	}
	tp.BaseVia = rapid.IntRange(0, 4).Draw(t, "baseVia") == 0
	tp.Trace = rapid.IntRange(0, 2).Draw(t, "trace") == 0
	tp.Trailer = rapid.IntRange(0, 3).Draw(t, "trailer") == 0
	if !m.deep {
		tp.Collect = rapid.SampledFrom([]int{0, 0, 0, 1, 1, 2}).Draw(t, "collect")
	}
	if tp.Collect != 0 {
		// what the closures capture: mostly a parameter
		switch k := rapid.IntRange(0, 5).Draw(t, "capKind"); {
		case k <= 2 && ns > 0:
			tp.Cap = eS(rapid.IntRange(0, ns-1).Draw(t, "capS"))
		case k == 3 && nl > 0:
			tp.Cap = eT(rapid.IntRange(0, nl-1).Draw(t, "capT"))
		default:
			tp.Cap = eN()
		}
		if tp.Collect == 1 && tp.Cap.K == "s" && tp.Cap.I < tp.Fixed {
			tp.Bump = rapid.Bool().Draw(t, "bump")
		}
	}
	places := []string{"global", "global", "nested", "nested", "nested2", "mapfield", "alias", "arg"}
	tp.Place = rapid.SampledFrom(places).Draw(t, "place")

	maxN := m.maxN
	if tp.Collect != 0 && maxN > 100000 {
		maxN = 100000
	}
	if m.deep {
		tp.N = rapid.Int64Range(300000, m.maxN).Draw(t, "deepN")
		if rapid.IntRange(0, 2).Draw(t, "exactMillion") == 0 {
			tp.N = m.maxN
		}
	} else {
		tp.N = drawDepth(t, tp.Mod, maxN)
	}

	// which arm is certainly not a plain tail context (mixed mode)
	special := -1
	if !m.tailOnly {
		special = rapid.IntRange(0, nArms-1).Draw(t, "special")
	}
	allowed := func(c string) bool {
		info := ctxTable[c]
		if intFlow {
			return !info.NonInt
		}
		return !info.IntOnly
	}
	pick := func(pool []string, label string) string {
		var ok []string
		for _, c := range pool {
			if allowed(c) {
				ok = append(ok, c)
			}
		}
		return rapid.SampledFrom(ok).Draw(t, label)
	}
	tp.Arms = make([]Arm, nArms)
	for ai := 0; ai < nArms; ai++ {
		a := &tp.Arms[ai]
		switch {
		case m.tailOnly:
			a.Ctx = pick(tailCtxs, "ctxTail")
		case ai == special:
			if rapid.IntRange(0, 3).Draw(t, "mayOrStrict") == 0 {
				a.Ctx = pick(mayCtxs, "ctxMay")
			} else {
				a.Ctx = pick(strictCtxs, "ctxStrict")
			}
		default:
			switch rapid.IntRange(0, 3).Draw(t, "otherKind") {
			case 0:
				a.Ctx = pick(strictCtxs, "ctxStrict")
			case 1:
				a.Ctx = pick(mayCtxs, "ctxMay")
			default:
				a.Ctx = pick(tailCtxs, "ctxTail")
			}
		}
		if a.Ctx == "last" && tp.Style == "seq" && ai != 0 {
			// would fall through into the following arms
			a.Ctx = "tern"
		}
		a.X = rapid.Int64Range(1, 99).Draw(t, "x")
		a.K = -1
		a.Next = make([]*Expr, ns)
		for i := 0; i < ns; i++ {
			if tp.Spread == 2 && i >= tp.Fixed {
				a.Next[i] = eS(i)
			} else {
				a.Next[i] = genNext(t, i, ns, nl)
			}
		}
		info := ctxTable[a.Ctx]
		if info.Stop && rapid.Bool().Draw(t, "hasStop") && tp.N >= 1 {
			k := rapid.Int64Range(1, tp.N).Draw(t, "stopAt")
			if rapid.IntRange(0, 2).Draw(t, "stopLow") == 0 {
				k = rapid.Int64Range(1, min64(tp.N, 2*tp.Mod+2)).Draw(t, "stopAtLow")
			}
			a.K = adjustStop(tp, ai, k)
		}
		switch a.Ctx {
		case "logic":
			nl := rapid.SampledFrom([]int{1, 1, 1, 2, 2, 3}).Draw(t, "chain")
			for j := 0; j < nl; j++ {
				l := Logic{Op: rapid.SampledFrom([]string{"&&", "||"}).Draw(t, "lop"), Form: -1,
					Neutral: rapid.IntRange(0, 3).Draw(t, "neutral")}
				if rapid.IntRange(0, 2).Draw(t, "stopCapable") > 0 {
					if intFlow {
						l.Form = 1
					} else {
						l.Form = rapid.IntRange(0, 3).Draw(t, "form")
					}
				}
				a.Logic = append(a.Logic, l)
			}
			same := true
			for _, l := range a.Logic {
				same = same && l.Op == a.Logic[0].Op
			}
			a.Flat = same && rapid.Bool().Draw(t, "flat")
		case "last":
			a.LastForm = rapid.IntRange(0, 4).Draw(t, "lastForm")
		}
		if a.Ctx != "last" {
			switch rapid.IntRange(0, 5).Draw(t, "nwrap") {
			case 0, 1:
				a.Wrap = []string{rapid.SampledFrom(wrapKinds).Draw(t, "wrap0")}
			case 2:
				a.Wrap = []string{rapid.SampledFrom(wrapKinds).Draw(t, "wrap0"), rapid.SampledFrom(wrapKinds).Draw(t, "wrap1")}
			}
		}
	}
	return tp
}

func min64(a, b int64) int64 {
	if a < b {
		return a
	}
	return b
}

func tierMaxN() int64 { return 100000 }

// TestTailTemplates: every self call sits in a tail position named by the
// property; the run must return the loop's value at every depth.
func TestTailTemplates(t *testing.T) {
	rapid.Check(t, func(t *rapid.T) {
		checkTemplate(t, "TestTailTemplates", drawTemplate(t, genMode{tailOnly: true, maxN: tierMaxN()}))
	})
}

// TestMixedTemplates: at least one self call is not in a tail position
// (possibly among tail positions taken at other levels).
func TestMixedTemplates(t *testing.T) {
	rapid.Check(t, func(t *rapid.T) {
		checkTemplate(t, "TestMixedTemplates", drawTemplate(t, genMode{maxN: tierMaxN()}))
	})
}

// TestDeepTail: tail-only templates at 3*10^5 .. 10^6 levels.
func TestDeepTail(t *testing.T) {
	rapid.Check(t, func(t *rapid.T) {
		checkTemplate(t, "TestDeepTail", drawTemplate(t, genMode{tailOnly: true, deep: true, maxN: 1000000}))
	})
}

// TestDeepMixed: templates with non-tail positions at 3*10^5 .. 10^6 levels
// (sparse arm selectors make some of them need only a few hundred frames).
func TestDeepMixed(t *testing.T) {
	rapid.Check(t, func(t *rapid.T) {
		checkTemplate(t, "TestDeepMixed", drawTemplate(t, genMode{deep: true, maxN: 1000000}))
	})
}

// ---------------------------------------------------------------------------
// calls that look like self tail calls but are not
// ---------------------------------------------------------------------------

// NotSelf: tail calls to ANOTHER function value: mutual recursion, and sibling
// closures made from the same function literal. Each call needs a frame.
type NotSelf struct {
	Kind  string `json:"kind"` // "mutual" | "siblings"
	Place string `json:"place"`
	N     int64  `json:"n"`
	A0    int64  `json:"a0"`
	K1    int64  `json:"k1"`
	K2    int64  `json:"k2"`
	Same  bool   `json:"same"` // siblings: pass the same closure twice (a genuine self tail call)
	StepE *Expr  `json:"step_e"`
	StepO *Expr  `json:"step_o"`
}

func (ns *NotSelf) render() string {
	var body string
	switch ns.Kind {
	case "mutual":
		body = "od := undefined\n" +
			"ev := func(n, a) {\nif n == 0 {\nreturn a * 2\n}\nreturn od(n - 1, " + ns.StepE.render(1) + ")\n}\n" +
			"od = func(n, a) {\nif n == 0 {\nreturn a * 2 + 1\n}\nreturn ev(n - 1, " + ns.StepO.render(1) + ")\n}\n" +
			fmt.Sprintf("res := ev(%d, %s)\n", ns.N, kText(ns.A0))
	case "siblings":
		second := "b"
		if ns.Same {
			second = "a"
		}
		body = "mk := func(k) {\nreturn func(n, acc, me, other) {\nif n == 0 {\nreturn acc * 7 + k\n}\n" +
			"return other(n - 1, acc * 3 + k, other, me)\n}\n}\n" +
			fmt.Sprintf("a := mk(%s)\nb := mk(%s)\nres := a(%d, %s, a, %s)\n", kText(ns.K1), kText(ns.K2), ns.N, kText(ns.A0), second)
	}
	if ns.Place == "nested" {
		return "run := func() {\n" + body + "return res\n}\nout := run()\n"
	}
	return body + "out := res\n"
}

func (ns *NotSelf) expected() int64 {
	switch ns.Kind {
	case "mutual":
		a, even := ns.A0, true
		for n := ns.N; n > 0; n-- {
			v := &env{n: n, s: []int64{a}}
			if even {
				a = ns.StepE.eval(v)
			} else {
				a = ns.StepO.eval(v)
			}
			even = !even
		}
		if even {
			return a * 2
		}
		return a*2 + 1
	default:
		acc := ns.A0
		k, ko := ns.K1, ns.K2
		if ns.Same {
			ko = ns.K1
		}
		for n := ns.N; n > 0; n-- {
			acc = acc*3 + k
			k, ko = ko, k
		}
		return acc*7 + k
	}
}

func checkNotSelf(t ev.TB, test string, ns *NotSelf) {
	src := ns.render()
	outer := int64(0)
	if ns.Place == "nested" {
		outer = 1
	}
	slots := int64(5)
	if ns.Kind == "siblings" {
		slots = 7
	}
	frames := ns.N + 1 + outer
	zone := "either"
	switch {
	case ns.Kind == "siblings" && ns.Same:
		zone = "must-value" // the closure calls itself: a self tail call
	case frames > tengo.MaxFrames:
		zone = "must-error"
	case frames+frameSlack <= tengo.MaxFrames && (frames+4)*slots+stackSlack <= tengo.StackSize:
		zone = "must-value"
	}
	fail := func(format string, args ...interface{}) {
		msg := fmt.Sprintf(format, args...)
		recordFailure(src, msg)
		ev.Fail(t, test, payload{Kind: "notself", NotSelf: ns, Source: src}, "%s", failText(msg, src))
	}
	if msg, skip := afterFailure(src); skip {
		return
	} else if msg != "" {
		ev.Fail(t, test, payload{Kind: "notself", NotSelf: ns, Source: src}, "%s", failText(msg, src))
		return
	}
	r := runScript(src, "out")
	outcome := "value"
	switch {
	case r.CompileErr != nil:
		fail("generated program does not compile: %v", r.CompileErr)
		return
	case r.TimedOut:
		fail("did not return within the watchdog (depth %d)", ns.N)
		return
	case r.Err != nil:
		k := errKind(r.Err)
		outcome = "error:" + k
		if zone == "must-value" {
			fail("depth %d must succeed but failed: %s", ns.N, short(r.Err.Error(), 300))
			return
		}
		if k == "other" {
			fail("depth %d: error that is not frame/stack exhaustion: %s", ns.N, short(r.Err.Error(), 300))
			return
		}
	default:
		if zone == "must-error" {
			fail("depth %d: calls to another function value need %d frames (MaxFrames=%d) but the run returned %s",
				ns.N, frames, tengo.MaxFrames, descValue(r.Vars["out"]))
			return
		}
		if got, ok := getInt(r.Vars, "out"); !ok || got != ns.expected() {
			fail("depth %d: result %s, the equivalent loop gives %d", ns.N, descValue(r.Vars["out"]), ns.expected())
			return
		}
	}
	kind := ns.Kind
	if ns.Same {
		kind += ":same-closure"
	}
	ev.Case(src, ns.N >= 1025, "notself:"+kind+"|"+depthClass(ns.N), "notself:"+kind, "zone:"+zone, "outcome:"+outcome, "place:"+ns.Place)
}

func TestNotSelf(t *testing.T) {
	rapid.Check(t, func(t *rapid.T) {
		ns := &NotSelf{}
		ns.Kind = rapid.SampledFrom([]string{"mutual", "siblings", "siblings"}).Draw(t, "kind")
		ns.Place = rapid.SampledFrom([]string{"global", "nested"}).Draw(t, "place")
		ns.A0 = rapid.Int64Range(-5, 50).Draw(t, "a0")
		ns.K1 = rapid.Int64Range(-9, 9).Draw(t, "k1")
		ns.K2 = rapid.Int64Range(-9, 9).Draw(t, "k2")
		ns.StepE = genExpr(t, 1, 0, 2)
		ns.StepO = genExpr(t, 1, 0, 2)
		if ns.Kind == "siblings" {
			ns.Same = rapid.IntRange(0, 3).Draw(t, "same") == 0
		}
		switch rapid.IntRange(0, 5).Draw(t, "depthKind") {
		case 0, 1, 2:
			ns.N = rapid.Int64Range(0, 320).Draw(t, "n")
		case 3:
			ns.N = rapid.SampledFrom(depthSpecials).Draw(t, "nSpecial")
		case 4:
			ns.N = rapid.Int64Range(0, 12).Draw(t, "nTiny")
		default:
			ns.N = rapid.Int64Range(900, 3000).Draw(t, "nNear")
		}
		checkNotSelf(t, "TestNotSelf", ns)
	})
}

// ---------------------------------------------------------------------------
// plain, deterministic table: every context x placement x boundary depth
// ---------------------------------------------------------------------------

var tableDepths = []int64{0, 1, 2, 1023, 1024, 1025, 2048, 10000, 100000, 1000000}

func fibTemplate(ctx string, place string, n int64) *Template {
	tp := &Template{Fixed: 2, VarN: -1, Init: []int64{0, 1}, Mod: 1, Style: "chain", Place: place, N: n}
	a := Arm{Ctx: ctx, K: -1, X: 5,
		Next: []*Expr{eS(1), eB("+", eS(0), eS(1))}} // f(n-1, b, a+b)
	tp.Arms = []Arm{a}
	return tp
}

// contextTable runs part `part` of `parts` of the context x placement x depth
// table (the parts are separate plain tests so that the driver runs them side
// by side).
func contextTable(t *testing.T, part, parts int) {
	var names []string
	for c := range ctxTable {
		names = append(names, c)
	}
	sort.Strings(names)
	places := []string{"global", "nested", "nested2", "mapfield", "alias", "arg"}
	run := func(tp *Template) {
		checkTemplate(t, t.Name(), tp)
	}
	for ci, c := range names {
		if ci%parts != part {
			continue
		}
		info := ctxTable[c]
		for pi, place := range places {
			for _, n := range tableDepths {
				if n >= 100000 && pi > 1 && c != "ret" {
					continue // 10^5 and 10^6: every context at two placements, `ret` at all of them
				}
				if n == 1000000 && info.Kind == kStrict && pi > 0 {
					continue
				}
				var variants []*Template
				switch c {
				case "logic":
					for _, op := range []string{"&&", "||"} {
						for _, decide := range []bool{false, true} {
							tp := fibTemplate(c, place, n)
							tp.Arms[0].Logic = []Logic{{Op: op, Form: 0}}
							if decide && n >= 2 {
								tp.Arms[0].K = n / 2
							} else if decide {
								continue
							}
							variants = append(variants, tp)
						}
					}
					tp := fibTemplate(c, place, n)
					tp.Arms[0].Logic = []Logic{{Op: "||", Form: -1, Neutral: 2}, {Op: "&&", Form: 2}, {Op: "||", Form: 3}}
					variants = append(variants, tp)
				case "last":
					for form := 0; form <= 4; form++ {
						for _, bu := range []int{0, 1} {
							tp := fibTemplate(c, place, n)
							tp.Arms[0].LastForm = form
							tp.BaseUndef = bu
							variants = append(variants, tp)
						}
					}
				default:
					tp := fibTemplate(c, place, n)
					if info.Stop && n >= 2 {
						tp2 := fibTemplate(c, place, n)
						tp2.Arms[0].K = n - 1
						variants = append(variants, tp2)
					}
					variants = append(variants, tp)
				}
				for _, tp := range variants {
					run(tp)
				}
				if pi == 0 && c != "logic" && c != "last" {
					// counter-only function: two operand slots per level, so the
					// frame limit (not the operand stack) binds first
					for _, m := range []int64{n, n - 2, n - 3} {
						if m < 0 || (m != n && (n < 1023 || n > 1025)) {
							continue
						}
						tp := &Template{Fixed: 0, VarN: -1, Mod: 1, Style: "chain", Place: place, N: m}
						tp.Arms = []Arm{{Ctx: c, K: -1, X: 5, Next: []*Expr{}}}
						run(tp)
					}
				}
			}
		}
	}
}

func TestContextTable0(t *testing.T) { contextTable(t, 0, 6) }
func TestContextTable1(t *testing.T) { contextTable(t, 1, 6) }
func TestContextTable2(t *testing.T) { contextTable(t, 2, 6) }
func TestContextTable3(t *testing.T) { contextTable(t, 3, 6) }
func TestContextTable4(t *testing.T) { contextTable(t, 4, 6) }
func TestContextTable5(t *testing.T) { contextTable(t, 5, 6) }

// TestClosureTable: closures capturing a parameter in every iteration, in
// tail contexts, at the boundary depths.
func TestClosureTable(t *testing.T) {
	run := func(tp *Template) {
		checkTemplate(t, t.Name(), tp)
	}
	for _, collect := range []int{1, 2} {
		for _, place := range []string{"global", "nested"} {
			for _, n := range []int64{0, 1, 2, 1023, 1024, 1025, 2048, 10000, 100000} {
				for _, c := range []string{"ret", "logic"} {
					for ci, cp := range []*Expr{eN(), eS(0), eS(1)} {
						tp := fibTemplate(c, place, n)
						tp.Collect = collect
						tp.Cap = cp
						if c == "logic" {
							tp.Arms[0].Logic = []Logic{{Op: "&&", Form: -1, Neutral: ci}}
						}
						run(tp)
						if collect == 1 && cp.K == "s" {
							tp2 := fibTemplate(c, place, n)
							tp2.Collect, tp2.Cap, tp2.Bump = 1, cp, true
							tp2.Arms[0].Logic = tp.Arms[0].Logic
							run(tp2)
						}
					}
				}
			}
		}
	}
}

// TestParamTable: parameter counts 1..6 and a variadic last parameter
// (listed, spread, forwarded) in the basic tail context, rotating the values.
func TestParamTable(t *testing.T) {
	run := func(tp *Template) {
		checkTemplate(t, t.Name(), tp)
	}
	for fixed := 0; fixed <= 5; fixed++ {
		for _, varN := range []int{-1, 0, 2} {
			for spread := 0; spread <= 2; spread++ {
				if varN < 0 && spread > 0 {
					continue
				}
				for _, n := range []int64{0, 3, 1025, 2048, 100000} {
					tp := &Template{Fixed: fixed, VarN: varN, Spread: spread, Mod: 1, Style: "seq", Place: "global", N: n}
					ns := tp.nState()
					a := Arm{Ctx: "ret", K: -1, X: 1}
					for i := 0; i < ns; i++ {
						tp.Init = append(tp.Init, int64(i+1))
						// rotate: every parameter receives its right neighbour, the last one a sum
						if i+1 < ns {
							a.Next = append(a.Next, eS(i+1))
						} else {
							a.Next = append(a.Next, eB("+", eS(0), eS(i)))
						}
					}
					tp.Arms = []Arm{a}
					run(tp)
				}
			}
		}
	}
}

// ---------------------------------------------------------------------------
// known findings, regressions, replay
// ---------------------------------------------------------------------------

func replayFile(t *testing.T, path string, known bool) (failMsg string) {
	var p payload
	test, err := ev.LoadReplay(path, &p)
	if err != nil {
		t.Fatalf("load %s: %v", path, err)
	}
	switch p.Kind {
	case "template":
		if p.Template == nil {
			t.Fatalf("%s: no template", path)
		}
		if err := p.Template.validate(); err != nil {
			t.Fatalf("%s: %v", path, err)
		}
		if pm := p.ReusePermille; pm > 0 {
			reusePermille = pm
			currentRunner = reusedVMRunner(func(total int) int { return 1 + total*pm/1000 })
			defer func() { currentRunner, reusePermille = runScript, 0 }()
		}
		if known {
			v, _ := evalTemplate(p.Template, true)
			return v.Fail
		}
		v, src := evalTemplate(p.Template, true)
		if v.Fail != "" {
			ev.Fail(t, test, p, "%s", failText(v.Fail, src))
		}
	case "notself":
		if p.NotSelf == nil || p.NotSelf.StepE == nil || p.NotSelf.StepO == nil {
			t.Fatalf("%s: no notself payload", path)
		}
		checkNotSelf(t, test, p.NotSelf)
	case "reuse":
		if p.Reuse == nil {
			t.Fatalf("%s: no reuse payload", path)
		}
		checkReuse(t, test, p.Reuse)
	case "nest":
		if p.Nest == nil || len(p.Nest.Ops) == 0 || len(p.Nest.Ops) != len(p.Nest.Init) {
			t.Fatalf("%s: no nest payload", path)
		}
		checkNest(t, test, p.Nest)
	default:
		t.Fatalf("unknown payload kind %q in %s", p.Kind, path)
	}
	return ""
}

func verifRoot() string {
	if r := os.Getenv("VERIF_ROOT"); r != "" {
		return r
	}
	return "/verif"
}

func TestReplay(t *testing.T) {
	path := os.Getenv("VERIF_REPLAY")
	if path == "" {
		t.Skip("no VERIF_REPLAY")
	}
	replayFile(t, path, false)
}

// TestRegressions re-runs every committed replay of a repaired defect.
func TestRegressions(t *testing.T) {
	files, _ := filepath.Glob(filepath.Join(verifRoot(), "replays", "C16", "fixed", "*.json"))
	sort.Strings(files)
	for _, f := range files {
		f := f
		t.Run(filepath.Base(f), func(t *testing.T) { replayFile(t, f, false) })
		ev.Note("regression replays run")
	}
}

// f3Reproducers are the minimal inputs of open finding F3 (also committed as
// replays under replays/C16/open/).
func f3Reproducers() map[string]*Template {
	mk := func(form int, style string) *Template {
		tp := &Template{Fixed: 0, VarN: -1, Mod: 1, Style: style, Place: "global", N: 3}
		tp.Arms = []Arm{{Ctx: "last", K: -1, X: 1, LastForm: form, Next: []*Expr{}}}
		return tp
	}
	return map[string]*Template{
		"F3-last-statement":    mk(0, "seq"),
		"F3-then-bare-return":  mk(1, "seq"),
		"F3-in-trailing-if":    mk(2, "seq"),
		"F3-in-final-else-arm": mk(3, "seq"),
	}
}

// TestKnownFindings re-runs the reproducers of the open findings through the
// oracle; while they still fail they are reported as KNOWN-FINDING.
func TestKnownFindings(t *testing.T) {
	seen := 0
	report := func(name, msg string) {
		seen++
		if msg != "" {
			ev.Known("F3", f3What)
			t.Logf("%s still fails: %s", name, short(msg, 200))
		} else {
			ev.Note("F3 reproducer " + name + " no longer fails")
			t.Logf("%s no longer fails", name)
		}
	}
	reps := f3Reproducers()
	var names []string
	for n := range reps {
		names = append(names, n)
	}
	sort.Strings(names)
	for _, n := range names {
		v, _ := evalTemplate(reps[n], true)
		report(n, v.Fail)
	}
	files, _ := filepath.Glob(filepath.Join(verifRoot(), "replays", "C16", "open", "*.json"))
	sort.Strings(files)
	for _, f := range files {
		report(filepath.Base(f), replayFile(t, f, true))
	}
	if d := os.Getenv("VERIF_C16_WRITE_OPEN"); d != "" {
		writeOpenReplays(t, d)
	}
}
