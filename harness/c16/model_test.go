// Template model of C16: a small family of self-recursive tengo functions, the
// renderer that turns a template into tengo source, and the oracle ("the
// equivalent Go loop") that computes what the script must produce.
package c16

import (
	"fmt"
	"strings"

	"github.com/d5/tengo/v2"
)

// ---------------------------------------------------------------------------
// integer expressions over the counter n, the state variables and the locals
// ---------------------------------------------------------------------------

// Expr is a wrapping-int64 expression. K: "n" counter, "s" state variable I,
// "t" extra local I, "c" constant C, "bin" L Op R with Op in + - * ^ & |.
type Expr struct {
	K  string `json:"k"`
	I  int    `json:"i,omitempty"`
	C  int64  `json:"c,omitempty"`
	Op string `json:"op,omitempty"`
	L  *Expr  `json:"l,omitempty"`
	R  *Expr  `json:"r,omitempty"`
}

type env struct {
	n int64
	s []int64
	t []int64
}

func (e *Expr) eval(v *env) int64 {
	switch e.K {
	case "n":
		return v.n
	case "s":
		return v.s[e.I]
	case "t":
		return v.t[e.I]
	case "c":
		return e.C
	case "bin":
		l, r := e.L.eval(v), e.R.eval(v)
		switch e.Op {
		case "+":
			return l + r
		case "-":
			return l - r
		case "*":
			return l * r
		case "^":
			return l ^ r
		case "&":
			return l & r
		case "|":
			return l | r
		}
	}
	panic("bad expr " + e.K + e.Op)
}

var fixedNames = []string{"a", "b", "c", "d", "e"}

// stateName renders state variable i of a template with nf fixed state
// parameters (the others live in the variadic parameter r).
func stateName(i, nf int) string {
	if i < nf {
		return fixedNames[i]
	}
	return fmt.Sprintf("r[%d]", i-nf)
}

func (e *Expr) render(nf int) string {
	switch e.K {
	case "n":
		return "n"
	case "s":
		return stateName(e.I, nf)
	case "t":
		return fmt.Sprintf("t%d", e.I)
	case "c":
		if e.C < 0 {
			return fmt.Sprintf("(%d)", e.C)
		}
		return fmt.Sprintf("%d", e.C)
	case "bin":
		return "(" + e.L.render(nf) + " " + e.Op + " " + e.R.render(nf) + ")"
	}
	panic("bad expr")
}

func eN() *Expr        { return &Expr{K: "n"} }
func eS(i int) *Expr   { return &Expr{K: "s", I: i} }
func eT(i int) *Expr   { return &Expr{K: "t", I: i} }
func eC(c int64) *Expr { return &Expr{K: "c", C: c} }
func eB(op string, l, r *Expr) *Expr {
	return &Expr{K: "bin", Op: op, L: l, R: r}
}

// ---------------------------------------------------------------------------
// contexts: where the self call sits
// ---------------------------------------------------------------------------

const (
	kTail   = iota // the property requires constant frame space
	kMay           // not required to be a tail call; must never give a wrong value
	kStrict        // not a tail position: one frame per level
)

type ctxInfo struct {
	Kind    int
	IntOnly bool // the context does arithmetic on the callee's result
	NonInt  bool // the context yields a non-int value
	Frames  int64
	Temps   int  // operand slots pending in the caller while the callee runs
	Stop    bool // uses the arm's stop level K
}

var ctxTable = map[string]ctxInfo{
	// tail positions named by the property
	"ret":       {Kind: kTail},
	"ret-paren": {Kind: kTail},
	"logic":     {Kind: kTail, Stop: true},
	// positions that are neither required to be tail calls nor forbidden to
	"tern":  {Kind: kMay, Frames: 1, Stop: true}, // return C ? f() : X
	"ternF": {Kind: kMay, Frames: 1, Stop: true}, // return C ? X : f()
	"last":  {Kind: kMay, Frames: 1, NonInt: true},
	// non-tail positions
	"add":        {Kind: kStrict, Frames: 1, IntOnly: true},
	"ladd":       {Kind: kStrict, Frames: 1, IntOnly: true, Temps: 1},
	"mul":        {Kind: kStrict, Frames: 1, IntOnly: true},
	"neg":        {Kind: kStrict, Frames: 1, IntOnly: true},
	"compound":   {Kind: kStrict, Frames: 1, IntOnly: true, Temps: 1},
	"arr":        {Kind: kStrict, Frames: 1, NonInt: true},
	"idx":        {Kind: kStrict, Frames: 1},
	"assign":     {Kind: kStrict, Frames: 1},
	"assign2":    {Kind: kStrict, Frames: 1},
	"more":       {Kind: kStrict, Frames: 1},
	"orx":        {Kind: kStrict, Frames: 1},
	"andx":       {Kind: kStrict, Frames: 1},
	"arg-id":     {Kind: kStrict, Frames: 1, Temps: 1},
	"arg-inc":    {Kind: kStrict, Frames: 1, Temps: 1, IntOnly: true},
	"arg-wrap":   {Kind: kStrict, Frames: 1, Temps: 1, NonInt: true},
	"arg-snd":    {Kind: kStrict, Frames: 1, Temps: 2},
	"not":        {Kind: kStrict, Frames: 1, NonInt: true},
	"sel":        {Kind: kStrict, Frames: 1},
	"ifcond":     {Kind: kStrict, Frames: 1},
	"lambda":     {Kind: kStrict, Frames: 2, Temps: 1},
	"ternin-add": {Kind: kStrict, Frames: 1, IntOnly: true, Stop: true},
	"ternin-arr": {Kind: kStrict, Frames: 1, NonInt: true, Stop: true},
}

var tailCtxs = []string{"ret", "ret", "ret-paren", "logic", "logic", "logic"}
var mayCtxs = []string{"tern", "ternF", "last"}
var strictCtxs = []string{"add", "ladd", "mul", "neg", "compound", "arr", "idx", "assign",
	"assign2", "more", "orx", "andx", "arg-id", "arg-inc", "arg-wrap", "arg-snd", "not",
	"sel", "ifcond", "lambda", "ternin-add", "ternin-arr", "ternin-add", "ternin-arr"}

// Logic is one `cond op` link of a `return c1 op1 (c2 op2 (f(...)))` chain.
// Form < 0: neutral condition (never decides); Form >= 0: a condition that
// decides exactly when n equals the arm's stop level K.
type Logic struct {
	Op      string `json:"op"` // "&&" or "||"
	Form    int    `json:"form"`
	Neutral int    `json:"neutral"`
}

var neutralAnd = []string{"true", "1", `"go"`, "[0]"}
var neutralOr = []string{"false", "0", "undefined", `""`}

// Arm is one alternative recursive step. Arm i>=1 is taken when n%Mod == i,
// arm 0 otherwise.
type Arm struct {
	Ctx      string   `json:"ctx"`
	Next     []*Expr  `json:"next"`            // new state values
	Logic    []Logic  `json:"logic,omitempty"` // ctx "logic"
	Flat     bool     `json:"flat,omitempty"`  // render the chain without parentheses (single operator kind only)
	K        int64    `json:"k"`               // stop level (-1: never)
	X        int64    `json:"x"`               // constant used by the context (never 0)
	Wrap     []string `json:"wrap,omitempty"`  // statements wrapped around the step, outermost first
	LastForm int      `json:"last_form,omitempty"`
}

// Template is one generated self-recursive function plus its call.
type Template struct {
	Fixed     int     `json:"fixed"`      // fixed state parameters after n (0..5)
	VarN      int     `json:"var_n"`      // -1: not variadic; else number of state values held by ...r
	Spread    int     `json:"spread"`     // 0: list variadic args; 1: f(.., [..]...); 2: f(.., r...) (r unchanged)
	Init      []int64 `json:"init"`       // initial state
	Locals    []*Expr `json:"locals"`     // extra locals t0.. defined in every iteration
	Arms      []Arm   `json:"arms"`       // 1..3
	Mod       int64   `json:"mod"`        // arm selector modulus (>= len(Arms))
	Style     string  `json:"style"`      // "chain" (if / else if / else) or "seq" (ifs in sequence)
	BaseUndef int     `json:"base_undef"` // 0: base returns R; 1: bare `return`; 2: `return undefined`
	BaseVia   bool    `json:"base_via"`   // base returns through a tail call to another function
	Trace     bool    `json:"trace"`      // order-sensitive side effect before the step
	Collect   int     `json:"collect"`    // 0 none; 1 closures appended to a variable outside f; 2 to an accumulator parameter
	Cap       *Expr   `json:"cap"`        // what each collected closure returns (n, a state variable or a local)
	Bump      bool    `json:"bump"`       // increment the captured state parameter after the capture
	Place     string  `json:"place"`      // global | nested | nested2 | mapfield | alias | arg
	N         int64   `json:"n"`          // depth
	Trailer   bool    `json:"trailer"`    // unreachable `return -777` after the last arm when it cannot fall through
}

func (tp *Template) nState() int {
	if tp.VarN > 0 {
		return tp.Fixed + tp.VarN
	}
	return tp.Fixed
}

func (tp *Template) selfName() string {
	if tp.Place == "mapfield" {
		return "m.f"
	}
	return "f"
}

func (tp *Template) armIndex(n int64) int {
	i := n % tp.Mod
	if i >= 1 && int(i) < len(tp.Arms) {
		return int(i)
	}
	return 0
}

// paramList renders the parameter list shared by f and the base helper.
func (tp *Template) paramList() string {
	ps := []string{"n"}
	ps = append(ps, fixedNames[:tp.Fixed]...)
	if tp.Collect == 2 {
		ps = append(ps, "acc")
	}
	if tp.VarN >= 0 {
		ps = append(ps, "...r")
	}
	return strings.Join(ps, ", ")
}

func (tp *Template) numParams() int {
	n := 1 + tp.Fixed
	if tp.Collect == 2 {
		n++
	}
	if tp.VarN >= 0 {
		n++
	}
	return n
}

// resultExpr is R: an order-sensitive fold of the whole state.
func (tp *Template) resultExpr() *Expr {
	r := eC(17)
	for i := 0; i < tp.nState(); i++ {
		r = eB("+", eB("*", r, eC(31)), eS(i))
	}
	return r
}

func (tp *Template) capClosure() string {
	return "func() { return " + tp.Cap.render(tp.Fixed) + " }"
}

// callText renders the self call of an arm.
func (tp *Template) callText(a *Arm) string {
	args := []string{"n - 1"}
	for i := 0; i < tp.Fixed; i++ {
		args = append(args, a.Next[i].render(tp.Fixed))
	}
	if tp.Collect == 2 {
		args = append(args, "append(acc, "+tp.capClosure()+")")
	}
	if tp.VarN >= 0 {
		var vs []string
		for i := tp.Fixed; i < tp.nState(); i++ {
			vs = append(vs, a.Next[i].render(tp.Fixed))
		}
		switch tp.Spread {
		case 0:
			args = append(args, vs...)
		case 1:
			args = append(args, "["+strings.Join(vs, ", ")+"]...")
		case 2:
			args = append(args, "r...")
		}
	}
	return tp.selfName() + "(" + strings.Join(args, ", ") + ")"
}

func stopCond(l Logic, k, x int64) string {
	if l.Form < 0 {
		if l.Op == "&&" {
			return neutralAnd[l.Neutral%len(neutralAnd)]
		}
		return neutralOr[l.Neutral%len(neutralOr)]
	}
	ks := fmt.Sprintf("%d", k)
	if k < 0 {
		ks = fmt.Sprintf("(%d)", k)
	}
	if l.Op == "&&" {
		switch l.Form {
		case 0:
			return "(n != " + ks + ")"
		case 1:
			return "(n - " + ks + ")"
		case 2:
			return "(n == " + ks + " ? undefined : 1)"
		default:
			return "(n == " + ks + ` ? "" : "go")`
		}
	}
	switch l.Form {
	case 0:
		return "(n == " + ks + ")"
	case 1:
		return fmt.Sprintf("(n == %s && %d)", ks, x)
	case 2:
		return "(n == " + ks + ` ? "stop" : "")`
	default:
		return "(n == " + ks + " ? [n] : undefined)"
	}
}

// stopValue is what the deciding condition evaluates to when n == k.
func stopValue(l Logic, k, x int64) tengo.Object {
	if l.Op == "&&" {
		switch l.Form {
		case 0:
			return tengo.FalseValue
		case 1:
			return &tengo.Int{Value: 0}
		case 2:
			return tengo.UndefinedValue
		default:
			return &tengo.String{Value: ""}
		}
	}
	switch l.Form {
	case 0:
		return tengo.TrueValue
	case 1:
		return &tengo.Int{Value: x}
	case 2:
		return &tengo.String{Value: "stop"}
	default:
		return &tengo.Array{Value: []tengo.Object{&tengo.Int{Value: k}}}
	}
}

func kText(k int64) string {
	if k < 0 {
		return fmt.Sprintf("(%d)", k)
	}
	return fmt.Sprintf("%d", k)
}

// f3Shaped reports whether arm i (ctx "last") is emitted as CALL; POP; RET 0:
// the self call is an expression statement whose continuation is directly the
// function's end or a bare `return` (the input pattern of open finding F3).
func (tp *Template) f3Shaped(i int) bool {
	a := &tp.Arms[i]
	if a.Ctx != "last" {
		return false
	}
	if a.LastForm == 1 {
		return true // `f(..); return`
	}
	if a.LastForm == 4 {
		return false // if-arm with an else: CALL; POP; JUMP
	}
	// forms 0, 2, 3 end the function only when the arm is rendered last
	return i == 0
}

func (tp *Template) hasCtx(c string) bool {
	for i := range tp.Arms {
		if tp.Arms[i].Ctx == c {
			return true
		}
	}
	return false
}

func (tp *Template) hasF3Shape() bool {
	for i := range tp.Arms {
		if tp.f3Shaped(i) {
			return true
		}
	}
	return false
}

// stepText renders the statements of an arm (without wrappers).
func (tp *Template) stepText(a *Arm) string {
	c := tp.callText(a)
	x := fmt.Sprintf("%d", a.X)
	k := kText(a.K)
	switch a.Ctx {
	case "ret":
		return "return " + c
	case "ret-paren":
		return "return (" + c + ")"
	case "logic":
		var sb strings.Builder
		sb.WriteString("return ")
		if a.Flat {
			for _, l := range a.Logic {
				sb.WriteString(stopCond(l, a.K, a.X) + " " + l.Op + " ")
			}
			sb.WriteString(c)
		} else {
			for _, l := range a.Logic {
				sb.WriteString(stopCond(l, a.K, a.X) + " " + l.Op + " (")
			}
			sb.WriteString(c + strings.Repeat(")", len(a.Logic)))
		}
		return sb.String()
	case "tern":
		return "return n != " + k + " ? " + c + " : " + x
	case "ternF":
		return "return n == " + k + " ? " + x + " : " + c
	case "last":
		switch a.LastForm {
		case 0:
			return c
		case 1:
			return c + "\nreturn"
		case 2:
			return "if n > 0 {\n" + c + "\n}"
		case 3:
			return "if n < 0 {\nreturn -1\n} else {\n" + c + "\n}"
		default:
			return "if n > 0 {\n" + c + "\n} else {\nreturn -1\n}"
		}
	case "add":
		return "return " + c + " + " + x
	case "ladd":
		return "return " + x + " + " + c
	case "mul":
		return "return " + c + " * 3"
	case "neg":
		return "return -" + c
	case "compound":
		return "x := " + x + "\nx += " + c + "\nreturn x"
	case "arr":
		return "return [" + c + "]"
	case "idx":
		return "return [" + c + "][0]"
	case "assign":
		if tp.Trace {
			return "x := " + c + "\ntr = tr*5 + n\nreturn x"
		}
		return "x := " + c + "\nreturn x"
	case "assign2":
		if tp.Trace {
			return "x := 0\nx = " + c + "\ntr = tr*5 + n\nreturn x"
		}
		return "x := 0\nx = " + c + "\nreturn x"
	case "more":
		return c + "\ntr = tr*5 + n\nreturn " + x
	case "orx":
		return "return " + c + " || " + x
	case "andx":
		return "return " + c + " && " + x
	case "arg-id":
		return "return id(" + c + ")"
	case "arg-inc":
		return "return inc(" + c + ")"
	case "arg-wrap":
		return "return wrap(" + c + ")"
	case "arg-snd":
		return "return snd(" + x + ", " + c + ")"
	case "not":
		return "return !" + c
	case "sel":
		return "return {v: " + c + "}.v"
	case "ifcond":
		return "if " + c + " {\nreturn 1\n}\nreturn 0"
	case "lambda":
		return "return (func() { return " + c + " })()"
	case "ternin-add":
		return "return (n != " + k + " ? " + c + " : " + x + ") + 1"
	case "ternin-arr":
		return "return [n != " + k + " ? " + c + " : " + x + "]"
	}
	panic("unknown ctx " + a.Ctx)
}

func wrapText(w string, depth int, body string) string {
	switch w {
	case "if":
		return "if n > 0 {\n" + body + "\n}"
	case "else":
		return "if n < 0 {\nreturn -1\n} else {\n" + body + "\n}"
	case "elseif":
		return "if n < 0 {\nreturn -1\n} else if n > 0 {\n" + body + "\n} else {\nreturn -2\n}"
	case "for":
		i := fmt.Sprintf("i%d", depth)
		return "for " + i + " := 0; " + i + " < 2; " + i + "++ {\n" + body + "\n}"
	case "forinf":
		return "for {\n" + body + "\n}"
	case "forin":
		return fmt.Sprintf("for w%d in [n, 0] {\n%s\n}", depth, body)
	case "forcond":
		return "for n > 0 {\n" + body + "\n}"
	}
	panic("unknown wrapper " + w)
}

var wrapKinds = []string{"if", "else", "elseif", "for", "forinf", "forin", "forcond"}

func (tp *Template) armText(i int) string {
	a := &tp.Arms[i]
	s := tp.stepText(a)
	for d := len(a.Wrap) - 1; d >= 0; d-- {
		s = wrapText(a.Wrap[d], d, s)
	}
	return s
}

// funcText renders the function literal.
func (tp *Template) funcText() string {
	var sb strings.Builder
	nf := tp.Fixed
	sb.WriteString("func(" + tp.paramList() + ") {\n")
	// base case
	export := ""
	if tp.Collect == 2 {
		export = "cl = acc\n"
	}
	switch {
	case tp.BaseUndef == 1:
		sb.WriteString("if n == 0 {\n" + export + "return\n}\n")
	case tp.BaseUndef == 2:
		sb.WriteString("if n == 0 {\n" + export + "return undefined\n}\n")
	case tp.BaseVia:
		sb.WriteString("if n < 0 {\nreturn -12345\n}\n")
		sb.WriteString("if n == 0 {\n" + export + "return hb(" + tp.baseViaArgs() + ")\n}\n")
	default:
		sb.WriteString("if n == 0 {\n" + export + "return " + tp.resultExpr().render(nf) + "\n}\n")
	}
	for i, l := range tp.Locals {
		fmt.Fprintf(&sb, "t%d := %s\n", i, l.render(nf))
	}
	if tp.Trace {
		sb.WriteString("tr = tr*3 + n\n")
	}
	if tp.Collect == 1 {
		sb.WriteString("cl = append(cl, " + tp.capClosure() + ")\n")
		if tp.Bump {
			sb.WriteString(tp.Cap.render(nf) + " += 1\n")
		}
	}
	l := len(tp.Arms)
	switch {
	case l == 1:
		sb.WriteString(tp.armText(0) + "\n")
	case tp.Style == "chain":
		for i := 1; i < l; i++ {
			if i > 1 {
				sb.WriteString(" else ")
			}
			fmt.Fprintf(&sb, "if n %% %d == %d {\n%s\n}", tp.Mod, i, tp.armText(i))
		}
		sb.WriteString(" else {\n" + tp.armText(0) + "\n}\n")
	default:
		for i := 1; i < l; i++ {
			fmt.Fprintf(&sb, "if n %% %d == %d {\n%s\n}\n", tp.Mod, i, tp.armText(i))
		}
		sb.WriteString(tp.armText(0) + "\n")
	}
	if tp.Trailer && !tp.hasCtx("last") {
		// never reached: every arm returns
		sb.WriteString("return -777\n")
	}
	sb.WriteString("}")
	return sb.String()
}

func (tp *Template) baseViaArgs() string {
	args := []string{"-1"}
	args = append(args, fixedNames[:tp.Fixed]...)
	if tp.Collect == 2 {
		args = append(args, "acc")
	}
	if tp.VarN >= 0 {
		args = append(args, "r...")
	}
	return strings.Join(args, ", ")
}

func (tp *Template) initCall(callee string) string {
	args := []string{fmt.Sprintf("%d", tp.N)}
	for i := 0; i < tp.nState(); i++ {
		if i == tp.Fixed && tp.Collect == 2 {
			args = append(args, "[]")
		}
		args = append(args, kText(tp.Init[i]))
	}
	if tp.nState() <= tp.Fixed && tp.Collect == 2 {
		args = append(args, "[]")
	}
	return callee + "(" + strings.Join(args, ", ") + ")"
}

func (tp *Template) helpersText() string {
	var sb strings.Builder
	sb.WriteString("id := func(x) { return x }\n")
	sb.WriteString("inc := func(x) { return x + 1 }\n")
	sb.WriteString("wrap := func(x) { return [x] }\n")
	sb.WriteString("snd := func(p, q) { return q }\n")
	if tp.BaseVia {
		sb.WriteString("hb := func(" + tp.paramList() + ") { return " + tp.resultExpr().render(tp.Fixed) + " }\n")
	}
	return sb.String()
}

const finishText = "ch := 0\nfor q in cl {\nch = ch*1000003 + q()\n}\ncn := len(cl)\n"

// Render produces the tengo source. Globals after the run: out, tr, ch, cn.
func (tp *Template) Render() string {
	var sb strings.Builder
	switch tp.Place {
	case "global", "alias", "arg":
		sb.WriteString("tr := 0\ncl := []\n" + tp.helpersText())
		sb.WriteString("f := " + tp.funcText() + "\n")
		switch tp.Place {
		case "alias":
			sb.WriteString("g := f\nout := " + tp.initCall("g") + "\n")
		case "arg":
			sb.WriteString("out := id(" + tp.initCall("f") + ")\n")
		default:
			sb.WriteString("out := " + tp.initCall("f") + "\n")
		}
	case "mapfield":
		sb.WriteString("tr := 0\ncl := []\n" + tp.helpersText())
		sb.WriteString("m := {}\nm.f = " + tp.funcText() + "\n")
		sb.WriteString("out := " + tp.initCall("m.f") + "\n")
	case "nested":
		sb.WriteString("run := func() {\ntr := 0\ncl := []\n" + tp.helpersText())
		sb.WriteString("f := " + tp.funcText() + "\n")
		sb.WriteString("res := " + tp.initCall("f") + "\nreturn [res, tr, cl]\n}\n")
		sb.WriteString("o := run()\nout := o[0]\ntr := o[1]\ncl := o[2]\n")
	case "nested2":
		sb.WriteString("run := func() {\ntr := 0\ncl := []\n" + tp.helpersText())
		sb.WriteString("mid := func(z) {\nf := " + tp.funcText() + "\n")
		sb.WriteString("res := " + tp.initCall("f") + "\nreturn res\n}\n")
		sb.WriteString("res := mid(0)\nreturn [res, tr, cl]\n}\n")
		sb.WriteString("o := run()\nout := o[0]\ntr := o[1]\ncl := o[2]\n")
	default:
		panic("unknown placement " + tp.Place)
	}
	sb.WriteString(finishText)
	return sb.String()
}

func (tp *Template) outerFrames() int64 {
	switch tp.Place {
	case "nested":
		return 1
	case "nested2":
		return 2
	}
	return 0
}

// slotsPerLevel is an upper bound of the operand-stack slots one activation
// of f can occupy while a deeper activation runs: the callee slot, every
// parameter, every name the body may declare, pending temporaries, plus one.
func (tp *Template) slotsPerLevel() int64 {
	maxWrap, maxTemps := 0, 0
	for i := range tp.Arms {
		if len(tp.Arms[i].Wrap) > maxWrap {
			maxWrap = len(tp.Arms[i].Wrap)
		}
		if t := ctxTable[tp.Arms[i].Ctx].Temps; t > maxTemps {
			maxTemps = t
		}
	}
	return int64(1 + tp.numParams() + len(tp.Locals) + 1 + 3*maxWrap + maxTemps + 1)
}

// ---------------------------------------------------------------------------
// the oracle: the equivalent Go loop
// ---------------------------------------------------------------------------

type simResult struct {
	Overflow bool // even the positions that are certainly not tail calls need more frames than exist
	Val      tengo.Object
	Tr       int64
	Caps     []int64 // values the collected closures must return, in order
	FramesLo int64   // simultaneous activations of script functions if every kMay position runs as a tail call
	FramesHi int64   // ... if none does
	Levels   int64   // iterations executed
	Stopped  bool
}

func isTruthy(o tengo.Object) bool { return !o.IsFalsy() }

func intOf(o tengo.Object) int64 {
	if i, ok := o.(*tengo.Int); ok {
		return i.Value
	}
	panic(fmt.Sprintf("oracle: arithmetic on %s (generator must keep int flow)", o.TypeName()))
}

func mkInt(v int64) tengo.Object { return &tengo.Int{Value: v} }
func mkArr(v tengo.Object) tengo.Object {
	return &tengo.Array{Value: []tengo.Object{v}}
}

// simulate runs the template as a loop. With f3 set, the self calls matching
// the input pattern of open finding F3 are modelled the way the pinned tree
// executes them (as tail calls whose value becomes the caller's result).
func simulate(tp *Template, f3 bool, frameLimit int64) simResult {
	var res simResult
	ns := tp.nState()
	s := append([]int64(nil), tp.Init[:ns]...)
	next := make([]int64, ns)
	t := make([]int64, len(tp.Locals))
	v := &env{n: tp.N, s: s, t: t}
	// The levels that keep a frame need not be stored: the arm taken at level
	// n is a function of n, so the unwinding below re-derives them.
	infos := make([]ctxInfo, len(tp.Arms))
	skip := make([]bool, len(tp.Arms)) // arms that neither keep a frame nor touch the value
	for i := range tp.Arms {
		infos[i] = ctxTable[tp.Arms[i].Ctx]
		skip[i] = infos[i].Kind == kTail || (f3 && tp.f3Shaped(i))
	}
	var strict, may int64
	base := 1 + tp.outerFrames()
	var val tengo.Object
	exported := tp.Collect != 2 // accumulator parameter is exported at the base only
	for {
		if v.n == 0 {
			if tp.Collect == 2 {
				exported = true
			}
			switch {
			case tp.BaseUndef != 0:
				val = tengo.UndefinedValue
			default:
				val = mkInt(tp.resultExpr().eval(v))
			}
			if tp.BaseVia && tp.BaseUndef == 0 {
				strict++ // the helper's frame at the deepest point
			}
			break
		}
		res.Levels++
		for i, l := range tp.Locals {
			t[i] = l.eval(v)
		}
		if tp.Trace {
			res.Tr = res.Tr*3 + v.n
		}
		if tp.Collect == 1 {
			c := tp.Cap.eval(v)
			if tp.Bump {
				c++
				v.s[tp.Cap.I]++
			}
			res.Caps = append(res.Caps, c)
		}
		ai := tp.armIndex(v.n)
		a := &tp.Arms[ai]
		info := infos[ai]
		stopped := false
		switch a.Ctx {
		case "logic":
			for _, l := range a.Logic {
				if l.Form >= 0 && v.n == a.K {
					val = stopValue(l, a.K, a.X)
					stopped = true
					break
				}
			}
		case "tern", "ternF":
			if v.n == a.K {
				val = mkInt(a.X)
				stopped = true
			}
		case "ternin-add":
			if v.n == a.K {
				val = mkInt(a.X + 1)
				stopped = true
			}
		case "ternin-arr":
			if v.n == a.K {
				val = mkArr(mkInt(a.X))
				stopped = true
			}
		}
		if stopped {
			res.Stopped = true
			break
		}
		for i := 0; i < ns; i++ {
			if tp.Spread == 2 && i >= tp.Fixed {
				next[i] = v.s[i]
			} else {
				next[i] = a.Next[i].eval(v)
			}
		}
		if tp.Collect == 2 {
			res.Caps = append(res.Caps, tp.Cap.eval(v))
		}
		switch {
		case skip[ai]:
			// (modelled as) a tail call: no frame, the value passes through
		case info.Kind == kStrict:
			strict += info.Frames
		case info.Kind == kMay:
			may += info.Frames
		}
		if base+strict > frameLimit {
			res.Overflow = true
			res.FramesLo = base + strict
			res.FramesHi = base + strict + may
			return res
		}
		copy(v.s, next)
		v.n--
	}
	res.FramesLo = base + strict
	res.FramesHi = base + strict + may
	// unwind: levels v.n+1 .. N made a self call, innermost first (when the
	// loop ended by a deciding condition, level v.n itself made none)
	for n := v.n + 1; n <= tp.N; n++ {
		ai := tp.armIndex(n)
		if skip[ai] {
			continue
		}
		p := struct{ n int64 }{n}
		a := &tp.Arms[ai]
		switch a.Ctx {
		case "tern", "ternF", "idx", "sel", "arg-id", "lambda":
			// identity
		case "assign", "assign2":
			if tp.Trace {
				res.Tr = res.Tr*5 + p.n
			}
		case "last":
			val = tengo.UndefinedValue
		case "add", "ladd", "compound":
			val = mkInt(intOf(val) + a.X)
		case "mul":
			val = mkInt(intOf(val) * 3)
		case "neg":
			val = mkInt(-intOf(val))
		case "arg-inc", "ternin-add":
			val = mkInt(intOf(val) + 1)
		case "arr", "arg-wrap", "ternin-arr":
			val = mkArr(val)
		case "more":
			res.Tr = res.Tr*5 + p.n
			val = mkInt(a.X)
		case "orx":
			if !isTruthy(val) {
				val = mkInt(a.X)
			}
		case "andx":
			if isTruthy(val) {
				val = mkInt(a.X)
			}
		case "arg-snd":
			// snd(X, v) = v
		case "not":
			if isTruthy(val) {
				val = tengo.FalseValue
			} else {
				val = tengo.TrueValue
			}
		case "ifcond":
			if isTruthy(val) {
				val = mkInt(1)
			} else {
				val = mkInt(0)
			}
		default:
			panic("oracle: no unwind rule for " + a.Ctx)
		}
	}
	res.Val = val
	if !exported {
		res.Caps = nil
	}
	return res
}

func capsChecksum(caps []int64) int64 {
	var h int64
	for _, c := range caps {
		h = h*1000003 + c
	}
	return h
}

// ---------------------------------------------------------------------------
// value comparison that survives very deep nesting of one-element arrays
// ---------------------------------------------------------------------------

func sameValue(a, b tengo.Object) bool {
	for {
		if a == nil || b == nil {
			return false
		}
		aa, ok1 := a.(*tengo.Array)
		ba, ok2 := b.(*tengo.Array)
		if ok1 != ok2 {
			return false
		}
		if !ok1 {
			break
		}
		if len(aa.Value) != len(ba.Value) {
			return false
		}
		if len(aa.Value) == 1 {
			a, b = aa.Value[0], ba.Value[0]
			continue
		}
		for i := range aa.Value {
			if !sameValue(aa.Value[i], ba.Value[i]) {
				return false
			}
		}
		return true
	}
	switch x := a.(type) {
	case *tengo.Int:
		y, ok := b.(*tengo.Int)
		return ok && x.Value == y.Value
	case *tengo.String:
		y, ok := b.(*tengo.String)
		return ok && x.Value == y.Value
	case *tengo.Bool:
		y, ok := b.(*tengo.Bool)
		return ok && x.IsFalsy() == y.IsFalsy()
	case *tengo.Undefined:
		_, ok := b.(*tengo.Undefined)
		return ok
	}
	return false
}

func descValue(o tengo.Object) string {
	if o == nil {
		return "<GO-NIL>"
	}
	depth := 0
	for {
		a, ok := o.(*tengo.Array)
		if !ok || len(a.Value) != 1 {
			break
		}
		o = a.Value[0]
		depth++
		if o == nil {
			return "<GO-NIL>"
		}
	}
	s := o.TypeName() + "(" + o.String() + ")"
	if len(s) > 200 {
		s = s[:200] + "..."
	}
	if depth > 0 {
		return fmt.Sprintf("%d-fold-nested-array-of %s", depth, s)
	}
	return s
}
