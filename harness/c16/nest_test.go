package c16

// Tail calls under nesting: "constant frames" must hold wherever the
// tail-recursive function happens to run, also in the last frames of the
// frame table. A tail-recursive function (no helper calls, so every iteration
// needs exactly the frames the first one needs) is entered from K nested
// non-tail activations of a parameterless function; K is swept densely
// around tengo.MaxFrames. Oracle, relative to the same nesting:
//
//	the run with R iterations succeeds  =>  the run with N iterations
//	succeeds and returns the value of the equivalent Go loop
//
// R = 0 when a nesting level occupies one operand-stack slot (the operand
// stack is then half empty at MaxFrames levels and only the frame table can
// run out: being able to enter the function at all must be enough). R = 1 for
// the two ways of handing the value up that occupy two slots per level:
// there the operand stack runs out at about the same nesting as the frame
// table, and evaluating the arguments of the self call needs a few slots
// more than the base case does.
// (and a run that fails must fail with frame/operand-stack exhaustion).

import (
	"fmt"
	"strings"
	"testing"

	"github.com/d5/tengo/v2"
	"pgregory.net/rapid"

	"verifharness/ev"
)

type Nest struct {
	K     int64   `json:"k"`     // nested non-tail activations before the tail-recursive function is called
	N     int64   `json:"n"`     // iterations
	Form  int     `json:"form"`  // syntactic form of the self tail call
	Ops   []int   `json:"ops"`   // per state parameter: how it is updated
	Init  []int64 `json:"init"`  // initial state
	Carry int     `json:"carry"` // how the nesting function hands the value up
}

var nestOps = []string{"a+n", "a*3+1", "a-b", "b", "a^n"}

func (x *Nest) step(st []int64, n int64) []int64 {
	out := make([]int64, len(st))
	for i := range st {
		a, b := st[i], st[(i+1)%len(st)]
		switch x.Ops[i] {
		case 0:
			out[i] = a + n
		case 1:
			out[i] = a*3 + 1
		case 2:
			out[i] = a - b
		case 3:
			out[i] = b
		default:
			out[i] = a ^ n
		}
	}
	return out
}

func (x *Nest) expected() int64 {
	st := append([]int64(nil), x.Init...)
	for n := x.N; n > 0; n-- {
		st = x.step(st, n)
	}
	var sum int64
	for i, v := range st {
		sum += v * int64(i+1)
	}
	return sum
}

func (x *Nest) render(iter int64) string {
	var ps, args, res []string
	for i := range x.Init {
		p := fmt.Sprintf("s%d", i)
		ps = append(ps, p)
		a, b := p, fmt.Sprintf("s%d", (i+1)%len(x.Init))
		args = append(args, strings.NewReplacer("a", a, "b", b).Replace(nestOps[x.Ops[i]]))
		res = append(res, fmt.Sprintf("%s*%d", p, i+1))
	}
	call := "f(n-1, " + strings.Join(args, ", ") + ")"
	result := strings.Join(res, " + ")
	var body string
	switch x.Form {
	case 0:
		body = "if n == 0 { return " + result + " }\nreturn " + call
	case 1:
		body = "if n > 0 { return " + call + " } else { return " + result + " }"
	case 2:
		body = "if n == 0 { return " + result + " }\nreturn (" + call + ")"
	case 3: // procedure: result handed out through a global, self call as statement + return
		body = "if n == 0 { res = " + result + "; return }\n" + call + "\nreturn"
	default: // procedure falling off its end
		body = "if n == 0 { res = " + result + " } else { " + call + " }"
	}
	inits := make([]string, len(x.Init))
	for i, v := range x.Init {
		inits[i] = fmt.Sprint(v)
	}
	first := fmt.Sprintf("f(%d, %s)", iter, strings.Join(inits, ", "))
	var sb strings.Builder
	sb.WriteString("res := undefined\n")
	sb.WriteString("f := func(n, " + strings.Join(ps, ", ") + ") {\n" + body + "\n}\n")
	fmt.Fprintf(&sb, "nd := %d\n", x.K)
	carry := []string{"return [deep()][0]", "return {v: deep()}.v", "v := deep()\nreturn v"}[x.Carry]
	sb.WriteString("deep := func() {\nif nd == 0 { return " + first + " }\nnd--\n" + carry + "\n}\n")
	sb.WriteString("out := deep()\n")
	if x.Form >= 3 {
		sb.WriteString("out = res\n")
	}
	return sb.String()
}

func checkNest(t ev.TB, test string, x *Nest) {
	ref := int64(1)
	if x.Carry == 0 {
		ref = 0
	}
	src0, src := x.render(ref), x.render(x.N)
	fail := func(format string, args ...interface{}) {
		ev.Fail(t, test, payload{Kind: "nest", Nest: x, Source: src}, "%s\n--- source ---\n%s", fmt.Sprintf(format, args...), src)
	}
	r0 := runScript(src0, "out")
	if r0.CompileErr != nil {
		fail("does not compile: %v", r0.CompileErr)
		return
	}
	if r0.TimedOut {
		ev.Discard("watchdog")
		return
	}
	cls := []string{fmt.Sprintf("nest:form%d", x.Form), fmt.Sprintf("nest:carry%d", x.Carry)}
	switch {
	case x.K < 8:
		cls = append(cls, "nest:shallow")
	case x.K+4 < int64(tengo.MaxFrames):
		cls = append(cls, "nest:deep")
	default:
		cls = append(cls, "nest:last-frames")
	}
	if r0.Err != nil {
		if k := errKind(r0.Err); k == "other" {
			fail("nesting %d, %d iteration(s): fails with %v (not frame/stack exhaustion)", x.K, ref, r0.Err)
			return
		}
		if x.K+8 < int64(tengo.MaxFrames) && x.Carry == 0 {
			fail("nesting %d needs about %d of %d frames and one operand slot per level, yet the run fails: %v", x.K, x.K+3, tengo.MaxFrames, r0.Err)
			return
		}
		ev.Case(src0, false, append(cls, "nest:cannot-enter")...)
		return
	}
	r := runScript(src, "out")
	if r.TimedOut {
		ev.Discard("watchdog")
		return
	}
	if r.Err != nil {
		fail("nesting %d: the function runs with %d iteration(s) but fails with %d iterations (a self tail call needs no new frame): %v", x.K, ref, x.N, r.Err)
		return
	}
	got, ok := r.Vars["out"].(*tengo.Int)
	if !ok || got.Value != x.expected() {
		fail("nesting %d, %d iterations: out = %v, the equivalent loop gives %d", x.K, x.N, descValue(r.Vars["out"]), x.expected())
		return
	}
	nt := x.N >= 1025 || x.K+4 >= int64(tengo.MaxFrames)
	ev.Case(src, nt, cls...)
	if nt && ev.WantSample() {
		ev.Sample(map[string]string{"script": src, "zone": "tail-under-nesting", "outcome": "loop value"})
	}
}

func drawNest(t *rapid.T) *Nest {
	x := &Nest{Form: rapid.IntRange(0, 4).Draw(t, "form"), Carry: rapid.IntRange(0, 2).Draw(t, "carry")}
	ns := rapid.IntRange(1, 4).Draw(t, "states")
	for i := 0; i < ns; i++ {
		x.Ops = append(x.Ops, rapid.IntRange(0, len(nestOps)-1).Draw(t, "op"))
		x.Init = append(x.Init, int64(rapid.IntRange(-5, 9).Draw(t, "init")))
	}
	switch rapid.IntRange(0, 9).Draw(t, "nestZone") {
	case 0:
		x.K = int64(rapid.IntRange(0, 7).Draw(t, "k"))
	case 1:
		x.K = int64(rapid.IntRange(8, tengo.MaxFrames-9).Draw(t, "k"))
	default:
		x.K = int64(tengo.MaxFrames - 8 + rapid.IntRange(0, 10).Draw(t, "kNearLimit"))
	}
	x.N = []int64{2, 3, 4, 5, 1000, 1030, 2050, 20000}[rapid.IntRange(0, 7).Draw(t, "n")]
	return x
}

// TestTailUnderNesting: see the comment at the top of this file.
func TestTailUnderNesting(t *testing.T) {
	rapid.Check(t, func(t *rapid.T) { checkNest(t, "TestTailUnderNesting", drawNest(t)) })
}

// TestNestTable: every form x carry at every nesting around the frame limit.
func TestNestTable(t *testing.T) {
	for form := 0; form <= 4; form++ {
		for carry := 0; carry <= 2; carry++ {
			for k := int64(tengo.MaxFrames - 6); k <= int64(tengo.MaxFrames)+1; k++ {
				checkNest(t, "TestNestTable", &Nest{K: k, N: 3000, Form: form, Carry: carry, Ops: []int{0, 2}, Init: []int64{1, 2}})
			}
		}
	}
}
