package c16

import (
	"encoding/json"
	"os"
	"path/filepath"
	"sort"
	"testing"
)

// writeOpenReplays (VERIF_C16_WRITE_OPEN=<dir>, maintenance only) writes the
// reproducers of the open findings in the replay-file format.
func writeOpenReplays(t *testing.T, dir string) {
	reps := f3Reproducers()
	var names []string
	for n := range reps {
		names = append(names, n)
	}
	sort.Strings(names)
	_ = os.MkdirAll(dir, 0o755)
	for _, n := range names {
		v, src := evalTemplate(reps[n], true)
		doc := map[string]interface{}{
			"property": "C16", "test": "TestMixedTemplates", "message": v.Fail,
			"payload": payload{Kind: "template", Template: reps[n], Source: src},
		}
		b, err := json.MarshalIndent(doc, "", " ")
		if err != nil {
			t.Fatal(err)
		}
		if err := os.WriteFile(filepath.Join(dir, n+".json"), append(b, '\n'), 0o644); err != nil {
			t.Fatal(err)
		}
	}
}
