package c16

// A VM can be run again (VM.Run resets its stack, frames and instruction
// pointer). Whatever the first run left behind when it was aborted in the
// middle of a (statement-form or value-form) self tail recursion must not
// change what the second run computes: the tail-call machinery keeps state in
// the frames, and frames are reused.

import (
	"fmt"
	"testing"
	"time"

	"github.com/d5/tengo/v2"
	"pgregory.net/rapid"

	"verifharness/bridge"
	"verifharness/ev"
	"verifharness/lang"
)

// reusedVMRunner compiles src, counts the instructions of a complete run on a
// throw-away VM, then runs a second VM twice: the first time aborted after a
// drawn fraction of that count, the second time to completion.
func reusedVMRunner(fraction func(total int) int) func(src string, names ...string) runResult {
	return func(src string, names ...string) runResult {
		compile := func() (*bridge.Unit, *bridge.CompileError) { return bridge.CompileUnit(src, nil, nil, nil) }
		u0, cerr := compile()
		if cerr != nil {
			return runResult{CompileErr: cerr}
		}
		total := 0
		tengo.VerifSetProbe(func(v *tengo.VM) { total++ })
		err0 := tengo.NewVM(u0.Bytecode, u0.Globals, -1).Run()
		tengo.VerifSetProbe(nil)
		if err0 != nil {
			// stack/frame exhaustion etc.: judged by the ordinary path
			return runResult{Err: err0}
		}
		u, cerr := compile()
		if cerr != nil {
			return runResult{CompileErr: cerr}
		}
		vm := tengo.NewVM(u.Bytecode, u.Globals, -1)
		stopAt, steps := fraction(total), 0
		tengo.VerifSetProbe(func(v *tengo.VM) {
			steps++
			if steps == stopAt {
				v.Abort()
			}
		})
		_ = vm.Run()
		tengo.VerifSetProbe(nil)
		done := make(chan error, 1)
		go func() { done <- vm.Run() }()
		var err error
		select {
		case err = <-done:
		case <-time.After(watchdog):
			vm.Abort()
			<-done
			return runResult{TimedOut: true}
		}
		if err != nil {
			return runResult{Err: err}
		}
		vars := map[string]tengo.Object{}
		for _, n := range names {
			if i, ok := u.Index[n]; ok && u.Globals[i] != nil {
				vars[n] = u.Globals[i]
			}
		}
		return runResult{Vars: vars}
	}
}

func TestVMReuseAfterAbort(t *testing.T) {
	rapid.Check(t, func(t *rapid.T) {
		tp := drawTemplate(t, genMode{tailOnly: rapid.IntRange(0, 3).Draw(t, "tailOnly") > 0, maxN: 3000})
		permille := rapid.IntRange(1, 999).Draw(t, "abortAtPermille")
		currentRunner, reusePermille = reusedVMRunner(func(total int) int { return 1 + total*permille/1000 }), permille
		defer func() { currentRunner, reusePermille = runScript, 0 }()
		checkTemplate(t, "TestVMReuseAfterAbort", tp)
	})
}

// ---------------------------------------------------------------------------
// Two functions, two runs: the first run is aborted inside a statement-form
// self tail recursion (whose frame is marked "discard the result"), the host
// flips a global, and the second run of the same VM calls a value-returning
// tail-recursive function at a drawn frame depth: it must return the loop's
// value whatever the aborted run left in the frames.
// ---------------------------------------------------------------------------

type Reuse struct {
	SpinForm  int   `json:"spin_form"`  // 0: self call is the last statement, 1: self call; return, 2: inside if/else
	SpinDepth int   `json:"spin_depth"` // frames below the aborted recursion
	SumDepth  int   `json:"sum_depth"`  // frames below the recursion of the second run
	SumForm   int   `json:"sum_form"`   // 0: return sum(..), 1: return c || sum(..) style, 2: if/else return
	N         int64 `json:"n"`
	AbortAt   int   `json:"abort_at"` // instruction count of the first run at which it is aborted
}

func (r *Reuse) render() string {
	spin := []string{
		"spin := func(n) {\n\tif n == 0 { return 7 }\n\tspin(n - 1)\n}\n",
		"spin := func(n) {\n\tif n == 0 { return 7 }\n\tspin(n - 1)\n\treturn\n}\n",
		"spin := func(n) {\n\tif n == 0 { return 7 } else { spin(n - 1) }\n}\n",
	}[r.SpinForm]
	sum := []string{
		"sum := func(n, acc) {\n\tif n == 0 { return acc }\n\treturn sum(n - 1, acc + n)\n}\n",
		"sum := func(n, acc) {\n\tif n == 0 { return [acc] }\n\treturn n < 0 || sum(n - 1, acc + n)\n}\n",
		"sum := func(n, acc) {\n\tif n > 0 { return sum(n - 1, acc + n) } else { return acc }\n}\n",
	}[r.SumForm]
	under := func(depth int, call string) string {
		// depth nested non-tail activations around the call
		s := call
		for i := 0; i < depth; i++ {
			s = "(func() { v := " + s + "; return v })()"
		}
		return s
	}
	return spin + sum + "out := undefined\nif mode == 0 {\n\t" + under(r.SpinDepth, "spin(1 << 60)") + "\n} else {\n\tout = " +
		under(r.SumDepth, fmt.Sprintf("sum(%d, 0)", r.N)) + "\n}\n"
}

func checkReuse(t ev.TB, test string, r *Reuse) {
	src := r.render()
	p := payload{Kind: "reuse", Reuse: r, Source: src}
	u, cerr := bridge.CompileUnit(src, nil, map[string]*lang.Val{"mode": {T: "int", I: 0}}, nil)
	if cerr != nil {
		ev.Fail(t, test, p, "generated program does not compile: %v\n%s", cerr, src)
		return
	}
	vm := tengo.NewVM(u.Bytecode, u.Globals, -1)
	steps := 0
	tengo.VerifSetProbe(func(v *tengo.VM) {
		steps++
		if steps == r.AbortAt {
			v.Abort()
		}
	})
	_ = vm.Run()
	tengo.VerifSetProbe(nil)
	u.Globals[u.Index["mode"]] = &tengo.Int{Value: 1}
	done := make(chan error, 1)
	go func() { done <- vm.Run() }()
	select {
	case err := <-done:
		if err != nil {
			ev.Fail(t, test, p, "second run of the VM failed: %v\n--- source ---\n%s", err, src)
			return
		}
	case <-time.After(watchdog):
		vm.Abort()
		<-done
		ev.Fail(t, test, p, "second run of the VM did not finish within %v\n--- source ---\n%s", watchdog, src)
		return
	}
	want := r.N * (r.N + 1) / 2
	out := u.Globals[u.Index["out"]]
	ok := false
	switch r.SumForm {
	case 1:
		if a, isArr := out.(*tengo.Array); isArr && len(a.Value) == 1 {
			if i, isInt := a.Value[0].(*tengo.Int); isInt && i.Value == want {
				ok = true
			}
		}
	default:
		if i, isInt := out.(*tengo.Int); isInt && i.Value == want {
			ok = true
		}
	}
	if !ok {
		ev.Fail(t, test, p, "first run aborted after %d instructions inside spin (frame depth %d); the second run's sum(%d, 0) at frame depth %d gave %s, the equivalent loop gives %d\n--- source ---\n%s",
			r.AbortAt, r.SpinDepth, r.N, r.SumDepth, descValue(out), want, src)
		return
	}
	ev.Case("reuse|"+src+fmt.Sprint(r.AbortAt), r.N >= 1025, fmt.Sprintf("reuse:spin-form%d", r.SpinForm), fmt.Sprintf("reuse:sum-form%d", r.SumForm),
		fmt.Sprintf("reuse:depths-equal:%v", r.SpinDepth == r.SumDepth))
}

func TestVMReuseTwoFunctions(t *testing.T) {
	rapid.Check(t, func(t *rapid.T) {
		r := &Reuse{SpinForm: rapid.IntRange(0, 2).Draw(t, "spinForm"), SumForm: rapid.IntRange(0, 2).Draw(t, "sumForm"),
			SpinDepth: rapid.IntRange(0, 3).Draw(t, "spinDepth"), N: rapid.SampledFrom([]int64{1, 2, 100, 1030, 5000}).Draw(t, "n"),
			AbortAt: rapid.IntRange(1, 400).Draw(t, "abortAt")}
		r.SumDepth = r.SpinDepth
		if rapid.IntRange(0, 3).Draw(t, "otherDepth") == 0 {
			r.SumDepth = rapid.IntRange(0, 3).Draw(t, "sumDepth")
		}
		checkReuse(t, "TestVMReuseTwoFunctions", r)
	})
}
