// C17 — format() and sprintf agree with Go's fmt for every documented verb.
//
// Oracle A (equality): for format strings over the documented directive grammar
// and arguments of the five directly mapped types, tengo.Format, the builtin
// `format` (through a script) and stdlib `fmt.sprintf` equal
// fmt.Sprintf(format, goValues...) byte for byte.
// Oracle B (totality): for arbitrary format bytes and arguments of every
// runtime type, under small MaxStringLen settings, the call returns a string
// within the limit or an error that errors.Is(ErrStringLimit); never panics;
// the pooled printer state does not leak between calls.
package c17

import (
	"encoding/hex"
	"encoding/json"
	"errors"
	"fmt"
	"os"
	"path/filepath"
	"sort"
	"strconv"
	"strings"
	"testing"

	"github.com/d5/tengo/v2"
	"github.com/d5/tengo/v2/stdlib"
	"pgregory.net/rapid"

	"verifharness/ev"
	"verifharness/tv"
)

func TestMain(m *testing.M) { ev.Main(m, "C17") }

var traceFile = os.Getenv("C17_TRACE")

const (
	pathDirect  = 1 // tengo.Format
	pathBuiltin = 2 // builtin format(...) in a script
	pathSprintf = 4 // fmt.sprintf(...) of the stdlib module in a script
)

var pathNames = map[int]string{pathDirect: "tengo.Format", pathBuiltin: "builtin format", pathSprintf: "fmt.sprintf"}

// fcase is one evaluated case.
type fcase struct {
	Format string
	Args   []tengo.Object
	Limit  int  // MaxStringLen during the case; 0 = leave the default
	Paths  int  // bit set of path*
	Mode   byte // 'A' equality generator, 'B' totality generator / fuzz
	Origin string
}

// casePayload is the JSON form of a case in replay files.
type casePayload struct {
	FormatHex string     `json:"format_hex"`
	FormatTxt string     `json:"format_txt"` // echo only
	Args      []*tv.Spec `json:"args"`
	Limit     int        `json:"limit"`
	Paths     int        `json:"paths"`
	Mode      string     `json:"mode"`
	Finding   string     `json:"finding,omitempty"` // open/*.json: the switch to turn off for the replay
}

func (c *fcase) payload() casePayload {
	p := casePayload{FormatHex: hex.EncodeToString([]byte(c.Format)), FormatTxt: strconv.QuoteToASCII(c.Format),
		Limit: c.Limit, Paths: c.Paths, Mode: string(c.Mode)}
	for _, a := range c.Args {
		p.Args = append(p.Args, tv.FromObject(a))
	}
	return p
}

func (p *casePayload) toCase() *fcase {
	b, _ := hex.DecodeString(p.FormatHex)
	c := &fcase{Format: string(b), Limit: p.Limit, Paths: p.Paths, Mode: 'A', Origin: "replay"}
	if p.Mode == "B" {
		c.Mode = 'B'
	}
	if c.Paths == 0 {
		c.Paths = pathDirect
	}
	for _, s := range p.Args {
		c.Args = append(c.Args, s.ToObject())
	}
	return c
}

func (c *fcase) key() string {
	var sb strings.Builder
	sb.WriteString(c.Format)
	for _, a := range c.Args {
		sb.WriteByte(0)
		sb.WriteString(tv.Describe(a))
	}
	return sb.String()
}

func describeArgs(args []tengo.Object) string {
	parts := make([]string, len(args))
	for i, a := range args {
		parts[i] = tv.Describe(a)
	}
	return "[" + strings.Join(parts, ", ") + "]"
}

// ---------- the three ways of calling ----------

func safeFormat(format string, args []tengo.Object) (s string, err error, pan interface{}) {
	defer func() {
		if r := recover(); r != nil {
			pan = r
		}
	}()
	s, err = tengo.Format(format, args...)
	return
}

var fmtMods = stdlib.GetModuleMap("fmt")

// runCall evaluates format(f, a0, ...) or fmt.sprintf(f, a0, ...) in a script.
func runCall(path int, format string, args []tengo.Object) (out tengo.Object, err error, pan interface{}) {
	defer func() {
		if r := recover(); r != nil {
			pan = r
		}
	}()
	var sb strings.Builder
	if path == pathSprintf {
		sb.WriteString("fmt := import(\"fmt\")\nout := fmt.sprintf(f")
	} else {
		sb.WriteString("out := format(f")
	}
	for i := range args {
		sb.WriteString(", a" + strconv.Itoa(i))
	}
	sb.WriteString(")\n")
	s := tengo.NewScript([]byte(sb.String()))
	s.SetImports(fmtMods)
	if err := s.Add("f", &tengo.String{Value: format}); err != nil {
		return nil, fmt.Errorf("harness: Add(f): %w", err), nil
	}
	for i, a := range args {
		if err := s.Add("a"+strconv.Itoa(i), a); err != nil {
			return nil, fmt.Errorf("harness: Add(a%d): %w", i, err), nil
		}
	}
	c, err := s.Compile()
	if err != nil {
		return nil, fmt.Errorf("harness: compile: %w", err), nil
	}
	// Run (not RunContext): no deadline - time is not a correctness signal -
	// and a Go panic inside the builtin reaches the recover above as a panic
	// instead of being turned into an error by RunContext.
	if err := c.Run(); err != nil {
		return nil, err, nil
	}
	return c.Get("out").Object(), nil, nil
}

func goValue(o tengo.Object) interface{} {
	switch x := o.(type) {
	case *tengo.Int:
		return x.Value
	case *tengo.Float:
		return x.Value
	case *tengo.String:
		return x.Value
	case *tengo.Bool:
		return !x.IsFalsy()
	case *tengo.Bytes:
		return x.Value
	}
	panic("goValue: not a mapped type")
}

func clip(s string) string {
	if len(s) > 300 {
		return strconv.QuoteToASCII(s[:140]) + fmt.Sprintf("...(%d bytes)...", len(s)) + strconv.QuoteToASCII(s[len(s)-80:])
	}
	return strconv.QuoteToASCII(s)
}

// ---------- pool probe ----------

var probeFormat = "%3d|%-3s|%.1f|%q"
var probeArgs = []tengo.Object{&tengo.Int{Value: 7}, &tengo.String{Value: "ab"}, &tengo.Float{Value: 1.25}, &tengo.Int{Value: 'x'}}
var probeWant = fmt.Sprintf(probeFormat, int64(7), "ab", 1.25, int64('x')) // 15 bytes

func poolProbe() string {
	s, err, pan := safeFormat(probeFormat, probeArgs)
	if pan != nil {
		return fmt.Sprintf("probe call after the case panicked: %v", pan)
	}
	if err != nil {
		return fmt.Sprintf("probe call after the case failed: %v", err)
	}
	if s != probeWant {
		return fmt.Sprintf("printer state leaked between calls: probe %q gave %s, want %s", probeFormat, clip(s), clip(probeWant))
	}
	return ""
}

// ---------- the oracle ----------

type caseResult struct {
	Fail       string
	Discards   []string // counted exclusions
	Domain     string   // "" = equality domain
	Nontrivial bool
	Classes    []string
	Output     string
}

const defaultLimit = 2147483647

// evalCase runs one case through the oracles. sw = the open-finding switches
// in force (openFindings normally; one of them turned off when a known
// finding is re-derived).
func evalCase(c *fcase, sw map[string]bool) (res caseResult) {
	if len(c.Format) > defaultLimit/2 {
		res.Fail = "harness: format too long"
		return
	}
	p := planFormat(c.Format, c.Args)
	v := classify(p, c.Args, sw)
	res.Domain = v.Reason
	res.Nontrivial = v.Nontrivial
	sort.Strings(v.Classes)
	res.Classes = v.Classes

	if c.Limit != 0 {
		old := tengo.MaxStringLen
		tengo.MaxStringLen = c.Limit
		defer func() { tengo.MaxStringLen = old }()
	}
	limit := tengo.MaxStringLen

	equality := v.Reason == "" && limit == defaultLimit
	var want string
	if equality {
		goArgs := make([]interface{}, len(c.Args))
		for i, a := range c.Args {
			goArgs[i] = goValue(a)
		}
		want = fmt.Sprintf(c.Format, goArgs...)
		res.Output = want
	}
	// the length clause of oracle B is waived for the exact pattern of the
	// open finding F-C17-hexlen (counted)
	lenClause := true
	if limit < defaultLimit {
		// precondition of the length clause: no input string is itself longer
		// than the limit (generators clip; replays and fuzz inputs are checked)
		pre := len(c.Format) <= limit
		for _, a := range c.Args {
			if longestString(a) > limit {
				pre = false
			}
		}
		if !pre {
			lenClause = false
			res.Discards = append(res.Discards, "precondition: an input string is longer than MaxStringLen (length clause not applicable)")
		}
	}
	if sw["F-C17-hexlen"] && v.HexStrLike && limit < defaultLimit {
		lenClause = false
		res.Discards = append(res.Discards, "known:F-C17-hexlen (length clause waived)")
	}

	for _, path := range []int{pathDirect, pathBuiltin, pathSprintf} {
		if c.Paths&path == 0 {
			continue
		}
		name := pathNames[path]
		var got string
		var err error
		var pan interface{}
		if path == pathDirect {
			got, err, pan = safeFormat(c.Format, c.Args)
		} else {
			var out tengo.Object
			out, err, pan = runCall(path, c.Format, c.Args)
			if err != nil && strings.HasPrefix(err.Error(), "harness:") {
				res.Fail = fmt.Sprintf("%s: %v", name, err)
				return
			}
			if err == nil && pan == nil {
				s, ok := out.(*tengo.String)
				if !ok {
					res.Fail = fmt.Sprintf("%s(%s, %s) returned %s, not a string", name, clip(c.Format), describeArgs(c.Args), tv.Describe(out))
					return
				}
				got = s.Value
			}
		}
		// totality clauses (always)
		if pan != nil {
			res.Fail = fmt.Sprintf("%s(%s, %s) panicked: %v", name, clip(c.Format), describeArgs(c.Args), pan)
			return
		}
		if err != nil {
			if !errors.Is(err, tengo.ErrStringLimit) {
				res.Fail = fmt.Sprintf("%s(%s, %s) failed with an error that is not ErrStringLimit: %v", name, clip(c.Format), describeArgs(c.Args), err)
				return
			}
			if equality {
				res.Fail = fmt.Sprintf("%s(%s, %s) reported the string limit with the default MaxStringLen; Go gives %s", name, clip(c.Format), describeArgs(c.Args), clip(want))
				return
			}
			res.Classes = append(res.Classes, "err:string-limit")
			continue
		}
		if lenClause && len(got) > limit {
			res.Fail = fmt.Sprintf("%s(%s, %s) returned %d bytes with MaxStringLen=%d and no error", name, clip(c.Format), describeArgs(c.Args), len(got), limit)
			return
		}
		if !equality {
			continue
		}
		// equality clause
		if path != pathDirect && sw["F19"] && len(c.Args) == 0 && strings.Contains(c.Format, "%") {
			res.Discards = append(res.Discards, "known:F19 ("+name+" path skipped)")
			continue
		}
		if got != want {
			res.Fail = fmt.Sprintf("%s(%s, %s) = %s, Go's fmt.Sprintf gives %s", name, clip(c.Format), describeArgs(c.Args), clip(got), clip(want))
			return
		}
	}
	if c.Mode == 'B' || c.Limit != 0 {
		if m := poolProbe(); m != "" {
			res.Fail = m + fmt.Sprintf(" (after %s, %s)", clip(c.Format), describeArgs(c.Args))
		}
	}
	return
}

// runCase = evalCase + evidence bookkeeping + failure recording.
func runCase(t ev.TB, test string, c *fcase) {
	if traceFile != "" {
		// C17_TRACE=<file>: the case about to run is written there first, so a
		// hang or a fatal error leaves its input behind (replayable payload)
		b, _ := json.Marshal(map[string]interface{}{"property": "C17", "test": test, "message": "traced before evaluation", "payload": c.payload()})
		_ = os.WriteFile(traceFile, b, 0o644)
	}
	res := evalCase(c, openFindings)
	if res.Fail != "" {
		ev.Fail(t, test, c.payload(), "%s", res.Fail)
		return
	}
	for _, d := range res.Discards {
		ev.Discard(d)
	}
	limit := "default"
	if c.Limit != 0 {
		limit = strconv.Itoa(c.Limit)
	}
	if c.Mode == 'A' {
		if res.Domain != "" {
			// generated by the equality generator but outside the equality
			// claim: counted, and it went through the totality clauses above
			ev.Discard(res.Domain)
			return
		}
		cls := make([]string, 0, len(res.Classes)+3)
		for _, k := range res.Classes {
			cls = append(cls, "A:"+k)
		}
		if c.Paths&pathBuiltin != 0 {
			cls = append(cls, "A:via-script")
		}
		if len(c.Args) == 0 {
			cls = append(cls, "A:zero-args")
		}
		cls = append(cls, "A:origin:"+c.Origin)
		ev.Case("A"+c.key(), res.Nontrivial, cls...)
		if res.Nontrivial && ev.WantSample() && len(res.Output) < 120 && len(c.Args) >= 2 {
			ev.Sample(map[string]string{"kind": "equality", "format": strconv.QuoteToASCII(c.Format), "args": describeArgs(c.Args), "output": strconv.QuoteToASCII(res.Output)})
		}
		return
	}
	// mode B
	cls := []string{"B:limit=" + limit, "B:origin:" + c.Origin}
	if res.Domain == "" {
		if c.Limit == 0 {
			cls = append(cls, "B:also-checked-for-equality")
		} else {
			cls = append(cls, "B:in-equality-domain-but-limited")
		}
	} else {
		cls = append(cls, "B:"+res.Domain)
	}
	if c.Paths&pathBuiltin != 0 {
		cls = append(cls, "B:via-script")
	}
	seen := map[string]bool{}
	for _, a := range c.Args {
		n := "B:arg:" + a.TypeName()
		if !seen[n] {
			seen[n] = true
			cls = append(cls, n)
		}
	}
	for _, k := range res.Classes {
		if strings.HasPrefix(k, "out:") || strings.HasPrefix(k, "err:") || strings.HasPrefix(k, "star") {
			cls = append(cls, "B:"+k)
		}
	}
	ev.Case("B"+limit+"/"+c.key(), strings.Contains(c.Format, "%") && len(c.Args) > 0, cls...)
	if ev.WantSample() && c.Limit != 0 && len(c.Format) < 60 && len(c.Args) > 0 && len(c.Args) < 3 {
		ev.Sample(map[string]string{"kind": "totality", "format": strconv.QuoteToASCII(c.Format), "args": describeArgs(c.Args), "limit": limit})
	}
}

// ---------- rapid properties ----------

func TestFormatEquality(t *testing.T) {
	rapid.Check(t, func(t *rapid.T) {
		c := genEqCase(t)
		c.Paths = pathDirect
		runCase(t, "TestFormatEquality", c)
	})
}

func TestFormatEqualityScript(t *testing.T) {
	rapid.Check(t, func(t *rapid.T) {
		c := genEqCase(t)
		c.Paths = pathDirect | pathBuiltin | pathSprintf
		runCase(t, "TestFormatEqualityScript", c)
	})
}

// MaxStringLen is process-wide: the totality properties set and restore it
// inside evalCase and never run in parallel with anything (one test per
// process under the driver; no t.Parallel anywhere in this package).
func TestFormatTotal(t *testing.T) {
	rapid.Check(t, func(t *rapid.T) {
		c := genTotalCase(t)
		c.Paths = pathDirect
		runCase(t, "TestFormatTotal", c)
	})
}

func TestFormatTotalScript(t *testing.T) {
	rapid.Check(t, func(t *rapid.T) {
		c := genTotalCase(t)
		c.Paths = pathDirect | pathBuiltin | pathSprintf
		runCase(t, "TestFormatTotalScript", c)
	})
}

// TestDirectiveGrid enumerates every documented verb x every flag subset x a
// few widths/precisions x a small value pool per type (single-directive
// formats), through tengo.Format.
func TestDirectiveGrid(t *testing.T) {
	pools := gridPools()
	widths := []string{"", "1", "7", "12"}
	precs := []string{"", ".", ".0", ".3", ".10"}
	flagChars := "+-# 0"
	n := 0
	for _, k := range []kind{kBool, kInt, kFloat, kString, kBytes} {
		for _, verb := range verbsFor[k] {
			for mask := 0; mask < 32; mask++ {
				flags := ""
				for b := 0; b < 5; b++ {
					if mask&(1<<b) != 0 {
						flags += string(flagChars[b])
					}
				}
				// a '0' flag must not be followed directly by other flags that
				// would turn it into something else: all five are flags, any order is fine
				for _, w := range widths {
					for _, pr := range precs {
						f := "%" + flags + w + pr + string(verb)
						for _, a := range pools[k] {
							c := &fcase{Format: f, Args: []tengo.Object{a}, Paths: pathDirect, Mode: 'A', Origin: "grid"}
							runCase(t, "TestDirectiveGrid", c)
							n++
						}
					}
				}
			}
		}
	}
	ev.ClassN("A:grid-cases", int64(n))
}

// ---------- native fuzz target (thorough tier) ----------

const maxFuzzFormat = 160

func FuzzFormat(f *testing.F) {
	for _, s := range fuzzSeeds() {
		f.Add([]byte(s.format), s.args)
	}
	f.Fuzz(func(t *testing.T, format []byte, argdata []byte) {
		if len(format) > maxFuzzFormat || len(argdata) > 200 {
			return
		}
		c := fuzzCase(format, argdata)
		if totalWork(c) > 3000000 {
			return // more than ~3 directives at the 10^6 cap: cost only
		}
		runCase(t, "FuzzFormat", c)
	})
}

// ---------- replay, regressions, known findings ----------

func rootDir() string {
	if r := os.Getenv("VERIF_ROOT"); r != "" {
		return r
	}
	return "/verif"
}

func switchesWithout(id string) map[string]bool {
	sw := map[string]bool{}
	for k, v := range openFindings {
		sw[k] = v
	}
	if id != "" {
		sw[id] = false
	}
	return sw
}

func loadCase(t *testing.T, path string) (*fcase, casePayload, string) {
	var p casePayload
	test, err := ev.LoadReplay(path, &p)
	if err != nil {
		t.Fatalf("load %s: %v", path, err)
	}
	switch test {
	case "TestFormatEquality", "TestFormatEqualityScript", "TestFormatTotal", "TestFormatTotalScript",
		"TestDirectiveGrid", "FuzzFormat", "TestKnownFindings":
	default:
		t.Fatalf("unknown test %q in %s", test, path)
	}
	return p.toCase(), p, test
}

// replayFile re-runs a saved case through the same oracle without rapid. A
// replay of an open finding (payload.finding set) runs with that finding's
// exclusion switch off, i.e. it is expected to fail while the finding is open.
func replayFile(t *testing.T, path string) {
	c, p, test := loadCase(t, path)
	res := evalCase(c, switchesWithout(p.Finding))
	if res.Fail != "" {
		ev.Fail(t, test, p, "%s", res.Fail)
	}
}

func TestReplay(t *testing.T) {
	path := os.Getenv("VERIF_REPLAY")
	if path == "" {
		t.Skip("no VERIF_REPLAY")
	}
	if strings.HasSuffix(path, ".fuzz") {
		format, argdata, err := readFuzzFile(path)
		if err != nil {
			t.Fatal(err)
		}
		runCase(t, "FuzzFormat", fuzzCase(format, argdata))
		return
	}
	replayFile(t, path)
}

// TestRegressions re-runs every committed replay of a repaired defect.
func TestRegressions(t *testing.T) {
	files, _ := filepath.Glob(filepath.Join(rootDir(), "replays", "C17", "fixed", "*.json"))
	sort.Strings(files)
	for _, f := range files {
		f := f
		t.Run(filepath.Base(f), func(t *testing.T) { replayFile(t, f) })
		ev.Note("regression replays run")
	}
}

// TestKnownFindings re-derives every open finding from its committed
// reproducer (replays/C17/open/*.json) with the finding's exclusion switch
// turned off. While the reproducer still fails the oracle the finding is
// reported as KNOWN-FINDING; when it no longer does, only a note is left (the
// maintainer then turns the switch off and moves the replay to fixed/).
func TestKnownFindings(t *testing.T) {
	files, _ := filepath.Glob(filepath.Join(rootDir(), "replays", "C17", "open", "*.json"))
	sort.Strings(files)
	if len(files) == 0 {
		ev.Note("no open-finding replays found")
	}
	for _, f := range files {
		c, p, _ := loadCase(t, f)
		if p.Finding == "" {
			t.Fatalf("%s: payload has no finding id", f)
		}
		if !openFindings[p.Finding] {
			// switch already off: the case is checked like any other
			res := evalCase(c, openFindings)
			if res.Fail != "" {
				ev.Fail(t, "TestKnownFindings", p, "%s", res.Fail)
			}
			continue
		}
		// with the switch on the reproducer must be excluded, not failing
		if res := evalCase(c, openFindings); res.Fail != "" {
			ev.Fail(t, "TestKnownFindings", p, "reproducer of %s is not covered by its exclusion pattern: %s", p.Finding, res.Fail)
			continue
		}
		res := evalCase(c, switchesWithout(p.Finding))
		if res.Fail != "" {
			ev.Known(p.Finding, knownSummary[p.Finding])
			ev.Note("open finding still reproduces: " + p.Finding + " " + filepath.Base(f))
		} else {
			ev.Note("open finding NO LONGER reproduces: " + p.Finding + " " + filepath.Base(f))
		}
	}
}

var knownSummary = map[string]string{
	"F18":          "site=tengo.(*pp).printArg input=%v-directive: %v renders Object.String() (strings quoted, floats in 'f' format, bytes as text, flags/precision applied to the text) instead of Go's / the documented default format",
	"F19":          "site=tengo.builtinFormat,stdlib.fmtSprintf input=zero-extra-arguments-and-%-in-format: format(f)/fmt.sprintf(f) return f verbatim (\"%%\" stays \"%%\", \"%d\" is not \"%!d(MISSING)\")",
	"F21":          "site=tengo.(*formatter).fmtFloat input=%#g-or-%#G-of-value-rendered-with-leading-0.: one significant digit too few (0.50000, Go and docs: 0.500000)",
	"F-C17-hexlen": "site=tengo.(*formatter).fmtSbx input=%x/%X-of-string-like-operand-under-small-MaxStringLen: result longer than MaxStringLen returned without ErrStringLimit",
}

func readFuzzFile(path string) (format, argdata []byte, err error) {
	raw, err := os.ReadFile(path)
	if err != nil {
		return nil, nil, err
	}
	var vals [][]byte
	for _, l := range strings.Split(string(raw), "\n")[1:] {
		l = strings.TrimSpace(l)
		if strings.HasPrefix(l, "[]byte(") && strings.HasSuffix(l, ")") {
			s, err := strconv.Unquote(l[len("[]byte(") : len(l)-1])
			if err != nil {
				return nil, nil, err
			}
			vals = append(vals, []byte(s))
		}
	}
	if len(vals) != 2 {
		return nil, nil, fmt.Errorf("expected two []byte values in %s, found %d", path, len(vals))
	}
	return vals[0], vals[1], nil
}
