package c17

import (
	"encoding/binary"
	"math"
	"strconv"
	"strings"
	"time"

	"github.com/d5/tengo/v2"
	"pgregory.net/rapid"

	"verifharness/tv"
)

// rapid's integer generators and SampledFrom are deliberately biased towards
// small values and range bounds (good for data, bad for weighted structural
// choices: "IntRange(0,39)==0" is ~11 %, not 2.5 %). Structural choices below
// therefore use fair bits (rapid.Bool is unbiased); shrinking still drives them
// to 0, i.e. to the first alternative.
var fairBit = rapid.Bool()

func uni(t *rapid.T, label string, n int) int {
	if n <= 1 {
		return 0
	}
	bits := 4
	for m := n - 1; m > 0; m >>= 1 {
		bits++
	}
	v := 0
	for i := 0; i < bits; i++ {
		v <<= 1
		if fairBit.Draw(t, label) {
			v |= 1
		}
	}
	return v % n
}

func uniPick[T any](t *rapid.T, label string, xs []T) T { return xs[uni(t, label, len(xs))] }

// ---------- argument values of the five mapped types ----------

var extraInts = []int64{0x07, 0x1b, 0x7f, 0x85, 0xa0, 0xad, 0x200b, 0x2028, 0xfeff, 0xfffd, 0xffff, 0x10000, 0x1f600,
	0x10ffff, 0x110000, 0xd7ff, 0xd800, 0xdbff, 0xdc00, 0xdfff, 0xe000, '\'', '"', '\\', '\n', '`', -1, -0x80, 8, 9, 15, 16, 17,
	math.MinInt64, math.MaxInt64, 1000000, 1000001, -1000000, -1000001, 123456789, -42}

var extraFloats = []float64{1e-4, 1e-5, 0.0001234, 0.00001234, 9.999999e-5, 99999.5, 999999.5, 1e5, 1e6, 1e7, 123456.7, 1234567.0,
	0.000012345678, 1e20, 1e21, 0.5, 0.25, 0.0625, 0.75, -0.3, 0.1, 0.2, 0.30000000000000004, 0.99999999, 0.999, 0.0999, 0.00999,
	5e-324, 1.7976931348623157e308, 2.5, 3.5, 0.125, 1e23, 8.41e21, 100, 1000000, 12345678, 1.0, 2.0, 1234.5678, -1234.5678,
	6.02214076e23, 1.602176634e-19, 255, 65536, 0.001, 0.01}

func genInt() *rapid.Generator[int64] {
	return rapid.OneOf(tv.GenInt64(), tv.GenInt64(), rapid.SampledFrom(extraInts), rapid.Int64Range(0, 0x10FFFF))
}

func genFloat() *rapid.Generator[float64] {
	return rapid.OneOf(tv.GenFloat64(false), tv.GenFloat64(false), rapid.SampledFrom(extraFloats),
		rapid.Map(rapid.Int64Range(-9999999, 9999999), func(i int64) float64 { return float64(i) / 1e7 }),
		rapid.Custom(func(t *rapid.T) float64 {
			// mantissa x 10^e around the %g / %v switch-overs
			m := float64(rapid.Int64Range(1, 999999).Draw(t, "m"))
			e := rapid.IntRange(-12, 24).Draw(t, "e")
			return m * math.Pow(10, float64(e))
		}))
}

func genArgOfKind(t *rapid.T, k kind) tengo.Object {
	switch k {
	case kInt:
		return &tengo.Int{Value: genInt().Draw(t, "int")}
	case kFloat:
		return &tengo.Float{Value: genFloat().Draw(t, "float")}
	case kString:
		return &tengo.String{Value: tv.GenString(false).Draw(t, "str")}
	case kBool:
		if rapid.Bool().Draw(t, "bool") {
			return tengo.TrueValue
		}
		return tengo.FalseValue
	default:
		b := tv.GenBytes().Draw(t, "bytes")
		if b == nil {
			b = []byte{}
		}
		return &tengo.Bytes{Value: b}
	}
}

func genMappedArg(t *rapid.T) tengo.Object {
	// ints and floats have the most verbs
	k := uniPick(t, "kind", []kind{kInt, kInt, kInt, kFloat, kFloat, kFloat, kString, kString, kBytes, kBool})
	return genArgOfKind(t, k)
}

// ---------- generator A: documented directive grammar ----------

var literals = []string{"", "", "", "x", "abc ", "é", "日本", "|", " = ", "\n", "100", "\xff", "(", ")", "[1]", "*", ".", "#", "+", " ", "0", "!(", "EXTRA", "\x00"}

type gstate struct {
	sb     strings.Builder
	args   []tengo.Object
	argNum int // model of fmt's argNum (best effort; planFormat is the authority)
	huge   int // number of very large widths/precisions so far
}

func (g *gstate) starInt(t *rapid.T, prec bool) int64 {
	r := uni(t, "stark", 200)
	switch {
	case r < 150:
		if prec {
			return int64(rapid.IntRange(-2, 25).Draw(t, "starv"))
		}
		return int64(rapid.IntRange(-14, 30).Draw(t, "starv"))
	case r < 180:
		return rapid.SampledFrom([]int64{0, 1, -1, 40, -40, 64, 100, 300, -300}).Draw(t, "starv")
	case r < 198 || g.huge >= 1:
		// beyond the 10^6 cap: %!(BADWIDTH) / %!(BADPREC), cheap
		return rapid.SampledFrom([]int64{1000001, -1000001, math.MaxInt64, math.MinInt64, math.MaxInt32, math.MinInt32, 4294967296 + 5}).Draw(t, "starv")
	default:
		// at the cap: a megabyte of padding (rare: cost)
		g.huge++
		return rapid.SampledFrom([]int64{1000000, -1000000, 99999}).Draw(t, "starv")
	}
}

// cheapStar: an existing Int argument may double as a '*' operand unless it
// would ask for 1 KB .. 1 MB of padding (cost only; values at the cap are
// drawn deliberately and rarely by starInt).
func cheapStar(a tengo.Object) bool {
	iv, ok := a.(*tengo.Int)
	if !ok {
		return false
	}
	v := iv.Value
	if v < 0 {
		v = -v
	}
	return v <= 1000 || v > 1000000 || v < 0
}

// star emits '*' or '[n]*' consuming an Int argument; false when the model says
// the next argument exists and is not an Int.
func (g *gstate) star(t *rapid.T, indexed, prec bool) bool {
	if indexed {
		var ints []int
		for i, a := range g.args {
			if cheapStar(a) {
				ints = append(ints, i)
			}
		}
		idx := -1
		if len(ints) > 0 && fairBit.Draw(t, "reuse") {
			idx = uniPick(t, "staridx", ints)
		} else {
			g.args = append(g.args, &tengo.Int{Value: g.starInt(t, prec)})
			idx = len(g.args) - 1
		}
		g.sb.WriteString("[" + strconv.Itoa(idx+1) + "]*")
		g.argNum = idx + 1
		return true
	}
	if g.argNum < len(g.args) {
		if !cheapStar(g.args[g.argNum]) {
			return false
		}
	} else {
		g.args = append(g.args, &tengo.Int{Value: g.starInt(t, prec)})
	}
	g.sb.WriteByte('*')
	g.argNum++
	return true
}

func pickVerb(t *rapid.T, k kind) byte {
	vs := verbsFor[k]
	if uni(t, "vprob", 100) >= 95 {
		return 'v'
	}
	vs = strings.Replace(vs, "v", "", 1)
	return vs[uni(t, "verb", len(vs))]
}

func (g *gstate) directive(t *rapid.T) {
	g.sb.WriteByte('%')
	if uni(t, "pct", 100) >= 94 {
		g.sb.WriteString(uniPick(t, "pctform", []string{"%", "%", "%", "5%", "-%", "+.3%", "05%", "#%"}))
		return
	}
	// flags
	nf := uniPick(t, "nflags", []int{0, 0, 0, 0, 0, 0, 1, 1, 1, 1, 2, 2, 3})
	for i := 0; i < nf; i++ {
		g.sb.WriteByte("+-# 0"[uni(t, "flag", 5)])
	}
	// width
	switch uni(t, "wk", 10) {
	case 5, 6:
		g.sb.WriteString(strconv.Itoa(rapid.IntRange(0, 40).Draw(t, "wid")))
	case 7, 8:
		g.star(t, false, false)
	case 9:
		g.star(t, true, false)
	}
	// precision
	switch uni(t, "pk", 20) {
	case 10:
		g.sb.WriteByte('.')
	case 11, 12, 13, 14, 15:
		g.sb.WriteString("." + strconv.Itoa(rapid.IntRange(0, 40).Draw(t, "prec")))
	case 16, 17:
		mark := g.sb.Len()
		g.sb.WriteByte('.')
		if !g.star(t, false, true) {
			s := g.sb.String()[:mark]
			g.sb.Reset()
			g.sb.WriteString(s)
		}
	case 18, 19:
		g.sb.WriteByte('.')
		g.star(t, true, true)
	}
	// explicit operand index
	switch ik := uni(t, "ik", 40); {
	case ik >= 32: // valid
		idx := 0
		if len(g.args) > 0 && uni(t, "ireuse", 4) > 0 {
			idx = uni(t, "idx", len(g.args))
		} else {
			g.args = append(g.args, genMappedArg(t))
			idx = len(g.args) - 1
		}
		g.sb.WriteString("[" + strconv.Itoa(idx+1) + "]")
		g.argNum = idx
	case ik >= 30: // invalid
		bad := uniPick(t, "badidx", []string{"[0]", "[99]", "[x]", "[]", "[-1]", "[" + strconv.Itoa(len(g.args)+3) + "]", "[1000001]", "[ 1]"})
		g.sb.WriteString(bad)
		g.sb.WriteByte(documentedVerbs[uni(t, "bverb", len(documentedVerbs))])
		return
	}
	// operand and a verb documented for its type
	if g.argNum >= len(g.args) {
		g.args = append(g.args, genMappedArg(t))
		g.argNum = len(g.args) - 1
	}
	g.sb.WriteByte(pickVerb(t, kindOf(g.args[g.argNum])))
	g.argNum++
}

func genEqCase(t *rapid.T) *fcase {
	g := &gstate{}
	origin := "grammar"
	n := uniPick(t, "ndir", []int{1, 1, 1, 2, 2, 2, 3, 3, 4, 6})
	for i := 0; i < n; i++ {
		g.sb.WriteString(uniPick(t, "lit", literals))
		g.directive(t)
	}
	g.sb.WriteString(uniPick(t, "tail", literals))
	args := g.args
	switch m := uni(t, "count", 100); {
	case m >= 88 && len(args) > 0: // too few
		args = args[:len(args)-rapid.IntRange(1, len(args)).Draw(t, "drop")]
		origin = "too-few-args"
	case m >= 85 && m < 88: // no arguments at all
		args = nil
		origin = "no-args"
	case m >= 81 && m < 85: // surplus (outside the equality claim unless re-ordered)
		ne := rapid.IntRange(1, 2).Draw(t, "nextra")
		for i := 0; i < ne; i++ {
			args = append(args, genMappedArg(t))
		}
		origin = "surplus-args"
	}
	return &fcase{Format: g.sb.String(), Args: args, Mode: 'A', Origin: origin}
}

// ---------- generator B: arbitrary formats x arbitrary arguments ----------

var hostile = []string{"%", "%[", "%[999999999]d", "%.", "%1000001d", "%.1000001f", "%99999999999999999999d",
	"%[1]*[2]d", "%é", "%\xff", "%!", "%[1]", "%[1].", "%*", "%.*", "%[2]*.[1]*[3]d", "%-", "%#", "%+0 -#", "%[1]%", "%z", "%T", "%w", "%p",
	"%.999x", "%#v", "%+v", "%x", "% x", "%#x", "% #X", "%q", "%#q", "%+q", "%100s", "%-64d", "%017.3f", "%65x", "%1001d", "%.1000s",
	"%s", "%d", "%v", "%5.2f", "%e", "%g", "%b", "%o", "%O", "%U", "%c", "%t", "%[3]v", "%[1]v %[1]v", "%*d", "%-*d", "%.*f", "%[1]*d",
	"%16s", "%15s", "%17s", "%-16v", "%.16s", "%.17q", "%8x", "%9X", "% 6x", "%999d", "%1000d", "%63c", "%64U", "%#65U"}

// directives at the 10^6 cap cost a megabyte each: drawn rarely
var hostileHuge = []string{"%1000000d", "%.1000000f", "%1000000s", "%-1000000s", "%01000000d", "%1000000.1000000d", "%1000000x", "% 1000000X",
	"%1000000q", "%1000000U", "%#1000000.999999U", "%1000000c", "%1000000t", "%1000000v", "%1000000T", "%1000000%", "%.999999x", "%999999.3e"}

func genTotalFormat(t *rapid.T) (string, string) {
	switch uni(t, "fk", 10) {
	case 0, 1:
		return string(rapid.SliceOfN(rapid.Byte(), 0, 40).Draw(t, "raw")), "raw-bytes"
	case 2, 3:
		// bytes biased to the directive alphabet
		alpha := []byte("%%%%[]*.0123456789+-# vTtbcdoOqxXUeEfFgGspwz!()é\xff\x00|")
		return string(rapid.SliceOfN(rapid.SampledFrom(alpha), 0, 30).Draw(t, "alpha")), "directive-alphabet"
	case 4, 5, 6:
		var sb strings.Builder
		n := rapid.IntRange(1, 5).Draw(t, "npieces")
		for i := 0; i < n; i++ {
			if fairBit.Draw(t, "lit") {
				sb.WriteString(uniPick(t, "piece", literals))
			}
			if uni(t, "hugep", 100) == 99 {
				sb.WriteString(uniPick(t, "huge", hostileHuge))
			} else {
				sb.WriteString(uniPick(t, "hostile", hostile))
			}
		}
		return sb.String(), "hostile-pieces"
	default:
		// a grammar format with one or two byte edits
		c := genEqCase(t)
		b := []byte(c.Format)
		n := rapid.IntRange(0, 2).Draw(t, "nmut")
		for i := 0; i < n && len(b) > 0; i++ {
			pos := rapid.IntRange(0, len(b)-1).Draw(t, "pos")
			switch uni(t, "mk", 3) {
			case 0:
				b = append(b[:pos], b[pos+1:]...)
			case 1:
				b[pos] = rapid.SampledFrom([]byte("%[]*.09+-# vTdsxqz\xff")).Draw(t, "mb")
			default:
				b = b[:pos]
			}
		}
		return string(b), "mutated-grammar"
	}
}

var longStrings = []string{strings.Repeat("a", 15), strings.Repeat("b", 16), strings.Repeat("c", 17), strings.Repeat("é", 32),
	strings.Repeat("x", 63), strings.Repeat("y", 64), strings.Repeat("z", 65), strings.Repeat("0123456789", 10), strings.Repeat("q", 999),
	strings.Repeat("r", 1000), strings.Repeat("s", 1001), strings.Repeat("\xff", 40), strings.Repeat("\"", 33), strings.Repeat("日", 334)}

func genAnyArg(t *rapid.T) tengo.Object {
	switch uni(t, "ak", 10) {
	case 0, 1, 2, 3:
		return tv.GenObject(tv.Opts{MaxDepth: 2, MaxLen: 3}).Draw(t, "obj")
	case 4, 5, 6:
		return genMappedArg(t)
	case 7:
		s := rapid.SampledFrom(longStrings).Draw(t, "long")
		if rapid.Bool().Draw(t, "asbytes") {
			return &tengo.Bytes{Value: []byte(s)}
		}
		return &tengo.String{Value: s}
	case 8:
		// width/precision candidates of the wrong or right type
		return uniPick(t, "starlike", []tengo.Object{&tengo.Int{Value: 70}, &tengo.Int{Value: -70}, &tengo.Int{Value: 17}, &tengo.Int{Value: -17},
			&tengo.Int{Value: 999}, &tengo.Int{Value: 1001}, &tengo.Float{Value: 70}, &tengo.Int{Value: 65}, &tengo.Int{Value: 1000001},
			&tengo.Char{Value: 70}, &tengo.String{Value: "70"}, tengo.TrueValue, &tengo.Int{Value: math.MinInt64}, &tengo.Int{Value: 3},
			&tengo.Int{Value: 0}, &tengo.Int{Value: -1}, &tengo.Int{Value: 2000}, &tengo.Int{Value: -1001},
			&tengo.Int{Value: []int64{1000, 1000, 1000, 100000, 1000, 1000, 1000000, -1000000}[uni(t, "starhuge", 8)]}})
	default:
		n := rapid.IntRange(5, 40).Draw(t, "alen")
		xs := make([]tengo.Object, n)
		for i := range xs {
			xs[i] = &tengo.Int{Value: int64(i) * 1234567}
		}
		return &tengo.Array{Value: xs}
	}
}

func genTotalCase(t *rapid.T) *fcase {
	f, origin := genTotalFormat(t)
	n := uniPick(t, "nargs", []int{0, 1, 1, 1, 2, 2, 3, 4, 5})
	args := make([]tengo.Object, 0, n)
	for i := 0; i < n; i++ {
		args = append(args, genAnyArg(t))
	}
	limit := uniPick(t, "limit", []int{16, 64, 64, 1000, 1000, 0})
	c := &fcase{Format: f, Args: args, Limit: limit, Mode: 'B', Origin: origin}
	c.normalize()
	return c
}

// totalWork estimates the bytes of padding a case can ask for.
func totalWork(c *fcase) int {
	n := 0
	for _, d := range planFormat(c.Format, c.Args).Events {
		n += d.Wid + d.Prec
	}
	return n
}

// normalize establishes the precondition of the limit clause: every string
// that exists while MaxStringLen = L is itself at most L bytes long (the VM
// and the conversion functions enforce that for script values), so the format
// and all string arguments are clipped to the limit. Bytes are governed by
// MaxBytesLen, not MaxStringLen, and stay as they are.
func (c *fcase) normalize() {
	// work bound: %d on Bytes formats every element with the directive's width
	// and precision (Go's fmt does the same), so a width at the 10^6 cap times
	// a 1000-byte value is a gigabyte of output under the default limit. With
	// such a width and no small limit, Bytes arguments are clipped to 8 bytes.
	if c.Limit == 0 || c.Limit > 100000 {
		huge := false
		for _, d := range planFormat(c.Format, c.Args).Events {
			if d.Wid >= 5000 || d.Prec >= 5000 {
				huge = true
			}
		}
		if huge {
			for i, a := range c.Args {
				if b, ok := a.(*tengo.Bytes); ok && len(b.Value) > 8 {
					c.Args[i] = &tengo.Bytes{Value: b.Value[:8]}
				}
			}
		}
	}
	if c.Limit == 0 {
		return
	}
	if len(c.Format) > c.Limit {
		c.Format = c.Format[:c.Limit]
	}
	for i, a := range c.Args {
		c.Args[i] = clipStrings(a, c.Limit)
	}
}

func clipStrings(o tengo.Object, limit int) tengo.Object {
	clipSeq := func(xs []tengo.Object) []tengo.Object {
		out := make([]tengo.Object, len(xs))
		for i, x := range xs {
			out[i] = clipStrings(x, limit)
		}
		return out
	}
	clipMap := func(m map[string]tengo.Object) map[string]tengo.Object {
		out := make(map[string]tengo.Object, len(m))
		for k, x := range m {
			if len(k) > limit {
				k = k[:limit]
			}
			out[k] = clipStrings(x, limit)
		}
		return out
	}
	switch x := o.(type) {
	case *tengo.String:
		if len(x.Value) > limit {
			return &tengo.String{Value: x.Value[:limit]}
		}
	case *tengo.Array:
		return &tengo.Array{Value: clipSeq(x.Value)}
	case *tengo.ImmutableArray:
		return &tengo.ImmutableArray{Value: clipSeq(x.Value)}
	case *tengo.Map:
		return &tengo.Map{Value: clipMap(x.Value)}
	case *tengo.ImmutableMap:
		return &tengo.ImmutableMap{Value: clipMap(x.Value)}
	case *tengo.Error:
		return &tengo.Error{Value: clipStrings(x.Value, limit)}
	}
	return o
}

// longestString returns the longest string value (or map key) reachable in o.
func longestString(o tengo.Object) int {
	n := 0
	upd := func(k int) {
		if k > n {
			n = k
		}
	}
	switch x := o.(type) {
	case *tengo.String:
		upd(len(x.Value))
	case *tengo.Array:
		for _, e := range x.Value {
			upd(longestString(e))
		}
	case *tengo.ImmutableArray:
		for _, e := range x.Value {
			upd(longestString(e))
		}
	case *tengo.Map:
		for k, e := range x.Value {
			upd(len(k))
			upd(longestString(e))
		}
	case *tengo.ImmutableMap:
		for k, e := range x.Value {
			upd(len(k))
			upd(longestString(e))
		}
	case *tengo.Error:
		upd(longestString(x.Value))
	}
	return n
}

// ---------- value pools of the directive grid ----------

func gridPools() map[kind][]tengo.Object {
	p := map[kind][]tengo.Object{}
	p[kBool] = []tengo.Object{tengo.TrueValue, tengo.FalseValue}
	for _, i := range []int64{0, 1, -1, 42, -255, 65, 0x7f, 0xe9, 0x4e16, 0x1f600, 0xd800, 0x10ffff, 0x110000, math.MaxInt64, math.MinInt64, 7} {
		p[kInt] = append(p[kInt], &tengo.Int{Value: i})
	}
	for _, f := range []float64{0, math.Copysign(0, -1), 1, -1.5, 0.5, 0.000123456, 123456789.125, 1e20, 1e21, 1e-7, 1.0 / 3, 2.5,
		math.NaN(), math.Inf(1), math.Inf(-1), 5e-324, math.MaxFloat64, 100, 0.1, 99999.95} {
		p[kFloat] = append(p[kFloat], &tengo.Float{Value: f})
	}
	for _, s := range []string{"", "a", "hello", "é日\U0001F600", "a\xffb", "\"q\" `r` \\", "\x00\n\t", "hello, world! 0123456789"} {
		p[kString] = append(p[kString], &tengo.String{Value: s})
		p[kBytes] = append(p[kBytes], &tengo.Bytes{Value: []byte(s)})
	}
	return p
}

// ---------- fuzz input decoding ----------

type fuzzSeed struct {
	format string
	args   []byte
}

func encInt(v int64) []byte {
	b := make([]byte, 9)
	b[0] = 0
	binary.LittleEndian.PutUint64(b[1:], uint64(v))
	return b
}

func encFloat(v float64) []byte {
	b := make([]byte, 9)
	b[0] = 2
	binary.LittleEndian.PutUint64(b[1:], math.Float64bits(v))
	return b
}

func encStr(tag byte, s string) []byte {
	return append([]byte{tag, byte(len(s))}, s...)
}

func cat(limit byte, parts ...[]byte) []byte {
	out := []byte{limit}
	for _, p := range parts {
		out = append(out, p...)
	}
	return out
}

func fuzzSeeds() []fuzzSeed {
	return []fuzzSeed{
		{"%5d|%-4s|%.2f", cat(0, encInt(42), encStr(3, "ab"), encFloat(1.5))},
		{"%[2]*[1]d %x % X %q", cat(0, encInt(7), encInt(5), encStr(3, "hi\xff"), encStr(4, "by"), encStr(3, "q\"`"))},
		{"%#g %#.3G %e %+08.3f %b", cat(0, encFloat(0.5), encFloat(1e21), encFloat(-0.0), encFloat(math.Inf(1)), encFloat(3))},
		{"%c %q %U %#U %O %#o %b", cat(0, encInt(0x1f600), encInt('x'), encInt(0xd800), encInt(0x4e16), encInt(8), encInt(-8), encInt(5))},
		{"%v %v %v %t", cat(0, encStr(3, "abc"), encFloat(1e21), encStr(4, "hi"), []byte{5, 1})},
		{"%1000000d", cat(2, encInt(1))},
		{"%x", cat(2, encStr(3, strings.Repeat("0123456789", 4)))},
		{"%[999999999]d %[", cat(1, encInt(1))},
		{"%.*f|%-*d|%*d", cat(0, encInt(3), encFloat(2.0/3), encInt(-6), encInt(1), encInt(1000001), encInt(2))},
		{"100%% %d", cat(0)},
		{"%s %d %v", cat(3, []byte{8, 2, 1, 0x10, 7}, []byte{7}, []byte{9, 0, 1, 3})},
		{"%!(EXTRA %d", cat(0, encInt(1), encInt(2))},
	}
}

var fuzzLimits = []int{0, 16, 64, 1000}

type argDecoder struct {
	b   []byte
	pos int
}

func (d *argDecoder) byte() (byte, bool) {
	if d.pos >= len(d.b) {
		return 0, false
	}
	c := d.b[d.pos]
	d.pos++
	return c, true
}

func (d *argDecoder) u64() uint64 {
	var buf [8]byte
	n := copy(buf[:], d.b[d.pos:])
	d.pos += n
	return binary.LittleEndian.Uint64(buf[:])
}

func (d *argDecoder) str() string {
	n, ok := d.byte()
	if !ok {
		return ""
	}
	l := int(n) % 48
	if d.pos+l > len(d.b) {
		l = len(d.b) - d.pos
	}
	s := string(d.b[d.pos : d.pos+l])
	d.pos += l
	return s
}

func (d *argDecoder) value(depth int) (tengo.Object, bool) {
	tag, ok := d.byte()
	if !ok {
		return nil, false
	}
	switch tag % 12 {
	case 0:
		return &tengo.Int{Value: int64(d.u64())}, true
	case 1:
		c, _ := d.byte()
		return &tengo.Int{Value: int64(int8(c))}, true
	case 2:
		return &tengo.Float{Value: math.Float64frombits(d.u64())}, true
	case 3:
		return &tengo.String{Value: d.str()}, true
	case 4:
		return &tengo.Bytes{Value: []byte(d.str())}, true
	case 5:
		c, _ := d.byte()
		if c&1 == 1 {
			return tengo.TrueValue, true
		}
		return tengo.FalseValue, true
	case 6:
		return &tengo.Char{Value: rune(uint32(d.u64()))}, true
	case 7:
		return tengo.UndefinedValue, true
	case 8, 9:
		c, _ := d.byte()
		n := int(c) % 4
		if depth <= 0 {
			n = 0
		}
		xs := make([]tengo.Object, 0, n)
		for i := 0; i < n; i++ {
			v, ok := d.value(depth - 1)
			if !ok {
				break
			}
			xs = append(xs, v)
		}
		switch {
		case tag%12 == 8 && c&0x80 == 0:
			return &tengo.Array{Value: xs}, true
		case tag%12 == 8:
			return &tengo.ImmutableArray{Value: xs}, true
		}
		m := map[string]tengo.Object{}
		for i, x := range xs {
			m["k"+strconv.Itoa(i)] = x
			if len(m) == 1 && c&0x40 != 0 {
				break // keep single-key maps frequent
			}
		}
		if c&0x80 == 0 {
			return &tengo.Map{Value: m}, true
		}
		return &tengo.ImmutableMap{Value: m}, true
	case 10:
		var inner tengo.Object = tengo.UndefinedValue
		if depth > 0 {
			if v, ok := d.value(depth - 1); ok {
				inner = v
			}
		}
		return &tengo.Error{Value: inner}, true
	default:
		c, _ := d.byte()
		if c&1 == 0 {
			return &tengo.Time{Value: time.Unix(int64(int32(uint32(d.u64()))), 0).UTC()}, true
		}
		for _, f := range tengo.GetAllBuiltinFunctions() {
			if f.Name == "len" {
				return f, true
			}
		}
		return tengo.UndefinedValue, true
	}
}

// fuzzCase decodes (format, argdata): argdata[0] selects MaxStringLen, the rest
// is a sequence of tagged values (at most 6 arguments).
func fuzzCase(format, argdata []byte) *fcase {
	c := &fcase{Format: string(format), Mode: 'B', Paths: pathDirect, Origin: "fuzz"}
	d := &argDecoder{b: argdata}
	if lb, ok := d.byte(); ok {
		c.Limit = fuzzLimits[int(lb)%len(fuzzLimits)]
		if lb&0x80 != 0 {
			c.Paths |= pathBuiltin
		}
	}
	for len(c.Args) < 6 {
		v, ok := d.value(2)
		if !ok {
			break
		}
		c.Args = append(c.Args, v)
	}
	c.normalize()
	return c
}
