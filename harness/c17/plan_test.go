package c17

// A model of how Go's fmt (go1.23 fmt.doPrintf) parses a format string and
// consumes arguments. It prints nothing for operands: it records, per
// directive, which argument is formatted with which verb, flags, width and
// precision, and the "skeleton" output (literal text plus the %!(BADWIDTH),
// %!(BADPREC), %!(NOVERB), %!v(MISSING), %!v(BADINDEX) markers). The model is
// used only to *classify* a case (equality domain / property exclusion / known
// finding / out of domain) - never to predict formatted text, which always
// comes from fmt.Sprintf itself. TestPlannerModel validates the model against
// fmt.Sprintf with recording fmt.Formatter arguments.

import (
	"math"
	"os"
	"strconv"
	"strings"
	"unicode/utf8"

	"github.com/d5/tengo/v2"
)

type kind int

const (
	kInt kind = iota
	kFloat
	kString
	kBool
	kBytes
	kOther
)

var kindNames = [...]string{"int", "float", "string", "bool", "bytes", "other"}

func (k kind) String() string { return kindNames[k] }

func kindOf(o tengo.Object) kind {
	switch o.(type) {
	case *tengo.Int:
		return kInt
	case *tengo.Float:
		return kFloat
	case *tengo.String:
		return kString
	case *tengo.Bool:
		return kBool
	case *tengo.Bytes:
		return kBytes
	}
	return kOther
}

// docs/formatting.md: the verbs documented per argument type (%T is excluded
// from the equality claim: type names differ by design).
var verbsFor = map[kind]string{
	kBool:   "tv",
	kInt:    "bcdoOqxXUv",
	kFloat:  "beEfFgGxXv",
	kString: "sqxXv",
	kBytes:  "sqxXv",
}

// every documented verb (used for directives that format no operand:
// %!d(MISSING), %!d(BADINDEX)).
const documentedVerbs = "vtbcdoOqxXUeEfFgGs"

const (
	evOperand = iota
	evPercent
	evBadIndex
	evMissing
	evNoVerb
)

type dirEvent struct {
	Kind int
	Verb rune
	Arg  int // operand index (evOperand)

	Plus, Minus, Sharp, Space, Zero bool
	WidPresent                      bool
	Wid                             int
	PrecPresent                     bool
	Prec                            int

	BadWidth, BadPrec bool
	NegStarWidth      bool
	StarArgs          []int // argument indexes consumed by '*'
	StarMissing       bool  // a '*' found no argument
	StarNonInt        bool  // a '*' consumed an argument that is not an Int
	Indexed           bool  // an explicit [n] appeared in the directive
	HasFlag           bool  // a flag character appeared
	HasWid, HasPrec   bool  // width / precision syntactically present
	Fast              bool  // taken through doPrintf's fast path
}

type plan struct {
	Events    []dirEvent
	Skel      string
	Extra     []int // surplus arguments (rendered as %!(EXTRA ...))
	Reordered bool
}

func tooLarge(x int) bool {
	const max int = 1e6
	return x > max || x < -max
}

func parsenum(s string, start, end int) (num int, isnum bool, newi int) {
	if start >= end {
		return 0, false, end
	}
	for newi = start; newi < end && '0' <= s[newi] && s[newi] <= '9'; newi++ {
		if tooLarge(num) {
			return 0, false, end
		}
		num = num*10 + int(s[newi]-'0')
		isnum = true
	}
	return
}

func parseArgNumber(format string) (index int, wid int, ok bool) {
	if len(format) < 3 {
		return 0, 1, false
	}
	for i := 1; i < len(format); i++ {
		if format[i] == ']' {
			width, ok, newi := parsenum(format, 1, i)
			if !ok || newi != i {
				return 0, i + 1, false
			}
			return width - 1, i + 1, true
		}
	}
	return 0, 1, false
}

// planFormat mirrors fmt.doPrintf (go1.23).
func planFormat(format string, args []tengo.Object) *plan {
	p := &plan{}
	var skel strings.Builder
	end := len(format)
	argNum := 0
	afterIndex := false
	numArgs := len(args)

	goodArgNum := true
	argNumber := func(argNum int, i int, d *dirEvent) (int, int, bool) {
		if len(format) <= i || format[i] != '[' {
			return argNum, i, false
		}
		p.Reordered = true
		d.Indexed = true
		index, wid, ok := parseArgNumber(format[i:])
		if ok && 0 <= index && index < numArgs {
			return index, i + wid, true
		}
		goodArgNum = false
		return argNum, i + wid, ok
	}
	intFromArg := func(argNum int, d *dirEvent) (num int, isInt bool, newArgNum int) {
		newArgNum = argNum
		if argNum < numArgs {
			d.StarArgs = append(d.StarArgs, argNum)
			if iv, ok := args[argNum].(*tengo.Int); ok {
				num, isInt = int(iv.Value), true
			} else {
				d.StarNonInt = true
			}
			newArgNum = argNum + 1
			if tooLarge(num) {
				num, isInt = 0, false
			}
		} else {
			d.StarMissing = true
		}
		return
	}

	for i := 0; i < end; {
		goodArgNum = true
		lasti := i
		for i < end && format[i] != '%' {
			i++
		}
		if i > lasti {
			skel.WriteString(format[lasti:i])
		}
		if i >= end {
			break
		}
		i++

		var d dirEvent
		fast := false
	simpleFormat:
		for ; i < end; i++ {
			c := format[i]
			switch c {
			case '#':
				d.Sharp, d.HasFlag = true, true
			case '0':
				d.Zero, d.HasFlag = true, true
			case '+':
				d.Plus, d.HasFlag = true, true
			case '-':
				d.Minus, d.HasFlag = true, true
			case ' ':
				d.Space, d.HasFlag = true, true
			default:
				if 'a' <= c && c <= 'z' && argNum < numArgs {
					d.Kind, d.Verb, d.Arg, d.Fast = evOperand, rune(c), argNum, true
					p.Events = append(p.Events, d)
					argNum++
					i++
					fast = true
				}
				break simpleFormat
			}
		}
		if fast {
			continue
		}

		argNum, i, afterIndex = argNumber(argNum, i, &d)

		if i < end && format[i] == '*' {
			i++
			d.HasWid = true
			d.Wid, d.WidPresent, argNum = intFromArg(argNum, &d)
			if !d.WidPresent {
				skel.WriteString("%!(BADWIDTH)")
				d.BadWidth = true
			}
			if d.Wid < 0 {
				d.Wid = -d.Wid
				d.Minus = true
				d.Zero = false
				d.NegStarWidth = true
			}
			afterIndex = false
		} else {
			d.Wid, d.WidPresent, i = parsenum(format, i, end)
			if d.WidPresent {
				d.HasWid = true
			}
			if afterIndex && d.WidPresent {
				goodArgNum = false
			}
		}

		if i+1 < end && format[i] == '.' {
			i++
			d.HasPrec = true
			if afterIndex {
				goodArgNum = false
			}
			argNum, i, afterIndex = argNumber(argNum, i, &d)
			if i < end && format[i] == '*' {
				i++
				d.Prec, d.PrecPresent, argNum = intFromArg(argNum, &d)
				if d.Prec < 0 {
					d.Prec = 0
					d.PrecPresent = false
				}
				if !d.PrecPresent {
					skel.WriteString("%!(BADPREC)")
					d.BadPrec = true
				}
				afterIndex = false
			} else {
				d.Prec, d.PrecPresent, i = parsenum(format, i, end)
				if !d.PrecPresent {
					d.Prec = 0
					d.PrecPresent = true
				}
			}
		}

		if !afterIndex {
			argNum, i, afterIndex = argNumber(argNum, i, &d)
		}

		if i >= end {
			skel.WriteString("%!(NOVERB)")
			d.Kind = evNoVerb
			p.Events = append(p.Events, d)
			break
		}

		verb, size := rune(format[i]), 1
		if verb >= utf8.RuneSelf {
			verb, size = utf8.DecodeRuneInString(format[i:])
		}
		i += size
		d.Verb = verb

		switch {
		case verb == '%':
			skel.WriteByte('%')
			d.Kind = evPercent
		case !goodArgNum:
			skel.WriteString("%!" + string(verb) + "(BADINDEX)")
			d.Kind = evBadIndex
		case argNum >= numArgs:
			skel.WriteString("%!" + string(verb) + "(MISSING)")
			d.Kind = evMissing
		default:
			d.Kind = evOperand
			d.Arg = argNum
			argNum++
		}
		p.Events = append(p.Events, d)
	}

	if !p.Reordered && argNum < numArgs {
		for j := argNum; j < numArgs; j++ {
			p.Extra = append(p.Extra, j)
		}
	}
	p.Skel = skel.String()
	return p
}

// ---------- classification ----------

// Named switches of open findings (BUILDING.md rule 3). While a switch is on,
// cases matching the finding's exact input pattern are excluded from the
// oracle clause they break (counted as discards "known:<id>"). All four
// findings are repaired in /repo: every switch is off, the patterns are judged
// by the ordinary clauses, the reproducers are under replays/C17/fixed.
var openFindings = map[string]bool{
	"F18":          false, // %v rendered Object.String(); repaired by 35c2043 (documented default formats, like Go)
	"F19":          false, // format(f)/fmt.sprintf(f) with no arguments returned f verbatim; repaired by e1b2eba
	"F21":          false, // %#g / %#G digit count for values with a leading "0."; repaired by 73e3213
	"F-C17-hexlen": false, // %x/%X of string-like operands bypassed MaxStringLen; repaired by 5aab558
}

// C17_SWITCH_OFF=F18,F21 turns exclusion switches off for one run (used to
// re-derive a finding with the generators, and after a repair in /repo to see
// whether the search stays green behind it before editing the map above).
func init() {
	for _, id := range strings.Split(os.Getenv("C17_SWITCH_OFF"), ",") {
		if id = strings.TrimSpace(id); id != "" {
			openFindings[id] = false
		}
	}
}

type verdict struct {
	Reason     string // "" = inside the equality claim
	Nontrivial bool
	Classes    []string
	HexStrLike bool // some %x/%X operand is rendered by fmtSbx (string, bytes, or any non int/float/bool value)
}

func isCodePoint(v int64) bool { return v >= 0 && v <= utf8.MaxRune }

// f18Pattern: the %v directives whose rendering through Object.String()
// differs from Go's: every string, bytes and float operand; int and bool
// operands only when a flag other than '-' or a precision is present
// (Int.String()/Bool.String() coincide with %d/%t otherwise).
func f18Pattern(d *dirEvent, k kind) bool {
	if d.Verb != 'v' {
		return false
	}
	switch k {
	case kInt, kBool:
		return d.Plus || d.Sharp || d.Space || d.Zero || d.PrecPresent || d.HasPrec
	}
	return true
}

// f21Pattern: %#g / %#G of a finite float that %g renders in %f style with a
// leading "0." (decimal exponent -4..-1 after rounding to the precision) and
// with fewer significant digits than the precision asks for (explicit, or 6),
// i.e. exactly the values for which '#' has to restore trailing zeros while
// the port also counts the leading zeros as significant digits.
func f21Pattern(d *dirEvent, v float64) bool {
	if !d.Sharp || (d.Verb != 'g' && d.Verb != 'G') {
		return false
	}
	if math.IsNaN(v) || math.IsInf(v, 0) {
		return false
	}
	prec, want := -1, 6
	if d.PrecPresent {
		prec, want = d.Prec, d.Prec
	}
	s := strconv.FormatFloat(math.Abs(v), 'g', prec, 64)
	if !strings.HasPrefix(s, "0.") {
		return false
	}
	sig := len(strings.TrimLeft(s[2:], "0"))
	return sig < want
}

func classify(p *plan, args []tengo.Object, sw map[string]bool) verdict {
	var v verdict
	cls := map[string]bool{}
	reasons := map[string]bool{}

	for _, a := range args {
		if kindOf(a) == kOther {
			reasons["out-of-domain:arg-type"] = true
		}
	}
	if len(p.Extra) > 0 {
		reasons["excluded:surplus-args"] = true
	}
	for i := range p.Events {
		d := &p.Events[i]
		if d.Kind != evPercent && d.Kind != evNoVerb {
			if d.HasFlag || d.HasWid || d.HasPrec || d.Indexed || d.Kind == evMissing || d.StarMissing {
				v.Nontrivial = true
			}
		}
		if d.HasFlag {
			if d.Plus {
				cls["flag:+"] = true
			}
			if d.Minus && !d.NegStarWidth {
				cls["flag:-"] = true
			}
			if d.Sharp {
				cls["flag:#"] = true
			}
			if d.Space {
				cls["flag:space"] = true
			}
			if d.Zero {
				cls["flag:0"] = true
			}
		}
		if len(d.StarArgs) > 0 || d.StarMissing {
			cls["star"] = true
		}
		if d.NegStarWidth {
			cls["star:negative-width"] = true
		}
		if d.StarMissing {
			cls["star:missing-arg"] = true
		}
		if d.BadWidth {
			cls["out:BADWIDTH"] = true
		}
		if d.BadPrec {
			cls["out:BADPREC"] = true
		}
		if d.HasWid && len(d.StarArgs) == 0 && !d.StarMissing {
			cls["width:literal"] = true
		}
		if d.HasPrec {
			cls["prec"] = true
		}
		if d.Indexed {
			cls["indexed"] = true
		}
		if d.StarNonInt {
			reasons["out-of-domain:star-non-int"] = true
		}
		switch d.Kind {
		case evNoVerb:
			reasons["out-of-domain:noverb"] = true
		case evPercent:
			cls["%%"] = true
		case evBadIndex, evMissing:
			if d.Kind == evBadIndex {
				cls["out:BADINDEX"] = true
			} else {
				cls["out:MISSING"] = true
			}
			if d.Verb >= utf8.RuneSelf || !strings.ContainsRune(documentedVerbs, d.Verb) {
				reasons["out-of-domain:verb"] = true
			}
		case evOperand:
			a := args[d.Arg]
			k := kindOf(a)
			if k == kOther {
				if d.Verb == 'x' || d.Verb == 'X' {
					v.HexStrLike = true
				}
				continue
			}
			if (d.Verb == 'x' || d.Verb == 'X') && (k == kString || k == kBytes) {
				v.HexStrLike = true
			}
			if d.Verb >= utf8.RuneSelf || !strings.ContainsRune(verbsFor[k], d.Verb) {
				reasons["out-of-domain:verb-type"] = true
				continue
			}
			cls[k.String()+":%"+string(d.Verb)] = true
			switch k {
			case kInt:
				iv := a.(*tengo.Int).Value
				if d.Verb == 'q' && !isCodePoint(iv) {
					reasons["excluded:q-on-non-code-point-int"] = true
				}
				if !isCodePoint(iv) {
					cls["int:non-code-point"] = true
				} else if iv >= 0xD800 && iv <= 0xDFFF {
					cls["int:surrogate"] = true
				}
				if iv == math.MinInt64 || iv == math.MaxInt64 {
					cls["int:boundary64"] = true
				}
			case kFloat:
				fv := a.(*tengo.Float).Value
				if d.Sharp && (d.Verb == 'x' || d.Verb == 'X') {
					reasons["excluded:sharp-with-x-on-float"] = true
				}
				if sw["F21"] && f21Pattern(d, fv) {
					reasons["known:F21"] = true
				}
				switch {
				case math.IsNaN(fv):
					cls["float:nan"] = true
				case math.IsInf(fv, 0):
					cls["float:inf"] = true
				case fv == 0:
					cls["float:zero"] = true
				case math.Abs(fv) < 2.2250738585072014e-308:
					cls["float:subnormal"] = true
				case math.Abs(fv) >= 1e21 || math.Abs(fv) < 1e-4:
					cls["float:exp-range"] = true
				}
			case kString, kBytes:
				var s string
				if k == kString {
					s = a.(*tengo.String).Value
				} else {
					s = string(a.(*tengo.Bytes).Value)
				}
				switch {
				case s == "":
					cls["str:empty"] = true
				case !utf8.ValidString(s):
					cls["str:invalid-utf8"] = true
				case len(s) != utf8.RuneCountInString(s):
					cls["str:multibyte"] = true
				}
			}
			if sw["F18"] && f18Pattern(d, k) {
				reasons["known:F18"] = true
			}
		}
	}

	// one reason per case, by fixed priority: outside the claim first, then the
	// property's own exclusions, then open findings.
	for _, r := range []string{
		"out-of-domain:arg-type", "out-of-domain:noverb", "out-of-domain:star-non-int",
		"out-of-domain:verb-type", "out-of-domain:verb",
		"excluded:surplus-args", "excluded:q-on-non-code-point-int", "excluded:sharp-with-x-on-float",
		"known:F18", "known:F21",
	} {
		if reasons[r] {
			v.Reason = r
			break
		}
	}
	for c := range cls {
		v.Classes = append(v.Classes, c)
	}
	return v
}
