package c17

// Validation of the harness's own model (DESIGN.md §6 rule 6): planFormat must
// describe exactly what fmt.Sprintf does with a format string - which argument
// is formatted by which verb with which flags, width and precision, and which
// error markers are printed. Ground truth: fmt.Sprintf itself, called with
// arguments that implement fmt.Formatter and record every call. A disagreement
// is a harness defect (plain t.Fatalf => exit 2), never a verdict about tengo.

import (
	"fmt"
	"strings"
	"testing"

	"github.com/d5/tengo/v2"
	"pgregory.net/rapid"

	"verifharness/ev"
)

type recEvent struct {
	ID              int64
	IsInt           bool
	Verb            rune
	Wid             int
	WidOK           bool
	Prec            int
	PrecOK          bool
	Plus, Minus     bool
	Sharp, Space, Z bool
}

var recLog []recEvent

func record(id int64, isInt bool, s fmt.State, verb rune) {
	e := recEvent{ID: id, IsInt: isInt, Verb: verb}
	e.Wid, e.WidOK = s.Width()
	e.Prec, e.PrecOK = s.Precision()
	if !e.WidOK {
		e.Wid = 0
	}
	if !e.PrecOK {
		e.Prec = 0
	}
	e.Plus, e.Minus, e.Sharp, e.Space, e.Z = s.Flag('+'), s.Flag('-'), s.Flag('#'), s.Flag(' '), s.Flag('0')
	recLog = append(recLog, e)
}

// recInt is usable as a '*' width/precision (reflect.Int64 kind) and records
// when it is formatted as an operand.
type recInt int64

func (r recInt) Format(s fmt.State, verb rune) { record(int64(r), true, s, verb) }

type recOther struct{ id int }

func (r recOther) Format(s fmt.State, verb rune) { record(int64(r.id), false, s, verb) }

func checkPlanModel(format string, args []tengo.Object) string {
	p := planFormat(format, args)
	for i := range p.Events {
		d := &p.Events[i]
		if d.Kind == evOperand && (d.Verb == 'T' || d.Verb == 'p' || d.Verb == 'w') {
			return "skip" // fmt does not call Formatter for these
		}
	}
	goArgs := make([]interface{}, len(args))
	for i, a := range args {
		if iv, ok := a.(*tengo.Int); ok {
			goArgs[i] = recInt(iv.Value)
		} else {
			goArgs[i] = recOther{id: i}
		}
	}
	idOf := func(i int) (int64, bool) {
		if iv, ok := args[i].(*tengo.Int); ok {
			return iv.Value, true
		}
		return int64(i), false
	}
	var want []recEvent
	for i := range p.Events {
		d := &p.Events[i]
		if d.Kind != evOperand {
			continue
		}
		id, isInt := idOf(d.Arg)
		e := recEvent{ID: id, IsInt: isInt, Verb: d.Verb, WidOK: d.WidPresent, PrecOK: d.PrecPresent,
			Plus: d.Plus, Minus: d.Minus, Sharp: d.Sharp, Space: d.Space, Z: d.Zero}
		if d.WidPresent {
			e.Wid = d.Wid
		}
		if d.PrecPresent {
			e.Prec = d.Prec
		}
		want = append(want, e)
	}
	wantOut := p.Skel
	if len(p.Extra) > 0 {
		var parts []string
		for _, j := range p.Extra {
			id, isInt := idOf(j)
			want = append(want, recEvent{ID: id, IsInt: isInt, Verb: 'v'})
			if isInt {
				parts = append(parts, "c17.recInt=")
			} else {
				parts = append(parts, "c17.recOther=")
			}
		}
		wantOut += "%!(EXTRA " + strings.Join(parts, ", ") + ")"
	}
	recLog = recLog[:0]
	gotOut := fmt.Sprintf(format, goArgs...)
	if gotOut != wantOut {
		return fmt.Sprintf("skeleton: model %q, fmt %q", wantOut, gotOut)
	}
	if len(recLog) != len(want) {
		return fmt.Sprintf("operand events: model %+v, fmt %+v", want, recLog)
	}
	for i := range want {
		if want[i] != recLog[i] {
			return fmt.Sprintf("operand event %d: model %+v, fmt %+v", i, want[i], recLog[i])
		}
	}
	return ""
}

func TestPlannerModel(t *testing.T) {
	rapid.Check(t, func(t *rapid.T) {
		var c *fcase
		if rapid.Bool().Draw(t, "which") {
			c = genEqCase(t)
		} else {
			c = genTotalCase(t)
		}
		switch r := checkPlanModel(c.Format, c.Args); r {
		case "":
			ev.Class("model:validated-against-fmt")
		case "skip":
			ev.Class("model:skipped(%T,%p,%w)")
		default:
			t.Fatalf("HARNESS MODEL DEFECT (not a verdict about tengo): format %q args %s: %s", c.Format, describeArgs(c.Args), r)
		}
	})
}
